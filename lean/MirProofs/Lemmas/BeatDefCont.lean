import MirProofs.Lemmas.BeatTotal
import Mathlib.Data.Nat.Find
/-!
  `mir_eval.beat.continuity` = its published definition (Layer S), for all inputs.

  The code walks over the estimated beats once, carrying a mutable array `used_annotations`.  Here the same
  four scores are defined without any state or recursion:

  * `IsNearest` / `nearestIdx`   — the annotation nearest to an estimated beat (first minimum, `np.argmin`);
  * `LocalOk` / `localOkB`       — the phase and period conditions of one estimated beat w.r.t. its nearest
                                   annotation (no reference to which annotations have been used);
  * `Correct` / `correctB`       — the beat is locally ok and is the FIRST locally-ok beat of its annotation;
  * `IsLongestRun` / `runSpec`   — the longest window of consecutive correct beats (brute force);
  * `specVariation`, `IsMaxOf`   — the per-variation scores and the maxima over the metrical variations.

  Main results: `contBeat_eq`, `contLoop_eq_spec`, `longestRun_isLongestRun`, `longestRun_eq_runSpec`,
  `contVariation_eq_spec`, `continuityCore_eq_spec`, `continuityCore_self_total`.
-/
namespace Mir
namespace Beat
open Mir.Totality

/-! ### 1. nearest annotation: `np.argmin` of `|e - refv|` = first minimum -/

/-- value / index facts of `minIdx`: it returns an element of the list which is `≤` every element and
    `<` every earlier element -/
theorem minIdx_spec : ∀ (l : List Rat) (d : Rat) (j : Nat), minIdx l = some (d, j) →
    l[j]? = some d ∧ (∀ (k : Nat) (x : Rat), l[k]? = some x → d ≤ x) ∧
      (∀ (k : Nat) (x : Rat), k < j → l[k]? = some x → d < x) := by
  intro l
  induction l with
  | nil => intro d j h; simp [minIdx] at h
  | cons a t ih =>
    intro d j h
    unfold minIdx at h
    cases ht : minIdx t with
    | none =>
      have htn : t = [] := by
        cases t with
        | nil => rfl
        | cons b t' =>
          obtain ⟨_, _, h'⟩ := minIdx_some (b :: t') (by simp)
          simp [h'] at ht
      subst htn
      simp only [ht, Option.some.injEq, Prod.mk.injEq] at h
      obtain ⟨rfl, rfl⟩ := h
      refine ⟨by simp, ?_, by intro k x hk; omega⟩
      intro k x hk
      cases k with
      | zero => simp at hk; simp [hk]
      | succ k => simp at hk
    | some r =>
      obtain ⟨m', j'⟩ := r
      simp only [ht] at h
      obtain ⟨i1, i2, i3⟩ := ih m' j' ht
      split at h
      · rename_i hle
        simp only [Option.some.injEq, Prod.mk.injEq] at h
        obtain ⟨rfl, rfl⟩ := h
        refine ⟨by simp, ?_, by intro k x hk; omega⟩
        intro k x hk
        cases k with
        | zero => simp at hk; simp [hk]
        | succ k => simp at hk; exact le_trans hle (i2 k x hk)
      · rename_i hnle
        simp only [Option.some.injEq, Prod.mk.injEq] at h
        obtain ⟨rfl, rfl⟩ := h
        refine ⟨by simpa using i1, ?_, ?_⟩
        · intro k x hk
          cases k with
          | zero => simp at hk; subst hk; exact le_of_lt (not_le.1 hnle)
          | succ k => simp at hk; exact i2 k x hk
        · intro k x hkj hk
          cases k with
          | zero => simp at hk; subst hk; exact not_le.1 hnle
          | succ k => simp at hk; exact i3 k x (by omega) hk

theorem getElem?_eq_getD {l : List Rat} {k : Nat} (h : k < l.length) : l[k]? = some (l.getD k 0) := by
  simp [List.getD, List.getElem?_eq_getElem h]

/-- `j` is the annotation nearest to the estimated beat `e`: no annotation is nearer, and every earlier
    annotation is strictly farther (ties go to the first, as `np.argmin` does) -/
def IsNearest (refv : List Rat) (e : Rat) (j : Nat) : Prop :=
  j < refv.length ∧ (∀ k, k < refv.length → |e - refv.getD j 0| ≤ |e - refv.getD k 0|) ∧
    (∀ k, k < j → |e - refv.getD j 0| < |e - refv.getD k 0|)

/-- the index `np.argmin(np.abs(e - refv))` (0 on an empty array, where the code raises) -/
def nearestIdx (refv : List Rat) (e : Rat) : Nat :=
  match minIdx (refv.map fun r => absR (e - r)) with
  | some (_, j) => j
  | none => 0

/-- what the code's `argmin` returns is a nearest annotation in the sense of `IsNearest`, and `min_difference`
    is the distance to it -/
theorem minIdx_isNearest {refv : List Rat} {e d : Rat} {j : Nat}
    (h : minIdx (refv.map fun r => absR (e - r)) = some (d, j)) :
    IsNearest refv e j ∧ d = |e - refv.getD j 0| := by
  obtain ⟨h1, h2, h3⟩ := minIdx_spec _ _ _ h
  have hj : j < refv.length := by simpa using minIdx_lt _ _ _ h
  have hd : d = |e - refv.getD j 0| := by
    rw [List.getElem?_map, getElem?_eq_getD hj] at h1
    simp only [Option.map_some, Option.some.injEq] at h1
    rw [← h1, absR_eq_abs]
  refine ⟨⟨hj, ?_, ?_⟩, hd⟩
  · intro k hk
    have := h2 k (absR (e - refv.getD k 0)) (by rw [List.getElem?_map, getElem?_eq_getD hk]; rfl)
    rwa [hd, absR_eq_abs] at this
  · intro k hk
    have := h3 k (absR (e - refv.getD k 0)) hk
      (by rw [List.getElem?_map, getElem?_eq_getD (by omega : k < refv.length)]; rfl)
    rwa [hd, absR_eq_abs] at this

theorem IsNearest.unique {refv : List Rat} {e : Rat} {j j' : Nat} (h : IsNearest refv e j)
    (h' : IsNearest refv e j') : j = j' := by
  obtain ⟨a1, a2, a3⟩ := h
  obtain ⟨b1, b2, b3⟩ := h'
  rcases Nat.lt_trichotomy j j' with hlt | heq | hgt
  · have := b3 j hlt; have := a2 j' b1; linarith
  · exact heq
  · have := a3 j' hgt; have := b2 j a1; linarith

theorem minIdx_nearestIdx {refv : List Rat} (hne : refv ≠ []) (e : Rat) :
    minIdx (refv.map fun r => absR (e - r)) = some (|e - refv.getD (nearestIdx refv e) 0|, nearestIdx refv e) := by
  obtain ⟨d, j, h⟩ := minIdx_some (refv.map fun r => absR (e - r)) (by simpa using hne)
  have hj : nearestIdx refv e = j := by simp [nearestIdx, h]
  rw [hj, h, (minIdx_isNearest h).2]

theorem nearestIdx_isNearest {refv : List Rat} (hne : refv ≠ []) (e : Rat) :
    IsNearest refv e (nearestIdx refv e) :=
  (minIdx_isNearest (minIdx_nearestIdx hne e)).1

theorem isNearest_iff {refv : List Rat} (hne : refv ≠ []) (e : Rat) (j : Nat) :
    IsNearest refv e j ↔ j = nearestIdx refv e :=
  ⟨fun h => h.unique (nearestIdx_isNearest hne e), fun h => h ▸ nearestIdx_isNearest hne e⟩

theorem nearestIdx_lt {refv : List Rat} (hne : refv ≠ []) (e : Rat) : nearestIdx refv e < refv.length :=
  (nearestIdx_isNearest hne e).1

/-! ### 4. longest run of successes, brute force -/

/-- the `k` flags `bs[s], …, bs[s+k-1]` exist and are all `true` -/
def RunAt (bs : List Bool) (s k : Nat) : Prop :=
  s + k ≤ bs.length ∧ ∀ i, s ≤ i → i < s + k → bs[i]? = some true

/-- `k` is the length of a longest window of consecutive `true`s of `bs` -/
def IsLongestRun (bs : List Bool) (k : Nat) : Prop :=
  (∃ s, s + k ≤ bs.length ∧ ∀ i, s ≤ i → i < s + k → bs[i]? = some true) ∧
    ¬ ∃ s, s + (k + 1) ≤ bs.length ∧ ∀ i, s ≤ i → i < s + (k + 1) → bs[i]? = some true

theorem RunAt.mono {bs : List Bool} {s k k' : Nat} (h : RunAt bs s k') (hk : k ≤ k') : RunAt bs s k :=
  ⟨by have := h.1; omega, fun i h1 h2 => h.2 i h1 (by omega)⟩

theorem runAt_cons_succ (b : Bool) (t : List Bool) (s k : Nat) : RunAt (b :: t) (s + 1) k ↔ RunAt t s k := by
  constructor
  · rintro ⟨h1, h2⟩
    refine ⟨by simp at h1; omega, fun i hi1 hi2 => ?_⟩
    have := h2 (i + 1) (by omega) (by omega)
    simpa using this
  · rintro ⟨h1, h2⟩
    refine ⟨by simp; omega, fun i hi1 hi2 => ?_⟩
    obtain ⟨i', rfl⟩ : ∃ i', i = i' + 1 := ⟨i - 1, by omega⟩
    simpa using h2 i' (by omega) (by omega)

theorem runAt_zero_cons_succ (b : Bool) (t : List Bool) (k : Nat) :
    RunAt (b :: t) 0 (k + 1) ↔ b = true ∧ RunAt t 0 k := by
  constructor
  · rintro ⟨h1, h2⟩
    refine ⟨by simpa using h2 0 (by omega) (by omega), by simp at h1; omega, fun i _ hi2 => ?_⟩
    simpa using h2 (i + 1) (by omega) (by omega)
  · rintro ⟨rfl, h1, h2⟩
    refine ⟨by simp; omega, fun i _ hi2 => ?_⟩
    cases i with
    | zero => simp
    | succ i' => simpa using h2 i' (by omega) (by omega)

theorem le_longestRun : ∀ (bs : List Bool) (cur : Nat), cur ≤ longestRun bs cur := by
  intro bs
  induction bs with
  | nil => intro cur; simp [longestRun]
  | cons b t ih =>
    intro cur
    cases b with
    | true => have := ih (cur + 1); simp only [longestRun]; omega
    | false => simp only [longestRun]; omega

/-- a run of `c` trues at the head of `bs` extends the pending run of `cur` -/
theorem longestRun_ge_prefix : ∀ (bs : List Bool) (cur c : Nat), RunAt bs 0 c → cur + c ≤ longestRun bs cur := by
  intro bs
  induction bs with
  | nil => intro cur c h; have := h.1; simp at this; subst this; simp [longestRun]
  | cons b t ih =>
    intro cur c h
    cases c with
    | zero => exact le_longestRun _ _
    | succ c' =>
      obtain ⟨rfl, h'⟩ := (runAt_zero_cons_succ b t c').1 h
      have := ih (cur + 1) c' h'
      simp only [longestRun]; omega

/-- no window of trues is longer than `longestRun` -/
theorem longestRun_ge_run : ∀ (bs : List Bool) (cur s k : Nat), RunAt bs s k → k ≤ longestRun bs cur := by
  intro bs
  induction bs with
  | nil => intro cur s k h; have := h.1; simp at this; omega
  | cons b t ih =>
    intro cur s k h
    cases s with
    | succ s' =>
      have h' := (runAt_cons_succ b t s' k).1 h
      cases b with
      | true => simp only [longestRun]; exact ih _ _ _ h'
      | false => simp only [longestRun]; have := ih 0 _ _ h'; omega
    | zero =>
      cases k with
      | zero => omega
      | succ k' =>
        obtain ⟨rfl, h'⟩ := (runAt_zero_cons_succ b t k').1 h
        have := longestRun_ge_prefix t (cur + 1) k' h'
        simp only [longestRun]; omega

/-- `longestRun` is attained: either by the pending run extended by a prefix of `bs`, or by a window of `bs` -/
theorem longestRun_attained : ∀ (bs : List Bool) (cur : Nat),
    (∃ c, RunAt bs 0 c ∧ longestRun bs cur = cur + c) ∨ (∃ s, RunAt bs s (longestRun bs cur)) := by
  intro bs
  induction bs with
  | nil => intro cur; exact Or.inl ⟨0, ⟨by simp, fun i _ hi => by omega⟩, by simp [longestRun]⟩
  | cons b t ih =>
    intro cur
    cases b with
    | true =>
      simp only [longestRun]
      rcases ih (cur + 1) with ⟨c, hc, he⟩ | ⟨s, hs⟩
      · exact Or.inl ⟨c + 1, (runAt_zero_cons_succ true t c).2 ⟨rfl, hc⟩, by omega⟩
      · exact Or.inr ⟨s + 1, (runAt_cons_succ true t s _).2 hs⟩
    | false =>
      simp only [longestRun]
      by_cases hle : longestRun t 0 ≤ cur
      · refine Or.inl ⟨0, ⟨by simp, fun i _ hi => by omega⟩, ?_⟩
        omega
      · have hmax : max cur (longestRun t 0) = longestRun t 0 := by omega
        rw [hmax]
        rcases ih 0 with ⟨c, hc, he⟩ | ⟨s, hs⟩
        · refine Or.inr ⟨1, (runAt_cons_succ false t 0 _).2 ?_⟩
          rw [he]; simpa using hc
        · exact Or.inr ⟨s + 1, (runAt_cons_succ false t s _).2 hs⟩

/-- the accumulator-based `longestRun` computes the brute-force longest window of successes -/
theorem longestRun_isLongestRun (bs : List Bool) : IsLongestRun bs (longestRun bs 0) := by
  constructor
  · rcases longestRun_attained bs 0 with ⟨c, hc, he⟩ | ⟨s, hs⟩
    · refine ⟨0, ?_⟩
      rw [he, Nat.zero_add]; exact hc
    · exact ⟨s, hs⟩
  · rintro ⟨s, hs⟩
    have := longestRun_ge_run bs 0 s _ hs
    omega

theorem IsLongestRun.unique {bs : List Bool} {k k' : Nat} (h : IsLongestRun bs k) (h' : IsLongestRun bs k') :
    k = k' := by
  obtain ⟨⟨s, hs⟩, hn⟩ := h
  obtain ⟨⟨s', hs'⟩, hn'⟩ := h'
  rcases Nat.lt_trichotomy k k' with hlt | heq | hgt
  · exact absurd ⟨s', RunAt.mono hs' (by omega)⟩ hn
  · exact heq
  · exact absurd ⟨s, RunAt.mono hs (by omega)⟩ hn'

theorem isLongestRun_iff (bs : List Bool) (k : Nat) : IsLongestRun bs k ↔ k = longestRun bs 0 :=
  ⟨fun h => h.unique (longestRun_isLongestRun bs), fun h => h ▸ longestRun_isLongestRun bs⟩

/-- decidable form of "some window of `k` consecutive flags is all true" -/
def hasRunB (bs : List Bool) (k : Nat) : Bool :=
  (List.range (bs.length + 1)).any fun s =>
    decide (s + k ≤ bs.length) && (List.range k).all fun i => bs.getD (s + i) false

theorem hasRunB_iff (bs : List Bool) (k : Nat) : hasRunB bs k = true ↔ ∃ s, RunAt bs s k := by
  unfold hasRunB RunAt
  simp only [List.any_eq_true, List.mem_range, Bool.and_eq_true, decide_eq_true_eq, List.all_eq_true]
  constructor
  · rintro ⟨s, _, h1, h2⟩
    refine ⟨s, h1, fun i hi1 hi2 => ?_⟩
    have := h2 (i - s) (by omega)
    rw [show s + (i - s) = i by omega] at this
    have hlt : i < bs.length := by omega
    simp only [List.getD, List.getElem?_eq_getElem hlt, Option.getD_some] at this
    simp [List.getElem?_eq_getElem hlt, this]
  · rintro ⟨s, h1, h2⟩
    refine ⟨s, by omega, h1, fun i hi => ?_⟩
    have := h2 (s + i) (by omega) (by omega)
    simp [List.getD, this]

/-- the longest window of successes, brute force: the greatest `k ≤ |bs|` for which some window of `k`
    consecutive flags is all true -/
def runSpec (bs : List Bool) : Nat := Nat.findGreatest (fun k => hasRunB bs k = true) bs.length

theorem longestRun_eq_runSpec (bs : List Bool) : longestRun bs 0 = runSpec bs := by
  symm
  unfold runSpec
  rw [Nat.findGreatest_eq_iff]
  obtain ⟨⟨s, hs⟩, hn⟩ := longestRun_isLongestRun bs
  refine ⟨by have := hs.1; omega, fun _ => (hasRunB_iff _ _).2 ⟨s, hs⟩, ?_⟩
  intro n hn1 _ hb
  obtain ⟨s', hs'⟩ := (hasRunB_iff _ _).1 hb
  exact hn ⟨s', RunAt.mono hs' (by omega)⟩

theorem countTrue_map_range (f : Nat → Bool) (n : Nat) :
    countTrue ((List.range n).map f) = ((List.range n).filter f).length := by
  unfold countTrue
  rw [List.filter_map, List.length_map]
  rfl

/-! ### 2. local correctness of one estimated beat -/

/-- the inter-beat interval the code attaches to element `i` of a beat array: the interval to the NEXT beat
    when looking forward (`fwd`) and there is a next beat, otherwise the interval from the PREVIOUS beat;
    for `i = 0` without a next beat Python's `l[0] - l[-1]` wraps around to `l[0] - l[0] = 0` -/
def beatInterval (l : List Rat) (fwd : Bool) (i : Nat) : Rat :=
  if fwd = true ∧ i + 1 < l.length then l.getD (i + 1) 0 - l.getD i 0
  else if i = 0 then 0 else l.getD i 0 - l.getD (i - 1) 0

/-- the phase and period conditions of estimated beat `m` with respect to annotation `j` -/
def LocalOk (refv est : List Rat) (p q : Rat) (m j : Nat) : Prop :=
  let first : Prop := m = 0 ∨ j = 0
  let d : Rat := |est.getD m 0 - refv.getD j 0|
  let ri : Rat := beatInterval refv (decide first) j
  let ei : Rat := beatInterval est (decide first) m
  (if ri = 0 then first ∧ d = 0 ∧ 1 < p else |d / ri| < p) ∧
    (if ri = 0 then first ∧ ei = 0 ∧ 0 < q else |1 - ei / ri| < q)

/-- `LocalOk` as a computable test -/
def localOkAt (refv est : List Rat) (p q : Rat) (m j : Nat) : Bool :=
  let first : Bool := decide (m = 0 ∨ j = 0)
  let d : Rat := absR (est.getD m 0 - refv.getD j 0)
  let ri : Rat := beatInterval refv first j
  let ei : Rat := beatInterval est first m
  (if ri = 0 then first && decide (d = 0 ∧ 1 < p) else decide (absR (d / ri) < p)) &&
    (if ri = 0 then first && decide (ei = 0 ∧ 0 < q) else decide (absR (1 - ei / ri) < q))

theorem localOkAt_iff (refv est : List Rat) (p q : Rat) (m j : Nat) :
    localOkAt refv est p q m j = true ↔ LocalOk refv est p q m j := by
  unfold localOkAt LocalOk
  simp only [absR_eq_abs, Bool.and_eq_true]
  by_cases hri : beatInterval refv (decide (m = 0 ∨ j = 0)) j = 0
  · simp only [hri, if_true, Bool.and_eq_true, decide_eq_true_eq]
  · simp only [hri, if_false, decide_eq_true_eq]

/-- the annotation nearest to estimated beat `m` -/
def nearestOf (refv est : List Rat) (m : Nat) : Nat := nearestIdx refv (est.getD m 0)

/-- estimated beat `m` satisfies the phase and period conditions w.r.t. its nearest annotation -/
def localOkB (refv est : List Rat) (p q : Rat) (m : Nat) : Bool :=
  localOkAt refv est p q m (nearestOf refv est m)

theorem pyGet_getD {l : List Rat} {n : Nat} (h : n < l.length) : pyGet l (n : Int) = .ok (l.getD n 0) :=
  pyGet_nat l n _ (getElem?_eq_getD h)

theorem diffAt_next {l : List Rat} {j : Nat} (h : j + 1 < l.length) :
    diffAt l ((j : Int) + 1) j = .ok (l.getD (j + 1) 0 - l.getD j 0) := by
  unfold diffAt
  rw [pyGet_nat_succ _ j _ (getElem?_eq_getD h), pyGet_getD (by omega)]
  rfl

theorem diffAt_prev {l : List Rat} {j : Nat} (h : j < l.length) (h0 : j ≠ 0) :
    diffAt l j ((j : Int) - 1) = .ok (l.getD j 0 - l.getD (j - 1) 0) := by
  obtain ⟨j', rfl⟩ : ∃ j', j = j' + 1 := ⟨j - 1, by omega⟩
  unfold diffAt
  rw [pyGet_getD h, pyGet_nat_pred _ j' _ (getElem?_eq_getD (by omega))]
  rfl

theorem diffAt_wrap_single {l : List Rat} (h : l.length = 1) : diffAt l ((0 : Nat) : Int) (((0 : Nat) : Int) - 1) = .ok 0 := by
  obtain ⟨a, rfl⟩ : ∃ a, l = [a] := by
    cases l with
    | nil => simp at h
    | cons a t => cases t with
      | nil => exact ⟨a, rfl⟩
      | cons b t' => simp at h
  simp [diffAt, pyGet, bind, Except.bind, pure, Except.pure]

/-- the reference interval of the "first beat or first annotation" branch -/
theorem refInt_first {refv : List Rat} {j : Nat} (hj : j < refv.length) :
    (if j + 1 < refv.length then diffAt refv ((j : Int) + 1) j else diffAt refv j ((j : Int) - 1)) =
      .ok (beatInterval refv true j) := by
  unfold beatInterval
  by_cases h1 : j + 1 < refv.length
  · simp only [h1, if_true, and_self, diffAt_next h1]
  · by_cases h0 : j = 0
    · subst h0
      have hlen : refv.length = 1 := by omega
      simp only [h1, if_false, and_false, if_true, diffAt_wrap_single hlen]
    · simp only [h1, if_false, and_false, h0, diffAt_prev hj h0]

/-- the reference interval of the other branch -/
theorem refInt_prev {refv : List Rat} {j : Nat} (hj : j < refv.length) (h0 : j ≠ 0) :
    diffAt refv j ((j : Int) - 1) = .ok (beatInterval refv false j) := by
  unfold beatInterval
  simp only [Bool.false_eq_true, false_and, if_false, h0, diffAt_prev hj h0]

theorem getD_append_length (pre rest : List Rat) (e : Rat) : (pre ++ e :: rest).getD pre.length 0 = e := by
  simp [List.getD]

theorem getD_append_length_succ (pre rest : List Rat) (e r : Rat) :
    (pre ++ e :: r :: rest).getD (pre.length + 1) 0 = r := by
  have : pre ++ e :: r :: rest = (pre ++ [e]) ++ r :: rest := by simp
  rw [this]
  simp

theorem getD_append_length_pred (pre rest : List Rat) (a e : Rat) :
    ((pre ++ [a]) ++ e :: rest).getD pre.length 0 = a := by
  have : (pre ++ [a]) ++ e :: rest = pre ++ a :: e :: rest := by simp
  rw [this]
  exact getD_append_length pre (e :: rest) a

theorem estIntFirst_eq (pre rest : List Rat) (e : Rat) :
    estIntFirst e rest.head? pre.getLast? = beatInterval (pre ++ e :: rest) true pre.length := by
  unfold beatInterval
  cases rest with
  | cons r rest' =>
    have h1 : pre.length + 1 < (pre ++ e :: r :: rest').length := by simp
    simp only [h1, and_self, if_true, List.head?_cons, estIntFirst, getD_append_length_succ, getD_append_length]
  | nil =>
    have h1 : ¬ pre.length + 1 < (pre ++ [e]).length := by simp
    simp only [h1, and_false, if_false, List.head?_nil]
    rcases List.eq_nil_or_concat pre with rfl | ⟨pre', a, rfl⟩
    · simp [estIntFirst]
    · simp only [List.concat_eq_append, List.getLast?_concat, estIntFirst, List.length_append, List.length_cons,
        List.length_nil, Nat.add_eq_zero_iff, Nat.succ_ne_self, and_false, if_false, Nat.add_sub_cancel]
      have h2 := getD_append_length (pre' ++ [a]) [] e
      have h3 := getD_append_length_pred pre' [] a e
      simp only [List.length_append, List.length_cons, List.length_nil] at h2
      rw [h2, h3]

theorem estIntPrev_eq (pre rest : List Rat) (e : Rat) :
    estIntPrev e pre.getLast? = beatInterval (pre ++ e :: rest) false pre.length := by
  unfold beatInterval
  simp only [Bool.false_eq_true, false_and, if_false]
  rcases List.eq_nil_or_concat pre with rfl | ⟨pre', a, rfl⟩
  · simp [estIntPrev]
  · simp only [List.concat_eq_append, List.getLast?_concat, estIntPrev, List.length_append, List.length_cons,
      List.length_nil, Nat.add_eq_zero_iff, Nat.succ_ne_self, and_false, if_false, Nat.add_sub_cancel]
    have h2 := getD_append_length (pre' ++ [a]) rest e
    have h3 := getD_append_length_pred pre' rest a e
    simp only [List.length_append, List.length_cons, List.length_nil] at h2
    rw [h2, h3]

/-- one step of the loop, "first beat or first annotation" branch, annotation not yet used -/
theorem contBeat_first {refv : List Rat} (p q : Rat) (pre rest : List Rat) (e : Rat) (used : List Nat) {j : Nat}
    (hmin : minIdx (refv.map fun r => absR (e - r)) = some (|e - refv.getD j 0|, j)) (hj : j < refv.length)
    (hu : used.contains j = false) (hf : pre.length = 0 ∨ j = 0) :
    contBeat refv p q pre.length pre.getLast? e rest.head? used =
      .ok (localOkAt refv (pre ++ e :: rest) p q pre.length j, j) := by
  unfold contBeat
  rw [hmin]
  simp only [hu, Bool.false_eq_true, if_false, if_pos hf, refInt_first hj, bind, Except.bind, estIntFirst_eq]
  unfold localOkAt
  simp only [hf, decide_true, getD_append_length, absR_eq_abs, Bool.true_and]

/-- one step of the loop, the other branch, annotation not yet used -/
theorem contBeat_later {refv : List Rat} (p q : Rat) (pre rest : List Rat) (e : Rat) (used : List Nat) {j : Nat}
    (hmin : minIdx (refv.map fun r => absR (e - r)) = some (|e - refv.getD j 0|, j)) (hj : j < refv.length)
    (hu : used.contains j = false) (hf : ¬ (pre.length = 0 ∨ j = 0)) :
    contBeat refv p q pre.length pre.getLast? e rest.head? used =
      .ok (localOkAt refv (pre ++ e :: rest) p q pre.length j, j) := by
  have h0 : j ≠ 0 := fun h => hf (Or.inr h)
  unfold contBeat
  rw [hmin]
  simp only [hu, Bool.false_eq_true, if_false, if_neg hf, refInt_prev hj h0, bind, Except.bind, estIntPrev_eq pre rest]
  unfold localOkAt
  simp only [hf, decide_false, getD_append_length, absR_eq_abs, Bool.false_and]
  by_cases hri : beatInterval refv false j = 0
  · simp only [hri, if_true, Bool.and_self]
  · simp only [hri, if_false]

/-- one step of the loop = "the nearest annotation is unused and the beat is locally ok" -/
theorem contBeat_eq {refv : List Rat} (hne : refv ≠ []) (p q : Rat) (pre rest : List Rat) (e : Rat)
    (used : List Nat) :
    contBeat refv p q pre.length pre.getLast? e rest.head? used =
      .ok (!used.contains (nearestIdx refv e) &&
            localOkAt refv (pre ++ e :: rest) p q pre.length (nearestIdx refv e), nearestIdx refv e) := by
  have hmin := minIdx_nearestIdx hne e
  have hj := nearestIdx_lt hne e
  generalize nearestIdx refv e = j at *
  cases hu : used.contains j with
  | true =>
    unfold contBeat
    rw [hmin]
    simp only [hu, if_true, Bool.not_true, Bool.false_and]
  | false =>
    simp only [Bool.not_false, Bool.true_and]
    by_cases hf : pre.length = 0 ∨ j = 0
    · exact contBeat_first p q pre rest e used hmin hj hu hf
    · exact contBeat_later p q pre rest e used hmin hj hu hf

/-! ### 3. "correct" beats without state: the first locally-ok beat of each annotation -/

/-- `m` passes the test `L` and no earlier index with the same key passes it -/
def firstOk (L : Nat → Bool) (key : Nat → Nat) (m : Nat) : Bool :=
  L m && (List.range m).all fun m' => !(L m' && key m' == key m)

theorem firstOk_iff (L : Nat → Bool) (key : Nat → Nat) (m : Nat) :
    firstOk L key m = true ↔ L m = true ∧ ∀ m', m' < m → ¬ (L m' = true ∧ key m' = key m) := by
  unfold firstOk
  simp only [Bool.and_eq_true, List.all_eq_true, List.mem_range, Bool.not_eq_true', Bool.and_eq_false_iff,
    beq_eq_false_iff_ne, ne_eq, not_and]
  constructor
  · rintro ⟨h1, h2⟩
    refine ⟨h1, fun m' hm' hl => ?_⟩
    rcases h2 m' hm' with h | h
    · rw [hl] at h; cases h
    · exact h
  · rintro ⟨h1, h2⟩
    refine ⟨h1, fun m' hm' => ?_⟩
    cases hl : L m' with
    | false => exact Or.inl rfl
    | true => exact Or.inr (h2 m' hm' hl)

/-- an earlier index with key `j` passes `L` iff an earlier FIRST such index does (take the least one) -/
theorem exists_firstOk_iff (L : Nat → Bool) (key : Nat → Nat) (m j : Nat) :
    (∃ m', m' < m ∧ firstOk L key m' = true ∧ key m' = j) ↔ (∃ m', m' < m ∧ L m' = true ∧ key m' = j) := by
  constructor
  · rintro ⟨m', h1, h2, h3⟩
    exact ⟨m', h1, ((firstOk_iff L key m').1 h2).1, h3⟩
  · intro h
    classical
    obtain ⟨h1, h2, h3⟩ := Nat.find_spec h
    refine ⟨Nat.find h, h1, (firstOk_iff L key _).2 ⟨h2, fun m'' hm'' hc => ?_⟩, h3⟩
    exact Nat.find_min h hm'' ⟨by omega, hc.1, by rw [hc.2, h3]⟩

/-- the stateful test of the loop (annotation unused ∧ locally ok) is the stateless `firstOk`, as soon as
    `used` has exactly the keys of the earlier successful indices -/
theorem unused_and_local_eq_firstOk (L : Nat → Bool) (key : Nat → Nat) (m : Nat) (used : List Nat)
    (hused : ∀ j, j ∈ used ↔ ∃ m', m' < m ∧ firstOk L key m' = true ∧ key m' = j) :
    (!used.contains (key m) && L m) = firstOk L key m := by
  rw [Bool.eq_iff_iff, firstOk_iff]
  simp only [Bool.and_eq_true, Bool.not_eq_true', ← Bool.not_eq_true, List.contains_iff_mem,
    hused, exists_firstOk_iff]
  constructor
  · rintro ⟨h1, h2⟩
    exact ⟨h2, fun m' hm' hc => h1 ⟨m', hm', hc.1, hc.2⟩⟩
  · rintro ⟨h1, h2⟩
    exact ⟨fun ⟨m', hm', hl, hk⟩ => h2 m' hm' ⟨hl, hk⟩, h1⟩

/-- estimated beat `m` is CORRECT: it satisfies the phase and period conditions w.r.t. its nearest annotation,
    and no earlier estimated beat with the same nearest annotation does -/
def correctB (refv est : List Rat) (p q : Rat) (m : Nat) : Bool :=
  firstOk (localOkB refv est p q) (nearestOf refv est) m

/-- the same as a proposition over `IsNearest` / `LocalOk` -/
def Correct (refv est : List Rat) (p q : Rat) (m : Nat) : Prop :=
  ∃ j, IsNearest refv (est.getD m 0) j ∧ LocalOk refv est p q m j ∧
    ∀ m', m' < m → ¬ (IsNearest refv (est.getD m' 0) j ∧ LocalOk refv est p q m' j)

theorem correctB_iff_local (refv est : List Rat) (p q : Rat) (m : Nat) :
    correctB refv est p q m = true ↔ localOkB refv est p q m = true ∧
      ∀ m', m' < m → ¬ (localOkB refv est p q m' = true ∧ nearestOf refv est m' = nearestOf refv est m) :=
  firstOk_iff _ _ _

theorem correctB_iff {refv : List Rat} (hne : refv ≠ []) (est : List Rat) (p q : Rat) (m : Nat) :
    correctB refv est p q m = true ↔ Correct refv est p q m := by
  rw [correctB_iff_local]
  unfold Correct localOkB
  simp only [localOkAt_iff, isNearest_iff hne]
  constructor
  · rintro ⟨h1, h2⟩
    refine ⟨nearestOf refv est m, rfl, h1, fun m' hm' hc => h2 m' hm' ⟨?_, ?_⟩⟩
    · have := hc.2; rwa [hc.1] at this
    · exact hc.1.symm
  · rintro ⟨j, rfl, h1, h2⟩
    refine ⟨h1, fun m' hm' hc => h2 m' hm' ⟨hc.2.symm, ?_⟩⟩
    have := hc.1; rwa [hc.2] at this

/-- the list of correctness flags of the estimated beats, by the stateless definition -/
def correctFlags (refv est : List Rat) (p q : Rat) : List Bool :=
  (List.range est.length).map (correctB refv est p q)

/-- the loop with its `used_annotations` state, started anywhere in the estimated sequence with a state that
    holds exactly the annotations of the earlier correct beats, produces the stateless flags -/
theorem contLoop_eq_spec_gen {refv : List Rat} (hne : refv ≠ []) (p q : Rat) (est : List Rat) :
    ∀ (suffix pre : List Rat) (used : List Nat), est = pre ++ suffix →
    (∀ j, j ∈ used ↔ ∃ m', m' < pre.length ∧ correctB refv est p q m' = true ∧ nearestOf refv est m' = j) →
    contLoop refv p q pre.length pre.getLast? suffix used =
      .ok ((List.range suffix.length).map fun i => correctB refv est p q (pre.length + i)) := by
  intro suffix
  induction suffix with
  | nil => intro pre used _ _; rfl
  | cons e rest ih =>
    intro pre used hest hused
    have hb := contBeat_eq hne p q pre rest e used
    have hkey : nearestIdx refv e = nearestOf refv est pre.length := by
      unfold nearestOf; rw [hest, getD_append_length]
    have hloc : localOkAt refv (pre ++ e :: rest) p q pre.length (nearestIdx refv e)
        = localOkB refv est p q pre.length := by
      unfold localOkB; rw [← hkey, hest]
    rw [hloc, hkey, unused_and_local_eq_firstOk (localOkB refv est p q) (nearestOf refv est) pre.length used hused]
      at hb
    change contBeat refv p q pre.length pre.getLast? e rest.head? used
      = .ok (correctB refv est p q pre.length, nearestOf refv est pre.length) at hb
    have ih' := ih (pre ++ [e])
      (if correctB refv est p q pre.length then nearestOf refv est pre.length :: used else used)
      (by rw [hest]; simp) (by
        intro j
        simp only [List.length_append, List.length_cons, List.length_nil]
        constructor
        · intro hj
          by_cases hc : correctB refv est p q pre.length = true
          · rw [if_pos hc] at hj
            rcases List.mem_cons.1 hj with rfl | hj
            · exact ⟨pre.length, by omega, hc, rfl⟩
            · obtain ⟨m', h1, h2⟩ := (hused j).1 hj
              exact ⟨m', by omega, h2⟩
          · rw [if_neg hc] at hj
            obtain ⟨m', h1, h2⟩ := (hused j).1 hj
            exact ⟨m', by omega, h2⟩
        · rintro ⟨m', h1, h2, h3⟩
          by_cases hm : m' = pre.length
          · subst hm
            rw [if_pos h2, h3]; exact List.mem_cons_self
          · have := (hused j).2 ⟨m', by omega, h2, h3⟩
            split
            · exact List.mem_cons_of_mem _ this
            · exact this)
    simp only [List.length_append, List.length_cons, List.length_nil, List.getLast?_concat] at ih'
    simp only [contLoop, hb, bind, Except.bind, ih', pure, Except.pure, List.length_cons]
    rw [List.range_succ_eq_map, List.map_cons, List.map_map]
    congr 2
    apply List.map_congr_left
    intro i _
    simp only [Function.comp]
    congr 1
    omega

/-- **the loop = the stateless definition**: the flags `beat_successes` computed by the code with its
    `used_annotations` array are the flags `correctB` -/
theorem contLoop_eq_spec {refv : List Rat} (hne : refv ≠ []) (est : List Rat) (p q : Rat) :
    contLoop refv p q 0 none est [] = .ok (correctFlags refv est p q) := by
  have := contLoop_eq_spec_gen hne p q est est [] [] rfl (by simp)
  simpa [correctFlags] using this

/-! ### 5. per-variation scores -/

/-- number of correct estimated beats -/
def correctCount (refv est : List Rat) (p q : Rat) : Nat :=
  ((List.range est.length).filter (correctB refv est p q)).length

/-- (continuous, total) accuracy against one reference variation: the longest window of consecutive correct
    beats, resp. the number of correct beats, divided by `max(|ref|, |est|)` -/
def specVariation (refv est : List Rat) (p q : Rat) : Rat × Rat :=
  let n : Nat := max refv.length est.length
  ((runSpec (correctFlags refv est p q) : Rat) / (n : Rat), (correctCount refv est p q : Rat) / (n : Rat))

theorem contVariation_eq_spec {refv : List Rat} (hne : refv ≠ []) (est : List Rat) (p q : Rat) :
    contVariation refv est p q = .ok (specVariation refv est p q) := by
  unfold contVariation specVariation correctCount
  rw [contLoop_eq_spec hne]
  simp only [bind, Except.bind, pure, Except.pure, longestRun_eq_runSpec]
  rw [correctFlags, countTrue_map_range]

/-- relational form: with ANY `k` that is the length of a longest window of correct beats -/
theorem contVariation_eq_of_isLongestRun {refv : List Rat} (hne : refv ≠ []) (est : List Rat) (p q : Rat) (k : Nat)
    (hk : IsLongestRun (correctFlags refv est p q) k) :
    contVariation refv est p q =
      .ok ((k : Rat) / ((max refv.length est.length : Nat) : Rat),
           (correctCount refv est p q : Rat) / ((max refv.length est.length : Nat) : Rat)) := by
  rw [contVariation_eq_spec hne, specVariation, ← longestRun_eq_runSpec, (isLongestRun_iff _ _).1 hk]

/-! ### 6a. `maxRat` is the maximum -/

/-- `x` is the maximum of the non-empty list `l` -/
def IsMaxOf (x : Rat) (l : List Rat) : Prop := x ∈ l ∧ ∀ y ∈ l, y ≤ x

theorem maxRat_mem (a : Rat) (l : List Rat) : maxRat a l ∈ a :: l := by
  unfold maxRat
  induction l generalizing a with
  | nil => simp
  | cons x t ih =>
    simp only [List.foldl_cons]
    have := ih (max a x)
    rcases List.mem_cons.1 this with h | h
    · rw [h]
      rcases max_choice a x with h' | h' <;> simp [h']
    · simp [h]

theorem le_maxRat_of_mem (a : Rat) (l : List Rat) : ∀ x ∈ a :: l, x ≤ maxRat a l := by
  unfold maxRat
  induction l generalizing a with
  | nil => intro x hx; simp at hx; simp [hx]
  | cons y t ih =>
    intro x hx
    simp only [List.foldl_cons]
    rcases List.mem_cons.1 hx with rfl | hx
    · exact le_trans (le_max_left _ _) (ih (max x y) _ List.mem_cons_self)
    · rcases List.mem_cons.1 hx with rfl | hx
      · exact le_trans (le_max_right _ _) (ih (max a x) _ List.mem_cons_self)
      · exact ih (max a y) x (List.mem_cons_of_mem _ hx)

theorem maxRat_isMaxOf (a : Rat) (l : List Rat) : IsMaxOf (maxRat a l) (a :: l) :=
  ⟨maxRat_mem a l, le_maxRat_of_mem a l⟩

theorem IsMaxOf.unique {x y : Rat} {l : List Rat} (hx : IsMaxOf x l) (hy : IsMaxOf y l) : x = y :=
  le_antisymm (hy.2 x hx.1) (hx.2 y hy.1)

/-! ### 6b. the four scores -/

theorem mapPy_eq_map {α β : Type} (f : α → Py β) (g : α → β) : ∀ l : List α, (∀ a ∈ l, f a = .ok (g a)) →
    mapPy f l = .ok (l.map g) := by
  intro l
  induction l with
  | nil => intro _; rfl
  | cons a t ih =>
    intro h
    unfold mapPy
    rw [h a List.mem_cons_self, ih fun x hx => h x (List.mem_cons_of_mem _ hx)]
    rfl

/-- explicit value of the four scores -/
theorem continuityCore_eq_spec {ref est : List Rat} (hr : 2 ≤ ref.length) (he : 2 ≤ est.length) (p q : Rat) :
    continuityCore ref est p q = .ok
      ((specVariation ref est p q).1, (specVariation ref est p q).2,
       maxRat (specVariation ref est p q).1 (((variations ref).drop 1).map fun v => (specVariation v est p q).1),
       maxRat (specVariation ref est p q).2 (((variations ref).drop 1).map fun v => (specVariation v est p q).2)) := by
  unfold continuityCore
  have hg : ¬ (est.length ≤ 1 ∨ ref.length ≤ 1) := by omega
  rw [if_neg hg, mapPy_eq_map _ (fun v => specVariation v est p q) _
    (fun v hv => contVariation_eq_spec (variations_ne_nil hr v hv) est p q)]
  simp only [variations, List.map_cons, List.map_nil, bind, Except.bind, pure, Except.pure, List.drop_succ_cons,
    List.drop_zero]

/-- relational form: CML scores are those of the annotation itself, AML scores are the maxima over the five
    metrical variations -/
theorem continuityCore_definition {ref est : List Rat} (hr : 2 ≤ ref.length) (he : 2 ≤ est.length) (p q : Rat) :
    ∃ ac at', continuityCore ref est p q =
        .ok ((specVariation ref est p q).1, (specVariation ref est p q).2, ac, at') ∧
      IsMaxOf ac ((variations ref).map fun v => (specVariation v est p q).1) ∧
      IsMaxOf at' ((variations ref).map fun v => (specVariation v est p q).2) := by
  refine ⟨_, _, continuityCore_eq_spec hr he p q, ?_, ?_⟩
  · have := maxRat_isMaxOf (specVariation ref est p q).1
      (((variations ref).drop 1).map fun v => (specVariation v est p q).1)
    simpa [variations] using this
  · have := maxRat_isMaxOf (specVariation ref est p q).2
      (((variations ref).drop 1).map fun v => (specVariation v est p q).2)
    simpa [variations] using this

theorem continuityCore_degenerate {ref est : List Rat} (h : est.length ≤ 1 ∨ ref.length ≤ 1) (p q : Rat) :
    continuityCore ref est p q = .ok (0, 0, 0, 0) := by
  unfold continuityCore
  rw [if_pos h]

/-! ### 7. a strictly increasing sequence against itself, without provisos -/

theorem continuityCore_self_total (x : List Rat) (p q : Rat) (hx : x.Pairwise (· < ·)) (hlen : 2 ≤ x.length)
    (hp : 0 < p) (hq : 0 < q) : continuityCore x x p q = .ok (1, 1, 1, 1) := by
  obtain ⟨⟨c, t, ac, at'⟩, h⟩ := continuityCore_total x x p q
  have hok := continuityCore_ok h
  have h0 := contVariation_self x p q hp hq hx hlen
  have h' := h
  unfold continuityCore at h'
  have hg : ¬ (x.length ≤ 1 ∨ x.length ≤ 1) := by omega
  simp only [hg, if_false] at h'
  rw [bind_ok_iff] at h'
  obtain ⟨rs, hrs, h'⟩ := h'
  simp only [variations, mapPy, h0, bind, Except.bind] at hrs
  have hct : c = 1 ∧ t = 1 := by
    split at hrs
    · simp at hrs
    · simp only [pure, Except.pure, Except.ok.injEq] at hrs
      subst hrs
      simp only [pure, Except.pure, Except.ok.injEq, Prod.mk.injEq] at h'
      exact ⟨h'.1.symm, h'.2.1.symm⟩
  obtain ⟨rfl, rfl⟩ := hct
  obtain ⟨_, _, _, h3, h4, h5, h6⟩ := hok
  have h7 : ac = 1 := by linarith
  have h8 : at' = 1 := by linarith
  rw [h, h7, h8]

theorem continuity_self_total (x : List Rat) (p q : Rat) (hx : x.Pairwise (· < ·)) (hlen : 2 ≤ x.length)
    (hp : 0 < p) (hq : 0 < q) (hv : validate x x = .ok ()) : continuity x x p q = .ok (1, 1, 1, 1) := by
  rw [continuity_ok_iff]
  exact ⟨hv, continuityCore_self_total x p q hx hlen hp hq⟩

end Beat
end Mir
