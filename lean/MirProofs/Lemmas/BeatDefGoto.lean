import MirProofs.Lemmas.BeatTotal
import MirProofs.Lemmas.BeatSelf
/-
  MirProofs.Lemmas.BeatDefGoto — "algorithm = published definition" for `mir_eval.beat.goto`.

  Layer-S (brute-force) statement of Goto's criterion over the beat-error array, and the proof that the
  branchy model code `gotoCore` (flatnonzero / diff / first argmax / Python slices) computes exactly it,
  for all inputs.  The quirks of the code are part of the definition: the track of the `≥ 3` branch
  INCLUDES the two bounding incorrect beats, the track of the `< 3` branch is `errs[a+1 : b-1]`.
-/

namespace Mir
namespace Beat

/-! ### Layer-S definitions -/

/-- beat `i` exists and its error exceeds the threshold in absolute value -/
def Incorrect (errs : List Rat) (thr : Rat) (i : Nat) : Prop := ∃ x, errs[i]? = some x ∧ thr < |x|

/-- `s < e` are consecutive incorrect beats: every beat strictly between them is correct -/
def IsGap (errs : List Rat) (thr : Rat) (s e : Nat) : Prop :=
  s < e ∧ Incorrect errs thr s ∧ Incorrect errs thr e ∧ ∀ i, s < i → i < e → ¬ Incorrect errs thr i

/-- `(s, e)` is the first gap of maximal width -/
def IsFirstLongestGap (errs : List Rat) (thr : Rat) (s e : Nat) : Prop :=
  IsGap errs thr s e ∧
  ∀ s' e', IsGap errs thr s' e' → e' - s' < e - s ∨ (e' - s' = e - s ∧ s ≤ s')

/-- `np.mean(np.abs(track)) < mu and np.std(track, ddof=1) < sigma`, spelled out (a NaN mean / std makes
    the comparison false: empty track, one-element track; a non-positive `sigma` can never exceed a std) -/
def TrackOk (track : List Rat) (mu sigma : Rat) : Prop :=
  track ≠ [] ∧ (track.map fun x => |x|).sum / (track.length : Rat) < mu ∧ 2 ≤ track.length ∧ 0 < sigma ∧
  (track.map fun x => (x - track.sum / (track.length : Rat)) ^ 2).sum / ((track.length : Rat) - 1) < sigma ^ 2

/-! ### `gotoTrackOk` -/

theorem sumR_eq_sum : ∀ l : List Rat, sumR l = l.sum
  | [] => rfl
  | a :: t => by simp [sumR, sumR_eq_sum t]

theorem gotoTrackOk_fst_iff (track : List Rat) (mu sigma : Rat) :
    (gotoTrackOk track mu sigma).1 = true ↔ TrackOk track mu sigma := by
  unfold gotoTrackOk TrackOk
  by_cases hk : track.length = 0
  · have : track = [] := List.length_eq_zero_iff.mp hk
    subst this; simp
  · have hne : track ≠ [] := fun h => hk (by rw [h]; rfl)
    have e1 : sumR (track.map absR) = (track.map fun x => |x|).sum := by
      rw [sumR_eq_sum]; congr 1; apply List.map_congr_left; intro x _; exact absR_eq_abs x
    have e2 : sumR (track.map fun x => (x - sumR track / (track.length : Rat)) * (x - sumR track / (track.length : Rat)))
        = (track.map fun x => (x - track.sum / (track.length : Rat)) ^ 2).sum := by
      rw [sumR_eq_sum, sumR_eq_sum]; congr 1; apply List.map_congr_left; intro x _; ring
    simp only [hk, if_false, e1, e2]
    by_cases hm : (track.map fun x => |x|).sum / (track.length : Rat) < mu
    · by_cases h2 : track.length < 2
      · simp [hm, h2, hne]
      · have h2' : 2 ≤ track.length := by omega
        simp [hm, h2, hne, h2', pow_two]
    · simp [hm]

/-! ### the index array of incorrect beats -/

theorem flatnonzeroFrom_cons (thr : Rat) (k : Nat) (x : Rat) (t : List Rat) :
    flatnonzeroFrom thr k (x :: t)
      = if thr < |x| then k :: flatnonzeroFrom thr (k + 1) t else flatnonzeroFrom thr (k + 1) t := by
  rw [← absR_eq_abs]; rfl

theorem mem_flatnonzeroFrom (thr : Rat) : ∀ (l : List Rat) (k i : Nat),
    i ∈ flatnonzeroFrom thr k l ↔ k ≤ i ∧ Incorrect l thr (i - k) := by
  intro l
  induction l with
  | nil => intro k i; simp [flatnonzeroFrom, Incorrect]
  | cons x t ih =>
    intro k i
    have hmem : i ∈ flatnonzeroFrom thr k (x :: t) ↔ (i = k ∧ thr < |x|) ∨ i ∈ flatnonzeroFrom thr (k + 1) t := by
      rw [flatnonzeroFrom_cons]
      by_cases hx : thr < |x|
      · simp [hx]
      · simp [hx]
    rw [hmem, ih]
    rcases Nat.lt_trichotomy i k with h | h | h
    · constructor
      · rintro (⟨h1, _⟩ | ⟨h1, _⟩) <;> omega
      · rintro ⟨h1, _⟩; omega
    · subst h
      simp [Incorrect]
    · have e : i - k = (i - (k + 1)) + 1 := by omega
      rw [e]
      simp only [Incorrect, List.getElem?_cons_succ]
      constructor
      · rintro (⟨h1, _⟩ | ⟨_, h2⟩)
        · omega
        · exact ⟨by omega, h2⟩
      · rintro ⟨_, h2⟩
        exact Or.inr ⟨by omega, h2⟩

/-- membership in `np.flatnonzero(np.abs(beat_error) > thr)` -/
theorem mem_flatnonzeroGt (errs : List Rat) (thr : Rat) (i : Nat) :
    i ∈ flatnonzeroGt errs thr ↔ Incorrect errs thr i := by
  unfold flatnonzeroGt
  rw [mem_flatnonzeroFrom]; simp

theorem flatnonzeroFrom_pairwise (thr : Rat) : ∀ (l : List Rat) (k : Nat),
    (flatnonzeroFrom thr k l).Pairwise (· < ·) := by
  intro l
  induction l with
  | nil => intro k; simp [flatnonzeroFrom]
  | cons x t ih =>
    intro k
    rw [flatnonzeroFrom_cons]
    split
    · refine List.pairwise_cons.2 ⟨?_, ih (k + 1)⟩
      intro y hy
      have := ((mem_flatnonzeroFrom thr t (k + 1) y).1 hy).1
      omega
    · exact ih (k + 1)

/-- the index array is strictly increasing -/
theorem flatnonzeroGt_pairwise (errs : List Rat) (thr : Rat) :
    (flatnonzeroGt errs thr).Pairwise (· < ·) := flatnonzeroFrom_pairwise thr errs 0

/-! ### strictly increasing lists of indices -/

theorem pairwise_lt_getElem?_lt {l : List Nat} (h : l.Pairwise (· < ·)) {i j a b : Nat}
    (hi : l[i]? = some a) (hj : l[j]? = some b) (hij : i < j) : a < b := by
  obtain ⟨hi', rfl⟩ := List.getElem?_eq_some_iff.1 hi
  obtain ⟨hj', rfl⟩ := List.getElem?_eq_some_iff.1 hj
  exact List.pairwise_iff_getElem.1 h i j hi' hj' hij

theorem pairwise_lt_getElem?_le {l : List Nat} (h : l.Pairwise (· < ·)) {i j a b : Nat}
    (hi : l[i]? = some a) (hj : l[j]? = some b) (hij : i ≤ j) : a ≤ b := by
  rcases Nat.lt_or_eq_of_le hij with h1 | h1
  · exact Nat.le_of_lt (pairwise_lt_getElem?_lt h hi hj h1)
  · subst h1; rw [hi] at hj; cases hj; exact Nat.le_refl _

/-- in a strictly increasing list, the adjacent entries are exactly the pairs of members with no member
    strictly between them -/
theorem adjacent_iff_of_pairwise {l : List Nat} (h : l.Pairwise (· < ·)) (s e : Nat) :
    (∃ j, l[j]? = some s ∧ l[j + 1]? = some e) ↔
      (s < e ∧ s ∈ l ∧ e ∈ l ∧ ∀ i, s < i → i < e → i ∉ l) := by
  constructor
  · rintro ⟨j, hs, he⟩
    refine ⟨pairwise_lt_getElem?_lt h hs he (by omega), List.mem_of_getElem? hs, List.mem_of_getElem? he, ?_⟩
    intro i h1 h2 hi
    obtain ⟨k, hk⟩ := List.getElem?_of_mem hi
    rcases Nat.lt_or_ge j k with hjk | hjk
    · have := pairwise_lt_getElem?_le h he hk (by omega); omega
    · have := pairwise_lt_getElem?_le h hk hs hjk; omega
  · rintro ⟨hse, hs, he, hno⟩
    obtain ⟨a, ha⟩ := List.getElem?_of_mem hs
    obtain ⟨b, hb⟩ := List.getElem?_of_mem he
    have hab : a < b := by
      rcases Nat.lt_or_ge a b with h1 | h1
      · exact h1
      · have := pairwise_lt_getElem?_le h hb ha h1; omega
    rcases Nat.lt_or_eq_of_le (Nat.succ_le_of_lt hab) with h1 | h1
    · exfalso
      have hb' : b < l.length := (List.getElem?_eq_some_iff.1 hb).1
      have hlt : a + 1 < l.length := by omega
      have hm : l[a + 1]? = some l[a + 1] := List.getElem?_eq_getElem hlt
      have h2 := pairwise_lt_getElem?_lt h ha hm (by omega)
      have h3 := pairwise_lt_getElem?_lt h hm hb (by omega)
      exact hno _ h2 h3 (List.mem_of_getElem? hm)
    · exact ⟨a, ha, by rw [← h1] at hb; exact hb⟩

/-- consecutive entries of the index array of incorrect beats are exactly the gaps -/
theorem isGap_iff_adjacent (errs : List Rat) (thr : Rat) (s e : Nat) :
    IsGap errs thr s e ↔
      ∃ j, (flatnonzeroGt errs thr)[j]? = some s ∧ (flatnonzeroGt errs thr)[j + 1]? = some e := by
  rw [adjacent_iff_of_pairwise (flatnonzeroGt_pairwise errs thr)]
  simp only [mem_flatnonzeroGt, IsGap]

/-! ### `np.diff`, first argmax -/

theorem diffs_cons_cons (a b : Int) (t : List Int) : diffs (a :: b :: t) = (b - a) :: diffs (b :: t) := rfl

theorem diffs_getElem?_iff : ∀ (l : List Int) (j : Nat) (x : Int),
    (diffs l)[j]? = some x ↔ ∃ a b, l[j]? = some a ∧ l[j + 1]? = some b ∧ x = b - a
  | [], j, x => by simp [diffs]
  | [_], j, x => by simp [diffs]
  | a :: b :: t, 0, x => by
    rw [diffs_cons_cons]
    simp only [List.getElem?_cons_zero, List.getElem?_cons_succ, Option.some.injEq]
    constructor
    · intro h; exact ⟨a, b, rfl, rfl, h.symm⟩
    · rintro ⟨a', b', rfl, rfl, h⟩; exact h.symm
  | a :: b :: t, j + 1, x => by
    rw [diffs_cons_cons]
    simp only [List.getElem?_cons_succ]
    exact diffs_getElem?_iff (b :: t) j x

/-- `firstMax d ds = (m, j)`: `m` is the maximum of `d :: ds`, attained at index `j`, and every earlier
    entry is strictly smaller (`np.max` and the first index where it is attained) -/
theorem firstMax_spec : ∀ (ds : List Int) (d m : Int) (j : Nat), firstMax d ds = (m, j) →
    (d :: ds)[j]? = some m ∧ (∀ x ∈ d :: ds, x ≤ m) ∧ ∀ i x, i < j → (d :: ds)[i]? = some x → x < m := by
  intro ds
  induction ds with
  | nil =>
    intro d m j h
    simp only [firstMax, Prod.mk.injEq] at h
    obtain ⟨rfl, rfl⟩ := h
    simp
  | cons b t ih =>
    intro d m j h
    unfold firstMax at h
    rcases hfm : firstMax b t with ⟨m', j'⟩
    obtain ⟨ih1, ih2, ih3⟩ := ih b m' j' hfm
    rw [hfm] at h
    simp only [] at h
    by_cases hle : m' ≤ d
    · rw [if_pos hle] at h
      simp only [Prod.mk.injEq] at h
      obtain ⟨rfl, rfl⟩ := h
      refine ⟨rfl, ?_, ?_⟩
      · intro x hx
        rcases List.mem_cons.1 hx with rfl | hx
        · exact le_refl _
        · exact le_trans (ih2 x hx) hle
      · intro i x hi; omega
    · rw [if_neg hle] at h
      simp only [Prod.mk.injEq] at h
      obtain ⟨rfl, rfl⟩ := h
      refine ⟨by simpa using ih1, ?_, ?_⟩
      · intro x hx
        rcases List.mem_cons.1 hx with rfl | hx
        · omega
        · exact ih2 x hx
      · intro i x hi hx
        cases i with
        | zero => simp at hx; omega
        | succ i =>
          rw [List.getElem?_cons_succ] at hx
          exact ih3 i x (by omega) hx

/-! ### the Python slices -/

/-- `errs[s : e + 1]` for `s ≤ e`: the `e - s + 1` entries from index `s` on -/
theorem pySlice_incl {α : Type} (l : List α) (s e : Nat) (hse : s ≤ e) :
    pySlice l (s : Int) ((e : Int) + 1) = (l.drop s).take (e - s + 1) := by
  simp only [pySlice, pySliceBounds]
  have h1 : ¬ ((s : Int) < 0) := by omega
  have h2 : ¬ ((e : Int) + 1 < 0) := by omega
  rw [if_neg h1, if_neg h2]
  by_cases hs : (l.length : Int) < (s : Int)
  · rw [if_pos hs]
    have : l.length ≤ s := by omega
    rw [List.drop_of_length_le (Nat.le_refl _), List.drop_of_length_le this]; simp
  · rw [if_neg hs]
    by_cases he : (l.length : Int) < (e : Int) + 1
    · rw [if_pos he]
      simp only [Int.toNat_natCast]
      rw [List.take_of_length_le (by rw [List.length_drop]), List.take_of_length_le (by rw [List.length_drop]; omega)]
    · rw [if_neg he]
      have : ((e : Int) + 1).toNat - (s : Int).toNat = e - s + 1 := by omega
      rw [this]; simp

/-- `errs[0 + 1 : (len - 1) - 1]`, the track of the `< 3` branch when the incorrect beats are the first
    and the last one -/
theorem pySlice_short {α : Type} (l : List α) (hl : 1 ≤ l.length) :
    pySlice l (((0 : Nat) : Int) + 1) (((l.length - 1 : Nat) : Int) - 1) = (l.drop 1).take (l.length - 3) := by
  simp only [pySlice, pySliceBounds]
  have h1 : ¬ ((((0 : Nat) : Int) + 1) < 0) := by omega
  have h3 : ¬ ((l.length : Int) < ((0 : Nat) : Int) + 1) := by omega
  rw [if_neg h1, if_neg h3]
  by_cases h2 : ((l.length - 1 : Nat) : Int) - 1 < 0
  · rw [if_pos h2]
    have : l.length = 1 := by omega
    rw [this]; simp
  · rw [if_neg h2]
    have h4 : ¬ ((l.length : Int) < ((l.length - 1 : Nat) : Int) - 1) := by omega
    rw [if_neg h4]
    have : (((l.length - 1 : Nat) : Int) - 1).toNat - (((0 : Nat) : Int) + 1).toNat = l.length - 3 := by omega
    rw [this]; simp

/-! ### the first longest gap, read off the index array -/

theorem firstMax_diffs_spec {l : List Nat} (hl : l.Pairwise (· < ·)) {d : Int} {ds : List Int} {m : Int} {j : Nat}
    (hd : diffs (l.map fun (i : Nat) => Int.ofNat i) = d :: ds) (hfm : firstMax d ds = (m, j)) :
    ∃ s e, l[j]? = some s ∧ l[j + 1]? = some e ∧ s < e ∧ m = ((e - s : Nat) : Int) ∧
      ∀ j' s' e', l[j']? = some s' → l[j' + 1]? = some e' →
        e' - s' < e - s ∨ (e' - s' = e - s ∧ s ≤ s') := by
  obtain ⟨h1, h2, h3⟩ := firstMax_spec ds d m j hfm
  rw [← hd] at h1 h2 h3
  obtain ⟨a, b, ha, hb, hm⟩ := (diffs_getElem?_iff _ _ _).1 h1
  rw [List.getElem?_map] at ha hb
  obtain ⟨s, hs, rfl⟩ := Option.map_eq_some_iff.1 ha
  obtain ⟨e, he, rfl⟩ := Option.map_eq_some_iff.1 hb
  have hse := pairwise_lt_getElem?_lt hl hs he (by omega)
  refine ⟨s, e, hs, he, hse, ?_, ?_⟩
  · subst hm
    simp only [Int.ofNat_eq_natCast]; omega
  · intro j' s' e' hs' he'
    have hse' := pairwise_lt_getElem?_lt hl hs' he' (by omega)
    have hx : (diffs (l.map fun (i : Nat) => Int.ofNat i))[j']? = some ((e' : Int) - (s' : Int)) :=
      (diffs_getElem?_iff _ _ _).2 ⟨s', e', by simp [hs'], by simp [he'], rfl⟩
    have hle := h2 _ (List.mem_of_getElem? hx)
    simp only [Int.ofNat_eq_natCast] at hm
    rcases Nat.lt_or_ge j' j with hj | hj
    · have := h3 j' _ hj hx; left; omega
    · have := pairwise_lt_getElem?_le hl hs hs' hj; omega

/-- `np.max(np.diff(inc))` with its first argmax `j` designates the first longest gap `(inc[j], inc[j+1])` -/
theorem isFirstLongestGap_of_firstMax (errs : List Rat) (thr : Rat) {d : Int} {ds : List Int} {m : Int} {j : Nat}
    (hd : diffs ((flatnonzeroGt errs thr).map fun (i : Nat) => Int.ofNat i) = d :: ds)
    (hfm : firstMax d ds = (m, j)) :
    ∃ s e, (flatnonzeroGt errs thr)[j]? = some s ∧ (flatnonzeroGt errs thr)[j + 1]? = some e ∧
      m = ((e - s : Nat) : Int) ∧ IsFirstLongestGap errs thr s e := by
  obtain ⟨s, e, hs, he, _, hm, hall⟩ := firstMax_diffs_spec (flatnonzeroGt_pairwise errs thr) hd hfm
  refine ⟨s, e, hs, he, hm, (isGap_iff_adjacent errs thr s e).2 ⟨j, hs, he⟩, ?_⟩
  intro s' e' hg
  obtain ⟨j', hs', he'⟩ := (isGap_iff_adjacent errs thr s' e').1 hg
  exact hall j' s' e' hs' he'

/-- the first longest gap is unique -/
theorem isFirstLongestGap_unique {errs : List Rat} {thr : Rat} {s e s' e' : Nat}
    (h : IsFirstLongestGap errs thr s e) (h' : IsFirstLongestGap errs thr s' e') : s = s' ∧ e = e' := by
  have a := h.2 s' e' h'.1
  have b := h'.2 s e h.1
  have := h.1.1
  have := h'.1.1
  omega

/-- with at least two incorrect beats there is a first longest gap -/
theorem exists_isFirstLongestGap (errs : List Rat) (thr : Rat) (h2 : 2 ≤ (flatnonzeroGt errs thr).length) :
    ∃ s e, IsFirstLongestGap errs thr s e := by
  have hd := diffs_length ((flatnonzeroGt errs thr).map fun (i : Nat) => Int.ofNat i)
  rw [List.length_map] at hd
  cases hds : diffs ((flatnonzeroGt errs thr).map fun (i : Nat) => Int.ofNat i) with
  | nil => rw [hds] at hd; simp at hd; omega
  | cons d ds =>
    rcases hfm : firstMax d ds with ⟨m, j⟩
    obtain ⟨s, e, _, _, _, hg⟩ := isFirstLongestGap_of_firstMax errs thr hds hfm
    exact ⟨s, e, hg⟩

/-! ### `gotoCore`, branch by branch -/

theorem isEmpty_or_false {ref est : List Rat} (hr : ref ≠ []) (he : est ≠ []) :
    (est.isEmpty || ref.isEmpty) = false := by
  cases ref with
  | nil => exact absurd rfl hr
  | cons _ _ => cases est with
    | nil => exact absurd rfl he
    | cons _ _ => rfl

theorem boolScore_eq_one_iff (b : Bool) : boolScore b = 1 ↔ b = true := by
  cases b <;> simp [boolScore]

/-- the `≥ 3` branch of the code, as a function of the first longest gap -/
theorem gotoCore_ge3_eq {ref est : List Rat} (hr : ref ≠ []) (he : est ≠ []) (thr mu sigma : Rat)
    (h3 : 3 ≤ (flatnonzeroGt (gotoErrors ref est) thr).length) :
    ∃ s e, IsFirstLongestGap (gotoErrors ref est) thr s e ∧
      gotoCore ref est thr mu sigma =
        if (1 / 4 : Rat) * ((ref.length : Rat) - 2) < ((e - s : Nat) : Rat) - 1 then
          .ok (boolScore (gotoTrackOk (((gotoErrors ref est).drop s).take (e - s + 1)) mu sigma).1,
               (gotoTrackOk (((gotoErrors ref est).drop s).take (e - s + 1)) mu sigma).2)
        else .ok (0, false) := by
  have hne := isEmpty_or_false hr he
  have hlt : ¬ (flatnonzeroGt (gotoErrors ref est) thr).length < 3 := by omega
  have hd := diffs_length ((flatnonzeroGt (gotoErrors ref est) thr).map fun (i : Nat) => Int.ofNat i)
  rw [List.length_map] at hd
  cases hds : diffs ((flatnonzeroGt (gotoErrors ref est) thr).map fun (i : Nat) => Int.ofNat i) with
  | nil => rw [hds] at hd; simp at hd; omega
  | cons d ds =>
    rcases hfm : firstMax d ds with ⟨m, j⟩
    obtain ⟨s, e, hs, he', hm, hgap⟩ := isFirstLongestGap_of_firstMax _ _ hds hfm
    refine ⟨s, e, hgap, ?_⟩
    unfold gotoCore
    rw [hne]
    simp only [Bool.false_eq_true, if_false, if_neg hlt, hds, hfm, hs, he']
    rw [pySlice_incl _ _ _ (Nat.le_of_lt hgap.1.1), hm, Int.cast_natCast]

/-- the `< 3` branch of the code -/
theorem gotoCore_lt3_eq {ref est : List Rat} (hr : ref ≠ []) (he : est ≠ []) (thr mu sigma : Rat)
    (h3 : (flatnonzeroGt (gotoErrors ref est) thr).length < 3) {a b : Nat}
    (ha : (flatnonzeroGt (gotoErrors ref est) thr).head? = some a)
    (hb : (flatnonzeroGt (gotoErrors ref est) thr).getLast? = some b) :
    gotoCore ref est thr mu sigma =
      .ok (boolScore (gotoTrackOk (pySlice (gotoErrors ref est) ((a : Int) + 1) ((b : Int) - 1)) mu sigma).1,
           (gotoTrackOk (pySlice (gotoErrors ref est) ((a : Int) + 1) ((b : Int) - 1)) mu sigma).2) := by
  unfold gotoCore
  rw [isEmpty_or_false hr he]
  simp only [Bool.false_eq_true, if_false, if_pos h3, ha, hb]

/-! ### main theorems -/

/-- **Goto, `≥ 3` incorrect beats.**  The code returns a value; the score is binary; and it is 1 exactly
    when the first longest gap `(s, e)` has more than `(n - 2) / 4` correct beats strictly inside and the
    track `errs[s .. e]` (bounding incorrect beats included) passes the mean / std test. -/
theorem goto_definition_ge3 {ref est : List Rat} (hr : ref ≠ []) (he : est ≠ []) (thr mu sigma : Rat)
    (h3 : 3 ≤ (flatnonzeroGt (gotoErrors ref est) thr).length) :
    ∃ score tie, gotoCore ref est thr mu sigma = .ok (score, tie) ∧ (score = 0 ∨ score = 1) ∧
      (score = 1 ↔ ∃ s e, IsFirstLongestGap (gotoErrors ref est) thr s e ∧
          (1 / 4 : Rat) * ((ref.length : Rat) - 2) < ((e - s : Nat) : Rat) - 1 ∧
          TrackOk (((gotoErrors ref est).drop s).take (e - s + 1)) mu sigma) := by
  obtain ⟨s, e, hgap, heq⟩ := gotoCore_ge3_eq hr he thr mu sigma h3
  by_cases hc : (1 / 4 : Rat) * ((ref.length : Rat) - 2) < ((e - s : Nat) : Rat) - 1
  · rw [if_pos hc] at heq
    refine ⟨_, _, heq, boolScore_binary _, ?_⟩
    rw [boolScore_eq_one_iff, gotoTrackOk_fst_iff]
    constructor
    · intro h; exact ⟨s, e, hgap, hc, h⟩
    · rintro ⟨s', e', hgap', _, h⟩
      obtain ⟨rfl, rfl⟩ := isFirstLongestGap_unique hgap hgap'
      exact h
  · rw [if_neg hc] at heq
    refine ⟨0, false, heq, Or.inl rfl, ?_⟩
    constructor
    · intro h; exact absurd h (by norm_num)
    · rintro ⟨s', e', hgap', hc', _⟩
      obtain ⟨rfl, rfl⟩ := isFirstLongestGap_unique hgap hgap'
      exact absurd hc' hc

/-- **Goto, fewer than 3 incorrect beats** (`a` the first, `b` the last incorrect beat): the track is the
    Python slice `errs[a + 1 : b - 1]`, with no length requirement. -/
theorem goto_definition_lt3 {ref est : List Rat} (hr : ref ≠ []) (he : est ≠ []) (thr mu sigma : Rat)
    (h3 : (flatnonzeroGt (gotoErrors ref est) thr).length < 3) {a b : Nat}
    (ha : (flatnonzeroGt (gotoErrors ref est) thr).head? = some a)
    (hb : (flatnonzeroGt (gotoErrors ref est) thr).getLast? = some b) :
    ∃ score tie, gotoCore ref est thr mu sigma = .ok (score, tie) ∧ (score = 0 ∨ score = 1) ∧
      (score = 1 ↔ TrackOk (pySlice (gotoErrors ref est) ((a : Int) + 1) ((b : Int) - 1)) mu sigma) := by
  refine ⟨_, _, gotoCore_lt3_eq hr he thr mu sigma h3 ha hb, boolScore_binary _, ?_⟩
  rw [boolScore_eq_one_iff, gotoTrackOk_fst_iff]

/-! ### first / last incorrect beat -/

theorem head?_iff_of_pairwise {l : List Nat} (h : l.Pairwise (· < ·)) (a : Nat) :
    l.head? = some a ↔ a ∈ l ∧ ∀ i ∈ l, a ≤ i := by
  rw [List.head?_eq_getElem?]
  constructor
  · intro h0
    refine ⟨List.mem_of_getElem? h0, ?_⟩
    intro i hi
    obtain ⟨k, hk⟩ := List.getElem?_of_mem hi
    exact pairwise_lt_getElem?_le h h0 hk (Nat.zero_le _)
  · rintro ⟨ha, hmin⟩
    obtain ⟨k, hk⟩ := List.getElem?_of_mem ha
    have hlen : 0 < l.length := by have := (List.getElem?_eq_some_iff.1 hk).1; omega
    have h0 : l[0]? = some l[0] := List.getElem?_eq_getElem hlen
    have h1 := hmin _ (List.mem_of_getElem? h0)
    have h2 := pairwise_lt_getElem?_le h h0 hk (Nat.zero_le _)
    rw [h0]; congr 1; omega

theorem getLast?_iff_of_pairwise {l : List Nat} (h : l.Pairwise (· < ·)) (b : Nat) :
    l.getLast? = some b ↔ b ∈ l ∧ ∀ i ∈ l, i ≤ b := by
  rw [List.getLast?_eq_getElem?]
  constructor
  · intro h0
    refine ⟨List.mem_of_getElem? h0, ?_⟩
    intro i hi
    obtain ⟨k, hk⟩ := List.getElem?_of_mem hi
    have := (List.getElem?_eq_some_iff.1 hk).1
    exact pairwise_lt_getElem?_le h hk h0 (by omega)
  · rintro ⟨hb, hmax⟩
    obtain ⟨k, hk⟩ := List.getElem?_of_mem hb
    have hklen := (List.getElem?_eq_some_iff.1 hk).1
    have hlen : l.length - 1 < l.length := by omega
    have h0 : l[l.length - 1]? = some l[l.length - 1] := List.getElem?_eq_getElem hlen
    have h1 := hmax _ (List.mem_of_getElem? h0)
    have h2 := pairwise_lt_getElem?_le h hk h0 (by omega)
    rw [h0]; congr 1; omega

/-- `incorrect_beats[0]` is the first incorrect beat -/
theorem head?_flatnonzeroGt_iff (errs : List Rat) (thr : Rat) (a : Nat) :
    (flatnonzeroGt errs thr).head? = some a ↔ Incorrect errs thr a ∧ ∀ i, Incorrect errs thr i → a ≤ i := by
  rw [head?_iff_of_pairwise (flatnonzeroGt_pairwise errs thr)]
  simp only [mem_flatnonzeroGt]

/-- `incorrect_beats[-1]` is the last incorrect beat -/
theorem getLast?_flatnonzeroGt_iff (errs : List Rat) (thr : Rat) (b : Nat) :
    (flatnonzeroGt errs thr).getLast? = some b ↔ Incorrect errs thr b ∧ ∀ i, Incorrect errs thr i → i ≤ b := by
  rw [getLast?_iff_of_pairwise (flatnonzeroGt_pairwise errs thr)]
  simp only [mem_flatnonzeroGt]

/-- a strictly increasing list whose members take at most two values has at most two entries -/
theorem length_le_two_of_pairwise {l : List Nat} (h : l.Pairwise (· < ·)) (a b : Nat)
    (hm : ∀ i ∈ l, i = a ∨ i = b) : l.length < 3 := by
  by_contra hlen
  have h0 : l[0]? = some l[0] := List.getElem?_eq_getElem (by omega)
  have h1 : l[1]? = some l[1] := List.getElem?_eq_getElem (by omega)
  have h2 : l[2]? = some l[2] := List.getElem?_eq_getElem (by omega)
  have l01 := pairwise_lt_getElem?_lt h h0 h1 (by omega)
  have l12 := pairwise_lt_getElem?_lt h h1 h2 (by omega)
  have m0 := hm _ (List.mem_of_getElem? h0)
  have m1 := hm _ (List.mem_of_getElem? h1)
  have m2 := hm _ (List.mem_of_getElem? h2)
  omega

/-! ### shape of the beat-error array -/

theorem gotoInner_length (est : List Rat) : ∀ ref : List Rat, (gotoInner est ref).length = ref.length - 2
  | [] => rfl
  | [_] => rfl
  | [_, _] => rfl
  | a :: b :: c :: t => by
    have e : gotoInner est (a :: b :: c :: t) = gotoErr a b c est :: gotoInner est (b :: c :: t) := rfl
    rw [e, List.length_cons, gotoInner_length est (b :: c :: t)]
    simp

/-- the beat-error array has one entry per reference beat -/
theorem gotoErrors_length (ref est : List Rat) : (gotoErrors ref est).length = ref.length := by
  unfold gotoErrors
  split
  · rfl
  · rfl
  · rename_i h1 h2
    rw [List.length_append, List.length_cons, gotoInner_length]
    have : 2 ≤ ref.length := by
      rcases ref with _ | ⟨a, _ | ⟨b, t⟩⟩
      · exact absurd rfl h1
      · exact absurd rfl (h2 a)
      · simp
    simp; omega

/-- the first entry of the beat-error array is 1 -/
theorem gotoErrors_first {ref : List Rat} (h : ref ≠ []) (est : List Rat) :
    (gotoErrors ref est)[0]? = some 1 := by
  obtain ⟨t, ht⟩ := gotoErrors_head h est
  rw [ht]; rfl

/-- the last entry of the beat-error array is 1 -/
theorem gotoErrors_last {ref : List Rat} (h : ref ≠ []) (est : List Rat) :
    (gotoErrors ref est)[ref.length - 1]? = some 1 := by
  have hlen := gotoErrors_length ref est
  have hgl : (gotoErrors ref est).getLast? = some 1 := by
    unfold gotoErrors
    split
    · exact absurd rfl h
    · rfl
    · rw [List.getLast?_append]; simp
  rw [List.getLast?_eq_getElem?, hlen] at hgl
  exact hgl

/-- for a threshold below 1 the first and the last beat are incorrect -/
theorem incorrect_first {ref : List Rat} (h : ref ≠ []) (est : List Rat) {thr : Rat} (hthr : thr < 1) :
    Incorrect (gotoErrors ref est) thr 0 := ⟨1, gotoErrors_first h est, by simpa using hthr⟩

theorem incorrect_last {ref : List Rat} (h : ref ≠ []) (est : List Rat) {thr : Rat} (hthr : thr < 1) :
    Incorrect (gotoErrors ref est) thr (ref.length - 1) := ⟨1, gotoErrors_last h est, by simpa using hthr⟩

theorem incorrect_lt_length {errs : List Rat} {thr : Rat} {i : Nat} (h : Incorrect errs thr i) :
    i < errs.length := by
  obtain ⟨x, hx, _⟩ := h
  exact (List.getElem?_eq_some_iff.1 hx).1

/-- **Goto, the "all inner beats correct" situation** (`thr < 1`, so that exactly the first and the last
    beat are incorrect): the track is `errs[1 : n - 2]` — the inner beats WITHOUT the last one. -/
theorem goto_all_correct_eq {ref est : List Rat} (hr : ref ≠ []) (he : est ≠ []) (thr mu sigma : Rat)
    (hthr : thr < 1)
    (hall : ∀ i, 0 < i → i + 1 < ref.length → ¬ Incorrect (gotoErrors ref est) thr i) :
    gotoCore ref est thr mu sigma =
      .ok (boolScore (gotoTrackOk (((gotoErrors ref est).drop 1).take (ref.length - 3)) mu sigma).1,
           (gotoTrackOk (((gotoErrors ref est).drop 1).take (ref.length - 3)) mu sigma).2) := by
  have hlen := gotoErrors_length ref est
  have hpos : 0 < ref.length := List.length_pos_iff.2 hr
  have hcases : ∀ i, Incorrect (gotoErrors ref est) thr i → i = 0 ∨ i = ref.length - 1 := by
    intro i hi
    have h1 := incorrect_lt_length hi
    by_contra hcon
    exact hall i (by omega) (by omega) hi
  have h3 : (flatnonzeroGt (gotoErrors ref est) thr).length < 3 :=
    length_le_two_of_pairwise (flatnonzeroGt_pairwise _ _) 0 (ref.length - 1)
      (fun i hi => hcases i ((mem_flatnonzeroGt _ _ _).1 hi))
  have ha : (flatnonzeroGt (gotoErrors ref est) thr).head? = some 0 :=
    (head?_flatnonzeroGt_iff _ _ _).2 ⟨incorrect_first hr est hthr, fun i _ => Nat.zero_le i⟩
  have hb : (flatnonzeroGt (gotoErrors ref est) thr).getLast? = some (ref.length - 1) :=
    (getLast?_flatnonzeroGt_iff _ _ _).2 ⟨incorrect_last hr est hthr, fun i hi => by
      have := incorrect_lt_length hi; omega⟩
  rw [gotoCore_lt3_eq hr he thr mu sigma h3 ha hb]
  have hs := pySlice_short (gotoErrors ref est) (by omega)
  rw [hlen] at hs
  rw [hs]

theorem goto_definition_all_correct' {ref est : List Rat} (hr : ref ≠ []) (he : est ≠ []) (thr mu sigma : Rat)
    (hthr : thr < 1)
    (hall : ∀ i, 0 < i → i + 1 < ref.length → ¬ Incorrect (gotoErrors ref est) thr i) :
    ∃ score tie, gotoCore ref est thr mu sigma = .ok (score, tie) ∧ (score = 0 ∨ score = 1) ∧
      (score = 1 ↔ TrackOk (((gotoErrors ref est).drop 1).take (ref.length - 3)) mu sigma) := by
  refine ⟨_, _, goto_all_correct_eq hr he thr mu sigma hthr hall, boolScore_binary _, ?_⟩
  rw [boolScore_eq_one_iff, gotoTrackOk_fst_iff]

/-! ### the entries of the beat-error array; `goto` itself -/

/-- inner entry `i + 1` of the beat-error array is the normalised error of reference beat `i + 1` in the
    window delimited by the midpoints to its two neighbours -/
theorem gotoInner_getElem? (est : List Rat) : ∀ (ref : List Rat) (i : Nat) (a b c : Rat),
    ref[i]? = some a → ref[i + 1]? = some b → ref[i + 2]? = some c →
    (gotoInner est ref)[i]? = some (gotoErr a b c est)
  | [], i, a, b, c => by simp
  | [_], i, a, b, c => by
    intro _ h; simp at h
  | [_, _], i, a, b, c => by
    intro _ _ h; simp at h
  | x :: y :: z :: t, 0, a, b, c => by
    intro h0 h1 h2
    simp only [List.getElem?_cons_zero, List.getElem?_cons_succ, Option.some.injEq] at h0 h1 h2
    subst h0 h1 h2
    rfl
  | x :: y :: z :: t, i + 1, a, b, c => by
    intro h0 h1 h2
    have e : gotoInner est (x :: y :: z :: t) = gotoErr x y z est :: gotoInner est (y :: z :: t) := rfl
    rw [e, List.getElem?_cons_succ]
    rw [List.getElem?_cons_succ] at h0 h1 h2
    exact gotoInner_getElem? est (y :: z :: t) i a b c h0 h1 h2

theorem gotoErrors_inner (ref est : List Rat) (i : Nat) (a b c : Rat)
    (h0 : ref[i]? = some a) (h1 : ref[i + 1]? = some b) (h2 : ref[i + 2]? = some c) :
    (gotoErrors ref est)[i + 1]? = some (gotoErr a b c est) := by
  have hi := gotoInner_getElem? est ref i a b c h0 h1 h2
  have hlen := (List.getElem?_eq_some_iff.1 hi).1
  unfold gotoErrors
  split
  · simp at h0
  · simp at h1
  · rw [List.cons_append, List.getElem?_cons_succ, List.getElem?_append_left hlen]
    exact hi

/-- the first longest gap from the computed pieces (for concrete instances) -/
theorem isFirstLongestGap_of_compute (errs : List Rat) (thr : Rat) {d : Int} {ds : List Int} {m : Int}
    {j s e : Nat}
    (hd : diffs ((flatnonzeroGt errs thr).map fun (i : Nat) => Int.ofNat i) = d :: ds)
    (hfm : firstMax d ds = (m, j))
    (hs : (flatnonzeroGt errs thr)[j]? = some s) (he : (flatnonzeroGt errs thr)[j + 1]? = some e) :
    IsFirstLongestGap errs thr s e := by
  obtain ⟨s', e', hs', he', _, hg⟩ := isFirstLongestGap_of_firstMax errs thr hd hfm
  rw [hs] at hs'; rw [he] at he'
  cases hs'; cases he'
  exact hg

/-- the public `goto` (validation included) in the `≥ 3` branch -/
theorem goto_ge3_top {ref est : List Rat} (hv : validate ref est = .ok ()) (hr : ref ≠ []) (he : est ≠ [])
    (thr mu sigma : Rat) (h3 : 3 ≤ (flatnonzeroGt (gotoErrors ref est) thr).length) :
    ∃ score, goto ref est thr mu sigma = .ok score ∧ (score = 0 ∨ score = 1) ∧
      (score = 1 ↔ ∃ s e, IsFirstLongestGap (gotoErrors ref est) thr s e ∧
          (1 / 4 : Rat) * ((ref.length : Rat) - 2) < ((e - s : Nat) : Rat) - 1 ∧
          TrackOk (((gotoErrors ref est).drop s).take (e - s + 1)) mu sigma) := by
  obtain ⟨score, tie, h1, h2, h3'⟩ := goto_definition_ge3 hr he thr mu sigma h3
  refine ⟨score, ?_, h2, h3'⟩
  rw [goto_eq_map, gotoFull_valid hv, h1]; rfl

/-- the public `goto` (validation included) when every inner beat is correct -/
theorem goto_all_correct_top {ref est : List Rat} (hv : validate ref est = .ok ()) (hr : ref ≠ [])
    (he : est ≠ []) (thr mu sigma : Rat) (hthr : thr < 1)
    (hall : ∀ i, 0 < i → i + 1 < ref.length → ¬ Incorrect (gotoErrors ref est) thr i) :
    ∃ score, goto ref est thr mu sigma = .ok score ∧ (score = 0 ∨ score = 1) ∧
      (score = 1 ↔ TrackOk (((gotoErrors ref est).drop 1).take (ref.length - 3)) mu sigma) := by
  obtain ⟨score, tie, h1, h2, h3'⟩ := goto_definition_all_correct' hr he thr mu sigma hthr hall
  refine ⟨score, ?_, h2, h3'⟩
  rw [goto_eq_map, gotoFull_valid hv, h1]; rfl

end Beat
end Mir
