import MirProofs.Lemmas.Beat
/-!
  The histogram of `mir_eval.beat._get_entropy` (`np.histogram(errors, np.linspace(-.5, .5, bins + 1))[0]`,
  modelled by `Mir.Beat.histogram`) is a partition of the values in [-1/2, 1/2] into `bins` bins:
  every such value lies in exactly one bin, entry `i` counts the values of bin `i`, and the counts sum to
  the number of values.  All statements are for every `bins` and every list of values.
-/
namespace Mir
namespace Beat

/-! ### bin edges -/

theorem binEdge_zero (bins : Nat) : binEdge bins 0 = -(1 / 2) := by
  simp [binEdge]

theorem binEdge_last {bins : Nat} (h : 0 < bins) : binEdge bins bins = 1 / 2 := by
  have hb : (bins : Rat) ≠ 0 := by exact_mod_cast (Nat.pos_iff_ne_zero.1 h)
  unfold binEdge
  rw [div_self hb]
  norm_num

theorem binEdge_mono (bins : Nat) {i j : Nat} (h : i ≤ j) : binEdge bins i ≤ binEdge bins j := by
  unfold binEdge
  have hij : (i : Rat) ≤ (j : Rat) := by exact_mod_cast h
  have := div_le_div_of_nonneg_right hij (Nat.cast_nonneg bins : (0 : Rat) ≤ bins)
  linarith

/-- the edges `linspace(-.5, .5, bins + 1)` are strictly increasing -/
theorem binEdge_strict {bins : Nat} (h : 0 < bins) (i : Nat) : binEdge bins i < binEdge bins (i + 1) := by
  unfold binEdge
  have hb : (0 : Rat) < bins := by exact_mod_cast h
  have e : ((i + 1 : Nat) : Rat) / bins = (i : Rat) / bins + 1 / bins := by push_cast; ring
  rw [e]
  have := one_div_pos.2 hb
  linarith

/-! ### the Layer-S bin predicate -/

/-- `v` is in bin `i` as `np.histogram` with the edges `linspace(-.5, .5, bins + 1)` assigns it:
    `edge_i ≤ v < edge_{i+1}`, or `i` is the last bin and `v` is the last edge (the last bin is closed). -/
def InBin (bins i : Nat) (v : Rat) : Prop :=
  binEdge bins i ≤ v ∧ (v < binEdge bins (i + 1) ∨ (i + 1 = bins ∧ v = binEdge bins (i + 1)))

instance (bins i : Nat) (v : Rat) : Decidable (InBin bins i v) :=
  inferInstanceAs (Decidable (_ ∧ _))

/-- a value in [-1/2, 1/2] lies in some bin (bin `min ⌊(v + 1/2)·bins⌋ (bins - 1)`) -/
theorem inBin_exists {bins : Nat} (hb : 0 < bins) {v : Rat} (h1 : -(1 / 2) ≤ v) (h2 : v ≤ 1 / 2) :
    ∃ i, i < bins ∧ InBin bins i v := by
  have hbq : (0 : Rat) < bins := by exact_mod_cast hb
  obtain ⟨x, hx⟩ : ∃ x : Rat, x = (v + 1 / 2) * bins := ⟨_, rfl⟩
  have hx0 : 0 ≤ x := by rw [hx]; exact mul_nonneg (by linarith) hbq.le
  have hxn : x ≤ bins := by
    rw [hx]
    have : (v + 1 / 2) * bins ≤ 1 * bins := mul_le_mul_of_nonneg_right (by linarith) hbq.le
    linarith
  have hv : v = -(1 / 2) + x / bins := by rw [hx]; field_simp; ring
  have f1 := Rat.floor_le x
  have f2 := Rat.lt_floor_add_one x
  push_cast at f2
  have k0 : 0 ≤ x.floor := by
    have h : (0 : Rat) < ((x.floor + 1 : Int) : Rat) := by push_cast; linarith
    have h' : (0 : Int) < x.floor + 1 := by exact_mod_cast h
    omega
  have kn : x.floor ≤ (bins : Int) := by
    have h : ((x.floor : Int) : Rat) ≤ ((bins : Int) : Rat) := by push_cast; linarith
    exact_mod_cast h
  obtain ⟨k, hk⟩ := Int.eq_ofNat_of_zero_le k0
  rw [hk] at f1 f2 kn
  have kn' : k ≤ bins := by exact_mod_cast kn
  simp only [Int.cast_natCast] at f1 f2
  have e1 : ((k + 1 : Nat) : Rat) = (k : Rat) + 1 := by push_cast; ring
  rcases Nat.lt_or_eq_of_le kn' with hlt | heq
  · refine ⟨k, hlt, ?_, Or.inl ?_⟩
    · unfold binEdge
      have := div_le_div_of_nonneg_right f1 hbq.le
      linarith
    · unfold binEdge
      have := div_lt_div_of_pos_right f2 hbq
      rw [e1]
      linarith
  · have hxe : x = bins := by subst heq; linarith
    have hv' : v = 1 / 2 := by rw [hv, hxe, div_self hbq.ne']; norm_num
    refine ⟨bins - 1, by omega, ?_, Or.inr ⟨by omega, ?_⟩⟩
    · rw [hv', ← binEdge_last hb]
      exact binEdge_mono bins (by omega)
    · rw [show bins - 1 + 1 = bins by omega, binEdge_last hb, hv']

/-- the bins are pairwise disjoint -/
theorem inBin_unique {bins i j : Nat} {v : Rat} (hi : i < bins) (hj : j < bins)
    (h1 : InBin bins i v) (h2 : InBin bins j v) : i = j := by
  have key : ∀ a b, b < bins → InBin bins a v → InBin bins b v → ¬ a < b := by
    intro a b hb ha hb' hlt
    have hm := binEdge_mono bins (show a + 1 ≤ b from hlt)
    rcases ha.2 with h | ⟨h, _⟩
    · have := hb'.1
      linarith
    · omega
  have := key i j hj h1 h2
  have := key j i hi h2 h1
  omega

/-- values outside [-1/2, 1/2] are in no bin -/
theorem inBin_range {bins i : Nat} {v : Rat} (hi : i < bins) (h : InBin bins i v) :
    -(1 / 2) ≤ v ∧ v ≤ 1 / 2 := by
  have hb : 0 < bins := by omega
  have e0 := binEdge_zero bins
  have eL := binEdge_last hb
  have m0 := binEdge_mono bins (Nat.zero_le i)
  have m1 := binEdge_mono bins (show i + 1 ≤ bins from hi)
  refine ⟨by have := h.1; linarith, ?_⟩
  rcases h.2 with h | ⟨_, h⟩ <;> linarith

theorem not_inBin_of_out_of_range {bins i : Nat} {v : Rat} (hi : i < bins)
    (hv : v < -(1 / 2) ∨ 1 / 2 < v) : ¬ InBin bins i v := by
  intro h
  have := inBin_range hi h
  rcases hv with hv | hv <;> linarith

/-- every value in [-1/2, 1/2] lies in exactly one of the `bins` bins -/
theorem inBin_exists_unique {bins : Nat} (hb : 0 < bins) {v : Rat} (h1 : -(1 / 2) ≤ v) (h2 : v ≤ 1 / 2) :
    ∃! i, i < bins ∧ InBin bins i v := by
  obtain ⟨i, hi, h⟩ := inBin_exists hb h1 h2
  exact ⟨i, ⟨hi, h⟩, fun j hj => inBin_unique hj.1 hi hj.2 h⟩

/-! ### the histogram counts the bins -/

theorem histogram_eq (bins : Nat) (vals : List Rat) :
    histogram bins vals =
      (List.range bins).map fun i => (vals.filter fun v => decide (InBin bins i v)).length := by
  unfold histogram
  refine List.map_congr_left fun i _ => ?_
  congr 1
  refine List.filter_congr fun v _ => ?_
  rw [Bool.eq_iff_iff]
  simp only [Bool.and_eq_true, Bool.or_eq_true, decide_eq_true_eq]
  exact Iff.rfl

theorem histogram_length (bins : Nat) (vals : List Rat) : (histogram bins vals).length = bins := by
  simp [histogram]

/-- entry `i` of the histogram is the number of values in bin `i` -/
theorem histogram_getElem? (bins : Nat) (vals : List Rat) {i : Nat} (hi : i < bins) :
    (histogram bins vals)[i]? = some (vals.filter fun v => decide (InBin bins i v)).length := by
  rw [histogram_eq]
  simp [List.getElem?_map, List.getElem?_range hi]

/-! ### list-sum helpers -/

theorem sum_map_add_nat {α : Type} (l : List α) (f g : α → Nat) :
    (l.map fun i => f i + g i).sum = (l.map f).sum + (l.map g).sum := by
  induction l with
  | nil => simp
  | cons a t ih =>
    simp only [List.map_cons, List.sum_cons, ih]
    omega

theorem sum_map_zero_nat {α : Type} (l : List α) : (l.map fun _ => (0 : Nat)).sum = 0 := by
  induction l with
  | nil => simp
  | cons a t ih => simp only [List.map_cons, List.sum_cons, ih]

theorem foldl_add_eq_sum_aux : ∀ (l : List Nat) (a : Nat),
    l.foldl (fun (a b : Nat) => a + b) a = a + l.sum := by
  intro l
  induction l with
  | nil => intro a; simp
  | cons x t ih =>
    intro a
    simp only [List.foldl_cons, List.sum_cons, ih]
    omega

/-- the total `entropyOfCounts` computes with `foldl` is the list sum -/
theorem foldl_add_eq_sum (l : List Nat) : l.foldl (fun (a b : Nat) => a + b) 0 = l.sum := by
  rw [foldl_add_eq_sum_aux]
  omega

theorem range_sum_ite_eq (i0 : Nat) : ∀ n : Nat,
    ((List.range n).map fun i => if i = i0 then 1 else 0).sum = if i0 < n then 1 else 0 := by
  intro n
  induction n with
  | zero => simp
  | succ n ih =>
    rw [List.range_succ, List.map_append, List.sum_append, ih]
    simp only [List.map_cons, List.map_nil, List.sum_cons, List.sum_nil]
    split_ifs <;> omega

theorem length_filter_cons {α : Type} (p : α → Bool) (a : α) (l : List α) :
    ((a :: l).filter p).length = (if p a = true then 1 else 0) + (l.filter p).length := by
  rw [List.filter_cons]
  split_ifs
  · simp; omega
  · simp

/-- one value contributes 1 to exactly one bin if it is in [-1/2, 1/2], and nothing otherwise -/
theorem inBin_indicator_sum {bins : Nat} (hb : 0 < bins) (v : Rat) :
    ((List.range bins).map fun i => if decide (InBin bins i v) = true then 1 else 0).sum =
      if (decide (-(1 / 2) ≤ v) && decide (v ≤ 1 / 2)) = true then 1 else 0 := by
  by_cases hv : -(1 / 2) ≤ v ∧ v ≤ 1 / 2
  · obtain ⟨i0, hi0, h0⟩ := inBin_exists hb hv.1 hv.2
    have hc : ((List.range bins).map fun i => if decide (InBin bins i v) = true then 1 else 0) =
        (List.range bins).map fun i => if i = i0 then 1 else 0 := by
      refine List.map_congr_left fun i hi => ?_
      have hi' : i < bins := List.mem_range.1 hi
      by_cases h : i = i0
      · subst h; simp [h0]
      · have : ¬ InBin bins i v := fun hin => h (inBin_unique hi' hi0 hin h0)
        simp [h, this]
    have ht : (decide (-(1 / 2) ≤ v) && decide (v ≤ 1 / 2)) = true := by
      rw [Bool.and_eq_true]
      exact ⟨decide_eq_true hv.1, decide_eq_true hv.2⟩
    rw [hc, range_sum_ite_eq, ht, if_pos hi0, if_pos rfl]
  · have hc : ((List.range bins).map fun i => if decide (InBin bins i v) = true then 1 else 0) =
        (List.range bins).map fun _ => 0 := by
      refine List.map_congr_left fun i hi => ?_
      have hi' : i < bins := List.mem_range.1 hi
      have : ¬ InBin bins i v := fun hin => hv (inBin_range hi' hin)
      simp [this]
    rw [hc, sum_map_zero_nat]
    have hf : (decide (-(1 / 2) ≤ v) && decide (v ≤ 1 / 2)) = false := by
      rw [Bool.eq_false_iff]
      intro ht
      rw [Bool.and_eq_true] at ht
      exact hv ⟨of_decide_eq_true ht.1, of_decide_eq_true ht.2⟩
    rw [hf]
    rfl

/-! ### the counts sum to the number of (in-range) values -/

/-- `np.histogram` drops the values outside the outer edges; the counts sum to the number of values
    in [-1/2, 1/2] -/
theorem histogram_sum_general {bins : Nat} (hb : 0 < bins) (vals : List Rat) :
    (histogram bins vals).sum =
      (vals.filter fun v => decide (-(1 / 2) ≤ v) && decide (v ≤ 1 / 2)).length := by
  rw [histogram_eq]
  induction vals with
  | nil => simp
  | cons v vs ih =>
    rw [length_filter_cons, ← ih, ← inBin_indicator_sum hb v, ← sum_map_add_nat]
    congr 1
    refine List.map_congr_left fun i _ => ?_
    rw [length_filter_cons]

theorem histogram_sum {bins : Nat} (hb : 0 < bins) {vals : List Rat}
    (hv : ∀ v ∈ vals, -(1 / 2) ≤ v ∧ v ≤ 1 / 2) : (histogram bins vals).sum = vals.length := by
  rw [histogram_sum_general hb]
  congr 1
  rw [List.filter_eq_self]
  intro v hm
  rw [Bool.and_eq_true]
  exact ⟨decide_eq_true (hv v hm).1, decide_eq_true (hv v hm).2⟩

/-- the `total` of `entropyOfCounts (histogram bins vals)` is the number of values -/
theorem histogram_total_foldl {bins : Nat} (hb : 0 < bins) {vals : List Rat}
    (hv : ∀ v ∈ vals, -(1 / 2) ≤ v ∧ v ≤ 1 / 2) :
    (histogram bins vals).foldl (fun (a b : Nat) => a + b) 0 = vals.length := by
  rw [foldl_add_eq_sum, histogram_sum hb hv]

/-! ### tie to the beat errors -/

/-- every finite beat error that `_get_entropy` histograms lies in (-1/2, 1/2] -/
theorem beatErrors_range {ref est vals : List Rat} (h : beatErrors ref est = .ok vals) :
    ∀ v ∈ vals, -(1 / 2) < v ∧ v ≤ 1 / 2 := by
  intro v hv
  unfold beatErrors at h
  rw [bind_ok_iff] at h
  obtain ⟨errs, he, h⟩ := h
  simp only [pure, Except.pure, Except.ok.injEq] at h
  subst h
  obtain ⟨o, ho, hov⟩ := List.mem_filterMap.1 hv
  simp only [id] at hov
  subst hov
  obtain ⟨e, _, hf⟩ := mapPy_ok_mem _ est errs he _ ho
  exact beatError_range hf

/-- the bin counts of the beat-error histogram sum to the number of finite errors -/
theorem histogram_beatErrors_sum {ref est vals : List Rat} {bins : Nat} (hb : 0 < bins)
    (h : beatErrors ref est = .ok vals) : (histogram bins vals).sum = vals.length :=
  histogram_sum hb fun v hv => ⟨(beatErrors_range h v hv).1.le, (beatErrors_range h v hv).2⟩

theorem histogram_beatErrors_total {ref est vals : List Rat} {bins : Nat} (hb : 0 < bins)
    (h : beatErrors ref est = .ok vals) :
    (histogram bins vals).foldl (fun (a b : Nat) => a + b) 0 = vals.length :=
  histogram_total_foldl hb fun v hv => ⟨(beatErrors_range h v hv).1.le, (beatErrors_range h v hv).2⟩

end Beat
end Mir
