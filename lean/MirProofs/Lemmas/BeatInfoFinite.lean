import MirProofs.Lemmas.BeatInfoSelf
import MirProofs.Lemmas.BeatTotal
import MirProofs.Lemmas.Entropy

/-!
  `information_gain` is a number (never nan) when the ESTIMATED beats are strictly increasing.

  The backward direction of `information_gain` measures every reference beat against the intervals of the estimated
  sequence; the interval the code divides by is a difference of two different entries of that sequence
  (`beatError_interval_ok`, `diffAt_ne_zero`), hence non-zero when the sequence is strictly increasing: every
  backward beat error is finite, the histogram is not empty and the score is a number.
-/
namespace Mir
namespace Beat

/-- the error of ANY beat `e` against a strictly increasing sequence of ≥ 2 beats is finite -/
theorem beatError_some_of_increasing {ref : List Rat} (hx : ref.Pairwise (· < ·)) (hlen : 2 ≤ ref.length)
    (e : Rat) : ∃ v, beatError ref e = .ok (some v) := by
  have hne : ((ref.map fun r => e - r).map absR) ≠ [] := by
    intro hh
    have := congrArg List.length hh
    simp only [List.length_map, List.length_nil] at this
    omega
  obtain ⟨mn, c, hmin⟩ := minIdx_some _ hne
  have hc : c < ref.length := by simpa using minIdx_lt _ _ _ hmin
  obtain ⟨absErr, hget⟩ := pyGet_ok (l := ref.map fun r => e - r) (i := (c : Int))
    (by simp only [List.length_map]; omega) (by simp only [List.length_map]; omega)
  obtain ⟨_, hprobe⟩ := probe_ok (l := ref) (i := 1) (by omega) (by omega)
  obtain ⟨d, hd⟩ := beatError_interval_ok hlen hc absErr
  have hd0 : d ≠ 0 := by
    have hd' := hd
    split at hd'
    · exact diffAt_ne_zero hx hd' (by rw [if_pos (by omega), if_pos (by omega)]; omega)
    · split at hd'
      · refine diffAt_ne_zero hx hd' ?_
        rw [if_neg (by omega)]
        split <;> omega
      · exact diffAt_ne_zero hx hd' (by rw [if_neg (by omega), if_neg (by omega)]; omega)
  have hi : (1 / 2 : Rat) * d ≠ 0 := mul_ne_zero (by norm_num) hd0
  refine ⟨wrapErr ((1 / 2 : Rat) * absErr / ((1 / 2 : Rat) * d)), ?_⟩
  unfold beatError
  simp only [hmin, hget, hprobe, hd, bind, Except.bind, hi, if_false, pure, Except.pure, ite_self]

/-- all errors against a strictly increasing sequence are finite: as many values as beats measured -/
theorem beatErrors_length_of_increasing {ref : List Rat} (hx : ref.Pairwise (· < ·)) (hlen : 2 ≤ ref.length)
    (est : List Rat) : ∃ vb, beatErrors ref est = .ok vb ∧ vb.length = est.length := by
  -- choose the finite value of each beat
  have hf : ∀ e, ∃ v, beatError ref e = .ok (some v) := beatError_some_of_increasing hx hlen
  let g : Rat → Rat := fun e => Classical.choose (hf e)
  have hg : ∀ e, beatError ref e = .ok (some (g e)) := fun e => Classical.choose_spec (hf e)
  have h := mapPy_eq_map (fun e => beatError ref e) (fun e => some (g e)) est (fun e _ => hg e)
  refine ⟨est.map g, ?_, by simp⟩
  unfold beatErrors
  rw [h]
  simp only [bind, Except.bind, pure, Except.pure, Except.ok.injEq]
  induction est with
  | nil => rfl
  | cons a t ih => simp

/-- **information gain is a number for strictly increasing estimated beats** (any reference, any bins ≥ 1) -/
theorem informationGainCore_some_of_increasing {ref est : List Rat} {bins : Nat} (hb : 1 ≤ bins)
    (hinc : est.Pairwise (· < ·)) :
    ∃ x tie, informationGainCore realOps ref est bins = .ok (some x, tie) := by
  obtain ⟨⟨r, tie⟩, h⟩ := informationGainCore_total realOps ref est bins
  by_cases hlen : est.length ≤ 1 ∨ ref.length ≤ 1
  · refine ⟨realOps.ofRat 0, false, ?_⟩
    unfold informationGainCore
    rw [if_pos hlen]
  · have hsome : r.isSome := by
      rw [Entropy.informationGainCore_some_iff hb hlen h]
      obtain ⟨vb, hvb, hl⟩ := beatErrors_length_of_increasing hinc (by omega) ref
      refine ⟨vb, hvb, ?_⟩
      intro h0
      rw [h0] at hl
      simp only [List.length_nil] at hl
      omega
    obtain ⟨x, rfl⟩ := Option.isSome_iff_exists.1 hsome
    exact ⟨x, tie, h⟩

end Beat
end Mir
