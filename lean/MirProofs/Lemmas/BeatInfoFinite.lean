import MirProofs.Lemmas.BeatInfoSelf
import MirProofs.Lemmas.BeatTotal
import MirProofs.Lemmas.Entropy

/-!
  `information_gain` is a number (never nan) when the ESTIMATED beats are strictly increasing.

  The backward direction of `information_gain` measures every reference beat against the intervals of the estimated
  sequence; the interval the code divides by is a difference of two different entries of that sequence
  (`beatError_interval_ok`, `diffAt_ne_zero`), hence non-zero when the sequence is strictly increasing: every
  backward beat error is finite, the histogram is not empty and the score is a number.
-/
namespace Mir
namespace Beat

/-- the error of ANY beat `e` against a strictly increasing sequence of ≥ 2 beats is finite -/
theorem beatError_some_of_increasing {ref : List Rat} (hx : ref.Pairwise (· < ·)) (hlen : 2 ≤ ref.length)
    (e : Rat) : ∃ v, beatError ref e = .ok (some v) := by
  have hne : ((ref.map fun r => e - r).map absR) ≠ [] := by
    intro hh
    have := congrArg List.length hh
    simp only [List.length_map, List.length_nil] at this
    omega
  obtain ⟨mn, c, hmin⟩ := minIdx_some _ hne
  have hc : c < ref.length := by simpa using minIdx_lt _ _ _ hmin
  obtain ⟨absErr, hget⟩ := pyGet_ok (l := ref.map fun r => e - r) (i := (c : Int))
    (by simp only [List.length_map]; omega) (by simp only [List.length_map]; omega)
  obtain ⟨_, hprobe⟩ := probe_ok (l := ref) (i := 1) (by omega) (by omega)
  obtain ⟨d, hd⟩ := beatError_interval_ok hlen hc absErr
  have hd0 : d ≠ 0 := by
    have hd' := hd
    split at hd'
    · exact diffAt_ne_zero hx hd' (by rw [if_pos (by omega), if_pos (by omega)]; omega)
    · split at hd'
      · refine diffAt_ne_zero hx hd' ?_
        rw [if_neg (by omega)]
        split <;> omega
      · exact diffAt_ne_zero hx hd' (by rw [if_neg (by omega), if_neg (by omega)]; omega)
  have hi : (1 / 2 : Rat) * d ≠ 0 := mul_ne_zero (by norm_num) hd0
  refine ⟨wrapErr ((1 / 2 : Rat) * absErr / ((1 / 2 : Rat) * d)), ?_⟩
  unfold beatError
  simp only [hmin, hget, hprobe, hd, bind, Except.bind, hi, if_false, pure, Except.pure, ite_self]

/-- all errors against a strictly increasing sequence are finite: as many values as beats measured -/
theorem beatErrors_length_of_increasing {ref : List Rat} (hx : ref.Pairwise (· < ·)) (hlen : 2 ≤ ref.length)
    (est : List Rat) : ∃ vb, beatErrors ref est = .ok vb ∧ vb.length = est.length := by
  -- choose the finite value of each beat
  have hf : ∀ e, ∃ v, beatError ref e = .ok (some v) := beatError_some_of_increasing hx hlen
  let g : Rat → Rat := fun e => Classical.choose (hf e)
  have hg : ∀ e, beatError ref e = .ok (some (g e)) := fun e => Classical.choose_spec (hf e)
  have h := mapPy_eq_map (fun e => beatError ref e) (fun e => some (g e)) est (fun e _ => hg e)
  refine ⟨est.map g, ?_, by simp⟩
  unfold beatErrors
  rw [h]
  simp only [bind, Except.bind, pure, Except.pure, Except.ok.injEq]
  induction est with
  | nil => rfl
  | cons a t ih => simp

/-- **information gain is a number for strictly increasing estimated beats** (any reference, any bins ≥ 1) -/
theorem informationGainCore_some_of_increasing {ref est : List Rat} {bins : Nat} (hb : 1 ≤ bins)
    (hinc : est.Pairwise (· < ·)) :
    ∃ x tie, informationGainCore realOps ref est bins = .ok (some x, tie) := by
  obtain ⟨⟨r, tie⟩, h⟩ := informationGainCore_total realOps ref est bins
  by_cases hlen : est.length ≤ 1 ∨ ref.length ≤ 1
  · refine ⟨realOps.ofRat 0, false, ?_⟩
    unfold informationGainCore
    rw [if_pos hlen]
  · have hsome : r.isSome := by
      rw [Entropy.informationGainCore_some_iff hb hlen h]
      obtain ⟨vb, hvb, hl⟩ := beatErrors_length_of_increasing hinc (by omega) ref
      refine ⟨vb, hvb, ?_⟩
      intro h0
      rw [h0] at hl
      simp only [List.length_nil] at hl
      omega
    obtain ⟨x, rfl⟩ := Option.isSome_iff_exists.1 hsome
    exact ⟨x, tie, h⟩

/-- a non-decreasing list that is not strictly increasing holds two ADJACENT equal entries -/
theorem adjacent_dup_of_not_increasing : ∀ (l : List Rat), l.Pairwise (· ≤ ·) → ¬ l.Pairwise (· < ·) →
    ∃ pre a post, l = pre ++ a :: a :: post
  | [], _, h => absurd List.Pairwise.nil h
  | a :: t, hle, hnot => by
      rw [List.pairwise_cons] at hle hnot
      by_cases ht : t.Pairwise (· < ·)
      · -- some later entry is not above `a`; then already the next one equals `a`
        have : ¬ ∀ b ∈ t, a < b := fun h => hnot ⟨h, ht⟩
        cases t with
        | nil => exact absurd (fun b hb => by cases hb) this
        | cons b0 t' =>
          have hab0 : a ≤ b0 := hle.1 b0 (by simp)
          have hb0 : b0 = a := by
            by_contra hne
            apply this
            intro b hb
            have h1 : a < b0 := lt_of_le_of_ne hab0 (fun h => hne h.symm)
            rcases List.mem_cons.1 hb with rfl | hb'
            · exact h1
            · exact lt_of_lt_of_le h1 ((List.pairwise_cons.1 hle.2).1 b hb')
          exact ⟨[], a, t', by rw [hb0]; rfl⟩
      · obtain ⟨pre, x, post, h⟩ := adjacent_dup_of_not_increasing t hle.2 ht
        exact ⟨a :: pre, x, post, by rw [h]; rfl⟩

/-- **necessary condition for nan**: on validated input the score can be nan only if two consecutive ESTIMATED beats
    coincide -/
theorem informationGain_none_needs_dup {ref est : List Rat} {bins : Nat} {tie : Bool} (hb : 1 ≤ bins)
    (hv : validate ref est = .ok ()) (h : informationGain realOps ref est bins = .ok (none, tie)) :
    ∃ pre a post, est = pre ++ a :: a :: post := by
  have hle : est.Pairwise (· ≤ ·) := ((validateEvents_ok_iff est).1 ((validate_ok_split ref est).1 hv).2).2
  apply adjacent_dup_of_not_increasing est hle
  intro hinc
  obtain ⟨x, tie', hx⟩ := informationGainCore_some_of_increasing (ref := ref) (bins := bins) hb hinc
  unfold informationGain at h
  rw [validate_bind_ok] at h
  rw [hx] at h
  simp at h

end Beat
end Mir
