import MirProofs.Lemmas.BeatReal
import MirProofs.Lemmas.BeatDefHist
import MirProofs.Lemmas.BeatDefCont
/-!
  Information gain of a strictly increasing beat sequence (≥ 2 beats) against itself.

  Every estimated beat's nearest annotation is the beat itself (distance 0, first and only minimum); the
  neighbouring reference interval the code divides by is a difference of two different beats, hence non-zero;
  the normalised wrapped error is `wrapErr 0 = 0`.  So all `n` errors are 0, the histogram has the single
  non-empty bin with count `n` (every count is 0 or `n`, the total is `n`), the entropy is 0 in both directions and
  the information gain is `(log2 bins - 0) / log2 bins = 1` for `bins ≥ 2`.  No error sits on a non-dyadic edge
  (0 is dyadic), so the tie flag is `false`.
-/
namespace Mir
namespace Beat

/-! ### indexing -/

theorem pyGet_ok_spec {l : List Rat} {i : Int} {x : Rat} (h : pyGet l i = .ok x) :
    ∃ n : Nat, (n : Int) = (if i < 0 then i + (l.length : Int) else i) ∧ l[n]? = some x := by
  unfold pyGet at h
  simp only [] at h
  by_cases hi : i < 0
  · simp only [hi, if_true] at h ⊢
    by_cases hj : i + (l.length : Int) < 0
    · simp [hj] at h
    · simp only [hj, if_false] at h
      cases hy : l[(i + (l.length : Int)).toNat]? with
      | none => simp [hy] at h
      | some y =>
        simp only [hy, Except.ok.injEq] at h
        subst h
        exact ⟨_, Int.toNat_of_nonneg (by omega), hy⟩
  · simp only [hi, if_false] at h ⊢
    cases hy : l[i.toNat]? with
    | none => simp [hy] at h
    | some y =>
      simp only [hy, Except.ok.injEq] at h
      subst h
      exact ⟨_, Int.toNat_of_nonneg (by omega), hy⟩

/-- a difference of two entries at different (normalised) positions of a strictly increasing list is non-zero -/
theorem diffAt_ne_zero {l : List Rat} (hl : l.Pairwise (· < ·)) {i j : Int} {d : Rat}
    (h : diffAt l i j = .ok d)
    (hij : (if i < 0 then i + (l.length : Int) else i) ≠ (if j < 0 then j + (l.length : Int) else j)) :
    d ≠ 0 := by
  unfold diffAt at h
  rw [bind_ok_iff] at h
  obtain ⟨a, ha, h⟩ := h
  rw [bind_ok_iff] at h
  obtain ⟨b, hb, h⟩ := h
  simp only [pure, Except.pure, Except.ok.injEq] at h
  subst h
  obtain ⟨n, hn, hna⟩ := pyGet_ok_spec ha
  obtain ⟨m, hm, hmb⟩ := pyGet_ok_spec hb
  have hnm : n ≠ m := by
    intro e
    subst e
    exact hij (hn.symm.trans hm)
  obtain ⟨hn', hna'⟩ := List.getElem?_eq_some_iff.1 hna
  obtain ⟨hm', hmb'⟩ := List.getElem?_eq_some_iff.1 hmb
  rw [List.pairwise_iff_getElem] at hl
  intro h0
  rcases Nat.lt_or_gt_of_ne hnm with hlt | hlt
  · have := hl n m hn' hm' hlt
    rw [hna', hmb'] at this
    linarith
  · have := hl m n hm' hn' hlt
    rw [hna', hmb'] at this
    linarith

theorem wrapErr_zero : wrapErr 0 = 0 := by decide +kernel

/-! ### the error of one beat -/

theorem beatError_self (pre rest : List Rat) (e : Rat)
    (hx : (pre ++ e :: rest).Pairwise (· < ·)) (hlen : 2 ≤ (pre ++ e :: rest).length) :
    beatError (pre ++ e :: rest) e = .ok (some 0) := by
  have hx' := hx
  rw [List.pairwise_append] at hx'
  obtain ⟨_, hx2, hx3⟩ := hx'
  rw [List.pairwise_cons] at hx2
  have hmin : minIdx (List.map absR (List.map (fun r => e - r) (pre ++ e :: rest))) = some (0, pre.length) := by
    have := minIdx_zero_at (pre.map fun r => absR (e - r)) (rest.map fun r => absR (e - r))
      (by
        intro y hy
        obtain ⟨a, ha, rfl⟩ := List.mem_map.1 hy
        have := hx3 a ha e (by simp)
        exact absR_pos (by linarith))
      (by
        intro y hy
        obtain ⟨a, _, rfl⟩ := List.mem_map.1 hy
        rw [absR_eq_abs]; exact abs_nonneg _)
    simpa [absR_zero, List.map_map, Function.comp_def] using this
  have hc : pre.length < (pre ++ e :: rest).length := by simp
  have hget : pyGet (List.map (fun r => e - r) (pre ++ e :: rest)) (pre.length : Int) = .ok 0 :=
    pyGet_nat _ _ _ (by simp)
  have hprobe : probe (pre ++ e :: rest) 1 = .ok () := by
    obtain ⟨v, hv⟩ := probe_ok (l := pre ++ e :: rest) (i := 1) (by omega) (by omega)
    exact hv
  obtain ⟨d, hd⟩ := beatError_interval_ok hlen hc 0
  have hd0 : d ≠ 0 := by
    have hd' := hd
    split at hd'
    · exact diffAt_ne_zero hx hd' (by rw [if_pos (by omega), if_pos (by omega)]; omega)
    · split at hd'
      · exact absurd ‹(0 : Rat) < 0› (lt_irrefl _)
      · exact diffAt_ne_zero hx hd' (by rw [if_neg (by omega), if_neg (by omega)]; omega)
  have hi : (1 / 2 : Rat) * d ≠ 0 := mul_ne_zero (by norm_num) hd0
  unfold beatError
  simp only [hmin, hget, hprobe, hd, bind, Except.bind, hi, if_false, mul_zero, zero_div, wrapErr_zero,
    pure, Except.pure, ite_self]

/-- all beat errors of a strictly increasing sequence against itself are 0 -/
theorem beatErrors_self (x : List Rat) (hx : x.Pairwise (· < ·)) (hlen : 2 ≤ x.length) :
    beatErrors x x = .ok (List.replicate x.length 0) := by
  unfold beatErrors
  have h := mapPy_eq_map (fun e => beatError x e) (fun _ => some (0 : Rat)) x (by
    intro e he
    obtain ⟨pre, rest, rfl⟩ := List.append_of_mem he
    exact beatError_self pre rest e hx hlen)
  rw [h]
  simp only [bind, Except.bind, pure, Except.pure, Except.ok.injEq]
  clear h hx hlen
  induction x with
  | nil => rfl
  | cons a t _ => simp [List.replicate_succ]

/-! ### histogram, tie flag and entropy of `n` zeros -/

theorem histogram_replicate_mem (bins n : Nat) (v : Rat) :
    ∀ c ∈ histogram bins (List.replicate n v), c = 0 ∨ c = n := by
  intro c hc
  unfold histogram at hc
  obtain ⟨i, _, rfl⟩ := List.mem_map.1 hc
  rw [List.filter_replicate]
  split
  · right; simp
  · left; simp

theorem histTie_replicate_zero (bins n : Nat) : histTie bins (List.replicate n 0) = false := by
  unfold histTie
  rw [List.any_eq_false]
  intro v hv
  have : v = 0 := List.eq_of_mem_replicate hv
  subst this
  have : isDyadic 0 = true := by decide +kernel
  simp [this]

theorem foldl_fixed {α β : Type} (f : α → β → α) (a : α) : ∀ l : List β, (∀ c ∈ l, f a c = a) → l.foldl f a = a := by
  intro l
  induction l with
  | nil => intro _; rfl
  | cons c t ih =>
    intro h
    rw [List.foldl_cons, h c List.mem_cons_self]
    exact ih fun c' hc' => h c' (List.mem_cons_of_mem _ hc')

/-- counts that are all 0 or the (non-zero) total have entropy 0 -/
theorem entropyOfCounts_degenerate (counts : List Nat) (n : Nat) (hn : n ≠ 0)
    (htot : counts.foldl (fun (a b : Nat) => a + b) 0 = n) (hc : ∀ c ∈ counts, c = 0 ∨ c = n) :
    entropyOfCounts realOps counts = some 0 := by
  unfold entropyOfCounts
  simp only [htot, hn, if_false]
  rw [foldl_fixed]
  · simp [realOps]
  · intro c hcm
    have hn' : (n : ℝ) ≠ 0 := by exact_mod_cast hn
    rcases hc c hcm with rfl | rfl
    · simp [realOps]
    · simp [realOps, hn]

theorem getEntropy_self (x : List Rat) (bins : Nat) (hx : x.Pairwise (· < ·)) (hlen : 2 ≤ x.length)
    (hb : 0 < bins) : getEntropy realOps x x bins = .ok (some 0, false) := by
  unfold getEntropy
  rw [beatErrors_self x hx hlen]
  have htot := histogram_total_foldl (bins := bins) hb (vals := List.replicate x.length 0) (by
    intro v hv
    have : v = 0 := List.eq_of_mem_replicate hv
    subst this
    norm_num)
  rw [List.length_replicate] at htot
  have hent := entropyOfCounts_degenerate (histogram bins (List.replicate x.length 0)) x.length (by omega) htot
    (histogram_replicate_mem bins x.length 0)
  simp only [bind, Except.bind, pure, Except.pure, hent, histTie_replicate_zero]

theorem infoGainOf_zero (bins : Nat) (hb : 2 ≤ bins) : infoGainOf realOps bins (some 0) (some 0) = some 1 := by
  unfold infoGainOf
  have hpos : 0 < Real.logb 2 (((bins : Rat)) : ℝ) := by
    apply Real.logb_pos (by norm_num)
    have : (2 : ℝ) ≤ (bins : ℝ) := by exact_mod_cast hb
    push_cast
    linarith
  have hne := ne_of_gt hpos
  simp only [realOps, lt_irrefl, decide_false, Bool.false_eq_true, if_false, Option.map_some, sub_zero,
    div_self hne]

/-- the unvalidated core: information gain of a strictly increasing sequence of ≥ 2 beats against itself is 1,
    and no histogram tie is flagged -/
theorem informationGainCore_self (x : List Rat) (bins : Nat) (hx : x.Pairwise (· < ·)) (hlen : 2 ≤ x.length)
    (hb : 2 ≤ bins) : informationGainCore realOps x x bins = .ok (some 1, false) := by
  unfold informationGainCore
  have hg : ¬ (x.length ≤ 1 ∨ x.length ≤ 1) := by omega
  simp only [hg, if_false, getEntropy_self x bins hx hlen (by omega), bind, Except.bind, pure, Except.pure,
    infoGainOf_zero bins hb, Bool.or_self]

theorem informationGain_self (x : List Rat) (bins : Nat) (hx : x.Pairwise (· < ·)) (hlen : 2 ≤ x.length)
    (hb : 2 ≤ bins) (hv : validate x x = .ok ()) : informationGain realOps x x bins = .ok (some 1, false) := by
  unfold informationGain
  rw [validate_bind_ok]
  exact ⟨hv, informationGainCore_self x bins hx hlen hb⟩

end Beat
end Mir
