import MirProofs.Lemmas.Beat
import Mathlib.Tactic.SplitIfs
/-!
  P-score ≤ 1 under separation: when the quantised estimated beats are more than `2·win` samples apart, every
  reference impulse has at most one estimated impulse within the correlation window, so the windowed
  correlation sum is at most the number of reference impulses.
-/
namespace Mir
namespace Beat

/-- every lag kept by the code's slice `[middle - win : middle + win + 1]` (Python semantics, including a
    negative start wrapping around) is within `±win` of the middle -/
theorem slice_within_window (N : Nat) (win : Int) (hw : 0 ≤ win) (k : Int)
    (h1 : ((pySliceBounds (2 * N - 1) ((((2 * N - 1) / 2 : Nat) : Int) - win)
              ((((2 * N - 1) / 2 : Nat) : Int) + win + 1)).1 : Int) ≤ k)
    (h2 : k < ((pySliceBounds (2 * N - 1) ((((2 * N - 1) / 2 : Nat) : Int) - win)
              ((((2 * N - 1) / 2 : Nat) : Int) + win + 1)).2 : Int)) :
    -win ≤ k - ((N : Int) - 1) ∧ k - ((N : Int) - 1) ≤ win := by
  simp only [pySliceBounds] at h1 h2
  split_ifs at h1 h2 <;> omega

theorem diffs_sep (d : Int) (hd : 0 ≤ d) : ∀ l : List Int, (diffs l).all (fun x => decide (d < x)) = true →
    l.Pairwise (fun a b => a + d < b)
  | [] => fun _ => List.Pairwise.nil
  | [_] => fun _ => by simp
  | a :: b :: t => fun h => by
    simp only [diffs, List.all_cons, Bool.and_eq_true, decide_eq_true_eq] at h
    have ih := diffs_sep d hd (b :: t) h.2
    have ih' := ih
    rw [List.pairwise_cons] at ih' ⊢
    refine ⟨?_, ih⟩
    intro y hy
    rcases List.mem_cons.1 hy with rfl | hy
    · omega
    · have := ih'.1 y hy; omega

theorem filter_near_le_one (i w : Int) (p : Int → Bool) (hp : ∀ j, p j = true → -w ≤ i - j ∧ i - j ≤ w) :
    ∀ es : List Int, es.Pairwise (fun a b => a + 2 * w < b) → (es.filter p).length ≤ 1 := by
  intro es
  induction es with
  | nil => intro _; simp
  | cons a t ih =>
    intro h
    rw [List.pairwise_cons] at h
    rw [List.filter_cons]
    split
    · rename_i ha
      have hnil : t.filter p = [] := by
        rw [List.filter_eq_nil_iff]
        intro b hb hpb
        have h1 := hp a ha
        have h2 := hp b hpb
        have := h.1 b hb
        omega
      simp [hnil]
    · exact ih h.2

theorem flatMap_length_le {α β : Type} (f : α → List β) : ∀ l : List α, (∀ x ∈ l, (f x).length ≤ 1) →
    (l.flatMap f).length ≤ l.length := by
  intro l
  induction l with
  | nil => intro _; simp
  | cons a t ih =>
    intro h
    have h1 := h a List.mem_cons_self
    have h2 := ih (fun x hx => h x (List.mem_cons_of_mem _ hx))
    simp only [List.flatMap_cons, List.length_append, List.length_cons]
    omega

theorem insertInt_length (x : Int) : ∀ l : List Int, (insertInt x l).length = l.length + 1 := by
  intro l
  induction l with
  | nil => rfl
  | cons y t ih => simp only [insertInt]; split <;> simp [ih]

theorem sortInt_length : ∀ l : List Int, (sortInt l).length = l.length := by
  intro l
  induction l with
  | nil => rfl
  | cons x t ih => simp [sortInt, insertInt_length, ih]

theorem dedupAdj_length_le : ∀ l : List Int, (dedupAdj l).length ≤ l.length
  | [] => by simp [dedupAdj]
  | [_] => by simp [dedupAdj]
  | a :: b :: t => by
    have ih := dedupAdj_length_le (b :: t)
    simp only [dedupAdj]
    split
    · simp only [List.length_cons] at ih ⊢; omega
    · simp only [List.length_cons] at ih ⊢; omega

theorem trainSupport_length_le (beats : List Rat) (o : Rat) : (trainSupport beats o).length ≤ beats.length := by
  unfold trainSupport
  refine le_trans (dedupAdj_length_le _) ?_
  rw [sortInt_length, List.length_map]

/-- the windowed correlation sum is at most the number of reference impulses when the estimated impulses
    are more than `2·win` samples apart -/
theorem pairCount_le (rs es : List Int) (N : Nat) (win : Int) (hw : 0 ≤ win)
    (hsep : (diffs es).all (fun d => decide (2 * win < d)) = true) :
    pairCount rs es ((N : Int) - 1)
      (pySliceBounds (2 * N - 1) ((((2 * N - 1) / 2 : Nat) : Int) - win) ((((2 * N - 1) / 2 : Nat) : Int) + win + 1)).1
      (pySliceBounds (2 * N - 1) ((((2 * N - 1) / 2 : Nat) : Int) - win) ((((2 * N - 1) / 2 : Nat) : Int) + win + 1)).2
      ≤ rs.length := by
  unfold pairCount
  apply flatMap_length_le
  intro i _
  apply filter_near_le_one i win _ _ es (diffs_sep (2 * win) (by omega) es hsep)
  intro j hj
  simp only [Bool.and_eq_true, decide_eq_true_eq] at hj
  have := slice_within_window N win hw (i - j + ((N : Int) - 1)) hj.1 hj.2
  omega

/-- with `0 ≤ win < N` the zero lag (index `N - 1`) is inside the slice -/
theorem slice_contains_middle (N : Nat) (win : Int) (hw : 0 ≤ win) (hwN : win < (N : Int)) :
    ((pySliceBounds (2 * N - 1) ((((2 * N - 1) / 2 : Nat) : Int) - win)
        ((((2 * N - 1) / 2 : Nat) : Int) + win + 1)).1 : Int) ≤ (N : Int) - 1 ∧
    (N : Int) - 1 < ((pySliceBounds (2 * N - 1) ((((2 * N - 1) / 2 : Nat) : Int) - win)
        ((((2 * N - 1) / 2 : Nat) : Int) + win + 1)).2 : Int) := by
  simp only [pySliceBounds]
  split_ifs <;> omega

theorem flatMap_length_eq {α β : Type} (f : α → List β) : ∀ l : List α, (∀ x ∈ l, (f x).length = 1) →
    (l.flatMap f).length = l.length := by
  intro l
  induction l with
  | nil => intro _; simp
  | cons a t ih =>
    intro h
    have h1 := h a List.mem_cons_self
    have h2 := ih (fun x hx => h x (List.mem_cons_of_mem _ hx))
    simp only [List.flatMap_cons, List.length_append, List.length_cons]
    omega

/-- a sequence against itself: only the diagonal pairs fall in the window when the impulses are more than `win`
    samples apart, so the windowed correlation sum is the number of impulses -/
theorem pairCount_self (R : List Int) (N : Nat) (win : Int) (hw : 0 ≤ win) (hwN : win < (N : Int))
    (hsep : (diffs R).all (fun d => decide (win < d)) = true) :
    pairCount R R ((N : Int) - 1)
      (pySliceBounds (2 * N - 1) ((((2 * N - 1) / 2 : Nat) : Int) - win) ((((2 * N - 1) / 2 : Nat) : Int) + win + 1)).1
      (pySliceBounds (2 * N - 1) ((((2 * N - 1) / 2 : Nat) : Int) - win) ((((2 * N - 1) / 2 : Nat) : Int) + win + 1)).2
      = R.length := by
  have hpw := diffs_sep win hw R hsep
  have hnd : R.Nodup := hpw.imp (fun {a b} h => by omega)
  have hsym : ∀ x ∈ R, ∀ y ∈ R, x = y ∨ x + win < y ∨ y + win < x := by
    haveI : Std.Symm (fun x y : Int => x = y ∨ x + win < y ∨ y + win < x) := ⟨by
      intro a b h; rcases h with h | h | h
      · exact Or.inl h.symm
      · exact Or.inr (Or.inr h)
      · exact Or.inr (Or.inl h)⟩
    have hall := List.Pairwise.forall_of_forall (R := fun x y : Int => x = y ∨ x + win < y ∨ y + win < x)
      (l := R) (fun x _ => Or.inl rfl) (hpw.imp (fun {a b} h => Or.inr (Or.inl h)))
    intro x hx y hy
    exact hall hx hy
  have hmid := slice_contains_middle N win hw hwN
  unfold pairCount
  apply flatMap_length_eq
  intro i hi
  have hcongr : List.filter (fun j =>
      decide (((pySliceBounds (2 * N - 1) ((((2 * N - 1) / 2 : Nat) : Int) - win)
        ((((2 * N - 1) / 2 : Nat) : Int) + win + 1)).1 : Int) ≤ i - j + ((N : Int) - 1)) &&
      decide (i - j + ((N : Int) - 1) < ((pySliceBounds (2 * N - 1) ((((2 * N - 1) / 2 : Nat) : Int) - win)
        ((((2 * N - 1) / 2 : Nat) : Int) + win + 1)).2 : Int))) R = List.filter (fun j => j == i) R := by
    apply List.filter_congr
    intro j hj
    by_cases hji : j = i
    · subst hji
      simp only [sub_self, zero_add, beq_self_eq_true, Bool.and_eq_true, decide_eq_true_eq]
      exact hmid
    · have hne : (j == i) = false := by simpa using hji
      rw [hne, Bool.and_eq_false_iff]
      by_contra hcon
      push Not at hcon
      simp only [ne_eq, Bool.not_eq_false, decide_eq_true_eq] at hcon
      have hwin := slice_within_window N win hw (i - j + ((N : Int) - 1)) hcon.1 hcon.2
      rcases hsym i hi j hj with h | h | h
      · exact hji h.symm
      · omega
      · omega
  rw [hcongr, ← List.countP_eq_length_filter]
  exact List.count_eq_one_of_mem hnd hi

end Beat
end Mir
