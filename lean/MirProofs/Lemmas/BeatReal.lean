import MirProofs.Lemmas.Beat
import Mathlib.Analysis.SpecialFunctions.Log.Base
/-!
  The `ℝ` interpretation of the transcendental part of `MirModel.Beat` (the same definitions the driver runs
  at `Float`), and the facts about `cemgil` and `information_gain` that need `Real.exp` / `Real.logb`.
-/
namespace Mir
namespace Beat

noncomputable def realOps : TOps ℝ where
  ofRat := fun q => (q : ℝ)
  add := (· + ·)
  sub := (· - ·)
  mul := (· * ·)
  div := (· / ·)
  exp := Real.exp
  log2 := Real.logb 2
  lt := fun a b => decide (a < b)

/-- the Gaussian weight of one reference beat at distance `d` from the closest estimate -/
noncomputable def gaussW (sigma d : Rat) : ℝ := Real.exp ((cemgilArg sigma d : Rat) : ℝ)

theorem cemgilArg_nonpos (sigma d : Rat) : cemgilArg sigma d ≤ 0 := by
  unfold cemgilArg
  apply div_nonpos_of_nonpos_of_nonneg
  · have := mul_self_nonneg d; linarith
  · have := mul_self_nonneg sigma; linarith

theorem gaussW_pos (sigma d : Rat) : 0 < gaussW sigma d := Real.exp_pos _

theorem gaussW_le_one (sigma d : Rat) : gaussW sigma d ≤ 1 := by
  unfold gaussW
  rw [Real.exp_le_one_iff]
  exact_mod_cast cemgilArg_nonpos sigma d

theorem gaussW_zero (sigma : Rat) : gaussW sigma 0 = 1 := by
  unfold gaussW cemgilArg; simp

theorem foldl_add_eq (g : Rat → ℝ) : ∀ (l : List Rat) (init : ℝ),
    l.foldl (fun acc b => acc + g b) init = init + (l.map g).sum := by
  intro l
  induction l with
  | nil => intro init; simp
  | cons x t ih => intro init; simp only [List.foldl_cons, ih, List.map_cons, List.sum_cons]; ring

/-- the accuracy of one variation, as the documented formula: Σ_b w(b) / ((|est| + |ref|)/2) -/
theorem cemgilAcc_real (sigma : Rat) (refv : List Rat) (e : Rat) (es : List Rat) :
    cemgilAcc realOps sigma refv e es =
      ((refv.map fun b => gaussW sigma (minAbsDiff b e es)).sum) /
        ((1 / 2 : ℝ) * (((es.length + 1 : Nat) : ℝ) + (refv.length : ℝ))) := by
  unfold cemgilAcc
  have h := foldl_add_eq (fun b => gaussW sigma (minAbsDiff b e es)) refv 0
  simp only [realOps, gaussW] at h ⊢
  rw [show ((0 : Rat) : ℝ) = 0 by norm_num, h]
  congr 1
  · simp
  · push_cast; ring

theorem sum_map_nonneg (g : Rat → ℝ) (hg : ∀ x, 0 ≤ g x) : ∀ l : List Rat, 0 ≤ (l.map g).sum := by
  intro l
  induction l with
  | nil => simp
  | cons x t ih => simp only [List.map_cons, List.sum_cons]; linarith [hg x]

theorem sum_map_le_length (g : Rat → ℝ) (hg : ∀ x, g x ≤ 1) : ∀ l : List Rat, (l.map g).sum ≤ (l.length : ℝ) := by
  intro l
  induction l with
  | nil => simp
  | cons x t ih => simp only [List.map_cons, List.sum_cons, List.length_cons]; push_cast; linarith [hg x]

theorem cemgilAcc_nonneg (sigma : Rat) (refv : List Rat) (e : Rat) (es : List Rat) :
    0 ≤ cemgilAcc realOps sigma refv e es := by
  rw [cemgilAcc_real]
  apply div_nonneg
  · exact sum_map_nonneg _ (fun x => (gaussW_pos _ _).le) refv
  · positivity

/-- as many estimates as reference beats: the accuracy cannot exceed 1 -/
theorem cemgilAcc_le_one (sigma : Rat) (refv : List Rat) (e : Rat) (es : List Rat)
    (h : refv.length ≤ es.length + 1) : cemgilAcc realOps sigma refv e es ≤ 1 := by
  rw [cemgilAcc_real]
  have hs := sum_map_le_length (fun b => gaussW sigma (minAbsDiff b e es)) (fun x => gaussW_le_one _ _) refv
  have hl : (refv.length : ℝ) ≤ ((es.length + 1 : Nat) : ℝ) := by exact_mod_cast h
  have hd : (0 : ℝ) < (1 / 2 : ℝ) * (((es.length + 1 : Nat) : ℝ) + (refv.length : ℝ)) := by
    have : (0 : ℝ) < ((es.length + 1 : Nat) : ℝ) := by positivity
    have : (0 : ℝ) ≤ (refv.length : ℝ) := by positivity
    linarith
  rw [div_le_one hd]
  linarith

theorem maxT_real_ge (a : ℝ) (l : List ℝ) : a ≤ maxT realOps a l := by
  unfold maxT
  induction l generalizing a with
  | nil => simp
  | cons x t ih =>
    simp only [List.foldl_cons]
    refine le_trans ?_ (ih _)
    simp only [realOps]
    by_cases h : a < x
    · simp only [h, decide_true, if_true]; exact h.le
    · simp only [h, decide_false, Bool.false_eq_true, if_false]; exact le_refl _

theorem maxT_real_le (u a : ℝ) (l : List ℝ) (ha : a ≤ u) (hl : ∀ x ∈ l, x ≤ u) : maxT realOps a l ≤ u := by
  unfold maxT
  induction l generalizing a with
  | nil => simpa using ha
  | cons x t ih =>
    simp only [List.foldl_cons]
    apply ih
    · simp only [realOps]
      by_cases h : a < x
      · simp only [h, decide_true, if_true]; exact hl x List.mem_cons_self
      · simp only [h, decide_false, Bool.false_eq_true, if_false]; exact ha
    · intro y hy; exact hl y (List.mem_cons_of_mem _ hy)

theorem everyOther_length_le {α : Type} : ∀ l : List α, (everyOther l).length ≤ l.length
  | [] => by simp [everyOther]
  | [_] => by simp [everyOther]
  | _ :: _ :: t => by
    have := everyOther_length_le t
    simp only [everyOther, List.length_cons]; omega

/-- no metric-level variation has more than 2n - 1 beats -/
theorem variations_length_le (ref : List Rat) (hne : ref ≠ []) : ∀ v ∈ variations ref, v.length ≤ 2 * ref.length - 1 := by
  have hpos : 0 < ref.length := List.length_pos_iff.2 hne
  intro v hv
  simp only [variations, List.mem_cons, List.not_mem_nil, or_false] at hv
  have hd := doubled_length ref
  rcases hv with rfl | rfl | rfl | rfl | rfl
  · omega
  · have := everyOther_length_le ((doubled ref).drop 1)
    simp only [List.length_drop] at this; omega
  · omega
  · have := everyOther_length_le ref; omega
  · have := everyOther_length_le (ref.drop 1)
    simp only [List.length_drop] at this; omega

theorem absR_nonneg (x : Rat) : 0 ≤ absR x := by rw [absR_eq_abs]; exact abs_nonneg x

theorem minAbsDiff_nonneg (b : Rat) : ∀ (es : List Rat) (e : Rat), 0 ≤ minAbsDiff b e es := by
  intro es
  induction es with
  | nil => intro e; exact absR_nonneg _
  | cons x t ih => intro e; exact le_min (absR_nonneg _) (ih x)

theorem minAbsDiff_mem (b : Rat) : ∀ (es : List Rat) (e : Rat), b ∈ e :: es → minAbsDiff b e es = 0 := by
  intro es
  induction es with
  | nil =>
    intro e h
    simp only [List.mem_singleton] at h
    subst h
    simp [minAbsDiff, absR]
  | cons x t ih =>
    intro e h
    apply le_antisymm _ (minAbsDiff_nonneg b _ _)
    rcases List.mem_cons.1 h with rfl | h
    · apply le_trans (min_le_left _ _); simp [absR]
    · apply le_trans (min_le_right _ _); rw [ih x h]

/-- a perfect estimate: the (correct-metric-level) Cemgil accuracy is exactly 1 -/
theorem cemgilAcc_self (sigma : Rat) (e : Rat) (es : List Rat) :
    cemgilAcc realOps sigma (e :: es) e es = 1 := by
  rw [cemgilAcc_real]
  have hmap : ((e :: es).map fun b => gaussW sigma (minAbsDiff b e es)) = (e :: es).map fun _ => (1 : ℝ) := by
    apply List.map_congr_left
    intro b hb
    rw [minAbsDiff_mem b es e hb, gaussW_zero]
  rw [hmap]
  simp only [List.map_const', List.sum_replicate, List.length_cons, smul_eq_mul, mul_one]
  have : (0 : ℝ) < ((es.length + 1 : Nat) : ℝ) := by positivity
  field_simp
  push_cast
  ring

end Beat
end Mir
