import MirProofs.Lemmas.Beat
/-!
  A perfect estimate under Goto's criterion: for a strictly increasing sequence of at least 5 beats scored
  against itself every inner beat has error 0, the only "incorrect" beats are the first and the last (whose
  error entries keep their initial value 1), the track is the N-3 zeros between them, its mean is 0 and its
  sample standard deviation (ddof = 1, which needs two entries — hence N ≥ 5) is 0.
-/
namespace Mir
namespace Beat

theorem gotoErr_self (pre post : List Rat) (a b c : Rat)
    (h : (pre ++ a :: b :: c :: post).Pairwise (· < ·)) :
    gotoErr a b c (pre ++ a :: b :: c :: post) = 0 := by
  rw [List.pairwise_append] at h
  obtain ⟨_, h2, h3⟩ := h
  simp only [List.pairwise_cons, List.mem_cons, forall_eq_or_imp] at h2
  obtain ⟨⟨hab, hac, hapost⟩, ⟨hbc, hbpost⟩, ⟨hcpost, _⟩⟩ := h2
  have hpre : ∀ x ∈ pre, x < a := fun x hx => h3 x hx a (by simp)
  unfold gotoErr
  simp only []
  have hf : List.filter (fun e => decide (b - 1 / 2 * (b - a) ≤ e) && decide (e < b + 1 / 2 * (c - b)))
      (pre ++ a :: b :: c :: post) = [b] := by
    rw [List.filter_append]
    have h1 : List.filter (fun e => decide (b - 1 / 2 * (b - a) ≤ e) && decide (e < b + 1 / 2 * (c - b))) pre = [] := by
      rw [List.filter_eq_nil_iff]
      intro x hx
      have := hpre x hx
      simp only [Bool.and_eq_true, decide_eq_true_eq, not_and, not_lt]
      intro h'; linarith
    have h4 : List.filter (fun e => decide (b - 1 / 2 * (b - a) ≤ e) && decide (e < b + 1 / 2 * (c - b))) post = [] := by
      rw [List.filter_eq_nil_iff]
      intro x hx
      have := hcpost x hx
      simp only [Bool.and_eq_true, decide_eq_true_eq, not_and, not_lt]
      intro _; linarith
    have ha : (decide (b - 1 / 2 * (b - a) ≤ a) && decide (a < b + 1 / 2 * (c - b))) = false := by
      simp only [Bool.and_eq_false_imp, decide_eq_true_eq, decide_eq_false_iff_not, not_lt]
      intro h'; linarith
    have hb : (decide (b - 1 / 2 * (b - a) ≤ b) && decide (b < b + 1 / 2 * (c - b))) = true := by
      simp only [Bool.and_eq_true, decide_eq_true_eq]
      constructor <;> linarith
    have hc : (decide (b - 1 / 2 * (b - a) ≤ c) && decide (c < b + 1 / 2 * (c - b))) = false := by
      simp only [Bool.and_eq_false_imp, decide_eq_true_eq, decide_eq_false_iff_not, not_lt]
      intro _; linarith
    rw [h1, List.filter_cons, ha, List.filter_cons, hb, List.filter_cons, hc, h4]
    simp
  rw [hf]
  simp

theorem gotoInner_self : ∀ (l pre : List Rat), (pre ++ l).Pairwise (· < ·) →
    gotoInner (pre ++ l) l = List.replicate (l.length - 2) 0
  | [], _, _ => rfl
  | [_], _, _ => rfl
  | [_, _], _, _ => rfl
  | a :: b :: c :: t, pre, h => by
    have ih := gotoInner_self (b :: c :: t) (pre ++ [a]) (by simpa using h)
    have e1 : pre ++ [a] ++ b :: c :: t = pre ++ a :: b :: c :: t := by simp
    rw [e1] at ih
    rw [gotoInner, gotoErr_self pre t a b c h, ih]
    simp [List.replicate_succ]

theorem gotoErrors_self (a b : Rat) (t : List Rat) (h : (a :: b :: t).Pairwise (· < ·)) :
    gotoErrors (a :: b :: t) (a :: b :: t) = 1 :: (List.replicate t.length 0 ++ [1]) := by
  have := gotoInner_self (a :: b :: t) [] (by simpa using h)
  simp only [List.nil_append] at this
  simp [gotoErrors, this]

theorem flatnonzeroFrom_zeros (thr : Rat) (h0 : 0 ≤ thr) : ∀ (m k : Nat),
    flatnonzeroFrom thr k (List.replicate m 0) = [] := by
  intro m
  induction m with
  | zero => intro k; rfl
  | succ m ih =>
    intro k
    have : ¬ thr < absR 0 := by simp [absR]; exact h0
    simp [List.replicate_succ, flatnonzeroFrom, this, ih]

theorem flatnonzeroFrom_append (thr : Rat) : ∀ (l1 l2 : List Rat) (k : Nat),
    flatnonzeroFrom thr k (l1 ++ l2) = flatnonzeroFrom thr k l1 ++ flatnonzeroFrom thr (k + l1.length) l2 := by
  intro l1
  induction l1 with
  | nil => intro l2 k; simp [flatnonzeroFrom]
  | cons x t ih =>
    intro l2 k
    simp only [List.cons_append, flatnonzeroFrom, ih, List.length_cons]
    have : k + 1 + t.length = k + (t.length + 1) := by omega
    split <;> simp [this]

theorem sumR_zeros : ∀ k : Nat, sumR (List.replicate k 0) = 0 := by
  intro k
  induction k with
  | zero => rfl
  | succ k ih => simp [List.replicate_succ, sumR, ih]

theorem gotoTrackOk_zeros (k : Nat) (hk : 2 ≤ k) (mu sigma : Rat) (hmu : 0 < mu) (hs : 0 < sigma) :
    gotoTrackOk (List.replicate k 0) mu sigma = (true, false) := by
  have hk0 : k ≠ 0 := by omega
  have hk2 : ¬ k < 2 := by omega
  have hss : 0 < sigma * sigma := mul_pos hs hs
  have habs : List.map absR (List.replicate k (0 : Rat)) = List.replicate k 0 := by
    simp [List.map_replicate, absR]
  have hsq : List.map (fun x : Rat => (x - 0) * (x - 0)) (List.replicate k (0 : Rat)) = List.replicate k 0 := by
    simp [List.map_replicate]
  unfold gotoTrackOk
  simp only [List.length_replicate, hk0, if_false, habs, sumR_zeros, zero_div, hmu, not_true_eq_false,
    hk2, hsq, hs, hss, true_and, decide_true]
  simp [hss.ne]

theorem pySlice_track (n : Nat) (hn : 1 ≤ n) :
    pySlice (1 :: (List.replicate n (0 : Rat) ++ [1])) 1 (n : Int) = List.replicate (n - 1) 0 := by
  simp only [pySlice, pySliceBounds, List.length_cons, List.length_append, List.length_replicate,
    List.length_nil]
  split_ifs <;> try omega
  simp only [Int.toNat_natCast, Int.toNat_one, List.drop_succ_cons, List.drop_zero]
  rw [List.take_append_of_le_length (by simp)]
  simp [List.take_replicate]

/-- Goto of a strictly increasing sequence of ≥ 5 beats against itself is 1 (and no comparison is a tie). -/
theorem gotoCore_self (x : List Rat) (thr mu sigma : Rat) (hx : x.Pairwise (· < ·)) (hn : 5 ≤ x.length)
    (h0 : 0 ≤ thr) (h1 : thr < 1) (hmu : 0 < mu) (hs : 0 < sigma) :
    gotoCore x x thr mu sigma = .ok (1, false) := by
  rcases x with _ | ⟨a, _ | ⟨b, t⟩⟩
  · simp at hn
  · simp at hn
  have ht : 3 ≤ t.length := by simpa using hn
  have herr := gotoErrors_self a b t hx
  have hinc : flatnonzeroGt (1 :: (List.replicate t.length 0 ++ [1])) thr = [0, t.length + 1] := by
    have h1' : thr < absR 1 := by simp [absR]; exact h1
    unfold flatnonzeroGt
    rw [flatnonzeroFrom, if_pos h1', flatnonzeroFrom_append, flatnonzeroFrom_zeros thr h0]
    simp [flatnonzeroFrom, h1', Nat.add_comm]
  unfold gotoCore
  simp only [List.isEmpty_cons, Bool.or_self, Bool.false_eq_true, if_false, herr, hinc]
  norm_num
  rw [pySlice_track t.length (by omega), gotoTrackOk_zeros (t.length - 1) (by omega) mu sigma hmu hs]
  simp [boolScore]

end Beat
end Mir
