import MirProofs.Lemmas.BeatContSelf
import MirProofs.Lemmas.Totality

/-!
  Totality of the bodies of `mir_eval.beat` (model `MirModel/Beat.lean`): which of the partial operations the
  model makes explicit (`l[i]` out of range, `incorrect_beats[0]` on an empty index array, `argmin` of nothing,
  the empty result list) can be reached, and from which inputs.
-/
namespace Mir
namespace Beat
open Mir.Totality

/-! ### validation -/

theorem validateEvents_cases (xs : List Rat) :
    validateEvents xs = .ok () ∨ validateEvents xs = .error .valueError := by
  unfold validateEvents
  split
  · exact Or.inr rfl
  · split
    · exact Or.inl rfl
    · exact Or.inr rfl

theorem validate_cases (ref est : List Rat) :
    validate ref est = .ok () ∨ validate ref est = .error .valueError := by
  unfold validate
  rcases validateEvents_cases ref with h | h
  · rw [h]; exact validateEvents_cases est
  · rw [h]; exact Or.inr rfl

theorem validate_ok_split (ref est : List Rat) :
    validate ref est = .ok () ↔ validateEvents ref = .ok () ∧ validateEvents est = .ok () := by
  unfold validate
  rcases validateEvents_cases ref with h | h
  · rw [h]
    constructor
    · intro h'; exact ⟨rfl, h'⟩
    · intro h'; exact h'.2
  · rw [h]
    constructor
    · intro h'; cases h'
    · intro h'; cases h'.1

theorem nondec_iff : ∀ l : List Rat, nondec l = true ↔ l.Pairwise (· ≤ ·)
  | [] => by simp [nondec]
  | [a] => by simp [nondec]
  | a :: b :: t => by
    have ih := nondec_iff (b :: t)
    have e : nondec (a :: b :: t) = (decide (a ≤ b) && nondec (b :: t)) := rfl
    rw [e, Bool.and_eq_true, decide_eq_true_eq, ih, List.pairwise_cons (a := a)]
    constructor
    · rintro ⟨hab, hp⟩
      refine ⟨?_, hp⟩
      intro x hx
      rcases List.mem_cons.1 hx with rfl | hx
      · exact hab
      · exact le_trans hab ((List.pairwise_cons.1 hp).1 x hx)
    · rintro ⟨ha, hp⟩
      exact ⟨ha b (by simp), hp⟩

theorem validateEvents_ok_iff (xs : List Rat) :
    validateEvents xs = .ok () ↔ (∀ x ∈ xs, x ≤ maxTime) ∧ xs.Pairwise (· ≤ ·) := by
  unfold validateEvents
  by_cases h1 : xs.any (fun x => decide (maxTime < x)) = true
  · rw [if_pos h1]
    constructor
    · intro h; cases h
    · rintro ⟨hb, _⟩
      obtain ⟨x, hx, hlt⟩ := List.any_eq_true.1 h1
      exact absurd (hb x hx) (not_le.2 (by simpa using hlt))
  · rw [if_neg h1]
    have hb : ∀ x ∈ xs, x ≤ maxTime := by
      intro x hx
      by_contra hc
      exact h1 (List.any_eq_true.2 ⟨x, hx, by simpa using hc⟩)
    by_cases h2 : nondec xs = true
    · rw [if_pos h2]
      exact ⟨fun _ => ⟨hb, (nondec_iff xs).1 h2⟩, fun _ => rfl⟩
    · rw [if_neg h2]
      constructor
      · intro h; cases h
      · rintro ⟨_, hp⟩; exact absurd ((nondec_iff xs).2 hp) h2

theorem validateEvents_filter {xs : List Rat} (p : Rat → Bool) (h : validateEvents xs = .ok ()) :
    validateEvents (xs.filter p) = .ok () := by
  rw [validateEvents_ok_iff] at h ⊢
  exact ⟨fun x hx => h.1 x (List.mem_filter.1 hx).1, h.2.filter p⟩

/-- trimming keeps a valid pair of beat arrays valid -/
theorem validate_trim {ref est : List Rat} (t : Rat) (h : validate ref est = .ok ()) :
    validate (trimBeats ref t) (trimBeats est t) = .ok () := by
  rw [validate_ok_split] at h ⊢
  exact ⟨validateEvents_filter _ h.1, validateEvents_filter _ h.2⟩

/-! ### Python indexing -/

theorem pyGet_ok {l : List Rat} {i : Int} (h1 : -(l.length : Int) ≤ i) (h2 : i < (l.length : Int)) :
    Ok (pyGet l i) := by
  unfold pyGet
  simp only []
  by_cases hi : i < 0
  · rw [if_pos hi]
    have hj : ¬ (i + (l.length : Int) < 0) := by omega
    rw [if_neg hj]
    have hlt : (i + (l.length : Int)).toNat < l.length := by omega
    rw [List.getElem?_eq_getElem hlt]
    exact ⟨_, rfl⟩
  · rw [if_neg hi]
    have hj : ¬ (i < 0) := hi
    rw [if_neg hj]
    have hlt : i.toNat < l.length := by omega
    rw [List.getElem?_eq_getElem hlt]
    exact ⟨_, rfl⟩

theorem diffAt_ok {l : List Rat} {i j : Int} (hi1 : -(l.length : Int) ≤ i) (hi2 : i < (l.length : Int))
    (hj1 : -(l.length : Int) ≤ j) (hj2 : j < (l.length : Int)) : Ok (diffAt l i j) := by
  unfold diffAt
  refine ok_bind (pyGet_ok hi1 hi2) fun a _ => ?_
  refine ok_bind (pyGet_ok hj1 hj2) fun b _ => ?_
  exact ok_pure _

theorem probe_ok {l : List Rat} {i : Int} (h1 : -(l.length : Int) ≤ i) (h2 : i < (l.length : Int)) :
    Ok (probe l i) := by
  unfold probe
  refine ok_bind (pyGet_ok h1 h2) fun a _ => ?_
  exact ok_pure _

/-! ### argmin -/

theorem minIdx_lt : ∀ (l : List Rat) (m : Rat) (j : Nat), minIdx l = some (m, j) → j < l.length := by
  intro l
  induction l with
  | nil => intro m j h; simp [minIdx] at h
  | cons a t ih =>
    intro m j h
    unfold minIdx at h
    cases ht : minIdx t with
    | none => simp [ht] at h; simp [← h.2]
    | some r =>
      obtain ⟨m', j'⟩ := r
      simp only [ht] at h
      split at h
      · simp at h; simp [← h.2]
      · simp at h
        have := ih m' j' ht
        simp [← h.2, this]

theorem minIdx_some : ∀ l : List Rat, l ≠ [] → ∃ m j, minIdx l = some (m, j) := by
  intro l hl
  obtain ⟨a, t, rfl⟩ := List.exists_cons_of_ne_nil hl
  unfold minIdx
  cases ht : minIdx t with
  | none => exact ⟨_, _, rfl⟩
  | some r =>
    obtain ⟨m', j'⟩ := r
    simp only []
    split
    · exact ⟨_, _, rfl⟩
    · exact ⟨_, _, rfl⟩

/-! ### `mapPy` -/

theorem mapPy_ok {α β : Type} (f : α → Py β) : ∀ l : List α, (∀ a ∈ l, Ok (f a)) →
    ∃ bs, mapPy f l = .ok bs ∧ bs.length = l.length := by
  intro l
  induction l with
  | nil => intro _; exact ⟨[], rfl, rfl⟩
  | cons a t ih =>
    intro h
    obtain ⟨b, hb⟩ := h a (by simp)
    obtain ⟨bs, hbs, hlen⟩ := ih fun x hx => h x (by simp [hx])
    refine ⟨b :: bs, ?_, by simp [hlen]⟩
    unfold mapPy
    rw [hb, hbs]
    rfl

theorem mapPy_raises {α β : Type} {S : PyErr → Prop} (f : α → Py β) : ∀ l : List α,
    (∀ a ∈ l, Raises S (f a)) → Raises S (mapPy f l) := by
  intro l
  induction l with
  | nil => intro _; exact raises_ok S _
  | cons a t ih =>
    intro h
    unfold mapPy
    refine raises_bind (h a (by simp)) fun b _ => ?_
    refine raises_bind (ih fun x hx => h x (by simp [hx])) fun bs _ => ?_
    exact raises_pure S _

/-! ### Goto -/

theorem diffs_length : ∀ l : List Int, (diffs l).length = l.length - 1
  | [] => rfl
  | [_] => rfl
  | a :: b :: t => by
    have ih := diffs_length (b :: t)
    have e : diffs (a :: b :: t) = (b - a) :: diffs (b :: t) := rfl
    rw [e, List.length_cons, ih]
    simp

theorem firstMax_snd_le (a : Int) (l : List Int) : (firstMax a l).2 ≤ l.length := by
  induction l generalizing a with
  | nil => simp [firstMax]
  | cons b t ih =>
    have := ih b
    unfold firstMax
    rcases h : firstMax b t with ⟨m, j⟩
    rw [h] at this
    simp only []
    split
    · simp
    · simp only [List.length_cons]; omega

theorem flatnonzeroFrom_eq_nil (thr : Rat) : ∀ (l : List Rat) (k : Nat),
    flatnonzeroFrom thr k l = [] ↔ ∀ x ∈ l, ¬ thr < absR x := by
  intro l
  induction l with
  | nil => intro k; simp [flatnonzeroFrom]
  | cons x t ih =>
    intro k
    unfold flatnonzeroFrom
    by_cases hx : thr < absR x
    · rw [if_pos hx]
      constructor
      · intro h; cases h
      · intro h; exact absurd hx (h x (by simp))
    · rw [if_neg hx, ih (k + 1)]
      constructor
      · intro h y hy
        rcases List.mem_cons.1 hy with rfl | hy
        · exact hx
        · exact h y hy
      · intro h y hy; exact h y (by simp [hy])

theorem gotoInner_abs_le (est : List Rat) : ∀ ref : List Rat, ∀ x ∈ gotoInner est ref, |x| ≤ 1
  | [] => by intro x hx; simp [gotoInner] at hx
  | [_] => by intro x hx; simp [gotoInner] at hx
  | [_, _] => by intro x hx; simp [gotoInner] at hx
  | a :: b :: c :: t => by
    intro x hx
    have e : gotoInner est (a :: b :: c :: t) = gotoErr a b c est :: gotoInner est (b :: c :: t) := rfl
    rw [e] at hx
    rcases List.mem_cons.1 hx with rfl | hx
    · exact gotoErr_abs_le_one a b c est
    · exact gotoInner_abs_le est (b :: c :: t) x hx

/-- every entry of Goto's `beat_error` array lies in [-1, 1] -/
theorem gotoErrors_abs_le (ref est : List Rat) : ∀ x ∈ gotoErrors ref est, |x| ≤ 1 := by
  intro x hx
  unfold gotoErrors at hx
  split at hx
  · simp at hx
  · simp at hx; subst hx; simp
  · simp only [List.mem_cons, List.mem_append, List.not_mem_nil, or_false] at hx
    rcases hx with (rfl | hx) | rfl
    · simp
    · exact gotoInner_abs_le est _ x hx
    · simp

/-- the first entry of the `beat_error` array of a non-empty reference is 1 -/
theorem gotoErrors_head {ref : List Rat} (h : ref ≠ []) (est : List Rat) :
    ∃ t, gotoErrors ref est = 1 :: t := by
  unfold gotoErrors
  split
  · exact absurd rfl h
  · exact ⟨[], rfl⟩
  · exact ⟨_, rfl⟩

/-- the index array of "incorrect" beats is empty exactly when the threshold is at least 1 -/
theorem incorrect_eq_nil_iff {ref : List Rat} (h : ref ≠ []) (est : List Rat) (thr : Rat) :
    flatnonzeroGt (gotoErrors ref est) thr = [] ↔ 1 ≤ thr := by
  unfold flatnonzeroGt
  rw [flatnonzeroFrom_eq_nil]
  constructor
  · intro hall
    obtain ⟨t, ht⟩ := gotoErrors_head h est
    have := hall 1 (by rw [ht]; simp)
    rw [absR_eq_abs] at this
    simpa using this
  · intro hthr x hx
    rw [absR_eq_abs]
    exact not_lt.2 (le_trans (gotoErrors_abs_le ref est x hx) hthr)

/-- `goto` after validation: with both sides non-empty, it returns a value iff some beat error exceeds the
    threshold, and otherwise raises `IndexError` (`incorrect_beats[0]`) -/
theorem gotoCore_of_nonempty {ref est : List Rat} (hr : ref ≠ []) (he : est ≠ []) (thr mu sigma : Rat) :
    (flatnonzeroGt (gotoErrors ref est) thr ≠ [] → Ok (gotoCore ref est thr mu sigma)) ∧
    (flatnonzeroGt (gotoErrors ref est) thr = [] → gotoCore ref est thr mu sigma = .error .indexError) := by
  have hne : (est.isEmpty || ref.isEmpty) = false := by
    cases ref with
    | nil => exact absurd rfl hr
    | cons _ _ => cases est with
      | nil => exact absurd rfl he
      | cons _ _ => rfl
  unfold gotoCore
  rw [hne]
  simp only [Bool.false_eq_true, if_false]
  generalize flatnonzeroGt (gotoErrors ref est) thr = inc
  constructor
  · intro hinc
    obtain ⟨a, t, rfl⟩ := List.exists_cons_of_ne_nil hinc
    split
    · -- fewer than three incorrect beats
      have : ∃ b, (a :: t).getLast? = some b := ⟨_, List.getLast?_eq_some_getLast (by simp)⟩
      obtain ⟨b, hb⟩ := this
      rw [hb]
      exact ⟨_, rfl⟩
    · rename_i hlen
      have hlen' : 3 ≤ (a :: t).length := by omega
      have hd := diffs_length ((a :: t).map fun (i : Nat) => Int.ofNat i)
      rw [List.length_map] at hd
      cases hds : diffs ((a :: t).map fun (i : Nat) => Int.ofNat i) with
      | nil => exact ⟨_, rfl⟩
      | cons d ds =>
        rw [hds, List.length_cons] at hd
        have hfm := firstMax_snd_le d ds
        simp only []
        rcases hfm' : firstMax d ds with ⟨trackLen, trackStart⟩
        rw [hfm'] at hfm
        simp only []
        split
        · have h1 : trackStart < (a :: t).length := by simp only [] at hfm; omega
          have h2 : trackStart + 1 < (a :: t).length := by simp only [] at hfm; omega
          rw [List.getElem?_eq_getElem h1, List.getElem?_eq_getElem h2]
          exact ⟨_, rfl⟩
        · exact ⟨_, rfl⟩
  · intro hinc
    subst hinc
    rfl

/-! ### Continuity -/

theorem everyOther_ne_nil {α : Type} : ∀ l : List α, l ≠ [] → everyOther l ≠ []
  | [], h => absurd rfl h
  | [_], _ => by simp [everyOther]
  | _ :: _ :: _, _ => by simp [everyOther]

/-- all five metric-level variations of a reference with at least two beats are non-empty -/
theorem variations_ne_nil {ref : List Rat} (h : 2 ≤ ref.length) : ∀ v ∈ variations ref, v ≠ [] := by
  obtain ⟨a, t, rfl⟩ := List.exists_cons_of_ne_nil (l := ref) (by intro hh; subst hh; simp at h)
  obtain ⟨b, t, rfl⟩ := List.exists_cons_of_ne_nil (l := t) (by intro hh; subst hh; simp at h)
  intro v hv
  unfold variations at hv
  simp only [List.mem_cons, List.not_mem_nil, or_false] at hv
  rcases hv with rfl | rfl | rfl | rfl | rfl
  · simp
  · apply everyOther_ne_nil; simp [doubled]
  · simp [doubled]
  · apply everyOther_ne_nil; simp
  · apply everyOther_ne_nil; simp

theorem contBeat_ok {refv : List Rat} (h : refv ≠ []) (pthr qthr : Rat) (m : Nat) (prev : Option Rat) (e : Rat)
    (next : Option Rat) (used : List Nat) : Ok (contBeat refv pthr qthr m prev e next used) := by
  unfold contBeat
  obtain ⟨minDiff, nearest, hmin⟩ := minIdx_some (refv.map fun r => absR (e - r)) (by simpa using h)
  have hlt : nearest < refv.length := by simpa using minIdx_lt _ _ _ hmin
  rw [hmin]
  simp only []
  split
  · exact ⟨_, rfl⟩
  · split
    · refine ok_bind ?_ fun refInt _ => ⟨_, rfl⟩
      split
      · exact diffAt_ok (by omega) (by omega) (by omega) (by omega)
      · exact diffAt_ok (by omega) (by omega) (by omega) (by omega)
    · refine ok_bind (diffAt_ok (by omega) (by omega) (by omega) (by omega)) fun refInt _ => ?_
      split
      · exact ⟨_, rfl⟩
      · exact ⟨_, rfl⟩

theorem contLoop_ok {refv : List Rat} (h : refv ≠ []) (pthr qthr : Rat) : ∀ (est : List Rat) (m : Nat)
    (prev : Option Rat) (used : List Nat), Ok (contLoop refv pthr qthr m prev est used) := by
  intro est
  induction est with
  | nil => intro m prev used; exact ⟨[], rfl⟩
  | cons e rest ih =>
    intro m prev used
    unfold contLoop
    refine ok_bind (contBeat_ok h pthr qthr m prev e rest.head? used) fun r _ => ?_
    refine ok_bind (ih _ _ _) fun bs _ => ?_
    exact ok_pure _

theorem contVariation_total {refv : List Rat} (h : refv ≠ []) (est : List Rat) (pthr qthr : Rat) :
    Ok (contVariation refv est pthr qthr) := by
  unfold contVariation
  refine ok_bind (contLoop_ok h pthr qthr est 0 none []) fun bs _ => ?_
  exact ok_pure _

/-- `continuity` after validation never raises, on any pair of arrays -/
theorem continuityCore_total (ref est : List Rat) (pthr qthr : Rat) : Ok (continuityCore ref est pthr qthr) := by
  unfold continuityCore
  split
  · exact ⟨_, rfl⟩
  · rename_i hlen
    have h2 : 2 ≤ ref.length := by omega
    obtain ⟨rs, hrs, hl⟩ := mapPy_ok (fun v => contVariation v est pthr qthr) (variations ref)
      fun v hv => contVariation_total (variations_ne_nil h2 v hv) est pthr qthr
    rw [hrs]
    have hl5 : rs.length = 5 := by rw [hl]; rfl
    cases rs with
    | nil => simp at hl5
    | cons r rest =>
      obtain ⟨c, t⟩ := r
      exact ⟨_, rfl⟩

/-! ### Information gain -/

theorem beatError_interval_ok {ref : List Rat} (h : 2 ≤ ref.length) {c : Nat} (hc : c < ref.length) (absErr : Rat) :
    Ok (if c + 1 = ref.length then diffAt ref (-1) (-2)
        else if absErr < 0 then diffAt ref c ((c : Int) - 1) else diffAt ref ((c : Int) + 1) c) := by
  split
  · exact diffAt_ok (by omega) (by omega) (by omega) (by omega)
  · split
    · exact diffAt_ok (by omega) (by omega) (by omega) (by omega)
    · exact diffAt_ok (by omega) (by omega) (by omega) (by omega)

theorem beatError_ok {ref : List Rat} (h : 2 ≤ ref.length) (e : Rat) : Ok (beatError ref e) := by
  unfold beatError
  simp only []
  have hne : ((ref.map fun r => e - r).map absR) ≠ [] := by
    intro hh
    have := congrArg List.length hh
    simp only [List.length_map, List.length_nil] at this
    omega
  obtain ⟨mn, c, hmin⟩ := minIdx_some _ hne
  have hc : c < ref.length := by simpa using minIdx_lt _ _ _ hmin
  rw [hmin]
  simp only []
  refine ok_bind (pyGet_ok (by simp only [List.length_map]; omega) (by simp only [List.length_map]; omega))
    fun absErr _ => ?_
  split
  · refine ok_bind (probe_ok (by omega) (by omega)) fun _ _ => ?_
    refine ok_bind (beatError_interval_ok h hc absErr) fun d _ => ?_
    split
    · exact ok_pure _
    · exact ok_pure _
  · refine ok_bind (beatError_interval_ok h hc absErr) fun d _ => ?_
    split
    · exact ok_pure _
    · exact ok_pure _

theorem beatErrors_ok {ref : List Rat} (h : 2 ≤ ref.length) (est : List Rat) : Ok (beatErrors ref est) := by
  unfold beatErrors
  obtain ⟨errs, herrs, _⟩ := mapPy_ok (fun e => beatError ref e) est fun e _ => beatError_ok h e
  rw [herrs]
  exact ⟨_, rfl⟩

theorem getEntropy_ok {α : Type} (T : TOps α) {ref : List Rat} (h : 2 ≤ ref.length) (est : List Rat) (bins : Nat) :
    Ok (getEntropy T ref est bins) := by
  unfold getEntropy
  refine ok_bind (beatErrors_ok h est) fun vals _ => ?_
  exact ok_pure _

/-- `information_gain` after validation never raises, on any pair of arrays and any number of bins -/
theorem informationGainCore_total {α : Type} (T : TOps α) (ref est : List Rat) (bins : Nat) :
    Ok (informationGainCore T ref est bins) := by
  unfold informationGainCore
  split
  · exact ⟨_, rfl⟩
  · rename_i hlen
    refine ok_bind (getEntropy_ok T (by omega) est bins) fun f _ => ?_
    refine ok_bind (getEntropy_ok T (by omega) ref bins) fun b _ => ?_
    exact ok_pure _

/-! ### the metric functions, given the outcome of `validate` -/

theorem fMeasure_ok {ref est : List Rat} (hv : validate ref est = .ok ()) (thr : Rat) : Ok (fMeasure ref est thr) := by
  unfold fMeasure; rw [hv]; exact ⟨_, rfl⟩

theorem fMeasure_invalid {ref est : List Rat} (hv : validate ref est = .error .valueError) (thr : Rat) :
    fMeasure ref est thr = .error .valueError := by
  unfold fMeasure; rw [hv]; rfl

theorem cemgil_ok {α : Type} (T : TOps α) {ref est : List Rat} (hv : validate ref est = .ok ()) (sigma : Rat) :
    Ok (cemgil T ref est sigma) := by
  unfold cemgil; rw [hv]; exact ⟨_, rfl⟩

theorem cemgil_invalid {α : Type} (T : TOps α) {ref est : List Rat} (hv : validate ref est = .error .valueError)
    (sigma : Rat) : cemgil T ref est sigma = .error .valueError := by
  unfold cemgil; rw [hv]; rfl

theorem pScore_ok {ref est : List Rat} (hv : validate ref est = .ok ()) (thr : Rat) : Ok (pScore ref est thr) := by
  unfold pScore; rw [hv]; exact ⟨_, rfl⟩

theorem pScore_invalid {ref est : List Rat} (hv : validate ref est = .error .valueError) (thr : Rat) :
    pScore ref est thr = .error .valueError := by
  unfold pScore; rw [hv]; rfl

theorem continuity_ok {ref est : List Rat} (hv : validate ref est = .ok ()) (p q : Rat) :
    Ok (continuity ref est p q) := by
  unfold continuity; rw [hv]; exact continuityCore_total ref est p q

theorem continuity_invalid {ref est : List Rat} (hv : validate ref est = .error .valueError) (p q : Rat) :
    continuity ref est p q = .error .valueError := by
  unfold continuity; rw [hv]; rfl

theorem informationGain_ok {α : Type} (T : TOps α) {ref est : List Rat} (hv : validate ref est = .ok ())
    (bins : Nat) : Ok (informationGain T ref est bins) := by
  unfold informationGain; rw [hv]; exact informationGainCore_total T ref est bins

theorem informationGain_invalid {α : Type} (T : TOps α) {ref est : List Rat}
    (hv : validate ref est = .error .valueError) (bins : Nat) :
    informationGain T ref est bins = .error .valueError := by
  unfold informationGain; rw [hv]; rfl

theorem gotoFull_valid {ref est : List Rat} (hv : validate ref est = .ok ()) (thr mu sigma : Rat) :
    gotoFull ref est thr mu sigma = gotoCore ref est thr mu sigma := by
  unfold gotoFull; rw [hv]; rfl

theorem gotoFull_invalid {ref est : List Rat} (hv : validate ref est = .error .valueError) (thr mu sigma : Rat) :
    gotoFull ref est thr mu sigma = .error .valueError := by
  unfold gotoFull; rw [hv]; rfl

theorem gotoCore_empty {ref est : List Rat} (h : ref = [] ∨ est = []) (thr mu sigma : Rat) :
    gotoCore ref est thr mu sigma = .ok (0, false) := by
  have : (est.isEmpty || ref.isEmpty) = true := by
    rcases h with h | h <;> subst h <;> simp
  unfold gotoCore
  rw [if_pos this]

/-- `goto` after validation: a value, unless both sides are non-empty and the threshold is at least 1
    (then `IndexError`) -/
theorem gotoCore_classify (ref est : List Rat) (thr mu sigma : Rat) :
    (gotoCore ref est thr mu sigma = .error .indexError ∧ ref ≠ [] ∧ est ≠ [] ∧ 1 ≤ thr) ∨
    (Ok (gotoCore ref est thr mu sigma) ∧ ¬ (ref ≠ [] ∧ est ≠ [] ∧ 1 ≤ thr)) := by
  by_cases hr : ref = []
  · right
    exact ⟨by rw [gotoCore_empty (Or.inl hr)]; exact ⟨_, rfl⟩, fun h => h.1 hr⟩
  · by_cases he : est = []
    · right
      exact ⟨by rw [gotoCore_empty (Or.inr he)]; exact ⟨_, rfl⟩, fun h => h.2.1 he⟩
    · obtain ⟨h1, h2⟩ := gotoCore_of_nonempty hr he thr mu sigma
      by_cases hthr : 1 ≤ thr
      · left
        exact ⟨h2 ((incorrect_eq_nil_iff hr est thr).2 hthr), hr, he, hthr⟩
      · right
        refine ⟨h1 fun hnil => hthr ((incorrect_eq_nil_iff hr est thr).1 hnil), fun h => hthr h.2.2⟩

theorem goto_eq_map (ref est : List Rat) (thr mu sigma : Rat) :
    goto ref est thr mu sigma = (gotoFull ref est thr mu sigma).map Prod.fst := by
  unfold goto
  cases gotoFull ref est thr mu sigma <;> rfl

end Beat
end Mir
