import MirModel.Boundary
import MirProofs.Lemmas.MiscStats

namespace Mir.Boundary
open Mir.MiscStats

/-! ### validation -/

theorem validateIntervals_cases (iv : List (Rat × Rat)) :
    validateIntervals iv = .ok () ∨ validateIntervals iv = .error .valueError := by
  unfold validateIntervals; split
  · exact Or.inr rfl
  · split
    · exact Or.inr rfl
    · exact Or.inl rfl

/-- valid = no negative time and every duration strictly positive -/
theorem validateIntervals_ok_iff (iv : List (Rat × Rat)) :
    validateIntervals iv = .ok () ↔ ∀ p ∈ iv, 0 ≤ p.1 ∧ 0 ≤ p.2 ∧ p.1 < p.2 := by
  unfold validateIntervals
  by_cases h1 : iv.any (fun p => decide (p.1 < 0) || decide (p.2 < 0)) = true
  · simp only [h1, if_true]
    constructor
    · intro h; cases h
    · intro h
      obtain ⟨p, hp, hlt⟩ := List.any_eq_true.1 h1
      have := h p hp
      simp only [Bool.or_eq_true, decide_eq_true_eq] at hlt
      rcases hlt with hlt | hlt <;> linarith [this.1, this.2.1]
  · simp only [h1]
    by_cases h2 : iv.any (fun p => decide (p.2 ≤ p.1)) = true
    · simp only [h2, if_true]
      constructor
      · intro h; cases h
      · intro h
        obtain ⟨p, hp, hle⟩ := List.any_eq_true.1 h2
        have := h p hp
        simp only [decide_eq_true_eq] at hle
        linarith [this.2.2]
    · simp only [h2]
      refine ⟨fun _ p hp => ?_, fun _ => by simp⟩
      have a1 : ¬ (p.1 < 0 ∨ p.2 < 0) := by
        intro hc
        exact h1 (List.any_eq_true.2 ⟨p, hp, by simpa using hc⟩)
      have a2 : ¬ p.2 ≤ p.1 := by
        intro hc
        exact h2 (List.any_eq_true.2 ⟨p, hp, by simpa using hc⟩)
      exact ⟨not_lt.1 (fun h => a1 (Or.inl h)), not_lt.1 (fun h => a1 (Or.inr h)), not_le.1 a2⟩

theorem validateBoundary_ok_iff (ref est : List (Rat × Rat)) (trim : Bool) :
    validateBoundary ref est trim = .ok () ↔ validateIntervals ref = .ok () ∧ validateIntervals est = .ok () := by
  unfold validateBoundary
  rcases validateIntervals_cases ref with h | h <;> rcases validateIntervals_cases est with h' | h' <;>
    simp [h, h', bind, Except.bind]

theorem validateBoundary_cases (ref est : List (Rat × Rat)) (trim : Bool) :
    validateBoundary ref est trim = .ok () ∨ validateBoundary ref est trim = .error .valueError := by
  unfold validateBoundary
  rcases validateIntervals_cases ref with h | h <;> rcases validateIntervals_cases est with h' | h' <;>
    simp [h, h', bind, Except.bind]

theorem validateBoundary_swap (ref est : List (Rat × Rat)) (trim : Bool) :
    validateBoundary est ref trim = validateBoundary ref est trim := by
  rcases validateBoundary_cases ref est trim with h | h <;> rcases validateBoundary_cases est ref trim with h' | h'
  · rw [h, h']
  · rw [validateBoundary_ok_iff] at h; rw [(validateBoundary_ok_iff est ref trim).2 ⟨h.2, h.1⟩] at h'; cases h'
  · rw [validateBoundary_ok_iff] at h'; rw [(validateBoundary_ok_iff ref est trim).2 ⟨h'.2, h'.1⟩] at h; cases h
  · rw [h, h']

/-! ### detection -/

theorem detection_of_valid {ref est : List (Rat × Rat)} (w beta : Rat) {trim : Bool}
    (hv : validateBoundary ref est trim = .ok ()) :
    detection ref est w beta trim =
      .ok (hitPRF (withinWindow w) (boundaries ref trim) (boundaries est trim) beta) := by
  simp [detection, hv, bind, Except.bind, pure, Except.pure]

theorem detection_of_invalid {ref est : List (Rat × Rat)} (w beta : Rat) {trim : Bool}
    (hv : validateBoundary ref est trim = .error .valueError) :
    detection ref est w beta trim = .error .valueError := by
  simp [detection, hv, bind, Except.bind]

theorem validate_of_detection_ok {ref est : List (Rat × Rat)} {w beta : Rat} {trim : Bool} {s : Rat × Rat × Rat}
    (h : detection ref est w beta trim = .ok s) : validateBoundary ref est trim = .ok () := by
  rcases validateBoundary_cases ref est trim with hv | hv
  · exact hv
  · rw [detection_of_invalid w beta hv] at h; cases h

/-! ### deviation -/

theorem deviation_of_invalid {ref est : List (Rat × Rat)} {trim : Bool}
    (hv : validateBoundary ref est trim = .error .valueError) :
    deviation ref est trim = .error .valueError := by
  simp [deviation, hv, bind, Except.bind]

theorem deviation_of_valid_cons {ref est : List (Rat × Rat)} {trim : Bool} {r0 e0 : Rat} {rs es : List Rat}
    (hv : validateBoundary ref est trim = .ok ()) (hr : boundaries ref trim = r0 :: rs)
    (he : boundaries est trim = e0 :: es) :
    deviation ref est trim =
      .ok (median? ((r0 :: rs).map fun r => minOver (fun e => absQ (r - e)) e0 es),
           median? ((e0 :: es).map fun e => minOver (fun r => absQ (r - e)) r0 rs)) := by
  simp [deviation, hv, hr, he, bind, Except.bind, pure, Except.pure]

theorem deviation_of_valid_empty {ref est : List (Rat × Rat)} {trim : Bool}
    (hv : validateBoundary ref est trim = .ok ())
    (h : boundaries ref trim = [] ∨ boundaries est trim = []) :
    deviation ref est trim = .ok (none, none) := by
  unfold deviation
  simp only [hv, bind, Except.bind]
  rcases h with h | h
  · rw [h]; rfl
  · rw [h]; cases boundaries ref trim <;> rfl

theorem validate_of_deviation_ok {ref est : List (Rat × Rat)} {trim : Bool} {s : Option Rat × Option Rat}
    (h : deviation ref est trim = .ok s) : validateBoundary ref est trim = .ok () := by
  rcases validateBoundary_cases ref est trim with hv | hv
  · exact hv
  · rw [deviation_of_invalid hv] at h; cases h

/-- specification vocabulary: `d` is the distance from `x` to the nearest element of `ys` -/
def IsNearestDist (x : Rat) (ys : List Rat) (d : Rat) : Prop :=
  (∀ y ∈ ys, d ≤ |x - y|) ∧ ∃ y ∈ ys, d = |x - y|

/-! ### `minOver` -/

theorem minOver_le (f : Rat → Rat) (y0 : Rat) (ys : List Rat) : ∀ y ∈ y0 :: ys, minOver f y0 ys ≤ f y := by
  induction ys generalizing y0 with
  | nil => intro y hy; simp at hy; subst hy; simp [minOver]
  | cons z zs ih =>
    intro y hy
    simp only [minOver]
    rcases List.mem_cons.1 hy with rfl | hy
    · exact min_le_left _ _
    · exact le_trans (min_le_right _ _) (ih z y hy)

theorem minOver_attained (f : Rat → Rat) (y0 : Rat) (ys : List Rat) : ∃ y ∈ y0 :: ys, minOver f y0 ys = f y := by
  induction ys generalizing y0 with
  | nil => exact ⟨y0, by simp, by simp [minOver]⟩
  | cons z zs ih =>
    simp only [minOver]
    obtain ⟨y, hy, hyv⟩ := ih z
    rcases le_total (f y0) (minOver f z zs) with h | h
    · exact ⟨y0, by simp, min_eq_left h⟩
    · exact ⟨y, List.mem_cons_of_mem _ hy, by rw [min_eq_right h, hyv]⟩

theorem minOver_nonneg {f : Rat → Rat} (hf : ∀ y, 0 ≤ f y) (y0 : Rat) (ys : List Rat) : 0 ≤ minOver f y0 ys := by
  obtain ⟨y, _, h⟩ := minOver_attained f y0 ys
  rw [h]; exact hf y

theorem minOver_congr {f g : Rat → Rat} (h : ∀ y, f y = g y) (y0 : Rat) (ys : List Rat) :
    minOver f y0 ys = minOver g y0 ys := by
  have : f = g := funext h
  rw [this]

/-- distance from a point of the list to the list is 0 -/
theorem minOver_dist_self {x y0 : Rat} {ys : List Rat} (hx : x ∈ y0 :: ys) :
    minOver (fun e => absQ (x - e)) y0 ys = 0 ∧ minOver (fun r => absQ (r - x)) y0 ys = 0 := by
  constructor
  · apply le_antisymm
    · calc minOver (fun e => absQ (x - e)) y0 ys ≤ absQ (x - x) := minOver_le (fun e => absQ (x - e)) y0 ys x hx
        _ = 0 := absQ_self_sub x
    · exact minOver_nonneg (fun _ => absQ_nonneg _) _ _
  · apply le_antisymm
    · calc minOver (fun r => absQ (r - x)) y0 ys ≤ absQ (x - x) := minOver_le (fun r => absQ (r - x)) y0 ys x hx
        _ = 0 := absQ_self_sub x
    · exact minOver_nonneg (fun _ => absQ_nonneg _) _ _

/-! ### `np.unique`, rounding -/

theorem mem_dedupSorted (l : List Rat) (x : Rat) : x ∈ dedupSorted l ↔ x ∈ l := by
  fun_induction dedupSorted l with
  | case1 => simp
  | case2 => simp
  | case3 y rest ih =>
    rw [ih]; simp
  | case4 y z rest hne ih =>
    simp only [List.mem_cons] at ih ⊢
    rw [ih]

theorem dedupSorted_strict (l : List Rat) (hs : l.Pairwise (· ≤ ·)) : (dedupSorted l).Pairwise (· < ·) := by
  fun_induction dedupSorted l with
  | case1 => simp
  | case2 => simp
  | case3 y rest ih => exact ih (List.Pairwise.of_cons hs)
  | case4 y z rest hne ih =>
    refine List.Pairwise.cons ?_ (ih (List.Pairwise.of_cons hs))
    intro t ht
    have ht' : t ∈ z :: rest := (mem_dedupSorted _ _).1 ht
    have hyz : y ≤ z := List.rel_of_pairwise_cons hs (List.mem_cons_self)
    have hyz' : y < z := lt_of_le_of_ne hyz hne
    rcases List.mem_cons.1 ht' with rfl | h
    · exact hyz'
    · exact lt_of_lt_of_le hyz' (List.rel_of_pairwise_cons (List.Pairwise.of_cons hs) h)

theorem mem_unique (l : List Rat) (x : Rat) : x ∈ unique l ↔ x ∈ l := by
  unfold unique; rw [mem_dedupSorted, mem_sortRats]

theorem unique_strict (l : List Rat) : (unique l).Pairwise (· < ·) :=
  dedupSorted_strict _ (sortRats_sorted l)

theorem roundHalfEven_close (y : Rat) : |(roundHalfEven y : Rat) - y| ≤ 1 / 2 := by
  have h1 : (y.floor : Rat) ≤ y := Int.floor_le y
  have h2 : y < (y.floor : Rat) + 1 := Int.lt_floor_add_one y
  unfold roundHalfEven
  simp only
  split
  · rename_i h; rw [abs_le]; constructor <;> linarith
  · split
    · rename_i h; push_cast; rw [abs_le]; constructor <;> linarith
    · rename_i ha hb
      have hd : y - (y.floor : Rat) = 1 / 2 := le_antisymm (not_lt.1 hb) (not_lt.1 ha)
      split
      · rw [abs_le]; constructor <;> linarith
      · push_cast; rw [abs_le]; constructor <;> linarith

theorem roundHalfEven_tie_even (y : Rat) (h : y - (y.floor : Rat) = 1 / 2) : roundHalfEven y % 2 = 0 := by
  unfold roundHalfEven
  simp only [h, lt_irrefl, if_false]
  split
  · assumption
  · omega

theorem round5_close (x : Rat) : |round5 x - x| ≤ 1 / 200000 := by
  unfold round5
  have h := roundHalfEven_close (x * 100000)
  rw [abs_le] at h ⊢
  constructor
  · have : x - 1 / 200000 ≤ (roundHalfEven (x * 100000) : Rat) / 100000 := by
      rw [le_div_iff₀ (by norm_num)]; linarith [h.1]
    linarith
  · have : (roundHalfEven (x * 100000) : Rat) / 100000 ≤ x + 1 / 200000 := by
      rw [div_le_iff₀ (by norm_num)]; linarith [h.2]
    linarith

/-- the boundaries are exactly the rounded interval end points -/
theorem mem_intervalsToBoundaries (iv : List (Rat × Rat)) (x : Rat) :
    x ∈ intervalsToBoundaries iv ↔ ∃ p ∈ iv, x = round5 p.1 ∨ x = round5 p.2 := by
  unfold intervalsToBoundaries
  rw [mem_unique]
  simp [List.mem_flatMap]

end Mir.Boundary
