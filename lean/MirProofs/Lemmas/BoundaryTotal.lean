import MirProofs.Lemmas.Boundary
import MirProofs.Lemmas.Validate
import MirProofs.Lemmas.Totality

/-!
  Helpers for `Props/C14_Boundary.lean`: the `(n, 2)` array descriptor of a list of rows, and what the validator
  model's scans see of it.
-/
namespace Mir.Boundary
open Mir.Validate

/-- an `(n, 2)` array given by its rows -/
def ofRows (iv : List (Rat × Rat)) : Arr := ⟨[iv.length, 2], iv.flatMap fun p => [p.1, p.2]⟩

theorem rows2_ofRows (iv : List (Rat × Rat)) : rows2 (ofRows iv).data = iv := by
  induction iv with
  | nil => rfl
  | cons p t ih =>
    show rows2 (p.1 :: p.2 :: (ofRows t).data) = p :: t
    rw [rows2, ih]

theorem any_neg_ofRows (iv : List (Rat × Rat)) :
    ((ofRows iv).data.any fun x => decide (x < 0)) = iv.any (fun p => decide (p.1 < 0) || decide (p.2 < 0)) := by
  induction iv with
  | nil => rfl
  | cons p t ih =>
    show ((p.1 :: p.2 :: (ofRows t).data).any fun x => decide (x < 0)) = _
    rw [List.any_cons, List.any_cons, ih, List.any_cons, Bool.or_assoc]

end Mir.Boundary
