import MirProofs.Lemmas.IntervalsScore

/-! Helper lemmas for C14 (task-level totality of the chord interval scores). -/
namespace Mir.C14.Chord
open Mir Mir.Iv

/-! ### `validate_intervals` -/

theorem validateIntervals_cases (xs : Ivals) :
    validateIntervals xs = .ok () ∨ validateIntervals xs = .error .valueError := by
  unfold validateIntervals
  split
  · exact Or.inr rfl
  · split
    · exact Or.inr rfl
    · exact Or.inl rfl

theorem validateIntervals_ok_iff (xs : Ivals) :
    validateIntervals xs = .ok () ↔ (∀ x ∈ xs, 0 ≤ x.1 ∧ 0 ≤ x.2) ∧ (∀ x ∈ xs, x.1 < x.2) := by
  unfold validateIntervals
  constructor
  · intro h
    split at h
    · cases h
    · split at h
      · cases h
      · rename_i h1 h2
        simp only [List.any_eq_true, Bool.or_eq_true, decide_eq_true_eq, not_exists, not_and, not_or,
          not_lt, not_le] at h1 h2
        exact ⟨h1, h2⟩
  · rintro ⟨h1, h2⟩
    have e1 : xs.any (fun x => decide (x.1 < 0) || decide (x.2 < 0)) = false := by
      rw [List.any_eq_false]
      intro x hx
      have := h1 x hx
      simp only [Bool.or_eq_true, decide_eq_true_eq, not_or, not_lt]
      exact this
    have e2 : xs.any (fun x => decide (x.2 ≤ x.1)) = false := by
      rw [List.any_eq_false]
      intro x hx
      simp only [decide_eq_true_eq, not_le]
      exact h2 x hx
    simp only [e1, e2, Bool.false_eq_true, if_false]

theorem validateIntervals_nil : validateIntervals [] = .ok () := rfl

/-! ### `np.diff(seg_ts).max()` never sees an empty array -/

theorem pairs_ne_nil (a b : Rat) (tl : List Rat) : pairs (a :: b :: tl) ≠ [] := by
  rw [pairs_cons_cons]; exact List.cons_ne_nil _ _

theorem maxDiff_some_of_two_le {ts : List Rat} (h : 2 ≤ ts.length) : ∃ d, maxDiff ts = some d := by
  match ts, h with
  | a :: b :: tl, _ =>
    unfold maxDiff
    apply maxL_ne_none
    rw [pairs_cons_cons]
    exact List.cons_ne_nil _ _

theorem stacked_length (a b : Rat) (mid : List Rat) : 2 ≤ ([a] ++ mid ++ [b]).length := by
  simp only [List.length_append, List.length_cons, List.length_nil]; omega

/-- one reference row never fails -/
theorem dhdRow_ok (ts : List Rat) (x : Rat × Rat) : ∃ d, dhdRow ts x = .ok d := by
  unfold dhdRow
  obtain ⟨d, hd⟩ := maxDiff_some_of_two_le
    (stacked_length x.1 x.2 (ts.filter fun t => decide (x.1 ≤ t) && decide (t < x.2)))
  rw [hd]
  exact ⟨_, rfl⟩

theorem mapM_dhdRow_ok (ts : List Rat) (ref : Ivals) : ∃ rows, ref.mapM (dhdRow ts) = .ok rows := by
  obtain ⟨rows, h, _⟩ := mapM_ok_exists (dhdRow ts) (fun _ _ => True) ref
    (fun a _ => by obtain ⟨d, hd⟩ := dhdRow_ok ts a; exact ⟨d, hd, trivial⟩)
  exact ⟨rows, h⟩

theorem head_getLast_some {α : Type} {l : List α} (h : l ≠ []) :
    ∃ a z, l.head? = some a ∧ l.getLast? = some z := by
  cases l with
  | nil => exact absurd rfl h
  | cons a r =>
    refine ⟨a, (a :: r).getLast (List.cons_ne_nil _ _), rfl, ?_⟩
    exact List.getLast?_eq_some_getLast (List.cons_ne_nil _ _)

/-! ### `directional_hamming_distance`: the complete case analysis -/

/-- the value `dhd` returns from the per-row terms and the first / last reference row -/
def dhdValue (rows : List Rat) (a z : Rat × Rat) : Num :=
  if z.2 - a.1 = 0 then .nan else .val (qsum rows / (z.2 - a.1))

theorem dhd_spec (ref est : Ivals) :
    (dhd ref est = .error .valueError ∧
      (validateIntervals est = .error .valueError ∨ validateIntervals ref = .error .valueError ∨
        overlaps ref = true)) ∨
    (dhd ref est = .error .indexError ∧ validateIntervals est = .ok () ∧ ref = []) ∨
    ((∃ rows a z, ref.mapM (dhdRow (usort (entriesP est))) = .ok rows ∧ ref.head? = some a ∧
        ref.getLast? = some z ∧ dhd ref est = .ok (dhdValue rows a z)) ∧
      validateIntervals est = .ok () ∧ validateIntervals ref = .ok () ∧
      overlaps ref = false ∧ ref ≠ []) := by
  rcases validateIntervals_cases est with he | he
  · rcases validateIntervals_cases ref with hr | hr
    · cases ho : overlaps ref with
      | true =>
        left
        refine ⟨?_, Or.inr (Or.inr rfl)⟩
        unfold dhd
        simp only [bind, Except.bind, pure, Except.pure, throw, throwThe, MonadExceptOf.throw, he, hr, ho,
          if_true]
      | false =>
        right
        obtain ⟨rows, hrows⟩ := mapM_dhdRow_ok (usort (entriesP est)) ref
        by_cases hne : ref = []
        · left
          subst hne
          refine ⟨?_, he, rfl⟩
          unfold dhd
          simp only [bind, Except.bind, pure, Except.pure, throw, throwThe, MonadExceptOf.throw, he, hr, ho]
          rfl
        · right
          obtain ⟨a, z, ha, hz⟩ := head_getLast_some hne
          refine ⟨⟨rows, a, z, hrows, ha, hz, ?_⟩, he, hr, rfl, hne⟩
          unfold dhd dhdValue
          simp only [bind, Except.bind, pure, Except.pure, throw, throwThe, MonadExceptOf.throw, he, hr, ho,
            hrows, ha, hz, Bool.false_eq_true, if_false]
          split <;> rfl
    · left
      refine ⟨?_, Or.inr (Or.inl hr)⟩
      unfold dhd
      simp only [bind, Except.bind, he, hr]
  · left
    refine ⟨?_, Or.inl he⟩
    unfold dhd
    simp only [bind, Except.bind, he]

/-- the three outcomes of `dhd`, each with its exact cause -/
theorem dhd_cases (ref est : Ivals) :
    (dhd ref est = .error .valueError ∧
      (validateIntervals est = .error .valueError ∨ validateIntervals ref = .error .valueError ∨
        overlaps ref = true)) ∨
    (dhd ref est = .error .indexError ∧ validateIntervals est = .ok () ∧ ref = []) ∨
    ((∃ v, dhd ref est = .ok v) ∧ validateIntervals est = .ok () ∧ validateIntervals ref = .ok () ∧
      overlaps ref = false ∧ ref ≠ []) := by
  rcases dhd_spec ref est with h | h | ⟨⟨rows, a, z, _, _, _, h⟩, h'⟩
  · exact Or.inl h
  · exact Or.inr (Or.inl h)
  · exact Or.inr (Or.inr ⟨⟨_, h⟩, h'⟩)

theorem overseg_cases (ref est : Ivals) :
    (overseg ref est = .error .valueError ∧
      (validateIntervals est = .error .valueError ∨ validateIntervals ref = .error .valueError ∨
        overlaps ref = true)) ∨
    (overseg ref est = .error .indexError ∧ validateIntervals est = .ok () ∧ ref = []) ∨
    ((∃ v, overseg ref est = .ok v) ∧ validateIntervals est = .ok () ∧ validateIntervals ref = .ok () ∧
      overlaps ref = false ∧ ref ≠ []) := by
  unfold overseg
  rcases dhd_cases ref est with ⟨h, h'⟩ | ⟨h, h'⟩ | ⟨⟨v, h⟩, h'⟩
  · exact Or.inl ⟨by rw [h]; rfl, h'⟩
  · exact Or.inr (Or.inl ⟨by rw [h]; rfl, h'⟩)
  · exact Or.inr (Or.inr ⟨⟨_, by rw [h]; rfl⟩, h'⟩)

theorem underseg_cases (ref est : Ivals) :
    (underseg ref est = .error .valueError ∧
      (validateIntervals ref = .error .valueError ∨ validateIntervals est = .error .valueError ∨
        overlaps est = true)) ∨
    (underseg ref est = .error .indexError ∧ validateIntervals ref = .ok () ∧ est = []) ∨
    ((∃ v, underseg ref est = .ok v) ∧ validateIntervals ref = .ok () ∧ validateIntervals est = .ok () ∧
      overlaps est = false ∧ est ≠ []) := by
  unfold underseg
  rcases dhd_cases est ref with ⟨h, h'⟩ | ⟨h, h'⟩ | ⟨⟨v, h⟩, h'⟩
  · exact Or.inl ⟨by rw [h]; rfl, h'⟩
  · exact Or.inr (Or.inl ⟨by rw [h]; rfl, h'⟩)
  · exact Or.inr (Or.inr ⟨⟨_, by rw [h]; rfl⟩, h'⟩)

/-- `seg` evaluates `underseg` first (it fails first), then `overseg` -/
theorem seg_cases (ref est : Ivals) :
    (seg ref est = .error .valueError ∧
      (validateIntervals ref = .error .valueError ∨ validateIntervals est = .error .valueError ∨
        overlaps est = true ∨ (overlaps ref = true ∧ est ≠ []))) ∨
    (seg ref est = .error .indexError ∧ validateIntervals ref = .ok () ∧ validateIntervals est = .ok () ∧
      (est = [] ∨ (ref = [] ∧ est ≠ [] ∧ overlaps est = false))) ∨
    ((∃ v, seg ref est = .ok v) ∧ validateIntervals ref = .ok () ∧ validateIntervals est = .ok () ∧
      overlaps ref = false ∧ overlaps est = false ∧ ref ≠ [] ∧ est ≠ []) := by
  unfold seg
  simp only [bind, Except.bind, pure, Except.pure]
  rcases underseg_cases ref est with ⟨h, h'⟩ | ⟨h, h1, h2⟩ | ⟨⟨u, h⟩, h1, h2, h3, h4⟩
  · left
    rw [h]
    refine ⟨rfl, ?_⟩
    rcases h' with h' | h' | h'
    · exact Or.inl h'
    · exact Or.inr (Or.inl h')
    · exact Or.inr (Or.inr (Or.inl h'))
  · right; left
    rw [h]
    exact ⟨rfl, h1, by rw [h2]; rfl, Or.inl h2⟩
  · rw [h]
    rcases overseg_cases ref est with ⟨g, g'⟩ | ⟨g, g1, g2⟩ | ⟨⟨o, g⟩, g1, g2, g3, g4⟩
    · left
      rw [g]
      refine ⟨rfl, ?_⟩
      rcases g' with g' | g' | g'
      · exact Or.inr (Or.inl g')
      · exact Or.inl g'
      · exact Or.inr (Or.inr (Or.inr ⟨g', h4⟩))
    · right; left
      rw [g]
      exact ⟨rfl, h1, h2, Or.inr ⟨g2, h4, h3⟩⟩
    · right; right
      rw [g]
      exact ⟨⟨_, rfl⟩, h1, h2, g3, h3, g4, h4⟩

/-! ### a valid, non-overlapping, non-empty reference spans a positive duration: the score is a number -/

theorem span_pos {xs : Ivals} (hpos : ∀ x ∈ xs, x.1 < x.2) (ho : overlaps xs = false) {a z : Rat × Rat}
    (ha : xs.head? = some a) (hz : xs.getLast? = some z) : a.1 < z.2 := by
  induction xs generalizing a with
  | nil => cases ha
  | cons x r ih =>
    simp only [List.head?_cons, Option.some.injEq] at ha
    subst ha
    cases r with
    | nil =>
      simp only [List.getLast?_singleton, Option.some.injEq] at hz
      subst hz
      exact hpos x List.mem_cons_self
    | cons y r' =>
      rw [List.getLast?_cons_cons] at hz
      simp only [overlaps, Bool.or_eq_false_iff, decide_eq_false_iff_not, not_lt] at ho
      have h1 := ih (fun v hv => hpos v (List.mem_cons_of_mem _ hv)) ho.2 rfl hz
      have h2 := hpos x List.mem_cons_self
      linarith [ho.1]

/-- `overlaps` looks at consecutive rows only (as the code does): row `i` must end before row `i+1` starts -/
theorem overlaps_false_iff (xs : Ivals) :
    overlaps xs = false ↔ ∀ (i : Nat) (h : i + 1 < xs.length), xs[i].2 ≤ xs[i + 1].1 := by
  induction xs with
  | nil => simp [overlaps]
  | cons x r ih =>
    cases r with
    | nil => simp [overlaps]
    | cons y r' =>
      simp only [overlaps, Bool.or_eq_false_iff, decide_eq_false_iff_not, not_lt, ih]
      constructor
      · rintro ⟨h0, hr⟩ i hi
        cases i with
        | zero => exact h0
        | succ j => exact hr j (by simpa using hi)
      · intro h
        refine ⟨h 0 (by simp), ?_⟩
        intro i hi
        exact h (i + 1) (by simpa using hi)

/-! ### `chordScore` on two aligned contiguous segmentations -/

theorem wacc_ok_of {cs ws : List Rat} (hlen : cs.length = ws.length) (hw : ∀ w ∈ ws, 0 ≤ w) :
    ∃ v, wacc cs ws = .ok v := by
  rw [wacc_eq]
  have h1 : ¬ cs.length ≠ ws.length := by simp [hlen]
  have h2 : ¬ ws.any (fun w => decide (w < 0)) = true := by
    simp only [List.any_eq_true, decide_eq_true_eq, not_exists, not_and, not_lt]
    exact hw
  rw [if_neg h1, if_neg h2]
  split
  · exact ⟨_, rfl⟩
  · split
    · exact ⟨_, rfl⟩
    · split
      · exact ⟨_, rfl⟩
      · exact ⟨_, rfl⟩

theorem wacc_cases (cs ws : List Rat) : (∃ v, wacc cs ws = .ok v) ∨ wacc cs ws = .error .valueError := by
  rw [wacc_eq]
  split
  · exact Or.inr rfl
  · split
    · exact Or.inr rfl
    · left
      split
      · exact ⟨_, rfl⟩
      · split
        · exact ⟨_, rfl⟩
        · split
          · exact ⟨_, rfl⟩
          · exact ⟨_, rfl⟩

theorem wacc_ok_iff_raw (cs ws : List Rat) :
    (∃ v, wacc cs ws = .ok v) ↔ cs.length = ws.length ∧ ∀ w ∈ ws, 0 ≤ w := by
  constructor
  · rintro ⟨v, hv⟩
    rw [wacc_eq] at hv
    split at hv
    · cases hv
    · split at hv
      · cases hv
      · rename_i h1 h2
        simp only [List.any_eq_true, decide_eq_true_eq, not_exists, not_and, not_lt] at h2
        exact ⟨by simpa using h1, h2⟩
  · rintro ⟨h1, h2⟩
    exact wacc_ok_of h1 h2

theorem chordScore_ok {L M : Type} (cmp : L → M → Rat) {lo hi : Rat} {x : LI L} {y : LI M}
    (hx : Contig lo x) (hy : Contig lo y) {zx : Rat × Rat × L} {zy : Rat × Rat × M}
    (hzx : x.getLast? = some zx) (hzy : y.getLast? = some zy) (hxe : zx.2.1 = hi) (hye : zy.2.1 = hi)
    (h0 : 0 ≤ lo) : ∃ v, chordScore cmp x y = .ok v := by
  rw [chordScore_eq_W cmp hx hy hzx hzy hxe hye h0]
  unfold W
  apply wacc_ok_of
  · simp
  · intro w hw
    obtain ⟨pq, hpq, rfl⟩ := List.mem_map.1 hw
    have := (pairs_consecutive (usort_sorted _) hpq).1
    linarith

end Mir.C14.Chord
