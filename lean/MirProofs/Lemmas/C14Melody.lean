import MirProofs.Lemmas.Melody
import Mathlib.Data.List.Perm.Basic
import Mathlib.Tactic.Linarith
import Mathlib.Tactic.Ring
/-!
  Helper lemmas for `Props/C14_Melody.lean`: everything in `resample_melody_series` / `to_cent_voicing`
  that can raise is unreachable on valid input.
-/
namespace Mir
namespace Melody

/-! ### `np.round(·, 10)` is monotone and fixes 0 -/

theorem roundHalfEven_mono {x y : Rat} (h : x ≤ y) : roundHalfEven x ≤ roundHalfEven y := by
  have hx1 := Rat.floor_le x
  have hx2 : x < ((x.floor : Int) : Rat) + 1 := by
    have := Rat.lt_floor_add_one x; push_cast at this; exact this
  have hy1 := Rat.floor_le y
  have hy2 : y < ((y.floor : Int) : Rat) + 1 := by
    have := Rat.lt_floor_add_one y; push_cast at this; exact this
  have hf : x.floor ≤ y.floor := by
    have : ((x.floor : Int) : Rat) < ((y.floor : Int) : Rat) + 1 := by linarith
    have : x.floor < y.floor + 1 := by exact_mod_cast this
    omega
  have hxr : x.floor ≤ roundHalfEven x ∧ roundHalfEven x ≤ x.floor + 1 := by
    unfold roundHalfEven; simp only; split_ifs <;> omega
  have hyr : y.floor ≤ roundHalfEven y ∧ roundHalfEven y ≤ y.floor + 1 := by
    unfold roundHalfEven; simp only; split_ifs <;> omega
  rcases lt_or_eq_of_le hf with hlt | heq
  · omega
  · -- same floor: compare the fractional parts
    unfold roundHalfEven
    simp only
    rw [heq]
    have hfr : x - ((y.floor : Int) : Rat) ≤ y - ((y.floor : Int) : Rat) := by linarith
    split_ifs <;> first | omega | (exfalso; linarith)

theorem round10_mono {x y : Rat} (h : x ≤ y) : round10 x ≤ round10 y := by
  unfold round10
  have h1 : x * 10000000000 ≤ y * 10000000000 := by linarith
  have h2 := roundHalfEven_mono h1
  have h3 : ((roundHalfEven (x * 10000000000) : Int) : Rat) ≤ ((roundHalfEven (y * 10000000000) : Int) : Rat) := by
    exact_mod_cast h2
  exact div_le_div_of_nonneg_right h3 (by norm_num)

theorem round10_zero : round10 0 = 0 := by
  have h : (0 : Rat) * 10000000000 = ((0 : Int) : Rat) := by norm_num
  exact round10_exact h

theorem round10_nonneg {x : Rat} (h : 0 ≤ x) : 0 ≤ round10 x := by
  have := round10_mono h
  rwa [round10_zero] at this

/-! ### `maxOf` -/

theorem foldl_rmax_ge (xs : List Rat) (a : Rat) : a ≤ xs.foldl rmax a ∧ ∀ x ∈ xs, x ≤ xs.foldl rmax a := by
  induction xs generalizing a with
  | nil => simp
  | cons b xs ih =>
    simp only [List.foldl_cons, List.mem_cons, forall_eq_or_imp]
    obtain ⟨h1, h2⟩ := ih (rmax a b)
    have ha : a ≤ rmax a b := by unfold rmax; split_ifs with h <;> linarith
    have hb : b ≤ rmax a b := by unfold rmax; split_ifs with h <;> linarith
    exact ⟨le_trans ha h1, le_trans hb h1, h2⟩

theorem foldl_rmax_mem (xs : List Rat) (a : Rat) : xs.foldl rmax a = a ∨ xs.foldl rmax a ∈ xs := by
  induction xs generalizing a with
  | nil => simp
  | cons b xs ih =>
    simp only [List.foldl_cons, List.mem_cons]
    rcases ih (rmax a b) with h | h
    · rw [h]; unfold rmax; split_ifs <;> simp
    · exact Or.inr (Or.inr h)

theorem maxOf_isSome {xs : List Rat} (h : xs ≠ []) : ∃ m, maxOf xs = some m := by
  cases xs with
  | nil => exact absurd rfl h
  | cons a xs => exact ⟨_, rfl⟩

theorem maxOf_ge {xs : List Rat} {m : Rat} (h : maxOf xs = some m) : ∀ x ∈ xs, x ≤ m := by
  cases xs with
  | nil => simp [maxOf] at h
  | cons a xs =>
    simp only [maxOf, Option.some.injEq] at h
    subst h
    intro x hx
    rcases List.mem_cons.1 hx with rfl | hx
    · exact (foldl_rmax_ge xs x).1
    · exact (foldl_rmax_ge xs a).2 x hx

theorem maxOf_mem {xs : List Rat} {m : Rat} (h : maxOf xs = some m) : m ∈ xs := by
  cases xs with
  | nil => simp [maxOf] at h
  | cons a xs =>
    simp only [maxOf, Option.some.injEq] at h
    subst h
    rcases foldl_rmax_mem xs a with h | h
    · rw [h]; simp
    · exact List.mem_cons_of_mem _ h

/-! ### `sortPairs` (stable insertion sort by time stamp) -/

theorem insertLE_perm (p : Rat × Rat) (l : List (Rat × Rat)) : (insertLE p l).Perm (p :: l) := by
  induction l with
  | nil => simp [insertLE]
  | cons q qs ih =>
    unfold insertLE
    split_ifs
    · exact List.Perm.refl _
    · exact (List.Perm.cons q ih).trans (List.Perm.swap p q qs)

theorem foldl_insertLE_perm (ps acc : List (Rat × Rat)) :
    (ps.foldl (fun acc p => insertLE p acc) acc).Perm (ps ++ acc) := by
  induction ps generalizing acc with
  | nil => simp
  | cons p ps ih =>
    simp only [List.foldl_cons, List.cons_append]
    refine (ih (insertLE p acc)).trans ?_
    refine (List.Perm.append_left ps (insertLE_perm p acc)).trans ?_
    exact List.perm_middle

theorem sortPairs_perm (ps : List (Rat × Rat)) : (sortPairs ps).Perm ps := by
  have := foldl_insertLE_perm ps []
  simpa [sortPairs] using this

theorem sortPairs_length (ps : List (Rat × Rat)) : (sortPairs ps).length = ps.length :=
  (sortPairs_perm ps).length_eq

theorem mem_sortPairs {ps : List (Rat × Rat)} {q : Rat × Rat} : q ∈ sortPairs ps ↔ q ∈ ps :=
  (sortPairs_perm ps).mem_iff

/-- sorted by time stamp (ties allowed) -/
def SortedK (l : List (Rat × Rat)) : Prop := l.Pairwise fun a b => a.1 ≤ b.1

theorem insertLE_sorted (p : Rat × Rat) {l : List (Rat × Rat)} (h : SortedK l) : SortedK (insertLE p l) := by
  induction l with
  | nil => simp [insertLE, SortedK]
  | cons q qs ih =>
    unfold insertLE
    split_ifs with hpq
    · refine List.Pairwise.cons ?_ h
      intro r hr
      rcases List.mem_cons.1 hr with rfl | hr
      · exact le_of_lt hpq
      · exact le_trans (le_of_lt hpq) (List.rel_of_pairwise_cons h hr)
    · have hq : q.1 ≤ p.1 := not_lt.1 hpq
      refine List.Pairwise.cons ?_ (ih (List.Pairwise.of_cons h))
      intro r hr
      rcases List.mem_cons.1 ((insertLE_perm p qs).mem_iff.1 hr) with rfl | hr
      · exact hq
      · exact List.rel_of_pairwise_cons h hr

theorem foldl_insertLE_sorted (ps : List (Rat × Rat)) {acc : List (Rat × Rat)} (h : SortedK acc) :
    SortedK (ps.foldl (fun acc p => insertLE p acc) acc) := by
  induction ps generalizing acc with
  | nil => exact h
  | cons p ps ih => exact ih (insertLE_sorted p h)

theorem sortPairs_sorted (ps : List (Rat × Rat)) : SortedK (sortPairs ps) :=
  foldl_insertLE_sorted ps List.Pairwise.nil

theorem hasDup_not_nodup {l : List (Rat × Rat)} (h : hasDup l = true) : ¬ (l.map Prod.fst).Nodup := by
  induction l with
  | nil => simp [hasDup] at h
  | cons p l ih =>
    cases l with
    | nil => simp [hasDup] at h
    | cons q rest =>
      simp only [hasDup, Bool.or_eq_true, decide_eq_true_eq] at h
      rcases h with h | h
      · intro hn
        simp only [List.map_cons, List.nodup_cons, List.mem_cons] at hn
        exact hn.1 (Or.inl h)
      · intro hn
        exact ih h (List.Nodup.of_cons hn)

theorem lastKey_mem (p : Rat × Rat) (rest : List (Rat × Rat)) : ∃ q ∈ p :: rest, lastKey p rest = q.1 := by
  induction rest generalizing p with
  | nil => exact ⟨p, by simp, rfl⟩
  | cons q rest ih =>
    obtain ⟨r, hr, he⟩ := ih q
    exact ⟨r, List.mem_cons_of_mem _ hr, by simpa [lastKey] using he⟩

theorem lastKey_ge {p : Rat × Rat} {rest : List (Rat × Rat)} (h : SortedK (p :: rest)) :
    ∀ q ∈ p :: rest, q.1 ≤ lastKey p rest := by
  induction rest generalizing p with
  | nil => intro q hq; simp at hq; subst hq; exact le_refl _
  | cons r rest ih =>
    intro q hq
    have h' : SortedK (r :: rest) := List.Pairwise.of_cons h
    simp only [lastKey]
    rcases List.mem_cons.1 hq with rfl | hq
    · exact le_trans (List.rel_of_pairwise_cons h (by simp)) (ih h' r (by simp))
    · exact ih h' q hq

/-! ### the checks of the interpolators pass -/

theorem interpChecks_errors (kind : Kind) (times timesNew : List Rat) :
    interpChecks kind times timesNew = .ok () ∨ interpChecks kind times timesNew = .error .valueError := by
  unfold interpChecks
  split
  · exact Or.inr rfl
  · split_ifs <;> simp

theorem interpChecks_error_eq {kind : Kind} {times timesNew : List Rat} {e : PyErr}
    (h : interpChecks kind times timesNew = .error e) : e = .valueError := by
  rcases interpChecks_errors kind times timesNew with h' | h'
  · rw [h'] at h; cases h
  · rw [h'] at h; cases h; rfl

theorem keys_sortPairs_perm (times : List Rat) :
    ((sortPairs (times.map fun t => (t, (0 : Rat)))).map Prod.fst).Perm times := by
  have h := (sortPairs_perm (times.map fun t => (t, (0 : Rat)))).map Prod.fst
  simpa [List.map_map, Function.comp_def] using h

theorem interpChecks_ok {kind : Kind} {times timesNew : List Rat}
    (hnd : kind ≠ .nearest → times.Nodup)
    (hlo : ∃ t ∈ times, ∀ x ∈ timesNew, t ≤ x)
    (hhi : ∃ t ∈ times, ∀ x ∈ timesNew, x ≤ t) :
    interpChecks kind times timesNew = .ok () := by
  unfold interpChecks
  have hperm := keys_sortPairs_perm times
  have hsorted := sortPairs_sorted (times.map fun t => (t, (0 : Rat)))
  cases hS : sortPairs (times.map fun t => (t, (0 : Rat))) with
  | nil =>
    obtain ⟨t, ht, _⟩ := hlo
    rw [hS] at hperm
    have := hperm.symm.mem_iff.1 ht
    simp at this
  | cons p rest =>
    rw [hS] at hperm hsorted
    simp only
    have hdup : ¬ (kind ≠ .nearest ∧ hasDup (p :: rest) = true) := by
      rintro ⟨hk, hd⟩
      exact hasDup_not_nodup hd (hperm.nodup_iff.2 (hnd hk))
    rw [if_neg hdup]
    have hkey : ∀ t ∈ times, ∃ q ∈ p :: rest, q.1 = t := by
      intro t ht
      have := hperm.symm.mem_iff.1 ht
      obtain ⟨q, hq, he⟩ := List.mem_map.1 this
      exact ⟨q, hq, he⟩
    have hany : (timesNew.any fun x => decide (x < p.1 ∨ lastKey p rest < x)) = false := by
      rw [List.any_eq_false]
      intro x hx
      simp only [decide_eq_true_eq, not_or, not_lt]
      obtain ⟨tl, htl, hl⟩ := hlo
      obtain ⟨th, hth, hh⟩ := hhi
      constructor
      · obtain ⟨q, hq, he⟩ := hkey tl htl
        have : p.1 ≤ q.1 := by
          rcases List.mem_cons.1 hq with rfl | hq
          · exact le_refl _
          · exact List.rel_of_pairwise_cons hsorted hq
        rw [he] at this
        exact le_trans this (hl x hx)
      · obtain ⟨q, hq, he⟩ := hkey th hth
        have := lastKey_ge hsorted q hq
        rw [he] at this
        exact le_trans (hh x hx) this
    rw [hany]
    rfl

/-! ### values and lengths of the interpolants -/

theorem interpZero_mem (p : Rat × Rat) (rest : List (Rat × Rat)) (x : Rat) :
    interpZero p rest x ∈ (p :: rest).map Prod.snd := by
  induction rest generalizing p with
  | nil => simp [interpZero]
  | cons q rest ih =>
    unfold interpZero
    split_ifs
    · simp
    · exact List.mem_cons_of_mem _ (ih q)

theorem interpNearest_mem (p : Rat × Rat) (rest : List (Rat × Rat)) (x : Rat) :
    interpNearest p rest x ∈ (p :: rest).map Prod.snd := by
  induction rest generalizing p with
  | nil => simp [interpNearest]
  | cons q rest ih =>
    unfold interpNearest
    split_ifs
    · simp
    · exact List.mem_cons_of_mem _ (ih q)

theorem interpLinear_unit {p : Rat × Rat} {rest : List (Rat × Rat)} {x : Rat}
    (hs : SortedK (p :: rest)) (hv : ∀ q ∈ p :: rest, 0 ≤ q.2 ∧ q.2 ≤ 1) (hx : p.1 ≤ x) :
    0 ≤ interpLinear p rest x ∧ interpLinear p rest x ≤ 1 := by
  induction rest generalizing p with
  | nil => simpa [interpLinear] using hv p (by simp)
  | cons q rest ih =>
    unfold interpLinear
    split_ifs with hq
    · have hp := hv p (by simp)
      have hq2 := hv q (by simp)
      have hd : 0 < q.1 - p.1 := by linarith
      have ht0 : 0 ≤ (x - p.1) / (q.1 - p.1) := div_nonneg (by linarith) (le_of_lt hd)
      have ht1 : (x - p.1) / (q.1 - p.1) ≤ 1 := by
        rw [div_le_one hd]; linarith
      have he : p.2 + (q.2 - p.2) / (q.1 - p.1) * (x - p.1) =
          p.2 + (q.2 - p.2) * ((x - p.1) / (q.1 - p.1)) := by ring
      rw [he]
      constructor <;> nlinarith
    · exact ih (List.Pairwise.of_cons hs) (fun r hr => hv r (List.mem_cons_of_mem _ hr)) (not_lt.1 hq)

theorem applyInterp_length (f : (Rat × Rat) → List (Rat × Rat) → Rat → Rat) {knots : List (Rat × Rat)}
    (h : knots ≠ []) (xs : List Rat) : (applyInterp f knots xs).length = xs.length := by
  cases knots with
  | nil => exact absurd rfl h
  | cons p rest => simp [applyInterp]

theorem holdFrom_length (a : Rat) (fs : List Rat) : (holdFrom a fs).length = fs.length := by
  induction fs generalizing a with
  | nil => rfl
  | cons f fs ih => simp [holdFrom, ih]

theorem holdForward_length (fs : List Rat) : (holdForward fs).length = fs.length := by
  cases fs with
  | nil => rfl
  | cons f fs => simp [holdForward, holdFrom_length]

theorem backFill_length (hs : List Rat) : (backFill hs).length = hs.length := by
  unfold backFill
  split
  · rfl
  · rw [List.length_append, List.length_map, ← List.length_append, List.takeWhile_append_dropWhile]

theorem holdZeros_length (fs : List Rat) : (holdZeros fs).length = fs.length := by
  simp [holdZeros, backFill_length, holdForward_length]

theorem sortPairs_zip_ne_nil {a b : List Rat} (ha : a ≠ []) (hl : b.length = a.length) :
    sortPairs (List.zip a b) ≠ [] := by
  intro h
  have := sortPairs_length (List.zip a b)
  rw [h] at this
  simp only [List.length_nil, List.length_zip, hl, min_self] at this
  exact ha (List.length_eq_zero_iff.1 this.symm)

theorem resampleFreq_length {kind : Kind} {times freqs : List Rat} (timesNew : List Rat)
    (hne : times ≠ []) (hl : freqs.length = times.length) :
    (resampleFreq kind times freqs timesNew).length = timesNew.length := by
  have h1 := sortPairs_zip_ne_nil hne hl
  have h2 := sortPairs_zip_ne_nil hne (by rw [holdZeros_length]; exact hl : (holdZeros freqs).length = times.length)
  unfold resampleFreq
  cases kind <;> simp [applyInterp_length _ h1, applyInterp_length _ h2]

theorem resampleVoicing_length {kind : Kind} {times voicing : List Rat} (timesNew : List Rat)
    (hne : times ≠ []) (hl : voicing.length = times.length) :
    (resampleVoicing kind times voicing timesNew).length = timesNew.length := by
  have h1 := sortPairs_zip_ne_nil hne hl
  unfold resampleVoicing
  cases kind
  · simp only
    split_ifs <;> exact applyInterp_length _ h1 _
  · exact applyInterp_length _ h1 _
  · exact applyInterp_length _ h1 _

/-- the resampled voicing stays in `[0, 1]` (zero-order / nearest pick a knot value, the linear interpolant is a
    convex combination of two neighbours) provided no query time precedes the first time stamp -/
theorem resampleVoicing_unit {kind : Kind} {times voicing timesNew : List Rat}
    (hv : ∀ v ∈ voicing, 0 ≤ v ∧ v ≤ 1)
    (hlo : ∃ t ∈ times, ∀ x ∈ timesNew, t ≤ x) (hl : voicing.length = times.length) :
    ∀ v ∈ resampleVoicing kind times voicing timesNew, 0 ≤ v ∧ v ≤ 1 := by
  have hsorted := sortPairs_sorted (List.zip times voicing)
  have hmem : ∀ q ∈ sortPairs (List.zip times voicing), q.1 ∈ times ∧ q.2 ∈ voicing := by
    intro q hq
    have := mem_sortPairs.1 hq
    exact ⟨(List.of_mem_zip this).1, (List.of_mem_zip this).2⟩
  have hkey : ∀ t ∈ times, ∃ q ∈ sortPairs (List.zip times voicing), q.1 = t := by
    intro t ht
    obtain ⟨i, hi, rfl⟩ := List.getElem_of_mem ht
    have hi' : i < voicing.length := by omega
    refine ⟨(times[i], voicing[i]), mem_sortPairs.2 ?_, rfl⟩
    have : (times[i], voicing[i]) = (List.zip times voicing)[i]'(by simp [List.length_zip]; omega) := by
      simp
    rw [this]
    exact List.getElem_mem _
  cases hS : sortPairs (List.zip times voicing) with
  | nil => intro v hv'; simp [resampleVoicing, hS, applyInterp] at hv'; cases kind <;> simp at hv'
  | cons p rest =>
    rw [hS] at hsorted hmem hkey
    have hsel : ∀ y ∈ (p :: rest).map Prod.snd, 0 ≤ y ∧ y ≤ 1 := by
      intro y hy
      obtain ⟨q, hq, rfl⟩ := List.mem_map.1 hy
      exact hv _ (hmem q hq).2
    have hzero : ∀ v ∈ applyInterp interpZero (p :: rest) timesNew, 0 ≤ v ∧ v ≤ 1 := by
      intro v hv'
      simp only [applyInterp, List.mem_map] at hv'
      obtain ⟨x, _, rfl⟩ := hv'
      exact hsel _ (interpZero_mem p rest x)
    have hnear : ∀ v ∈ applyInterp interpNearest (p :: rest) timesNew, 0 ≤ v ∧ v ≤ 1 := by
      intro v hv'
      simp only [applyInterp, List.mem_map] at hv'
      obtain ⟨x, _, rfl⟩ := hv'
      exact hsel _ (interpNearest_mem p rest x)
    have hlin : ∀ v ∈ applyInterp interpLinear (p :: rest) timesNew, 0 ≤ v ∧ v ≤ 1 := by
      intro v hv'
      simp only [applyInterp, List.mem_map] at hv'
      obtain ⟨x, hx, rfl⟩ := hv'
      obtain ⟨t, ht, hle⟩ := hlo
      obtain ⟨q, hq, he⟩ := hkey t ht
      have hp : p.1 ≤ q.1 := by
        rcases List.mem_cons.1 hq with rfl | hq
        · exact le_refl _
        · exact List.rel_of_pairwise_cons hsorted hq
      exact interpLinear_unit hsorted (fun r hr => hv _ (hmem r hr).2) (by rw [he] at hp; exact le_trans hp (hle x hx))
    unfold resampleVoicing
    rw [hS]
    cases kind
    · simp only
      split_ifs
      · exact hzero
      · exact hlin
    · exact hzero
    · exact hnear

/-! ### `resample_melody_series` -/

def InUnit (v : List Rat) : Prop := ∀ x ∈ v, 0 ≤ x ∧ x ≤ 1

instance (v : List Rat) : Decidable (InUnit v) := by unfold InUnit; infer_instance

theorem resampleCore_spec {kind : Kind} {T F V N : List Rat} (hne : T ≠ []) (hF : F.length = T.length)
    (hV : V.length = T.length) (hnd : kind ≠ .nearest → T.Nodup)
    (hlo : ∃ t ∈ T, ∀ x ∈ N, t ≤ x) (hhi : ∃ t ∈ T, ∀ x ∈ N, x ≤ t) :
    interpChecks kind T N = .ok () ∧ (resampleFreq kind T F N).length = N.length ∧
      (resampleVoicing kind T V N).length = N.length ∧ (InUnit V → InUnit (resampleVoicing kind T V N)) :=
  ⟨interpChecks_ok hnd hlo hhi, resampleFreq_length N hne hF, resampleVoicing_length N hne hV,
    fun hv => resampleVoicing_unit hv hlo hV⟩

/-- hypotheses under which `resample_melody_series` succeeds: series as long as the time base, both time bases
    non-empty, no two time stamps equal after the 10-decimal rounding (needed by the zero-order and linear
    interpolators), no query time before the first time stamp (a query time after the last one is allowed: the
    series is extended by an unvoiced sample) -/
structure ResampleOk (times freqs voicing timesNew : List Rat) (kind : Kind) : Prop where
  lenF : freqs.length = times.length
  lenV : voicing.length = times.length
  ne : times ≠ []
  neNew : timesNew ≠ []
  nodup : kind ≠ .nearest → (times.map round10).Nodup
  lo : ∃ t ∈ times, ∀ x ∈ timesNew, round10 t ≤ round10 x

theorem resample_spec {times freqs voicing timesNew : List Rat} {kind : Kind}
    (h : ResampleOk times freqs voicing timesNew kind) :
    ∃ f' v', resampleMelodySeries times freqs voicing timesNew kind = .ok (f', v') ∧
      f'.length = timesNew.length ∧ v'.length = timesNew.length ∧ (InUnit voicing → InUnit v') := by
  unfold resampleMelodySeries
  by_cases hsame : times.length = timesNew.length ∧ allclose times timesNew = true
  · rw [if_pos hsame]
    exact ⟨freqs, voicing, rfl, by rw [h.lenF, hsame.1], by rw [h.lenV, hsame.1], id⟩
  · rw [if_neg hsame, if_neg (by rw [h.lenF, h.lenV]; simp)]
    have hT0 : times.map round10 ≠ [] := by simpa using h.ne
    have hN0 : timesNew.map round10 ≠ [] := by simpa using h.neNew
    obtain ⟨mn, hmn⟩ := maxOf_isSome hN0
    obtain ⟨mt, hmt⟩ := maxOf_isSome hT0
    simp only [hmn, hmt]
    have hlo0 : ∃ t ∈ times.map round10, ∀ x ∈ timesNew.map round10, t ≤ x := by
      obtain ⟨t, ht, hl⟩ := h.lo
      refine ⟨round10 t, List.mem_map_of_mem ht, ?_⟩
      intro x hx
      obtain ⟨y, hy, rfl⟩ := List.mem_map.1 hx
      exact hl y hy
    by_cases hext : mt < mn
    · simp only [hext, decide_true, if_true]
      have hspec := resampleCore_spec (kind := kind) (T := times.map round10 ++ [mn]) (F := freqs ++ [0])
        (V := voicing ++ [0]) (N := timesNew.map round10) (by simp)
        (by simp [h.lenF]) (by simp [h.lenV])
        (by
          intro hk
          refine List.Nodup.append (h.nodup hk) (List.nodup_singleton mn) ?_
          intro a ha hb
          simp only [List.mem_singleton] at hb
          subst hb
          exact absurd (maxOf_ge hmt _ ha) (not_le.2 hext))
        (by
          obtain ⟨t, ht, hl⟩ := hlo0
          exact ⟨t, List.mem_append_left _ ht, hl⟩)
        ⟨mn, by simp, maxOf_ge hmn⟩
      obtain ⟨h1, h2, h3, h4⟩ := hspec
      rw [h1]
      refine ⟨_, _, rfl, by simpa using h2, by simpa using h3, fun hv => h4 ?_⟩
      intro x hx
      rcases List.mem_append.1 hx with hx | hx
      · exact hv x hx
      · simp only [List.mem_singleton] at hx; subst hx; norm_num
    · simp only [hext, decide_false, Bool.false_eq_true, if_false]
      have hspec := resampleCore_spec (kind := kind) (T := times.map round10) (F := freqs)
        (V := voicing) (N := timesNew.map round10) hT0
        (by simp [h.lenF]) (by simp [h.lenV]) h.nodup hlo0
        ⟨mt, maxOf_mem hmt, fun x hx => le_trans (maxOf_ge hmn x hx) (not_lt.1 hext)⟩
      obtain ⟨h1, h2, h3, h4⟩ := hspec
      rw [h1]
      exact ⟨_, _, rfl, by simpa using h2, by simpa using h3, h4⟩

theorem resample_errors (times freqs voicing timesNew : List Rat) (kind : Kind) :
    (∃ r, resampleMelodySeries times freqs voicing timesNew kind = .ok r) ∨
      resampleMelodySeries times freqs voicing timesNew kind = .error .valueError := by
  unfold resampleMelodySeries
  split_ifs
  · exact Or.inl ⟨_, rfl⟩
  · exact Or.inr rfl
  · simp only
    split
    · split
      · rename_i e heq
        have := interpChecks_error_eq heq
        subst this
        exact Or.inr rfl
      · exact Or.inl ⟨_, rfl⟩
    · exact Or.inr rfl

/-! ### `constant_hop_timebase` -/

theorem constantHop_ok {hop e : Rat} (hh : 0 < hop) (he : 0 ≤ e) :
    ∃ tb, constantHopTimebase hop e = .ok tb ∧ tb ≠ [] ∧ ∀ x ∈ tb, 0 ≤ x := by
  unfold constantHopTimebase
  simp only
  rw [if_neg (ne_of_gt hh)]
  have hq : (0 : Rat) ≤ round10 e / hop := div_nonneg (round10_nonneg he) (le_of_lt hh)
  have hn : (0 : Int) ≤ (round10 e / hop).floor := Rat.le_floor_iff.2 (by simpa using hq)
  rw [if_neg (by omega)]
  refine ⟨_, rfl, ?_, ?_⟩
  · have : 0 < ((round10 e / hop).floor + 1).toNat := by omega
    intro hnil
    have hl := congrArg List.length hnil
    simp only [List.length_map, List.length_range, List.length_nil] at hl
    omega
  · intro x hx
    obtain ⟨i, _, rfl⟩ := List.mem_map.1 hx
    exact round10_nonneg (mul_nonneg (le_of_lt hh) (by exact_mod_cast Nat.zero_le i))

theorem constantHop_errors {hop : Rat} (e : Rat) (hh : hop ≠ 0) :
    (∃ tb, constantHopTimebase hop e = .ok tb) ∨ constantHopTimebase hop e = .error .valueError := by
  unfold constantHopTimebase
  simp only
  rw [if_neg hh]
  split_ifs
  · exact Or.inr rfl
  · exact Or.inl ⟨_, rfl⟩

/-! ### the sample added at time 0 -/

def padTimes : List Rat → List Rat
  | [] => []
  | t0 :: ts => if 0 < t0 then 0 :: t0 :: ts else t0 :: ts

def padVals {α : Type} (times : List Rat) (xs : List α) : List α :=
  match times, xs with
  | t0 :: _, x0 :: xs' => if 0 < t0 then x0 :: x0 :: xs' else x0 :: xs'
  | _, _ => xs

theorem padStart_eq {α : Type} {times : List Rat} {xs : List α} {aux : Option (List Rat)}
    (hne : times ≠ []) (hx : xs ≠ []) (ha : ∀ a, aux = some a → a ≠ []) :
    padStart times xs aux = .ok (padTimes times, padVals times xs, aux.map (padVals times)) := by
  cases times with
  | nil => exact absurd rfl hne
  | cons t0 ts =>
    cases xs with
    | nil => exact absurd rfl hx
    | cons x0 xs' =>
      unfold padStart padTimes padVals
      by_cases ht : 0 < t0
      · simp only [ht, if_true]
        cases aux with
        | none => rfl
        | some a =>
          cases a with
          | nil => exact absurd rfl (ha [] rfl)
          | cons a0 as => simp [ht]
      · simp only [ht, if_false]
        cases aux with
        | none => rfl
        | some a =>
          cases a with
          | nil => simp
          | cons a0 as => simp [ht]

theorem padStart_errors {α : Type} (times : List Rat) (xs : List α) (aux : Option (List Rat)) :
    (∃ r, padStart times xs aux = .ok r) ∨ padStart times xs aux = .error .indexError := by
  unfold padStart
  split
  · exact Or.inr rfl
  · split_ifs
    · split
      · exact Or.inr rfl
      · exact Or.inl ⟨_, rfl⟩
      · exact Or.inr rfl
      · exact Or.inl ⟨_, rfl⟩
    · exact Or.inl ⟨_, rfl⟩

theorem padTimes_ne_nil {times : List Rat} (h : times ≠ []) : padTimes times ≠ [] := by
  cases times with
  | nil => exact absurd rfl h
  | cons t0 ts => simp only [padTimes]; split_ifs <;> simp

theorem padVals_length {α : Type} {times : List Rat} {xs : List α} (h : xs.length = times.length) :
    (padVals times xs).length = (padTimes times).length := by
  cases times with
  | nil => simpa [padVals, padTimes] using h
  | cons t0 ts =>
    cases xs with
    | nil => simp at h
    | cons x0 xs' =>
      simp only [padVals, padTimes]
      simp only [List.length_cons] at h
      split_ifs <;> simp <;> omega

theorem padVals_length' {α β : Type} {times : List Rat} {xs : List α} {ys : List β} (h : xs.length = ys.length)
    (hne : ys.length = times.length) : (padVals times xs).length = (padVals times ys).length := by
  rw [padVals_length (h.trans hne), padVals_length hne]

theorem mem_padVals {α : Type} {times : List Rat} {xs : List α} {x : α} (h : x ∈ padVals times xs) : x ∈ xs := by
  cases times with
  | nil => simpa [padVals] using h
  | cons t0 ts =>
    cases xs with
    | nil => simp [padVals] at h
    | cons x0 xs' =>
      simp only [padVals] at h
      split_ifs at h
      · simp only [List.mem_cons] at h ⊢
        rcases h with h | h | h
        · exact Or.inl h
        · exact Or.inl h
        · exact Or.inr h
      · exact h

theorem padTimes_nonneg {times : List Rat} (h : ∀ t ∈ times, 0 ≤ t) : ∀ t ∈ padTimes times, 0 ≤ t := by
  cases times with
  | nil => simp [padTimes]
  | cons t0 ts =>
    simp only [padTimes]
    split_ifs
    · intro t ht
      rcases List.mem_cons.1 ht with rfl | ht
      · exact le_refl _
      · exact h t ht
    · exact h

/-- the first time stamp after padding is never positive -/
theorem padTimes_head_nonpos {times : List Rat} (h : times ≠ []) : ∃ t ∈ padTimes times, t ≤ 0 := by
  cases times with
  | nil => exact absurd rfl h
  | cons t0 ts =>
    simp only [padTimes]
    split_ifs with ht
    · exact ⟨0, by simp, le_refl _⟩
    · exact ⟨t0, by simp, not_lt.1 ht⟩

/-! ### `freq_to_voicing` -/

theorem ind_unit (b : Bool) : 0 ≤ ind b ∧ ind b ≤ 1 := ⟨ind_nonneg b, ind_le_one b⟩

theorem freqToVoicing_none (fs : List Freq) :
    ∃ V, freqToVoicing fs none = .ok (fs.map Freq.abs, V) ∧ V.length = fs.length ∧ InUnit V := by
  refine ⟨_, rfl, by simp, ?_⟩
  intro x hx
  obtain ⟨f, _, rfl⟩ := List.mem_map.1 hx
  exact ind_unit _

theorem freqToVoicing_some {fs : List Freq} {v : List Rat} (hne : fs ≠ []) (hl : v.length = fs.length)
    (hv : InUnit v) :
    ∃ V, freqToVoicing fs (some v) = .ok (fs.map Freq.abs, V) ∧ V.length = fs.length ∧ InUnit V := by
  unfold freqToVoicing
  have he : fs.isEmpty = false := by cases fs <;> simp_all
  simp only [he, Bool.false_eq_true, if_false, if_pos hl]
  refine ⟨_, rfl, by simp [hl], ?_⟩
  intro x hx
  obtain ⟨i, hi, rfl⟩ := List.getElem_of_mem hx
  simp only [List.getElem_zipWith]
  split_ifs
  · norm_num
  · exact hv _ (List.getElem_mem _)

theorem freqToVoicing_errors (fs : List Freq) (v : Option (List Rat)) :
    (∃ r, freqToVoicing fs v = .ok r) ∨ freqToVoicing fs v = .error .indexError := by
  unfold freqToVoicing
  split
  · exact Or.inl ⟨_, rfl⟩
  · split_ifs
    · exact Or.inl ⟨_, rfl⟩
    · exact Or.inl ⟨_, rfl⟩
    · exact Or.inr rfl

theorem hz2cents_length (fs : List Freq) : (hz2cents fs).length = fs.length := by simp [hz2cents]

/-! ### `fitLength` -/

theorem fitLength_spec {n m : Nat} {c v : List Rat} (hnm : n = m) (hcv : c.length = v.length) (hv : InUnit v) :
    (fitLength n m c v).1.length = n ∧ (fitLength n m c v).2.length = n ∧ InUnit (fitLength n m c v).2 := by
  subst hnm
  unfold fitLength
  split_ifs with h
  · refine ⟨by simp; omega, by simp; omega, ?_⟩
    intro x hx
    rcases List.mem_append.1 hx with hx | hx
    · exact hv x hx
    · have := (List.mem_replicate.1 hx).2; subst this; norm_num
  · refine ⟨by simp; omega, by simp; omega, ?_⟩
    intro x hx
    exact hv x (List.mem_of_mem_take hx)

/-! ### the five measures on aligned series -/

theorem voicingRate_ok {sel : Rat → Bool} {dflt : Rat} {rv ev : List Rat} (h : rv.length = ev.length) :
    ∃ x, voicingRate sel dflt rv ev = .ok x := by
  unfold voicingRate
  simp only
  split_ifs
  · exact ⟨_, rfl⟩
  · exact ⟨_, rfl⟩
  · rw [bmul_eq_of_length (by simp [h])]
    exact ⟨_, rfl⟩

theorem bmul_errors (a b : List Rat) : (∃ p, bmul a b = .ok p) ∨ bmul a b = .error .valueError := by
  unfold bmul
  split_ifs
  · exact Or.inl ⟨_, rfl⟩
  · split
    · exact Or.inl ⟨_, rfl⟩
    · exact Or.inl ⟨_, rfl⟩
    · exact Or.inr rfl

theorem voicingRate_errors (sel : Rat → Bool) (dflt : Rat) (rv ev : List Rat) :
    (∃ x, voicingRate sel dflt rv ev = .ok x) ∨ voicingRate sel dflt rv ev = .error .valueError := by
  unfold voicingRate
  simp only
  split_ifs
  · exact Or.inl ⟨_, rfl⟩
  · exact Or.inl ⟨_, rfl⟩
  · rcases bmul_errors ev (rv.map fun x => ind (sel x)) with ⟨p, hp⟩ | hp
    · rw [hp]; exact Or.inl ⟨_, rfl⟩
    · rw [hp]; exact Or.inr rfl

theorem scoreAll_ok {cv : CentVoicing} (tol : Rat) (h1 : cv.refVoicing.length = cv.estVoicing.length)
    (h2 : cv.refVoicing.length = cv.refCent.length) (h3 : cv.estVoicing.length = cv.estCent.length)
    (hr : InUnit cv.refVoicing) (he : InUnit cv.estVoicing) : ∃ kvs, scoreAll cv tol = .ok kvs := by
  have hvv : validVoicingB cv.refVoicing cv.estVoicing = true := validVoicingB_iff.2 ⟨h1, inUnit_iff.2 hr, inUnit_iff.2 he⟩
  have hvl : validLenB cv.refVoicing cv.refCent cv.estVoicing cv.estCent = true :=
    validLenB_iff.2 ⟨h2, h3, by omega⟩
  obtain ⟨a, ha⟩ := voicingRate_ok (sel := isVoiced) (dflt := 1) h1
  obtain ⟨b, hb⟩ := voicingRate_ok (sel := isUnvoiced) (dflt := 0) h1
  unfold scoreAll
  simp only [voicingRecall, voicingFalseAlarm, ha, hb, rawPitchAccuracy, rawChromaAccuracy, overallAccuracy,
    pitchAcc, hvv, hvl, Bool.and_self, if_true]
  exact ⟨_, rfl⟩

theorem scoreAll_errors (cv : CentVoicing) (tol : Rat) :
    (∃ kvs, scoreAll cv tol = .ok kvs) ∨ scoreAll cv tol = .error .valueError := by
  unfold scoreAll
  rcases voicingRate_errors isVoiced 1 cv.refVoicing cv.estVoicing with ⟨a, ha⟩ | ha
  · rcases voicingRate_errors isUnvoiced 0 cv.refVoicing cv.estVoicing with ⟨b, hb⟩ | hb
    · simp only [voicingRecall, voicingFalseAlarm, ha, hb, rawPitchAccuracy, rawChromaAccuracy, overallAccuracy,
        pitchAcc]
      split_ifs
      · exact Or.inl ⟨_, rfl⟩
      · exact Or.inr rfl
    · simp only [voicingRecall, voicingFalseAlarm, ha, hb]
      simp
  · simp only [voicingRecall, ha]
    simp

/-! ### `to_cent_voicing` -/

/-- one side of a melody annotation: a non-empty series, one frequency per time stamp, no negative time, time
    stamps strictly increasing (as the code sees them: after the sample at time 0 has been added and the
    10-decimal rounding of `resample_melody_series`) -/
structure ValidSeries (times : List Rat) (freqs : List Freq) : Prop where
  nonempty : times ≠ []
  len : freqs.length = times.length
  nonneg : ∀ t ∈ times, 0 ≤ t
  increasing : ((padTimes times).map round10).Pairwise (· < ·)

/-- an optional voicing / reward array: as long as the frequencies, values in `[0, 1]` -/
def OptUnit (o : Option (List Rat)) (n : Nat) : Prop :=
  match o with
  | none => True
  | some v => v.length = n ∧ InUnit v

/-- shape only -/
def OptLen (o : Option (List Rat)) (n : Nat) : Prop :=
  match o with
  | none => True
  | some v => v.length = n

theorem OptUnit.toLen {o : Option (List Rat)} {n : Nat} (h : OptUnit o n) : OptLen o n := by
  cases o with
  | none => trivial
  | some v => exact h.1

theorem freqToVoicing_shape {fs : List Freq} {o : Option (List Rat)} (hne : fs ≠ []) (hl : OptLen o fs.length) :
    ∃ V, freqToVoicing fs o = .ok (fs.map Freq.abs, V) ∧ V.length = fs.length := by
  cases o with
  | none => exact ⟨_, rfl, by simp⟩
  | some v =>
    unfold freqToVoicing
    have he : fs.isEmpty = false := by cases fs <;> simp_all
    have hl' : v.length = fs.length := hl
    simp only [he, Bool.false_eq_true, if_false, if_pos hl']
    exact ⟨_, rfl, by simp [hl']⟩

/-- `padStart` followed by `freq_to_voicing` and `hz2cents` on a side of the right shape -/
theorem side_shape {times : List Rat} {freqs : List Freq} {aux : Option (List Rat)}
    (hne : times ≠ []) (hlen : freqs.length = times.length) (ha : OptLen aux freqs.length) :
    ∃ fs' aux' F V, padStart times freqs aux = .ok (padTimes times, fs', aux') ∧
      freqToVoicing fs' aux' = .ok (F, V) ∧ (hz2cents F).length = (padTimes times).length ∧
      V.length = (padTimes times).length ∧ (∀ x ∈ V, (∃ b, x = ind b) ∨ x = 0 ∨ ∃ a, aux = some a ∧ x ∈ a) := by
  have hfne : freqs ≠ [] := by
    intro h; rw [h] at hlen; exact hne (List.length_eq_zero_iff.1 hlen.symm)
  have hpos : 0 < freqs.length := List.length_pos_iff.2 hfne
  have hpad := padStart_eq (times := times) (xs := freqs) (aux := aux) hne hfne (by
    intro a ha' hnil
    subst ha' hnil
    have : (0 : Nat) = freqs.length := ha
    omega)
  have hl1 : (padVals times freqs).length = (padTimes times).length := padVals_length hlen
  have hne' : padVals times freqs ≠ [] := by
    intro h
    rw [h] at hl1
    exact padTimes_ne_nil hne (List.length_eq_zero_iff.1 hl1.symm)
  cases aux with
  | none =>
    refine ⟨_, _, _, _, hpad, rfl, by rw [hz2cents_length]; simpa using hl1, by simpa using hl1, ?_⟩
    intro x hx
    obtain ⟨f, _, rfl⟩ := List.mem_map.1 hx
    exact Or.inl ⟨_, rfl⟩
  | some a =>
    have hal : a.length = freqs.length := ha
    have hl2 : (padVals times a).length = (padVals times freqs).length := padVals_length' hal hlen
    refine ⟨_, _, (padVals times freqs).map Freq.abs,
      List.zipWith (fun f x => if f.sgn = 0 then 0 else x) (padVals times freqs) (padVals times a), hpad, ?_,
      by rw [hz2cents_length]; simpa using hl1, by simp [hl2, hl1], ?_⟩
    · simp only [Option.map_some]
      unfold freqToVoicing
      have he : (padVals times freqs).isEmpty = false := by
        cases h : padVals times freqs <;> simp_all
      simp only [he, Bool.false_eq_true, if_false, if_pos hl2]
    · intro x hx
      obtain ⟨i, hi, rfl⟩ := List.getElem_of_mem hx
      simp only [List.getElem_zipWith]
      split_ifs
      · exact Or.inr (Or.inl rfl)
      · exact Or.inr (Or.inr ⟨a, rfl, mem_padVals (List.getElem_mem _)⟩)

theorem side_unit {aux : Option (List Rat)} {n : Nat} (ha : OptUnit aux n) {V : List Rat}
    (h : ∀ x ∈ V, (∃ b, x = ind b) ∨ x = 0 ∨ ∃ a, aux = some a ∧ x ∈ a) : InUnit V := by
  intro x hx
  rcases h x hx with ⟨b, rfl⟩ | rfl | ⟨a, rfl, hxa⟩
  · exact ind_unit b
  · norm_num
  · exact ha.2 x hxa

/-- what the five measures need from the output of `to_cent_voicing` -/
structure Aligned (cv : CentVoicing) : Prop where
  lenV : cv.refVoicing.length = cv.estVoicing.length
  lenR : cv.refVoicing.length = cv.refCent.length
  lenE : cv.estVoicing.length = cv.estCent.length
  unitR : InUnit cv.refVoicing
  unitE : InUnit cv.estVoicing

theorem alignSeries_ok {rt rc rv et ec ev : List Rat} {hop : Option Rat} {kind : Kind}
    (hrne : rt ≠ []) (hene : et ≠ []) (hrc : rc.length = rt.length) (hrv : rv.length = rt.length)
    (hec : ec.length = et.length) (hev : ev.length = et.length)
    (hrn : ∀ t ∈ rt, 0 ≤ t) (hen : ∀ t ∈ et, 0 ≤ t)
    (hr0 : ∃ t ∈ rt, t ≤ 0) (he0 : ∃ t ∈ et, t ≤ 0)
    (hrd : kind ≠ .nearest → (rt.map round10).Nodup) (hed : kind ≠ .nearest → (et.map round10).Nodup)
    (hru : InUnit rv) (heu : InUnit ev) (hhop : ∀ h, hop = some h → 0 < h) :
    ∃ cv, alignSeries rt rc rv et ec ev hop kind = .ok cv ∧ Aligned cv := by
  cases hop with
  | none =>
    obtain ⟨t0, ht0, ht0'⟩ := he0
    have hR : ResampleOk et ec ev rt kind :=
      ⟨hec, hev, hene, hrne, hed, ⟨t0, ht0, fun x hx => round10_mono (le_trans ht0' (hrn x hx))⟩⟩
    obtain ⟨f', v', hres, hf, hv, hu⟩ := resample_spec hR
    have hfit := fitLength_spec (n := rc.length) (m := rv.length) (c := f') (v := v') (by omega) (by omega) (hu heu)
    refine ⟨_, by simp only [alignSeries, hres]; rfl, ?_⟩
    exact ⟨by simp only; omega, by simp only; omega, by simp only; omega, hru, hfit.2.2⟩
  | some h =>
    have hh := hhop h rfl
    obtain ⟨mr, hmr⟩ := maxOf_isSome hrne
    obtain ⟨me, hme⟩ := maxOf_isSome hene
    obtain ⟨tbR, htbR, htbRne, htbRnn⟩ := constantHop_ok hh (hrn mr (maxOf_mem hmr))
    obtain ⟨tbE, htbE, htbEne, htbEnn⟩ := constantHop_ok hh (hen me (maxOf_mem hme))
    obtain ⟨r0, hr0m, hr0'⟩ := hr0
    obtain ⟨e0, he0m, he0'⟩ := he0
    have hR : ResampleOk rt rc rv tbR kind :=
      ⟨hrc, hrv, hrne, htbRne, hrd, ⟨r0, hr0m, fun x hx => round10_mono (le_trans hr0' (htbRnn x hx))⟩⟩
    have hE : ResampleOk et ec ev tbE kind :=
      ⟨hec, hev, hene, htbEne, hed, ⟨e0, he0m, fun x hx => round10_mono (le_trans he0' (htbEnn x hx))⟩⟩
    obtain ⟨rf', rv', hresR, hrf, hrv', hruR⟩ := resample_spec hR
    obtain ⟨ef', ev', hresE, hef, hev', heuE⟩ := resample_spec hE
    have hfit := fitLength_spec (n := rf'.length) (m := rv'.length) (c := ef') (v := ev') (by omega) (by omega)
      (heuE heu)
    refine ⟨_, by simp only [alignSeries, hmr, hme, htbR, htbE, hresR, hresE]; rfl, ?_⟩
    exact ⟨by simp only; omega, by simp only; omega, by simp only; omega, hruR hru, hfit.2.2⟩

theorem alignSeries_errors (rt rc rv et ec ev : List Rat) {hop : Option Rat} (kind : Kind)
    (hhop : hop ≠ some 0) :
    (∃ cv, alignSeries rt rc rv et ec ev hop kind = .ok cv) ∨
      alignSeries rt rc rv et ec ev hop kind = .error .valueError := by
  cases hop with
  | none =>
    simp only [alignSeries]
    rcases resample_errors et ec ev rt kind with ⟨r, hr⟩ | hr
    · rw [hr]; exact Or.inl ⟨_, rfl⟩
    · rw [hr]; exact Or.inr rfl
  | some h =>
    have hh : h ≠ 0 := fun h0 => hhop (by rw [h0])
    simp only [alignSeries]
    cases hmr : maxOf rt with
    | none => exact Or.inr rfl
    | some mr =>
      cases hme : maxOf et with
      | none => exact Or.inr rfl
      | some me =>
        simp only
        rcases constantHop_errors mr hh with ⟨tbR, h1⟩ | h1
        · rw [h1]
          simp only
          rcases resample_errors rt rc rv tbR kind with ⟨r, h2⟩ | h2
          · rw [h2]
            simp only
            rcases constantHop_errors me hh with ⟨tbE, h3⟩ | h3
            · rw [h3]
              simp only
              rcases resample_errors et ec ev tbE kind with ⟨r', h4⟩ | h4
              · rw [h4]; exact Or.inl ⟨_, rfl⟩
              · rw [h4]; exact Or.inr rfl
            · rw [h3]; exact Or.inr rfl
          · rw [h2]; exact Or.inr rfl
        · rw [h1]; exact Or.inr rfl

/-- the documented input convention of `to_cent_voicing` / `melody.evaluate` -/
structure ValidMelody (rt : List Rat) (rf : List Freq) (et : List Rat) (ef : List Freq)
    (ev rr : Option (List Rat)) (hop : Option Rat) : Prop where
  ref : ValidSeries rt rf
  est : ValidSeries et ef
  estVoicing : OptUnit ev ef.length
  refReward : OptUnit rr rf.length
  hop : ∀ h, hop = some h → 0 < h

theorem toCentVoicing_ok {rt : List Rat} {rf : List Freq} {et : List Rat} {ef : List Freq}
    {ev rr : Option (List Rat)} {hop : Option Rat} (kind : Kind) (h : ValidMelody rt rf et ef ev rr hop) :
    ∃ cv, toCentVoicing rt rf et ef ev rr hop kind = .ok cv ∧ Aligned cv := by
  obtain ⟨rfs, raux, rF, rV, hp1, hf1, hl1, hl1', hm1⟩ := side_shape h.ref.nonempty h.ref.len h.refReward.toLen
  obtain ⟨efs, eaux, eF, eV, hp2, hf2, hl2, hl2', hm2⟩ := side_shape h.est.nonempty h.est.len h.estVoicing.toLen
  have hal := alignSeries_ok (rt := padTimes rt) (rc := hz2cents rF) (rv := rV) (et := padTimes et)
    (ec := hz2cents eF) (ev := eV) (hop := hop) (kind := kind)
    (padTimes_ne_nil h.ref.nonempty) (padTimes_ne_nil h.est.nonempty) hl1 hl1' hl2 hl2'
    (padTimes_nonneg h.ref.nonneg) (padTimes_nonneg h.est.nonneg)
    (padTimes_head_nonpos h.ref.nonempty) (padTimes_head_nonpos h.est.nonempty)
    (fun _ => (h.ref.increasing.imp ne_of_lt)) (fun _ => (h.est.increasing.imp ne_of_lt))
    (side_unit h.refReward hm1) (side_unit h.estVoicing hm2) h.hop
  obtain ⟨cv, hcv, ha⟩ := hal
  refine ⟨cv, ?_, ha⟩
  simp only [toCentVoicing, hp1, hp2, hf1, hf2, hcv]

theorem toCentVoicing_errors {rt : List Rat} {rf : List Freq} {et : List Rat} {ef : List Freq}
    {ev rr : Option (List Rat)} {hop : Option Rat} (kind : Kind)
    (hr : rt ≠ []) (hrl : rf.length = rt.length) (he : et ≠ []) (hel : ef.length = et.length)
    (hev : OptLen ev ef.length) (hrr : OptLen rr rf.length) (hhop : hop ≠ some 0) :
    (∃ cv, toCentVoicing rt rf et ef ev rr hop kind = .ok cv) ∨
      toCentVoicing rt rf et ef ev rr hop kind = .error .valueError := by
  obtain ⟨rfs, raux, rF, rV, hp1, hf1, _⟩ := side_shape hr hrl hrr
  obtain ⟨efs, eaux, eF, eV, hp2, hf2, _⟩ := side_shape he hel hev
  simp only [toCentVoicing, hp1, hp2, hf1, hf2]
  exact alignSeries_errors _ _ _ _ _ _ kind hhop

end Melody
end Mir
