import MirProofs.Lemmas.MultipitchResample

/-! Helper lemmas for C14 (task-level totality of `mir_eval.multipitch`). -/
namespace Mir.C14.Multipitch
open Mir Mir.Multipitch

/-- "no negative `np.diff`" is "non-decreasing" -/
theorem sortedB_iff (ts : List Rat) : sortedB ts = true ↔ ts.Pairwise (· ≤ ·) := by
  constructor
  · exact sortedB_sorted ts
  · intro h
    induction ts with
    | nil => rfl
    | cons a r ih =>
      cases r with
      | nil => rfl
      | cons b tl =>
        have p := List.pairwise_cons.1 h
        simp only [sortedB, Bool.and_eq_true, Bool.not_eq_true', decide_eq_false_iff_not, not_lt]
        exact ⟨by linarith [p.1 b List.mem_cons_self], ih p.2⟩

theorem eventsOk_iff (ts : List Rat) :
    eventsOk ts = true ↔ (∀ t ∈ ts, t ≤ maxTime) ∧ ts.Pairwise (· ≤ ·) := by
  unfold eventsOk
  rw [Bool.and_eq_true, sortedB_iff]
  simp only [Bool.not_eq_true', List.any_eq_false, decide_eq_true_eq, not_lt]

theorem frameOk_iff (f : List Rat) : frameOk f = true ↔ ∀ m ∈ f, midiMin ≤ m ∧ m ≤ midiMax := by
  unfold frameOk
  simp only [Bool.and_eq_true, Bool.not_eq_true', List.any_eq_false, decide_eq_true_eq, not_lt]
  exact ⟨fun h m hm => ⟨h.2 m hm, h.1 m hm⟩, fun h => ⟨fun m hm => (h m hm).2, fun m hm => (h m hm).1⟩⟩

theorem valid_iff (rt : List Rat) (rf : Frames) (et : List Rat) (ef : Frames) :
    valid rt rf et ef = true ↔
      ((∀ t ∈ rt, t ≤ maxTime) ∧ rt.Pairwise (· ≤ ·)) ∧ ((∀ t ∈ et, t ≤ maxTime) ∧ et.Pairwise (· ≤ ·)) ∧
      rt.length = rf.length ∧ et.length = ef.length ∧
      (∀ f ∈ rf, ∀ m ∈ f, midiMin ≤ m ∧ m ≤ midiMax) ∧ (∀ f ∈ ef, ∀ m ∈ f, midiMin ≤ m ∧ m ≤ midiMax) := by
  unfold valid
  simp only [Bool.and_eq_true, eventsOk_iff, beq_iff_eq, List.all_eq_true, frameOk_iff]
  tauto

theorem validate_eq (rt : List Rat) (rf : Frames) (et : List Rat) (ef : Frames) :
    validate rt rf et ef = if valid rt rf et ef = true then .ok () else .error .valueError := rfl

theorem metrics_eq (rt : List Rat) (rf : Frames) (et : List Rat) (ef : Frames) (w : Rat) :
    metrics rt rf et ef w =
      if valid rt rf et ef = true then .ok (metricsCore rt rf et ef w) else .error .valueError := rfl

theorem evaluate_eq (rt : List Rat) (rf : Frames) (et : List Rat) (ef : Frames) (w : Rat) :
    evaluate rt rf et ef w =
      if valid rt rf et ef = true then
        .ok (evaluateKeys.zip ((metricsCore rt rf et ef w).1.toList ++ (metricsCore rt rf et ef w).2.toList))
      else .error .valueError := by
  unfold evaluate
  rw [metrics_eq]
  split <;> rfl

theorem resample_eq (ts : List Rat) (fs : Frames) (tg : List Rat) :
    resample ts fs tg =
      if tg = [] then .ok []
      else if ts = [] then .ok (tg.map fun _ => [])
      else if ts.length ≠ fs.length then .error .valueError
      else .ok (resampleCore ts fs tg) := by
  unfold resample
  simp only [List.isEmpty_iff]
  rfl

theorem resampleCore_length (ts : List Rat) (fs : Frames) (tg : List Rat) :
    (resampleCore ts fs tg).length = tg.length := by
  unfold resampleCore
  split <;> simp

end Mir.C14.Multipitch
