import MirModel.Segment
import MirProofs.Lemmas.Segment
import Mathlib.Algebra.Order.Field.Rat
import Mathlib.Tactic.Linarith
/-!
  Helper lemmas for C14 (task level, `mir_eval.segment`): the documented convention of
  `segment.validate_structure` as an independent predicate, the validator characterised by it, lengths of the
  sampled frame sequences, and the error-monad structure of the six public metric functions.
-/
namespace Mir
namespace Segment

/-! ### the only two things a metric function is allowed to do -/

/-- either a value, or a `ValueError` (never IndexError / ZeroDivisionError / TypeError / KeyError / other) -/
def OkOrVE {α : Type} (p : Py α) : Prop := (∃ v, p = .ok v) ∨ p = .error .valueError

theorem okOrVE_ok {α : Type} (v : α) : OkOrVE (.ok v : Py α) := Or.inl ⟨v, rfl⟩
theorem okOrVE_ve {α : Type} : OkOrVE (.error .valueError : Py α) := Or.inr rfl

theorem okOrVE_bind {α β : Type} {p : Py α} {f : α → Py β} (hp : OkOrVE p) (hf : ∀ a, p = .ok a → OkOrVE (f a)) :
    OkOrVE (p >>= f) := by
  rcases hp with ⟨v, hv⟩ | he
  · subst hv; exact hf v rfl
  · subst he; exact Or.inr rfl

/-! ### minimum / maximum of a list, independently of the folds -/

def IsMinOf (l : List Rat) (m : Rat) : Prop := m ∈ l ∧ ∀ x ∈ l, m ≤ x
def IsMaxOf (l : List Rat) (m : Rat) : Prop := m ∈ l ∧ ∀ x ∈ l, x ≤ m

theorem IsMinOf.unique {l : List Rat} {m m' : Rat} (h : IsMinOf l m) (h' : IsMinOf l m') : m = m' :=
  le_antisymm (h.2 m' h'.1) (h'.2 m h.1)

theorem IsMaxOf.unique {l : List Rat} {m m' : Rat} (h : IsMaxOf l m) (h' : IsMaxOf l m') : m = m' :=
  le_antisymm (h'.2 m h.1) (h.2 m' h'.1)

theorem foldl_min_spec (l : List Rat) (a : Rat) :
    (l.foldl (fun m x => if x < m then x else m) a = a ∨ l.foldl (fun m x => if x < m then x else m) a ∈ l) ∧
    l.foldl (fun m x => if x < m then x else m) a ≤ a ∧
    ∀ x ∈ l, l.foldl (fun m x => if x < m then x else m) a ≤ x := by
  induction l generalizing a with
  | nil => simp
  | cons b t ih =>
    simp only [List.foldl_cons, List.mem_cons]
    obtain ⟨h1, h2, h3⟩ := ih (if b < a then b else a)
    by_cases hba : b < a
    · simp only [hba, if_true] at h1 h2 h3 ⊢
      refine ⟨?_, le_trans h2 (le_of_lt hba), ?_⟩
      · rcases h1 with h | h
        · exact Or.inr (Or.inl h)
        · exact Or.inr (Or.inr h)
      · rintro x (rfl | hx)
        · exact h2
        · exact h3 x hx
    · simp only [hba, if_false] at h1 h2 h3 ⊢
      refine ⟨?_, h2, ?_⟩
      · rcases h1 with h | h
        · exact Or.inl h
        · exact Or.inr (Or.inr h)
      · rintro x (rfl | hx)
        · exact le_trans h2 (not_lt.1 hba)
        · exact h3 x hx

theorem foldl_max_spec (l : List Rat) (a : Rat) :
    (l.foldl (fun m x => if m < x then x else m) a = a ∨ l.foldl (fun m x => if m < x then x else m) a ∈ l) ∧
    a ≤ l.foldl (fun m x => if m < x then x else m) a ∧
    ∀ x ∈ l, x ≤ l.foldl (fun m x => if m < x then x else m) a := by
  induction l generalizing a with
  | nil => simp
  | cons b t ih =>
    simp only [List.foldl_cons, List.mem_cons]
    obtain ⟨h1, h2, h3⟩ := ih (if a < b then b else a)
    by_cases hba : a < b
    · simp only [hba, if_true] at h1 h2 h3 ⊢
      refine ⟨?_, le_trans (le_of_lt hba) h2, ?_⟩
      · rcases h1 with h | h
        · exact Or.inr (Or.inl h)
        · exact Or.inr (Or.inr h)
      · rintro x (rfl | hx)
        · exact h2
        · exact h3 x hx
    · simp only [hba, if_false] at h1 h2 h3 ⊢
      refine ⟨?_, h2, ?_⟩
      · rcases h1 with h | h
        · exact Or.inl h
        · exact Or.inr (Or.inr h)
      · rintro x (rfl | hx)
        · exact le_trans (not_lt.1 hba) h2
        · exact h3 x hx

theorem listMin_eq_none {l : List Rat} : listMin l = none ↔ l = [] := by
  cases l <;> simp [listMin]

theorem listMax_eq_none {l : List Rat} : listMax l = none ↔ l = [] := by
  cases l <;> simp [listMax]

theorem listMin_spec {l : List Rat} {m : Rat} (h : listMin l = some m) : IsMinOf l m := by
  cases l with
  | nil => simp [listMin] at h
  | cons a t =>
    simp only [listMin, Option.some.injEq] at h
    obtain ⟨h1, h2, h3⟩ := foldl_min_spec t a
    rw [h] at h1 h2 h3
    refine ⟨?_, ?_⟩
    · rcases h1 with h | h
      · simp [h]
      · simp [h]
    · intro x hx
      rcases List.mem_cons.1 hx with rfl | hx
      · exact h2
      · exact h3 x hx

theorem listMax_spec {l : List Rat} {m : Rat} (h : listMax l = some m) : IsMaxOf l m := by
  cases l with
  | nil => simp [listMax] at h
  | cons a t =>
    simp only [listMax, Option.some.injEq] at h
    obtain ⟨h1, h2, h3⟩ := foldl_max_spec t a
    rw [h] at h1 h2 h3
    refine ⟨?_, ?_⟩
    · rcases h1 with h | h
      · simp [h]
      · simp [h]
    · intro x hx
      rcases List.mem_cons.1 hx with rfl | hx
      · exact h2
      · exact h3 x hx

theorem listMin_some_iff {l : List Rat} {m : Rat} : listMin l = some m ↔ IsMinOf l m := by
  refine ⟨listMin_spec, fun h => ?_⟩
  cases hm : listMin l with
  | none => rw [listMin_eq_none.1 hm] at h; exact absurd h.1 (by simp)
  | some m' => rw [(listMin_spec hm).unique h]

theorem listMax_some_iff {l : List Rat} {m : Rat} : listMax l = some m ↔ IsMaxOf l m := by
  refine ⟨listMax_spec, fun h => ?_⟩
  cases hm : listMax l with
  | none => rw [listMax_eq_none.1 hm] at h; exact absurd h.1 (by simp)
  | some m' => rw [(listMax_spec hm).unique h]

/-! ### `np.allclose` -/

theorem rat_abs_eq (x : Rat) : x.abs = |x| := by
  unfold Rat.abs
  split
  · rename_i h; rw [abs_of_nonneg h]
  · rename_i h; rw [abs_of_neg (not_le.1 h)]

/-- `np.allclose(a, b)` with default tolerances: `|a - b| ≤ 1e-8 + 1e-5 |b|` -/
def Close (a b : Rat) : Prop := |a - b| ≤ 1 / 100000000 + 1 / 100000 * |b|

theorem allclose_iff (a b : Rat) : allclose a b = true ↔ Close a b := by
  simp [allclose, Close, rat_abs_eq]

/-! ### the documented convention of `segment.validate_structure` -/

theorem mem_flat {ivs : List (Rat × Rat)} {x : Rat} : x ∈ flat ivs ↔ ∃ p ∈ ivs, x = p.1 ∨ x = p.2 := by
  simp [flat]

theorem flat_eq_nil {ivs : List (Rat × Rat)} : flat ivs = [] ↔ ivs = [] := by
  cases ivs <;> simp [flat]

/-- one annotation as `validate_structure` documents it: non-negative times, strictly positive durations, one
    label per interval, the earliest time (if there is one) is (`allclose` to) 0 -/
structure ValidSide (ivs : List (Rat × Rat)) (nLabels : Nat) : Prop where
  nonneg : ∀ p ∈ ivs, 0 ≤ p.1 ∧ 0 ≤ p.2
  posDuration : ∀ p ∈ ivs, p.1 < p.2
  labelCount : ivs.length = nLabels
  startsAtZero : ∀ m, IsMinOf (flat ivs) m → Close m 0

/-- both annotations valid, and the latest times of the two (if both exist) are `allclose` -/
structure ValidStructure (ri : List (Rat × Rat)) (nrl : Nat) (ei : List (Rat × Rat)) (nel : Nat) : Prop where
  ref : ValidSide ri nrl
  est : ValidSide ei nel
  endTogether : ∀ a b, IsMaxOf (flat ri) a → IsMaxOf (flat ei) b → Close a b

theorem validateIntervals_ok_iff (ivs : List (Rat × Rat)) :
    validateIntervals ivs = .ok () ↔ (∀ p ∈ ivs, 0 ≤ p.1 ∧ 0 ≤ p.2) ∧ ∀ p ∈ ivs, p.1 < p.2 := by
  unfold validateIntervals
  by_cases h1 : (flat ivs).any (fun x => decide (x < 0)) = true
  · simp only [h1, if_true, reduceCtorEq, false_iff]
    rintro ⟨hn, _⟩
    obtain ⟨x, hx, hlt⟩ := List.any_eq_true.1 h1
    obtain ⟨p, hp, hxp⟩ := mem_flat.1 hx
    have := hn p hp
    simp only [decide_eq_true_eq] at hlt
    rcases hxp with rfl | rfl <;> linarith [this.1, this.2]
  · have hn : ∀ p ∈ ivs, 0 ≤ p.1 ∧ 0 ≤ p.2 := by
      intro p hp
      constructor
      · by_contra hc
        exact h1 (List.any_eq_true.2 ⟨p.1, mem_flat.2 ⟨p, hp, Or.inl rfl⟩, by simpa using hc⟩)
      · by_contra hc
        exact h1 (List.any_eq_true.2 ⟨p.2, mem_flat.2 ⟨p, hp, Or.inr rfl⟩, by simpa using hc⟩)
    simp only [h1, if_false, Bool.false_eq_true]
    by_cases h2 : ivs.any (fun p => decide (p.2 ≤ p.1)) = true
    · simp only [h2, if_true, reduceCtorEq, false_iff]
      rintro ⟨_, hd⟩
      obtain ⟨p, hp, hle⟩ := List.any_eq_true.1 h2
      simp only [decide_eq_true_eq] at hle
      exact absurd (hd p hp) (not_lt.2 hle)
    · simp only [h2, if_false, Bool.false_eq_true, true_iff]
      refine ⟨hn, fun p hp => ?_⟩
      by_contra hc
      exact h2 (List.any_eq_true.2 ⟨p, hp, by simpa using hc⟩)

theorem validateIntervals_errors (ivs : List (Rat × Rat)) : OkOrVE (validateIntervals ivs) := by
  unfold validateIntervals
  split
  · exact okOrVE_ve
  · split
    · exact okOrVE_ve
    · exact okOrVE_ok ()

theorem validateSide_errors (ivs : List (Rat × Rat)) (n : Nat) : OkOrVE (validateSide ivs n) := by
  unfold validateSide
  refine okOrVE_bind (validateIntervals_errors ivs) fun _ _ => ?_
  by_cases hl : ivs.length ≠ n
  · rw [if_pos hl]; exact Or.inr rfl
  · rw [if_neg hl]
    cases listMin (flat ivs) with
    | none => exact Or.inl ⟨(), rfl⟩
    | some m =>
      by_cases hc : allclose m 0 = true
      · simp only [hc, if_true]; exact Or.inl ⟨(), rfl⟩
      · simp only [hc]; exact Or.inr rfl

theorem validateSide_ok_iff (ivs : List (Rat × Rat)) (n : Nat) :
    validateSide ivs n = .ok () ↔ ValidSide ivs n := by
  unfold validateSide
  constructor
  · intro h
    cases hv : validateIntervals ivs with
    | error e => rw [hv] at h; simp [bind, Except.bind] at h
    | ok u =>
      rw [hv] at h
      simp only [bind, Except.bind] at h
      obtain ⟨hn, hd⟩ := (validateIntervals_ok_iff ivs).1 hv
      by_cases hl : ivs.length ≠ n
      · simp [hl, throw, throwThe, MonadExceptOf.throw] at h
      · simp only [hl, if_false] at h
        refine ⟨hn, hd, not_not.1 hl, fun m hm => ?_⟩
        rw [listMin_some_iff.2 hm] at h
        simp only at h
        by_cases hc : allclose m 0 = true
        · exact (allclose_iff m 0).1 hc
        · simp [hc, throw, throwThe, MonadExceptOf.throw] at h
  · rintro ⟨hn, hd, hl, hz⟩
    rw [(validateIntervals_ok_iff ivs).2 ⟨hn, hd⟩]
    simp only [bind, Except.bind, hl, ne_eq, not_true_eq_false, if_false]
    cases hm : listMin (flat ivs) with
    | none => rfl
    | some m =>
      simp only
      rw [(allclose_iff m 0).2 (hz m (listMin_spec hm))]
      rfl

theorem validateStructure_errors (ri : List (Rat × Rat)) (nrl : Nat) (ei : List (Rat × Rat)) (nel : Nat) :
    OkOrVE (validateStructure ri nrl ei nel) := by
  unfold validateStructure
  refine okOrVE_bind (validateSide_errors ri nrl) fun _ _ => ?_
  refine okOrVE_bind (validateSide_errors ei nel) fun _ _ => ?_
  split
  · split
    · exact okOrVE_ok ()
    · exact okOrVE_ve
  · exact okOrVE_ok ()

theorem validateStructure_ok_iff (ri : List (Rat × Rat)) (nrl : Nat) (ei : List (Rat × Rat)) (nel : Nat) :
    validateStructure ri nrl ei nel = .ok () ↔ ValidStructure ri nrl ei nel := by
  unfold validateStructure
  constructor
  · intro h
    cases h1 : validateSide ri nrl with
    | error e => rw [h1] at h; simp [bind, Except.bind] at h
    | ok u =>
      cases h2 : validateSide ei nel with
      | error e => rw [h1, h2] at h; simp [bind, Except.bind] at h
      | ok u' =>
        rw [h1, h2] at h
        simp only [bind, Except.bind] at h
        refine ⟨(validateSide_ok_iff ri nrl).1 h1, (validateSide_ok_iff ei nel).1 h2, fun a b ha hb => ?_⟩
        rw [listMax_some_iff.2 ha, listMax_some_iff.2 hb] at h
        simp only at h
        by_cases hc : allclose a b = true
        · exact (allclose_iff a b).1 hc
        · simp [hc, throw, throwThe, MonadExceptOf.throw] at h
  · rintro ⟨hr, he, hend⟩
    rw [(validateSide_ok_iff ri nrl).2 hr, (validateSide_ok_iff ei nel).2 he]
    simp only [bind, Except.bind]
    cases ha : listMax (flat ri) with
    | none => rfl
    | some a =>
      cases hb : listMax (flat ei) with
      | none => rfl
      | some b =>
        simp only
        rw [(allclose_iff a b).2 (hend a b (listMax_spec ha) (listMax_spec hb))]
        rfl

/-! ### lengths of the sampled frame sequences -/

theorem length_indexNorm (ls : List Label) : (indexNorm ls).length = ls.length := by
  simp [indexNorm]

theorem length_indexLabels (ls : List (Option Label)) : (indexLabels ls).length = ls.length := by
  simp [indexLabels, length_indexNorm]

theorem length_frameLabels (ivs : List (Rat × Rat)) (labs : List Label) (fs : Rat) :
    (frameLabels ivs labs fs).length = numSamples ivs fs := by
  simp [frameLabels]

theorem length_frameIndices (ivs : List (Rat × Rat)) (labs : List Label) (fs : Rat) :
    (frameIndices ivs labs fs).length = numSamples ivs fs := by
  simp [frameIndices, length_indexLabels, length_frameLabels]

theorem numSamples_eq_of_listMax_eq {ri ei : List (Rat × Rat)} (h : listMax (flat ri) = listMax (flat ei))
    (fs : Rat) : numSamples ri fs = numSamples ei fs := by
  simp [numSamples, h]

/-! ### the valid task-level input -/

/-- A valid input of the six frame-clustering metrics: the documented convention of `validate_structure`,
    and both annotations are sampled into equally many frames (`int(floor(max / frame_size))` agree) — the
    weakest condition under which the frame-by-frame comparisons of the metric bodies are defined.
    `frameSize` is the model domain (`frame_size > 0`; the protocol handler refuses anything else, the real code
    raises `OverflowError` at `frame_size = 0`); no proof below needs it. -/
structure ValidAnnot (A : Annot) (fs : Rat) : Prop where
  frameSize : 0 < fs
  convention : ValidStructure A.refIvs A.refLabs.length A.estIvs A.estLabs.length
  sameFrames : numSamples A.refIvs fs = numSamples A.estIvs fs

/-! ### the common prologue -/

theorem prologue_errors (A : Annot) (fs : Rat) : OkOrVE (prologue A fs) := by
  unfold prologue
  refine okOrVE_bind (validateStructure_errors _ _ _ _) fun _ _ => ?_
  split
  · exact okOrVE_ok _
  · exact okOrVE_ok _

theorem prologue_of_validated {A : Annot} {fs : Rat}
    (h : validateStructure A.refIvs A.refLabs.length A.estIvs A.estLabs.length = .ok ()) :
    prologue A fs = .ok (if A.refIvs = [] ∨ A.estIvs = [] then none
      else some (frameIndices A.refIvs A.refLabs fs, frameIndices A.estIvs A.estLabs fs)) := by
  unfold prologue
  rw [h]
  simp only [bind, Except.bind, List.isEmpty_iff]
  split <;> rfl

theorem prologue_of_not_validated {A : Annot} {fs : Rat}
    (h : validateStructure A.refIvs A.refLabs.length A.estIvs A.estLabs.length ≠ .ok ()) :
    prologue A fs = .error .valueError := by
  unfold prologue
  rcases validateStructure_errors A.refIvs A.refLabs.length A.estIvs A.estLabs.length with ⟨v, hv⟩ | he
  · exact absurd hv h
  · rw [he]; rfl

/-- the three things the prologue can do -/
theorem prologue_cases (A : Annot) (fs : Rat) :
    prologue A fs = .error .valueError ∨
    (prologue A fs = .ok none ∧ (A.refIvs = [] ∨ A.estIvs = [])) ∨
    (prologue A fs = .ok (some (frameIndices A.refIvs A.refLabs fs, frameIndices A.estIvs A.estLabs fs)) ∧
      validateStructure A.refIvs A.refLabs.length A.estIvs A.estLabs.length = .ok () ∧
      A.refIvs ≠ [] ∧ A.estIvs ≠ []) := by
  by_cases h : validateStructure A.refIvs A.refLabs.length A.estIvs A.estLabs.length = .ok ()
  · by_cases he : A.refIvs = [] ∨ A.estIvs = []
    · right; left
      rw [prologue_of_validated h, if_pos he]; exact ⟨rfl, he⟩
    · right; right
      rw [prologue_of_validated h, if_neg he]
      exact ⟨rfl, h, fun c => he (Or.inl c), fun c => he (Or.inr c)⟩
  · exact Or.inl (prologue_of_not_validated h)

theorem prologue_of_valid {A : Annot} {fs : Rat} (hv : ValidAnnot A fs) :
    (prologue A fs = .ok none ∧ (A.refIvs = [] ∨ A.estIvs = [])) ∨
    (prologue A fs = .ok (some (frameIndices A.refIvs A.refLabs fs, frameIndices A.estIvs A.estLabs fs)) ∧
      (frameIndices A.refIvs A.refLabs fs).length = (frameIndices A.estIvs A.estLabs fs).length) := by
  have h := (validateStructure_ok_iff _ _ _ _).2 hv.convention
  rcases prologue_cases A fs with he | hn | hs
  · rw [prologue_of_validated h] at he; split at he <;> cases he
  · exact Or.inl hn
  · exact Or.inr ⟨hs.1, by rw [length_frameIndices, length_frameIndices, hv.sameFrames]⟩

/-! ### the bodies after sampling -/

theorem pairwiseIdx_total {yr ye : List Nat} (h : yr.length = ye.length) (beta : Rat) :
    ∃ v, pairwiseIdx yr ye beta = .ok v := by
  unfold pairwiseIdx
  rw [if_neg (not_not.2 h)]
  exact ⟨_, rfl⟩

theorem pairwiseIdx_mismatch {yr ye : List Nat} (h : yr.length ≠ ye.length) (beta : Rat) :
    pairwiseIdx yr ye beta = .error .valueError := by
  unfold pairwiseIdx
  rw [if_pos h]

theorem pairwiseIdx_errors (yr ye : List Nat) (beta : Rat) : OkOrVE (pairwiseIdx yr ye beta) := by
  by_cases h : yr.length = ye.length
  · exact Or.inl (pairwiseIdx_total h beta)
  · exact Or.inr (pairwiseIdx_mismatch h beta)

theorem randIdx_total {yr ye : List Nat} (h : yr.length = ye.length) : ∃ v, randIdx yr ye = .ok v := by
  unfold randIdx
  rw [if_neg (not_not.2 h)]
  exact ⟨_, rfl⟩

theorem randIdx_mismatch {yr ye : List Nat} (h : yr.length ≠ ye.length) :
    randIdx yr ye = .error .valueError := by
  unfold randIdx
  rw [if_pos h]

theorem randIdx_errors (yr ye : List Nat) : OkOrVE (randIdx yr ye) := by
  by_cases h : yr.length = ye.length
  · exact Or.inl (randIdx_total h)
  · exact Or.inr (randIdx_mismatch h)

/-- with unequal lengths `_adjusted_rand_index` returns 1.0 in its special cases (the class counts are compared
    before the contingency table is built) and raises `ValueError` otherwise -/
theorem adjustedRandIdx_mismatch {yr ye : List Nat} (h : yr.length ≠ ye.length) :
    adjustedRandIdx yr ye = .ok 1 ∨ adjustedRandIdx yr ye = .error .valueError := by
  unfold adjustedRandIdx
  simp only
  split
  · exact Or.inl rfl
  · exact Or.inr rfl

theorem adjustedRandIdx_errors (yr ye : List Nat) : OkOrVE (adjustedRandIdx yr ye) := by
  by_cases h : yr.length = ye.length
  · exact Or.inl (adjustedRandIdx_ok h)
  · rcases adjustedRandIdx_mismatch h with h1 | h1
    · exact Or.inl ⟨_, h1⟩
    · exact Or.inr h1

theorem checkLen_ok {yr ye : List Nat} (h : yr.length = ye.length) : checkLen yr ye = .ok () := by
  unfold checkLen
  rw [if_neg (not_not.2 h)]

theorem checkLen_mismatch {yr ye : List Nat} (h : yr.length ≠ ye.length) :
    checkLen yr ye = .error .valueError := by
  unfold checkLen
  rw [if_pos h]

theorem checkLen_errors (yr ye : List Nat) : OkOrVE (checkLen yr ye) := by
  by_cases h : yr.length = ye.length
  · exact Or.inl ⟨(), checkLen_ok h⟩
  · exact Or.inr (checkLen_mismatch h)

/-! ### the six public functions, rewritten on each outcome of the prologue -/

section Public
variable {A : Annot} {fs : Rat}

theorem pairwise_of_error {e : PyErr} (h : prologue A fs = .error e) (beta : Rat) :
    pairwise A fs beta = .error e := by
  unfold pairwise; rw [h]; rfl

theorem pairwise_of_none (h : prologue A fs = .ok none) (beta : Rat) : pairwise A fs beta = .ok zeros3 := by
  unfold pairwise; rw [h]; rfl

theorem pairwise_of_some {yr ye : List Nat} (h : prologue A fs = .ok (some (yr, ye))) (beta : Rat) :
    pairwise A fs beta = (pairwiseIdx yr ye beta).map triple := by
  unfold pairwise; rw [h]
  simp only [bind, Except.bind]
  cases pairwiseIdx yr ye beta <;> rfl

theorem randIndex_of_error {e : PyErr} (h : prologue A fs = .error e) : randIndex A fs = .error e := by
  unfold randIndex; rw [h]; rfl

theorem randIndex_of_none (h : prologue A fs = .ok none) : randIndex A fs = .ok (.rat 0) := by
  unfold randIndex; rw [h]; rfl

theorem randIndex_of_some {yr ye : List Nat} (h : prologue A fs = .ok (some (yr, ye))) :
    randIndex A fs = (randIdx yr ye).map Num.toVal := by
  unfold randIndex; rw [h]
  simp only [bind, Except.bind]
  cases randIdx yr ye <;> rfl

theorem ari_of_error {e : PyErr} (h : prologue A fs = .error e) : ari A fs = .error e := by
  unfold ari; rw [h]; rfl

theorem ari_of_none (h : prologue A fs = .ok none) : ari A fs = .ok (.rat 0) := by
  unfold ari; rw [h]; rfl

theorem ari_of_some {yr ye : List Nat} (h : prologue A fs = .ok (some (yr, ye))) :
    ari A fs = (adjustedRandIdx yr ye).map Val.rat := by
  unfold ari; rw [h]
  simp only [bind, Except.bind]
  cases adjustedRandIdx yr ye <;> rfl

theorem mutualInformation_of_error {e : PyErr} (h : prologue A fs = .error e) :
    mutualInformation A fs = .error e := by
  unfold mutualInformation; rw [h]; rfl

theorem mutualInformation_of_none (h : prologue A fs = .ok none) : mutualInformation A fs = .ok zeros3 := by
  unfold mutualInformation; rw [h]; rfl

theorem mutualInformation_of_some_ok {yr ye : List Nat} (h : prologue A fs = .ok (some (yr, ye)))
    (hl : yr.length = ye.length) : ∃ v, mutualInformation A fs = .ok v := by
  unfold mutualInformation; rw [h]
  simp only [bind, Except.bind, checkLen_ok hl]
  exact ⟨_, rfl⟩

theorem mutualInformation_of_some_mismatch {yr ye : List Nat} (h : prologue A fs = .ok (some (yr, ye)))
    (hl : yr.length ≠ ye.length) : mutualInformation A fs = .error .valueError := by
  unfold mutualInformation; rw [h]
  simp only [bind, Except.bind, checkLen_mismatch hl]

theorem nce_of_error {e : PyErr} (h : prologue A fs = .error e) (beta : Rat) (marginal : Bool) :
    nce A fs beta marginal = .error e := by
  unfold nce; rw [h]; rfl

theorem nce_of_none (h : prologue A fs = .ok none) (beta : Rat) (marginal : Bool) :
    nce A fs beta marginal = .ok zeros3 := by
  unfold nce; rw [h]; rfl

theorem nce_of_some_ok {yr ye : List Nat} (h : prologue A fs = .ok (some (yr, ye)))
    (hl : yr.length = ye.length) (beta : Rat) (marginal : Bool) :
    nce A fs beta marginal = .ok (tripleF (nceIdx yr ye (ratToFloat beta) marginal)) := by
  unfold nce; rw [h]
  simp only [bind, Except.bind, checkLen_ok hl]
  rfl

theorem nce_of_some_mismatch {yr ye : List Nat} (h : prologue A fs = .ok (some (yr, ye)))
    (hl : yr.length ≠ ye.length) (beta : Rat) (marginal : Bool) :
    nce A fs beta marginal = .error .valueError := by
  unfold nce; rw [h]
  simp only [bind, Except.bind, checkLen_mismatch hl]

end Public

/-! ### validated non-empty input: the prologue samples -/

theorem prologue_some_of_validated {A : Annot} {fs : Rat}
    (hc : validateStructure A.refIvs A.refLabs.length A.estIvs A.estLabs.length = .ok ())
    (hr : A.refIvs ≠ []) (he : A.estIvs ≠ []) :
    prologue A fs = .ok (some (frameIndices A.refIvs A.refLabs fs, frameIndices A.estIvs A.estLabs fs)) := by
  rw [prologue_of_validated hc, if_neg (by simp [hr, he])]

theorem prologue_none_of_validated {A : Annot} {fs : Rat}
    (hc : validateStructure A.refIvs A.refLabs.length A.estIvs A.estLabs.length = .ok ())
    (he : A.refIvs = [] ∨ A.estIvs = []) : prologue A fs = .ok none := by
  rw [prologue_of_validated hc, if_pos he]

theorem frameIndices_length_eq {A : Annot} {fs : Rat} (hn : numSamples A.refIvs fs = numSamples A.estIvs fs) :
    (frameIndices A.refIvs A.refLabs fs).length = (frameIndices A.estIvs A.estLabs fs).length := by
  rw [length_frameIndices, length_frameIndices]; exact hn

theorem frameIndices_length_ne {A : Annot} {fs : Rat} (hn : numSamples A.refIvs fs ≠ numSamples A.estIvs fs) :
    (frameIndices A.refIvs A.refLabs fs).length ≠ (frameIndices A.estIvs A.estLabs fs).length := by
  rw [length_frameIndices, length_frameIndices]; exact hn

end Segment
end Mir
