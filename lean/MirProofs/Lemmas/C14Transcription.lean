import MirProofs.Lemmas.Transcription
import MirProofs.Lemmas.HopcroftKarpGraph

/-!
  Helper lemmas for C14 (transcription part): which exception classes can come out of the model functions of
  `mir_eval.transcription` / `mir_eval.transcription_velocity`, and on which inputs they return a value.
-/

namespace Mir.Transcription

/-! ### "a value or a `ValueError`" -/

/-- the result is a value or a `ValueError` — no other exception class -/
def OkVE {α : Type} (r : Py α) : Prop := (∃ v, r = .ok v) ∨ r = .error .valueError

theorem okVE_ok {α : Type} (a : α) : OkVE (.ok a : Py α) := Or.inl ⟨a, rfl⟩
theorem okVE_ve {α : Type} : OkVE (.error .valueError : Py α) := Or.inr rfl

theorem okVE_bind {α β : Type} {r : Py α} {f : α → Py β} (hr : OkVE r) (hf : ∀ a, r = .ok a → OkVE (f a)) :
    OkVE (r >>= f) := by
  rcases hr with ⟨a, ha⟩ | he
  · rw [ha]; exact hf a ha
  · rw [he]; exact Or.inr rfl

/-- a `ValueError` of the first statement of a `do` block is the result of the block -/
theorem bind_ve {α β : Type} {r : Py α} (f : α → Py β) (h : r = .error .valueError) :
    (r >>= f) = .error .valueError := by
  rw [h]; rfl

/-- a validated function: `ok` exactly on the inputs the validator accepts, `ValueError` otherwise -/
theorem okVE_of_validator {α : Type} {v : Py Unit} {f : Py α} (hv : OkVE v)
    (hok : v = .ok () → ∃ a, f = .ok a) (herr : v = .error .valueError → f = .error .valueError) : OkVE f := by
  rcases hv with ⟨⟨⟩, h⟩ | h
  · exact Or.inl (hok h)
  · exact Or.inr (herr h)

/-! ### validators -/

instance (iv : List Ival) : Decidable (ValidI iv) := by unfold ValidI; infer_instance

theorem validateIntervals1_okVE (iv : List Ival) : OkVE (validateIntervals1 iv) := by
  unfold validateIntervals1
  split
  · exact okVE_ve
  · split
    · exact okVE_ve
    · exact okVE_ok ()

theorem validateIntervals1_of_valid {iv : List Ival} (h : ValidI iv) : validateIntervals1 iv = .ok () := by
  have h1 : iv.any (fun x => decide (x.1 < 0) || decide (x.2 < 0)) = false := by
    rw [List.any_eq_false]
    intro x hx
    obtain ⟨a, b⟩ := h x hx
    simp only [Bool.or_eq_true, decide_eq_true_eq, not_or, not_lt]
    exact ⟨a, by linarith⟩
  have h2 : iv.any (fun x => decide (x.2 ≤ x.1)) = false := by
    rw [List.any_eq_false]
    intro x hx
    obtain ⟨_, b⟩ := h x hx
    simp only [decide_eq_true_eq, not_le]
    exact b
  unfold validateIntervals1
  simp only [h1, h2, Bool.false_eq_true, if_false]

theorem validateIntervals1_ok_iff (iv : List Ival) : validateIntervals1 iv = .ok () ↔ ValidI iv :=
  ⟨validateIntervals1_ok, validateIntervals1_of_valid⟩

theorem validateIntervals1_ve_of_invalid {iv : List Ival} (h : ¬ ValidI iv) :
    validateIntervals1 iv = .error .valueError := by
  rcases validateIntervals1_okVE iv with ⟨⟨⟩, hv⟩ | hv
  · exact absurd (validateIntervals1_ok hv) h
  · exact hv

theorem validateIntervals_okVE (a b : List Ival) : OkVE (validateIntervals a b) := by
  unfold validateIntervals
  exact okVE_bind (validateIntervals1_okVE a) fun _ _ => validateIntervals1_okVE b

theorem validateIntervals_of_valid {a b : List Ival} (ha : ValidI a) (hb : ValidI b) :
    validateIntervals a b = .ok () := by
  unfold validateIntervals
  rw [validateIntervals1_of_valid ha]
  exact validateIntervals1_of_valid hb

theorem raiseIf_okVE (c : Bool) : OkVE (raiseIf c) := by
  cases c
  · exact okVE_ok ()
  · exact okVE_ve

theorem raiseIf_false : raiseIf false = .ok () := rfl

theorem validate_okVE (refI : List Ival) (refP : List (Option Rat)) (estI : List Ival) (estP : List (Option Rat)) :
    OkVE (validate refI refP estI estP) := by
  unfold validate
  exact okVE_bind (validateIntervals_okVE _ _) fun _ _ =>
    okVE_bind (raiseIf_okVE _) fun _ _ => okVE_bind (raiseIf_okVE _) fun _ _ =>
      okVE_bind (raiseIf_okVE _) fun _ _ => raiseIf_okVE _

/-- the documented convention for a pair of note annotations (a pitch is `some m` iff its Hz value is positive) -/
structure ValidNotes (refI : List Ival) (refP : List (Option Rat)) (estI : List Ival) (estP : List (Option Rat)) :
    Prop where
  refIntervals : ValidI refI
  estIntervals : ValidI estI
  refLength : refI.length = refP.length
  estLength : estI.length = estP.length
  refPositive : ∀ x ∈ refP, x.isSome = true
  estPositive : ∀ x ∈ estP, x.isSome = true

theorem any_isNone_false {l : List (Option Rat)} (h : ∀ x ∈ l, x.isSome = true) : l.any Option.isNone = false := by
  rw [List.any_eq_false]
  intro x hx
  have := h x hx
  cases x with
  | none => cases this
  | some y => simp

theorem validate_of_valid {refI estI : List Ival} {refP estP : List (Option Rat)}
    (h : ValidNotes refI refP estI estP) : validate refI refP estI estP = .ok () := by
  have e1 : (refI.length != refP.length) = false := by simp [h.refLength]
  have e2 : (estI.length != estP.length) = false := by simp [h.estLength]
  unfold validate
  rw [validateIntervals_of_valid h.refIntervals h.estIntervals, e1, e2, any_isNone_false h.refPositive,
    any_isNone_false h.estPositive]
  rfl

theorem validate_valid {refI estI : List Ival} {refP estP : List (Option Rat)}
    (h : validate refI refP estI estP = .ok ()) : ValidNotes refI refP estI estP := by
  unfold validate at h
  cases h0 : validateIntervals refI estI with
  | error e => rw [h0] at h; cases h
  | ok u0 =>
    cases h1 : raiseIf (refI.length != refP.length) with
    | error e => simp only [h0, h1, bind, Except.bind] at h; cases h
    | ok u1 =>
      cases h2 : raiseIf (estI.length != estP.length) with
      | error e => simp only [h0, h1, h2, bind, Except.bind] at h; cases h
      | ok u2 =>
        cases h3 : raiseIf (refP.any Option.isNone) with
        | error e => simp only [h0, h1, h2, h3, bind, Except.bind] at h; cases h
        | ok u3 =>
          simp only [h0, h1, h2, h3, bind, Except.bind] at h
          have a1 := raiseIf_ok h1
          have a2 := raiseIf_ok h2
          have a3 := raiseIf_ok h3
          have a4 := raiseIf_ok h
          simp only [bne_eq_false_iff_eq] at a1 a2
          rw [List.any_eq_false] at a3 a4
          refine ⟨(validateIntervals_ok h0).1, (validateIntervals_ok h0).2, a1, a2, ?_, ?_⟩
          · intro x hx; have := a3 x hx; cases x <;> simp_all
          · intro x hx; have := a4 x hx; cases x <;> simp_all

theorem validate_ok_iff (refI : List Ival) (refP : List (Option Rat)) (estI : List Ival) (estP : List (Option Rat)) :
    validate refI refP estI estP = .ok () ↔ ValidNotes refI refP estI estP :=
  ⟨validate_valid, validate_of_valid⟩

/-- notes whose pitches are given as MIDI numbers (so the Hz values are positive by construction) -/
structure ValidNotesR (refI : List Ival) (refP : List Rat) (estI : List Ival) (estP : List Rat) : Prop where
  refIntervals : ValidI refI
  estIntervals : ValidI estI
  refLength : refI.length = refP.length
  estLength : estI.length = estP.length

theorem validNotes_some_iff (refI : List Ival) (refP : List Rat) (estI : List Ival) (estP : List Rat) :
    ValidNotes refI (refP.map some) estI (estP.map some) ↔ ValidNotesR refI refP estI estP := by
  constructor
  · rintro ⟨a, b, c, d, _, _⟩
    exact ⟨a, b, by simpa using c, by simpa using d⟩
  · rintro ⟨a, b, c, d⟩
    refine ⟨a, b, by simpa using c, by simpa using d, ?_, ?_⟩ <;>
    · intro x hx
      obtain ⟨y, _, rfl⟩ := List.mem_map.1 hx
      rfl

theorem validateR_ok_iff (refI : List Ival) (refP : List Rat) (estI : List Ival) (estP : List Rat) :
    validate refI (refP.map some) estI (estP.map some) = .ok () ↔ ValidNotesR refI refP estI estP :=
  (validate_ok_iff ..).trans (validNotes_some_iff ..)

/-! ### the matching functions -/

theorem pyMatching_total (es : List Edge) : ∃ m, pyMatching es = .ok m := ⟨_, HK.pyMatching_eq es⟩

theorem durationsCheck_okVE (p : Params) (refI : List Ival) : OkVE (durationsCheck p refI) := by
  unfold durationsCheck
  split
  · exact validateIntervals1_okVE refI
  · exact okVE_ok ()

theorem durationsCheck_of_valid {p : Params} {refI : List Ival} (h : p.offsetRatio.isSome = true → ValidI refI) :
    durationsCheck p refI = .ok () := by
  unfold durationsCheck
  split
  · rename_i hs; exact validateIntervals1_of_valid (h hs)
  · rfl

theorem durationsCheck_ok {p : Params} {refI : List Ival} (h : durationsCheck p refI = .ok ()) :
    p.offsetRatio.isSome = true → ValidI refI := by
  intro hs
  unfold durationsCheck at h
  rw [if_pos hs] at h
  exact validateIntervals1_ok h

/-- all indices of a pairing are inside the two lists -/
def InRange (nRef nEst : Nat) (m : List Edge) : Prop := ∀ e ∈ m, e.1 < nRef ∧ e.2 < nEst

theorem inRange_of_valid {α β : Type} {feas : α → β → Bool} {ref : List α} {est : List β} {M : List Edge}
    (h : ValidMatching (hitGraph feas ref est) M) : InRange ref.length est.length M :=
  fun e he => ⟨hitGraph_fst_lt e (h.1 e he), hitGraph_snd_lt e (h.1 e he)⟩

theorem InRange.mono {a b a' b' : Nat} {m : List Edge} (h : InRange a b m) (ha : a ≤ a') (hb : b ≤ b') :
    InRange a' b' m := fun e he => ⟨lt_of_lt_of_le (h e he).1 ha, lt_of_lt_of_le (h e he).2 hb⟩

theorem InRange.sublist {a b : Nat} {m m' : List Edge} (h : InRange a b m) (hs : m'.Sublist m) : InRange a b m' :=
  fun e he => h e (hs.subset he)

theorem matchNotes_inRange {refI estI : List Ival} {refP estP : List Rat} {p : Params} {M : List Edge}
    (h : matchNotes refI refP estI estP p = .ok M) :
    InRange (min refI.length refP.length) (min estI.length estP.length) M := by
  have := inRange_of_valid (matchNotes_spec h).1
  simpa only [List.length_zip] using this

/-! ### `average_overlap_ratio` -/

theorem ratiosOf_of_inRange {refI estI : List Ival} :
    ∀ m : List Edge, InRange refI.length estI.length m → ∃ rs, ratiosOf refI estI m = .ok rs
  | [], _ => ⟨[], rfl⟩
  | (i, j) :: rest, h => by
      have hij := h (i, j) (by simp)
      obtain ⟨rs, hrs⟩ := ratiosOf_of_inRange rest fun e he => h e (by simp [he])
      have hr : refI[i]? = some refI[i] := List.getElem?_eq_getElem hij.1
      have he : estI[j]? = some estI[j] := List.getElem?_eq_getElem hij.2
      refine ⟨overlapRatio refI[i] estI[j] :: rs, ?_⟩
      simp only [ratiosOf, hr, he, hrs, bind, Except.bind, pure, Except.pure]

/-- the only exception `ratiosOf` can raise is `IndexError`, and exactly when an index is out of range -/
theorem ratiosOf_cases {refI estI : List Ival} :
    ∀ m : List Edge, ((∃ rs, ratiosOf refI estI m = .ok rs) ∧ InRange refI.length estI.length m) ∨
      (ratiosOf refI estI m = .error .indexError ∧ ¬ InRange refI.length estI.length m)
  | [] => Or.inl ⟨⟨[], rfl⟩, fun _ he => by cases he⟩
  | (i, j) :: rest => by
      by_cases hij : i < refI.length ∧ j < estI.length
      · have hr : refI[i]? = some refI[i] := List.getElem?_eq_getElem hij.1
        have he : estI[j]? = some estI[j] := List.getElem?_eq_getElem hij.2
        rcases ratiosOf_cases (refI := refI) (estI := estI) rest with ⟨⟨rs, hrs⟩, hin⟩ | ⟨herr, hnr⟩
        · left
          refine ⟨⟨overlapRatio refI[i] estI[j] :: rs, by
            simp only [ratiosOf, hr, he, hrs, bind, Except.bind, pure, Except.pure]⟩, ?_⟩
          intro e he'
          rcases List.mem_cons.1 he' with rfl | h'
          · exact hij
          · exact hin e h'
        · right
          refine ⟨by simp only [ratiosOf, hr, he, herr, bind, Except.bind], ?_⟩
          exact fun h => hnr fun e he' => h e (by simp [he'])
      · right
        refine ⟨?_, fun h => hij (h (i, j) (by simp))⟩
        by_cases hi : i < refI.length
        · have hj : estI[j]? = none := by
            rw [List.getElem?_eq_none_iff]; exact not_lt.1 fun hj => hij ⟨hi, hj⟩
          have hr : refI[i]? = some refI[i] := List.getElem?_eq_getElem hi
          simp only [ratiosOf, hr, hj]
        · have hr : refI[i]? = none := by rw [List.getElem?_eq_none_iff]; exact not_lt.1 hi
          simp only [ratiosOf, hr]

theorem averageOverlapRatio_of_inRange {refI estI : List Ival} {m : List Edge}
    (h : InRange refI.length estI.length m) : ∃ v, averageOverlapRatio refI estI m = .ok v := by
  obtain ⟨rs, hrs⟩ := ratiosOf_of_inRange m h
  unfold averageOverlapRatio
  rw [hrs]
  exact ⟨_, rfl⟩

theorem averageOverlapRatio_cases (refI estI : List Ival) (m : List Edge) :
    ((∃ v, averageOverlapRatio refI estI m = .ok v) ∧ InRange refI.length estI.length m) ∨
      (averageOverlapRatio refI estI m = .error .indexError ∧ ¬ InRange refI.length estI.length m) := by
  rcases ratiosOf_cases (refI := refI) (estI := estI) m with ⟨⟨rs, hrs⟩, hin⟩ | ⟨herr, hnr⟩
  · left; refine ⟨?_, hin⟩; unfold averageOverlapRatio; rw [hrs]; exact ⟨_, rfl⟩
  · right; refine ⟨?_, hnr⟩; unfold averageOverlapRatio; rw [herr]

/-! ### velocity helpers -/

theorem lookupAll_of_lt {vs : List Rat} : ∀ is : List Nat, (∀ i ∈ is, i < vs.length) → ∃ l, lookupAll vs is = .ok l
  | [], _ => ⟨[], rfl⟩
  | i :: rest, h => by
      obtain ⟨l, hl⟩ := lookupAll_of_lt rest fun k hk => h k (by simp [hk])
      have hlt : i < vs.length := h i (by simp)
      have hi : vs[i]? = some vs[i] := List.getElem?_eq_getElem hlt
      exact ⟨vs[i] :: l, by simp only [lookupAll, hi, hl, bind, Except.bind, pure, Except.pure]⟩

theorem lookupAll_cases {vs : List Rat} :
    ∀ is : List Nat, (∃ l, lookupAll vs is = .ok l) ∨ (lookupAll vs is = .error .indexError ∧ ∃ i ∈ is, vs.length ≤ i)
  | [] => Or.inl ⟨[], rfl⟩
  | i :: rest => by
      by_cases hi : i < vs.length
      · have hv : vs[i]? = some vs[i] := List.getElem?_eq_getElem hi
        rcases lookupAll_cases (vs := vs) rest with ⟨l, hl⟩ | ⟨herr, k, hk, hle⟩
        · left
          exact ⟨vs[i] :: l, by simp only [lookupAll, hv, hl, bind, Except.bind, pure, Except.pure]⟩
        · right
          exact ⟨by simp only [lookupAll, hv, herr, bind, Except.bind], k, by simp [hk], hle⟩
      · right
        have hv : vs[i]? = none := by rw [List.getElem?_eq_none_iff]; exact not_lt.1 hi
        exact ⟨by simp only [lookupAll, hv], i, by simp, not_lt.1 hi⟩

theorem normVelocities_nil : normVelocities [] = .error .valueError := rfl

theorem normVelocities_cons (v : Rat) (vs : List Rat) :
    ∃ l, normVelocities (v :: vs) = .ok l ∧ l.length = (v :: vs).length := by
  unfold normVelocities
  simp only [minList, maxList]
  exact ⟨_, rfl, by simp⟩

theorem normVelocities_of_ne_nil {refV : List Rat} (h : refV ≠ []) :
    ∃ l, normVelocities refV = .ok l ∧ l.length = refV.length := by
  cases refV with
  | nil => exact absurd rfl h
  | cons v vs => exact normVelocities_cons v vs

theorem normVelocities_okVE (refV : List Rat) : OkVE (normVelocities refV) := by
  cases refV with
  | nil => exact okVE_ve
  | cons v vs => obtain ⟨l, hl, _⟩ := normVelocities_cons v vs; exact Or.inl ⟨l, hl⟩

theorem normVelocities_length {refV l : List Rat} (h : normVelocities refV = .ok l) : l.length = refV.length := by
  cases refV with
  | nil => cases h
  | cons v vs =>
    obtain ⟨l', hl', hlen⟩ := normVelocities_cons v vs
    rw [hl'] at h
    cases h
    exact hlen

theorem velKeep_of_inRange {refVn estV : List Rat} {velTol : Rat} {m : List Edge}
    (h : InRange refVn.length estV.length m) : ∃ m', velKeep refVn estV velTol m = .ok m' ∧ m'.Sublist m := by
  obtain ⟨rv, hrv⟩ := lookupAll_of_lt (vs := refVn) (m.map Prod.fst) (by
    intro i hi; obtain ⟨e, he, rfl⟩ := List.mem_map.1 hi; exact (h e he).1)
  obtain ⟨ev, hev⟩ := lookupAll_of_lt (vs := estV) (m.map Prod.snd) (by
    intro i hi; obtain ⟨e, he, rfl⟩ := List.mem_map.1 hi; exact (h e he).2)
  refine ⟨velFilter (lstsqLine ev rv).1 (lstsqLine ev rv).2 velTol m rv ev, ?_,
    velFilter_sublist (lstsqLine ev rv).1 (lstsqLine ev rv).2 velTol m rv ev⟩
  simp only [velKeep, hrv, hev, bind, Except.bind, pure, Except.pure]

/-- `velKeep` raises nothing but `IndexError`, and only when a matched index is outside a velocity array -/
theorem velKeep_cases (refVn estV : List Rat) (velTol : Rat) (m : List Edge) :
    (∃ m', velKeep refVn estV velTol m = .ok m') ∨
      (velKeep refVn estV velTol m = .error .indexError ∧ ¬ InRange refVn.length estV.length m) := by
  rcases lookupAll_cases (vs := refVn) (m.map Prod.fst) with ⟨rv, hrv⟩ | ⟨herr, k, hk, hle⟩
  · rcases lookupAll_cases (vs := estV) (m.map Prod.snd) with ⟨ev, hev⟩ | ⟨herr, k, hk, hle⟩
    · left
      exact ⟨velFilter (lstsqLine ev rv).1 (lstsqLine ev rv).2 velTol m rv ev, by
        simp only [velKeep, hrv, hev, bind, Except.bind, pure, Except.pure]⟩
    · right
      refine ⟨by simp only [velKeep, hrv, herr, bind, Except.bind], fun h => ?_⟩
      obtain ⟨e, he, rfl⟩ := List.mem_map.1 hk
      exact absurd (h e he).2 (not_lt.2 hle)
  · right
    refine ⟨by simp only [velKeep, herr, bind, Except.bind], fun h => ?_⟩
    obtain ⟨e, he, rfl⟩ := List.mem_map.1 hk
    exact absurd (h e he).1 (not_lt.2 hle)

/-! ### `transcription_velocity.validate` -/

theorem bind_ok_unit {r : Py Unit} {f : Unit → Py Unit} (h : (r >>= f) = .ok ()) : r = .ok () ∧ f () = .ok () := by
  cases hr : r with
  | error e => rw [hr] at h; cases h
  | ok u => rw [hr] at h; exact ⟨rfl, h⟩

theorem velValidate_okVE (refI : List Ival) (refP : List (Option Rat)) (refV : List Rat) (estI : List Ival)
    (estP : List (Option Rat)) (estV : List Rat) : OkVE (velValidate refI refP refV estI estP estV) := by
  unfold velValidate
  exact okVE_bind (validate_okVE _ _ _ _) fun _ _ =>
    okVE_bind (raiseIf_okVE _) fun _ _ => okVE_bind (raiseIf_okVE _) fun _ _ =>
      okVE_bind (raiseIf_okVE _) fun _ _ => raiseIf_okVE _

/-- the documented convention of `transcription_velocity`: valid notes, one non-negative velocity per note -/
structure ValidVelNotes (refI : List Ival) (refP : List (Option Rat)) (refV : List Rat) (estI : List Ival)
    (estP : List (Option Rat)) (estV : List Rat) : Prop where
  notes : ValidNotes refI refP estI estP
  refVLength : refV.length = refP.length
  estVLength : estV.length = estP.length
  refVNonneg : ∀ v ∈ refV, 0 ≤ v
  estVNonneg : ∀ v ∈ estV, 0 ≤ v

theorem any_neg_false {l : List Rat} (h : ∀ v ∈ l, 0 ≤ v) : l.any (fun v => decide (v < 0)) = false := by
  rw [List.any_eq_false]
  intro x hx
  simp only [decide_eq_true_eq, not_lt]
  exact h x hx

theorem velValidate_of_valid {refI estI : List Ival} {refP estP : List (Option Rat)} {refV estV : List Rat}
    (h : ValidVelNotes refI refP refV estI estP estV) : velValidate refI refP refV estI estP estV = .ok () := by
  have e1 : (refV.length != refP.length) = false := by simp [h.refVLength]
  have e2 : (estV.length != estP.length) = false := by simp [h.estVLength]
  unfold velValidate
  rw [validate_of_valid h.notes, e1, e2, any_neg_false h.refVNonneg, any_neg_false h.estVNonneg]
  rfl

theorem velValidate_valid {refI estI : List Ival} {refP estP : List (Option Rat)} {refV estV : List Rat}
    (h : velValidate refI refP refV estI estP estV = .ok ()) : ValidVelNotes refI refP refV estI estP estV := by
  unfold velValidate at h
  obtain ⟨h0, h⟩ := bind_ok_unit h
  obtain ⟨h1, h⟩ := bind_ok_unit h
  obtain ⟨h2, h⟩ := bind_ok_unit h
  obtain ⟨h3, h4⟩ := bind_ok_unit h
  have a1 := raiseIf_ok h1
  have a2 := raiseIf_ok h2
  have a3 := raiseIf_ok h3
  have a4 := raiseIf_ok h4
  simp only [bne_eq_false_iff_eq] at a1 a2
  rw [List.any_eq_false] at a3 a4
  refine ⟨validate_valid h0, a1, a2, ?_, ?_⟩
  · intro v hv; simpa using a3 v hv
  · intro v hv; simpa using a4 v hv

theorem velValidate_ok_iff (refI : List Ival) (refP : List (Option Rat)) (refV : List Rat) (estI : List Ival)
    (estP : List (Option Rat)) (estV : List Rat) :
    velValidate refI refP refV estI estP estV = .ok () ↔ ValidVelNotes refI refP refV estI estP estV :=
  ⟨velValidate_valid, velValidate_of_valid⟩

/-- the same convention with pitches given as MIDI numbers -/
structure ValidVelNotesR (refI : List Ival) (refP refV : List Rat) (estI : List Ival) (estP estV : List Rat) :
    Prop where
  notes : ValidNotesR refI refP estI estP
  refVLength : refV.length = refP.length
  estVLength : estV.length = estP.length
  refVNonneg : ∀ v ∈ refV, 0 ≤ v
  estVNonneg : ∀ v ∈ estV, 0 ≤ v

theorem velValidateR_ok_iff (refI : List Ival) (refP refV : List Rat) (estI : List Ival) (estP estV : List Rat) :
    velValidate refI (refP.map some) refV estI (estP.map some) estV = .ok () ↔
      ValidVelNotesR refI refP refV estI estP estV := by
  rw [velValidate_ok_iff]
  constructor
  · rintro ⟨a, b, c, d, e⟩
    exact ⟨(validNotes_some_iff ..).1 a, by simpa using b, by simpa using c, d, e⟩
  · rintro ⟨a, b, c, d, e⟩
    exact ⟨(validNotes_some_iff ..).2 a, by simpa using b, by simpa using c, d, e⟩

end Mir.Transcription
