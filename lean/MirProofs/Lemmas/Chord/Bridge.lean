import MirProofs.Lemmas.Chord.Many
import MirProofs.Lemmas.ChordCompare
/-!
  Bridge between the label-level encode model (C10, `Mir.Chord`) and the encoding-level comparison model
  (C11 / C09 §1, `Mir.ChordCompare`): everything `encode` returns is `Reachable`; the comparison rules applied to
  LABELS (`labelCmp`); respelling / transposition of labels and what they do to the encoding.
-/
namespace Mir.Chord
open MirGen

/-- a `(root, bitmap, bass)` triple of the encode model as a row of the comparison model -/
def toEnc (e : Encoded) : ChordCompare.Enc := ⟨e.1, e.2.1, e.2.2⟩

theorem toEnc_eq_ofTuple (e : Encoded) : toEnc e = ChordCompare.Enc.ofTuple e := rfl

theorem toEnc_noChordEncoded : toEnc Tables.noChordEncoded = ChordCompare.noChord := by decide
theorem toEnc_xChordEncoded : toEnc Tables.xChordEncoded = ChordCompare.xChord := by decide

/-- everything `chord.encode` can return — for ANY string and both flags — lies in the set over which the C11
    lattice is proved -/
theorem encode_reachable {s : Str} {r sb : Bool} {e : Encoded} (h : pyEncode s r sb = .ok e) :
    ChordCompare.Reachable (toEnc e) := by
  by_cases hN : s = Tables.noChord
  · subst hN
    have : e = Tables.noChordEncoded := by
      have h' : pyEncode Tables.noChord r sb = .ok Tables.noChordEncoded := rfl
      rw [h'] at h; exact (Except.ok.inj h).symm
    subst this
    exact Or.inl toEnc_noChordEncoded
  · by_cases hX : s = Tables.xChord
    · subst hX
      have : e = Tables.xChordEncoded := by
        have h' : pyEncode Tables.xChord r sb = .ok Tables.xChordEncoded := rfl
        rw [h'] at h; exact (Except.ok.inj h).symm
      subst this
      exact Or.inr (Or.inl toEnc_xChordEncoded)
    · obtain ⟨root, bm, bass⟩ := e
      obtain ⟨h1, h2, h3, h4, h5, h6, h7⟩ := pyEncode_range hN hX h
      exact Or.inr (Or.inr ⟨h1, h2, h3, h4, h6, h7, h5⟩)

/-- a successful encoding of anything but N / X is a regular row (root ≥ 0) -/
theorem encode_regular {s : Str} {r sb : Bool} {e : Encoded} (hN : s ≠ Tables.noChord) (hX : s ≠ Tables.xChord)
    (h : pyEncode s r sb = .ok e) : ChordCompare.Regular (toEnc e) := by
  obtain ⟨root, bm, bass⟩ := e
  obtain ⟨h1, h2, h3, h4, h5, h6, h7⟩ := pyEncode_range hN hX h
  exact ⟨h1, h2, h3, h4, h6, h7, h5⟩

/-! ### the comparison functions on labels -/

/-- `encode_many([label])[0]` as the comparison functions call it (no reduction, non-strict bass) -/
def encodeLabel (l : Label) : Py ChordCompare.Enc :=
  match pyEncode l.render false false with
  | .ok e => .ok (toEnc e)
  | .error e => .error e

/-- `mir_eval.chord.<rule>([a], [b])[0]`: both labels are encoded (reference first), then compared -/
def labelCmp (rule : ChordCompare.Rule) (a b : Label) : Py Int :=
  match encodeLabel a with
  | .error e => .error e
  | .ok ea =>
    match encodeLabel b with
    | .error e => .error e
    | .ok eb => .ok (ChordCompare.cmp rule ea eb)

theorem encodeLabel_total (l : Label) : (∃ e, encodeLabel l = .ok e) ∨ encodeLabel l = .error .invalidChord := by
  unfold encodeLabel
  rcases pyEncode_total l.render false false with ⟨e, h⟩ | h
  · rw [h]; exact Or.inl ⟨_, rfl⟩
  · rw [h]; exact Or.inr rfl

theorem encodeLabel_reachable {l : Label} {e : ChordCompare.Enc} (h : encodeLabel l = .ok e) :
    ChordCompare.Reachable e := by
  unfold encodeLabel at h
  split at h
  · rename_i e' he'
    simp at h; subst h
    exact encode_reachable he'
  · simp at h

theorem encodeLabel_N : encodeLabel .N = .ok ChordCompare.noChord := by decide
theorem encodeLabel_X : encodeLabel .X = .ok ChordCompare.xChord := by decide

theorem encodeLabel_chord_regular {L : Letter} {a : Acc} {body : Option Body} {bass : Option Degree}
    {e : ChordCompare.Enc} (h : encodeLabel (.chord L a body bass) = .ok e) : ChordCompare.Regular e := by
  unfold encodeLabel at h
  split at h
  · rename_i e' he'
    simp at h; subst h
    exact encode_regular (render_chord_ne_noChord L a body bass) (render_chord_ne_xChord L a body bass) he'
  · simp at h

/-- the X sentinel is produced by the label X only -/
theorem encodeLabel_eq_xChord_iff {l : Label} {e : ChordCompare.Enc} (h : encodeLabel l = .ok e) :
    e = ChordCompare.xChord ↔ l = .X := by
  match l with
  | .N =>
    rw [encodeLabel_N] at h
    have := Except.ok.inj h; subst this
    constructor
    · intro h'; exact absurd h' (by decide)
    · intro h'; exact absurd h' (by simp)
  | .X =>
    rw [encodeLabel_X] at h
    have := Except.ok.inj h; subst this
    simp
  | .chord L a body bass =>
    have hr := encodeLabel_chord_regular h
    constructor
    · intro h'; exact absurd h' hr.ne_xChord
    · intro h'; exact absurd h' (by simp)

theorem labelCmp_ok {rule : ChordCompare.Rule} {a b : Label} {ea eb : ChordCompare.Enc}
    (ha : encodeLabel a = .ok ea) (hb : encodeLabel b = .ok eb) :
    labelCmp rule a b = .ok (ChordCompare.cmp rule ea eb) := by
  unfold labelCmp; rw [ha, hb]

theorem labelCmp_ok_inv {rule : ChordCompare.Rule} {a b : Label} {v : Int} (h : labelCmp rule a b = .ok v) :
    ∃ ea eb, encodeLabel a = .ok ea ∧ encodeLabel b = .ok eb ∧ v = ChordCompare.cmp rule ea eb := by
  unfold labelCmp at h
  split at h
  · simp at h
  · rename_i ea ha
    split at h
    · simp at h
    · rename_i eb hb
      simp at h
      exact ⟨ea, eb, ha, hb, h.symm⟩

/-! ### respelling and transposition of labels -/

/-- pitch class of a spelled root -/
def rootPc (L : Letter) (a : Acc) : Int := (L.pc + a.offset) % 12

/-- `l'` is `l` with its root moved up `k` semitones, in ANY spelling; N and X stay what they are -/
def IsTransposeOf (k : Int) : Label → Label → Prop
  | .N, .N => True
  | .X, .X => True
  | .chord L a body bass, .chord L' a' body' bass' =>
      body' = body ∧ bass' = bass ∧ rootPc L' a' = (rootPc L a + k) % 12
  | _, _ => False

/-- same label, root spelled differently (C# ↔ Db, B# ↔ C, …) -/
def IsRespellingOf (l l' : Label) : Prop := IsTransposeOf 0 l l'

instance (k : Int) (l l' : Label) : Decidable (IsTransposeOf k l l') := by
  cases l <;> cases l' <;> simp only [IsTransposeOf] <;> infer_instance

instance (l l' : Label) : Decidable (IsRespellingOf l l') := by
  unfold IsRespellingOf; infer_instance

/-- `transposeEnc` on triples -/
def transposeEncoded (k : Int) (e : Encoded) : Encoded := (ChordCompare.transposeEnc k (toEnc e)).toTuple

theorem transposeEncoded_of_nonneg (k : Int) {e : Encoded} (h : 0 ≤ e.1) :
    transposeEncoded k e = ((e.1 + k) % 12, e.2.1, e.2.2) := by
  obtain ⟨root, bm, bass⟩ := e
  have h' : ¬ root < 0 := by simpa using h
  simp [transposeEncoded, toEnc, ChordCompare.transposeEnc, ChordCompare.Enc.toTuple, h']

theorem transposeEncoded_of_neg (k : Int) {e : Encoded} (h : e.1 < 0) : transposeEncoded k e = e := by
  obtain ⟨root, bm, bass⟩ := e
  have h' : root < 0 := h
  simp [transposeEncoded, toEnc, ChordCompare.transposeEnc, ChordCompare.Enc.toTuple, h']

theorem specEncode_chord_map (L L' : Letter) (a a' : Acc) (body : Option Body) (bass : Option Degree) (r sb : Bool)
    (k : Int) (hk : rootPc L' a' = (rootPc L a + k) % 12) :
    specEncode (.chord L' a' body bass) r sb =
      (specEncode (.chord L a body bass) r sb).map (transposeEncoded k) := by
  have hroot : 0 ≤ specRoot L a := by unfold specRoot; omega
  have hk' : specRoot L' a' = (specRoot L a + k) % 12 := hk
  simp only [specEncode]
  cases Spec.qualityBitmap (specQuality body r) with
  | none => rfl
  | some qb =>
    simp only
    by_cases hc : (threshold (specVotes qb r (specItems body r))).getD (specBass bass).toNat 0 = 0 ∧ sb = true
    · rw [if_pos hc, if_pos hc]; rfl
    · rw [if_neg hc, if_neg hc]
      simp only [Except.map]
      rw [transposeEncoded_of_nonneg k (by exact hroot), hk']

/-- transposing the root of a chord label by `k` semitones (any respelling of the new root) changes the
    encoding by `transposeEnc k`, and keeps InvalidChord outcomes -/
theorem pyEncode_transpose {k : Int} {l l' : Label} (h : IsTransposeOf k l l') (r sb : Bool) :
    pyEncode l'.render r sb = (pyEncode l.render r sb).map (transposeEncoded k) := by
  cases l with
  | N =>
    cases l' with
    | N =>
      rw [pyEncode_render]
      simp only [specEncode, Except.map]
      rw [transposeEncoded_of_neg k (by decide)]
    | X => simp [IsTransposeOf] at h
    | chord _ _ _ _ => simp [IsTransposeOf] at h
  | X =>
    cases l' with
    | N => simp [IsTransposeOf] at h
    | X =>
      rw [pyEncode_render]
      simp only [specEncode, Except.map]
      rw [transposeEncoded_of_neg k (by decide)]
    | chord _ _ _ _ => simp [IsTransposeOf] at h
  | chord L a body bass =>
    cases l' with
    | N => simp [IsTransposeOf] at h
    | X => simp [IsTransposeOf] at h
    | chord L' a' body' bass' =>
      simp only [IsTransposeOf] at h
      obtain ⟨rfl, rfl, hk⟩ := h
      rw [pyEncode_render, pyEncode_render]
      exact specEncode_chord_map L L' a a' body' bass' r sb k hk

theorem transposeEncoded_zero_of_reachable {e : Encoded} (h : ChordCompare.Reachable (toEnc e)) :
    transposeEncoded 0 e = e := by
  obtain ⟨root, bm, bass⟩ := e
  by_cases hneg : root < 0
  · exact transposeEncoded_of_neg 0 hneg
  · rw [transposeEncoded_of_nonneg 0 (by show 0 ≤ root; omega)]
    rcases h with h | h | h
    · have hr : root = -1 := congrArg ChordCompare.Enc.root h
      omega
    · have hr : root = -1 := congrArg ChordCompare.Enc.root h
      omega
    · have h1 : 0 ≤ root := h.1
      have h2 : root < 12 := h.2.1
      have : (root + 0) % 12 = root := by omega
      simp only [this]

/-- two labels that differ only in the spelling of the root (same pitch class) have the same encoding -/
theorem pyEncode_respell {l l' : Label} (h : IsRespellingOf l l') (r sb : Bool) :
    pyEncode l'.render r sb = pyEncode l.render r sb := by
  rw [pyEncode_transpose h r sb]
  cases he : pyEncode l.render r sb with
  | error e => rfl
  | ok e => simp only [Except.map]; rw [transposeEncoded_zero_of_reachable (encode_reachable he)]

theorem encodeLabel_transpose {k : Int} {l l' : Label} (h : IsTransposeOf k l l') :
    encodeLabel l' = (encodeLabel l).map (ChordCompare.transposeEnc k) := by
  unfold encodeLabel
  rw [pyEncode_transpose h false false]
  cases pyEncode l.render false false with
  | error e => rfl
  | ok e => rfl

/-- every comparison rule is invariant under joint transposition / respelling of LABELS -/
theorem labelCmp_transpose (rule : ChordCompare.Rule) {k : Int} {a a' b b' : Label}
    (ha : IsTransposeOf k a a') (hb : IsTransposeOf k b b') : labelCmp rule a' b' = labelCmp rule a b := by
  unfold labelCmp
  rw [encodeLabel_transpose ha, encodeLabel_transpose hb]
  cases hea : encodeLabel a with
  | error e => rfl
  | ok ea =>
    cases heb : encodeLabel b with
    | error e => rfl
    | ok eb =>
      simp only [Except.map]
      rw [ChordCompare.cmp_transpose rule (encodeLabel_reachable hea) (encodeLabel_reachable heb) k]

/-! ### the two models of `pitch_class_to_semitone` agree -/

theorem letterSemitone_eq_lookup (c : Char) : ChordCompare.letterSemitone c = Tables.pitchClasses.lookup [c] := by
  unfold ChordCompare.letterSemitone
  simp only [Tables.pitchClasses, List.lookup]
  repeat' split
  all_goals simp_all

theorem pcsGo_eq_accLoop (st : Option Int) (i : Nat) (cs : Str) :
    ChordCompare.pcsGo st (i + 1) cs = accLoop st cs := by
  induction cs generalizing st i with
  | nil => rfl
  | cons c cs ih =>
    unfold ChordCompare.pcsGo accLoop ChordCompare.pcsStep
    by_cases h1 : c = '#'
    · subst h1; cases st <;> simp [ih]
    · by_cases h2 : c = 'b'
      · subst h2; cases st <;> simp [ih]
      · simp [h1, h2]

theorem pitchClass_models_agree (s : Str) : ChordCompare.pitchClassToSemitone s = pitchClassToSemitone s := by
  cases s with
  | nil => rfl
  | cons c cs =>
    have h0 : ChordCompare.pcsStep (some 0) 0 c = .ok (Tables.pitchClasses.lookup [c]) := by
      simp [ChordCompare.pcsStep, letterSemitone_eq_lookup]
    unfold ChordCompare.pitchClassToSemitone pitchClassToSemitone
    simp only [ChordCompare.pcsGo, h0, pcsGo_eq_accLoop]
    cases accLoop (Tables.pitchClasses.lookup [c]) cs with
    | error e => rfl
    | ok v => cases v <;> rfl

end Mir.Chord
