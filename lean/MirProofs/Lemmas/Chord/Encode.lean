import MirProofs.Lemmas.Chord.Total
/-! `encode` on arbitrary strings: totality (only `InvalidChord`) and the range of every successful result. -/
namespace Mir.Chord
open MirGen

theorem mem_of_lookup {α β : Type} [BEq α] [LawfulBEq α] {k : α} {v : β} {l : List (α × β)}
    (h : l.lookup k = some v) : (k, v) ∈ l := by
  induction l with
  | nil => simp [List.lookup] at h
  | cons p l ih =>
    obtain ⟨a, b⟩ := p
    by_cases hk : k = a
    · subst hk; simp [List.lookup] at h; subst h; simp
    · have : (k == a) = false := by simpa using hk
      simp [List.lookup, this] at h
      exact List.mem_cons_of_mem _ (ih h)

/-! ### G-facts about the regenerated tables used by the totality / range proofs -/

theorem bitmapLength_eq : Tables.bitmapLength = 12 := by decide

theorem qualities_length : ∀ p ∈ Tables.qualities, p.2.length = 12 := by decide

theorem letter_in_pitchClasses (L : Letter) : ∃ v, Tables.pitchClasses.lookup [L.char] = some v := by
  cases L <;> exact ⟨_, rfl⟩

/-! ### primitives -/

theorem accLoop_some (v : Int) (cs : Str) :
    (∃ w, accLoop (some v) cs = .ok (some w)) ∨ accLoop (some v) cs = .error .invalidChord := by
  induction cs generalizing v with
  | nil => left; exact ⟨v, rfl⟩
  | cons c cs ih =>
    unfold accLoop
    split
    · exact ih _
    · split
      · exact ih _
      · right; rfl

theorem emod12_range (v : Int) : 0 ≤ v % 12 ∧ v % 12 < 12 :=
  ⟨Int.emod_nonneg _ (by decide), Int.emod_lt_of_pos _ (by decide)⟩

theorem pitchClass_range {root : Str} {n : Int} (h : pitchClassToSemitone root = .ok n) : 0 ≤ n ∧ n < 12 := by
  unfold pitchClassToSemitone at h
  split at h
  · simp at h; subst h; decide
  · split at h
    · simp at h
    · simp at h; subst h; exact emod12_range _
    · simp at h

theorem pitchClass_total {root : Str}
    (h : root = [] ∨ ∃ c cs v, root = c :: cs ∧ Tables.pitchClasses.lookup [c] = some v) :
    (∃ n, pitchClassToSemitone root = .ok n) ∨ pitchClassToSemitone root = .error .invalidChord := by
  rcases h with rfl | ⟨c, cs, v, rfl, hv⟩
  · left; exact ⟨_, rfl⟩
  · simp only [pitchClassToSemitone, hv]
    rcases accLoop_some v cs with ⟨w, hw⟩ | he
    · simp only [hw]; left; exact ⟨_, rfl⟩
    · simp only [he]; right; trivial

theorem scaleDegreeToSemitone_total (s : Str) :
    (∃ n, scaleDegreeToSemitone s = .ok n) ∨ scaleDegreeToSemitone s = .error .invalidChord := by
  unfold scaleDegreeToSemitone
  split
  · left; exact ⟨_, rfl⟩
  · right; rfl

theorem scaleDegreeToBitmap_total (s : Str) (m : Bool) :
    (∃ e, scaleDegreeToBitmap s m = .ok e ∧ e.length = 12) ∨ scaleDegreeToBitmap s m = .error .invalidChord := by
  unfold scaleDegreeToBitmap
  rcases scaleDegreeToSemitone_total (degreeSign s).2 with ⟨n, hn⟩ | he
  · simp only [hn]
    split
    · left; exact ⟨_, rfl, by simp [bitmapLength_eq]⟩
    · left; exact ⟨_, rfl, by simp [bitmapLength_eq]⟩
  · simp only [he]; right; trivial

theorem qualityToBitmap_total (q : Str) :
    (∃ bm, qualityToBitmap q = .ok bm ∧ bm.length = 12) ∨ qualityToBitmap q = .error .invalidChord := by
  unfold qualityToBitmap
  split
  · rename_i bm h
    left; exact ⟨bm, rfl, qualities_length _ (mem_of_lookup h)⟩
  · right; rfl

theorem addBitmap_length {a b : List Int} (ha : a.length = 12) (hb : b.length = 12) :
    (addBitmap a b).length = 12 := by simp [addBitmap, ha, hb]

theorem addDegrees_total (m : Bool) (bm : List Int) (ds : List Str) (h : bm.length = 12) :
    (∃ bm', addDegrees m bm ds = .ok bm' ∧ bm'.length = 12) ∨ addDegrees m bm ds = .error .invalidChord := by
  induction ds generalizing bm with
  | nil => left; exact ⟨bm, rfl, h⟩
  | cons d ds ih =>
    unfold addDegrees
    rcases scaleDegreeToBitmap_total d m with ⟨e, he, hl⟩ | he
    · simp only [he]; exact ih _ (addBitmap_length h hl)
    · simp only [he]; right; trivial

theorem encodeParts_total (p : Parts) (r sb : Bool)
    (h : p.1 = [] ∨ ∃ c cs v, p.1 = c :: cs ∧ Tables.pitchClasses.lookup [c] = some v) :
    (∃ e, encodeParts p r sb = .ok e) ∨ encodeParts p r sb = .error .invalidChord := by
  unfold encodeParts
  rcases pitchClass_total h with ⟨root, h1⟩ | h1
  · simp only [h1]
    rcases scaleDegreeToSemitone_total p.2.2.2 with ⟨b, h2⟩ | h2
    · simp only [h2]
      rcases qualityToBitmap_total p.2.1 with ⟨q, h3, hq⟩ | h3
      · simp only [h3]
        rcases addDegrees_total r (q.set 0 1) p.2.2.1 (by simpa using hq) with ⟨bm, h4, _⟩ | h4
        · simp only [h4]
          split
          · right; rfl
          · left; exact ⟨_, rfl⟩
        · simp only [h4]; right; trivial
      · simp only [h3]; right; trivial
    · simp only [h2]; right; trivial
  · simp only [h1]; right; trivial

theorem threshold_bits (bm : List Int) : ∀ b ∈ threshold bm, b = 0 ∨ b = 1 := by
  intro b hb
  simp only [threshold, List.mem_map] at hb
  obtain ⟨x, _, rfl⟩ := hb
  split <;> simp

theorem mem_set_bits {bm : List Int} (h : ∀ b ∈ bm, b = 0 ∨ b = 1) (i : Nat) : ∀ b ∈ bm.set i 1, b = 0 ∨ b = 1 := by
  intro b hb
  rcases List.mem_or_eq_of_mem_set hb with h' | h'
  · exact h b h'
  · right; exact h'

theorem encodeParts_range {p : Parts} {r sb : Bool} {root bass : Int} {bm : List Int}
    (h : encodeParts p r sb = .ok (root, bm, bass)) :
    0 ≤ root ∧ root < 12 ∧ bm.length = 12 ∧ (∀ b ∈ bm, b = 0 ∨ b = 1) ∧
      bm[bass.toNat]? = some 1 ∧ 0 ≤ bass ∧ bass < 12 := by
  unfold encodeParts at h
  split at h
  · simp at h
  · rename_i root' h1
    split at h
    · simp at h
    · rename_i b h2
      split at h
      · simp at h
      · rename_i q h3
        split at h
        · simp at h
        · rename_i bm' h4
          split at h
          · simp at h
          · simp only [Except.ok.injEq, Prod.mk.injEq] at h
            obtain ⟨rfl, rfl, rfl⟩ := h
            have hr := pitchClass_range h1
            have hb := emod12_range b
            have hq : q.length = 12 := by
              rcases qualityToBitmap_total p.2.1 with ⟨q', hq', hl⟩ | he
              · rw [h3] at hq'; simp at hq'; subst hq'; exact hl
              · rw [h3] at he; simp at he
            have hbm : bm'.length = 12 := by
              rcases addDegrees_total r (q.set 0 1) p.2.2.1 (by simpa using hq) with ⟨x, hx, hl⟩ | he
              · rw [h4] at hx; simp at hx; subst hx; exact hl
              · rw [h4] at he; simp at he
            have hlen : (threshold bm').length = 12 := by simp [threshold, hbm]
            refine ⟨hr.1, hr.2, by simp [hlen], mem_set_bits (threshold_bits bm') _, ?_, hb.1, hb.2⟩
            have : (b % 12).toNat < (threshold bm').length := by omega
            simp [this]

/-! ### encode on arbitrary strings -/

theorem head_of_prefix {a : Str} {c : Char} {cs : Str} (h : a <+: c :: cs) :
    a = [] ∨ ∃ as, a = c :: as := by
  cases a with
  | nil => left; rfl
  | cons x xs =>
    right
    obtain ⟨t, ht⟩ := h
    simp at ht
    exact ⟨xs, by rw [ht.1]⟩

theorem pyEncode_total (s : Str) (r sb : Bool) :
    (∃ e, pyEncode s r sb = .ok e) ∨ pyEncode s r sb = .error .invalidChord := by
  unfold pyEncode
  by_cases hN : s = Tables.noChord
  · left; simp [hN]
  · by_cases hX : s = Tables.xChord
    · subst hX; left; exact ⟨_, rfl⟩
    · simp only [if_neg hN, if_neg hX]
      rcases pySplit_total s r with ⟨p, hp, hpre⟩ | he
      · simp only [hp]
        have hpre := hpre hN
        -- the string was accepted: it is a rendered label, possibly followed by one newline
        have hacc : reMatch s = true := by
          apply (pyValidate_ok_iff s).1
          unfold pySplit at hp
          rcases pyValidate_total s with hv | hv
          · exact hv
          · rw [hv] at hp; simp at hp
        obtain ⟨l, rfl⟩ := (reMatch_iff s).1 hacc
        match l with
        | .N => exact absurd rfl hN
        | .X => exact absurd rfl hX
        | .chord L a body bass =>
          apply encodeParts_total
          obtain ⟨v, hv⟩ := letter_in_pitchClasses L
          rcases head_of_prefix hpre with h | ⟨as, h⟩
          · left; exact h
          · right; exact ⟨_, _, v, h, hv⟩
      · simp only [he]; right; trivial

theorem pyEncode_range {s : Str} {r sb : Bool} {root bass : Int} {bm : List Int}
    (hN : s ≠ Tables.noChord) (hX : s ≠ Tables.xChord) (h : pyEncode s r sb = .ok (root, bm, bass)) :
    0 ≤ root ∧ root < 12 ∧ bm.length = 12 ∧ (∀ b ∈ bm, b = 0 ∨ b = 1) ∧
      bm[bass.toNat]? = some 1 ∧ 0 ≤ bass ∧ bass < 12 := by
  unfold pyEncode at h
  simp only [if_neg hN, if_neg hX] at h
  split at h
  · simp at h
  · exact encodeParts_range h

end Mir.Chord
