import MirProofs.Lemmas.Chord.RoundTrip
/-! The documented encoding of a chord label as a function of its grammar tree (`specEncode`), and
    `pyEncode (render l) = specEncode l`. -/
namespace Mir.Chord
open MirGen

/-! ### Layer S: the documented shorthand table (hand-transcribed as interval sets) -/

def bitmapOfIntervals (ivs : List Nat) : List Int := (List.range 12).map fun k => if k ∈ ivs then 1 else 0

/-- semitone content of every shorthand of the syntax; `none` = no encoding is defined (`aug7`, `maj11`).
    The extended shorthands (9/11/13 families) carry the bitmap of their seventh chord: their upper voices are
    only represented when extended chords are reduced. -/
def Spec.intervals : Shorthand → Option (List Nat)
  | .maj => some [0, 4, 7] | .min => some [0, 3, 7] | .aug => some [0, 4, 8] | .dim => some [0, 3, 6]
  | .sus4 => some [0, 5, 7] | .sus2 => some [0, 2, 7] | .one => some [0] | .five => some [0, 7]
  | .seven => some [0, 4, 7, 10] | .maj7 => some [0, 4, 7, 11] | .min7 => some [0, 3, 7, 10]
  | .minmaj7 => some [0, 3, 7, 11] | .maj6 => some [0, 4, 7, 9] | .min6 => some [0, 3, 7, 9]
  | .dim7 => some [0, 3, 6, 9] | .hdim7 => some [0, 3, 6, 10]
  | .nine => some [0, 4, 7, 10] | .maj9 => some [0, 4, 7, 11] | .min9 => some [0, 3, 7, 10]
  | .eleven => some [0, 4, 7, 10] | .min11 => some [0, 3, 7, 10]
  | .thirteen => some [0, 4, 7, 10] | .maj13 => some [0, 4, 7, 11] | .min13 => some [0, 3, 7, 10]
  | .aug7 => none | .maj11 => none

/-- quality field → bitmap; the empty quality (`:(degrees)`) contributes nothing -/
def Spec.qualityBitmap : Option Shorthand → Option (List Int)
  | none => some (List.replicate 12 0)
  | some q => (Spec.intervals q).map bitmapOfIntervals

/-- G-obligation: `QUALITIES` (regenerated) is the documented table on every quality `split` can return -/
theorem qualityToBitmap_spec (q : Option Shorthand) :
    qualityToBitmap (qualityStr q) =
      match Spec.qualityBitmap q with
      | some bm => .ok bm
      | none => .error .invalidChord := by
  cases q with
  | none => rfl
  | some q => cases q <;> rfl

/-! ### sets of items -/

def itemInsert (s : List DegItem) (x : DegItem) : List DegItem := if x ∈ s then s else s ++ [x]
def itemUnion (s t : List DegItem) : List DegItem := t.foldl itemInsert s

theorem DegItem.render_injective {i j : DegItem} (h : i.render = j.render) : i = j := by
  have hi := parseItem_render i
  rw [h, parseItem_render] at hi
  exact (Option.some.inj hi).symm

theorem mem_map_render {s : List DegItem} {x : DegItem} : x.render ∈ s.map DegItem.render ↔ x ∈ s := by
  constructor
  · intro h
    obtain ⟨y, hy, he⟩ := List.mem_map.1 h
    rw [← DegItem.render_injective he]; exact hy
  · exact List.mem_map_of_mem

theorem setInsert_map_render (s : List DegItem) (x : DegItem) :
    setInsert (s.map DegItem.render) x.render = (itemInsert s x).map DegItem.render := by
  unfold setInsert itemInsert
  by_cases h : x ∈ s
  · rw [if_pos (mem_map_render.2 h), if_pos h]
  · rw [if_neg (fun h' => h (mem_map_render.1 h')), if_neg h]; simp

theorem setUnion_map_render (s t : List DegItem) :
    setUnion (s.map DegItem.render) (t.map DegItem.render) = (itemUnion s t).map DegItem.render := by
  unfold setUnion itemUnion
  induction t generalizing s with
  | nil => rfl
  | cons x t ih => simp only [List.map_cons, List.foldl_cons, setInsert_map_render, ih]

/-! ### the specification -/

/-- the set of degree items `encode` sums over: the label's items, plus the upper voices when reducing -/
def specItems (body : Option Body) (r : Bool) : List DegItem :=
  itemUnion (itemUnion [] (bodyItems body)) (if r then reduxAdds (labelQuality body) else [])

def specQuality (body : Option Body) (r : Bool) : Option Shorthand :=
  if r then reduxQ (labelQuality body) else labelQuality body

def specRoot (L : Letter) (a : Acc) : Int := (L.pc + a.offset) % 12

def specBass : Option Degree → Int
  | none => 0
  | some d => d.semitone % 12

/-- votes per semitone: the quality's bits with the root forced, +1 per added item, −1 per omitted item -/
def specVotes (qb : List Int) (r : Bool) (items : List DegItem) : List Int :=
  items.foldl (fun acc i => addBitmap acc (itemBitmap r i)) (qb.set 0 1)

def specEncode (l : Label) (r sb : Bool) : Py Encoded :=
  match l with
  | .N => .ok (-1, List.replicate 12 0, -1)
  | .X => .ok (-1, List.replicate 12 (-1), -1)
  | .chord L a body bass =>
    match Spec.qualityBitmap (specQuality body r) with
    | none => .error .invalidChord
    | some qb =>
      if (threshold (specVotes qb r (specItems body r))).getD (specBass bass).toNat 0 = 0 ∧ sb = true then
        .error .invalidChord
      else
        .ok (specRoot L a, (threshold (specVotes qb r (specItems body r))).set (specBass bass).toNat 1, specBass bass)

theorem components_spec (L : Letter) (a : Acc) (body : Option Body) (bass : Option Degree) (r : Bool) :
    components (.chord L a body bass) r =
      (rootStr L a, qualityStr (specQuality body r), (specItems body r).map DegItem.render, bassStr bass) := by
  have h0 : setOfList ((bodyItems body).map DegItem.render) = (itemUnion [] (bodyItems body)).map DegItem.render := by
    simpa [setOfList] using setUnion_map_render [] (bodyItems body)
  cases r with
  | false =>
    simp only [components, applyReduce, rawComponents, bodyQuality_eq, h0, specQuality, specItems]
    simp [itemUnion]
  | true =>
    simp only [components, applyReduce, rawComponents, bodyQuality_eq, h0, specQuality, specItems, reduce_spec,
      setUnion_map_render, if_true]

theorem foldl_bitmapOfStr_render (m : Bool) (bm : List Int) (is : List DegItem) :
    (is.map DegItem.render).foldl (fun acc x => addBitmap acc (bitmapOfStr m x)) bm =
      is.foldl (fun acc i => addBitmap acc (itemBitmap m i)) bm := by
  induction is generalizing bm with
  | nil => rfl
  | cons i is ih => simp only [List.map_cons, List.foldl_cons, bitmapOfStr_render, ih]

theorem addDegrees_render (m : Bool) (bm : List Int) (is : List DegItem) :
    addDegrees m bm (is.map DegItem.render) = .ok (is.foldl (fun acc i => addBitmap acc (itemBitmap m i)) bm) := by
  rw [addDegrees_of_all_ok m bm _ (by
    intro x hx
    obtain ⟨i, _, rfl⟩ := List.mem_map.1 hx
    exact ⟨_, scaleDegreeToBitmap_render m i⟩), foldl_bitmapOfStr_render]

theorem pyEncode_render (l : Label) (r sb : Bool) : pyEncode l.render r sb = specEncode l r sb := by
  match l with
  | .N => rfl
  | .X => rfl
  | .chord L a body bass =>
    rw [pyEncode_render_chord, components_spec]
    unfold encodeParts specEncode
    simp only [pitchClass_rootStr, scaleDegreeToSemitone_bassStr, qualityToBitmap_spec]
    cases hq : Spec.qualityBitmap (specQuality body r) with
    | none => rfl
    | some qb =>
      simp only [addDegrees_render, specVotes, specRoot]
      cases bass with
      | none => rfl
      | some d => rfl

end Mir.Chord
