import MirProofs.Lemmas.Chord.Lists
/-! The recogniser decides exactly the rendered labels: `recognize (render l) = some l` and
    `recognize s = some l → render l = s`; alphabet facts about rendered pieces. -/
namespace Mir.Chord

/-! ### alphabets -/

def digitAlpha : List Char := ['0', '1', '2', '3', '4', '5', '6', '7', '8', '9']
def degAlpha : List Char := 'b' :: '#' :: digitAlpha
def itemAlpha : List Char := '*' :: degAlpha
def nameAlpha : List Char := ['a', 'd', 'g', 'h', 'i', 'j', 'm', 'n', 's', 'u'] ++ digitAlpha
def parenAlpha : List Char := '(' :: ')' :: ',' :: itemAlpha
def bodyAlpha : List Char := ':' :: (nameAlpha ++ parenAlpha)

theorem not_mem_of_alpha {s alpha : List Char} (h : ∀ c ∈ s, c ∈ alpha) {x : Char} (hx : x ∉ alpha) : x ∉ s :=
  fun hm => hx (h x hm)

theorem DegNum.render_chars (n : DegNum) : ∀ c ∈ n.render, c ∈ digitAlpha := by
  cases n <;> decide

theorem DegNum.render_ne_nil (n : DegNum) : n.render ≠ [] := by cases n <;> decide

theorem Acc.render_chars (a : Acc) : ∀ c ∈ a.render, c ∈ ['b', '#'] := by
  cases a with
  | natural => simp [Acc.render]
  | flats n => intro c hc; simp [Acc.render] at hc; simp [hc]
  | sharps n => intro c hc; simp [Acc.render] at hc; simp [hc]

theorem Degree.render_chars (d : Degree) : ∀ c ∈ d.render, c ∈ degAlpha := by
  intro c hc
  simp only [Degree.render, List.mem_append] at hc
  rcases hc with h | h
  · have := Acc.render_chars _ c h
    simp [degAlpha] at this ⊢; rcases this with h | h <;> simp [h]
  · have := DegNum.render_chars _ c h
    simp [degAlpha]; right; right; exact this

theorem Degree.render_ne_nil (d : Degree) : d.render ≠ [] := by
  simp [Degree.render, DegNum.render_ne_nil]

theorem DegItem.render_chars (i : DegItem) : ∀ c ∈ i.render, c ∈ itemAlpha := by
  intro c hc
  simp only [DegItem.render, List.mem_append] at hc
  rcases hc with h | h
  · cases ho : i.omitted <;> simp [ho] at h
    simp [itemAlpha, h]
  · exact List.mem_cons_of_mem _ (Degree.render_chars _ c h)

theorem DegItem.render_ne_nil (i : DegItem) : i.render ≠ [] := by
  simp [DegItem.render, Degree.render_ne_nil]

theorem Shorthand.name_chars (q : Shorthand) : ∀ c ∈ q.name, c ∈ nameAlpha := by
  cases q <;> decide

theorem Shorthand.name_ne_nil (q : Shorthand) : q.name ≠ [] := by cases q <;> decide

theorem mem_joinSep {sep : Char} {xs : List (List Char)} {c : Char} (h : c ∈ joinSep sep xs) :
    c = sep ∨ ∃ x ∈ xs, c ∈ x := by
  induction xs with
  | nil => simp [joinSep] at h
  | cons x r ih =>
    cases r with
    | nil => right; exact ⟨x, by simp, by simpa [joinSep] using h⟩
    | cons y r =>
      rw [joinSep_cons_cons] at h
      simp only [List.mem_append, List.mem_cons] at h
      rcases h with h | h | h
      · right; exact ⟨x, by simp, h⟩
      · left; exact h
      · rcases ih h with h | ⟨z, hz, hc⟩
        · left; exact h
        · right; exact ⟨z, List.mem_cons_of_mem _ hz, hc⟩

theorem joinItems_chars (is : List DegItem) : ∀ c ∈ joinSep ',' (is.map DegItem.render), c ∈ ',' :: itemAlpha := by
  intro c hc
  rcases mem_joinSep hc with h | ⟨x, hx, hcx⟩
  · simp [h]
  · obtain ⟨i, _, rfl⟩ := List.mem_map.1 hx
    exact List.mem_cons_of_mem _ (DegItem.render_chars i c hcx)

theorem renderParen_chars (d : DegItem) (ds : List DegItem) : ∀ c ∈ renderParen d ds, c ∈ parenAlpha := by
  intro c hc
  simp only [renderParen, List.mem_cons, List.mem_append] at hc
  rcases hc with h | h | h
  · simp [parenAlpha, h]
  · have := joinItems_chars (d :: ds) c h
    simp only [parenAlpha, List.mem_cons] at this ⊢
    rcases this with h | h
    · simp [h]
    · right; right; right; exact h
  · simp at h; simp [parenAlpha, h]

theorem Body.render_chars (b : Body) : ∀ c ∈ b.render, c ∈ bodyAlpha := by
  intro c hc
  have hn : ∀ q : Shorthand, ∀ c ∈ q.name, c ∈ bodyAlpha := fun q c h =>
    List.mem_cons_of_mem _ (List.mem_append_left _ (Shorthand.name_chars q c h))
  have hp : ∀ d ds, ∀ c ∈ renderParen d ds, c ∈ bodyAlpha := fun d ds c h =>
    List.mem_cons_of_mem _ (List.mem_append_right _ (renderParen_chars d ds c h))
  match b, hc with
  | .short q none, hc =>
    simp only [Body.render, List.mem_cons] at hc
    rcases hc with h | h
    · simp [bodyAlpha, h]
    · exact hn q c h
  | .short q (some (d, ds)), hc =>
    simp only [Body.render, List.mem_cons, List.mem_append] at hc
    rcases hc with h | h | h
    · simp [bodyAlpha, h]
    · exact hn q c h
    · exact hp d ds c h
  | .degsOnly d ds, hc =>
    simp only [Body.render, List.mem_cons] at hc
    rcases hc with h | h
    · simp [bodyAlpha, h]
    · exact hp d ds c h

theorem renderBody_chars (b : Option Body) : ∀ c ∈ renderBody b, c ∈ bodyAlpha := by
  cases b with
  | none => simp [renderBody]
  | some b => exact Body.render_chars b

/-! ### completeness: `recognize (render l) = some l` -/

theorem Letter.ofChar?_char (l : Letter) : Letter.ofChar? l.char = some l := by cases l <;> rfl

theorem Letter.char_of_ofChar? {c : Char} {l : Letter} (h : Letter.ofChar? c = some l) : l.char = c := by
  have := List.find?_some h
  simpa using this

theorem DegNum.ofName?_render (n : DegNum) : DegNum.ofName? n.render = some n := by cases n <;> rfl

theorem DegNum.render_of_ofName? {s : List Char} {n : DegNum} (h : DegNum.ofName? s = some n) : n.render = s := by
  have := List.find?_some h
  simpa using this

theorem Shorthand.ofName?_name (q : Shorthand) : Shorthand.ofName? q.name = some q := by cases q <;> rfl

theorem Shorthand.name_of_ofName? {s : List Char} {q : Shorthand} (h : Shorthand.ofName? s = some q) :
    q.name = s := by
  have := List.find?_some h
  simpa using this

theorem parseAcc_render_append (a : Acc) {r : List Char} (hb : r.head? ≠ some 'b') (hs : r.head? ≠ some '#') :
    parseAcc (a.render ++ r) = (a, r) := by
  cases a with
  | natural =>
    cases r with
    | nil => rfl
    | cons c r =>
      have h1 : c ≠ 'b' := by simpa using hb
      have h2 : c ≠ '#' := by simpa using hs
      simp [Acc.render, parseAcc, h1, h2]
  | flats n =>
    simp [Acc.render, List.replicate_succ, parseAcc, countRun_replicate_append 'b' n hb]
  | sharps n =>
    simp [Acc.render, List.replicate_succ, parseAcc, countRun_replicate_append '#' n hs]

theorem head?_ne_of_alpha {s alpha : List Char} (h : ∀ c ∈ s, c ∈ alpha) {x : Char} (hx : x ∉ alpha) :
    s.head? ≠ some x := by
  cases s with
  | nil => simp
  | cons c r =>
    have := h c (by simp)
    simp; intro e; exact hx (e ▸ this)

theorem parseDegree_render (d : Degree) : parseDegree d.render = some d := by
  have hb : d.num.render.head? ≠ some 'b' := head?_ne_of_alpha (DegNum.render_chars _) (by decide)
  have hs : d.num.render.head? ≠ some '#' := head?_ne_of_alpha (DegNum.render_chars _) (by decide)
  simp [parseDegree, Degree.render, parseAcc_render_append d.acc hb hs, DegNum.ofName?_render]

theorem parseItem_render (i : DegItem) : parseItem i.render = some i := by
  obtain ⟨o, d⟩ := i
  cases o with
  | true => simp [DegItem.render, parseItem, parseDegree_render]
  | false =>
    simp only [DegItem.render, Bool.false_eq_true, if_false, List.nil_append]
    cases hr : d.render with
    | nil => exact absurd hr (Degree.render_ne_nil d)
    | cons c r =>
      have hc : c ≠ '*' := by
        have := Degree.render_chars d c (by simp [hr])
        intro e; subst e; revert this; decide
      simp [parseItem, hc, ← hr, parseDegree_render]

theorem mapOpt_parseItem_render (is : List DegItem) : mapOpt parseItem (is.map DegItem.render) = some is := by
  induction is with
  | nil => rfl
  | cons i is ih => simp [mapOpt, parseItem_render, ih]

theorem comma_not_mem_item (i : DegItem) : ',' ∉ i.render :=
  not_mem_of_alpha (DegItem.render_chars i) (by decide)

theorem parseItems_render (d : DegItem) (ds : List DegItem) :
    parseItems (joinSep ',' ((d :: ds).map DegItem.render)) = some (d, ds) := by
  unfold parseItems
  rw [splitOn_joinSep (by simp), mapOpt_parseItem_render]
  intro x hx
  obtain ⟨i, _, rfl⟩ := List.mem_map.1 hx
  exact comma_not_mem_item i

theorem parseParenTail_render (d : DegItem) (ds : List DegItem) :
    parseParenTail (joinSep ',' ((d :: ds).map DegItem.render) ++ [')']) = some (d, ds) := by
  unfold parseParenTail
  rw [if_pos List.getLast?_concat, List.dropLast_concat]
  exact parseItems_render d ds

theorem parseParenTail_render' (d : DegItem) (ds : List DegItem) :
    parseParenTail (joinSep ',' (d.render :: ds.map DegItem.render) ++ [')']) = some (d, ds) :=
  parseParenTail_render d ds

theorem lparen_not_mem_name (q : Shorthand) : '(' ∉ q.name :=
  not_mem_of_alpha (Shorthand.name_chars q) (by decide)

theorem parseBody_render (b : Body) : parseOptBody b.render = some (some b) := by
  match b with
  | .short q none =>
    simp [Body.render, parseOptBody, parseBody, breakOn_of_not_mem (lparen_not_mem_name q),
      Shorthand.ofName?_name]
  | .short q (some (d, ds)) =>
    simp only [Body.render, parseOptBody, parseBody, renderParen, if_true,
      breakOn_append _ (lparen_not_mem_name q), parseParenTail_render]
    simp [Shorthand.name_ne_nil, Shorthand.ofName?_name]
  | .degsOnly d ds =>
    simp only [Body.render, parseOptBody, parseBody, renderParen, if_true]
    have : breakOn '(' ('(' :: (joinSep ',' ((d :: ds).map DegItem.render) ++ [')'])) =
        ([], some (joinSep ',' ((d :: ds).map DegItem.render) ++ [')'])) := by simp [breakOn]
    rw [this]
    simp [parseParenTail_render']

theorem parseOptBody_render (b : Option Body) : parseOptBody (renderBody b) = some b := by
  cases b with
  | none => rfl
  | some b => exact parseBody_render b

theorem slash_not_mem_body (b : Option Body) : '/' ∉ renderBody b :=
  not_mem_of_alpha (renderBody_chars b) (by decide)

theorem breakOn_slash_render (body : Option Body) (bass : Option Degree) :
    breakOn '/' (renderBody body ++ renderBass bass) = (renderBody body, bass.map Degree.render) := by
  cases bass with
  | none => simp [renderBass, breakOn_of_not_mem (slash_not_mem_body body)]
  | some d => simp [renderBass, breakOn_append _ (slash_not_mem_body body)]

theorem parseOptBass_render (bass : Option Degree) : parseOptBass (bass.map Degree.render) = some bass := by
  cases bass with
  | none => rfl
  | some d => simp [parseOptBass, parseDegree_render]

theorem tail_head?_ne (body : Option Body) (bass : Option Degree) {x : Char} (hx : x ≠ ':') (hx' : x ≠ '/') :
    (renderBody body ++ renderBass bass).head? ≠ some x := by
  cases body with
  | none =>
    cases bass with
    | none => simp [renderBody, renderBass]
    | some d => simp [renderBody, renderBass]; exact fun e => hx' e.symm
  | some b =>
    match b with
    | .short q none => simp [renderBody, Body.render]; exact fun e => hx e.symm
    | .short q (some (d, ds)) => simp [renderBody, Body.render]; exact fun e => hx e.symm
    | .degsOnly d ds => simp [renderBody, Body.render]; exact fun e => hx e.symm

theorem recognize_render (l : Label) : recognize l.render = some l := by
  match l with
  | .N => rfl
  | .X => rfl
  | .chord L a body bass =>
    have hN : Label.render (.chord L a body bass) ≠ ['N'] := by
      simp only [Label.render]; cases L <;> simp [Letter.char]
    have hX : Label.render (.chord L a body bass) ≠ ['X'] := by
      simp only [Label.render]; cases L <;> simp [Letter.char]
    unfold recognize
    rw [if_neg hN, if_neg hX]
    simp only [Label.render, Letter.ofChar?_char]
    rw [parseAcc_render_append a (tail_head?_ne body bass (by decide) (by decide))
      (tail_head?_ne body bass (by decide) (by decide))]
    simp only [breakOn_slash_render, parseOptBody_render, parseOptBass_render]

/-! ### soundness: `recognize s = some l → render l = s` -/

theorem parseAcc_sound (s : List Char) : (parseAcc s).1.render ++ (parseAcc s).2 = s := by
  unfold parseAcc
  split
  · rfl
  · rename_i c r
    split
    · rename_i h; subst h
      simp only [Acc.render, List.replicate_succ, List.cons_append]
      rw [← countRun_spec]
    · split
      · rename_i h; subst h
        simp only [Acc.render, List.replicate_succ, List.cons_append]
        rw [← countRun_spec]
      · rfl

theorem parseDegree_sound {s : List Char} {d : Degree} (h : parseDegree s = some d) : d.render = s := by
  unfold parseDegree at h
  split at h
  · rename_i n hn
    simp at h; subst h
    simp only [Degree.render, DegNum.render_of_ofName? hn, parseAcc_sound]
  · simp at h

theorem parseItem_sound {s : List Char} {i : DegItem} (h : parseItem s = some i) : i.render = s := by
  unfold parseItem at h
  split at h
  · simp at h
  · rename_i c r
    split at h
    · rename_i hc; subst hc
      simp only [Option.map_eq_some_iff] at h
      obtain ⟨d, hd, rfl⟩ := h
      simp [DegItem.render, parseDegree_sound hd]
    · simp only [Option.map_eq_some_iff] at h
      obtain ⟨d, hd, rfl⟩ := h
      simp [DegItem.render, parseDegree_sound hd]

theorem mapOpt_parseItem_sound {xs : List (List Char)} {is : List DegItem}
    (h : mapOpt parseItem xs = some is) : is.map DegItem.render = xs := by
  induction xs generalizing is with
  | nil => simp [mapOpt] at h; subst h; rfl
  | cons x xs ih =>
    unfold mapOpt at h
    split at h
    · rename_i y ys hy hys
      simp at h; subst h
      simp [parseItem_sound hy, ih hys]
    · simp at h

theorem parseItems_sound {s : List Char} {d : DegItem} {ds : List DegItem}
    (h : parseItems s = some (d, ds)) : joinSep ',' ((d :: ds).map DegItem.render) = s := by
  unfold parseItems at h
  split at h
  · rename_i d' ds' hm
    simp at h
    obtain ⟨rfl, rfl⟩ := h
    rw [mapOpt_parseItem_sound hm, joinSep_splitOn]
  · simp at h

theorem parseParenTail_sound {s : List Char} {d : DegItem} {ds : List DegItem}
    (h : parseParenTail s = some (d, ds)) : joinSep ',' ((d :: ds).map DegItem.render) ++ [')'] = s := by
  unfold parseParenTail at h
  split at h
  · rename_i hl
    obtain ⟨ys, rfl⟩ := List.getLast?_eq_some_iff.1 hl
    rw [List.dropLast_concat] at h
    rw [parseItems_sound h]
  · simp at h

theorem parseBody_sound {s : List Char} {b : Body} (h : parseBody s = some b) : b.render = ':' :: s := by
  unfold parseBody at h
  split at h
  · rename_i q hb
    simp only [Option.map_eq_some_iff] at h
    obtain ⟨q', hq, rfl⟩ := h
    simp [Body.render, Shorthand.name_of_ofName? hq, breakOn_none hb]
  · rename_i q r hb
    split at h
    · simp at h
    · rename_i d ds hp
      have hs := breakOn_some hb
      split at h
      · rename_i hq; subst hq
        simp at h; subst h
        have := parseParenTail_sound hp
        simp only [List.map_cons] at this
        simp [Body.render, renderParen, this, hs]
      · simp only [Option.map_eq_some_iff] at h
        obtain ⟨q', hq, rfl⟩ := h
        have := parseParenTail_sound hp
        simp only [List.map_cons] at this
        simp [Body.render, renderParen, this, hs, Shorthand.name_of_ofName? hq]

theorem parseOptBody_sound {s : List Char} {b : Option Body} (h : parseOptBody s = some b) : renderBody b = s := by
  unfold parseOptBody at h
  split at h
  · simp at h; subst h; rfl
  · rename_i c r
    split at h
    · rename_i hc; subst hc
      simp only [Option.map_eq_some_iff] at h
      obtain ⟨b', hb, rfl⟩ := h
      simp [renderBody, parseBody_sound hb]
    · simp at h

theorem recognize_sound {s : List Char} {l : Label} (h : recognize s = some l) : l.render = s := by
  unfold recognize at h
  split at h
  · rename_i hs; simp at h; subst h; exact hs.symm
  · split at h
    · rename_i hs; simp at h; subst h; exact hs.symm
    · split at h
      · simp at h
      · rename_i c r _ _
        split at h
        · simp at h
        · rename_i L hL
          split at h
          · rename_i body bass hbody hbass
            simp at h; subst h
            have hacc := parseAcc_sound r
            have hbo := parseOptBody_sound hbody
            have key : (breakOn '/' (parseAcc r).2).1 ++ renderBass bass = (parseAcc r).2 := by
              cases hb : (breakOn '/' (parseAcc r).2).2 with
              | none =>
                rw [hb] at hbass
                simp [parseOptBass] at hbass; subst hbass
                have := breakOn_none (a := (breakOn '/' (parseAcc r).2).1) (by rw [← hb])
                simp only [renderBass, List.append_nil]; exact this.symm
              | some b =>
                rw [hb] at hbass
                simp only [parseOptBass, Option.map_eq_some_iff] at hbass
                obtain ⟨d, hd, hd'⟩ := hbass
                subst hd'
                have := breakOn_some (a := (breakOn '/' (parseAcc r).2).1) (b := b) (by rw [← hb])
                simp only [renderBass, parseDegree_sound hd]
                exact this.symm
            simp only [Label.render, Letter.char_of_ofChar? hL, hbo, key, hacc]
          · simp at h

end Mir.Chord
