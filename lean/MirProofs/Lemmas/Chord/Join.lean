import MirProofs.Lemmas.Chord.Encode
/-! `join ∘ split` on rendered labels: the joined string is again a rendered label, `split` of it returns the
    same parts, and `encode` does not depend on the order in which the degree set is iterated. -/
namespace Mir.Chord
open MirGen

/-! ### duplicate-free lists as sets -/

theorem mem_setInsert {s : List Str} {x y : Str} : y ∈ setInsert s x ↔ y ∈ s ∨ y = x := by
  unfold setInsert; split
  · rename_i h; constructor
    · exact Or.inl
    · rintro (h' | rfl); exact h'; exact h
  · simp

theorem mem_setUnion {s t : List Str} {y : Str} : y ∈ setUnion s t ↔ y ∈ s ∨ y ∈ t := by
  unfold setUnion
  induction t generalizing s with
  | nil => simp
  | cons x t ih =>
    simp only [List.foldl_cons, ih, mem_setInsert, List.mem_cons]
    constructor
    · rintro ((h | h) | h)
      · exact Or.inl h
      · exact Or.inr (Or.inl h)
      · exact Or.inr (Or.inr h)
    · rintro (h | h | h)
      · exact Or.inl (Or.inl h)
      · exact Or.inl (Or.inr h)
      · exact Or.inr h

theorem mem_setOfList {xs : List Str} {y : Str} : y ∈ setOfList xs ↔ y ∈ xs := by
  simp [setOfList, mem_setUnion]

theorem nodup_setInsert {s : List Str} (h : s.Nodup) (x : Str) : (setInsert s x).Nodup := by
  unfold setInsert; split
  · exact h
  · rename_i hx
    rw [List.nodup_append]
    refine ⟨h, by simp, ?_⟩
    intro a ha b hb
    simp at hb; subst hb
    intro e; subst e; exact hx ha

theorem nodup_setUnion {s : List Str} (h : s.Nodup) (t : List Str) : (setUnion s t).Nodup := by
  unfold setUnion
  induction t generalizing s with
  | nil => simpa using h
  | cons x t ih => exact ih (nodup_setInsert h x)

theorem nodup_setOfList (xs : List Str) : (setOfList xs).Nodup := nodup_setUnion List.nodup_nil xs

theorem setUnion_of_nodup {s t : List Str} (h : (s ++ t).Nodup) : setUnion s t = s ++ t := by
  induction t generalizing s with
  | nil => simp [setUnion]
  | cons x t ih =>
    have hx : x ∉ s := by
      intro hm
      rw [List.nodup_append] at h
      exact h.2.2 x hm x (by simp) rfl
    have : setUnion s (x :: t) = setUnion (s ++ [x]) t := by
      simp [setUnion, setInsert, hx]
    rw [this, ih (by simpa using h)]
    simp

theorem setOfList_of_nodup {xs : List Str} (h : xs.Nodup) : setOfList xs = xs := by
  simpa [setOfList] using setUnion_of_nodup (s := []) (by simpa using h)

/-! ### commutativity of bitmap addition ⇒ the iteration order of the set is unobservable -/

theorem addBitmap_right_comm (z x y : List Int) :
    addBitmap (addBitmap z x) y = addBitmap (addBitmap z y) x := by
  unfold addBitmap
  induction z generalizing x y with
  | nil => simp
  | cons a z ih =>
    cases x with
    | nil => cases y <;> simp
    | cons b x =>
      cases y with
      | nil => simp
      | cons c y => simp [ih, Int.add_right_comm]

/-- the bitmap a scale-degree string contributes (empty when the string is no scale degree) -/
def bitmapOfStr (m : Bool) (x : Str) : List Int :=
  match scaleDegreeToBitmap x m with
  | .ok e => e
  | .error _ => []

theorem addDegrees_of_all_ok (m : Bool) (bm : List Int) (ds : List Str)
    (h : ∀ x ∈ ds, ∃ e, scaleDegreeToBitmap x m = .ok e) :
    addDegrees m bm ds = .ok (ds.foldl (fun acc x => addBitmap acc (bitmapOfStr m x)) bm) := by
  induction ds generalizing bm with
  | nil => rfl
  | cons d ds ih =>
    obtain ⟨e, he⟩ := h d (by simp)
    unfold addDegrees
    simp only [he, List.foldl_cons, bitmapOfStr]
    exact ih _ (fun x hx => h x (by simp [hx]))

theorem addDegrees_perm (m : Bool) (bm : List Int) {ds ds' : List Str} (hp : ds'.Perm ds)
    (h : ∀ x ∈ ds, ∃ e, scaleDegreeToBitmap x m = .ok e) :
    addDegrees m bm ds' = addDegrees m bm ds := by
  rw [addDegrees_of_all_ok m bm ds h,
    addDegrees_of_all_ok m bm ds' (fun x hx => h x (hp.mem_iff.1 hx))]
  congr 1
  exact hp.foldl_eq' (fun x _ y _ z => addBitmap_right_comm z _ _) bm

theorem encodeParts_perm (root q bass : Str) {ds ds' : List Str} (r sb : Bool) (hp : ds'.Perm ds)
    (h : ∀ x ∈ ds, ∃ e, scaleDegreeToBitmap x r = .ok e) :
    encodeParts (root, q, ds', bass) r sb = encodeParts (root, q, ds, bass) r sb := by
  unfold encodeParts
  simp only [addDegrees_perm r _ hp h]

end Mir.Chord
