import MirModel.Chord.Encode
/-! Lemmas about the list-of-characters primitives (`splitOn`, `joinSep`, `breakOn`, `countRun`, `stripChars`). -/
deriving instance DecidableEq for Except

namespace Mir.Chord

theorem splitOn_ne_nil (sep : Char) (s : List Char) : splitOn sep s ≠ [] := by
  induction s with
  | nil => simp [splitOn]
  | cons c cs ih =>
    unfold splitOn
    split
    · simp
    · split <;> simp

theorem splitOn_of_not_mem {sep : Char} {s : List Char} (h : sep ∉ s) : splitOn sep s = [s] := by
  induction s with
  | nil => rfl
  | cons c cs ih =>
    have hc : c ≠ sep := fun e => h (by simp [e])
    have hcs : sep ∉ cs := fun e => h (by simp [e])
    simp [splitOn, hc, ih hcs]

theorem splitOn_append {sep : Char} {a : List Char} (b : List Char) (h : sep ∉ a) :
    splitOn sep (a ++ sep :: b) = a :: splitOn sep b := by
  induction a with
  | nil => simp [splitOn]
  | cons c cs ih =>
    have hc : c ≠ sep := fun e => h (by simp [e])
    have hcs : sep ∉ cs := fun e => h (by simp [e])
    simp [splitOn, hc, ih hcs]

theorem joinSep_cons_cons (sep : Char) (x y : List Char) (r : List (List Char)) :
    joinSep sep (x :: y :: r) = x ++ sep :: joinSep sep (y :: r) := rfl

theorem joinSep_cons_of_ne_nil (sep : Char) (x : List Char) {r : List (List Char)} (h : r ≠ []) :
    joinSep sep (x :: r) = x ++ sep :: joinSep sep r := by
  cases r with
  | nil => exact absurd rfl h
  | cons y r => rfl

theorem joinSep_splitOn (sep : Char) (s : List Char) : joinSep sep (splitOn sep s) = s := by
  induction s with
  | nil => rfl
  | cons c cs ih =>
    unfold splitOn
    split
    · rename_i h
      rw [joinSep_cons_of_ne_nil _ _ (splitOn_ne_nil sep cs), ih, h]; rfl
    · split
      · rename_i h; exact absurd h (splitOn_ne_nil sep cs)
      · rename_i hd tl h
        rw [h] at ih
        cases tl with
        | nil => simp [joinSep] at ih ⊢; exact ih
        | cons y r =>
          rw [joinSep_cons_cons] at ih ⊢
          simp [← ih]

theorem splitOn_joinSep {sep : Char} {xs : List (List Char)} (hne : xs ≠ [])
    (h : ∀ x ∈ xs, sep ∉ x) : splitOn sep (joinSep sep xs) = xs := by
  induction xs with
  | nil => exact absurd rfl hne
  | cons x r ih =>
    cases r with
    | nil => simpa [joinSep] using splitOn_of_not_mem (h x (by simp))
    | cons y r =>
      rw [joinSep_cons_cons, splitOn_append _ (h x (by simp)), ih (by simp)]
      intro z hz; exact h z (by simp [hz])

theorem splitOn_length (sep : Char) (s : List Char) : (splitOn sep s).length = s.count sep + 1 := by
  induction s with
  | nil => rfl
  | cons c cs ih =>
    unfold splitOn
    split
    · rename_i h; simp [h, ih]
    · rename_i h
      have : (c == sep) = false := by simp [h]
      split
      · rename_i h'; exact absurd h' (splitOn_ne_nil sep cs)
      · rename_i hd tl h'
        rw [h'] at ih
        simp [List.count_cons, this] at ih ⊢; exact ih

/-- `a, b = s.split(sep)` succeeds exactly when there is one separator, and then cuts there. -/
theorem unpack2_splitOn_ok {sep : Char} {s a b : List Char}
    (h : unpack2 (splitOn sep s) = .ok (a, b)) : s = a ++ sep :: b ∧ sep ∉ a := by
  have hj := joinSep_splitOn sep s
  have hl := splitOn_length sep s
  match hs : splitOn sep s, h with
  | [a', b'], h =>
    simp [unpack2] at h
    obtain ⟨rfl, rfl⟩ := h
    rw [hs] at hj hl
    refine ⟨by simpa [joinSep] using hj.symm, ?_⟩
    intro hm
    obtain ⟨u, v, rfl⟩ := List.append_of_mem hm
    have : s.count sep ≥ 2 := by
      rw [← hj]; simp [joinSep, List.count_append]
      omega
    simp at hl; omega

theorem unpack2_splitOn_of_count {sep : Char} {s : List Char} (h : s.count sep = 1) :
    ∃ a b, unpack2 (splitOn sep s) = .ok (a, b) := by
  have hl := splitOn_length sep s
  rw [h] at hl
  match hs : splitOn sep s with
  | [a, b] => exact ⟨a, b, rfl⟩
  | [] => rw [hs] at hl; simp at hl
  | [_] => rw [hs] at hl; simp at hl
  | _ :: _ :: _ :: _ => rw [hs] at hl; simp at hl

theorem unpack2_error {α : Type} {xs : List α} {e : PyErr} (h : unpack2 xs = .error e) : e = .valueError := by
  unfold unpack2 at h
  split at h <;> simp_all

/-! ### breakOn -/

theorem breakOn_of_not_mem {sep : Char} {s : List Char} (h : sep ∉ s) : breakOn sep s = (s, none) := by
  induction s with
  | nil => rfl
  | cons c cs ih =>
    have hc : c ≠ sep := fun e => h (by simp [e])
    have hcs : sep ∉ cs := fun e => h (by simp [e])
    simp [breakOn, hc, ih hcs]

theorem breakOn_append {sep : Char} {a : List Char} (b : List Char) (h : sep ∉ a) :
    breakOn sep (a ++ sep :: b) = (a, some b) := by
  induction a with
  | nil => simp [breakOn]
  | cons c cs ih =>
    have hc : c ≠ sep := fun e => h (by simp [e])
    have hcs : sep ∉ cs := fun e => h (by simp [e])
    simp [breakOn, hc, ih hcs]

theorem breakOn_none {sep : Char} {s a : List Char} (h : breakOn sep s = (a, none)) : s = a := by
  induction s generalizing a with
  | nil => simp [breakOn] at h; exact h.symm
  | cons c cs ih =>
    unfold breakOn at h
    split at h
    · simp at h
    · simp at h
      obtain ⟨h1, h2⟩ := h
      rw [← h1, ← ih (a := (breakOn sep cs).1) (by rw [← h2])]

theorem breakOn_some {sep : Char} {s a b : List Char} (h : breakOn sep s = (a, some b)) :
    s = a ++ sep :: b := by
  induction s generalizing a with
  | nil => simp [breakOn] at h
  | cons c cs ih =>
    unfold breakOn at h
    split at h
    · rename_i hc; simp at h; obtain ⟨rfl, rfl⟩ := h; simp [hc]
    · simp at h
      obtain ⟨h1, h2⟩ := h
      rw [← h1, List.cons_append, ← ih (a := (breakOn sep cs).1) (by rw [← h2])]

/-! ### countRun -/

theorem countRun_spec (c : Char) (s : List Char) :
    s = List.replicate (countRun c s).1 c ++ (countRun c s).2 := by
  induction s with
  | nil => rfl
  | cons x xs ih =>
    unfold countRun
    split
    · rename_i h; simp [List.replicate_succ, ← ih, h]
    · simp

theorem countRun_replicate_append (c : Char) (n : Nat) {r : List Char} (h : r.head? ≠ some c) :
    countRun c (List.replicate n c ++ r) = (n, r) := by
  induction n with
  | zero =>
    cases r with
    | nil => rfl
    | cons x xs =>
      have : x ≠ c := by simpa using h
      simp [countRun, this]
  | succ n ih => simp [List.replicate_succ, countRun, ih]

/-! ### stripChars -/

theorem dropWhile_eq_self {p : Char → Bool} {s : List Char} (h : ∀ c ∈ s, p c = false) : s.dropWhile p = s := by
  cases s with
  | nil => rfl
  | cons c cs => simp [h c (by simp)]

theorem dropWhile_all {p : Char → Bool} {e : List Char} (h : ∀ c ∈ e, p c = true) : e.dropWhile p = [] := by
  induction e with
  | nil => rfl
  | cons c cs ih =>
    simp [h c (by simp)]
    exact ih (fun x hx => h x (by simp [hx]))

theorem dropWhile_append_all {p : Char → Bool} {e : List Char} (d : List Char) (h : ∀ c ∈ e, p c = true) :
    (e ++ d).dropWhile p = d.dropWhile p := by
  induction e with
  | nil => rfl
  | cons c cs ih =>
    simp [h c (by simp)]
    exact ih (fun x hx => h x (by simp [hx]))

/-- stripping a run of strippable characters on both sides of a word without strippable ends -/
theorem stripChars_sandwich {p : Char → Bool} (e₁ d e₂ : List Char) (h₁ : ∀ c ∈ e₁, p c = true)
    (h₂ : ∀ c ∈ e₂, p c = true) (hd : ∀ c ∈ d, p c = false) : stripChars p (e₁ ++ d ++ e₂) = d := by
  unfold stripChars
  rw [List.append_assoc, dropWhile_append_all _ h₁]
  by_cases hdn : d = []
  · subst hdn
    simp
    have : ∀ c ∈ e₂, p c = true := h₂
    have h3 : e₂.dropWhile p = [] := dropWhile_all this
    simp [h3]
  · have : (d ++ e₂).dropWhile p = d ++ e₂ := by
      cases d with
      | nil => exact absurd rfl hdn
      | cons c cs => simp [hd c (by simp)]
    rw [this, List.reverse_append, dropWhile_append_all _ (by simpa using h₂),
      dropWhile_eq_self (by simpa using hd), List.reverse_reverse]

theorem stripChars_none {p : Char → Bool} {d : List Char} (hd : ∀ c ∈ d, p c = false) : stripChars p d = d := by
  simpa using stripChars_sandwich (p := p) [] d [] (by simp) (by simp) hd

theorem stripChars_suffix {p : Char → Bool} (d e : List Char) (he : ∀ c ∈ e, p c = true)
    (hd : ∀ c ∈ d, p c = false) : stripChars p (d ++ e) = d := by
  simpa using stripChars_sandwich (p := p) [] d e (by simp) he hd

theorem stripChars_prefix {p : Char → Bool} (e d : List Char) (he : ∀ c ∈ e, p c = true)
    (hd : ∀ c ∈ d, p c = false) : stripChars p (e ++ d) = d := by
  simpa using stripChars_sandwich (p := p) e d [] he (by simp) hd

end Mir.Chord
