import MirProofs.Lemmas.Chord.EncodeSpec
/-! `encode_many` is the element-wise `encode`. -/
namespace Mir.Chord

theorem encodeAll_ok_iff (r : Bool) (ls : List Str) (es : List Encoded) :
    encodeAll r ls = .ok es ↔
      es.length = ls.length ∧ ∀ p ∈ ls.zip es, pyEncode p.1 r false = .ok p.2 := by
  induction ls generalizing es with
  | nil =>
    constructor
    · intro h; simp [encodeAll] at h; subst h; simp
    · rintro ⟨h, _⟩
      have : es = [] := List.eq_nil_of_length_eq_zero h
      subst this; rfl
  | cons l ls ih =>
    constructor
    · intro h
      unfold encodeAll at h
      split at h
      · simp at h
      · rename_i e he
        split at h
        · simp at h
        · rename_i es' hes
          simp at h; subst h
          obtain ⟨hl, hall⟩ := (ih es').1 hes
          refine ⟨by simp [hl], ?_⟩
          intro p hp
          simp only [List.zip_cons_cons, List.mem_cons] at hp
          rcases hp with rfl | hp
          · exact he
          · exact hall p hp
    · rintro ⟨hl, hall⟩
      cases es with
      | nil => simp at hl
      | cons e es =>
        have he := hall (l, e) (by simp)
        have hes := (ih es).2 ⟨by simpa using hl, fun p hp => hall p (by simp [hp])⟩
        unfold encodeAll
        simp only [he, hes]

theorem encodeAll_total (r : Bool) (ls : List Str) :
    (∃ es, encodeAll r ls = .ok es) ∨ encodeAll r ls = .error .invalidChord := by
  induction ls with
  | nil => left; exact ⟨[], rfl⟩
  | cons l ls ih =>
    unfold encodeAll
    rcases pyEncode_total l r false with ⟨e, he⟩ | he
    · simp only [he]
      rcases ih with ⟨es, hes⟩ | hes
      · simp only [hes]; left; exact ⟨_, rfl⟩
      · simp only [hes]; right; trivial
    · simp only [he]; right; trivial

end Mir.Chord
