import MirProofs.Lemmas.Chord.Semantics
/-! `encode (join (split l)) = encode l` for every grammar-derivable chord label and every iteration order of
    the degree set. -/
namespace Mir.Chord
open MirGen

def qualityStr : Option Shorthand → Str
  | none => []
  | some q => q.name

/-- the quality `split` reports: "maj" for a bare root, the shorthand, or "" (`none`) for `:(degrees)` -/
def labelQuality : Option Body → Option Shorthand
  | none => some .maj
  | some (.short q _) => some q
  | some (.degsOnly _ _) => none

theorem bodyQuality_eq (b : Option Body) : bodyQuality b = qualityStr (labelQuality b) := by
  match b with
  | none => rfl
  | some (.short _ _) => rfl
  | some (.degsOnly _ _) => rfl

/-- the body that `join` writes for a quality and a list of degree items -/
def mkBody : Option Shorthand → List DegItem → Option Body
  | none, [] => none
  | none, d :: ds => some (.degsOnly d ds)
  | some q, [] => some (.short q none)
  | some q, d :: ds => some (.short q (some (d, ds)))

/-- `join` leaves out a bass of "1" -/
def normBass (b : Option Degree) : Option Degree := if bassStr b = ['1'] then none else b

/-! ### Layer S: the documented reduction of extended chords (hand-transcribed) -/

def reduxQ : Option Shorthand → Option Shorthand
  | some .minmaj7 => some .min
  | some .maj9 => some .maj7 | some .min9 => some .min7 | some .nine => some .seven
  | some .eleven => some .seven | some .min11 => some .min7
  | some .thirteen => some .seven | some .maj13 => some .maj7 | some .min13 => some .min7
  | q => q

def plainDeg (n : DegNum) : DegItem := ⟨false, ⟨.natural, n⟩⟩

def reduxAdds : Option Shorthand → List DegItem
  | some .minmaj7 => [plainDeg .d7]
  | some .maj9 => [plainDeg .d9] | some .min9 => [plainDeg .d9] | some .nine => [plainDeg .d9]
  | some .eleven => [plainDeg .d9, plainDeg .d11] | some .min11 => [plainDeg .d9, plainDeg .d11]
  | some .thirteen => [plainDeg .d9, plainDeg .d11, plainDeg .d13]
  | some .maj13 => [plainDeg .d9, plainDeg .d11, plainDeg .d13]
  | some .min13 => [plainDeg .d9, plainDeg .d11, plainDeg .d13]
  | _ => []

/-- G-obligation: `EXTENDED_QUALITY_REDUX` (regenerated) is the documented reduction on every shorthand of the syntax -/
theorem reduce_spec (q : Option Shorthand) :
    reduceExtendedQuality (qualityStr q) = (qualityStr (reduxQ q), (reduxAdds q).map DegItem.render) := by
  cases q with
  | none => rfl
  | some q => cases q <;> rfl

theorem reduxQ_idem (q : Option Shorthand) : reduxQ (reduxQ q) = reduxQ q ∧ reduxAdds (reduxQ q) = [] := by
  cases q with
  | none => exact ⟨rfl, rfl⟩
  | some q => cases q <;> exact ⟨rfl, rfl⟩

theorem reduxQ_eq_none {q : Option Shorthand} (h : reduxQ q = none) : q = none := by
  cases q with
  | none => rfl
  | some q => cases q <;> simp [reduxQ] at h

/-! ### `join` writes a rendered label -/

theorem bassStr_ne_nil (b : Option Degree) : bassStr b ≠ [] := by
  cases b with
  | none => simp [bassStr]
  | some d => exact Degree.render_ne_nil d

theorem bassStr_normBass (b : Option Degree) : bassStr (normBass b) = bassStr b := by
  unfold normBass; split
  · rename_i h; rw [h]; rfl
  · rfl

theorem renderBass_normBass (b : Option Degree) :
    renderBass (normBass b) = if !(bassStr b).isEmpty && bassStr b != ['1'] then '/' :: bassStr b else [] := by
  have hne := bassStr_ne_nil b
  have he : (bassStr b).isEmpty = false := by cases h : bassStr b <;> simp_all
  unfold normBass
  by_cases h1 : bassStr b = ['1']
  · simp [h1, renderBass]
  · have : (bassStr b != ['1']) = true := by simpa using h1
    rw [if_neg h1, he, this]
    cases b with
    | none => exact absurd rfl h1
    | some d => simp [renderBass, bassStr]

theorem joinRaw_render (L : Letter) (a : Acc) (q : Option Shorthand) (is : List DegItem) (bass : Option Degree)
    (h : q ≠ none ∨ is ≠ []) :
    joinRaw (rootStr L a) (qualityStr q) (some (is.map DegItem.render)) (bassStr bass) =
      Label.render (.chord L a (mkBody q is) (normBass bass)) := by
  unfold joinRaw
  rw [← renderBass_normBass]
  simp only [Label.render, rootStr, Option.getD_some]
  match q, is, h with
  | none, d :: ds, _ =>
    simp [qualityStr, mkBody, renderBody, Body.render, renderParen]
  | some q, [], _ =>
    have : q.name.isEmpty = false := by
      have := Shorthand.name_ne_nil q
      cases h : q.name <;> simp_all
    simp [qualityStr, mkBody, renderBody, Body.render, this]
  | some q, d :: ds, _ =>
    simp [qualityStr, mkBody, renderBody, Body.render, renderParen]
  | none, [], h => simp at h

theorem components_mkBody (L : Letter) (a : Acc) (q : Option Shorthand) (is : List DegItem) (bass : Option Degree)
    (h : q ≠ none ∨ is ≠ []) :
    rawComponents L a (mkBody q is) (normBass bass) =
      (rootStr L a, qualityStr q, setOfList (is.map DegItem.render), bassStr bass) := by
  unfold rawComponents
  rw [bassStr_normBass]
  match q, is, h with
  | none, d :: ds, _ => rfl
  | some q, [], _ => rfl
  | some q, d :: ds, _ => rfl
  | none, [], h => simp at h

theorem pySplit_joinRaw (L : Letter) (a : Acc) (q : Option Shorthand) (is : List DegItem) (bass : Option Degree)
    (r : Bool) (h : q ≠ none ∨ is ≠ []) :
    pySplit (joinRaw (rootStr L a) (qualityStr q) (some (is.map DegItem.render)) (bassStr bass)) r =
      .ok (applyReduce r (rootStr L a, qualityStr q, setOfList (is.map DegItem.render), bassStr bass)) := by
  rw [joinRaw_render L a q is bass h, pySplit_render, components, components_mkBody L a q is bass h]

/-! ### the parts of a rendered chord label, uniformly in `reduce` -/

/-- every element of a list of strings is a rendered degree item ⇒ the list is the rendering of a list of items -/
theorem exists_items {xs : List Str} (h : ∀ x ∈ xs, ∃ i : DegItem, i.render = x) :
    ∃ is : List DegItem, is.map DegItem.render = xs := by
  induction xs with
  | nil => exact ⟨[], rfl⟩
  | cons x xs ih =>
    obtain ⟨i, hi⟩ := h x (by simp)
    obtain ⟨is, his⟩ := ih (fun y hy => h y (by simp [hy]))
    exact ⟨i :: is, by simp [hi, his]⟩

/-- what `split` returns for a chord label: a root, a quality of the syntax (already reduced when reducing),
    a duplicate-free set of rendered degree items (non-empty when the quality is empty), the bass -/
theorem components_chord (L : Letter) (a : Acc) (body : Option Body) (bass : Option Degree) (r : Bool) :
    ∃ (q : Option Shorthand) (D : List Str),
      components (.chord L a body bass) r = (rootStr L a, qualityStr q, D, bassStr bass) ∧
      D.Nodup ∧ (∀ x ∈ D, ∃ i : DegItem, i.render = x) ∧ (q = none → D ≠ []) ∧
      (∀ X B, applyReduce r (rootStr L a, qualityStr q, X, B) = (rootStr L a, qualityStr q, X, B)) := by
  have hD0 : ∀ x ∈ setOfList ((bodyItems body).map DegItem.render), ∃ i : DegItem, i.render = x := by
    intro x hx
    obtain ⟨i, _, hi⟩ := List.mem_map.1 (mem_setOfList.1 hx)
    exact ⟨i, hi⟩
  have hne0 : labelQuality body = none → setOfList ((bodyItems body).map DegItem.render) ≠ [] := by
    intro hq
    match body, hq with
    | some (.degsOnly d ds), _ => exact setOfList_cons_ne_nil _ _
  cases r with
  | false =>
    refine ⟨labelQuality body, setOfList ((bodyItems body).map DegItem.render), ?_, nodup_setOfList _, hD0, hne0, ?_⟩
    · simp [components, applyReduce, rawComponents, bodyQuality_eq]
    · intro X B; rfl
  | true =>
    refine ⟨reduxQ (labelQuality body),
      setUnion (setOfList ((bodyItems body).map DegItem.render)) ((reduxAdds (labelQuality body)).map DegItem.render),
      ?_, nodup_setUnion (nodup_setOfList _) _, ?_, ?_, ?_⟩
    · simp [components, applyReduce, rawComponents, bodyQuality_eq, reduce_spec]
    · intro x hx
      rcases mem_setUnion.1 hx with h | h
      · exact hD0 x h
      · obtain ⟨i, _, hi⟩ := List.mem_map.1 h
        exact ⟨i, hi⟩
    · intro hq
      exact setUnion_ne_nil _ (hne0 (reduxQ_eq_none hq))
    · intro X B
      have := reduxQ_idem (labelQuality body)
      simp [applyReduce, reduce_spec, this.1, this.2, setUnion]

theorem pyEncode_render_chord (L : Letter) (a : Acc) (body : Option Body) (bass : Option Degree) (r sb : Bool) :
    pyEncode (Label.render (.chord L a body bass)) r sb =
      encodeParts (components (.chord L a body bass) r) r sb := by
  unfold pyEncode
  rw [if_neg (render_chord_ne_noChord L a body bass), if_neg (render_chord_ne_xChord L a body bass), pySplit_render]

theorem join_split_encode_chord (L : Letter) (a : Acc) (body : Option Body) (bass : Option Degree) (r sb : Bool)
    (root q : Str) (D : List Str) (B : Str)
    (hs : pySplit (Label.render (.chord L a body bass)) r = .ok (root, q, D, B))
    (D' : List Str) (hp : D'.Perm D) :
    ∃ j, pyJoin root q (some D') B = .ok j ∧
      pyEncode j r sb = pyEncode (Label.render (.chord L a body bass)) r sb := by
  obtain ⟨q1, D1, hc, hnd, hall, hne, hfix⟩ := components_chord L a body bass r
  rw [pySplit_render, hc] at hs
  simp only [Except.ok.injEq, Prod.mk.injEq] at hs
  obtain ⟨rfl, rfl, rfl, rfl⟩ := hs
  have hnd' : D'.Nodup := hp.nodup_iff.2 hnd
  obtain ⟨is', rfl⟩ := exists_items (fun x hx => hall x (hp.mem_iff.1 hx))
  have hcond : q1 ≠ none ∨ is' ≠ [] := by
    by_cases hq : q1 = none
    · right
      intro e; subst e
      have := hne hq
      simp at hp
      exact this hp
    · left; exact hq
  have hj := joinRaw_render L a q1 is' bass hcond
  refine ⟨joinRaw (rootStr L a) (qualityStr q1) (some (is'.map DegItem.render)) (bassStr bass), ?_, ?_⟩
  · unfold pyJoin
    rw [hj, pyValidate_render]
  · rw [pyEncode_render_chord, hc]
    unfold pyEncode
    rw [hj, if_neg (render_chord_ne_noChord _ _ _ _), if_neg (render_chord_ne_xChord _ _ _ _), ← hj,
      pySplit_joinRaw L a q1 is' bass r hcond, hfix, setOfList_of_nodup hnd']
    apply encodeParts_perm _ _ _ _ _ hp
    intro x hx
    obtain ⟨i, rfl⟩ := hall x hx
    exact ⟨_, scaleDegreeToBitmap_render r i⟩

end Mir.Chord
