import MirProofs.Lemmas.Chord.Join
/-! What the primitives compute on rendered grammar pieces, against a hand-transcribed specification
    (letter pitch classes, major-scale degrees, accidental offsets). -/
namespace Mir.Chord
open MirGen

/-! ### Layer S: documented semantics of the pieces (transcribed by hand, NOT from the tables) -/

/-- sharps raise, flats lower, one semitone each -/
def Acc.offset : Acc → Int
  | .natural => 0
  | .flats n => -((n : Int) + 1)
  | .sharps n => (n : Int) + 1

/-- pitch class of the natural notes, C = 0 -/
def Letter.pc : Letter → Int
  | .C => 0 | .D => 2 | .E => 4 | .F => 5 | .G => 7 | .A => 9 | .B => 11

/-- semitones above the root of the major-scale degrees 1..13 -/
def DegNum.semitone : DegNum → Int
  | .d1 => 0 | .d2 => 2 | .d3 => 4 | .d4 => 5 | .d5 => 7 | .d6 => 9 | .d7 => 11
  | .d8 => 12 | .d9 => 14 | .d10 => 16 | .d11 => 17 | .d12 => 19 | .d13 => 21

def Degree.semitone (d : Degree) : Int := d.num.semitone + d.acc.offset

/-- the edit vector of one `[*]degree`: ±1 at the degree's semitone (mod 12); degrees of the second octave
    count only when `modulo` (= reduce_extended_chords) is set -/
def itemBitmap (m : Bool) (i : DegItem) : List Int :=
  if i.deg.semitone < 12 ∨ m = true then
    (List.replicate 12 (0 : Int)).set (i.deg.semitone % 12).toNat (if i.omitted then -1 else 1)
  else List.replicate 12 0

/-! ### G-facts: the regenerated tables agree with the transcription -/

theorem pitchClasses_lookup (L : Letter) : Tables.pitchClasses.lookup [L.char] = some L.pc := by
  cases L <;> rfl

theorem scaleDegrees_lookup (n : DegNum) : Tables.scaleDegrees.lookup n.render = some n.semitone := by
  cases n <;> rfl

/-! ### primitives on rendered pieces -/

theorem accLoop_flats (v : Int) (n : Nat) : accLoop (some v) (List.replicate n 'b') = .ok (some (v - n)) := by
  induction n generalizing v with
  | zero => simp [accLoop]
  | succ n ih =>
    have : accLoop (some v) ('b' :: List.replicate n 'b') = accLoop (some (v - 1)) (List.replicate n 'b') := by
      simp [accLoop]
    rw [List.replicate_succ, this, ih]
    congr 2; omega

theorem accLoop_sharps (v : Int) (n : Nat) : accLoop (some v) (List.replicate n '#') = .ok (some (v + n)) := by
  induction n generalizing v with
  | zero => simp [accLoop]
  | succ n ih =>
    have : accLoop (some v) ('#' :: List.replicate n '#') = accLoop (some (v + 1)) (List.replicate n '#') := by
      simp [accLoop]
    rw [List.replicate_succ, this, ih]
    congr 2; omega

theorem pitchClass_rootStr (L : Letter) (a : Acc) :
    pitchClassToSemitone (rootStr L a) = .ok ((L.pc + a.offset) % 12) := by
  simp only [rootStr, pitchClassToSemitone, pitchClasses_lookup]
  cases a with
  | natural => simp [Acc.render, accLoop, Acc.offset]
  | flats n =>
    simp only [Acc.render, accLoop_flats, Acc.offset]
    have : L.pc - ((n + 1 : Nat) : Int) = L.pc + -((n : Int) + 1) := by omega
    rw [this]
  | sharps n =>
    simp only [Acc.render, accLoop_sharps, Acc.offset]
    have : L.pc + ((n + 1 : Nat) : Int) = L.pc + ((n : Int) + 1) := by omega
    rw [this]

theorem digit_ne_flat : ∀ c ∈ digitAlpha, (c == 'b') = false := by decide
theorem digit_ne_sharp : ∀ c ∈ digitAlpha, (c == '#') = false := by decide

theorem degreeOffset_render (d : Degree) : degreeOffset d.render = (d.acc.offset, d.num.render) := by
  have hdig := DegNum.render_chars d.num
  obtain ⟨a, n⟩ := d
  cases a with
  | natural =>
    have h1 : n.render.head? ≠ some '#' := head?_ne_of_alpha hdig (by decide)
    have h2 : n.render.head? ≠ some 'b' := head?_ne_of_alpha hdig (by decide)
    simp [degreeOffset, Degree.render, Acc.render, h1, h2, Acc.offset]
  | flats k =>
    have hc : n.render.count 'b' = 0 := count_zero_of_alpha hdig (by decide)
    have hs : stripChars (· == 'b') (List.replicate (k + 1) 'b' ++ n.render) = n.render :=
      stripChars_prefix _ _ (by simp) (fun c hc => digit_ne_flat c (hdig c hc))
    show degreeOffset (List.replicate (k + 1) 'b' ++ n.render) = (-((k : Int) + 1), n.render)
    unfold degreeOffset
    rw [if_neg (by simp [List.replicate_succ]), if_pos (by simp [List.replicate_succ]), hs]
    simp [List.count_append, hc]
  | sharps k =>
    have hc : n.render.count '#' = 0 := count_zero_of_alpha hdig (by decide)
    have hs : stripChars (· == '#') (List.replicate (k + 1) '#' ++ n.render) = n.render :=
      stripChars_prefix _ _ (by simp) (fun c hc => digit_ne_sharp c (hdig c hc))
    show degreeOffset (List.replicate (k + 1) '#' ++ n.render) = ((k : Int) + 1, n.render)
    unfold degreeOffset
    rw [if_pos (by simp [List.replicate_succ]), hs]
    simp [List.count_append, hc]

theorem scaleDegreeToSemitone_render (d : Degree) : scaleDegreeToSemitone d.render = .ok d.semitone := by
  simp only [scaleDegreeToSemitone, degreeOffset_render, scaleDegrees_lookup, Degree.semitone]

theorem scaleDegreeToSemitone_bassStr (b : Option Degree) :
    scaleDegreeToSemitone (bassStr b) = .ok (match b with | none => 0 | some d => d.semitone) := by
  cases b with
  | none => rfl
  | some d => exact scaleDegreeToSemitone_render d

theorem deg_ne_star : ∀ c ∈ degAlpha, (c == '*') = false := by decide

theorem degreeSign_render (i : DegItem) :
    degreeSign i.render = ((if i.omitted then -1 else 1), i.deg.render) := by
  obtain ⟨o, d⟩ := i
  have hch := Degree.render_chars d
  cases o with
  | true =>
    have hs : stripChars (· == '*') (['*'] ++ d.render) = d.render :=
      stripChars_prefix _ _ (by simp) (fun c hc => deg_ne_star c (hch c hc))
    simp only [DegItem.render, degreeSign, if_true]
    rw [if_pos (by simp), hs]
  | false =>
    have h1 : d.render.head? ≠ some '*' := head?_ne_of_alpha hch (by decide)
    simp [DegItem.render, degreeSign, h1]

theorem scaleDegreeToBitmap_render (m : Bool) (i : DegItem) :
    scaleDegreeToBitmap i.render m = .ok (itemBitmap m i) := by
  have h12 : ((12 : Nat) : Int) = 12 := rfl
  simp only [scaleDegreeToBitmap, degreeSign_render, scaleDegreeToSemitone_render, bitmapLength_eq, itemBitmap,
    h12]
  by_cases h : i.deg.semitone < 12 ∨ m = true
  · rw [if_pos h, if_pos h]
  · rw [if_neg h, if_neg h]

theorem bitmapOfStr_render (m : Bool) (i : DegItem) : bitmapOfStr m i.render = itemBitmap m i := by
  simp [bitmapOfStr, scaleDegreeToBitmap_render]

end Mir.Chord
