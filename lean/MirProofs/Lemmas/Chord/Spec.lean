import MirProofs.Lemmas.Chord.Grammar
/-! Layer S: what `split` must return for a grammar-derivable label (`components`), in terms of the grammar tree. -/
namespace Mir.Chord

def rootStr (L : Letter) (a : Acc) : Str := L.char :: a.render

/-- quality field: "maj" for a bare root, the shorthand if there is one, "" for `:(degrees)` -/
def bodyQuality : Option Body → Str
  | none => ['m', 'a', 'j']
  | some (.short q _) => q.name
  | some (.degsOnly _ _) => []

def bodyItems : Option Body → List DegItem
  | none => []
  | some (.short _ none) => []
  | some (.short _ (some (d, ds))) => d :: ds
  | some (.degsOnly d ds) => d :: ds

def bassStr : Option Degree → Str
  | none => ['1']
  | some d => d.render

/-- the parts of a label before the optional reduction of extended chords -/
def rawComponents (L : Letter) (a : Acc) (body : Option Body) (bass : Option Degree) : Parts :=
  (rootStr L a, bodyQuality body, setOfList ((bodyItems body).map DegItem.render), bassStr bass)

/-- `split(render l, r)` as a function of the grammar tree -/
def components (l : Label) (r : Bool) : Parts :=
  match l with
  | .N => (['N'], [], [], [])
  | .X => applyReduce r (['X'], ['m', 'a', 'j'], [], ['1'])
  | .chord L a body bass => applyReduce r (rawComponents L a body bass)

end Mir.Chord
