import MirProofs.Lemmas.Chord.Spec
/-! `pyValidate` / `pySplit` on rendered labels (`split_render`) and on arbitrary strings (totality by counting). -/
namespace Mir.Chord
open MirGen

/-! ### validation -/

theorem reMatch_iff (s : Str) : reMatch s = true ↔ ∃ l : Label, l.render = s := by
  unfold reMatch inLanguage
  constructor
  · intro h
    obtain ⟨l, hl⟩ := Option.isSome_iff_exists.1 h
    exact ⟨l, recognize_sound hl⟩
  · rintro ⟨l, rfl⟩
    simp [recognize_render]

theorem pyValidate_ok_iff (s : Str) : pyValidate s = .ok () ↔ reMatch s = true := by
  unfold pyValidate; split <;> simp_all

theorem pyValidate_total (s : Str) : pyValidate s = .ok () ∨ pyValidate s = .error .invalidChord := by
  unfold pyValidate; split <;> simp

theorem pyValidate_render (l : Label) : pyValidate l.render = .ok () :=
  (pyValidate_ok_iff _).2 ((reMatch_iff _).2 ⟨l, rfl⟩)

/-! ### sets -/

theorem setInsert_ne_nil (s : List Str) (x : Str) : setInsert s x ≠ [] := by
  unfold setInsert; split
  · rename_i h; intro e; subst e; simp at h
  · simp

theorem setUnion_ne_nil {s : List Str} (t : List Str) (h : s ≠ []) : setUnion s t ≠ [] := by
  unfold setUnion
  induction t generalizing s with
  | nil => simpa using h
  | cons x t ih => exact ih (setInsert_ne_nil s x)

theorem setOfList_cons_ne_nil (x : Str) (xs : List Str) : setOfList (x :: xs) ≠ [] := by
  unfold setOfList setUnion
  exact setUnion_ne_nil xs (setInsert_ne_nil [] x)

theorem setOfList_nil : setOfList [] = [] := rfl

/-! ### alphabets of the root -/

def rootAlpha : List Char := ['A', 'B', 'C', 'D', 'E', 'F', 'G', 'b', '#']

theorem rootStr_chars (L : Letter) (a : Acc) : ∀ c ∈ rootStr L a, c ∈ rootAlpha := by
  intro c hc
  simp only [rootStr, List.mem_cons] at hc
  rcases hc with h | h
  · subst h; cases L <;> decide
  · have := Acc.render_chars a c h
    simp [rootAlpha] at this ⊢; rcases this with h | h <;> simp [h]

/-- text of the body before the parenthesis -/
def bodyHead : Option Body → Str
  | none => []
  | some (.short q _) => ':' :: q.name
  | some (.degsOnly _ _) => [':']

def headAlpha : List Char := ':' :: nameAlpha

theorem bodyHead_chars (b : Option Body) : ∀ c ∈ bodyHead b, c ∈ headAlpha := by
  intro c hc
  match b, hc with
  | none, hc => simp [bodyHead] at hc
  | some (.short q _), hc =>
    simp only [bodyHead, List.mem_cons] at hc
    rcases hc with h | h
    · simp [headAlpha, h]
    · exact List.mem_cons_of_mem _ (Shorthand.name_chars q c h)
  | some (.degsOnly _ _), hc => simp [bodyHead] at hc; simp [headAlpha, hc]

/-- text of the body from the parenthesis on -/
def bodyParen : Option Body → Str
  | none => []
  | some (.short _ none) => []
  | some (.short _ (some (d, ds))) => renderParen d ds
  | some (.degsOnly d ds) => renderParen d ds

theorem renderBody_eq (b : Option Body) : renderBody b = bodyHead b ++ bodyParen b := by
  match b with
  | none => rfl
  | some (.short q none) => simp [renderBody, Body.render, bodyHead, bodyParen]
  | some (.short q (some (d, ds))) => simp [renderBody, Body.render, bodyHead, bodyParen]
  | some (.degsOnly d ds) => simp [renderBody, Body.render, bodyHead, bodyParen]

theorem bodyParen_eq (b : Option Body) :
    bodyParen b = [] ∧ bodyItems b = [] ∨
    ∃ d ds, bodyItems b = d :: ds ∧ bodyParen b = '(' :: (joinSep ',' ((d :: ds).map DegItem.render) ++ [')']) := by
  match b with
  | none => left; exact ⟨rfl, rfl⟩
  | some (.short q none) => left; exact ⟨rfl, rfl⟩
  | some (.short q (some (d, ds))) => right; exact ⟨d, ds, rfl, rfl⟩
  | some (.degsOnly d ds) => right; exact ⟨d, ds, rfl, rfl⟩

theorem render_chord_eq (L : Letter) (a : Acc) (body : Option Body) (bass : Option Degree) :
    Label.render (.chord L a body bass) = (rootStr L a ++ bodyHead body ++ bodyParen body) ++ renderBass bass := by
  simp [Label.render, rootStr, renderBody_eq]

/-! ### the three cuts on a rendered label -/

theorem prefix_no_slash (L : Letter) (a : Acc) (body : Option Body) :
    '/' ∉ rootStr L a ++ bodyHead body ++ bodyParen body := by
  have h1 : '/' ∉ rootStr L a := not_mem_of_alpha (rootStr_chars L a) (by decide)
  have h2 : '/' ∉ renderBody body := slash_not_mem_body body
  rw [renderBody_eq] at h2
  simp only [List.mem_append, not_or] at h2 ⊢
  exact ⟨⟨h1, h2.1⟩, h2.2⟩

theorem splitBass_render (L : Letter) (a : Acc) (body : Option Body) (bass : Option Degree) :
    splitBass (Label.render (.chord L a body bass)) =
      .ok (rootStr L a ++ bodyHead body ++ bodyParen body, bassStr bass) := by
  rw [render_chord_eq]
  have hp := prefix_no_slash L a body
  cases bass with
  | none =>
    have : (rootStr L a ++ bodyHead body ++ bodyParen body ++ renderBass none).contains '/' = false := by
      simpa [renderBass] using hp
    simp only [splitBass, this]
    simp [renderBass, bassStr]
  | some d =>
    have hd : '/' ∉ d.render := not_mem_of_alpha (Degree.render_chars d) (by decide)
    have : (rootStr L a ++ bodyHead body ++ bodyParen body ++ '/' :: d.render).contains '/' = true := by
      simp
    simp only [renderBass]
    unfold splitBass
    rw [if_pos this, splitOn_append _ hp, splitOn_of_not_mem hd]
    rfl

theorem isPySpace_itemAlpha : ∀ c ∈ itemAlpha, isPySpace c = false := by decide

theorem isPySpace_item (i : DegItem) : ∀ c ∈ i.render, isPySpace c = false :=
  fun c hc => isPySpace_itemAlpha c (DegItem.render_chars i c hc)

theorem rparen_itemAlpha : ∀ c ∈ ',' :: itemAlpha, (c == ')') = false := by decide

theorem head_no_lparen (L : Letter) (a : Acc) (body : Option Body) : '(' ∉ rootStr L a ++ bodyHead body := by
  have h1 : '(' ∉ rootStr L a := not_mem_of_alpha (rootStr_chars L a) (by decide)
  have h2 : '(' ∉ bodyHead body := not_mem_of_alpha (bodyHead_chars body) (by decide)
  simp [h1, h2]

theorem splitDegrees_render (L : Letter) (a : Acc) (body : Option Body) :
    ∃ om, splitDegrees (rootStr L a ++ bodyHead body ++ bodyParen body) =
      .ok (rootStr L a ++ bodyHead body, setOfList ((bodyItems body).map DegItem.render), om) := by
  have hh := head_no_lparen L a body
  rcases bodyParen_eq body with ⟨hp, hi⟩ | ⟨d, ds, hi, hp⟩
  · rw [hp, hi]
    have : (rootStr L a ++ bodyHead body ++ []).contains '(' = false := by simpa using hh
    exact ⟨false, by simp only [splitDegrees, this]; simp [setOfList_nil]⟩
  · rw [hp, hi]
    have hc : (rootStr L a ++ bodyHead body ++
        '(' :: (joinSep ',' ((d :: ds).map DegItem.render) ++ [')'])).contains '(' = true := by simp
    have hin : ∀ c ∈ joinSep ',' ((d :: ds).map DegItem.render), c ∈ ',' :: itemAlpha := joinItems_chars (d :: ds)
    have hnl : '(' ∉ joinSep ',' ((d :: ds).map DegItem.render) ++ [')'] := by
      simp only [List.mem_append, not_or]
      exact ⟨not_mem_of_alpha hin (by decide), by decide⟩
    refine ⟨(joinSep ',' ((d :: ds).map DegItem.render) ++ [')']).contains '*', ?_⟩
    simp only [splitDegrees, hc, if_true]
    rw [splitOn_append _ hh, splitOn_of_not_mem hnl]
    simp only [unpack2]
    rw [stripChars_suffix _ [')'] (by simp) (fun c hc => rparen_itemAlpha c (hin c hc))]
    rw [splitOn_joinSep (by simp) (by
      intro x hx
      obtain ⟨i, _, rfl⟩ := List.mem_map.1 hx
      exact comma_not_mem_item i)]
    have : ((d :: ds).map DegItem.render).map (stripChars isPySpace) = (d :: ds).map DegItem.render := by
      rw [List.map_map]
      apply List.map_congr_left
      intro i _
      exact stripChars_none (isPySpace_item i)
    rw [this]

theorem pyLower_name (q : Shorthand) : pyLower q.name = q.name := by cases q <;> rfl

theorem splitQuality_render (L : Letter) (a : Acc) (body : Option Body) :
    splitQuality (rootStr L a ++ bodyHead body)
        (if (setOfList ((bodyItems body).map DegItem.render)).isEmpty then ['m', 'a', 'j'] else []) =
      .ok (rootStr L a, bodyQuality body) := by
  have hr : ':' ∉ rootStr L a := not_mem_of_alpha (rootStr_chars L a) (by decide)
  match body with
  | none =>
    have : (rootStr L a ++ bodyHead none).contains ':' = false := by simpa [bodyHead] using hr
    simp only [splitQuality, this]
    simp [bodyHead, bodyItems, setOfList_nil, bodyQuality]
  | some (.short q x) =>
    have hq : ':' ∉ q.name := not_mem_of_alpha (Shorthand.name_chars q) (by decide)
    have : (rootStr L a ++ ':' :: q.name).contains ':' = true := by simp
    simp only [bodyHead]
    unfold splitQuality
    rw [if_pos this, splitOn_append _ hr, splitOn_of_not_mem hq]
    simp only [unpack2]
    have hne : q.name.isEmpty = false := by
      have := Shorthand.name_ne_nil q
      cases h : q.name <;> simp_all
    simp [hne, pyLower_name, bodyQuality]
  | some (.degsOnly d ds) =>
    have : (rootStr L a ++ [':']).contains ':' = true := by simp
    simp only [bodyHead]
    unfold splitQuality
    rw [if_pos this, splitOn_append _ hr]
    have hne : (setOfList ((bodyItems (some (.degsOnly d ds))).map DegItem.render)).isEmpty = false := by
      have := setOfList_cons_ne_nil d.render (ds.map DegItem.render)
      simp only [bodyItems, List.map_cons]
      cases h : setOfList (d.render :: ds.map DegItem.render) <;> simp_all
    simp [splitOn, unpack2, hne, bodyQuality]

theorem omission_guard (L : Letter) (a : Acc) (body : Option Body) (om : Bool)
    (h : splitDegrees (rootStr L a ++ bodyHead body ++ bodyParen body) =
      .ok (rootStr L a ++ bodyHead body, setOfList ((bodyItems body).map DegItem.render), om)) :
    (om && !(rootStr L a ++ bodyHead body).contains ':') = false := by
  rcases bodyParen_eq body with ⟨hp, _⟩ | ⟨d, ds, hi, hp⟩
  · have hh := head_no_lparen L a body
    rw [hp] at h
    have : (rootStr L a ++ bodyHead body ++ []).contains '(' = false := by simpa using hh
    simp only [splitDegrees, this] at h
    simp at h
    simp [h.2]
  · have : (rootStr L a ++ bodyHead body).contains ':' = true := by
      match body, hi with
      | some (.short q (some _)), _ => simp [bodyHead]
      | some (.degsOnly _ _), _ => simp [bodyHead]
    rw [this]; simp

theorem splitCore_render (L : Letter) (a : Acc) (body : Option Body) (bass : Option Degree) (r : Bool) :
    splitCore (Label.render (.chord L a body bass)) r = .ok (applyReduce r (rawComponents L a body bass)) := by
  obtain ⟨om, hd⟩ := splitDegrees_render L a body
  unfold splitCore
  simp only [splitBass_render, hd, omission_guard L a body om hd, splitQuality_render]
  simp [rawComponents]

theorem render_chord_ne_noChord (L : Letter) (a : Acc) (body : Option Body) (bass : Option Degree) :
    Label.render (.chord L a body bass) ≠ Tables.noChord := by
  simp only [Label.render, Tables.noChord]; cases L <;> simp [Letter.char]

theorem render_chord_ne_xChord (L : Letter) (a : Acc) (body : Option Body) (bass : Option Degree) :
    Label.render (.chord L a body bass) ≠ Tables.xChord := by
  simp only [Label.render, Tables.xChord]; cases L <;> simp [Letter.char]

theorem pySplit_render (l : Label) (r : Bool) : pySplit l.render r = .ok (components l r) := by
  unfold pySplit
  rw [pyValidate_render]
  match l with
  | .N => rfl
  | .X => cases r <;> rfl
  | .chord L a body bass =>
    simp only [if_neg (render_chord_ne_noChord L a body bass), splitCore_render, components]

end Mir.Chord
