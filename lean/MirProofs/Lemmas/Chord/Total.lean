import MirProofs.Lemmas.Chord.Split
/-! Totality of `split` and `encode` on ARBITRARY strings: only `InvalidChord` can come out.
    The 2-target unpackings cannot fail because an accepted string has at most one `/`, `(` and `:`. -/
namespace Mir.Chord
open MirGen

structure Counts (s : Str) : Prop where
  slash : s.count '/' ≤ 1
  lparen : s.count '(' ≤ 1
  colon : s.count ':' ≤ 1

theorem count_prefix_le {a s : Str} (h : a <+: s) (c : Char) : a.count c ≤ s.count c :=
  h.sublist.count_le c

theorem cut_total {sep : Char} {s : Str} (h : s.count sep ≤ 1) (hm : s.contains sep = true) :
    ∃ a b, unpack2 (splitOn sep s) = .ok (a, b) ∧ a <+: s := by
  have h1 : s.count sep = 1 := by
    have : 0 < s.count sep := List.count_pos_iff.2 (by simpa using hm)
    omega
  obtain ⟨a, b, hab⟩ := unpack2_splitOn_of_count h1
  exact ⟨a, b, hab, by rw [(unpack2_splitOn_ok hab).1]; exact List.prefix_append _ _⟩

theorem splitBass_total {s : Str} (h : s.count '/' ≤ 1) :
    ∃ label bass, splitBass s = .ok (label, bass) ∧ label <+: s := by
  unfold splitBass
  split
  · rename_i hm
    obtain ⟨a, b, hab, hp⟩ := cut_total h hm
    exact ⟨a, b, hab, hp⟩
  · exact ⟨s, ['1'], rfl, List.prefix_refl s⟩

theorem splitDegrees_total {label : Str} (h : label.count '(' ≤ 1) :
    ∃ label' degs om, splitDegrees label = .ok (label', degs, om) ∧ label' <+: label := by
  unfold splitDegrees
  split
  · rename_i hm
    obtain ⟨a, b, hab, hp⟩ := cut_total h hm
    rw [hab]
    exact ⟨a, _, _, rfl, hp⟩
  · exact ⟨label, [], false, rfl, List.prefix_refl _⟩

theorem splitQuality_total {label : Str} (dflt : Str) (h : label.count ':' ≤ 1) :
    ∃ root q, splitQuality label dflt = .ok (root, q) ∧ root <+: label := by
  unfold splitQuality
  split
  · rename_i hm
    obtain ⟨a, b, hab, hp⟩ := cut_total h hm
    rw [hab]
    exact ⟨a, _, rfl, hp⟩
  · exact ⟨label, dflt, rfl, List.prefix_refl _⟩

theorem applyReduce_fst (r : Bool) (p : Parts) : (applyReduce r p).1 = p.1 := by
  unfold applyReduce; split <;> rfl

theorem applyReduce_bass (r : Bool) (p : Parts) : (applyReduce r p).2.2.2 = p.2.2.2 := by
  unfold applyReduce; split <;> rfl

theorem splitCore_total {s : Str} (r : Bool) (hc : Counts s) :
    (∃ p, splitCore s r = .ok p ∧ p.1 <+: s) ∨ splitCore s r = .error .invalidChord := by
  obtain ⟨label, bass, h1, hp1⟩ := splitBass_total hc.slash
  obtain ⟨label', degs, om, h2, hp2⟩ :=
    splitDegrees_total (label := label) (Nat.le_trans (count_prefix_le hp1 _) hc.lparen)
  have hp3 := hp2.trans hp1
  obtain ⟨root, q, h3, hp4⟩ :=
    splitQuality_total (label := label') (if degs.isEmpty then ['m', 'a', 'j'] else [])
      (Nat.le_trans (count_prefix_le hp3 _) hc.colon)
  unfold splitCore
  simp only [h1, h2, h3]
  split
  · right; rfl
  · left; exact ⟨_, rfl, by rw [applyReduce_fst]; exact hp4.trans hp3⟩

/-! ### counting separators in rendered labels -/

theorem count_zero_of_alpha {s alpha : List Char} (h : ∀ c ∈ s, c ∈ alpha) {x : Char} (hx : x ∉ alpha) :
    s.count x = 0 := List.count_eq_zero.2 (not_mem_of_alpha h hx)

theorem renderBass_chars (b : Option Degree) : ∀ c ∈ renderBass b, c ∈ '/' :: degAlpha := by
  cases b with
  | none => simp [renderBass]
  | some d =>
    intro c hc
    simp only [renderBass, List.mem_cons] at hc
    rcases hc with h | h
    · simp [h]
    · exact List.mem_cons_of_mem _ (Degree.render_chars d c h)

theorem bodyParen_chars (b : Option Body) : ∀ c ∈ bodyParen b, c ∈ parenAlpha := by
  match b with
  | none => simp [bodyParen]
  | some (.short q none) => simp [bodyParen]
  | some (.short q (some (d, ds))) => exact renderParen_chars d ds
  | some (.degsOnly d ds) => exact renderParen_chars d ds

theorem counts_render (l : Label) : Counts l.render := by
  match l with
  | .N => exact ⟨by decide, by decide, by decide⟩
  | .X => exact ⟨by decide, by decide, by decide⟩
  | .chord L a body bass =>
    rw [render_chord_eq]
    have hr := rootStr_chars L a
    have hh := bodyHead_chars body
    have hp := bodyParen_chars body
    have hb := renderBass_chars bass
    refine ⟨?_, ?_, ?_⟩
    · simp only [List.count_append, count_zero_of_alpha hr (x := '/') (by decide),
        count_zero_of_alpha hh (x := '/') (by decide), count_zero_of_alpha hp (x := '/') (by decide)]
      cases bass with
      | none => simp [renderBass]
      | some d =>
        have := count_zero_of_alpha (Degree.render_chars d) (x := '/') (by decide)
        simp [renderBass, this]
    · simp only [List.count_append, count_zero_of_alpha hr (x := '(') (by decide),
        count_zero_of_alpha hh (x := '(') (by decide), count_zero_of_alpha hb (x := '(') (by decide)]
      rcases bodyParen_eq body with ⟨h, _⟩ | ⟨d, ds, _, h⟩
      · simp [h]
      · have := count_zero_of_alpha (joinItems_chars (d :: ds)) (x := '(') (by decide)
        rw [h]
        simp only [List.map_cons] at this
        simp [List.count_append, this]
    · simp only [List.count_append, count_zero_of_alpha hr (x := ':') (by decide),
        count_zero_of_alpha hp (x := ':') (by decide), count_zero_of_alpha hb (x := ':') (by decide)]
      match body with
      | none => simp [bodyHead]
      | some (.short q _) =>
        have := count_zero_of_alpha (Shorthand.name_chars q) (x := ':') (by decide)
        simp [bodyHead, this]
      | some (.degsOnly _ _) => simp [bodyHead]

theorem counts_of_reMatch {s : Str} (h : reMatch s = true) : Counts s := by
  obtain ⟨l, rfl⟩ := (reMatch_iff s).1 h
  exact counts_render l

theorem pySplit_total (s : Str) (r : Bool) :
    (∃ p, pySplit s r = .ok p ∧ (s ≠ Tables.noChord → p.1 <+: s)) ∨ pySplit s r = .error .invalidChord := by
  unfold pySplit
  rcases pyValidate_total s with hv | hv
  · rw [hv]
    by_cases hN : s = Tables.noChord
    · left; simp [hN]
    · simp only [if_neg hN]
      rcases splitCore_total r (counts_of_reMatch ((pyValidate_ok_iff s).1 hv)) with ⟨p, hp, hpre⟩ | he
      · left; exact ⟨p, hp, fun _ => hpre⟩
      · right; exact he
  · rw [hv]; right; rfl

end Mir.Chord
