import MirModel.ChordCompare
import Mathlib.Tactic.IntervalCases
import Mathlib.Tactic.Ring
import Mathlib.Tactic.Linarith

namespace Mir.ChordCompare

theorem b2i_cases (b : Bool) : b2i b = 0 ∨ b2i b = 1 := by
  cases b <;> simp [b2i]

@[simp] theorem b2i_eq_one (b : Bool) : b2i b = 1 ↔ b = true := by
  cases b <;> simp [b2i]

@[simp] theorem b2i_eq_zero (b : Bool) : b2i b = 0 ↔ b = false := by
  cases b <;> simp [b2i]

@[simp] theorem b2i_ne_neg_one (b : Bool) : b2i b ≠ -1 := by
  cases b <;> simp [b2i]

theorem b2i_mono {b c : Bool} (h : b = true → c = true) : b2i b ≤ b2i c := by
  cases b <;> cases c <;> simp_all [b2i]

theorem maskX_cases (r : Enc) (s : Int) : maskX r s = -1 ∨ maskX r s = s := by
  unfold maskX; split <;> simp

theorem cmp_values_all (rule : Rule) (a b : Enc) :
    cmp rule a b = -1 ∨ cmp rule a b = 0 ∨ cmp rule a b = 1 := by
  cases rule <;>
    simp only [cmp, thirds, thirdsInv, triads, triadsInv, tetrads, tetradsInv, root, mirex, majmin, majminInv,
      sevenths, seventhsInv, maskX] <;>
    (repeat' split) <;>
    first
      | (right; exact b2i_cases _)
      | simp

/-- The reference-only predicate "this rule does not compare the reference" (score −1). -/
def ignored : Rule → Enc → Bool
  | .thirds, a | .thirdsInv, a | .triads, a | .triadsInv, a | .tetrads, a | .tetradsInv, a | .root, a =>
      anyNeg a.bm
  | .mirex, a => (decide (countPos a.bm > 0) && decide (countPos a.bm < 3)) || anyNeg a.bm
  | .majmin, a => !majminVocab a
  | .majminInv, a => !majminVocab a || !validInversion a
  | .sevenths, a => !seventhsVocab a
  | .seventhsInv, a => !seventhsVocab a || !validInversion a

theorem cmp_eq_neg_one_iff (rule : Rule) (a b : Enc) : cmp rule a b = -1 ↔ ignored rule a = true := by
  cases rule <;>
    simp only [cmp, thirds, thirdsInv, triads, triadsInv, tetrads, tetradsInv, root, mirex, majmin, majminInv,
      sevenths, seventhsInv, maskX, ignored] <;>
    (repeat' split) <;> simp_all

/-! ### reachable encodings -/

/-- the third disjunct of `Reachable`: a real chord -/
def Regular (e : Enc) : Prop :=
  0 ≤ e.root ∧ e.root < 12 ∧ e.bm.length = 12 ∧ (∀ v ∈ e.bm, v = 0 ∨ v = 1) ∧
    0 ≤ e.bass ∧ e.bass < 12 ∧ e.bm[e.bass.toNat]? = some 1

theorem reachable_iff (e : Enc) : Reachable e ↔ e = noChord ∨ e = xChord ∨ Regular e := Iff.rfl

theorem anyNeg_of_01 {bm : List Int} (h : ∀ v ∈ bm, v = 0 ∨ v = 1) : anyNeg bm = false := by
  unfold anyNeg
  rw [List.any_eq_false]
  intro v hv
  rcases h v hv with h | h <;> simp [h]

theorem Regular.not_anyNeg {e : Enc} (h : Regular e) : anyNeg e.bm = false := anyNeg_of_01 h.2.2.2.1

theorem reachable_anyNeg_iff {e : Enc} (h : Reachable e) : anyNeg e.bm = true ↔ e = xChord := by
  rcases h with h | h | h
  · subst h; decide
  · subst h; decide
  · have := Regular.not_anyNeg h
    constructor
    · intro h'; simp [this] at h'
    · intro h'; subst h'; exact absurd h.1 (by decide)

theorem Regular.ne_noChord {e : Enc} (h : Regular e) : e ≠ noChord := by
  intro h'; subst h'; exact absurd h.1 (by decide)

theorem Regular.ne_xChord {e : Enc} (h : Regular e) : e ≠ xChord := by
  intro h'; subst h'; exact absurd h.1 (by decide)

theorem Regular.wellShaped {e : Enc} (h : Regular e) : WellShaped e := ⟨h.2.2.1, h.2.2.2.2.2.1⟩

theorem Reachable.wellShaped {e : Enc} (h : Reachable e) : WellShaped e := by
  rcases h with h | h | h
  · subst h; decide
  · subst h; decide
  · exact Regular.wellShaped h

/-! ### the building blocks are nested -/

theorem eqAll_imp_eqPrefix8 {r e : Enc} (h : eqAll r e = true) : eqPrefix8 r e = true := by
  simp only [eqAll, eqPrefix8, beq_iff_eq] at *
  rw [h]

theorem eqPrefix8_imp_eqThird {r e : Enc} (h : eqPrefix8 r e = true) : eqThird r e = true := by
  simp only [eqThird, eqPrefix8, beq_iff_eq] at *
  have h3 : (r.bm.take 8)[3]? = (e.bm.take 8)[3]? := by rw [h]
  simpa [List.getElem?_take] using h3

theorem maskX_mono (r : Enc) {s t : Int} (h : s ≤ t) : maskX r s ≤ maskX r t := by
  unfold maskX; split <;> simp [h]

theorem tetradsInv_le_tetrads (a b : Enc) : tetradsInv a b ≤ tetrads a b :=
  maskX_mono a (b2i_mono (by simp; intro h1 h2 _; exact ⟨h1, h2⟩))

theorem triadsInv_le_triads (a b : Enc) : triadsInv a b ≤ triads a b :=
  maskX_mono a (b2i_mono (by simp; intro h1 h2 _; exact ⟨h1, h2⟩))

theorem thirdsInv_le_thirds (a b : Enc) : thirdsInv a b ≤ thirds a b :=
  maskX_mono a (b2i_mono (by simp; intro h1 h2 _; exact ⟨h1, h2⟩))

theorem tetrads_le_triads (a b : Enc) : tetrads a b ≤ triads a b :=
  maskX_mono a (b2i_mono (by simp; intro h1 h2; exact ⟨h1, eqAll_imp_eqPrefix8 h2⟩))

theorem triads_le_thirds (a b : Enc) : triads a b ≤ thirds a b :=
  maskX_mono a (b2i_mono (by simp; intro h1 h2; exact ⟨h1, eqPrefix8_imp_eqThird h2⟩))

theorem thirds_le_root (a b : Enc) : thirds a b ≤ root a b :=
  maskX_mono a (b2i_mono (by simp; intro h1 _; exact h1))

theorem tetradsInv_le_triadsInv (a b : Enc) : tetradsInv a b ≤ triadsInv a b :=
  maskX_mono a (b2i_mono (by simp; intro h1 h2 h3; exact ⟨⟨h1, eqAll_imp_eqPrefix8 h2⟩, h3⟩))

theorem triadsInv_le_thirdsInv (a b : Enc) : triadsInv a b ≤ thirdsInv a b :=
  maskX_mono a (b2i_mono (by simp; intro h1 h2 h3; exact ⟨⟨h1, eqPrefix8_imp_eqThird h2⟩, h3⟩))

theorem majminInv_le_majmin (a b : Enc) : majminInv a b ≤ majmin a b := by
  simp only [majminInv, majmin]
  have hm : b2i ((eqRoot a b && eqBass a b) && eqPrefix8 a b) ≤ b2i (eqRoot a b && eqPrefix8 a b) :=
    b2i_mono (by simp; intro h1 _ h3; exact ⟨h1, h3⟩)
  have h0 := b2i_cases (eqRoot a b && eqPrefix8 a b)
  repeat' split
  all_goals first | exact hm | omega

theorem seventhsInv_le_sevenths (a b : Enc) : seventhsInv a b ≤ sevenths a b := by
  simp only [seventhsInv, sevenths]
  have hm : b2i ((eqRoot a b && eqBass a b) && eqAll a b) ≤ b2i (eqRoot a b && eqAll a b) :=
    b2i_mono (by simp; intro h1 _ h3; exact ⟨h1, h3⟩)
  have h0 := b2i_cases (eqRoot a b && eqAll a b)
  repeat' split
  all_goals first | exact hm | omega

theorem seventhsVocab_not_anyNeg {a : Enc} (h : seventhsVocab a = true) : anyNeg a.bm = false := by
  simp only [seventhsVocab, seventhBitmaps, List.any_cons, List.any_nil, Bool.or_false, Bool.or_eq_true,
    beq_iff_eq] at h
  rcases h with h | h | h | h | h | h <;> rw [h] <;> decide

theorem sevenths_le_tetrads (a b : Enc) : sevenths a b ≤ tetrads a b := by
  simp only [sevenths, tetrads, maskX]
  have h0 := b2i_cases (eqRoot a b && eqAll a b)
  split
  · rename_i h; simp [seventhsVocab_not_anyNeg h]
  · split <;> omega

theorem majminVocab_not_anyNeg {a : Enc} (hr : Reachable a) (h : majminVocab a = true) :
    anyNeg a.bm = false := by
  rcases hr with hr | hr | hr
  · subst hr; decide
  · subst hr; exact absurd h (by decide)
  · exact Regular.not_anyNeg hr

theorem majmin_le_triads {a : Enc} (hr : Reachable a) (b : Enc) : majmin a b ≤ triads a b := by
  simp only [majmin, triads, maskX]
  have h0 := b2i_cases (eqRoot a b && eqPrefix8 a b)
  split
  · rename_i h; simp [majminVocab_not_anyNeg hr h]
  · split <;> omega

/-! ### mirex: chroma vectors -/

/-- entry `j` of `rotate bm r` for a 12-long bitmap, in closed form -/
def chromaAt (bm : List Int) (r : Int) (j : Nat) : Int :=
  if nzAt bm ((((j : Int) - r) % 12).toNat) then 1 else 0

theorem rotate_eq {bm : List Int} (hl : bm.length = 12) (r : Int) :
    rotate bm r = (List.range 12).map (chromaAt bm r) := by
  unfold rotate
  rw [hl]
  apply List.map_congr_left
  intro j hj
  have hj : j < 12 := List.mem_range.1 hj
  unfold chromaAt
  congr 1
  rw [List.contains_iff_mem, List.mem_map]
  apply propext
  constructor
  · rintro ⟨i, hi, hij⟩
    rw [List.mem_filter, List.mem_range] at hi
    have : (((j : Int) - r) % 12).toNat = i := by omega
    rw [this]; exact hi.2
  · intro h
    refine ⟨(((j : Int) - r) % 12).toNat, ?_, ?_⟩
    · rw [List.mem_filter, List.mem_range]; exact ⟨by omega, h⟩
    · omega

theorem zipWith_map_same {α β γ δ : Type} (h : β → γ → δ) (f : α → β) (g : α → γ) (l : List α) :
    List.zipWith h (l.map f) (l.map g) = l.map (fun x => h (f x) (g x)) := by
  induction l with
  | nil => rfl
  | cons a l ih => simp [ih]

theorem dot_map (f g : Nat → Int) (l : List Nat) :
    dot (l.map f) (l.map g) = (l.map (fun j => f j * g j)).sum := by
  unfold dot; rw [zipWith_map_same]

theorem range12 : List.range 12 = [0, 1, 2, 3, 4, 5, 6, 7, 8, 9, 10, 11] := by decide

theorem sum12_shift_aux (F : Nat → Int) (m : Int) (h0 : 0 ≤ m) (h1 : m < 12) :
    ((List.range 12).map (fun j : Nat => F ((((j : Int) - m) % 12).toNat))).sum = ((List.range 12).map F).sum := by
  rw [range12]
  interval_cases m <;> simp <;> ring

theorem sum12_shift (F : Nat → Int) (k : Int) :
    ((List.range 12).map (fun j : Nat => F ((((j : Int) - k) % 12).toNat))).sum = ((List.range 12).map F).sum := by
  have h := sum12_shift_aux F (k % 12) (by omega) (by omega)
  rw [← h]
  congr 1
  apply List.map_congr_left
  intro j _
  congr 2
  omega

theorem nzAt_cons_succ (a : Int) (l : List Int) (i : Nat) : nzAt (a :: l) (i + 1) = nzAt l i := by
  simp [nzAt]

theorem sum_ind_nzAt (bm : List Int) (h : ∀ v ∈ bm, v = 0 ∨ v = 1) :
    ((List.range bm.length).map (fun i => if nzAt bm i then (1 : Int) else 0)).sum = countPos bm := by
  induction bm with
  | nil => simp [countPos]
  | cons a l ih =>
    have ih := ih (fun v hv => h v (List.mem_cons_of_mem _ hv))
    rw [List.length_cons, List.range_succ_eq_map, List.map_cons, List.sum_cons, List.map_map]
    have : ((fun i => if nzAt (a :: l) i then (1 : Int) else 0) ∘ Nat.succ) =
        (fun i => if nzAt l i then (1 : Int) else 0) := by
      funext i; simp [nzAt_cons_succ]
    rw [this, ih]
    rcases h a (List.mem_cons_self) with ha | ha <;> subst ha <;> simp [nzAt, countPos]
    omega

theorem transposeEnc_bm (k : Int) (e : Enc) : (transposeEnc k e).bm = e.bm := by
  unfold transposeEnc; split <;> rfl

theorem transposeEnc_bass (k : Int) (e : Enc) : (transposeEnc k e).bass = e.bass := by
  unfold transposeEnc; split <;> rfl

theorem transposeEnc_regular {k : Int} {e : Enc} (h : Regular e) :
    transposeEnc k e = { e with root := (e.root + k) % 12 } := by
  unfold transposeEnc; rw [if_neg (by have := h.1; omega)]

theorem transposeEnc_noChord (k : Int) : transposeEnc k noChord = noChord := by
  unfold transposeEnc; rw [if_pos (by decide)]

theorem transposeEnc_xChord (k : Int) : transposeEnc k xChord = xChord := by
  unfold transposeEnc; rw [if_pos (by decide)]

theorem nzAt_noChord (i : Nat) : nzAt noChord.bm i = false := by
  unfold nzAt noChord
  simp only [List.getElem?_replicate]
  split <;> simp_all

theorem nzAt_xChord {i : Nat} (hi : i < 12) : nzAt xChord.bm i = true := by
  interval_cases i <;> decide

theorem chromaAt_transpose {e : Enc} (h : Reachable e) (k : Int) (j : Nat) :
    chromaAt (transposeEnc k e).bm (transposeEnc k e).root j =
      chromaAt e.bm e.root ((((j : Int) - k) % 12).toNat) := by
  rcases h with h | h | h
  · subst h; rw [transposeEnc_noChord]; simp [chromaAt, nzAt_noChord]
  · subst h; rw [transposeEnc_xChord]; unfold chromaAt
    rw [nzAt_xChord (by omega), nzAt_xChord (by omega)]
  · rw [transposeEnc_regular h]
    unfold chromaAt
    have h0 := h.1; have h1 := h.2.1
    have hidx : ((((j : Int) - (e.root + k) % 12) % 12).toNat) =
        (((((((j : Int) - k) % 12).toNat : Nat) : Int) - e.root) % 12).toNat := by omega
    simp only [hidx]

theorem transposeEnc_root_eq_neg_one {e : Enc} (h : Reachable e) (k : Int) :
    ((transposeEnc k e).root == -1) = (e.root == -1) := by
  rcases h with h | h | h
  · subst h; rw [transposeEnc_noChord]
  · subst h; rw [transposeEnc_xChord]
  · rw [transposeEnc_regular h]
    have h0 := h.1
    have : (e.root + k) % 12 ≠ -1 := by omega
    have : e.root ≠ -1 := by omega
    simp [*]

theorem mirex_transpose {a b : Enc} (ha : Reachable a) (hb : Reachable b) (k : Int) :
    mirex (transposeEnc k a) (transposeEnc k b) = mirex a b := by
  unfold mirex
  simp only [transposeEnc_bm, transposeEnc_root_eq_neg_one ha, transposeEnc_root_eq_neg_one hb]
  have hla := ha.wellShaped.1
  have hlb := hb.wellShaped.1
  have key : dot (rotate a.bm (transposeEnc k a).root) (rotate b.bm (transposeEnc k b).root) =
      dot (rotate a.bm a.root) (rotate b.bm b.root) := by
    rw [rotate_eq hla, rotate_eq hlb, rotate_eq hla, rotate_eq hlb, dot_map, dot_map]
    have := sum12_shift (fun j => chromaAt a.bm a.root j * chromaAt b.bm b.root j) k
    rw [← this]
    congr 1
    apply List.map_congr_left
    intro j _
    have h1 := chromaAt_transpose ha k j
    have h2 := chromaAt_transpose hb k j
    rw [transposeEnc_bm] at h1 h2
    rw [h1, h2]
  rw [key]

theorem countPos_pos_of_getElem {bm : List Int} {i : Nat} (h : bm[i]? = some 1) : countPos bm > 0 := by
  unfold countPos
  have hm : (1 : Int) ∈ bm := List.mem_of_getElem? h
  have : (1 : Int) ∈ bm.filter (fun v => decide (v > 0)) := by
    rw [List.mem_filter]; exact ⟨hm, by decide⟩
  have := List.length_pos_of_mem this
  omega

theorem chromaAt_sq {bm : List Int} {r : Int} {j : Nat} :
    chromaAt bm r j * chromaAt bm r j = chromaAt bm r j := by
  unfold chromaAt; split <;> simp

theorem dot_self {a : Enc} (h : Regular a) :
    dot (rotate a.bm a.root) (rotate a.bm a.root) = countPos a.bm := by
  have hl := h.2.2.1
  rw [rotate_eq hl, dot_map]
  simp only [chromaAt_sq]
  have := sum12_shift (fun i => if nzAt a.bm i then (1 : Int) else 0) a.root
  unfold chromaAt
  rw [this, ← sum_ind_nzAt a.bm h.2.2.2.1, hl]

theorem mirex_self_ne_zero {a : Enc} (h : Reachable a) : mirex a a ≠ 0 := by
  rcases h with h | h | h
  · subst h; decide
  · subst h; decide
  · have hd := dot_self h
    have hpos := countPos_pos_of_getElem h.2.2.2.2.2.2
    have hneg := Regular.not_anyNeg h
    unfold mirex
    simp only [hd, hneg, Bool.or_false]
    have hroot : (a.root == -1) = false := by
      have := h.1; simp; omega
    simp only [hroot, Bool.false_and, Bool.false_eq_true, if_false]
    by_cases h3 : countPos a.bm < 3
    · simp [hpos, h3]
    · have : countPos a.bm ≥ 3 := by omega
      simp [h3, this, b2i]

theorem mirex_congr_est {a b b' : Enc} (hr : b.root = b'.root) (hb : b.bm = b'.bm) :
    mirex a b = mirex a b' := by
  unfold mirex; rw [hr, hb]

theorem tetrads_one_imp {a b : Enc} (h : tetrads a b = 1) :
    anyNeg a.bm = false ∧ a.root = b.root ∧ a.bm = b.bm := by
  unfold tetrads maskX at h
  split at h
  · omega
  · rename_i hn
    simp [eqRoot, eqAll] at h
    exact ⟨by simpa using hn, h.1, h.2⟩

theorem tetrads_one_mirex_ne_zero {a b : Enc} (ha : Reachable a) (h : tetrads a b = 1) : mirex a b ≠ 0 := by
  obtain ⟨_, hr, hb⟩ := tetrads_one_imp h
  rw [mirex_congr_est (a := a) hr.symm hb.symm]
  exact mirex_self_ne_zero ha

/-! ### transposition of the equality-based rules -/

theorem transposeEnc_eqRoot {a b : Enc} (ha : Reachable a) (hb : Reachable b) (k : Int) :
    eqRoot (transposeEnc k a) (transposeEnc k b) = eqRoot a b := by
  unfold eqRoot
  rcases ha with ha | ha | ha <;> rcases hb with hb | hb | hb
  all_goals first
    | (subst ha; subst hb; simp only [transposeEnc_noChord, transposeEnc_xChord])
    | (subst ha; rw [transposeEnc_regular hb]
       simp only [transposeEnc_noChord, transposeEnc_xChord]
       have := hb.1
       have h1 : (noChord.root == (b.root + k) % 12) = false := by simp [noChord]; omega
       have h2 : (xChord.root == (b.root + k) % 12) = false := by simp [xChord]; omega
       have h3 : (noChord.root == b.root) = false := by simp [noChord]; omega
       have h4 : (xChord.root == b.root) = false := by simp [xChord]; omega
       simp only [h1, h2, h3, h4])
    | (subst hb; rw [transposeEnc_regular ha]
       simp only [transposeEnc_noChord, transposeEnc_xChord]
       have := ha.1
       have h1 : ((a.root + k) % 12 == noChord.root) = false := by simp [noChord]; omega
       have h2 : ((a.root + k) % 12 == xChord.root) = false := by simp [xChord]; omega
       have h3 : (a.root == noChord.root) = false := by simp [noChord]; omega
       have h4 : (a.root == xChord.root) = false := by simp [xChord]; omega
       simp only [h1, h2, h3, h4])
    | (rw [transposeEnc_regular ha, transposeEnc_regular hb]
       have := ha.1; have := ha.2.1; have := hb.1; have := hb.2.1
       rw [Bool.eq_iff_iff]
       simp only [beq_iff_eq]
       omega)

theorem transposeEnc_isNone {a : Enc} (ha : Reachable a) (k : Int) :
    isNone (transposeEnc k a) = isNone a := by
  rcases ha with ha | ha | ha
  · subst ha; rw [transposeEnc_noChord]
  · subst ha; rw [transposeEnc_xChord]
  · rw [transposeEnc_regular ha]
    unfold isNone
    have := ha.1
    have h1 : decide ((a.root + k) % 12 < 0) = false := by simp; omega
    have h2 : decide (a.root < 0) = false := by simp; omega
    simp only [h1, h2, Bool.false_and]

theorem cmp_transpose (rule : Rule) {a b : Enc} (ha : Reachable a) (hb : Reachable b) (k : Int) :
    cmp rule (transposeEnc k a) (transposeEnc k b) = cmp rule a b := by
  have hR := transposeEnc_eqRoot ha hb k
  have hN := transposeEnc_isNone ha k
  cases rule
  case mirex => exact mirex_transpose ha hb k
  all_goals
    simp only [cmp, thirds, thirdsInv, triads, triadsInv, tetrads, tetradsInv, root, majmin, majminInv,
      sevenths, seventhsInv, maskX, hR, majminVocab, hN, seventhsVocab, validInversion, isMaj, isMin,
      eqBass, eqThird, eqPrefix8, eqAll, transposeEnc_bm, transposeEnc_bass]
    try rfl

theorem cmp_self_ne_zero_of_reachable (rule : Rule) {a : Enc} (h : Reachable a) : cmp rule a a ≠ 0 := by
  cases rule
  case mirex => exact mirex_self_ne_zero h
  all_goals
    simp only [cmp, thirds, thirdsInv, triads, triadsInv, tetrads, tetradsInv, root, majmin, majminInv,
      sevenths, seventhsInv, maskX, eqRoot, eqBass, eqThird, eqPrefix8, eqAll, beq_self_eq_true,
      Bool.and_self, b2i]
    repeat' split
    all_goals simp_all

/-! ### vocabularies -/

theorem validInversion_of_reachable {a : Enc} (h : Reachable a) : validInversion a = true := by
  rcases h with h | h | h
  · subst h; decide
  · subst h; decide
  · unfold validInversion
    rw [if_pos h.2.2.2.2.1, h.2.2.2.2.2.2]
    decide

theorem isNone_iff_of_reachable {a : Enc} (h : Reachable a) : isNone a = true ↔ a = noChord := by
  rcases h with h | h | h
  · subst h; decide
  · subst h; decide
  · have := h.1
    have hne := Regular.ne_noChord h
    unfold isNone
    have : decide (a.root < 0) = false := by simp; omega
    simp [this, hne]

theorem zero_bitmap_iff_noChord {a : Enc} (h : Reachable a) : a.bm = QUAL_none ↔ a = noChord := by
  rcases h with h | h | h
  · subst h; decide
  · subst h; decide
  · constructor
    · intro hz
      have hb := h.2.2.2.2.2.2
      rw [hz] at hb
      have : (1 : Int) ∈ QUAL_none := List.mem_of_getElem? hb
      exact absurd this (by decide)
    · intro h'; exact absurd h' (Regular.ne_noChord h)

theorem majmin_ne_neg_one_iff {a : Enc} (h : Reachable a) (b : Enc) :
    majmin a b ≠ -1 ↔
      (a = noChord ∨ a.bm.take 8 = [1, 0, 0, 0, 1, 0, 0, 1] ∨ a.bm.take 8 = [1, 0, 0, 1, 0, 0, 0, 1]) := by
  have hc := cmp_eq_neg_one_iff .majmin a b
  simp only [cmp, ignored] at hc
  rw [Ne, hc]
  have hn := isNone_iff_of_reachable h
  simp only [majminVocab, isMaj, isMin, Bool.not_eq_true', Bool.not_eq_false, Bool.or_eq_true, beq_iff_eq, hn]
  have e1 : List.take 8 QUAL_maj = [1, 0, 0, 0, 1, 0, 0, 1] := by decide
  have e2 : List.take 8 QUAL_min = [1, 0, 0, 1, 0, 0, 0, 1] := by decide
  rw [e1, e2]
  tauto

theorem sevenths_ne_neg_one_iff {a : Enc} (h : Reachable a) (b : Enc) :
    sevenths a b ≠ -1 ↔
      (a = noChord ∨ a.bm = QUAL_maj ∨ a.bm = QUAL_min ∨ a.bm = QUAL_maj7 ∨ a.bm = QUAL_7 ∨ a.bm = QUAL_min7) := by
  have hc := cmp_eq_neg_one_iff .sevenths a b
  simp only [cmp, ignored] at hc
  rw [Ne, hc]
  have hz := zero_bitmap_iff_noChord h
  simp only [seventhsVocab, seventhBitmaps, List.any_cons, List.any_nil, Bool.or_false, Bool.not_eq_true',
    Bool.not_eq_false, Bool.or_eq_true, beq_iff_eq, hz]
  tauto

theorem majminInv_neg_one_iff {a : Enc} (h : Reachable a) (b : Enc) : majminInv a b = -1 ↔ majmin a b = -1 := by
  have h1 := cmp_eq_neg_one_iff .majminInv a b
  have h2 := cmp_eq_neg_one_iff .majmin a b
  simp only [cmp, ignored] at h1 h2
  rw [h1, h2, validInversion_of_reachable h]; simp

theorem seventhsInv_neg_one_iff {a : Enc} (h : Reachable a) (b : Enc) :
    seventhsInv a b = -1 ↔ sevenths a b = -1 := by
  have h1 := cmp_eq_neg_one_iff .seventhsInv a b
  have h2 := cmp_eq_neg_one_iff .sevenths a b
  simp only [cmp, ignored] at h1 h2
  rw [h1, h2, validInversion_of_reachable h]; simp

/-- the documented `majmin_inv` vocabulary: N, or a major/minor triad prefix with the bass in the triad -/
def MajminInvDocumented (a : Enc) : Prop :=
  a = noChord ∨
    (a.bm.take 8 = [1, 0, 0, 0, 1, 0, 0, 1] ∧ (a.bass = 0 ∨ a.bass = 4 ∨ a.bass = 7)) ∨
    (a.bm.take 8 = [1, 0, 0, 1, 0, 0, 0, 1] ∧ (a.bass = 0 ∨ a.bass = 3 ∨ a.bass = 7))

instance (a : Enc) : Decidable (MajminInvDocumented a) := by unfold MajminInvDocumented; infer_instance

theorem bass_in_prefix {a : Enc} (h : Regular a) (h8 : a.bass < 8) {p : List Int} (hp : a.bm.take 8 = p) :
    p[a.bass.toNat]? = some 1 := by
  have hb := h.2.2.2.2.2.2
  have h0 := h.2.2.2.2.1
  rw [← hp, List.getElem?_take, if_pos (by omega), hb]

theorem majminInv_documented_of_bass_lt {a : Enc} (h : Reachable a) (h8 : a.bass < 8) (b : Enc) :
    majminInv a b ≠ -1 ↔ MajminInvDocumented a := by
  rw [Ne, majminInv_neg_one_iff h, ← Ne, majmin_ne_neg_one_iff h]
  unfold MajminInvDocumented
  rcases h with h | h | h
  · subst h; simp
  · subst h; decide
  · have hne := Regular.ne_noChord h
    have h0 := h.2.2.2.2.1
    constructor
    · rintro (h' | h' | h')
      · exact absurd h' hne
      · right; left
        refine ⟨h', ?_⟩
        have hb := bass_in_prefix h h8 h'
        obtain ⟨n, hn⟩ : ∃ n : Nat, a.bass = n := ⟨a.bass.toNat, by omega⟩
        rw [hn] at hb h8 ⊢
        simp only [Int.toNat_natCast] at hb
        have : n < 8 := by omega
        interval_cases n <;> simp at hb ⊢
      · right; right
        refine ⟨h', ?_⟩
        have hb := bass_in_prefix h h8 h'
        obtain ⟨n, hn⟩ : ∃ n : Nat, a.bass = n := ⟨a.bass.toNat, by omega⟩
        rw [hn] at hb h8 ⊢
        simp only [Int.toNat_natCast] at hb
        have : n < 8 := by omega
        interval_cases n <;> simp at hb ⊢
    · rintro (h' | h' | h')
      · exact absurd h' hne
      · exact Or.inr (Or.inl h'.1)
      · exact Or.inr (Or.inr h'.1)
/-! ### pitch_class_to_semitone -/

/-- value of an accidental run: number of sharps minus number of flats -/
def accVal (acc : List Char) : Int := (acc.count '#' : Int) - (acc.count 'b' : Int)

theorem pcsGo_accidentals (v : Int) (i : Nat) (hi : i > 0) (acc : List Char)
    (h : ∀ c ∈ acc, c = '#' ∨ c = 'b') : pcsGo (some v) i acc = .ok (some (v + accVal acc)) := by
  induction acc generalizing v i with
  | nil => simp [pcsGo, accVal]
  | cons c cs ih =>
    have hc := h c (List.mem_cons_self)
    have ih' := fun v' => ih v' (i + 1) (by omega) (fun c hc => h c (List.mem_cons_of_mem _ hc))
    rcases hc with hc | hc <;> subst hc
    · simp only [pcsGo, pcsStep, hi, and_self, if_true, ih']
      simp [accVal]; omega
    · have : ¬ ('b' = '#') := by decide
      simp only [pcsGo, pcsStep, hi, this, false_and, if_false, and_self, if_true, ih']
      simp [accVal]; omega

theorem pitchClass_spelled (L : Char) (s : Int) (hL : letterSemitone L = some s) (acc : List Char)
    (h : ∀ c ∈ acc, c = '#' ∨ c = 'b') :
    pitchClassToSemitone (L :: acc) = .ok ((s + accVal acc) % 12) := by
  unfold pitchClassToSemitone
  have h1 : pcsStep (some 0) 0 L = .ok (some s) := by
    simp [pcsStep, hL]
  simp only [pcsGo, h1, pcsGo_accidentals s 1 (by omega) acc h]

end Mir.ChordCompare
