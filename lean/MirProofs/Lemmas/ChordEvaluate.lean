import MirProofs.Lemmas.ChordRelabel
import MirProofs.Lemmas.Chord.Bridge
/-!
  `chord.evaluate` on label strings (`ChordEval.evaluateStr`) under joint transposition / respelling of the labels:
  the two encoders (`encode_many(·, True)` for fusing, `encode_many(·, False)` for comparing) both move by
  `transposeEnc k`, which is injective on the encodings `encode` can return and leaves the 12 rules unchanged.
-/
namespace Mir.ChordCompare

/-- transposition is injective on the set of encodings `chord.encode` can return -/
theorem transposeEnc_inj_of_reachable {a b : Enc} (ha : Reachable a) (hb : Reachable b) (k : Int)
    (h : transposeEnc k a = transposeEnc k b) : a = b := by
  have hbm : a.bm = b.bm := by rw [← transposeEnc_bm k a, ← transposeEnc_bm k b, h]
  have hbass : a.bass = b.bass := by rw [← transposeEnc_bass k a, ← transposeEnc_bass k b, h]
  have hroot : a.root = b.root := by
    have hr := congrArg Enc.root h
    by_cases h1 : a.root < 0
    · by_cases h2 : b.root < 0
      · rcases ha with ha | ha | ha
        · rcases hb with hb | hb | hb
          · rw [ha, hb]
          · rw [ha, hb]; rfl
          · exact absurd hb.1 (by omega)
        · rcases hb with hb | hb | hb
          · rw [ha, hb]; rfl
          · rw [ha, hb]
          · exact absurd hb.1 (by omega)
        · exact absurd ha.1 (by omega)
      · unfold transposeEnc at hr
        rw [if_pos h1, if_neg h2] at hr
        simp only at hr
        omega
    · by_cases h2 : b.root < 0
      · unfold transposeEnc at hr
        rw [if_neg h1, if_pos h2] at hr
        simp only at hr
        omega
      · have ra : a.root < 12 := by
          rcases ha with ha | ha | ha
          · rw [ha] at h1; exact absurd (by decide) h1
          · rw [ha] at h1; exact absurd (by decide) h1
          · exact ha.2.1
        have rb : b.root < 12 := by
          rcases hb with hb | hb | hb
          · rw [hb] at h2; exact absurd (by decide) h2
          · rw [hb] at h2; exact absurd (by decide) h2
          · exact hb.2.1
        unfold transposeEnc at hr
        rw [if_neg h1, if_neg h2] at hr
        simp only at hr
        omega
  cases a; cases b
  simp only at hbm hbass hroot
  subst hbm hbass hroot
  rfl

end Mir.ChordCompare

namespace Mir.ChordEval
open Mir.Iv Mir.Chord Mir.ChordCompare MirGen

theorem encodeStr_eq (r : Bool) (s : Str) : encodeStr r s = (pyEncode s r false).map toEnc := by
  unfold encodeStr
  cases pyEncode s r false <;> rfl

/-- whatever string is encoded, with or without reduction: the row lies in the set the C11 / C09 theorems cover -/
theorem encodeStr_reachable {r : Bool} {s : Str} {a : Enc} (h : encodeStr r s = .ok a) : Reachable a := by
  rw [encodeStr_eq] at h
  cases he : pyEncode s r false with
  | error e => rw [he] at h; cases h
  | ok e =>
    rw [he] at h
    simp only [Except.map, Except.ok.injEq] at h
    subst h
    exact encode_reachable he

theorem toEnc_transposeEncoded (k : Int) (e : Encoded) : toEnc (transposeEncoded k e) = transposeEnc k (toEnc e) := rfl

/-- a label transposed by `k` (any spelling) is encoded to the transposed row, for both encoders, failing together -/
theorem encodeStr_transpose {k : Int} {l l' : Label} (h : IsTransposeOf k l l') (r : Bool) :
    encodeStr r l'.render = (encodeStr r l.render).map (transposeEnc k) := by
  rw [encodeStr_eq, encodeStr_eq, pyEncode_transpose h r false]
  cases pyEncode l.render r false with
  | error e => rfl
  | ok e => rfl

/-- `chord.evaluate` on rendered labels, as an instance of the abstract pipeline over grammar trees -/
theorem evaluateStr_render (ref est : LI Label) :
    evaluateStr (relabel Label.render ref) (relabel Label.render est) =
      evaluateWith (encodeStr true ∘ Label.render) (encodeStr false ∘ Label.render) Rule.all ruleCmp Label.N
        ref est :=
  evaluateWith_relabel Label.render (encodeStr true) (encodeStr false) Rule.all ruleCmp Label.N ref est

theorem evaluateStr_transpose (k : Int) {ref ref' est est' : LI Label}
    (hr : RelLI (IsTransposeOf k) ref ref') (he : RelLI (IsTransposeOf k) est est') :
    evaluateStr (relabel Label.render ref') (relabel Label.render est') =
      evaluateStr (relabel Label.render ref) (relabel Label.render est) := by
  rw [evaluateStr_render, evaluateStr_render]
  exact evaluateWith_rel (IsTransposeOf k)
    (encodeStr true ∘ Label.render) (encodeStr true ∘ Label.render) (transposeEnc k) Reachable
    (fun l l' h => encodeStr_transpose h true)
    (fun l a h => encodeStr_reachable h)
    (fun a b ha hb h => transposeEnc_inj_of_reachable ha hb k h)
    (encodeStr false ∘ Label.render) (encodeStr false ∘ Label.render) (transposeEnc k) Reachable
    (fun l l' h => encodeStr_transpose h false)
    (fun l a h => encodeStr_reachable h)
    Rule.all ruleCmp ruleCmp
    (fun rule a b ha hb => by unfold ruleCmp; rw [cmp_transpose rule ha hb k])
    Label.N Label.N trivial hr he

end Mir.ChordEval
