import MirProofs.Lemmas.IntervalsSplit
import Mathlib.Algebra.Order.Field.Basic

/-! Helper lemmas for C01 (chord): ranges of `weighted_accuracy` and of the segmentation scores. -/
namespace Mir.Iv

/-! ### `weighted_accuracy` -/

theorem pairs_sum_bounds (l : List (Rat × Rat)) (h : ∀ p ∈ l, 0 ≤ p.1 ∧ p.1 ≤ 1 ∧ 0 ≤ p.2) :
    0 ≤ qsum (l.map fun p => p.1 * p.2) ∧ qsum (l.map fun p => p.1 * p.2) ≤ qsum (l.map fun p => p.2) := by
  induction l with
  | nil => simp [qsum]
  | cons a r ih =>
    obtain ⟨h1, h2, h3⟩ := h a List.mem_cons_self
    obtain ⟨i1, i2⟩ := ih (fun p hp => h p (List.mem_cons_of_mem _ hp))
    simp only [List.map_cons, qsum]
    have := mul_nonneg h1 h3
    have : a.1 * a.2 ≤ a.2 := by nlinarith
    constructor <;> linarith

theorem validPairs_mem {cs ws : List Rat} {p : Rat × Rat} (hp : p ∈ validPairs cs ws) :
    p.1 ∈ cs ∧ p.2 ∈ ws ∧ 0 ≤ p.1 := by
  obtain ⟨h1, h2⟩ := List.mem_filter.1 hp
  exact ⟨(List.of_mem_zip h1).1, (List.of_mem_zip h1).2, by simpa using h2⟩

theorem vNum_bounds {cs ws : List Rat} (hc : ∀ c ∈ cs, c ≤ 1) (hw : ∀ w ∈ ws, 0 ≤ w) :
    0 ≤ vNum cs ws ∧ vNum cs ws ≤ vTotal cs ws := by
  unfold vNum vTotal
  apply pairs_sum_bounds
  intro p hp
  obtain ⟨h1, h2, h3⟩ := validPairs_mem hp
  exact ⟨h3, hc _ h1, hw _ h2⟩

theorem vTotal_nonneg {cs ws : List Rat} (hw : ∀ w ∈ ws, 0 ≤ w) : 0 ≤ vTotal cs ws := by
  unfold vTotal
  apply qsum_nonneg
  intro v hv
  obtain ⟨p, hp, rfl⟩ := List.mem_map.1 hv
  exact hw _ (validPairs_mem hp).2.1

/-- whatever `weighted_accuracy` returns on comparisons `≤ 1` is a number in [0, 1], or `nan` exactly when
    some entry is comparable but the comparable entries carry no weight while the others do -/
theorem wacc_ok_range {cs ws : List Rat} {x : Num} (hc : ∀ c ∈ cs, c ≤ 1) (h : wacc cs ws = .ok x) :
    (x = .nan ∧ validPairs cs ws ≠ [] ∧ vTotal cs ws = 0 ∧ qsum ws ≠ 0)
      ∨ ∃ v, x = .val v ∧ 0 ≤ v ∧ v ≤ 1 := by
  rw [wacc_eq] at h
  split at h
  · cases h
  · split at h
    · cases h
    · rename_i hneg
      have hw : ∀ w ∈ ws, 0 ≤ w := by
        intro w hw'
        by_contra hlt
        exact hneg (List.any_eq_true.2 ⟨w, hw', by simpa using lt_of_not_ge hlt⟩)
      split at h
      · cases h; exact Or.inr ⟨0, rfl, le_refl _, zero_le_one⟩
      · rename_i hq
        split at h
        · cases h; exact Or.inr ⟨0, rfl, le_refl _, zero_le_one⟩
        · rename_i hv
          split at h
          · rename_i ht
            cases h
            exact Or.inl ⟨rfl, hv, ht, hq⟩
          · rename_i ht
            cases h
            have hb := vNum_bounds hc hw
            have hpos : 0 < vTotal cs ws := lt_of_le_of_ne (vTotal_nonneg hw) (Ne.symm ht)
            exact Or.inr ⟨_, rfl, div_nonneg hb.1 (le_of_lt hpos), (div_le_one hpos).2 hb.2⟩

/-- with strictly positive weights (durations of validated intervals) `nan` is impossible -/
theorem wacc_ok_range_pos {cs ws : List Rat} {x : Num} (hc : ∀ c ∈ cs, c ≤ 1) (hw : ∀ w ∈ ws, 0 < w)
    (h : wacc cs ws = .ok x) : ∃ v, x = .val v ∧ 0 ≤ v ∧ v ≤ 1 := by
  rcases wacc_ok_range hc h with ⟨_, hv, ht, _⟩ | h'
  · exfalso
    cases hl : validPairs cs ws with
    | nil => exact hv hl
    | cons p r =>
      have hp : p ∈ validPairs cs ws := by rw [hl]; exact List.mem_cons_self
      have hp2 : 0 < p.2 := hw _ (validPairs_mem hp).2.1
      have hr : 0 ≤ qsum (r.map fun p => p.2) := by
        apply qsum_nonneg
        intro v hv'
        obtain ⟨q, hq, rfl⟩ := List.mem_map.1 hv'
        have : q ∈ validPairs cs ws := by rw [hl]; exact List.mem_cons_of_mem _ hq
        exact le_of_lt (hw _ (validPairs_mem this).2.1)
      unfold vTotal at ht
      rw [hl] at ht
      simp only [List.map_cons, qsum] at ht
      linarith
  · exact h'

/-! ### valid interval arrays -/

/-- time-ordered, non-overlapping rows of positive duration, all starts `≥ lo` (gaps allowed) -/
def ChainP (lo : Rat) : Ivals → Prop
  | [] => True
  | x :: r => lo ≤ x.1 ∧ x.1 < x.2 ∧ ChainP x.2 r

theorem ChainP.mono {lo lo' : Rat} {xs : Ivals} (hl : lo' ≤ lo) (h : ChainP lo xs) : ChainP lo' xs := by
  cases xs with
  | nil => trivial
  | cons x r => exact ⟨le_trans hl h.1, h.2.1, h.2.2⟩

theorem ChainP.pos {lo : Rat} {xs : Ivals} (h : ChainP lo xs) : ∀ x ∈ xs, lo ≤ x.1 ∧ x.1 < x.2 := by
  induction xs generalizing lo with
  | nil => intro x hx; cases hx
  | cons y r ih =>
    intro x hx
    rcases List.mem_cons.1 hx with rfl | hx
    · exact ⟨h.1, h.2.1⟩
    · have := ih h.2.2 x hx
      exact ⟨by linarith [h.1, h.2.1, this.1], this.2⟩

/-- what `validate_intervals` + the `overlaps` test of `directional_hamming_distance` accept is a chain -/
theorem chainP_of_valid {xs : Ivals} (hv : validateIntervals xs = .ok ()) (ho : overlaps xs = false) :
    ChainP 0 xs := by
  unfold validateIntervals at hv
  split at hv
  · cases hv
  · rename_i hneg
    split at hv
    · cases hv
    · rename_i hpos
      have h1 : ∀ x ∈ xs, 0 ≤ x.1 := by
        intro x hx
        by_contra hlt
        exact hneg (List.any_eq_true.2 ⟨x, hx, by simp [lt_of_not_ge hlt]⟩)
      have h2 : ∀ x ∈ xs, x.1 < x.2 := by
        intro x hx
        by_contra hle
        exact hpos (List.any_eq_true.2 ⟨x, hx, by simpa using not_lt.1 hle⟩)
      clear hv hneg hpos
      suffices ∀ lo, (∀ x ∈ xs, 0 ≤ x.1) → (∀ y, xs.head? = some y → lo ≤ y.1) → ChainP lo xs from
        this 0 h1 (fun y hy => h1 y (List.mem_of_mem_head? hy))
      intro lo
      induction xs generalizing lo with
      | nil => intros; trivial
      | cons a r ih =>
        intro _ hhead
        refine ⟨hhead a rfl, h2 a List.mem_cons_self, ?_⟩
        cases r with
        | nil => trivial
        | cons b r' =>
          simp only [overlaps, Bool.or_eq_false_iff, decide_eq_false_iff_not, not_lt] at ho
          apply ih ho.2 (fun x hx => h1 x (List.mem_cons_of_mem _ hx))
            (fun x hx => h2 x (List.mem_cons_of_mem _ hx)) _ (fun x hx => h1 x (List.mem_cons_of_mem _ hx))
          intro y hy
          simp at hy
          rw [← hy]
          exact ho.1

theorem chainP_span {lo : Rat} {xs : Ivals} (h : ChainP lo xs) {a z : Rat × Rat} (ha : xs.head? = some a)
    (hz : xs.getLast? = some z) :
    0 ≤ qsum (xs.map fun x => x.2 - x.1) ∧ qsum (xs.map fun x => x.2 - x.1) ≤ z.2 - a.1 ∧ a.1 < z.2 := by
  induction xs generalizing lo a with
  | nil => cases ha
  | cons x r ih =>
    simp at ha; subst ha
    cases r with
    | nil =>
      simp at hz; subst hz
      simp only [List.map_cons, List.map_nil, qsum]
      have := h.2.1
      refine ⟨by linarith, by linarith, this⟩
    | cons y r' =>
      rw [List.getLast?_cons_cons] at hz
      obtain ⟨i1, i2, i3⟩ := ih h.2.2 rfl hz
      have := h.2.1
      have := h.2.2.1
      simp only [List.map_cons, qsum] at i1 i2 ⊢
      refine ⟨by linarith, by linarith, by linarith⟩

/-! ### one row of `directional_hamming_distance` -/

theorem mem_le_qsum {l : List Rat} (h : ∀ v ∈ l, 0 ≤ v) {m : Rat} (hm : m ∈ l) : m ≤ qsum l := by
  induction l with
  | nil => cases hm
  | cons a r ih =>
    simp only [qsum]
    have ha := h a List.mem_cons_self
    have hr := qsum_nonneg (fun v hv => h v (List.mem_cons_of_mem _ hv))
    rcases List.mem_cons.1 hm with rfl | hm
    · linarith
    · have := ih (fun v hv => h v (List.mem_cons_of_mem _ hv)) hm
      linarith

/-- consecutive differences of `x1 :: (F ++ [x2])` are non-negative when `F` is increasing inside `[x1, x2]` -/
theorem pairs_diffs_nonneg (F : List Rat) (x1 x2 : Rat) (hs : SSorted F) (hF : ∀ t ∈ F, x1 ≤ t ∧ t ≤ x2)
    (h12 : x1 ≤ x2) : ∀ p ∈ pairs (x1 :: (F ++ [x2])), p.1 ≤ p.2 := by
  induction F generalizing x1 with
  | nil =>
    intro p hp
    simp [pairs] at hp
    subst hp
    exact h12
  | cons t r ih =>
    intro p hp
    rw [List.cons_append, pairs_cons_cons] at hp
    rcases List.mem_cons.1 hp with rfl | hp
    · exact (hF t List.mem_cons_self).1
    · have p1 := List.pairwise_cons.1 hs
      exact ih t p1.2 (fun u hu => ⟨le_of_lt (p1.1 u hu), (hF u (List.mem_cons_of_mem _ hu)).2⟩)
        (hF t List.mem_cons_self).2 p hp

theorem dhdRow_bounds {ts : List Rat} (hs : SSorted ts) {x : Rat × Rat} (hx : x.1 ≤ x.2) {v : Rat}
    (h : dhdRow ts x = .ok v) : 0 ≤ v ∧ v ≤ x.2 - x.1 := by
  unfold dhdRow at h
  split at h
  · cases h
  · rename_i d hd
    cases h
    unfold maxDiff at hd
    obtain ⟨hmem, _⟩ := maxL_spec hd
    set F := ts.filter (fun t => decide (x.1 ≤ t) && decide (t < x.2)) with hF
    have hFs : SSorted F := List.Pairwise.sublist List.filter_sublist hs
    have hFb : ∀ t ∈ F, x.1 ≤ t ∧ t ≤ x.2 := by
      intro t ht
      have := (List.mem_filter.1 ht).2
      simp only [Bool.and_eq_true, decide_eq_true_eq] at this
      exact ⟨this.1, le_of_lt this.2⟩
    have hL : [x.1] ++ F ++ [x.2] = x.1 :: (F ++ [x.2]) := by simp
    rw [hL] at hmem
    have hnn : ∀ w ∈ (pairs (x.1 :: (F ++ [x.2]))).map (fun p => p.2 - p.1), 0 ≤ w := by
      intro w hw
      obtain ⟨p, hp, rfl⟩ := List.mem_map.1 hw
      have := pairs_diffs_nonneg F x.1 x.2 hFs hFb hx p hp
      linarith
    have hsum : qsum ((pairs (x.1 :: (F ++ [x.2]))).map fun p => p.2 - p.1) = x.2 - x.1 :=
      qsum_pairs x.1 (F ++ [x.2]) (by rw [← List.cons_append, List.getLast?_append]; simp)
    have h1 := hnn d hmem
    have h2 := mem_le_qsum hnn hmem
    rw [hsum] at h2
    constructor <;> linarith

theorem dhd_rows_bounds {ts : List Rat} (hs : SSorted ts) (ref : Ivals) (hpos : ∀ x ∈ ref, x.1 < x.2)
    {rows : List Rat} (h : ref.mapM (dhdRow ts) = .ok rows) :
    0 ≤ qsum rows ∧ qsum rows ≤ qsum (ref.map fun x => x.2 - x.1) := by
  induction ref generalizing rows with
  | nil =>
    simp [pure, Except.pure] at h
    subst h
    simp [qsum]
  | cons x r ih =>
    rw [List.mapM_cons] at h
    cases hx : dhdRow ts x with
    | error e => rw [hx] at h; cases h
    | ok v =>
      cases hr : r.mapM (dhdRow ts) with
      | error e => rw [hx, hr] at h; cases h
      | ok vs =>
        rw [hx, hr] at h
        cases h
        have b1 := dhdRow_bounds hs (le_of_lt (hpos x List.mem_cons_self)) hx
        have b2 := ih (fun y hy => hpos y (List.mem_cons_of_mem _ hy)) hr
        simp only [List.map_cons, qsum]
        constructor <;> linarith [b1.1, b1.2, b2.1, b2.2]

/-- `directional_hamming_distance` never returns `nan`, and what it returns lies in [0, 1] — for ALL inputs -/
theorem dhd_ok_range {ref est : Ivals} {x : Num} (h : dhd ref est = .ok x) : ∃ v, x = .val v ∧ 0 ≤ v ∧ v ≤ 1 := by
  unfold dhd at h
  simp only [bind, Except.bind, throw, throwThe, MonadExceptOf.throw, pure, Except.pure] at h
  cases hve : validateIntervals est with
  | error e => rw [hve] at h; cases h
  | ok u1 =>
    cases hvr : validateIntervals ref with
    | error e => rw [hve, hvr] at h; cases h
    | ok u2 =>
      rw [hve, hvr] at h
      simp only at h
      cases ho : overlaps ref with
      | true => rw [ho] at h; simp at h
      | false =>
        rw [ho] at h
        simp only [Bool.false_eq_true, if_false] at h
        cases hrows : ref.mapM (dhdRow (usort (entriesP est))) with
        | error e => rw [hrows] at h; cases h
        | ok rows =>
          rw [hrows] at h
          simp only at h
          have hc := chainP_of_valid hvr ho
          cases hh : ref.head? with
          | none => rw [hh] at h; cases h
          | some a =>
            cases hl : ref.getLast? with
            | none => rw [hh, hl] at h; cases h
            | some z =>
              rw [hh, hl] at h
              simp only at h
              obtain ⟨s1, s2, s3⟩ := chainP_span hc hh hl
              have rb := dhd_rows_bounds (usort_sorted _) ref (fun x hx => (hc.pos x hx).2) hrows
              have hne : ¬ z.2 - a.1 = 0 := by intro h0; linarith
              rw [if_neg hne] at h
              cases h
              have hpos : 0 < z.2 - a.1 := by linarith
              exact ⟨_, rfl, div_nonneg rb.1 (le_of_lt hpos), (div_le_one hpos).2 (le_trans rb.2 s2)⟩

theorem overseg_ok_range {ref est : Ivals} {x : Num} (h : overseg ref est = .ok x) :
    ∃ v, x = .val v ∧ 0 ≤ v ∧ v ≤ 1 := by
  unfold overseg at h
  obtain ⟨y, hy, rfl⟩ := map_ok.1 h
  obtain ⟨v, rfl, h0, h1⟩ := dhd_ok_range hy
  exact ⟨1 - v, rfl, by linarith, by linarith⟩

theorem underseg_ok_range {ref est : Ivals} {x : Num} (h : underseg ref est = .ok x) :
    ∃ v, x = .val v ∧ 0 ≤ v ∧ v ≤ 1 := overseg_ok_range (ref := est) (est := ref) h

theorem seg_ok_range {ref est : Ivals} {x : Num} (h : seg ref est = .ok x) :
    ∃ v, x = .val v ∧ 0 ≤ v ∧ v ≤ 1 := by
  unfold seg at h
  obtain ⟨u, hu, h⟩ := bind_ok.1 h
  obtain ⟨o, ho, h⟩ := bind_ok.1 h
  cases h
  obtain ⟨a, rfl, a0, a1⟩ := underseg_ok_range hu
  obtain ⟨b, rfl, b0, b1⟩ := overseg_ok_range ho
  unfold Num.pymin
  split
  · rename_i x y heq1 heq2
    cases heq1; cases heq2
    split
    · exact ⟨_, rfl, b0, b1⟩
    · exact ⟨_, rfl, a0, a1⟩
  · rename_i hno
    exact absurd rfl (hno a b rfl)

end Mir.Iv

namespace Mir.Iv

variable {L M T : Type}

theorem durations_pos {xs : Ivals} {ds : List Rat} (h : intervalsToDurations xs = .ok ds) : ∀ d ∈ ds, 0 < d := by
  unfold intervalsToDurations at h
  obtain ⟨u, hu, rfl⟩ := map_ok.1 h
  unfold validateIntervals at hu
  split at hu
  · cases hu
  · split at hu
    · cases hu
    · rename_i hpos
      intro d hd
      obtain ⟨x, hx, rfl⟩ := List.mem_map.1 hd
      have : x.1 < x.2 := by
        by_contra hle
        exact hpos (List.any_eq_true.2 ⟨x, hx, by simpa using not_lt.1 hle⟩)
      unfold qabs
      split <;> linarith

/-- a chord accuracy of `chord.evaluate` (any comparison function with values `≤ 1`, −1 = not comparable) is a
    number in [0, 1] whenever it is returned: the weights are durations of validated intervals, so no `nan` -/
theorem chordScore_ok_range (cmp : L → M → Rat) (hc : ∀ a b, cmp a b ≤ 1) {ref : LI L} {est : LI M} {x : Num}
    (h : chordScore cmp ref est = .ok x) : ∃ v, x = .val v ∧ 0 ≤ v ∧ v ≤ 1 := by
  unfold chordScore at h
  obtain ⟨rows, _, h⟩ := bind_ok.1 h
  obtain ⟨ds, hds, h⟩ := bind_ok.1 h
  apply wacc_ok_range_pos _ (durations_pos hds) h
  intro c hcm
  obtain ⟨r, _, rfl⟩ := List.mem_map.1 hcm
  exact hc _ _

theorem evaluateTokens_ok_range [DecidableEq T] (cmp : T → T → Rat) (hc : ∀ a b, cmp a b ≤ 1) (noChord : T)
    {ref est : LI T} {out : List Num} (h : evaluateTokens cmp noChord ref est = .ok out) :
    out.length = 4 ∧ ∀ x ∈ out, ∃ v, x = .val v ∧ 0 ≤ v ∧ v ≤ 1 := by
  rw [evaluateTokens_eq] at h
  obtain ⟨lo, _, h⟩ := bind_ok.1 h
  obtain ⟨hi, _, h⟩ := bind_ok.1 h
  obtain ⟨est', _, h⟩ := bind_ok.1 h
  unfold scoresOf at h
  obtain ⟨acc, hacc, h⟩ := bind_ok.1 h
  obtain ⟨u, hu, h⟩ := bind_ok.1 h
  obtain ⟨o, ho, h⟩ := bind_ok.1 h
  cases h
  obtain ⟨a, rfl, a0, a1⟩ := chordScore_ok_range cmp hc hacc
  obtain ⟨b, rfl, b0, b1⟩ := underseg_ok_range hu
  obtain ⟨c, rfl, c0, c1⟩ := overseg_ok_range ho
  refine ⟨rfl, ?_⟩
  intro x hx
  simp only [List.mem_cons, List.not_mem_nil, or_false] at hx
  rcases hx with rfl | rfl | rfl | rfl
  · exact ⟨a, rfl, a0, a1⟩
  · exact ⟨b, rfl, b0, b1⟩
  · exact ⟨c, rfl, c0, c1⟩
  · unfold Num.pymin
    simp only
    split
    · exact ⟨_, rfl, b0, b1⟩
    · exact ⟨_, rfl, c0, c1⟩

end Mir.Iv
