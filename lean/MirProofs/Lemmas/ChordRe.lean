import MirProofs.Lemmas.Regex
import MirProofs.Lemmas.Chord.Grammar
import MirGen.ChordRe
/-!
  The language of the regenerated `CHORD_RE` (`Mir.Gen.chordRe`), decomposed along the Harte grammar of
  `MirModel/Chord/Grammar.lean`:

      accRe  ↦ Acc.render        numRe ↦ DegNum.render     degRe ↦ Degree.render
      listRe ↦ joinSep ',' (items.map DegItem.render)      shortRe ↦ Shorthand.name
      bodyRe ↦ Body.render       bassRe ↦ renderBass       rootRe ↦ letter :: accidentals
      labelRe ↦ Label.render

  `Img r f` says: in EVERY context, `r` matches exactly the words `f x`.  The pieces are composed with the
  combinators `Img.seq / alt / opt / star`; nothing is enumerated except the three finite character ranges
  (`[A-G]`, `[1-9]`, `[0-3]`) and the 26 shorthand names.  `expectedRe` is assembled from the pieces and
  `chordRe_eq_expected : Mir.Gen.chordRe = expectedRe` is checked by `rfl` against the file regenerated from chord.py.
-/
namespace Mir.Rx
open Mir.Chord

/-! ### generic facts about the semantics -/

/-- in every context, the words matched by `r` are exactly the values of `f` -/
def Img (r : Regex) {α : Type} (f : α → List Char) : Prop :=
  ∀ l w rest, Matches r l w rest ↔ ∃ x, w = f x

theorem Img.congr {r : Regex} {α β : Type} {f : α → List Char} {g : β → List Char} (h : Img r f)
    (hfg : ∀ w, (∃ x, w = f x) ↔ ∃ y, w = g y) : Img r g :=
  fun l w rest => (h l w rest).trans (hfg w)

theorem Img.lit (c : Char) : Img (.lit c) (fun _ : Unit => [c]) := by
  intro l w rest; simp [Matches]

theorem Img.seq {a b : Regex} {α β : Type} {f : α → List Char} {g : β → List Char} (ha : Img a f) (hb : Img b g) :
    Img (.seq a b) (fun p : α × β => f p.1 ++ g p.2) := by
  intro l w rest
  simp only [Matches, Seq, ha _ _ _, hb _ _ _]
  constructor
  · rintro ⟨w₁, w₂, rfl, ⟨x, rfl⟩, ⟨y, rfl⟩⟩; exact ⟨(x, y), rfl⟩
  · rintro ⟨⟨x, y⟩, rfl⟩; exact ⟨f x, g y, rfl, ⟨x, rfl⟩, ⟨y, rfl⟩⟩

theorem Img.alt {a b : Regex} {α β : Type} {f : α → List Char} {g : β → List Char} (ha : Img a f) (hb : Img b g) :
    Img (.alt a b) (Sum.elim f g) := by
  intro l w rest
  simp only [Matches, ha _ _ _, hb _ _ _]
  constructor
  · rintro (⟨x, rfl⟩ | ⟨y, rfl⟩)
    · exact ⟨.inl x, rfl⟩
    · exact ⟨.inr y, rfl⟩
  · rintro ⟨x | y, rfl⟩
    · exact Or.inl ⟨x, rfl⟩
    · exact Or.inr ⟨y, rfl⟩

theorem iter_one {R : List Char → List Char → List Char → Prop} {l w rest : List Char} :
    Iter R 1 l w rest ↔ R l w rest := by
  simp only [Iter, Seq]
  constructor
  · rintro ⟨w₁, w₂, rfl, h, rfl⟩; simpa using h
  · intro h; exact ⟨w, [], by simp, by simpa using h, rfl⟩

/-- `r?` -/
theorem matches_opt {a : Regex} {l w rest : List Char} :
    Matches (.rep a 0 1) l w rest ↔ w = [] ∨ Matches a l w rest := by
  simp only [Matches]
  constructor
  · rintro ⟨n, _, hn, h⟩
    cases n with
    | zero => exact Or.inl h
    | succ n =>
      have : n = 0 := by omega
      subst this; exact Or.inr (iter_one.1 h)
  · rintro (rfl | h)
    · exact ⟨0, Nat.le_refl _, Nat.zero_le _, rfl⟩
    · exact ⟨1, Nat.zero_le _, Nat.le_refl _, iter_one.2 h⟩

def optImg {α : Type} (f : α → List Char) : Option α → List Char
  | none => []
  | some x => f x

theorem Img.opt {a : Regex} {α : Type} {f : α → List Char} (ha : Img a f) : Img (.rep a 0 1) (optImg f) := by
  intro l w rest
  rw [matches_opt, ha]
  constructor
  · rintro (rfl | ⟨x, rfl⟩)
    · exact ⟨none, rfl⟩
    · exact ⟨some x, rfl⟩
  · rintro ⟨_ | x, rfl⟩
    · exact Or.inl rfl
    · exact Or.inr ⟨x, rfl⟩

theorem iter_img {R : List Char → List Char → List Char → Prop} {α : Type} {f : α → List Char}
    (hR : ∀ l w rest, R l w rest ↔ ∃ x, w = f x) {n : Nat} {l w rest : List Char} :
    Iter R n l w rest ↔ ∃ xs : List α, xs.length = n ∧ w = (xs.map f).flatten := by
  induction n generalizing l w with
  | zero =>
    simp only [Iter]
    constructor
    · rintro rfl; exact ⟨[], rfl, rfl⟩
    · rintro ⟨xs, hx, rfl⟩
      have : xs = [] := List.length_eq_zero_iff.1 hx
      subst this; rfl
  | succ n ih =>
    simp only [Iter, Seq, hR, ih]
    constructor
    · rintro ⟨w₁, w₂, rfl, ⟨x, rfl⟩, xs, hx, rfl⟩
      exact ⟨x :: xs, by simp [hx], by simp⟩
    · rintro ⟨xs, hx, rfl⟩
      cases xs with
      | nil => simp at hx
      | cons x xs =>
        exact ⟨f x, (xs.map f).flatten, by simp, ⟨x, rfl⟩, xs, by simpa using hx, rfl⟩

theorem Img.star {a : Regex} {α : Type} {f : α → List Char} (ha : Img a f) :
    Img (.star a) (fun xs : List α => (xs.map f).flatten) := by
  intro l w rest
  simp only [Matches, iter_img ha]
  constructor
  · rintro ⟨n, xs, _, rfl⟩; exact ⟨xs, rfl⟩
  · rintro ⟨xs, rfl⟩; exact ⟨xs.length, xs, rfl, rfl⟩

theorem Img.starLit (c : Char) : Img (.star (.lit c)) (fun n : Nat => List.replicate n c) := by
  refine (Img.star (Img.lit c)).congr fun w => ?_
  constructor
  · rintro ⟨xs, rfl⟩
    refine ⟨xs.length, ?_⟩
    induction xs with
    | nil => rfl
    | cons x xs ih => simp [List.replicate_succ, ih]
  · rintro ⟨n, rfl⟩
    refine ⟨List.replicate n (), ?_⟩
    induction n with
    | zero => rfl
    | succ n ih => simp [List.replicate_succ]

theorem inClass_false_iff {rs : List (Char × Char)} {c : Char} :
    inClass false rs c = true ↔ ∃ r ∈ rs, r.1 ≤ c ∧ c ≤ r.2 := by
  simp [inClass, List.any_eq_true]

/-- the characters of a range, listed -/
theorem char_range (lo hi c : Char) (h1 : lo ≤ c) (h2 : c ≤ hi) :
    c ∈ (List.range (hi.toNat - lo.toNat + 1)).map (fun i => Char.ofNat (lo.toNat + i)) := by
  rw [List.mem_map]
  have h1' : lo.toNat ≤ c.toNat := by
    simpa [Char.le_def, UInt32.le_iff_toNat_le] using h1
  have h2' : c.toNat ≤ hi.toNat := by
    simpa [Char.le_def, UInt32.le_iff_toNat_le] using h2
  refine ⟨c.toNat - lo.toNat, List.mem_range.2 (by omega), ?_⟩
  rw [Nat.add_sub_cancel' h1', Char.ofNat_toNat]

/-- a positive class whose members are exactly the characters `f x` -/
theorem Img.cls {rs : List (Char × Char)} {α : Type} {f : α → Char}
    (h : ∀ c, (∃ r ∈ rs, r.1 ≤ c ∧ c ≤ r.2) ↔ ∃ x, c = f x) : Img (.cls false rs) (fun x => [f x]) := by
  intro l w rest
  simp only [Matches, inClass_false_iff, h]
  constructor
  · rintro ⟨c, rfl, x, rfl⟩; exact ⟨x, rfl⟩
  · rintro ⟨x, rfl⟩; exact ⟨f x, rfl, x, rfl⟩

theorem matches_alts {rs : List Regex} {l w rest : List Char} :
    Matches (Regex.alts rs) l w rest ↔ ∃ r ∈ rs, Matches r l w rest := by
  induction rs with
  | nil => simp [Regex.alts, Regex.nothing, Matches, inClass]
  | cons r rs ih =>
    cases rs with
    | nil => simp [Regex.alts]
    | cons r' rs =>
      rw [Regex.alts]
      simp only [Matches, ih, List.mem_cons, exists_eq_or_imp]

theorem matches_word {cs l w rest : List Char} : Matches (Regex.word cs) l w rest ↔ w = cs := by
  unfold Regex.word
  induction cs generalizing l w with
  | nil => simp [Regex.cat, Matches]
  | cons c cs ih =>
    cases cs with
    | nil => simp [Regex.cat, Matches]
    | cons c' cs =>
      rw [List.map_cons, List.map_cons, Regex.cat]
      simp only [Matches, Seq]
      rw [← List.map_cons]
      simp only [ih]
      constructor
      · rintro ⟨w₁, w₂, rfl, rfl, rfl⟩; rfl
      · rintro rfl; exact ⟨[c], c' :: cs, rfl, rfl, rfl⟩

/-! ### the pieces of `CHORD_RE` -/

/-- `(b*|#*)` -/
def accRe : Regex := .alt (.star (.lit 'b')) (.star (.lit '#'))
/-- `([1-9]|1[0-3]?)` -/
def numRe : Regex := .alt (.cls false [('1', '9')]) (.seq (.lit '1') (.rep (.cls false [('0', '3')]) 0 1))
/-- `((b*|#*)([1-9]|1[0-3]?))` -/
def degRe : Regex := .seq accRe numRe
/-- `,\*?degree` -/
def commaItemRe : Regex := .seq (.lit ',') (.seq (.rep (.lit '*') 0 1) degRe)
/-- `(\*?degree(,\*?degree)*)` -/
def listRe : Regex := .seq (.rep (.lit '*') 0 1) (.seq degRe (.star commaItemRe))
/-- `(maj|min|…|min13)` -/
def shortRe : Regex := Regex.alts (Shorthand.all.map fun q => Regex.word q.name)
/-- `(\(list\))` -/
def parenRe : Regex := .seq (.lit '(') (.seq listRe (.lit ')'))
/-- `((:shorthand(\(list\))?)|(:\(list\)))` -/
def bodyRe : Regex :=
  .alt (.seq (.lit ':') (.seq shortRe (.rep parenRe 0 1))) (.seq (.lit ':') (.seq (.lit '(') (.seq listRe (.lit ')'))))
/-- `((/degree)?)?` -/
def bassRe : Regex := .rep (.rep (.seq (.lit '/') degRe) 0 1) 0 1
/-- `([A-G](b*|#*))` -/
def rootRe : Regex := .seq (.cls false [('A', 'G')]) accRe
/-- `((N|X)|(root body? bass))`  (Python's parser turns `(N|X)` into the class `[NX]`) -/
def labelRe : Regex :=
  .alt (.cls false [('N', 'N'), ('X', 'X')]) (.seq rootRe (.seq (.rep bodyRe 0 1) bassRe))
/-- `^label\Z` -/
def expectedRe : Regex := .seq .bos (.seq labelRe .eos)
/-- `^label$`: the pattern before the repair -/
def dollarRe : Regex := .seq .bos (.seq labelRe .eosNl)

/-- THE regeneration tie: what `harness/translate/regex.py` read from mir_eval/chord.py is this regex -/
theorem chordRe_eq_expected : Mir.Gen.chordRe = expectedRe := rfl

theorem chordRe_dollarize : Mir.Gen.chordRe.dollarize = dollarRe := rfl

theorem img_acc : Img accRe Acc.render := by
  refine ((Img.starLit 'b').alt (Img.starLit '#')).congr fun w => ?_
  constructor
  · rintro ⟨n | n, rfl⟩
    · cases n with
      | zero => exact ⟨.natural, rfl⟩
      | succ n => exact ⟨.flats n, rfl⟩
    · cases n with
      | zero => exact ⟨.natural, rfl⟩
      | succ n => exact ⟨.sharps n, rfl⟩
  · rintro ⟨a, rfl⟩
    cases a with
    | natural => exact ⟨.inl 0, rfl⟩
    | flats n => exact ⟨.inl (n + 1), rfl⟩
    | sharps n => exact ⟨.inr (n + 1), rfl⟩

theorem DegNum.mem_all (n : DegNum) : n ∈ DegNum.all := by cases n <;> decide
theorem Shorthand.mem_all (q : Shorthand) : q ∈ Shorthand.all := by cases q <;> decide
theorem Letter.mem_all (L : Letter) : L ∈ Letter.all := by cases L <;> decide

theorem img_digit19 : Img (.cls false [('1', '9')]) (fun c : {c : Char // c ∈ ['1', '2', '3', '4', '5', '6', '7', '8', '9']} => [c.1]) := by
  refine Img.cls fun c => ?_
  constructor
  · rintro ⟨r, hr, h1, h2⟩
    simp only [List.mem_singleton] at hr; subst hr
    exact ⟨⟨c, char_range _ _ c h1 h2⟩, rfl⟩
  · rintro ⟨⟨x, hx⟩, rfl⟩
    refine ⟨('1', '9'), List.mem_singleton.2 rfl, ?_⟩
    simp only [List.mem_cons, List.not_mem_nil, or_false] at hx
    rcases hx with rfl | rfl | rfl | rfl | rfl | rfl | rfl | rfl | rfl <;> decide

theorem img_digit03 : Img (.cls false [('0', '3')]) (fun c : {c : Char // c ∈ ['0', '1', '2', '3']} => [c.1]) := by
  refine Img.cls fun c => ?_
  constructor
  · rintro ⟨r, hr, h1, h2⟩
    simp only [List.mem_singleton] at hr; subst hr
    exact ⟨⟨c, char_range _ _ c h1 h2⟩, rfl⟩
  · rintro ⟨⟨x, hx⟩, rfl⟩
    refine ⟨('0', '3'), List.mem_singleton.2 rfl, ?_⟩
    simp only [List.mem_cons, List.not_mem_nil, or_false] at hx
    rcases hx with rfl | rfl | rfl | rfl <;> decide

theorem img_num : Img numRe DegNum.render := by
  refine (img_digit19.alt ((Img.lit '1').seq img_digit03.opt)).congr fun w => ?_
  constructor
  · rintro ⟨⟨c, hc⟩ | ⟨_, o⟩, rfl⟩
    · simp only [List.mem_cons, List.not_mem_nil, or_false] at hc
      rcases hc with rfl | rfl | rfl | rfl | rfl | rfl | rfl | rfl | rfl
      · exact ⟨.d1, rfl⟩
      · exact ⟨.d2, rfl⟩
      · exact ⟨.d3, rfl⟩
      · exact ⟨.d4, rfl⟩
      · exact ⟨.d5, rfl⟩
      · exact ⟨.d6, rfl⟩
      · exact ⟨.d7, rfl⟩
      · exact ⟨.d8, rfl⟩
      · exact ⟨.d9, rfl⟩
    · cases o with
      | none => exact ⟨.d1, rfl⟩
      | some c =>
        obtain ⟨c, hc⟩ := c
        simp only [List.mem_cons, List.not_mem_nil, or_false] at hc
        rcases hc with rfl | rfl | rfl | rfl
        · exact ⟨.d10, rfl⟩
        · exact ⟨.d11, rfl⟩
        · exact ⟨.d12, rfl⟩
        · exact ⟨.d13, rfl⟩
  · rintro ⟨n, rfl⟩
    cases n
    · exact ⟨.inr ((), none), rfl⟩
    · exact ⟨.inl ⟨'2', by decide⟩, rfl⟩
    · exact ⟨.inl ⟨'3', by decide⟩, rfl⟩
    · exact ⟨.inl ⟨'4', by decide⟩, rfl⟩
    · exact ⟨.inl ⟨'5', by decide⟩, rfl⟩
    · exact ⟨.inl ⟨'6', by decide⟩, rfl⟩
    · exact ⟨.inl ⟨'7', by decide⟩, rfl⟩
    · exact ⟨.inl ⟨'8', by decide⟩, rfl⟩
    · exact ⟨.inl ⟨'9', by decide⟩, rfl⟩
    · exact ⟨.inr ((), some ⟨'0', by decide⟩), rfl⟩
    · exact ⟨.inr ((), some ⟨'1', by decide⟩), rfl⟩
    · exact ⟨.inr ((), some ⟨'2', by decide⟩), rfl⟩
    · exact ⟨.inr ((), some ⟨'3', by decide⟩), rfl⟩

theorem img_deg : Img degRe Degree.render := by
  refine (img_acc.seq img_num).congr fun w => ?_
  constructor
  · rintro ⟨⟨a, n⟩, rfl⟩; exact ⟨⟨a, n⟩, rfl⟩
  · rintro ⟨⟨a, n⟩, rfl⟩; exact ⟨(a, n), rfl⟩

/-- `\*?degree` as a sequence of two items -/
theorem img_item {r : Regex} {α : Type} {f : α → List Char} (hr : Img r f) :
    Img (.seq (.rep (.lit '*') 0 1) (.seq degRe r)) (fun p : DegItem × α => p.1.render ++ f p.2) := by
  refine ((Img.lit '*').opt.seq (img_deg.seq hr)).congr fun w => ?_
  constructor
  · rintro ⟨⟨o, d, x⟩, rfl⟩
    cases o with
    | none => exact ⟨(⟨false, d⟩, x), by simp [optImg, DegItem.render]⟩
    | some u => exact ⟨(⟨true, d⟩, x), by simp [optImg, DegItem.render]⟩
  · rintro ⟨⟨⟨o, d⟩, x⟩, rfl⟩
    cases o with
    | false => exact ⟨(none, d, x), by simp [optImg, DegItem.render]⟩
    | true => exact ⟨(some (), d, x), by simp [optImg, DegItem.render]⟩

theorem img_commaItem : Img commaItemRe (fun i : DegItem => ',' :: i.render) := by
  have h : Img (.seq (.rep (.lit '*') 0 1) degRe) DegItem.render := by
    refine ((Img.lit '*').opt.seq img_deg).congr fun w => ?_
    constructor
    · rintro ⟨⟨o, d⟩, rfl⟩
      cases o with
      | none => exact ⟨⟨false, d⟩, by simp [optImg, DegItem.render]⟩
      | some u => exact ⟨⟨true, d⟩, by simp [optImg, DegItem.render]⟩
    · rintro ⟨⟨o, d⟩, rfl⟩
      cases o with
      | false => exact ⟨(none, d), by simp [optImg, DegItem.render]⟩
      | true => exact ⟨(some (), d), by simp [optImg, DegItem.render]⟩
  refine ((Img.lit ',').seq h).congr fun w => ?_
  constructor
  · rintro ⟨⟨_, i⟩, rfl⟩; exact ⟨i, rfl⟩
  · rintro ⟨i, rfl⟩; exact ⟨((), i), rfl⟩

theorem joinSep_cons_eq (sep : Char) (x : List Char) (xs : List (List Char)) :
    joinSep sep (x :: xs) = x ++ (xs.map fun y => sep :: y).flatten := by
  induction xs generalizing x with
  | nil => simp [joinSep]
  | cons y ys ih => rw [joinSep, ih]; simp

/-- the text between the parentheses -/
def renderList (p : DegItem × List DegItem) : List Char := joinSep ',' ((p.1 :: p.2).map DegItem.render)

theorem img_list : Img listRe renderList := by
  refine (img_item img_commaItem.star).congr fun w => ?_
  constructor
  · rintro ⟨⟨d, ds⟩, rfl⟩
    exact ⟨(d, ds), by simp [renderList, joinSep_cons_eq, List.map_map, Function.comp_def]⟩
  · rintro ⟨⟨d, ds⟩, rfl⟩
    exact ⟨(d, ds), by simp [renderList, joinSep_cons_eq, List.map_map, Function.comp_def]⟩

theorem img_short : Img shortRe Shorthand.name := by
  intro l w rest
  unfold shortRe
  rw [matches_alts]
  constructor
  · rintro ⟨r, hr, hm⟩
    obtain ⟨q, _, rfl⟩ := List.mem_map.1 hr
    exact ⟨q, matches_word.1 hm⟩
  · rintro ⟨q, rfl⟩
    exact ⟨_, List.mem_map.2 ⟨q, Shorthand.mem_all q, rfl⟩, matches_word.2 rfl⟩

theorem img_paren : Img parenRe (fun p : DegItem × List DegItem => renderParen p.1 p.2) := by
  refine ((Img.lit '(').seq (img_list.seq (Img.lit ')'))).congr fun w => ?_
  constructor
  · rintro ⟨⟨_, p, _⟩, rfl⟩; exact ⟨p, rfl⟩
  · rintro ⟨p, rfl⟩; exact ⟨((), p, ()), rfl⟩

theorem img_body : Img bodyRe Body.render := by
  refine (((Img.lit ':').seq (img_short.seq img_paren.opt)).alt
    ((Img.lit ':').seq ((Img.lit '(').seq (img_list.seq (Img.lit ')'))))).congr fun w => ?_
  constructor
  · rintro ⟨⟨_, q, o⟩ | ⟨_, _, p, _⟩, rfl⟩
    · cases o with
      | none => exact ⟨.short q none, by simp [optImg, Body.render]⟩
      | some p => exact ⟨.short q (some p), by simp [optImg, Body.render]⟩
    · exact ⟨.degsOnly p.1 p.2, by simp [Body.render, renderParen, renderList]⟩
  · rintro ⟨b, rfl⟩
    cases b with
    | short q o =>
      cases o with
      | none => exact ⟨.inl ((), q, none), by simp [optImg, Body.render]⟩
      | some p => exact ⟨.inl ((), q, some p), by simp [optImg, Body.render]⟩
    | degsOnly d ds => exact ⟨.inr ((), (), (d, ds), ()), by simp [Body.render, renderParen, renderList]⟩

theorem img_optBody : Img (.rep bodyRe 0 1) renderBody := by
  refine img_body.opt.congr fun w => ?_
  constructor
  · rintro ⟨o, rfl⟩; exact ⟨o, by cases o <;> rfl⟩
  · rintro ⟨o, rfl⟩; exact ⟨o, by cases o <;> rfl⟩

theorem img_bass : Img bassRe renderBass := by
  refine ((Img.lit '/').seq img_deg).opt.opt.congr fun w => ?_
  constructor
  · rintro ⟨o, rfl⟩
    match o with
    | none => exact ⟨none, rfl⟩
    | some none => exact ⟨none, rfl⟩
    | some (some (_, d)) => exact ⟨some d, rfl⟩
  · rintro ⟨o, rfl⟩
    cases o with
    | none => exact ⟨none, rfl⟩
    | some d => exact ⟨some (some ((), d)), rfl⟩

theorem img_letter : Img (.cls false [('A', 'G')]) (fun L : Letter => [L.char]) := by
  refine Img.cls fun c => ?_
  constructor
  · rintro ⟨r, hr, h1, h2⟩
    simp only [List.mem_singleton] at hr; subst hr
    have := char_range _ _ c h1 h2
    change c ∈ ['A', 'B', 'C', 'D', 'E', 'F', 'G'] at this
    simp only [List.mem_cons, List.not_mem_nil, or_false] at this
    rcases this with rfl | rfl | rfl | rfl | rfl | rfl | rfl
    · exact ⟨.A, rfl⟩
    · exact ⟨.B, rfl⟩
    · exact ⟨.C, rfl⟩
    · exact ⟨.D, rfl⟩
    · exact ⟨.E, rfl⟩
    · exact ⟨.F, rfl⟩
    · exact ⟨.G, rfl⟩
  · rintro ⟨L, rfl⟩
    refine ⟨('A', 'G'), List.mem_singleton.2 rfl, ?_⟩
    cases L <;> decide

theorem img_NX : Img (.cls false [('N', 'N'), ('X', 'X')]) (fun b : Bool => [if b then 'X' else 'N']) := by
  refine Img.cls fun c => ?_
  constructor
  · rintro ⟨r, hr, h1, h2⟩
    simp only [List.mem_cons, List.not_mem_nil, or_false] at hr
    rcases hr with rfl | rfl
    · exact ⟨false, Char.le_antisymm h2 h1⟩
    · exact ⟨true, Char.le_antisymm h2 h1⟩
  · rintro ⟨b, rfl⟩
    cases b
    · exact ⟨('N', 'N'), by simp, by decide⟩
    · exact ⟨('X', 'X'), by simp, by decide⟩

theorem img_label : Img labelRe Label.render := by
  refine (img_NX.alt ((img_letter.seq img_acc).seq (img_optBody.seq img_bass))).congr fun w => ?_
  constructor
  · rintro ⟨b | ⟨⟨L, a⟩, body, bass⟩, rfl⟩
    · cases b
      · exact ⟨.N, rfl⟩
      · exact ⟨.X, rfl⟩
    · exact ⟨.chord L a body bass, by simp [Label.render]⟩
  · rintro ⟨lab, rfl⟩
    cases lab with
    | N => exact ⟨.inl false, rfl⟩
    | X => exact ⟨.inl true, rfl⟩
    | chord L a body bass => exact ⟨.inr ((L, a), body, bass), by simp [Label.render]⟩

/-! ### the whole pattern -/

theorem matches_expected {w rest : List Char} :
    Matches expectedRe [] w rest ↔ rest = [] ∧ ∃ lab : Label, w = lab.render := by
  simp only [expectedRe, Matches, Seq, img_label _ _ _]
  constructor
  · rintro ⟨w₁, w₂, rfl, ⟨rfl, _⟩, w₃, w₄, rfl, ⟨lab, rfl⟩, rfl, rfl⟩
    exact ⟨rfl, lab, by simp⟩
  · rintro ⟨rfl, lab, rfl⟩
    exact ⟨[], lab.render, rfl, ⟨rfl, trivial⟩, lab.render, [], by simp, ⟨lab, rfl⟩, rfl, rfl⟩

theorem matches_dollar {w rest : List Char} :
    Matches dollarRe [] w rest ↔ (rest = [] ∨ rest = ['\n']) ∧ ∃ lab : Label, w = lab.render := by
  simp only [dollarRe, Matches, Seq, img_label _ _ _]
  constructor
  · rintro ⟨w₁, w₂, rfl, ⟨rfl, _⟩, w₃, w₄, rfl, ⟨lab, rfl⟩, rfl, h⟩
    exact ⟨h, lab, by simp⟩
  · rintro ⟨h, lab, rfl⟩
    exact ⟨[], lab.render, rfl, ⟨rfl, trivial⟩, lab.render, [], by simp, ⟨lab, rfl⟩, rfl, h⟩

theorem isSome_recognize_iff (s : List Char) : (recognize s).isSome = true ↔ ∃ lab : Label, s = lab.render := by
  constructor
  · intro h
    obtain ⟨lab, hl⟩ := Option.isSome_iff_exists.1 h
    exact ⟨lab, (Chord.recognize_sound hl).symm⟩
  · rintro ⟨lab, rfl⟩; simp [Chord.recognize_render]

theorem matchPrefix_expected (s : List Char) : matchPrefix expectedRe s = (recognize s).isSome := by
  rw [Bool.eq_iff_iff, matchPrefix_iff, isSome_recognize_iff]
  simp only [matches_expected]
  constructor
  · rintro ⟨w, rest, rfl, rfl, lab, rfl⟩; exact ⟨lab, by simp⟩
  · rintro ⟨lab, rfl⟩; exact ⟨lab.render, [], by simp, rfl, lab, rfl⟩

theorem fullMatch_expected (s : List Char) : fullMatch expectedRe s = (recognize s).isSome := by
  rw [Bool.eq_iff_iff, fullMatch_iff, isSome_recognize_iff, matches_expected]
  simp

theorem dropLast_append_of_getLast? {l : List Char} {a : Char} (h : l.getLast? = some a) : l.dropLast ++ [a] = l := by
  have hne : l ≠ [] := by rintro rfl; simp at h
  rw [List.getLast?_eq_some_getLast hne] at h
  injection h with h; subst h
  exact List.dropLast_concat_getLast hne

theorem matchPrefix_dollar (s : List Char) :
    matchPrefix dollarRe s = ((recognize s).isSome || (s.getLast? == some '\n' && (recognize s.dropLast).isSome)) := by
  rw [Bool.eq_iff_iff, matchPrefix_iff]
  simp only [matches_dollar, Bool.or_eq_true, Bool.and_eq_true, isSome_recognize_iff, beq_iff_eq]
  constructor
  · rintro ⟨w, rest, rfl, h | h, lab, rfl⟩
    · subst h; exact Or.inl ⟨lab, by simp⟩
    · subst h; exact Or.inr ⟨by simp, lab, by simp⟩
  · rintro (⟨lab, rfl⟩ | ⟨h, lab, hl⟩)
    · exact ⟨lab.render, [], by simp, Or.inl rfl, lab, rfl⟩
    · refine ⟨lab.render, ['\n'], ?_, Or.inr rfl, lab, rfl⟩
      rw [← hl]
      exact (dropLast_append_of_getLast? h).symm

/-- no derivable label contains a newline -/
theorem newline_not_mem_render (lab : Label) : '\n' ∉ lab.render := by
  cases lab with
  | N => decide
  | X => decide
  | chord L a body bass =>
    simp only [Label.render, List.mem_cons, List.mem_append, not_or]
    refine ⟨by cases L <;> decide, not_mem_of_alpha (Acc.render_chars a) (by decide),
      not_mem_of_alpha (renderBody_chars body) (by decide), ?_⟩
    cases bass with
    | none => simp [renderBass]
    | some d =>
      simp only [renderBass, List.mem_cons, not_or]
      exact ⟨by decide, not_mem_of_alpha (Degree.render_chars d) (by decide)⟩

theorem recognize_render_newline (lab : Label) : recognize (lab.render ++ ['\n']) = none := by
  cases h : recognize (lab.render ++ ['\n']) with
  | none => rfl
  | some l' =>
    have h1 := Chord.recognize_sound h
    have h2 : '\n' ∈ l'.render := by rw [h1]; simp
    exact absurd h2 (newline_not_mem_render l')

end Mir.Rx
