import MirProofs.Lemmas.ChordShift
import MirModel.ChordEvaluate

/-!
  Renaming the labels / tokens of annotations (`relabel f`): every stage of the `chord.evaluate` pipeline —
  `adjust_intervals`, `merge_labeled_intervals`, `merge_chord_intervals`, the encoders, the weighted accuracies —
  is natural in the label type, and invariant under token maps that are injective on the fusing keys and preserve
  the comparison functions.  Used by C09 (`transpose_evaluate`).
-/
namespace Mir.Iv

variable {L M L' M' T U : Type}

/-- apply `f` to every label, times untouched -/
def relabel (f : L → M) (xs : LI L) : LI M := xs.map fun x => (x.1, x.2.1, f x.2.2)

@[simp] theorem relabel_nil (f : L → M) : relabel f ([] : LI L) = [] := rfl
@[simp] theorem relabel_cons (f : L → M) (x : Rat × Rat × L) (r : LI L) :
    relabel f (x :: r) = (x.1, x.2.1, f x.2.2) :: relabel f r := rfl

theorem relabel_relabel (g : M → T) (f : L → M) (xs : LI L) : relabel g (relabel f xs) = relabel (g ∘ f) xs := by
  induction xs with
  | nil => rfl
  | cons x r ih => simp only [relabel_cons, ih, Function.comp]

theorem relabel_append (f : L → M) (xs ys : LI L) : relabel f (xs ++ ys) = relabel f xs ++ relabel f ys := by
  unfold relabel; rw [List.map_append]

theorem entries_relabel (f : L → M) (xs : LI L) : entries (relabel f xs) = entries xs := by
  induction xs with
  | nil => rfl
  | cons x r ih => simp only [relabel_cons, entries, ih]

theorem labels_relabel (f : L → M) (xs : LI L) : labels (relabel f xs) = (labels xs).map f := by
  unfold labels relabel; rw [List.map_map, List.map_map]; rfl

theorem mem_relabel {f : L → M} {xs : LI L} {y : Rat × Rat × M} (h : y ∈ relabel f xs) :
    ∃ x ∈ xs, y = (x.1, x.2.1, f x.2.2) := by
  obtain ⟨x, hx, rfl⟩ := List.mem_map.1 h
  exact ⟨x, hx, rfl⟩

/-! ### `adjust_intervals` -/

theorem clipMin_relabel (f : L → M) (a : Rat) (xs : LI L) : clipMin a (relabel f xs) = relabel f (clipMin a xs) := by
  unfold clipMin relabel; rw [List.map_map, List.map_map]; rfl

theorem clipMax_relabel (f : L → M) (b : Rat) (xs : LI L) : clipMax b (relabel f xs) = relabel f (clipMax b xs) := by
  unfold clipMax relabel; rw [List.map_map, List.map_map]; rfl

theorem dropWhile_relabel (f : L → M) (a : Rat) (xs : LI L) :
    (relabel f xs).dropWhile (fun x => decide (x.2.1 ≤ a)) =
      relabel f (xs.dropWhile (fun x => decide (x.2.1 ≤ a))) := by
  induction xs with
  | nil => rfl
  | cons x r ih =>
    rw [relabel_cons, List.dropWhile_cons, List.dropWhile_cons]
    by_cases h : x.2.1 ≤ a
    · simp only [h, decide_true, if_true, ih]
    · simp only [h, decide_false, Bool.false_eq_true, if_false, relabel_cons]

theorem cropMin_relabel (f : L → M) (a : Rat) (xs : LI L) : cropMin a (relabel f xs) = relabel f (cropMin a xs) := by
  unfold cropMin
  rw [dropWhile_relabel]
  cases xs.dropWhile (fun x => decide (x.2.1 ≤ a)) with
  | nil => rfl
  | cons k ks => rfl

theorem cropMax_relabel (f : L → M) (b : Rat) (xs : LI L) : cropMax b (relabel f xs) = relabel f (cropMax b xs) := by
  unfold cropMax
  induction xs with
  | nil => rfl
  | cons x r ih =>
    rw [relabel_cons, List.takeWhile_cons, List.takeWhile_cons]
    by_cases h : x.1 < b
    · simp only [h, decide_true, if_true, ih, relabel_cons]
    · simp only [h, decide_false, Bool.false_eq_true, if_false, relabel_nil]

theorem adjustMin_relabel (f : L → M) (a : Rat) (s : L) (xs : LI L) :
    adjustMin a (f s) (relabel f xs) = (adjustMin a s xs).map (relabel f) := by
  unfold adjustMin
  simp only [cropMin_relabel, clipMin_relabel, entries_relabel]
  cases minL (entries (clipMin a (cropMin a xs))) with
  | none => rfl
  | some m =>
    by_cases h : a < m
    · simp only [h, if_true]; rfl
    · simp only [h, if_false]; rfl

theorem adjustMax_relabel (f : L → M) (b : Rat) (e : L) (xs : LI L) :
    adjustMax b (f e) (relabel f xs) = (adjustMax b e xs).map (relabel f) := by
  unfold adjustMax
  simp only [cropMax_relabel, clipMax_relabel, entries_relabel]
  cases maxL (entries (clipMax b (cropMax b xs))) with
  | none => rfl
  | some m =>
    by_cases h : m < b
    · simp only [h, if_true, Except.map, relabel_append]; rfl
    · simp only [h, if_false]; rfl

theorem adjustIntervals_relabel (f : L → M) (xs : LI L) (tmin tmax : Option Rat) (s e : L) :
    adjustIntervals (relabel f xs) tmin tmax (f s) (f e) = (adjustIntervals xs tmin tmax s e).map (relabel f) := by
  cases xs with
  | nil => cases tmin <;> cases tmax <;> rfl
  | cons x r =>
    have hx : relabel f (x :: r) = (x.1, x.2.1, f x.2.2) :: relabel f r := rfl
    unfold adjustIntervals
    rw [hx]
    simp only
    rw [← hx]
    cases tmin with
    | none =>
      cases tmax with
      | none => rfl
      | some b => exact adjustMax_relabel f b e (x :: r)
    | some a =>
      show (adjustMin a (f s) (relabel f (x :: r)) >>= fun x1 =>
          match tmax with
          | none => Except.ok x1
          | some b => adjustMax b (f e) x1) =
        Except.map (relabel f) (adjustMin a s (x :: r) >>= fun x1 =>
          match tmax with
          | none => Except.ok x1
          | some b => adjustMax b e x1)
      rw [adjustMin_relabel]
      cases adjustMin a s (x :: r) with
      | error er => rfl
      | ok x1 =>
        cases tmax with
        | none => rfl
        | some b => exact adjustMax_relabel f b e x1

/-! ### `merge_labeled_intervals` -/

theorem lastStarted_relabel (f : L → M) (xs : LI L) (t : Rat) :
    lastStarted (relabel f xs) t = (lastStarted xs t).map f := by
  induction xs with
  | nil => rfl
  | cons x r ih =>
    simp only [relabel_cons, lastStarted, ih]
    cases lastStarted r t with
    | some l => rfl
    | none =>
      by_cases h : x.1 ≤ t
      · simp only [h, if_true, Option.map]
      · simp only [h, if_false, Option.map]

/-- rename both label columns of a merged row -/
def relabelRow (f : L → L') (g : M → M') (r : Rat × Rat × L × M) : Rat × Rat × L' × M' :=
  (r.1, r.2.1, f r.2.2.1, g r.2.2.2)

theorem rowF_relabel (f : L → L') (g : M → M') (x : LI L) (y : LI M) (pq : Rat × Rat) :
    rowF (relabel f x) (relabel g y) pq = (rowF x y pq).map (relabelRow f g) := by
  unfold rowF
  simp only [lastStarted_relabel]
  cases lastStarted x pq.1 <;> cases lastStarted y pq.1 <;> rfl

theorem firstStart_relabel (f : L → M) (xs : LI L) : firstStart (relabel f xs) = firstStart xs := by
  cases xs <;> rfl

theorem lastEnd_relabel (f : L → M) (xs : LI L) : lastEnd (relabel f xs) = lastEnd xs := by
  unfold lastEnd relabel
  rw [List.getLast?_map]
  cases xs.getLast? <;> rfl

theorem mergeLabeled_relabel (f : L → L') (g : M → M') (x : LI L) (y : LI M) :
    mergeLabeled (relabel f x) (relabel g y) = (mergeLabeled x y).map (List.map (relabelRow f g)) := by
  rw [mergeLabeled_eq, mergeLabeled_eq, firstStart_relabel, lastEnd_relabel, firstStart_relabel, lastEnd_relabel,
    entries_relabel, entries_relabel]
  cases firstStart x <;> cases lastEnd x <;> cases firstStart y <;> cases lastEnd y <;> try rfl
  rename_i a b c d
  by_cases h : a = c ∧ b = d
  · simp only [h, and_self, if_true]
    rw [mergeRows_eq, mergeRows_eq]
    have : rowF (relabel f x) (relabel g y) = fun pq => (rowF x y pq).map (relabelRow f g) := by
      funext pq; exact rowF_relabel f g x y pq
    rw [this, mapM_map_post]
  · simp only [h, if_false]; rfl

/-! ### `merge_chord_intervals` -/

theorem mergeChordAux_relabel [DecidableEq T] [DecidableEq U] (g : T → U) (P : T → Prop)
    (hinj : ∀ a b, P a → P b → g a = g b → a = b) (prev : T) (hp : P prev) (cs ce : Rat) (xs : LI T)
    (hxs : ∀ x ∈ xs, P x.2.2) :
    mergeChordAux (g prev) cs ce (relabel g xs) = mergeChordAux prev cs ce xs := by
  induction xs generalizing prev cs ce with
  | nil => rfl
  | cons x r ih =>
    have hx : P x.2.2 := hxs x List.mem_cons_self
    have hr : ∀ y ∈ r, P y.2.2 := fun y hy => hxs y (List.mem_cons_of_mem _ hy)
    simp only [relabel_cons, mergeChordAux]
    by_cases h : x.2.2 = prev
    · rw [if_pos h, if_pos (by rw [h]), ih prev hp _ _ hr]
    · have h' : ¬ g x.2.2 = g prev := fun hg => h (hinj _ _ hx hp hg)
      rw [if_neg h, if_neg h', ih x.2.2 hx _ _ hr]

theorem mergeChord_relabel [DecidableEq T] [DecidableEq U] (g : T → U) (P : T → Prop)
    (hinj : ∀ a b, P a → P b → g a = g b → a = b) (xs : LI T) (hxs : ∀ x ∈ xs, P x.2.2) :
    mergeChord (relabel g xs) = mergeChord xs := by
  cases xs with
  | nil => rfl
  | cons x r =>
    exact mergeChordAux_relabel g P hinj x.2.2 (hxs x List.mem_cons_self) _ _ r
      (fun y hy => hxs y (List.mem_cons_of_mem _ hy))

/-! ### the weighted score and the token pipeline (`evaluateTokens`) -/

theorem chordScore_relabel (cmp : L → M → Rat) (cmp' : L' → M' → Rat) (f : L → L') (g : M → M')
    (hc : ∀ a b, cmp' (f a) (g b) = cmp a b) (x : LI L) (y : LI M) :
    chordScore cmp' (relabel f x) (relabel g y) = chordScore cmp x y := by
  unfold chordScore
  rw [mergeLabeled_relabel]
  cases mergeLabeled x y with
  | error e => rfl
  | ok rows =>
    have h1 : ((rows.map (relabelRow f g)).map fun r => (r.1, r.2.1)) = rows.map fun r => (r.1, r.2.1) := by
      rw [List.map_map]; rfl
    have h2 : ((rows.map (relabelRow f g)).map fun r => cmp' r.2.2.1 r.2.2.2) =
        rows.map fun r => cmp r.2.2.1 r.2.2.2 := by
      rw [List.map_map]
      apply List.map_congr_left
      intro r _
      exact hc _ _
    show (intervalsToDurations ((rows.map (relabelRow f g)).map fun r => (r.1, r.2.1)) >>= fun durs =>
        wacc ((rows.map (relabelRow f g)).map fun r => cmp' r.2.2.1 r.2.2.2) durs) =
      (intervalsToDurations (rows.map fun r => (r.1, r.2.1)) >>= fun durs =>
        wacc (rows.map fun r => cmp r.2.2.1 r.2.2.2) durs)
    rw [h1, h2]

/-- **`chord.evaluate` on tokens is invariant under an injective renaming of the tokens** that preserves the
    comparison function (and maps the no-chord token to the new no-chord token): all four scores, or the same
    exception. -/
theorem evaluateTokens_relabel [DecidableEq T] [DecidableEq U] (f : T → U) (hinj : Function.Injective f)
    (cmp : T → T → Rat) (cmp' : U → U → Rat) (hc : ∀ a b, cmp' (f a) (f b) = cmp a b) (noChord : T)
    (ref est : LI T) :
    evaluateTokens cmp' (f noChord) (relabel f ref) (relabel f est) = evaluateTokens cmp noChord ref est := by
  rw [evaluateTokens_eq, evaluateTokens_eq, entries_relabel]
  cases minL (entries ref) with
  | none => rfl
  | some lo =>
    cases maxL (entries ref) with
    | none => rfl
    | some hi =>
      show (adjustIntervals (relabel f est) (some lo) (some hi) (f noChord) (f noChord) >>= fun est' =>
          scoresOf cmp' (relabel f ref) est') =
        (adjustIntervals est (some lo) (some hi) noChord noChord >>= fun est' => scoresOf cmp ref est')
      rw [adjustIntervals_relabel]
      cases adjustIntervals est (some lo) (some hi) noChord noChord with
      | error e => rfl
      | ok est' =>
        show scoresOf cmp' (relabel f ref) (relabel f est') = scoresOf cmp ref est'
        unfold scoresOf
        rw [chordScore_relabel cmp cmp' f f hc,
          mergeChord_relabel f (fun _ => True) (fun a b _ _ h => hinj h) ref (fun _ _ => trivial),
          mergeChord_relabel f (fun _ => True) (fun a b _ _ h => hinj h) est' (fun _ _ => trivial)]

/-- every annotation whose labels satisfy `P` is the image of an annotation over the subtype -/
theorem exists_lift (P : T → Prop) (xs : LI T) (h : ∀ x ∈ xs, P x.2.2) :
    ∃ ys : LI {t : T // P t}, relabel Subtype.val ys = xs := by
  induction xs with
  | nil => exact ⟨[], rfl⟩
  | cons x r ih =>
    obtain ⟨ys, hys⟩ := ih (fun y hy => h y (List.mem_cons_of_mem _ hy))
    exact ⟨(x.1, x.2.1, ⟨x.2.2, h x List.mem_cons_self⟩) :: ys, by rw [relabel_cons, hys]⟩

/-- the same with injectivity and preservation of the comparison required only on a set `P` of tokens that contains
    the no-chord token and all the tokens of the two annotations -/
theorem evaluateTokens_relabel_on [DecidableEq T] [DecidableEq U] (P : T → Prop) (f : T → U)
    (hinj : ∀ a b, P a → P b → f a = f b → a = b)
    (cmp : T → T → Rat) (cmp' : U → U → Rat) (hc : ∀ a b, P a → P b → cmp' (f a) (f b) = cmp a b)
    (noChord : T) (hn : P noChord) (ref est : LI T) (href : ∀ x ∈ ref, P x.2.2) (hest : ∀ x ∈ est, P x.2.2) :
    evaluateTokens cmp' (f noChord) (relabel f ref) (relabel f est) = evaluateTokens cmp noChord ref est := by
  obtain ⟨r', rfl⟩ := exists_lift P ref href
  obtain ⟨e', rfl⟩ := exists_lift P est hest
  rw [relabel_relabel, relabel_relabel]
  have h1 := evaluateTokens_relabel (f ∘ (Subtype.val : {t : T // P t} → T))
    (fun a b h => Subtype.ext (hinj a.1 b.1 a.2 b.2 h)) (fun a b => cmp a.1 b.1) cmp'
    (fun a b => hc a.1 b.1 a.2 b.2) ⟨noChord, hn⟩ r' e'
  have h2 := evaluateTokens_relabel (Subtype.val : {t : T // P t} → T) Subtype.val_injective
    (fun a b => cmp a.1 b.1) cmp (fun _ _ => rfl) ⟨noChord, hn⟩ r' e'
  exact h1.trans h2.symm

end Mir.Iv

/-! ## `chord.evaluate` on labels (`ChordEval.evaluateWith`) -/
namespace Mir.ChordEval
open Mir.Iv

variable {S S' K K' T T' ρ : Type}

/-- the comparison half after the merge: durations, comparison encodings, weighted accuracies -/
def accPart (encT : S → Py T) (rules : List ρ) (cmp : ρ → T → T → Rat) (rows : List (Rat × Rat × S × S)) :
    Py (List Num) := do
  let durs ← intervalsToDurations (rows.map fun r => (r.1, r.2.1))
  let refT ← encList encT (rows.map fun r => r.2.2.1)
  let estT ← encList encT (rows.map fun r => r.2.2.2)
  accuracies rules cmp refT estT durs

/-- the segmentation half: scores of the fused annotations, appended to the accuracies -/
def segPart [DecidableEq K] (refK estK : LI K) (accs : List Num) : Py (List Num) := do
  let u ← underseg (mergeChord refK) (mergeChord estK)
  let o ← overseg (mergeChord refK) (mergeChord estK)
  pure (accs ++ [u, o, Num.pymin o u])

/-- the part of `evaluateWith` after the estimate has been adjusted to the reference span -/
def scoresWith [DecidableEq K] (encK : S → Py K) (encT : S → Py T) (rules : List ρ) (cmp : ρ → T → T → Rat)
    (ref est' : LI S) : Py (List Num) :=
  encLI encK ref >>= fun refK =>
  encLI encK est' >>= fun estK =>
  mergeLabeled ref est' >>= fun rows =>
  accPart encT rules cmp rows >>= fun accs =>
  segPart refK estK accs

theorem evaluateWith_eq [DecidableEq K] (encK : S → Py K) (encT : S → Py T) (rules : List ρ)
    (cmp : ρ → T → T → Rat) (noChord : S) (ref est : LI S) :
    evaluateWith encK encT rules cmp noChord ref est =
      ((match minL (entries ref) with
        | some v => pure v
        | none => throw .valueError) >>= fun lo =>
       (match maxL (entries ref) with
        | some v => pure v
        | none => throw .valueError) >>= fun hi =>
       adjustIntervals est (some lo) (some hi) noChord noChord >>= fun est' =>
       scoresWith encK encT rules cmp ref est') := by
  unfold evaluateWith scoresWith accPart segPart
  cases minL (entries ref) with
  | none => rfl
  | some lo =>
    cases maxL (entries ref) with
    | none => rfl
    | some hi =>
      simp only [bind_assoc]

theorem ok_bind {α β : Type} (a : α) (k : α → Py β) : ((Except.ok a : Py α) >>= k) = k a := rfl

theorem encLI_ok (xs : LI S) : encLI (Except.ok : S → Py S) xs = .ok xs := by
  induction xs with
  | nil => rfl
  | cons x r ih => simp only [encLI, ih]

theorem encList_ok (l : List S) : encList (Except.ok : S → Py S) l = .ok l := by
  induction l with
  | nil => rfl
  | cons x r ih => simp only [encList, ih]

/-! ### naturality in the label type -/

theorem encLI_relabel (τ : S → S') (enc : S' → Py K) (xs : LI S) :
    encLI enc (relabel τ xs) = encLI (enc ∘ τ) xs := by
  induction xs with
  | nil => rfl
  | cons x r ih => simp only [relabel_cons, encLI, ih, Function.comp]

theorem encList_map_arg (τ : S → S') (enc : S' → Py T) (l : List S) :
    encList enc (l.map τ) = encList (enc ∘ τ) l := by
  induction l with
  | nil => rfl
  | cons x r ih => simp only [List.map_cons, encList, ih, Function.comp]

theorem accPart_relabel (τ : S → S') (encT : S' → Py T) (rules : List ρ) (cmp : ρ → T → T → Rat)
    (rows : List (Rat × Rat × S × S)) :
    accPart encT rules cmp (rows.map (relabelRow τ τ)) = accPart (encT ∘ τ) rules cmp rows := by
  unfold accPart
  have h1 : ((rows.map (relabelRow τ τ)).map fun r => (r.1, r.2.1)) = rows.map fun r => (r.1, r.2.1) := by
    rw [List.map_map]; rfl
  have h2 : ((rows.map (relabelRow τ τ)).map fun r => r.2.2.1) = (rows.map fun r => r.2.2.1).map τ := by
    rw [List.map_map, List.map_map]; rfl
  have h3 : ((rows.map (relabelRow τ τ)).map fun r => r.2.2.2) = (rows.map fun r => r.2.2.2).map τ := by
    rw [List.map_map, List.map_map]; rfl
  rw [h1, h2, h3, encList_map_arg τ encT (rows.map fun r => r.2.2.1),
    encList_map_arg τ encT (rows.map fun r => r.2.2.2)]

theorem scoresWith_relabel [DecidableEq K] (τ : S → S') (encK : S' → Py K) (encT : S' → Py T) (rules : List ρ)
    (cmp : ρ → T → T → Rat) (ref est' : LI S) :
    scoresWith encK encT rules cmp (relabel τ ref) (relabel τ est') =
      scoresWith (encK ∘ τ) (encT ∘ τ) rules cmp ref est' := by
  unfold scoresWith
  rw [encLI_relabel, encLI_relabel, mergeLabeled_relabel]
  cases encLI (encK ∘ τ) ref with
  | error e => rfl
  | ok refK =>
    cases encLI (encK ∘ τ) est' with
    | error e => rfl
    | ok estK =>
      cases mergeLabeled ref est' with
      | error e => rfl
      | ok rows =>
        show (accPart encT rules cmp (rows.map (relabelRow τ τ)) >>= fun accs => segPart refK estK accs) =
          (accPart (encT ∘ τ) rules cmp rows >>= fun accs => segPart refK estK accs)
        rw [accPart_relabel]

/-- **naturality**: renaming the label type by any function `τ` (labels are only moved around and encoded) -/
theorem evaluateWith_relabel [DecidableEq K] (τ : S → S') (encK : S' → Py K) (encT : S' → Py T) (rules : List ρ)
    (cmp : ρ → T → T → Rat) (noChord : S) (ref est : LI S) :
    evaluateWith encK encT rules cmp (τ noChord) (relabel τ ref) (relabel τ est) =
      evaluateWith (encK ∘ τ) (encT ∘ τ) rules cmp noChord ref est := by
  rw [evaluateWith_eq, evaluateWith_eq, entries_relabel]
  cases minL (entries ref) with
  | none => rfl
  | some lo =>
    cases maxL (entries ref) with
    | none => rfl
    | some hi =>
      show (adjustIntervals (relabel τ est) (some lo) (some hi) (τ noChord) (τ noChord) >>= fun est' =>
          scoresWith encK encT rules cmp (relabel τ ref) est') =
        (adjustIntervals est (some lo) (some hi) noChord noChord >>= fun est' =>
          scoresWith (encK ∘ τ) (encT ∘ τ) rules cmp ref est')
      rw [adjustIntervals_relabel]
      cases adjustIntervals est (some lo) (some hi) noChord noChord with
      | error e => rfl
      | ok est' => exact scoresWith_relabel τ encK encT rules cmp ref est'

/-! ### changing the encoders by maps of the keys / tokens -/

theorem encLI_map (enc : S → Py K) (g : K → K') (xs : LI S) :
    encLI (fun s => (enc s).map g) xs = (encLI enc xs).map (relabel g) := by
  induction xs with
  | nil => rfl
  | cons x r ih =>
    simp only [encLI, ih]
    cases enc x.2.2 with
    | error e => rfl
    | ok k =>
      cases encLI enc r with
      | error e => rfl
      | ok ks => rfl

theorem encList_map (enc : S → Py T) (f : T → T') (l : List S) :
    encList (fun s => (enc s).map f) l = (encList enc l).map (List.map f) := by
  induction l with
  | nil => rfl
  | cons x r ih =>
    simp only [encList, ih]
    cases enc x with
    | error e => rfl
    | ok k =>
      cases encList enc r with
      | error e => rfl
      | ok ks => rfl

theorem encLI_mem {enc : S → Py K} {xs : LI S} {ks : LI K} (h : encLI enc xs = .ok ks) :
    ∀ k ∈ ks, ∃ s, enc s = .ok k.2.2 := by
  induction xs generalizing ks with
  | nil =>
    simp only [encLI, Except.ok.injEq] at h
    subst h; intro k hk; cases hk
  | cons x r ih =>
    simp only [encLI] at h
    cases hx : enc x.2.2 with
    | error e => rw [hx] at h; cases h
    | ok k0 =>
      rw [hx] at h
      cases hr : encLI enc r with
      | error e => rw [hr] at h; cases h
      | ok ks0 =>
        rw [hr] at h
        simp only [Except.ok.injEq] at h
        subst h
        intro k hk
        rcases List.mem_cons.1 hk with rfl | hk
        · exact ⟨x.2.2, hx⟩
        · exact ih hr k hk

theorem encList_mem {enc : S → Py T} {l : List S} {ts : List T} (h : encList enc l = .ok ts) :
    ∀ t ∈ ts, ∃ s, enc s = .ok t := by
  induction l generalizing ts with
  | nil =>
    simp only [encList, Except.ok.injEq] at h
    subst h; intro k hk; cases hk
  | cons x r ih =>
    simp only [encList] at h
    cases hx : enc x with
    | error e => rw [hx] at h; cases h
    | ok k0 =>
      rw [hx] at h
      cases hr : encList enc r with
      | error e => rw [hr] at h; cases h
      | ok ks0 =>
        rw [hr] at h
        simp only [Except.ok.injEq] at h
        subst h
        intro k hk
        rcases List.mem_cons.1 hk with rfl | hk
        · exact ⟨x, hx⟩
        · exact ih hr k hk

theorem zipWith_map_congr (c : T → T → Rat) (c' : T' → T' → Rat) (f : T → T') (P : T → Prop)
    (hc : ∀ a b, P a → P b → c' (f a) (f b) = c a b) :
    ∀ (as bs : List T), (∀ a ∈ as, P a) → (∀ b ∈ bs, P b) →
      List.zipWith c' (as.map f) (bs.map f) = List.zipWith c as bs
  | [], _, _, _ => by simp
  | _ :: _, [], _, _ => by simp
  | a :: as, b :: bs, ha, hb => by
    simp only [List.map_cons, List.zipWith_cons_cons]
    rw [hc a b (ha a List.mem_cons_self) (hb b List.mem_cons_self),
      zipWith_map_congr c c' f P hc as bs (fun x hx => ha x (List.mem_cons_of_mem _ hx))
        (fun x hx => hb x (List.mem_cons_of_mem _ hx))]

theorem accuracies_map (rules : List ρ) (cmp : ρ → T → T → Rat) (cmp' : ρ → T' → T' → Rat) (f : T → T')
    (P : T → Prop) (hc : ∀ r a b, P a → P b → cmp' r (f a) (f b) = cmp r a b) (refT estT : List T)
    (durs : List Rat) (hr : ∀ a ∈ refT, P a) (he : ∀ b ∈ estT, P b) :
    accuracies rules cmp' (refT.map f) (estT.map f) durs = accuracies rules cmp refT estT durs := by
  unfold accuracies
  congr 1
  funext r
  rw [zipWith_map_congr (cmp r) (cmp' r) f P (hc r) refT estT hr he]

theorem accPart_map (encT : S → Py T) (f : T → T') (P : T → Prop) (hP : ∀ s a, encT s = .ok a → P a)
    (rules : List ρ) (cmp : ρ → T → T → Rat) (cmp' : ρ → T' → T' → Rat)
    (hc : ∀ r a b, P a → P b → cmp' r (f a) (f b) = cmp r a b) (rows : List (Rat × Rat × S × S)) :
    accPart (fun s => (encT s).map f) rules cmp' rows = accPart encT rules cmp rows := by
  unfold accPart
  rw [encList_map, encList_map]
  cases intervalsToDurations (rows.map fun r => (r.1, r.2.1)) with
  | error e => rfl
  | ok durs =>
    cases h1 : encList encT (rows.map fun r => r.2.2.1) with
    | error e => rfl
    | ok refT =>
      cases h2 : encList encT (rows.map fun r => r.2.2.2) with
      | error e => rfl
      | ok estT =>
        show accuracies rules cmp' (refT.map f) (estT.map f) durs = accuracies rules cmp refT estT durs
        apply accuracies_map rules cmp cmp' f P hc
        · intro a ha
          obtain ⟨s, hs⟩ := encList_mem h1 a ha
          exact hP s a hs
        · intro a ha
          obtain ⟨s, hs⟩ := encList_mem h2 a ha
          exact hP s a hs

theorem scoresWith_map [DecidableEq K] [DecidableEq K'] (encK : S → Py K) (g : K → K') (PK : K → Prop)
    (hPK : ∀ s a, encK s = .ok a → PK a) (hg : ∀ a b, PK a → PK b → g a = g b → a = b)
    (encT : S → Py T) (f : T → T') (PT : T → Prop) (hPT : ∀ s a, encT s = .ok a → PT a)
    (rules : List ρ) (cmp : ρ → T → T → Rat) (cmp' : ρ → T' → T' → Rat)
    (hc : ∀ r a b, PT a → PT b → cmp' r (f a) (f b) = cmp r a b) (ref est' : LI S) :
    scoresWith (fun s => (encK s).map g) (fun s => (encT s).map f) rules cmp' ref est' =
      scoresWith encK encT rules cmp ref est' := by
  unfold scoresWith
  rw [encLI_map, encLI_map]
  cases h1 : encLI encK ref with
  | error e => rfl
  | ok refK =>
    cases h2 : encLI encK est' with
    | error e => rfl
    | ok estK =>
      cases mergeLabeled ref est' with
      | error e => rfl
      | ok rows =>
        show (accPart (fun s => (encT s).map f) rules cmp' rows >>= fun accs =>
            segPart (relabel g refK) (relabel g estK) accs) =
          (accPart encT rules cmp rows >>= fun accs => segPart refK estK accs)
        rw [accPart_map encT f PT hPT rules cmp cmp' hc]
        have hm1 : mergeChord (relabel g refK) = mergeChord refK :=
          mergeChord_relabel g PK hg refK (fun k hk => by
            obtain ⟨s, hs⟩ := encLI_mem h1 k hk
            exact hPK s _ hs)
        have hm2 : mergeChord (relabel g estK) = mergeChord estK :=
          mergeChord_relabel g PK hg estK (fun k hk => by
            obtain ⟨s, hs⟩ := encLI_mem h2 k hk
            exact hPK s _ hs)
        unfold segPart
        rw [hm1, hm2]

/-- **changing the encodings**: composing the fusing key with a map `g` that is injective on the keys the encoder
    can return, and the comparison encoding with a map `f` under which the comparison functions are invariant on
    the encodings that can occur, changes no score and no exception -/
theorem evaluateWith_map [DecidableEq K] [DecidableEq K'] (encK : S → Py K) (g : K → K') (PK : K → Prop)
    (hPK : ∀ s a, encK s = .ok a → PK a) (hg : ∀ a b, PK a → PK b → g a = g b → a = b)
    (encT : S → Py T) (f : T → T') (PT : T → Prop) (hPT : ∀ s a, encT s = .ok a → PT a)
    (rules : List ρ) (cmp : ρ → T → T → Rat) (cmp' : ρ → T' → T' → Rat)
    (hc : ∀ r a b, PT a → PT b → cmp' r (f a) (f b) = cmp r a b) (noChord : S) (ref est : LI S) :
    evaluateWith (fun s => (encK s).map g) (fun s => (encT s).map f) rules cmp' noChord ref est =
      evaluateWith encK encT rules cmp noChord ref est := by
  rw [evaluateWith_eq, evaluateWith_eq]
  congr 1; funext lo
  congr 1; funext hi
  congr 1; funext est'
  exact scoresWith_map encK g PK hPK hg encT f PT hPT rules cmp cmp' hc ref est'

/-! ### related annotations -/

/-- same times row by row, labels related by `R` -/
def RelLI (R : S → S' → Prop) (xs : LI S) (xs' : LI S') : Prop :=
  List.Forall₂ (fun x x' => x'.1 = x.1 ∧ x'.2.1 = x.2.1 ∧ R x.2.2 x'.2.2) xs xs'

theorem exists_graph (R : S → S' → Prop) {xs : LI S} {xs' : LI S'} (h : RelLI R xs xs') :
    ∃ zs : LI {p : S × S' // R p.1 p.2}, relabel (fun p => p.1.1) zs = xs ∧ relabel (fun p => p.1.2) zs = xs' := by
  induction h with
  | nil => exact ⟨[], rfl, rfl⟩
  | @cons x x' r r' hx _ ih =>
    obtain ⟨zs, h1, h2⟩ := ih
    refine ⟨(x.1, x.2.1, ⟨(x.2.2, x'.2.2), hx.2.2⟩) :: zs, ?_, ?_⟩
    · rw [relabel_cons, h1]
    · rw [relabel_cons, h2]
      obtain ⟨a, b, c⟩ := x
      obtain ⟨a', b', c'⟩ := x'
      simp only at hx
      obtain ⟨rfl, rfl, _⟩ := hx
      rfl

/-- **relational form**: two pairs of annotations with the same times and `R`-related labels get the same result
    (scores or exception) as soon as `R`-related labels have `g`-related fusing keys and `f`-related comparison
    encodings (failing together), `g` is injective on the keys that can occur, and the comparisons are `f`-invariant
    on the encodings that can occur -/
theorem evaluateWith_rel [DecidableEq K] [DecidableEq K'] (R : S → S' → Prop)
    (encK : S → Py K) (encK' : S' → Py K') (g : K → K') (PK : K → Prop)
    (hK : ∀ s s', R s s' → encK' s' = (encK s).map g)
    (hPK : ∀ s a, encK s = .ok a → PK a) (hg : ∀ a b, PK a → PK b → g a = g b → a = b)
    (encT : S → Py T) (encT' : S' → Py T') (f : T → T') (PT : T → Prop)
    (hT : ∀ s s', R s s' → encT' s' = (encT s).map f)
    (hPT : ∀ s a, encT s = .ok a → PT a)
    (rules : List ρ) (cmp : ρ → T → T → Rat) (cmp' : ρ → T' → T' → Rat)
    (hc : ∀ r a b, PT a → PT b → cmp' r (f a) (f b) = cmp r a b)
    (noChord : S) (noChord' : S') (hn : R noChord noChord')
    {ref est : LI S} {ref' est' : LI S'} (hr : RelLI R ref ref') (he : RelLI R est est') :
    evaluateWith encK' encT' rules cmp' noChord' ref' est' = evaluateWith encK encT rules cmp noChord ref est := by
  obtain ⟨zr, rfl, rfl⟩ := exists_graph R hr
  obtain ⟨ze, rfl, rfl⟩ := exists_graph R he
  let π₁ : {p : S × S' // R p.1 p.2} → S := fun p => p.1.1
  let π₂ : {p : S × S' // R p.1 p.2} → S' := fun p => p.1.2
  have e1 := evaluateWith_relabel π₂ encK' encT' rules cmp' ⟨(noChord, noChord'), hn⟩ zr ze
  have e2 := evaluateWith_relabel π₁ encK encT rules cmp ⟨(noChord, noChord'), hn⟩ zr ze
  have hk : encK' ∘ π₂ = fun p => ((encK ∘ π₁) p).map g := by
    funext p; exact hK p.1.1 p.1.2 p.2
  have ht : encT' ∘ π₂ = fun p => ((encT ∘ π₁) p).map f := by
    funext p; exact hT p.1.1 p.1.2 p.2
  have e3 := evaluateWith_map (encK ∘ π₁) g PK (fun p a h => hPK _ a h) hg (encT ∘ π₁) f PT (fun p a h => hPT _ a h)
    rules cmp cmp' hc ⟨(noChord, noChord'), hn⟩ zr ze
  rw [← hk, ← ht] at e3
  exact e1.trans (e3.trans e2.symm)

/-! ### shape of the result -/

theorem mapM_ok_length {α β : Type} (f : α → Py β) : ∀ (l : List α) (out : List β), l.mapM f = .ok out →
    out.length = l.length := by
  intro l
  induction l with
  | nil => intro out h; simp only [List.mapM_nil] at h; cases h; rfl
  | cons a r ih =>
    intro out h
    rw [List.mapM_cons] at h
    obtain ⟨b, _, h⟩ := Mir.Iv.bind_ok.1 h
    obtain ⟨bs, hbs, h⟩ := Mir.Iv.bind_ok.1 h
    cases h
    simp only [List.length_cons, ih bs hbs]

/-- a successful `evaluateWith` returns one accuracy per rule and the three segmentation scores -/
theorem evaluateWith_length [DecidableEq K] (encK : S → Py K) (encT : S → Py T) (rules : List ρ)
    (cmp : ρ → T → T → Rat) (noChord : S) (ref est : LI S) (out : List Num)
    (h : evaluateWith encK encT rules cmp noChord ref est = .ok out) : out.length = rules.length + 3 := by
  rw [evaluateWith_eq] at h
  obtain ⟨lo, _, h⟩ := Mir.Iv.bind_ok.1 h
  obtain ⟨hi, _, h⟩ := Mir.Iv.bind_ok.1 h
  obtain ⟨est', _, h⟩ := Mir.Iv.bind_ok.1 h
  unfold scoresWith at h
  obtain ⟨refK, _, h⟩ := Mir.Iv.bind_ok.1 h
  obtain ⟨estK, _, h⟩ := Mir.Iv.bind_ok.1 h
  obtain ⟨rows, _, h⟩ := Mir.Iv.bind_ok.1 h
  obtain ⟨accs, hacc, h⟩ := Mir.Iv.bind_ok.1 h
  unfold accPart at hacc
  obtain ⟨durs, _, hacc⟩ := Mir.Iv.bind_ok.1 hacc
  obtain ⟨refT, _, hacc⟩ := Mir.Iv.bind_ok.1 hacc
  obtain ⟨estT, _, hacc⟩ := Mir.Iv.bind_ok.1 hacc
  have hl := mapM_ok_length _ rules accs hacc
  unfold segPart at h
  obtain ⟨u, _, h⟩ := Mir.Iv.bind_ok.1 h
  obtain ⟨o, _, h⟩ := Mir.Iv.bind_ok.1 h
  cases h
  simp only [List.length_append, hl, List.length_cons, List.length_nil]

/-- with the identity encoders and a single comparison function, `evaluateWith` is `evaluateTokens` -/
theorem evaluateWith_pure [DecidableEq T] (r : ρ) (cmp : ρ → T → T → Rat) (noChord : T) (ref est : LI T) :
    evaluateWith (K := T) Except.ok Except.ok [r] cmp noChord ref est = evaluateTokens (cmp r) noChord ref est := by
  rw [evaluateWith_eq, evaluateTokens_eq]
  congr 1; funext lo
  congr 1; funext hi
  congr 1; funext est'
  unfold scoresWith scoresOf chordScore accPart segPart accuracies
  rw [encLI_ok, encLI_ok]
  cases mergeLabeled ref est' with
  | error e => rfl
  | ok rows =>
    simp only [encList_ok, ok_bind]
    have hz : List.zipWith (cmp r) (rows.map fun r => r.2.2.1) (rows.map fun r => r.2.2.2) =
        rows.map fun row => cmp r row.2.2.1 row.2.2.2 := by
      rw [List.zipWith_map, List.zipWith_self]
    cases intervalsToDurations (rows.map fun r => (r.1, r.2.1)) with
    | error e => rfl
    | ok durs =>
      show (([r].mapM fun r => wacc (List.zipWith (cmp r) (rows.map fun r => r.2.2.1) (rows.map fun r => r.2.2.2)) durs)
          >>= _) = (wacc (rows.map fun row => cmp r row.2.2.1 row.2.2.2) durs >>= _)
      rw [List.mapM_cons, List.mapM_nil, hz]
      cases wacc (rows.map fun row => cmp r row.2.2.1 row.2.2.2) durs with
      | error e => rfl
      | ok acc => rfl

end Mir.ChordEval
