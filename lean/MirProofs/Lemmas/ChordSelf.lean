import MirProofs.Lemmas.ChordRange

/-! Helper lemmas for C02 (chord): an annotation scored against itself. -/
namespace Mir.Iv

variable {L M T : Type}

theorem mapM_ok_map {α β : Type} (f : α → Py β) (g : α → β) (l : List α) (h : ∀ a ∈ l, f a = .ok (g a)) :
    l.mapM f = .ok (l.map g) := by
  induction l with
  | nil => rfl
  | cons a r ih =>
    rw [List.mapM_cons, h a List.mem_cons_self, ih (fun b hb => h b (List.mem_cons_of_mem _ hb))]
    rfl

/-! ### `adjust_intervals` to its own span is the identity -/

theorem takeWhile_all {α : Type} {p : α → Bool} {l : List α} (h : ∀ x ∈ l, p x = true) : l.takeWhile p = l := by
  induction l with
  | nil => rfl
  | cons a r ih =>
    rw [List.takeWhile_cons, h a List.mem_cons_self]
    simp only [if_true]
    rw [ih (fun x hx => h x (List.mem_cons_of_mem _ hx))]

theorem clipMin_id {a : Rat} {xs : LI L} (h : ∀ x ∈ xs, a ≤ x.1 ∧ a ≤ x.2.1) : clipMin a xs = xs := by
  unfold clipMin
  conv_rhs => rw [← List.map_id xs]
  apply List.map_congr_left
  intro x hx
  obtain ⟨h1, h2⟩ := h x hx
  simp [max_eq_right h1, max_eq_right h2]

theorem clipMax_id {b : Rat} {xs : LI L} (h : ∀ x ∈ xs, x.1 ≤ b ∧ x.2.1 ≤ b) : clipMax b xs = xs := by
  unfold clipMax
  conv_rhs => rw [← List.map_id xs]
  apply List.map_congr_left
  intro x hx
  obtain ⟨h1, h2⟩ := h x hx
  simp [min_eq_right h1, min_eq_right h2]

theorem adjustIntervals_self {lo : Rat} {x0 z : Rat × Rat × L} {r : LI L} (hc : Chain lo (x0 :: r))
    (hz : (x0 :: r).getLast? = some z) (sl el : L) :
    adjustIntervals (x0 :: r) (some x0.1) (some z.2.1) sl el = .ok (x0 :: r) := by
  have hw : WChain x0.1 (x0 :: r) := ⟨le_refl _, (Chain.wchain hc).2.1, (Chain.wchain hc).2.2⟩
  have hmin := minL_entries_wchain hw
  have hmax := maxL_entries_wchain hw hz
  have hlast := hw.le_last hz
  have hlb := hw.lb
  have hpos := hc.lb
  -- t_min
  have h1 : adjustMin x0.1 sl (x0 :: r) = .ok (x0 :: r) := by
    unfold adjustMin
    have hcrop : cropMin x0.1 (x0 :: r) = x0 :: r := by
      unfold cropMin
      have : ¬ x0.2.1 ≤ x0.1 := not_le.2 hc.2.1
      simp [List.dropWhile, this]
    rw [hcrop, clipMin_id (fun x hx => ⟨(hlb x hx).1, le_trans (hlb x hx).1 (hlb x hx).2⟩)]
    simp only [hmin, lt_irrefl, if_false]
  -- t_max
  have h2 : adjustMax z.2.1 el (x0 :: r) = .ok (x0 :: r) := by
    unfold adjustMax
    have hcrop : cropMax z.2.1 (x0 :: r) = x0 :: r := by
      unfold cropMax
      apply takeWhile_all
      intro x hx
      have := (hpos x hx).2
      have := (hlast.2 x hx).2
      simp only [decide_eq_true_eq]
      linarith
    rw [hcrop, clipMax_id (fun x hx => hlast.2 x hx)]
    simp only [hmax, lt_irrefl, if_false]
  unfold adjustIntervals
  simp only [h1, bind, Except.bind, h2]

/-! ### the merge of an annotation with itself -/

theorem lastStarted_chain_mem {lo : Rat} {xs : LI L} (h : Chain lo xs) {x : Rat × Rat × L} (hx : x ∈ xs) :
    lastStarted xs x.1 = some x.2.2 := by
  induction xs generalizing lo with
  | nil => cases hx
  | cons y r ih =>
    rcases List.mem_cons.1 hx with rfl | hx
    · have : lastStarted r x.1 = none := by
        apply lastStarted_none_of
        intro w hw
        have := (h.2.2.lb w hw).1
        linarith [h.2.1]
      simp only [lastStarted, this]
      simp
    · simp only [lastStarted, ih h.2.2 hx]

theorem mergeLabeled_self {lo : Rat} {xs : LI L} (hc : Contig lo xs) (hne : xs ≠ []) :
    mergeLabeled xs xs = .ok (xs.map fun x => (x.1, x.2.1, x.2.2, x.2.2)) := by
  rw [mergeLabeled_eq]
  cases xs with
  | nil => exact absurd rfl hne
  | cons x0 r =>
    obtain ⟨z, hz⟩ : ∃ z, (x0 :: r).getLast? = some z := by
      cases h : (x0 :: r).getLast? with
      | none => simp at h
      | some z => exact ⟨z, rfl⟩
    simp only [firstStart, lastEnd, List.head?_cons, hz, Option.map_some, and_self, if_true]
    rw [mergeRows_eq, usort_congr (l2 := entries (x0 :: r)) (by intro v; simp),
      usort_entries_contig hc, pairs_bounds_contig hc]
    unfold ivals
    rw [List.mapM_map]
    apply mapM_ok_map
    intro x hx
    have := lastStarted_chain_mem hc.chain hx
    simp only [Function.comp, rowF, this]

/-! ### `weighted_accuracy` when every comparable comparison is 1 -/

theorem wacc_self_value {cs ws : List Rat} (hlen : cs.length = ws.length) (hw : ∀ w ∈ ws, 0 < w)
    (hone : ∀ c ∈ cs, c = 1 ∨ c < 0) :
    wacc cs ws = .ok (.val (if cs.any (fun c => decide (0 ≤ c)) then 1 else 0)) := by
  by_cases hany : cs.any (fun c => decide (0 ≤ c)) = true
  · rw [if_pos hany]
    obtain ⟨c, hc, hc0⟩ := List.any_eq_true.1 hany
    have hc0 : 0 ≤ c := by simpa using hc0
    -- some valid pair exists, with positive weight
    obtain ⟨i, hi⟩ := List.mem_iff_getElem?.1 hc
    have hil : i < cs.length := by
      by_contra hge
      rw [List.getElem?_eq_none (not_lt.1 hge)] at hi
      cases hi
    have hwi : ws[i]? = some (ws[i]'(hlen ▸ hil)) := List.getElem?_eq_getElem _
    have hp : (c, ws[i]'(hlen ▸ hil)) ∈ validPairs cs ws := by
      apply List.mem_filter.2
      refine ⟨?_, by simpa using hc0⟩
      apply List.mem_iff_getElem?.2
      exact ⟨i, by rw [List.getElem?_zip_eq_some]; exact ⟨hi, hwi⟩⟩
    have hnn : ∀ v ∈ (validPairs cs ws).map (fun p => p.2), 0 ≤ v := by
      intro v hv
      obtain ⟨q, hq, rfl⟩ := List.mem_map.1 hv
      exact le_of_lt (hw _ (validPairs_mem hq).2.1)
    have hle : ws[i]'(hlen ▸ hil) ≤ vTotal cs ws := by
      unfold vTotal
      exact mem_le_qsum hnn (List.mem_map.2 ⟨_, hp, rfl⟩)
    have hpos : 0 < ws[i]'(hlen ▸ hil) := hw _ (List.getElem_mem _)
    have htot : vTotal cs ws ≠ 0 := by intro h0; linarith
    rw [wacc_weighted_mean hlen (fun w hw' => le_of_lt (hw w hw')) htot]
    have : vNum cs ws = vTotal cs ws := by
      unfold vNum vTotal
      congr 1
      apply List.map_congr_left
      intro p hp'
      obtain ⟨h1, _, h3⟩ := validPairs_mem hp'
      rcases hone _ h1 with h | h
      · rw [h, one_mul]
      · exact absurd h3 (not_le.2 h)
    rw [this, div_self htot]
  · rw [if_neg hany, wacc_eq]
    have h2 : ¬ ws.any (fun w => decide (w < 0)) = true := by
      simp only [List.any_eq_true, decide_eq_true_eq, not_exists, not_and, not_lt]
      exact fun w hw' => le_of_lt (hw w hw')
    have hv : validPairs cs ws = [] := by
      unfold validPairs
      rw [List.filter_eq_nil_iff]
      intro p hp hp0
      exact hany (List.any_eq_true.2 ⟨p.1, (List.of_mem_zip hp).1, hp0⟩)
    rw [if_neg (by simp [hlen]), if_neg h2]
    split
    · rfl
    · rfl

theorem chordScore_self (cmp : L → L → Rat) {lo : Rat} {xs : LI L} (hc : Contig lo xs) (hne : xs ≠ [])
    (h0 : 0 ≤ lo) (hcmp : ∀ l ∈ labels xs, cmp l l = 1 ∨ cmp l l < 0) :
    chordScore cmp xs xs = .ok (.val (if (labels xs).any (fun l => decide (0 ≤ cmp l l)) then 1 else 0)) := by
  unfold chordScore
  rw [mergeLabeled_self hc hne]
  simp only [bind, Except.bind, List.map_map]
  have e1 : (List.map ((fun r : Rat × Rat × L × L => (r.1, r.2.1)) ∘ fun x : Rat × Rat × L => (x.1, x.2.1, x.2.2, x.2.2)) xs)
      = ivals xs := rfl
  rw [e1, durations_contig hc h0]
  simp only
  have e2 : (List.map ((fun r : Rat × Rat × L × L => cmp r.2.2.1 r.2.2.2) ∘ fun x : Rat × Rat × L => (x.1, x.2.1, x.2.2, x.2.2)) xs)
      = (labels xs).map fun l => cmp l l := by
    unfold labels
    rw [List.map_map]
    rfl
  rw [e2, wacc_self_value (by simp [ivals, labels])]
  · rw [List.any_map]
    rfl
  · intro w hw
    obtain ⟨p, hp, rfl⟩ := List.mem_map.1 hw
    obtain ⟨row, hrow, rfl⟩ := List.mem_map.1 hp
    have := (hc.chain.lb row hrow).2
    simp only
    linarith
  · intro c hcm
    obtain ⟨l, hl, rfl⟩ := List.mem_map.1 hcm
    exact hcmp l hl

/-! ### `merge_chord_intervals` of a chain is a chain -/

theorem mergeChordAux_chainP [DecidableEq T] (r : LI T) (prev : T) (cs ce lo : Rat) (h1 : lo ≤ cs) (h2 : cs < ce)
    (hc : Chain ce r) : ChainP lo (mergeChordAux prev cs ce r) := by
  induction r generalizing prev cs ce lo with
  | nil => exact ⟨h1, h2, trivial⟩
  | cons x r' ih =>
    unfold mergeChordAux
    split
    · exact ih prev cs x.2.1 lo h1 (by linarith [hc.1, hc.2.1]) hc.2.2
    · exact ⟨h1, h2, ih x.2.2 x.1 x.2.1 ce hc.1 hc.2.1 hc.2.2⟩

theorem mergeChord_chainP [DecidableEq T] {lo : Rat} {xs : LI T} (hc : Chain lo xs) : ChainP lo (mergeChord xs) := by
  cases xs with
  | nil => trivial
  | cons x r => exact mergeChordAux_chainP r x.2.2 x.1 x.2.1 lo hc.1 hc.2.1 hc.2.2

theorem mergeChordAux_ne_nil [DecidableEq T] (r : LI T) (prev : T) (cs ce : Rat) : mergeChordAux prev cs ce r ≠ [] := by
  induction r generalizing prev cs ce with
  | nil => simp [mergeChordAux]
  | cons x r' ih =>
    unfold mergeChordAux
    split
    · exact ih _ _ _
    · simp

theorem mergeChord_ne_nil [DecidableEq T] {xs : LI T} (hne : xs ≠ []) : mergeChord xs ≠ [] := by
  cases xs with
  | nil => exact absurd rfl hne
  | cons x r => exact mergeChordAux_ne_nil r _ _ _

/-! ### `directional_hamming_distance` of a chain with itself is 0 -/

theorem mem_entriesP {xs : Ivals} {v : Rat} : v ∈ entriesP xs ↔ ∃ x ∈ xs, v = x.1 ∨ v = x.2 := by
  induction xs with
  | nil => simp [entriesP]
  | cons y r ih =>
    simp only [entriesP, List.mem_cons, ih]
    constructor
    · rintro (h | h | ⟨x, hx, h⟩)
      · exact ⟨y, Or.inl rfl, Or.inl h⟩
      · exact ⟨y, Or.inl rfl, Or.inr h⟩
      · exact ⟨x, Or.inr hx, h⟩
    · rintro ⟨x, rfl | hx, h⟩
      · rcases h with h | h
        · exact Or.inl h
        · exact Or.inr (Or.inl h)
      · exact Or.inr (Or.inr ⟨x, hx, h⟩)

/-- no boundary of a chain lies strictly inside one of its rows -/
theorem chainP_sep {lo : Rat} {xs : Ivals} (h : ChainP lo xs) {x : Rat × Rat} (hx : x ∈ xs) {t : Rat}
    (ht : t ∈ entriesP xs) : t ≤ x.1 ∨ x.2 ≤ t := by
  induction xs generalizing lo with
  | nil => cases hx
  | cons y r ih =>
    have hr : ∀ w ∈ r, y.2 ≤ w.1 ∧ w.1 < w.2 := h.2.2.pos
    obtain ⟨w, hw, htw⟩ := mem_entriesP.1 ht
    rcases List.mem_cons.1 hx with rfl | hx
    · rcases List.mem_cons.1 hw with rfl | hw
      · rcases htw with rfl | rfl
        · exact Or.inl (le_refl _)
        · exact Or.inr (le_refl _)
      · have := hr w hw
        rcases htw with rfl | rfl
        · exact Or.inr this.1
        · exact Or.inr (by linarith)
    · have hxr := hr x hx
      rcases List.mem_cons.1 hw with rfl | hw
      · have := h.2.1
        rcases htw with rfl | rfl
        · exact Or.inl (by linarith)
        · exact Or.inl hxr.1
      · exact ih h.2.2 hx (mem_entriesP.2 ⟨w, hw, htw⟩)

theorem sorted_all_eq {F : List Rat} {a : Rat} (hs : SSorted F) (hall : ∀ t ∈ F, t = a) (hmem : a ∈ F) : F = [a] := by
  cases F with
  | nil => cases hmem
  | cons t r =>
    have ht := hall t List.mem_cons_self
    subst ht
    cases r with
    | nil => rfl
    | cons u r' =>
      have hu := hall u (List.mem_cons_of_mem _ List.mem_cons_self)
      have := (List.pairwise_cons.1 hs).1 u List.mem_cons_self
      rw [hu] at this
      exact absurd this (lt_irrefl _)

theorem dhdRow_self {lo : Rat} {xs : Ivals} (h : ChainP lo xs) {x : Rat × Rat} (hx : x ∈ xs) :
    dhdRow (usort (entriesP xs)) x = .ok 0 := by
  have hpos := (h.pos x hx).2
  have hF : (usort (entriesP xs)).filter (fun t => decide (x.1 ≤ t) && decide (t < x.2)) = [x.1] := by
    apply sorted_all_eq (List.Pairwise.sublist List.filter_sublist (usort_sorted _))
    · intro t ht
      obtain ⟨h1, h2⟩ := List.mem_filter.1 ht
      simp only [Bool.and_eq_true, decide_eq_true_eq] at h2
      rcases chainP_sep h hx (mem_usort.1 h1) with h3 | h3
      · exact le_antisymm h3 h2.1
      · exact absurd h2.2 (not_lt.2 h3)
    · apply List.mem_filter.2
      refine ⟨mem_usort.2 (mem_entriesP.2 ⟨x, hx, Or.inl rfl⟩), ?_⟩
      simp [hpos]
  unfold dhdRow
  rw [hF]
  have : maxDiff ([x.1] ++ [x.1] ++ [x.2]) = some (x.2 - x.1) := by
    unfold maxDiff
    apply maxL_eq
    · simp [pairs]
    · intro v hv
      simp [pairs] at hv
      rcases hv with rfl | rfl
      · linarith
      · exact le_refl _
  rw [this]
  simp

theorem qsum_map_zero {α : Type} (l : List α) : qsum (l.map fun _ => (0 : Rat)) = 0 := by
  induction l with
  | nil => rfl
  | cons a r ih => simp only [List.map_cons, qsum, ih]; ring

theorem validateIntervals_chainP {xs : Ivals} (h : ChainP 0 xs) : validateIntervals xs = .ok () := by
  unfold validateIntervals
  have hp := h.pos
  have h1 : xs.any (fun x => decide (x.1 < 0) || decide (x.2 < 0)) = false := by
    rw [List.any_eq_false]
    intro x hx
    have := hp x hx
    simp only [Bool.or_eq_true, decide_eq_true_eq, not_or, not_lt]
    exact ⟨this.1, by linarith⟩
  have h2 : xs.any (fun x => decide (x.2 ≤ x.1)) = false := by
    rw [List.any_eq_false]
    intro x hx
    simp only [decide_eq_true_eq, not_le]
    exact (hp x hx).2
  simp [h1, h2]

theorem overlaps_chainP {lo : Rat} {xs : Ivals} (h : ChainP lo xs) : overlaps xs = false := by
  induction xs generalizing lo with
  | nil => rfl
  | cons a r ih =>
    cases r with
    | nil => rfl
    | cons b r' =>
      simp only [overlaps, Bool.or_eq_false_iff, decide_eq_false_iff_not, not_lt]
      exact ⟨h.2.2.1, ih h.2.2⟩

/-- a valid interval array has directional Hamming distance 0 to itself -/
theorem dhd_self {xs : Ivals} (h : ChainP 0 xs) (hne : xs ≠ []) : dhd xs xs = .ok (.val 0) := by
  unfold dhd
  simp only [bind, Except.bind, throw, throwThe, MonadExceptOf.throw, pure, Except.pure]
  rw [validateIntervals_chainP h]
  simp only [overlaps_chainP h, Bool.false_eq_true, if_false]
  rw [mapM_ok_map (dhdRow (usort (entriesP xs))) (fun _ => (0 : Rat)) xs (fun x hx => dhdRow_self h hx)]
  simp only
  cases hh : xs.head? with
  | none => simp at hh; exact absurd hh hne
  | some a =>
    cases hl : xs.getLast? with
    | none => simp at hl; exact absurd hl hne
    | some z =>
      simp only
      obtain ⟨_, _, s3⟩ := chainP_span h hh hl
      rw [if_neg (by intro h0; linarith), qsum_map_zero, zero_div]

theorem scoresOf_self [DecidableEq T] (cmp : T → T → Rat) {lo : Rat} {xs : LI T} (hc : Contig lo xs) (hne : xs ≠ [])
    (h0 : 0 ≤ lo) (hcmp : ∀ l ∈ labels xs, cmp l l = 1 ∨ cmp l l < 0) :
    scoresOf cmp xs xs
      = .ok [.val (if (labels xs).any (fun l => decide (0 ≤ cmp l l)) then 1 else 0), .val 1, .val 1, .val 1] := by
  have hm : ChainP 0 (mergeChord xs) := (mergeChord_chainP hc.chain).mono h0
  have hd := dhd_self hm (mergeChord_ne_nil hne)
  unfold scoresOf underseg overseg
  rw [chordScore_self cmp hc hne h0 hcmp, hd]
  simp only [bind, Except.bind, Except.map, Num.oneMinus, pure, Except.pure, Num.pymin, sub_zero, lt_irrefl, if_false]

theorem evaluateTokens_self [DecidableEq T] (cmp : T → T → Rat) (noChord : T) {lo : Rat} {xs : LI T}
    (hc : Contig lo xs) (hne : xs ≠ []) (h0 : 0 ≤ lo) (hcmp : ∀ l ∈ labels xs, cmp l l = 1 ∨ cmp l l < 0) :
    evaluateTokens cmp noChord xs xs
      = .ok [.val (if (labels xs).any (fun l => decide (0 ≤ cmp l l)) then 1 else 0), .val 1, .val 1, .val 1] := by
  rw [evaluateTokens_eq]
  cases xs with
  | nil => exact absurd rfl hne
  | cons x0 r =>
    obtain ⟨z, hz⟩ : ∃ z, (x0 :: r).getLast? = some z := by
      cases h : (x0 :: r).getLast? with
      | none => simp at h
      | some z => exact ⟨z, rfl⟩
    have hw : WChain x0.1 (x0 :: r) := ⟨le_refl _, (Chain.wchain hc.chain).2.1, (Chain.wchain hc.chain).2.2⟩
    rw [minL_entries_wchain hw, maxL_entries_wchain hw hz]
    simp only [bind, Except.bind, pure, Except.pure]
    rw [adjustIntervals_self hc.chain hz]
    simp only
    exact scoresOf_self cmp hc hne h0 hcmp

end Mir.Iv
