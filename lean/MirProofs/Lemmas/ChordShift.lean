import MirProofs.Lemmas.ChordRange

/-! Helper lemmas for C08 (chord): adding one offset to every time of both annotations. -/
namespace Mir.Iv

variable {L M T : Type}

/-- add `d` to every time of a labelled annotation -/
def shiftLI (d : Rat) (xs : LI L) : LI L := xs.map fun x => (x.1 + d, x.2.1 + d, x.2.2)
/-- add `d` to every time of an interval array -/
def shiftP (d : Rat) (xs : Ivals) : Ivals := xs.map fun x => (x.1 + d, x.2 + d)

/-- all times of the annotation are `≥ a` -/
def LB (a : Rat) (xs : LI L) : Prop := ∀ x ∈ xs, a ≤ x.1 ∧ a ≤ x.2.1
def LBP (a : Rat) (xs : Ivals) : Prop := ∀ x ∈ xs, a ≤ x.1 ∧ a ≤ x.2

@[simp] theorem shiftLI_nil (d : Rat) : shiftLI d ([] : LI L) = [] := rfl
@[simp] theorem shiftLI_cons (d : Rat) (x : Rat × Rat × L) (r : LI L) :
    shiftLI d (x :: r) = (x.1 + d, x.2.1 + d, x.2.2) :: shiftLI d r := rfl
@[simp] theorem shiftP_nil (d : Rat) : shiftP d [] = [] := rfl
@[simp] theorem shiftP_cons (d : Rat) (x : Rat × Rat) (r : Ivals) :
    shiftP d (x :: r) = (x.1 + d, x.2 + d) :: shiftP d r := rfl

theorem entries_shift (d : Rat) (xs : LI L) : entries (shiftLI d xs) = (entries xs).map (· + d) := by
  induction xs with
  | nil => rfl
  | cons x r ih => simp only [shiftLI_cons, entries, List.map_cons, ih]

theorem entriesP_shift (d : Rat) (xs : Ivals) : entriesP (shiftP d xs) = (entriesP xs).map (· + d) := by
  induction xs with
  | nil => rfl
  | cons x r ih => simp only [shiftP_cons, entriesP, List.map_cons, ih]

theorem minL_map_add (d : Rat) (l : List Rat) : minL (l.map (· + d)) = (minL l).map (· + d) := by
  induction l with
  | nil => rfl
  | cons x r ih =>
    simp only [List.map_cons, minL, ih]
    cases minL r with
    | none => rfl
    | some m => simp [min_add_add_right]

theorem maxL_map_add (d : Rat) (l : List Rat) : maxL (l.map (· + d)) = (maxL l).map (· + d) := by
  induction l with
  | nil => rfl
  | cons x r ih =>
    simp only [List.map_cons, maxL, ih]
    cases maxL r with
    | none => rfl
    | some m => simp [max_add_add_right]

/-! ### `adjust_intervals` -/

theorem cropMin_shift (a d : Rat) (xs : LI L) : cropMin (a + d) (shiftLI d xs) = shiftLI d (cropMin a xs) := by
  unfold cropMin shiftLI
  rw [List.dropWhile_map]
  have : ((fun x : Rat × Rat × L => decide (x.2.1 ≤ a + d)) ∘ fun x : Rat × Rat × L => (x.1 + d, x.2.1 + d, x.2.2))
      = fun x => decide (x.2.1 ≤ a) := by
    funext x
    simp [Function.comp]
  rw [this]
  cases h : xs.dropWhile (fun x => decide (x.2.1 ≤ a)) with
  | nil => rfl
  | cons k r => rfl

theorem clipMin_shift (a d : Rat) (xs : LI L) : clipMin (a + d) (shiftLI d xs) = shiftLI d (clipMin a xs) := by
  unfold clipMin shiftLI
  rw [List.map_map, List.map_map]
  apply List.map_congr_left
  intro x _
  simp [Function.comp, max_add_add_right]

theorem clipMax_shift (b d : Rat) (xs : LI L) : clipMax (b + d) (shiftLI d xs) = shiftLI d (clipMax b xs) := by
  unfold clipMax shiftLI
  rw [List.map_map, List.map_map]
  apply List.map_congr_left
  intro x _
  simp [Function.comp, min_add_add_right]

theorem cropMax_shift (b d : Rat) (xs : LI L) : cropMax (b + d) (shiftLI d xs) = shiftLI d (cropMax b xs) := by
  unfold cropMax shiftLI
  rw [List.takeWhile_map]
  congr 2
  funext x
  simp [Function.comp]

theorem adjustMin_shift (a d : Rat) (sl : L) (xs : LI L) :
    adjustMin (a + d) sl (shiftLI d xs) = (adjustMin a sl xs).map (shiftLI d) := by
  unfold adjustMin
  simp only [cropMin_shift, clipMin_shift, entries_shift, minL_map_add]
  cases minL (entries (clipMin a (cropMin a xs))) with
  | none => rfl
  | some m =>
    simp only [Option.map_some, add_lt_add_iff_right]
    split <;> rfl

theorem adjustMax_shift (b d : Rat) (el : L) (xs : LI L) :
    adjustMax (b + d) el (shiftLI d xs) = (adjustMax b el xs).map (shiftLI d) := by
  unfold adjustMax
  simp only [cropMax_shift, clipMax_shift, entries_shift, maxL_map_add]
  cases maxL (entries (clipMax b (cropMax b xs))) with
  | none => rfl
  | some m =>
    simp only [Option.map_some, add_lt_add_iff_right]
    split
    · simp [Except.map, shiftLI]
    · rfl

theorem adjustIntervals_shift (a b d : Rat) (sl el : L) (xs : LI L) :
    adjustIntervals (shiftLI d xs) (some (a + d)) (some (b + d)) sl el
      = (adjustIntervals xs (some a) (some b) sl el).map (shiftLI d) := by
  cases xs with
  | nil => rfl
  | cons x r =>
    rw [shiftLI_cons]
    unfold adjustIntervals
    simp only
    rw [← shiftLI_cons, adjustMin_shift]
    cases adjustMin a sl (x :: r) with
    | error e => rfl
    | ok x1 =>
      simp only [Except.map, bind, Except.bind]
      rw [adjustMax_shift]
      rfl

/-! ### `merge_chord_intervals` -/

theorem mergeChordAux_shift [DecidableEq T] (d : Rat) (r : LI T) (prev : T) (cs ce : Rat) :
    mergeChordAux prev (cs + d) (ce + d) (shiftLI d r) = shiftP d (mergeChordAux prev cs ce r) := by
  induction r generalizing prev cs ce with
  | nil => rfl
  | cons x r' ih =>
    simp only [shiftLI_cons, mergeChordAux]
    split
    · exact ih _ _ _
    · rw [shiftP_cons, ih]

theorem mergeChord_shift [DecidableEq T] (d : Rat) (xs : LI T) :
    mergeChord (shiftLI d xs) = shiftP d (mergeChord xs) := by
  cases xs with
  | nil => rfl
  | cons x r => exact mergeChordAux_shift d r _ _ _

theorem mergeChordAux_lb [DecidableEq T] {a : Rat} (r : LI T) (prev : T) (cs ce : Rat) (h1 : a ≤ cs) (h2 : a ≤ ce)
    (hr : LB a r) : LBP a (mergeChordAux prev cs ce r) := by
  induction r generalizing prev cs ce with
  | nil =>
    intro x hx
    simp [mergeChordAux] at hx
    subst hx
    exact ⟨h1, h2⟩
  | cons x r' ih =>
    have hx := hr x List.mem_cons_self
    have hr' : LB a r' := fun y hy => hr y (List.mem_cons_of_mem _ hy)
    unfold mergeChordAux
    split
    · exact ih _ _ _ h1 hx.2 hr'
    · intro y hy
      rcases List.mem_cons.1 hy with rfl | hy
      · exact ⟨h1, h2⟩
      · exact ih _ _ _ hx.1 hx.2 hr' y hy

theorem mergeChord_lb [DecidableEq T] {a : Rat} {xs : LI T} (h : LB a xs) : LBP a (mergeChord xs) := by
  cases xs with
  | nil => intro x hx; cases hx
  | cons x r =>
    have hx := h x List.mem_cons_self
    exact mergeChordAux_lb r _ _ _ hx.1 hx.2 (fun y hy => h y (List.mem_cons_of_mem _ hy))

/-! ### sorted unique boundaries, consecutive pairs -/

theorem insertU_shift (a d : Rat) (l : List Rat) : insertU (a + d) (l.map (· + d)) = (insertU a l).map (· + d) := by
  induction l with
  | nil => rfl
  | cons b r ih =>
    simp only [List.map_cons, insertU, add_lt_add_iff_right, add_left_inj]
    split
    · rfl
    · split
      · rfl
      · rw [List.map_cons, ih]

theorem usort_shift (d : Rat) (l : List Rat) : usort (l.map (· + d)) = (usort l).map (· + d) := by
  induction l with
  | nil => rfl
  | cons a r ih =>
    show insertU (a + d) (usort (r.map (· + d))) = (insertU a (usort r)).map (· + d)
    rw [ih, insertU_shift]

theorem pairs_map (f : Rat → Rat) (l : List Rat) : pairs (l.map f) = (pairs l).map fun p => (f p.1, f p.2) := by
  unfold pairs
  rw [← List.map_tail, List.zip_map]
  rfl

/-! ### `merge_labeled_intervals` -/

theorem lastStarted_shift (d : Rat) (xs : LI L) (t : Rat) : lastStarted (shiftLI d xs) (t + d) = lastStarted xs t := by
  induction xs with
  | nil => rfl
  | cons x r ih =>
    simp only [shiftLI_cons, lastStarted, ih, add_le_add_iff_right]

/-- add `d` to the times of a merged row -/
def shiftRow (d : Rat) (r : Rat × Rat × L × M) : Rat × Rat × L × M := (r.1 + d, r.2.1 + d, r.2.2)

theorem rowF_shift (d : Rat) (x : LI L) (y : LI M) (pq : Rat × Rat) :
    rowF (shiftLI d x) (shiftLI d y) (pq.1 + d, pq.2 + d) = (rowF x y pq).map (shiftRow d) := by
  unfold rowF
  simp only [lastStarted_shift]
  cases lastStarted x pq.1 <;> cases lastStarted y pq.1 <;> rfl

theorem mapM_map_post {α β γ : Type} (f : α → Py β) (g : β → γ) (l : List α) :
    l.mapM (fun a => (f a).map g) = (l.mapM f).map (List.map g) := by
  induction l with
  | nil => rfl
  | cons a r ih =>
    rw [List.mapM_cons, List.mapM_cons, ih]
    cases f a with
    | error e => rfl
    | ok b =>
      cases r.mapM f with
      | error e => rfl
      | ok bs => rfl

theorem firstStart_shift (d : Rat) (xs : LI L) : firstStart (shiftLI d xs) = (firstStart xs).map (· + d) := by
  cases xs <;> rfl

theorem lastEnd_shift (d : Rat) (xs : LI L) : lastEnd (shiftLI d xs) = (lastEnd xs).map (· + d) := by
  unfold lastEnd shiftLI
  rw [List.getLast?_map]
  cases xs.getLast? <;> rfl

theorem mergeLabeled_shift (d : Rat) (x : LI L) (y : LI M) :
    mergeLabeled (shiftLI d x) (shiftLI d y) = (mergeLabeled x y).map (List.map (shiftRow d)) := by
  rw [mergeLabeled_eq, mergeLabeled_eq, firstStart_shift, lastEnd_shift, firstStart_shift, lastEnd_shift]
  cases firstStart x <;> cases lastEnd x <;> cases firstStart y <;> cases lastEnd y <;> try rfl
  rename_i a b c e
  simp only [Option.map_some, add_left_inj]
  split
  · rw [mergeRows_eq, mergeRows_eq, entries_shift, entries_shift, ← List.map_append, usort_shift, pairs_map,
      List.mapM_map]
    have : (rowF (shiftLI d x) (shiftLI d y) ∘ fun p : Rat × Rat => (p.1 + d, p.2 + d))
        = fun pq => (rowF x y pq).map (shiftRow d) := by
      funext pq
      exact rowF_shift d x y pq
    rw [this, mapM_map_post]
  · rfl

/-- the interval part of the merged rows is the list of consecutive boundary pairs -/
theorem mapM_rowF_ivals (x : LI L) (y : LI M) (ps : Ivals) {rows : List (Rat × Rat × L × M)}
    (h : ps.mapM (rowF x y) = .ok rows) : rows.map (fun r => (r.1, r.2.1)) = ps := by
  induction ps generalizing rows with
  | nil => simp [pure, Except.pure] at h; subst h; rfl
  | cons p r ih =>
    rw [List.mapM_cons] at h
    cases hp : rowF x y p with
    | error e => rw [hp] at h; cases h
    | ok row =>
      cases hr : r.mapM (rowF x y) with
      | error e => rw [hp, hr] at h; cases h
      | ok rs =>
        rw [hp, hr] at h
        cases h
        rw [List.map_cons, ih hr]
        congr 1
        unfold rowF at hp
        cases h1 : lastStarted x p.1 <;> cases h2 : lastStarted y p.1 <;> simp [h1, h2] at hp
        rw [← hp]

theorem mergeLabeled_lb {a : Rat} {x : LI L} {y : LI M} (hx : LB a x) (hy : LB a y)
    {rows : List (Rat × Rat × L × M)} (h : mergeLabeled x y = .ok rows) :
    LBP a (rows.map fun r => (r.1, r.2.1)) := by
  rw [mergeLabeled_eq] at h
  cases h1 : firstStart x <;> cases h2 : lastEnd x <;> cases h3 : firstStart y <;> cases h4 : lastEnd y <;>
    simp only [h1, h2, h3, h4] at h <;> try cases h
  split at h
  · rw [mergeRows_eq] at h
    rw [mapM_rowF_ivals x y _ h]
    intro p hp
    have hm := mem_pairs hp
    have key : ∀ v ∈ usort (entries x ++ entries y), a ≤ v := by
      intro v hv
      rcases List.mem_append.1 (mem_usort.1 hv) with hv | hv
      · obtain ⟨w, hw, hvw⟩ := mem_entries.1 hv
        rcases hvw with rfl | rfl
        · exact (hx w hw).1
        · exact (hx w hw).2
      · obtain ⟨w, hw, hvw⟩ := mem_entries.1 hv
        rcases hvw with rfl | rfl
        · exact (hy w hw).1
        · exact (hy w hw).2
    exact ⟨key _ hm.1, key _ hm.2⟩
  · cases h

/-! ### durations, `weighted_accuracy`, the chord accuracy -/

theorem validateIntervals_shift {a d : Rat} {xs : Ivals} (h0 : 0 ≤ a) (h0d : 0 ≤ a + d) (h : LBP a xs) :
    validateIntervals (shiftP d xs) = validateIntervals xs := by
  unfold validateIntervals
  have e1 : (shiftP d xs).any (fun x => decide (x.1 < 0) || decide (x.2 < 0)) = false := by
    rw [List.any_eq_false]
    intro p hp
    obtain ⟨x, hx, rfl⟩ := List.mem_map.1 hp
    have := h x hx
    simp only [Bool.or_eq_true, decide_eq_true_eq, not_or, not_lt]
    constructor <;> linarith [this.1, this.2]
  have e2 : xs.any (fun x => decide (x.1 < 0) || decide (x.2 < 0)) = false := by
    rw [List.any_eq_false]
    intro x hx
    have := h x hx
    simp only [Bool.or_eq_true, decide_eq_true_eq, not_or, not_lt]
    constructor <;> linarith [this.1, this.2]
  have e3 : (shiftP d xs).any (fun x => decide (x.2 ≤ x.1)) = xs.any (fun x => decide (x.2 ≤ x.1)) := by
    unfold shiftP
    rw [List.any_map]
    congr 1
    funext x
    simp [Function.comp]
  rw [e1, e2, e3]

theorem durations_shift {a d : Rat} {xs : Ivals} (h0 : 0 ≤ a) (h0d : 0 ≤ a + d) (h : LBP a xs) :
    intervalsToDurations (shiftP d xs) = intervalsToDurations xs := by
  unfold intervalsToDurations
  rw [validateIntervals_shift h0 h0d h]
  congr 1
  funext _
  unfold shiftP
  rw [List.map_map]
  apply List.map_congr_left
  intro x _
  simp only [Function.comp]
  congr 1
  ring

theorem chordScore_shift (cmp : L → M → Rat) {a d : Rat} {x : LI L} {y : LI M} (h0 : 0 ≤ a) (h0d : 0 ≤ a + d)
    (hx : LB a x) (hy : LB a y) : chordScore cmp (shiftLI d x) (shiftLI d y) = chordScore cmp x y := by
  unfold chordScore
  rw [mergeLabeled_shift]
  cases hm : mergeLabeled x y with
  | error e => rfl
  | ok rows =>
    have hlb := mergeLabeled_lb hx hy hm
    simp only [Except.map, bind, Except.bind]
    have e1 : (rows.map (shiftRow d)).map (fun r => (r.1, r.2.1)) = shiftP d (rows.map fun r => (r.1, r.2.1)) := by
      unfold shiftP
      rw [List.map_map, List.map_map]
      rfl
    have e2 : (rows.map (shiftRow d)).map (fun r => cmp r.2.2.1 r.2.2.2) = rows.map (fun r => cmp r.2.2.1 r.2.2.2) := by
      rw [List.map_map]
      rfl
    rw [e1, e2, durations_shift h0 h0d hlb]

/-! ### `directional_hamming_distance` -/

theorem overlaps_shift (d : Rat) (xs : Ivals) : overlaps (shiftP d xs) = overlaps xs := by
  induction xs with
  | nil => rfl
  | cons a r ih =>
    cases r with
    | nil => rfl
    | cons b r' =>
      simp only [shiftP_cons, overlaps, add_lt_add_iff_right] at ih ⊢
      rw [ih]

theorem maxDiff_shift (d : Rat) (ts : List Rat) : maxDiff (ts.map (· + d)) = maxDiff ts := by
  unfold maxDiff
  rw [pairs_map, List.map_map]
  congr 1
  apply List.map_congr_left
  intro p _
  simp only [Function.comp]
  ring

theorem dhdRow_shift (d : Rat) (ts : List Rat) (x : Rat × Rat) :
    dhdRow (ts.map (· + d)) (x.1 + d, x.2 + d) = dhdRow ts x := by
  unfold dhdRow
  have : [x.1 + d] ++ (ts.map (· + d)).filter (fun t => decide (x.1 + d ≤ t) && decide (t < x.2 + d)) ++ [x.2 + d]
      = ([x.1] ++ ts.filter (fun t => decide (x.1 ≤ t) && decide (t < x.2)) ++ [x.2]).map (· + d) := by
    rw [List.filter_map]
    simp only [List.map_append, List.map_cons, List.map_nil]
    congr 3
    apply List.filter_congr
    intro t _
    simp [Function.comp]
  simp only at this ⊢
  rw [this, maxDiff_shift]
  cases maxDiff ([x.1] ++ ts.filter (fun t => decide (x.1 ≤ t) && decide (t < x.2)) ++ [x.2]) with
  | none => rfl
  | some dd =>
    simp only
    congr 1
    ring

theorem dhd_shift {a d : Rat} {ref est : Ivals} (h0 : 0 ≤ a) (h0d : 0 ≤ a + d) (hr : LBP a ref) (he : LBP a est) :
    dhd (shiftP d ref) (shiftP d est) = dhd ref est := by
  unfold dhd
  simp only [bind, Except.bind, throw, throwThe, MonadExceptOf.throw, pure, Except.pure]
  rw [validateIntervals_shift h0 h0d he, validateIntervals_shift h0 h0d hr, overlaps_shift, entriesP_shift,
    usort_shift]
  have hm : (shiftP d ref).mapM (dhdRow ((usort (entriesP est)).map (· + d)))
      = ref.mapM (dhdRow (usort (entriesP est))) := by
    unfold shiftP
    rw [List.mapM_map]
    congr 1
    funext x
    exact dhdRow_shift d _ x
  rw [hm]
  have hh : (shiftP d ref).head? = ref.head?.map fun x => (x.1 + d, x.2 + d) := by cases ref <;> rfl
  have hl : (shiftP d ref).getLast? = ref.getLast?.map fun x => (x.1 + d, x.2 + d) := by
    unfold shiftP; rw [List.getLast?_map]
  rw [hh, hl]
  cases validateIntervals est with
  | error e => rfl
  | ok u1 =>
    cases validateIntervals ref with
    | error e => rfl
    | ok u2 =>
      simp only
      split
      · rfl
      · cases ref.mapM (dhdRow (usort (entriesP est))) with
        | error e => rfl
        | ok rows =>
          simp only
          cases ref.head? with
          | none => rfl
          | some a0 =>
            cases ref.getLast? with
            | none => rfl
            | some z =>
              simp only [Option.map_some]
              have : z.2 + d - (a0.1 + d) = z.2 - a0.1 := by ring
              rw [this]

/-! ### the whole pipeline -/

theorem adjustIntervals_lb {lo hi : Rat} (hlh : lo ≤ hi) {sl el : L} {est est' : LI L}
    (h : adjustIntervals est (some lo) (some hi) sl el = .ok est') : LB lo est' := by
  cases est with
  | nil =>
    obtain ⟨a, b, ha, hb, rfl⟩ := adjustIntervals_nil_ok h
    cases ha; cases hb
    intro x hx
    simp at hx
    subst hx
    exact ⟨le_refl _, hlh⟩
  | cons x r =>
    obtain ⟨x1, h1, h2⟩ := adjustIntervals_ok (by simp) h
    exact (adjustMax_lb h2 (adjustMin_lb h1)).2

theorem scoresOf_shift [DecidableEq T] (cmp : T → T → Rat) {a d : Rat} {ref est : LI T} (h0 : 0 ≤ a)
    (h0d : 0 ≤ a + d) (hr : LB a ref) (he : LB a est) :
    scoresOf cmp (shiftLI d ref) (shiftLI d est) = scoresOf cmp ref est := by
  unfold scoresOf underseg overseg
  rw [chordScore_shift cmp h0 h0d hr he, mergeChord_shift, mergeChord_shift,
    dhd_shift h0 h0d (mergeChord_lb he) (mergeChord_lb hr), dhd_shift h0 h0d (mergeChord_lb hr) (mergeChord_lb he)]

/-- adding the same offset to every reference and estimate time changes nothing in `chord.evaluate`, as long as the
    reference times stay non-negative (the estimate is arbitrary: it is cropped / clipped to the reference span) -/
theorem evaluateTokens_shift [DecidableEq T] (cmp : T → T → Rat) (noChord : T) (ref est : LI T) (d : Rat)
    (h0 : LB 0 ref) (h0d : LB 0 (shiftLI d ref)) :
    evaluateTokens cmp noChord (shiftLI d ref) (shiftLI d est) = evaluateTokens cmp noChord ref est := by
  rw [evaluateTokens_eq, evaluateTokens_eq, entries_shift, minL_map_add, maxL_map_add]
  cases hmin : minL (entries ref) with
  | none => rfl
  | some lo =>
    cases hmax : maxL (entries ref) with
    | none => rfl
    | some hi =>
      simp only [Option.map_some, bind, Except.bind, pure, Except.pure]
      rw [adjustIntervals_shift]
      obtain ⟨hlo_mem, hlo_le⟩ := minL_spec hmin
      obtain ⟨hhi_mem, hhi_le⟩ := maxL_spec hmax
      have hlh : lo ≤ hi := hlo_le hi hhi_mem
      obtain ⟨w, hw, hlw⟩ := mem_entries.1 hlo_mem
      have hlo0 : 0 ≤ lo := by
        rcases hlw with rfl | rfl
        · exact (h0 w hw).1
        · exact (h0 w hw).2
      have hlod : 0 ≤ lo + d := by
        have hw' : (w.1 + d, w.2.1 + d, w.2.2) ∈ shiftLI d ref := List.mem_map.2 ⟨w, hw, rfl⟩
        rcases hlw with rfl | rfl
        · exact (h0d _ hw').1
        · exact (h0d _ hw').2
      have hr : LB lo ref := fun x hx =>
        ⟨hlo_le _ (mem_entries.2 ⟨x, hx, Or.inl rfl⟩), hlo_le _ (mem_entries.2 ⟨x, hx, Or.inr rfl⟩)⟩
      cases hadj : adjustIntervals est (some lo) (some hi) noChord noChord with
      | error e => rfl
      | ok est' =>
        simp only [Except.map]
        exact scoresOf_shift cmp hlo0 hlod hr (adjustIntervals_lb hlh hadj)

end Mir.Iv
