import MirModel.Effects

/-! Helper lemmas for the soundness of the effect analysis (C15). -/

namespace Mir.Effects

/-! ### finite sets as lists -/

theorem mem_uni {a b : List Nat} {x : Nat} : x ∈ uni a b ↔ x ∈ a ∨ x ∈ b := by
  unfold uni
  simp only [List.mem_append, List.mem_filter]
  constructor
  · rintro (h | ⟨h, _⟩)
    · exact Or.inl h
    · exact Or.inr h
  · rintro (h | h)
    · exact Or.inl h
    · by_cases ha : x ∈ a
      · exact Or.inl ha
      · exact Or.inr ⟨h, by simp [ha]⟩

theorem sub_iff {a b : List Nat} : sub a b = true ↔ ∀ x, x ∈ a → x ∈ b := by
  unfold sub
  simp [List.all_eq_true]

/-! ### abstract stores -/

@[simp] theorem Env.get_nil (w : Var) : Env.get [] w = [] := by
  simp [Env.get]

@[simp] theorem Env.get_cons_zero (x : List Nat) (xs : Env) : Env.get (x :: xs) 0 = x := by
  simp [Env.get]

@[simp] theorem Env.get_cons_succ (x : List Nat) (xs : Env) (w : Nat) :
    Env.get (x :: xs) (w + 1) = Env.get xs w := by
  simp [Env.get]

theorem Env.get_set (e : Env) (v w : Var) (o : List Nat) :
    (e.set v o).get w = if w = v then o else e.get w := by
  induction e generalizing v w with
  | nil =>
    induction v generalizing w with
    | zero => cases w <;> simp [Env.set]
    | succ n ih =>
      cases w with
      | zero => simp [Env.set]
      | succ w => simp [Env.set, ih w]
  | cons x xs ih =>
    cases v with
    | zero => cases w <;> simp [Env.set]
    | succ n =>
      cases w with
      | zero => simp [Env.set]
      | succ w => simp [Env.set, ih n w]

theorem Env.mem_get_join {e1 e2 : Env} {w : Var} {x : Nat} :
    x ∈ (e1.join e2).get w ↔ x ∈ e1.get w ∨ x ∈ e2.get w := by
  induction e1 generalizing e2 w with
  | nil => simp [Env.join]
  | cons a as ih =>
    cases e2 with
    | nil => simp [Env.join]
    | cons b bs =>
      cases w with
      | zero => simp [Env.join, mem_uni]
      | succ w => simp [Env.join, ih]

theorem Env.leq_sound {a b : Env} (h : Env.leq a b = true) (w : Var) (x : Nat) :
    x ∈ a.get w → x ∈ b.get w := by
  induction a generalizing b w with
  | nil => simp
  | cons p ps ih =>
    cases b with
    | nil =>
      simp only [Env.leq, Bool.and_eq_true, List.isEmpty_iff] at h
      cases w with
      | zero => simp [h.1]
      | succ w =>
        intro hx
        have := ih h.2 w hx
        simpa using this
    | cons q qs =>
      simp only [Env.leq, Bool.and_eq_true] at h
      cases w with
      | zero =>
        simp only [Env.get_cons_zero]
        exact sub_iff.1 h.1 x
      | succ w =>
        simp only [Env.get_cons_succ]
        exact ih h.2 w

theorem Env.mem_getAll {e : Env} {vs : List Var} {x : Nat} :
    x ∈ e.getAll vs ↔ ∃ v, v ∈ vs ∧ x ∈ e.get v := by
  induction vs with
  | nil => simp [Env.getAll]
  | cons v vs ih =>
    simp only [Env.getAll, mem_uni, ih, List.mem_cons]
    constructor
    · rintro (h | ⟨u, hu, hx⟩)
      · exact ⟨v, Or.inl rfl, h⟩
      · exact ⟨u, Or.inr hu, hx⟩
    · rintro ⟨u, (rfl | hu), hx⟩
      · exact Or.inl hx
      · exact Or.inr ⟨u, hu, hx⟩

theorem mem_instAll {oa : List (List Nat)} {os : List Nat} {x : Nat} :
    x ∈ instAll oa os ↔ ∃ o, o ∈ os ∧ x ∈ instO oa o := by
  induction os with
  | nil => simp [instAll]
  | cons o os ih =>
    simp only [instAll, mem_uni, ih, List.mem_cons]
    constructor
    · rintro (h | ⟨u, hu, hx⟩)
      · exact ⟨o, Or.inl rfl, h⟩
      · exact ⟨u, Or.inr hu, hx⟩
    · rintro ⟨u, (rfl | hu), hx⟩
      · exact Or.inl hx
      · exact Or.inr ⟨u, hu, hx⟩

theorem Env.mem_get_add {e : Env} {v w : Var} {o x : Nat} :
    x ∈ (e.add v o).get w ↔ (w = v ∧ x = o) ∨ x ∈ e.get w := by
  unfold Env.add
  rw [Env.get_set]
  by_cases h : w = v
  · subst h
    simp [mem_uni]
  · simp [h]

/-! ### effects -/

theorem Eff.leq_sound {a b : Eff} (h : a.leq b = true) :
    (∀ x, x ∈ a.wr → x ∈ b.wr) ∧ (∀ x, x ∈ a.ret → x ∈ b.ret) ∧ (a.gw = true → b.gw = true) ∧
    (b.fail = false → a.fail = false) := by
  simp only [Eff.leq, Bool.and_eq_true, Bool.or_eq_true, Bool.not_eq_true'] at h
  obtain ⟨⟨⟨h1, h2⟩, h3⟩, h4⟩ := h
  refine ⟨sub_iff.1 h1, sub_iff.1 h2, ?_, ?_⟩
  · intro hg
    rcases h3 with h3 | h3
    · simp [hg] at h3
    · exact h3
  · intro hb
    rcases h4 with h4 | h4
    · exact h4
    · simp [hb] at h4

theorem Eff.union_wr {a b : Eff} {x : Nat} : x ∈ (a.union b).wr ↔ x ∈ a.wr ∨ x ∈ b.wr := by
  simp [Eff.union, mem_uni]

theorem Eff.union_ret {a b : Eff} {x : Nat} : x ∈ (a.union b).ret ↔ x ∈ a.ret ∨ x ∈ b.ret := by
  simp [Eff.union, mem_uni]

theorem Eff.union_fail {a b : Eff} : (a.union b).fail = false ↔ a.fail = false ∧ b.fail = false := by
  simp [Eff.union]

theorem Eff.union_gw {a b : Eff} : (a.union b).gw = true ↔ a.gw = true ∨ b.gw = true := by
  simp [Eff.union]

theorem Eff.union_brk {a b : Eff} {w : Var} {x : Nat} :
    x ∈ (a.union b).brk.get w ↔ x ∈ a.brk.get w ∨ x ∈ b.brk.get w := by
  simp [Eff.union, Env.mem_get_join]

/-! ### the table is a post-fixpoint -/

theorem validFrom_sound {P : Prog} {T : List Eff} :
    ∀ (fds : List FunDef) (i : Nat), validFrom P T fds i = true →
      ∀ k fd, fds[k]? = some fd → ∃ sm, T[i + k]? = some sm ∧ (analyzeFun P T fd).leq sm = true := by
  intro fds
  induction fds with
  | nil => intro i _ k fd h; simp at h
  | cons fd0 rest ih =>
    intro i h k fd hk
    simp only [validFrom, Bool.and_eq_true] at h
    cases k with
    | zero =>
      simp only [List.getElem?_cons_zero, Option.some.injEq] at hk
      subst hk
      cases hT : T[i]? with
      | none => simp [hT] at h
      | some sm =>
        refine ⟨sm, by simpa using hT, ?_⟩
        simpa [hT] using h.1
    | succ k =>
      simp only [List.getElem?_cons_succ] at hk
      obtain ⟨sm, h1, h2⟩ := ih (i + 1) h.2 k fd hk
      exact ⟨sm, by rw [← h1]; congr 1; omega, h2⟩

theorem validTable_sound {P : Prog} {T : List Eff} (h : validTable P T = true) {f : FunId} {fd : FunDef}
    (hf : P.funs[f]? = some fd) : ∃ sm, T[f]? = some sm ∧ (analyzeFun P T fd).leq sm = true := by
  have := validFrom_sound P.funs 0 h f fd hf
  simpa using this

end Mir.Effects

namespace Mir.Effects

/-! ### completeness of `leq` (needed to re-enter a loop at its invariant) -/

theorem sub_complete {a b : List Nat} (h : ∀ x, x ∈ a → x ∈ b) : sub a b = true := sub_iff.2 h

theorem Env.leq_complete {a b : Env} (h : ∀ w x, x ∈ a.get w → x ∈ b.get w) : Env.leq a b = true := by
  induction a generalizing b with
  | nil => simp [Env.leq]
  | cons p ps ih =>
    cases b with
    | nil =>
      simp only [Env.leq, Bool.and_eq_true, List.isEmpty_iff]
      refine ⟨?_, ih (b := []) ?_⟩
      · apply List.eq_nil_iff_forall_not_mem.2
        intro x hx
        have := h 0 x (by simpa using hx)
        simp at this
      · intro w x hx
        have := h (w + 1) x (by simpa using hx)
        simp at this
    | cons q qs =>
      simp only [Env.leq, Bool.and_eq_true]
      refine ⟨sub_complete fun x hx => ?_, ih fun w x hx => ?_⟩
      · simpa using h 0 x (by simpa using hx)
      · simpa using h (w + 1) x (by simpa using hx)

theorem iterStable_fix (n : Nat) (f : Env → Env) (e : Env) (h : Env.leq (f e) e = true) :
    iterStable n f e = e := by
  cases n with
  | zero => rfl
  | succ n => simp [iterStable, h]

theorem analyze_loop_idem (T : List Eff) (b : Stmt) (e : Env)
    (hf : (analyze T (.loop b) e).2.fail = false) :
    analyze T (.loop b) (analyze T (.loop b) e).1 = analyze T (.loop b) e := by
  simp only [analyze] at hf ⊢
  generalize hes : iterStable loopFuel
    (fun X => (X.join (analyze T b X).1).join (analyze T b X).2.brk) e = es at hf ⊢
  simp only [Bool.or_eq_false_iff, Bool.not_eq_false', Bool.and_eq_true] at hf
  obtain ⟨_, ⟨⟨h0, h1⟩, h2⟩⟩ := hf
  have hfix : Env.leq ((es.join (analyze T b es).1).join (analyze T b es).2.brk) es = true := by
    apply Env.leq_complete
    intro w x hx
    rcases Env.mem_get_join.1 hx with hx | hx
    · rcases Env.mem_get_join.1 hx with hx | hx
      · exact hx
      · exact Env.leq_sound h1 w x hx
    · exact Env.leq_sound h2 w x hx
  have hrefl : Env.leq es es = true := Env.leq_complete fun _ _ h => h
  rw [iterStable_fix _ _ es hfix]
  simp [h0, h1, h2, hrefl]

/-! ### the invariant -/

structure Ctx where
  /-- allocation counter at function entry: locations below it belong to the caller -/
  n0 : Nat
  /-- the locations passed as arguments -/
  locs : List Nat

/-- location `l` belongs to origin `o` -/
def owns (P : Prog) (genv : Var → Option Nat) (c : Ctx) (o : Nat) (l : Nat) : Prop :=
  (o = 0 ∧ ∃ g, g ∈ P.globals ∧ genv g = some l) ∨ (∃ i, o = i + 1 ∧ c.locs[i]? = some l)

/-- every variable holding a caller-owned location is marked with an origin that owns it -/
def Inv (P : Prog) (genv : Var → Option Nat) (c : Ctx) (e : Env) (σ : Var → Option Nat) : Prop :=
  ∀ v l, σ v = some l → l < c.n0 → ∃ o, o ∈ e.get v ∧ owns P genv c o l

theorem Inv.mono {P genv c e e' σ} (h : Inv P genv c e σ)
    (hle : ∀ w x, x ∈ e.get w → x ∈ e'.get w) : Inv P genv c e' σ := by
  intro v l hv hl
  obtain ⟨o, ho, hown⟩ := h v l hv hl
  exact ⟨o, hle v o ho, hown⟩

theorem Inv.upd_new {P genv c e σ} (h : Inv P genv c e σ) (x : Var) (l : Nat) (os : List Nat)
    (hl : c.n0 ≤ l) : Inv P genv c (e.set x os) (upd σ x l) := by
  intro v l' hv hl'
  unfold upd at hv
  rw [Env.get_set]
  by_cases hvx : v = x
  · simp only [hvx, if_true, Option.some.injEq] at hv
    omega
  · simp only [hvx, if_false] at hv ⊢
    exact h v l' hv hl'

theorem Inv.upd_owned {P genv c e σ} (h : Inv P genv c e σ) (x : Var) (l : Nat) (os : List Nat)
    (hown : l < c.n0 → ∃ o, o ∈ os ∧ owns P genv c o l) : Inv P genv c (e.set x os) (upd σ x l) := by
  intro v l' hv hl'
  unfold upd at hv
  rw [Env.get_set]
  by_cases hvx : v = x
  · simp only [hvx, if_true, Option.some.injEq] at hv ⊢
    subst hv
    exact hown hl'
  · simp only [hvx, if_false] at hv ⊢
    exact h v l' hv hl'

/-! ### function entry -/

theorem mem_get_initParams_mono {ps : List Var} {i : Nat} {e : Env} {w : Var} {x : Nat}
    (h : x ∈ e.get w) : x ∈ (initParams ps i e).get w := by
  induction ps generalizing i with
  | nil => simpa [initParams] using h
  | cons p ps ih =>
    simp only [initParams]
    exact Env.mem_get_add.2 (Or.inr ih)

theorem mem_get_initGlobals {gs : List Var} {g : Var} (h : g ∈ gs) : 0 ∈ (initGlobals gs).get g := by
  induction gs with
  | nil => simp at h
  | cons a as ih =>
    simp only [initGlobals]
    rcases List.mem_cons.1 h with rfl | h
    · exact Env.mem_get_add.2 (Or.inl ⟨rfl, rfl⟩)
    · exact Env.mem_get_add.2 (Or.inr (ih h))

theorem bindParams_sound (ps : List Var) (locs : List Nat) (base : Var → Option Nat) (i : Nat) (e : Env)
    (v : Var) (l : Nat) (h : bindParams ps locs base v = some l) :
    (∃ k, locs[k]? = some l ∧ (k + i + 1) ∈ (initParams ps i e).get v) ∨ base v = some l := by
  induction ps generalizing locs i with
  | nil => right; simpa [bindParams] using h
  | cons p ps ih =>
    cases locs with
    | nil => right; simpa [bindParams] using h
    | cons l0 ls =>
      simp only [bindParams] at h
      by_cases hv : v = p
      · simp only [hv, if_true, Option.some.injEq] at h
        left
        refine ⟨0, by simp [h], ?_⟩
        simp only [initParams]
        exact Env.mem_get_add.2 (Or.inl ⟨hv, by omega⟩)
      · simp only [hv, if_false] at h
        rcases ih ls (i + 1) h with ⟨k, hk, hm⟩ | hb
        · left
          refine ⟨k + 1, by simpa using hk, ?_⟩
          simp only [initParams]
          refine Env.mem_get_add.2 (Or.inr ?_)
          have : k + 1 + i + 1 = k + (i + 1) + 1 := by omega
          rw [this]; exact hm
        · exact Or.inr hb

theorem Inv_entry (P : Prog) (genv : Var → Option Nat) (fd : FunDef) (locs : List Nat) (n : Nat) :
    Inv P genv ⟨n, locs⟩ (initEnv P fd) (bindParams fd.params locs (globalStore P genv)) := by
  intro v l hv _
  rcases bindParams_sound fd.params locs (globalStore P genv) 0 (initGlobals P.globals) v l hv with
    ⟨k, hk, hm⟩ | hb
  · exact ⟨k + 0 + 1, hm, Or.inr ⟨k, by omega, hk⟩⟩
  · unfold globalStore at hb
    by_cases hg : P.globals.contains v = true
    · rw [if_pos hg] at hb
      have hmem : v ∈ P.globals := by simpa using hg
      exact ⟨0, mem_get_initParams_mono (mem_get_initGlobals hmem), Or.inl ⟨rfl, v, hmem, hb⟩⟩
    · rw [if_neg hg] at hb
      cases hb

/-! ### call sites -/

theorem lookupAll_get {σ : Var → Option Nat} {args : List Var} {locs : List Nat}
    (h : lookupAll σ args = some locs) {i : Nat} {l : Nat} (hi : locs[i]? = some l) :
    ∃ a, args[i]? = some a ∧ σ a = some l := by
  induction args generalizing locs i with
  | nil =>
    simp only [lookupAll, Option.some.injEq] at h
    subst h; simp at hi
  | cons a as ih =>
    simp only [lookupAll] at h
    cases ha : σ a with
    | none => simp [ha] at h
    | some la =>
      cases hr : lookupAll σ as with
      | none => simp [ha, hr] at h
      | some ls =>
        simp only [ha, hr, Option.some.injEq] at h
        subst h
        cases i with
        | zero =>
          simp only [List.getElem?_cons_zero, Option.some.injEq] at hi
          exact ⟨a, by simp, by rw [ha, hi]⟩
        | succ i =>
          simp only [List.getElem?_cons_succ] at hi
          obtain ⟨b, hb, hσ⟩ := ih hr hi
          exact ⟨b, by simpa using hb, hσ⟩

/-- an origin of the callee, instantiated at the call site, is an origin of the caller -/
theorem call_transfer {P genv} {c : Ctx} {e : Env} {σ : Var → Option Nat} {args : List Var}
    {locs : List Nat} {n : Nat} (hinv : Inv P genv c e σ) (hl : lookupAll σ args = some locs)
    {os : List Nat} {o : Nat} {l : Nat} (ho : o ∈ os) (hown : owns P genv ⟨n, locs⟩ o l)
    (hlt : l < c.n0) : ∃ o', o' ∈ instAll (args.map e.get) os ∧ owns P genv c o' l := by
  rcases hown with ⟨h0, hg⟩ | ⟨i, hi, hloc⟩
  · subst h0
    exact ⟨0, mem_instAll.2 ⟨0, ho, by simp [instO]⟩, Or.inl ⟨rfl, hg⟩⟩
  · subst hi
    obtain ⟨a, ha, hσ⟩ := lookupAll_get hl hloc
    obtain ⟨o', ho', hown'⟩ := hinv a l hσ hlt
    refine ⟨o', mem_instAll.2 ⟨i + 1, ho, ?_⟩, hown'⟩
    simp only [instO]
    have : (args.map e.get)[i]? = some (e.get a) := by simp [ha]
    simp [List.getD, this, ho']

end Mir.Effects

namespace Mir.Effects

/-! ### soundness of the abstract interpreter -/

/-- what the analysis result `r` of a statement promises about one of its executions `s ⟶ s'` -/
structure Post (P : Prog) (genv : Var → Option Nat) (c : Ctx) (s s' : State) (o : Out) (r : Env × Eff) :
    Prop where
  next_le : s.next ≤ s'.next
  heap : ∀ l, l < c.n0 → s'.heap l ≠ s.heap l → ∃ og, og ∈ r.2.wr ∧ owns P genv c og l
  gver : s'.gver ≠ s.gver → r.2.gw = true
  norm : o = .norm → Inv P genv c r.1 s'.store
  brk : o = .brk → Inv P genv c r.2.brk s'.store
  ret : ∀ l, o = .ret l → l < c.n0 → ∃ og, og ∈ r.2.ret ∧ owns P genv c og l

theorem Post.refl {P genv c} {s : State} {o : Out} {r : Env × Eff}
    (hn : o = .norm → Inv P genv c r.1 s.store) (hb : o = .brk → Inv P genv c r.2.brk s.store)
    (hr : ∀ l, o = .ret l → l < c.n0 → ∃ og, og ∈ r.2.ret ∧ owns P genv c og l) :
    Post P genv c s s o r :=
  ⟨Nat.le_refl _, fun _ _ h => absurd rfl h, fun h => absurd rfl h, hn, hb, hr⟩

/-- the callee's effects, seen from the caller -/
theorem call_frame {P genv} {c : Ctx} {e : Env} {s s0 sc : State} {args : List Var} {locs : List Nat}
    {body : Stmt} {T : List Eff} {e0 : Env} {sm : Eff} {o : Out}
    (hinv : Inv P genv c e s.store) (hn : c.n0 ≤ s.next) (hl : lookupAll s.store args = some locs)
    (hp : Post P genv ⟨s.next, locs⟩ s0 sc o (analyze T body e0))
    (hwr : ∀ x, x ∈ (analyze T body e0).2.wr → x ∈ sm.wr)
    (hgw : (analyze T body e0).2.gw = true → sm.gw = true) :
    (∀ l, l < c.n0 → sc.heap l ≠ s0.heap l →
      ∃ og, og ∈ instAll (args.map e.get) sm.wr ∧ owns P genv c og l) ∧
    (sc.gver ≠ s0.gver → sm.gw = true) := by
  refine ⟨?_, fun h => hgw (hp.gver h)⟩
  intro l hlt hne
  obtain ⟨og, hog, hown⟩ := hp.heap l (Nat.lt_of_lt_of_le hlt hn) hne
  exact call_transfer hinv hl (hwr og hog) hown hlt

theorem exec_sound {P : Prog} {genv : Var → Option Nat} {T : List Eff} (hT : validTable P T = true)
    {st : Stmt} {s s' : State} {o : Out} (h : Exec P genv st s s' o) :
    ∀ (c : Ctx) (e : Env), Inv P genv c e s.store → c.n0 ≤ s.next → (analyze T st e).2.fail = false →
      Post P genv c s s' o (analyze T st e) := by
  induction h with
  | raise_any st s =>
    intro c e _ _ _
    exact Post.refl (fun h => by cases h) (fun h => by cases h) (fun l h => by cases h)
  | skip s =>
    intro c e hinv _ _
    exact Post.refl (fun _ => by simpa [analyze] using hinv) (fun h => by cases h) (fun l h => by cases h)
  | @seq_norm a b s s1 s2 o _ _ ih1 ih2 =>
    intro c e hinv hn hf
    simp only [analyze] at hf ⊢
    obtain ⟨hf1, hf2⟩ := Eff.union_fail.1 hf
    have p1 := ih1 c e hinv hn hf1
    have hn1 : c.n0 ≤ s1.next := Nat.le_trans hn p1.next_le
    have p2 := ih2 c _ (p1.norm rfl) hn1 hf2
    refine ⟨Nat.le_trans p1.next_le p2.next_le, ?_, ?_, p2.norm, ?_, ?_⟩
    · intro l hl hne
      by_cases h1 : s1.heap l = s.heap l
      · obtain ⟨og, hog, hown⟩ := p2.heap l hl (by rw [h1]; exact hne)
        exact ⟨og, Eff.union_wr.2 (Or.inr hog), hown⟩
      · obtain ⟨og, hog, hown⟩ := p1.heap l hl h1
        exact ⟨og, Eff.union_wr.2 (Or.inl hog), hown⟩
    · intro hne
      by_cases h1 : s1.gver = s.gver
      · exact Eff.union_gw.2 (Or.inr (p2.gver (by rw [h1]; exact hne)))
      · exact Eff.union_gw.2 (Or.inl (p1.gver h1))
    · intro hb
      exact (p2.brk hb).mono fun w x hx => Eff.union_brk.2 (Or.inr hx)
    · intro l hr hl
      obtain ⟨og, hog, hown⟩ := p2.ret l hr hl
      exact ⟨og, Eff.union_ret.2 (Or.inr hog), hown⟩
  | @seq_abort a b s s1 o _ hne ih1 =>
    intro c e hinv hn hf
    simp only [analyze] at hf ⊢
    obtain ⟨hf1, _⟩ := Eff.union_fail.1 hf
    have p1 := ih1 c e hinv hn hf1
    refine ⟨p1.next_le, ?_, ?_, fun h => absurd h hne, ?_, ?_⟩
    · intro l hl hne
      obtain ⟨og, hog, hown⟩ := p1.heap l hl hne
      exact ⟨og, Eff.union_wr.2 (Or.inl hog), hown⟩
    · intro hne
      exact Eff.union_gw.2 (Or.inl (p1.gver hne))
    · intro hb
      exact (p1.brk hb).mono fun w x hx => Eff.union_brk.2 (Or.inl hx)
    · intro l hr hl
      obtain ⟨og, hog, hown⟩ := p1.ret l hr hl
      exact ⟨og, Eff.union_ret.2 (Or.inl hog), hown⟩
  | @assign_fresh x rs s =>
    intro c e hinv hn _
    simp only [analyze]
    exact ⟨Nat.le_succ _, fun _ _ h => absurd rfl h, fun h => absurd rfl h,
      fun _ => hinv.upd_new x s.next [] hn, (fun h => by cases h), (fun l h => by cases h)⟩
  | @assign_alias x srcs v l s hv hl =>
    intro c e hinv hn _
    simp only [analyze]
    refine ⟨Nat.le_refl _, fun _ _ h => absurd rfl h, fun h => absurd rfl h, fun _ => ?_,
      (fun h => by cases h), (fun l h => by cases h)⟩
    apply hinv.upd_owned
    intro hlt
    obtain ⟨og, hog, hown⟩ := hinv v l hl hlt
    exact ⟨og, Env.mem_getAll.2 ⟨v, hv, hog⟩, hown⟩
  | @mutate x l s hl =>
    intro c e hinv hn _
    simp only [analyze]
    refine ⟨Nat.le_refl _, ?_, fun h => absurd rfl h, fun _ => hinv, (fun h => by cases h),
      (fun l h => by cases h)⟩
    intro k hk hne
    have : k = l := by
      apply Classical.byContradiction
      intro hkl
      apply hne
      simp [bump, hkl]
    subst this
    exact hinv x k hl hk
  | @call_ret r f args fd locs sc l s hfd hlk _ ih =>
    intro c e hinv hn hf
    obtain ⟨sm, hTf, hle⟩ := validTable_sound hT hfd
    obtain ⟨hwr, hret, hgw, hfail⟩ := Eff.leq_sound hle
    simp only [analyze, hTf] at hf ⊢
    have hfc : (analyze T fd.body (initEnv P fd)).2.fail = false := by
      have := hfail hf
      simpa [analyzeFun] using this
    have pc := ih ⟨s.next, locs⟩ (initEnv P fd) (Inv_entry P genv fd locs s.next) (Nat.le_refl _) hfc
    have hfr := call_frame hinv hn hlk pc
      (fun x hx => hwr x (by simpa [analyzeFun] using hx))
      (fun hg => hgw (by simpa [analyzeFun] using hg))
    refine ⟨pc.next_le, hfr.1, hfr.2, fun _ => ?_, (fun h => by cases h), (fun l h => by cases h)⟩
    cases r with
    | none => simpa [bindRet] using hinv
    | some x =>
      simp only [bindRet]
      apply hinv.upd_owned
      intro hlt
      obtain ⟨og, hog, hown⟩ := pc.ret l rfl (Nat.lt_of_lt_of_le hlt hn)
      exact call_transfer hinv hlk (hret og (by simpa [analyzeFun] using hog)) hown hlt
  | @call_none r f args fd locs sc s hfd hlk _ ih =>
    intro c e hinv hn hf
    obtain ⟨sm, hTf, hle⟩ := validTable_sound hT hfd
    obtain ⟨hwr, hret, hgw, hfail⟩ := Eff.leq_sound hle
    simp only [analyze, hTf] at hf ⊢
    have hfc : (analyze T fd.body (initEnv P fd)).2.fail = false := by
      have := hfail hf
      simpa [analyzeFun] using this
    have pc := ih ⟨s.next, locs⟩ (initEnv P fd) (Inv_entry P genv fd locs s.next) (Nat.le_refl _) hfc
    have hfr := call_frame hinv hn hlk pc
      (fun x hx => hwr x (by simpa [analyzeFun] using hx))
      (fun hg => hgw (by simpa [analyzeFun] using hg))
    refine ⟨Nat.le_succ_of_le pc.next_le, hfr.1, hfr.2, fun _ => ?_, (fun h => by cases h),
      (fun l h => by cases h)⟩
    cases r with
    | none => simpa [bindRet] using hinv
    | some x =>
      simp only [bindRet]
      exact hinv.upd_new x sc.next _ (Nat.le_trans hn pc.next_le)
  | @call_exc r f args fd locs sc s hfd hlk _ ih =>
    intro c e hinv hn hf
    obtain ⟨sm, hTf, hle⟩ := validTable_sound hT hfd
    obtain ⟨hwr, hret, hgw, hfail⟩ := Eff.leq_sound hle
    simp only [analyze, hTf] at hf ⊢
    have hfc : (analyze T fd.body (initEnv P fd)).2.fail = false := by
      have := hfail hf
      simpa [analyzeFun] using this
    have pc := ih ⟨s.next, locs⟩ (initEnv P fd) (Inv_entry P genv fd locs s.next) (Nat.le_refl _) hfc
    have hfr := call_frame hinv hn hlk pc
      (fun x hx => hwr x (by simpa [analyzeFun] using hx))
      (fun hg => hgw (by simpa [analyzeFun] using hg))
    exact ⟨pc.next_le, hfr.1, hfr.2, (fun h => by cases h), (fun h => by cases h), (fun l h => by cases h)⟩
  | @ite_l a b s s' o _ ih =>
    intro c e hinv hn hf
    simp only [analyze] at hf ⊢
    obtain ⟨hf1, _⟩ := Eff.union_fail.1 hf
    have p1 := ih c e hinv hn hf1
    refine ⟨p1.next_le, ?_, ?_, ?_, ?_, ?_⟩
    · intro l hl hne
      obtain ⟨og, hog, hown⟩ := p1.heap l hl hne
      exact ⟨og, Eff.union_wr.2 (Or.inl hog), hown⟩
    · intro hne
      exact Eff.union_gw.2 (Or.inl (p1.gver hne))
    · intro ho
      exact (p1.norm ho).mono fun w x hx => Env.mem_get_join.2 (Or.inl hx)
    · intro hb
      exact (p1.brk hb).mono fun w x hx => Eff.union_brk.2 (Or.inl hx)
    · intro l hr hl
      obtain ⟨og, hog, hown⟩ := p1.ret l hr hl
      exact ⟨og, Eff.union_ret.2 (Or.inl hog), hown⟩
  | @ite_r a b s s' o _ ih =>
    intro c e hinv hn hf
    simp only [analyze] at hf ⊢
    obtain ⟨_, hf2⟩ := Eff.union_fail.1 hf
    have p2 := ih c e hinv hn hf2
    refine ⟨p2.next_le, ?_, ?_, ?_, ?_, ?_⟩
    · intro l hl hne
      obtain ⟨og, hog, hown⟩ := p2.heap l hl hne
      exact ⟨og, Eff.union_wr.2 (Or.inr hog), hown⟩
    · intro hne
      exact Eff.union_gw.2 (Or.inr (p2.gver hne))
    · intro ho
      exact (p2.norm ho).mono fun w x hx => Env.mem_get_join.2 (Or.inr hx)
    · intro hb
      exact (p2.brk hb).mono fun w x hx => Eff.union_brk.2 (Or.inr hx)
    · intro l hr hl
      obtain ⟨og, hog, hown⟩ := p2.ret l hr hl
      exact ⟨og, Eff.union_ret.2 (Or.inr hog), hown⟩
  | @loop_done b s =>
    intro c e hinv hn hf
    refine Post.refl (fun _ => ?_) (fun h => by cases h) (fun l h => by cases h)
    simp only [analyze] at hf ⊢
    simp only [Bool.or_eq_false_iff, Bool.not_eq_false', Bool.and_eq_true] at hf
    exact hinv.mono (Env.leq_sound hf.2.1.1)
  | @loop_step b s s1 s2 o o' _ ho _ ih1 ih2 =>
    intro c e hinv hn hf
    have hidem := analyze_loop_idem T b e hf
    -- facts about the analysis of the loop at `e`
    have hA : (analyze T (.loop b) e).2.wr = (analyze T b (analyze T (.loop b) e).1).2.wr ∧
        (analyze T (.loop b) e).2.ret = (analyze T b (analyze T (.loop b) e).1).2.ret ∧
        (analyze T (.loop b) e).2.gw = (analyze T b (analyze T (.loop b) e).1).2.gw := by
      simp [analyze]
    have hchk : (analyze T b (analyze T (.loop b) e).1).2.fail = false ∧
        Env.leq e (analyze T (.loop b) e).1 = true ∧
        Env.leq (analyze T b (analyze T (.loop b) e).1).1 (analyze T (.loop b) e).1 = true ∧
        Env.leq (analyze T b (analyze T (.loop b) e).1).2.brk (analyze T (.loop b) e).1 = true := by
      simp only [analyze] at hf ⊢
      simp only [Bool.or_eq_false_iff, Bool.not_eq_false', Bool.and_eq_true] at hf
      exact ⟨hf.1, hf.2.1.1, hf.2.1.2, hf.2.2⟩
    obtain ⟨hwr, hret, hgw⟩ := hA
    obtain ⟨hfb, hle0, hle1, hle2⟩ := hchk
    generalize hes : (analyze T (.loop b) e).1 = es at *
    have hinv_es : Inv P genv c es s.store := hinv.mono (Env.leq_sound hle0)
    have p1 := ih1 c es hinv_es hn hfb
    have hn1 : c.n0 ≤ s1.next := Nat.le_trans hn p1.next_le
    have hinv1 : Inv P genv c es s1.store := by
      rcases ho with ho | ho
      · exact (p1.norm ho).mono (Env.leq_sound hle1)
      · exact (p1.brk ho).mono (Env.leq_sound hle2)
    have p2 := ih2 c es hinv1 hn1 (by rw [hidem]; exact hf)
    rw [hidem] at p2
    refine ⟨Nat.le_trans p1.next_le p2.next_le, ?_, ?_, p2.norm, p2.brk, p2.ret⟩
    · intro l hl hne
      by_cases h1 : s1.heap l = s.heap l
      · exact p2.heap l hl (by rw [h1]; exact hne)
      · obtain ⟨og, hog, hown⟩ := p1.heap l hl h1
        exact ⟨og, by rw [hwr]; exact hog, hown⟩
    · intro hne
      by_cases h1 : s1.gver = s.gver
      · exact p2.gver (by rw [h1]; exact hne)
      · rw [hgw]; exact p1.gver h1
  | @loop_abort b s s1 o _ hne1 hne2 ih1 =>
    intro c e hinv hn hf
    have hA : (analyze T (.loop b) e).2.wr = (analyze T b (analyze T (.loop b) e).1).2.wr ∧
        (analyze T (.loop b) e).2.ret = (analyze T b (analyze T (.loop b) e).1).2.ret ∧
        (analyze T (.loop b) e).2.gw = (analyze T b (analyze T (.loop b) e).1).2.gw := by
      simp [analyze]
    have hchk : (analyze T b (analyze T (.loop b) e).1).2.fail = false ∧
        Env.leq e (analyze T (.loop b) e).1 = true := by
      simp only [analyze] at hf ⊢
      simp only [Bool.or_eq_false_iff, Bool.not_eq_false', Bool.and_eq_true] at hf
      exact ⟨hf.1, hf.2.1.1⟩
    obtain ⟨hwr, hret, hgw⟩ := hA
    obtain ⟨hfb, hle0⟩ := hchk
    generalize hes : (analyze T (.loop b) e).1 = es at *
    have p1 := ih1 c es (hinv.mono (Env.leq_sound hle0)) hn hfb
    refine ⟨p1.next_le, ?_, ?_, fun h => absurd h hne1, fun h => absurd h hne2, ?_⟩
    · intro l hl hne
      obtain ⟨og, hog, hown⟩ := p1.heap l hl hne
      exact ⟨og, by rw [hwr]; exact hog, hown⟩
    · intro hne
      rw [hgw]; exact p1.gver hne
    · intro l hr hl
      obtain ⟨og, hog, hown⟩ := p1.ret l hr hl
      exact ⟨og, by rw [hret]; exact hog, hown⟩
  | @globalWrite g s =>
    intro c e hinv hn _
    simp only [analyze]
    exact ⟨Nat.le_refl _, fun _ _ h => absurd rfl h, fun _ => rfl, fun _ => hinv, (fun h => by cases h),
      (fun l h => by cases h)⟩
  | @allocEmpty x s =>
    intro c e hinv hn _
    simp only [analyze]
    exact ⟨Nat.le_succ _, fun _ _ h => absurd rfl h, fun h => absurd rfl h,
      fun _ => hinv.upd_new x s.next [] hn, (fun h => by cases h), (fun l h => by cases h)⟩
  | @fillAll x s =>
    intro c e hinv _ _
    exact Post.refl (fun _ => by simpa [analyze] using hinv) (fun h => by cases h) (fun l h => by cases h)
  | @fillSome x s =>
    intro c e hinv _ _
    exact Post.refl (fun _ => by simpa [analyze] using hinv) (fun h => by cases h) (fun l h => by cases h)
  | @ret_alias srcs v l s hv hl =>
    intro c e hinv _ _
    refine Post.refl (fun h => by cases h) (fun h => by cases h) ?_
    intro l' hr hlt
    cases hr
    obtain ⟨og, hog, hown⟩ := hinv v l hl hlt
    exact ⟨og, by simpa [analyze] using Env.mem_getAll.2 ⟨v, hv, hog⟩, hown⟩
  | @ret_fresh srcs s =>
    intro c e hinv hn _
    refine ⟨Nat.le_succ _, fun _ _ h => absurd rfl h, fun h => absurd rfl h, (fun h => by cases h),
      (fun h => by cases h), ?_⟩
    intro l hr hlt
    cases hr
    exact absurd hlt (Nat.not_lt.2 hn)
  | brk s =>
    intro c e hinv _ _
    exact Post.refl (fun h => by cases h) (fun _ => by simpa [analyze] using hinv) (fun l h => by cases h)

end Mir.Effects
