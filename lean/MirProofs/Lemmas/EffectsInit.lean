import MirModel.Effects

/-!
# Soundness of the `np.empty` bookkeeping (`initAn`) w.r.t. the path semantics `PathI`

Everything in `MirModel/Effects.lean` about `IEnv` is pointwise in the variable; part 1 proves the
`get`-characterisation of every list operation, part 2 the three path inductions:

* `path_keeps_init`  — a path through code that does not `allocEmpty x` keeps `x` initialised;
* `path_noEmpty`     — a path through code without any `allocEmpty` reads initialised variables only;
* `path_sim`         — the simulation: a path started below (`Le`) the abstract status, through code the
                       analysis accepts, reads initialised variables only and ends below the abstract result.
-/

namespace Mir.Effects

/-! ## 1. pointwise view of `IEnv` -/

@[simp] theorem IEnv.get_nil (y : Var) : IEnv.get [] y = .init := by simp [IEnv.get]
@[simp] theorem IEnv.get_cons_zero (s : IStat) (e : IEnv) : IEnv.get (s :: e) 0 = s := by simp [IEnv.get]
@[simp] theorem IEnv.get_cons_succ (s : IStat) (e : IEnv) (i : Nat) :
    IEnv.get (s :: e) (i + 1) = IEnv.get e i := by simp [IEnv.get]

theorem IEnv.get_set_nil (x : Var) (s : IStat) (y : Var) :
    IEnv.get (IEnv.set [] x s) y = if y = x then s else .init := by
  induction x generalizing y with
  | zero => cases y <;> simp [IEnv.set]
  | succ n ih => cases y with
    | zero => simp [IEnv.set]
    | succ y => simp [IEnv.set, ih]

theorem IEnv.get_set (e : IEnv) (x : Var) (s : IStat) (y : Var) :
    IEnv.get (IEnv.set e x s) y = if y = x then s else IEnv.get e y := by
  induction e generalizing x y with
  | nil => simp [IEnv.get_set_nil]
  | cons a rest ih =>
    cases x with
    | zero => cases y <;> simp [IEnv.set]
    | succ x => cases y with
      | zero => simp [IEnv.set]
      | succ y => simp [IEnv.set, ih]

theorem IStat.rank_join (a b : IStat) : (a.join b).rank = max a.rank b.rank := by
  cases a <;> cases b <;> decide

theorem IStat.rank_eq_zero {a : IStat} (h : a.rank = 0) : a = .init := by
  cases a <;> simp [IStat.rank] at h ⊢

theorem IStat.rank_le_zero {a : IStat} (h : a.rank ≤ 0) : a = .init :=
  IStat.rank_eq_zero (Nat.le_zero.mp h)

@[simp] theorem IStat.rank_init : IStat.rank .init = 0 := rfl

theorem IStat.init_join (b : IStat) : IStat.join .init b = b := by cases b <;> decide
theorem IStat.join_init (a : IStat) : IStat.join a .init = a := by cases a <;> decide

theorem IEnv.get_join (a b : IEnv) (y : Var) :
    IEnv.get (IEnv.join a b) y = (IEnv.get a y).join (IEnv.get b y) := by
  induction a generalizing b y with
  | nil => simp [IEnv.join, IStat.init_join]
  | cons x xs ih =>
    cases b with
    | nil => simp [IEnv.join, IStat.join_init]
    | cons z zs => cases y with
      | zero => simp [IEnv.join]
      | succ y => simp [IEnv.join, ih]

/-- pointwise order on statuses (`init < cell < empty < poison`) -/
def Le (e ea : IEnv) : Prop := ∀ x, (IEnv.get e x).rank ≤ (IEnv.get ea x).rank

theorem Le.refl (e : IEnv) : Le e e := fun _ => Nat.le_refl _

theorem IEnv.leq_sound {a b : IEnv} (h : IEnv.leq a b = true) : Le a b := by
  induction a generalizing b with
  | nil => intro x; simp
  | cons x xs ih =>
    cases b with
    | nil =>
      simp only [IEnv.leq, Bool.and_eq_true, beq_iff_eq] at h
      intro y
      cases y with
      | zero => simp [h.1]
      | succ y => simpa using ih h.2 y
    | cons z zs =>
      simp only [IEnv.leq, Bool.and_eq_true, IStat.leq, decide_eq_true_eq] at h
      intro y
      cases y with
      | zero => simpa using h.1
      | succ y => simpa using ih h.2 y

def startStat (s : IStat) : IStat := if s == .poison then .poison else .empty

theorem IEnv.get_iterStart (b : Stmt) (e : IEnv) (k i : Nat) :
    IEnv.get (IEnv.iterStart b e k) i =
      if indexed b (k + i) (IEnv.get e i) then startStat (IEnv.get e i) else IEnv.get e i := by
  induction e generalizing k i with
  | nil => simp [IEnv.iterStart, indexed]
  | cons s rest ih =>
    cases i with
    | zero => simp [IEnv.iterStart, startStat]
    | succ i =>
      simp only [IEnv.iterStart, IEnv.get_cons_succ, ih]
      have : k + 1 + i = k + (i + 1) := by omega
      rw [this]

theorem IEnv.get_afterLoop (b : Stmt) (ctx : List Var) (e t : IEnv) (k i : Nat) :
    IEnv.get (IEnv.afterLoop b ctx e t k) i =
      IStat.afterLoop (indexed b (k + i) (IEnv.get e i)) (ctx.contains (k + i)) (IEnv.get e i) (IEnv.get t i) := by
  induction e generalizing t k i with
  | nil =>
    simp only [IEnv.afterLoop, IEnv.get_nil, indexed, bne_self_eq_false, Bool.false_and]
    simp only [IStat.afterLoop, IStat.init_join, Bool.false_eq_true, if_false]
    simp [IEnv.get, List.getD_eq_getElem?_getD]
  | cons s rest ih =>
    have hk : k + 1 + 0 = k + 1 := rfl
    cases t with
    | nil =>
      cases i with
      | zero => simp [IEnv.afterLoop]
      | succ i =>
        simp only [IEnv.afterLoop, IEnv.get_cons_succ, ih, IEnv.get_nil]
        have : k + 1 + i = k + (i + 1) := by omega
        rw [this]
    | cons t0 ts =>
      cases i with
      | zero => simp [IEnv.afterLoop]
      | succ i =>
        simp only [IEnv.afterLoop, IEnv.get_cons_succ, ih]
        have : k + 1 + i = k + (i + 1) := by omega
        rw [this]

theorem IEnv.mem_indexedVars (b : Stmt) (e : IEnv) (k x : Nat) :
    x ∈ IEnv.indexedVars b e k ↔ k ≤ x ∧ indexed b x (IEnv.get e (x - k)) = true := by
  induction e generalizing k with
  | nil => simp [IEnv.indexedVars, indexed]
  | cons s rest ih =>
    simp only [IEnv.indexedVars]
    by_cases hxk : x = k
    · subst hxk
      by_cases hi : indexed b x s = true
      · simp [hi]
      · simp only [hi, if_false, Bool.false_eq_true, ih]
        simp only [Nat.sub_self, IEnv.get_cons_zero, hi, Bool.false_eq_true, and_false, iff_false, not_and]
        intro h; omega
    · have key : (k + 1 ≤ x ∧ indexed b x (IEnv.get rest (x - (k + 1))) = true) ↔
          (k ≤ x ∧ indexed b x (IEnv.get (s :: rest) (x - k)) = true) := by
        constructor
        · rintro ⟨h1, h2⟩
          refine ⟨by omega, ?_⟩
          have : x - k = (x - (k + 1)) + 1 := by omega
          rw [this]; simpa using h2
        · rintro ⟨h1, h2⟩
          have hlt : k + 1 ≤ x := by omega
          refine ⟨hlt, ?_⟩
          have : x - k = (x - (k + 1)) + 1 := by omega
          rw [this] at h2; simpa using h2
      by_cases hi : indexed b k s = true
      · simp only [hi, if_true, List.mem_cons, ih, key]
        simp [hxk]
      · simp only [hi, if_false, Bool.false_eq_true, ih, key]

theorem IEnv.mem_indexedVars_zero (b : Stmt) (e : IEnv) (x : Nat) :
    x ∈ IEnv.indexedVars b e 0 ↔ indexed b x (IEnv.get e x) = true := by
  simp [IEnv.mem_indexedVars]

theorem IEnv.get_feedback (b : Stmt) (e t : IEnv) (k i : Nat) :
    IEnv.get (IEnv.feedback b e t k) i =
      if indexed b (k + i) (IEnv.get e i) then .init else IEnv.get t i := by
  induction e generalizing t k i with
  | nil =>
    cases t <;> simp [IEnv.feedback, indexed]
  | cons s rest ih =>
    cases t with
    | nil => simp [IEnv.feedback]
    | cons t0 ts =>
      cases i with
      | zero => simp [IEnv.feedback]
      | succ i =>
        simp only [IEnv.feedback, IEnv.get_cons_succ, ih]
        have : k + 1 + i = k + (i + 1) := by omega
        rw [this]

theorem IEnv.get_nextStart (b : Stmt) (e t : IEnv) (k i : Nat) :
    IEnv.get (IEnv.nextStart b e t k) i =
      if indexed b (k + i) (IEnv.get e i) then startStat (IEnv.get e i) else IEnv.get t i := by
  induction e generalizing t k i with
  | nil => simp [IEnv.nextStart, indexed]
  | cons s rest ih =>
    cases t with
    | nil =>
      cases i with
      | zero => simp [IEnv.nextStart, startStat]
      | succ i =>
        simp only [IEnv.nextStart, IEnv.get_cons_succ, ih, IEnv.get_nil]
        have : k + 1 + i = k + (i + 1) := by omega
        rw [this]
    | cons t0 ts =>
      cases i with
      | zero => simp [IEnv.nextStart, startStat]
      | succ i =>
        simp only [IEnv.nextStart, IEnv.get_cons_succ, ih]
        have : k + 1 + i = k + (i + 1) := by omega
        rw [this]

theorem IEnv.get_tail (w : IEnv) (i : Nat) : IEnv.get w.tail i = IEnv.get w (i + 1) := by
  cases w <;> simp

theorem IEnv.get_finish (b : Stmt) (ctx : List Var) (e w cur : IEnv) (k i : Nat) :
    IEnv.get (IEnv.finish b ctx e w cur k) i =
      if indexed b (k + i) (IEnv.get e i)
      then IStat.afterLoop true (ctx.contains (k + i)) (IEnv.get e i) (IEnv.get w i)
      else IEnv.get cur i := by
  induction e generalizing w cur k i with
  | nil => simp [IEnv.finish, indexed]
  | cons s rest ih =>
    cases i with
    | zero =>
      simp only [IEnv.finish, IEnv.get_cons_zero, Nat.add_zero]
      rfl
    | succ i =>
      simp only [IEnv.finish, IEnv.get_cons_succ, ih, IEnv.get_tail]
      have : k + 1 + i = k + (i + 1) := by omega
      rw [this]


/-! ## 2. unfolding equations of `initAn` in projection form -/

theorem initAn_seq (ctx : List Var) (a b : Stmt) (e : IEnv) :
    initAn ctx (.seq a b) e =
      ((initAn ctx b (initAn ctx a e).1).1, (initAn ctx a e).2 && (initAn ctx b (initAn ctx a e).1).2) := by
  rw [initAn]

theorem initAn_ite (ctx : List Var) (a b : Stmt) (e : IEnv) :
    initAn ctx (.ite a b) e =
      (IEnv.join (initAn ctx a e).1 (initAn ctx b e).1, (initAn ctx a e).2 && (initAn ctx b e).2) := by
  rw [initAn]

/-- start-of-iteration status used by the second pass of the loop rule -/
def loopStart (ctx : List Var) (b : Stmt) (e : IEnv) : IEnv :=
  IEnv.join (IEnv.iterStart b e 0)
    (IEnv.feedback b e (initAn (ctx ++ IEnv.indexedVars b e 0) b (IEnv.iterStart b e 0)).1 0)

theorem initAn_loop (ctx : List Var) (b : Stmt) (e : IEnv) :
    initAn ctx (.loop b) e =
      (IEnv.afterLoop b ctx e (initAn (ctx ++ IEnv.indexedVars b e 0) b (loopStart ctx b e)).1 0,
       (initAn (ctx ++ IEnv.indexedVars b e 0) b (loopStart ctx b e)).2 &&
         IEnv.leq (IEnv.feedback b e (initAn (ctx ++ IEnv.indexedVars b e 0) b (loopStart ctx b e)).1 0)
           (loopStart ctx b e)) := by
  rw [initAn]; rfl

/-! ## 3. code that does not allocate `x` keeps `x` initialised -/

/-- does the statement contain `allocEmpty x`? -/
def allocs (x : Var) : Stmt → Bool
  | .seq a b => allocs x a || allocs x b
  | .ite a b => allocs x a || allocs x b
  | .loop b => allocs x b
  | .allocEmpty y => x == y
  | _ => false

/-- the analysis refuses an `allocEmpty x` inside a loop that indexes `x` -/
theorem initAn_ok_allocs {x : Var} (c : Stmt) :
    ∀ (ctx : List Var) (e : IEnv), (initAn ctx c e).2 = true → x ∈ ctx → allocs x c = false := by
  induction c with
  | seq a b iha ihb =>
    intro ctx e h hx
    rw [initAn_seq] at h
    simp only [Bool.and_eq_true] at h
    simp [allocs, iha ctx e h.1 hx, ihb ctx _ h.2 hx]
  | ite a b iha ihb =>
    intro ctx e h hx
    rw [initAn_ite] at h
    simp only [Bool.and_eq_true] at h
    simp [allocs, iha ctx e h.1 hx, ihb ctx e h.2 hx]
  | loop b ih =>
    intro ctx e h hx
    rw [initAn_loop] at h
    simp only [Bool.and_eq_true] at h
    simpa [allocs] using ih _ _ h.1 (List.mem_append_left _ hx)
  | allocEmpty y =>
    intro ctx e h hx
    simp only [initAn, Bool.not_eq_true', List.contains_eq_mem, decide_eq_false_iff_not] at h
    simp only [allocs, beq_eq_false_iff_ne, ne_eq]
    intro hxy; exact h (hxy ▸ hx)
  | _ => intros; simp [allocs]

theorem indexed_init (b : Stmt) (x : Var) : indexed b x .init = false := by simp [indexed]

theorem fillSomeStat_init : fillSomeStat .init = .init := rfl

def KeepMotive (x : Var) : ICode → IEnv → IEnv → Prop
  | .stmt c, e, e' => allocs x c = false → IEnv.get e x = .init → IEnv.get e' x = .init
  | .iter b _ e0 _, cur, e' =>
      allocs x b = false → IEnv.get e0 x = .init → IEnv.get cur x = .init → IEnv.get e' x = .init

theorem path_keep {x : Var} {ctx : List Var} {code : ICode} {e e' : IEnv} {ok st : Bool}
    (h : PathI ctx code e e' ok st) : KeepMotive x code e e' := by
  induction h with
  | skip => intro _ h; exact h
  | seq_norm _ _ ih1 ih2 =>
    intro ha he
    simp only [allocs, Bool.or_eq_false_iff] at ha
    exact ih2 ha.2 (ih1 ha.1 he)
  | seq_stop _ ih1 =>
    intro ha he
    simp only [allocs, Bool.or_eq_false_iff] at ha
    exact ih1 ha.1 he
  | assign => intro _ he; rw [IEnv.get_set]; split <;> simp [he]
  | mutate => intro _ h; exact h
  | @call ctx r f args e =>
    intro _ he
    cases r with
    | none => exact he
    | some y => simp only; rw [IEnv.get_set]; split <;> simp [he]
  | ite_l _ ih =>
    intro ha he
    simp only [allocs, Bool.or_eq_false_iff] at ha
    exact ih ha.1 he
  | ite_r _ ih =>
    intro ha he
    simp only [allocs, Bool.or_eq_false_iff] at ha
    exact ih ha.2 he
  | loop _ ih =>
    intro ha he
    simp only [allocs] at ha
    apply ih ha he
    rw [IEnv.get_iterStart, he]; simp [indexed_init]
  | iter_done =>
    intro _ he0 hc
    rw [IEnv.get_finish, he0]; simpa [indexed_init] using hc
  | iter_step _ _ ih1 ih2 =>
    intro ha he0 hc
    apply ih2 ha he0
    rw [IEnv.get_nextStart, he0]; simpa [indexed_init] using ih1 ha hc
  | iter_stop _ ih1 => intro ha _ hc; exact ih1 ha hc
  | globalWrite => intro _ h; exact h
  | @allocEmpty ctx y e =>
    intro ha he
    simp only [allocs, beq_eq_false_iff_ne, ne_eq] at ha
    rw [IEnv.get_set]; simp [ha, he]
  | fillAll => intro _ he; rw [IEnv.get_set]; split <;> simp [he]
  | @fillSome ctx y e =>
    intro _ he; rw [IEnv.get_set]
    split
    · next hxy => subst hxy; rw [he]; rfl
    · exact he
  | ret => intro _ h; exact h
  | raise => intro _ h; exact h

/-- **a path through code that never `allocEmpty`s `x` keeps `x` initialised** -/
theorem path_keeps_init {x : Var} {ctx : List Var} {c : Stmt} {e e' : IEnv} {ok st : Bool}
    (h : PathI ctx (.stmt c) e e' ok st) (ha : allocs x c = false) (he : IEnv.get e x = .init) :
    IEnv.get e' x = .init := path_keep (x := x) h ha he

/-! ## 4. code without `np.empty` -/

def AllInit (e : IEnv) : Prop := ∀ x, IEnv.get e x = .init

theorem allocs_of_hasEmpty {c : Stmt} (h : hasEmpty c = false) (x : Var) : allocs x c = false := by
  induction c with
  | seq a b iha ihb =>
    simp only [hasEmpty, Bool.or_eq_false_iff] at h; simp [allocs, iha h.1, ihb h.2]
  | ite a b iha ihb =>
    simp only [hasEmpty, Bool.or_eq_false_iff] at h; simp [allocs, iha h.1, ihb h.2]
  | loop b ih => simp only [hasEmpty] at h; simp [allocs, ih h]
  | allocEmpty y => simp [hasEmpty] at h
  | _ => simp [allocs]

theorem readsOK_of_allInit {e : IEnv} (h : AllInit e) (vs : List Var) : readsOK e vs = true := by
  simp [readsOK, h _]

def NoEmptyMotive : ICode → IEnv → Bool → Prop
  | .stmt c, e, ok => hasEmpty c = false → AllInit e → ok = true
  | .iter b _ e0 _, cur, ok => hasEmpty b = false → AllInit e0 → AllInit cur → ok = true

theorem path_noEmpty_aux {ctx : List Var} {code : ICode} {e e' : IEnv} {ok st : Bool}
    (h : PathI ctx code e e' ok st) : NoEmptyMotive code e ok := by
  induction h with
  | skip => intro _ _; rfl
  | seq_norm h1 _ ih1 ih2 =>
    intro ha he
    simp only [hasEmpty, Bool.or_eq_false_iff] at ha
    have he1 : AllInit _ := fun x => path_keeps_init h1 (allocs_of_hasEmpty ha.1 x) (he x)
    simp [ih1 ha.1 he, ih2 ha.2 he1]
  | seq_stop _ ih1 =>
    intro ha he
    simp only [hasEmpty, Bool.or_eq_false_iff] at ha
    exact ih1 ha.1 he
  | assign => intro _ he; exact readsOK_of_allInit he _
  | mutate => intro _ _; rfl
  | call => intro _ he; exact readsOK_of_allInit he _
  | ite_l _ ih =>
    intro ha he
    simp only [hasEmpty, Bool.or_eq_false_iff] at ha
    exact ih ha.1 he
  | ite_r _ ih =>
    intro ha he
    simp only [hasEmpty, Bool.or_eq_false_iff] at ha
    exact ih ha.2 he
  | loop _ ih =>
    intro ha he
    simp only [hasEmpty] at ha
    apply ih ha he
    intro x
    rw [IEnv.get_iterStart, he x]; simp [indexed_init]
  | iter_done => intro _ _ _; rfl
  | @iter_step ctx outer b e0 w cur t e' ok1 ok2 st h1 _ ih1 ih2 =>
    intro ha he0 hc
    have ht : AllInit t := fun x => path_keeps_init h1 (allocs_of_hasEmpty ha x) (hc x)
    have hn : AllInit (IEnv.nextStart b e0 t 0) := by
      intro x
      rw [IEnv.get_nextStart, he0 x]; simpa [indexed_init] using ht x
    simp [ih1 ha hc, ih2 ha he0 hn]
  | iter_stop _ ih1 => intro ha _ hc; exact ih1 ha hc
  | globalWrite => intro _ _; rfl
  | allocEmpty => intro ha; simp [hasEmpty] at ha
  | fillAll => intro _ _; rfl
  | fillSome => intro _ _; rfl
  | ret => intro _ he; exact readsOK_of_allInit he _
  | raise => intro _ _; rfl

/-- **a path through code without any `np.empty` reads initialised variables only** -/
theorem path_noEmpty {ctx : List Var} {c : Stmt} {e e' : IEnv} {ok st : Bool}
    (h : PathI ctx (.stmt c) e e' ok st) (hc : hasEmpty c = false) (he : AllInit e) : ok = true :=
  path_noEmpty_aux h hc he


/-! ## 5. the simulation: `initAn` over-approximates every path -/

theorem IEnv.get_iterStart0 (b : Stmt) (e : IEnv) (x : Nat) :
    IEnv.get (IEnv.iterStart b e 0) x =
      if indexed b x (IEnv.get e x) then startStat (IEnv.get e x) else IEnv.get e x := by
  simpa using IEnv.get_iterStart b e 0 x

theorem IEnv.get_afterLoop0 (b : Stmt) (ctx : List Var) (e t : IEnv) (x : Nat) :
    IEnv.get (IEnv.afterLoop b ctx e t 0) x =
      IStat.afterLoop (indexed b x (IEnv.get e x)) (ctx.contains x) (IEnv.get e x) (IEnv.get t x) := by
  simpa using IEnv.get_afterLoop b ctx e t 0 x

theorem IEnv.get_feedback0 (b : Stmt) (e t : IEnv) (x : Nat) :
    IEnv.get (IEnv.feedback b e t 0) x = if indexed b x (IEnv.get e x) then .init else IEnv.get t x := by
  simpa using IEnv.get_feedback b e t 0 x

theorem IEnv.get_nextStart0 (b : Stmt) (e t : IEnv) (x : Nat) :
    IEnv.get (IEnv.nextStart b e t 0) x =
      if indexed b x (IEnv.get e x) then startStat (IEnv.get e x) else IEnv.get t x := by
  simpa using IEnv.get_nextStart b e t 0 x

theorem IEnv.get_finish0 (b : Stmt) (ctx : List Var) (e w cur : IEnv) (x : Nat) :
    IEnv.get (IEnv.finish b ctx e w cur 0) x =
      if indexed b x (IEnv.get e x)
      then IStat.afterLoop true (ctx.contains x) (IEnv.get e x) (IEnv.get w x)
      else IEnv.get cur x := by
  simpa using IEnv.get_finish b ctx e w cur 0 x

theorem IStat.afterLoop_mono {n1 n2 : Bool} {s s' t t' : IStat} (hn : n1 = true → n2 = true)
    (hs : s.rank ≤ s'.rank) (ht : t.rank ≤ t'.rank) :
    (IStat.afterLoop true n1 s t).rank ≤ (IStat.afterLoop true n2 s' t').rank := by
  cases n1 <;> cases n2 <;> cases s <;> cases s' <;> cases t <;> cases t' <;>
    simp_all [IStat.afterLoop, IStat.rank]

theorem fillSomeStat_mono {s s' : IStat} (h : s.rank ≤ s'.rank) :
    (fillSomeStat s).rank ≤ (fillSomeStat s').rank := by
  cases s <;> cases s' <;> simp_all [fillSomeStat, IStat.rank]

theorem startStat_mono {s s' : IStat} (h : s.rank ≤ s'.rank) :
    (startStat s).rank ≤ (startStat s').rank := by
  cases s <;> cases s' <;> simp_all [startStat, IStat.rank]

theorem indexed_mono {b : Stmt} {x : Var} {s s' : IStat} (hi : indexed b x s = true)
    (h : s.rank ≤ s'.rank) : indexed b x s' = true := by
  cases s <;> cases s' <;> simp_all [indexed, IStat.rank]

theorem init_of_indexed_false {b : Stmt} {x : Var} {s s' : IStat} (ha : indexed b x s' = true)
    (hp : indexed b x s = false) : s = .init := by
  cases s <;> simp_all [indexed]

theorem iterStat_mono (b : Stmt) (x : Var) {s s' : IStat} (h : s.rank ≤ s'.rank) :
    (if indexed b x s then startStat s else s).rank ≤ (if indexed b x s' then startStat s' else s').rank := by
  cases hf : fills x b <;> cases s <;> cases s' <;> simp_all [indexed, startStat, IStat.rank]

theorem readsOK_mono {e ea : IEnv} (h : Le e ea) {vs : List Var} (hr : readsOK ea vs = true) :
    readsOK e vs = true := by
  simp only [readsOK, List.all_eq_true, beq_iff_eq] at hr ⊢
  intro v hv
  have := h v
  rw [hr v hv] at this
  exact IStat.rank_le_zero this

theorem Le.set {e ea : IEnv} (h : Le e ea) (x : Var) {s s' : IStat} (hs : s.rank ≤ s'.rank) :
    Le (IEnv.set e x s) (IEnv.set ea x s') := by
  intro y
  rw [IEnv.get_set, IEnv.get_set]
  split
  · exact hs
  · exact h y

/-- the path context (buffers indexed by the enclosing loops *on this path*) stays inside the abstract one -/
theorem sub_ctx {b : Stmt} {outer actx : List Var} {e0 ea : IEnv} (hsub : ∀ x, x ∈ outer → x ∈ actx)
    (hle : Le e0 ea) :
    ∀ x, x ∈ outer ++ IEnv.indexedVars b e0 0 → x ∈ actx ++ IEnv.indexedVars b ea 0 := by
  intro x hx
  rw [List.mem_append] at hx ⊢
  rcases hx with hx | hx
  · exact Or.inl (hsub x hx)
  · right
    rw [IEnv.mem_indexedVars_zero] at hx ⊢
    exact indexed_mono hx (hle x)

/-- Induction motive of `path_sim`.

* statement: a path started below the abstract status `ea`, inside code the analysis accepts from `ea`, has
  seen initialised reads only and (if it falls through) ends below the abstract result;
* loop in progress, analysed from `ea` with second-pass start `start` (accepted, stable): as long as the
  current status is below `start`, buffers not indexed abstractly are below `ea ⊔ t2`, buffers indexed
  abstractly but not on this path are initialised, and the worst end-of-iteration status of the buffers
  indexed on this path is below `t2` — the rest of the loop reads initialised variables only and ends
  below the abstract after-loop status. -/
def SimMotive (pctx : List Var) : ICode → IEnv → IEnv → Bool → Bool → Prop
  | .stmt c, e, e', ok, st =>
      ∀ (actx : List Var) (ea : IEnv), (∀ x, x ∈ pctx → x ∈ actx) → Le e ea → (initAn actx c ea).2 = true →
        ok = true ∧ (st = false → Le e' (initAn actx c ea).1)
  | .iter b outer e0 w, cur, e', ok, st =>
      ∀ (actx : List Var) (ea start : IEnv),
        pctx = outer ++ IEnv.indexedVars b e0 0 →
        (∀ x, x ∈ outer → x ∈ actx) → Le e0 ea →
        (initAn (actx ++ IEnv.indexedVars b ea 0) b start).2 = true →
        Le (IEnv.iterStart b ea 0) start →
        Le (IEnv.feedback b ea (initAn (actx ++ IEnv.indexedVars b ea 0) b start).1 0) start →
        Le cur start →
        (∀ x, indexed b x (IEnv.get ea x) = false →
            (IEnv.get cur x).rank ≤ (IEnv.get ea x).rank ∨
            (IEnv.get cur x).rank ≤
              (IEnv.get (initAn (actx ++ IEnv.indexedVars b ea 0) b start).1 x).rank) →
        (∀ x, indexed b x (IEnv.get ea x) = true → indexed b x (IEnv.get e0 x) = false →
            IEnv.get cur x = .init) →
        (∀ x, indexed b x (IEnv.get e0 x) = true →
            (IEnv.get w x).rank ≤ (IEnv.get (initAn (actx ++ IEnv.indexedVars b ea 0) b start).1 x).rank) →
        ok = true ∧
          (st = false → Le e' (IEnv.afterLoop b actx ea (initAn (actx ++ IEnv.indexedVars b ea 0) b start).1 0))

theorem path_sim_aux {pctx : List Var} {code : ICode} {e e' : IEnv} {ok st : Bool}
    (h : PathI pctx code e e' ok st) : SimMotive pctx code e e' ok st := by
  induction h with
  | skip => intro actx ea _ hle _; exact ⟨rfl, fun _ => by simpa [initAn] using hle⟩
  | seq_norm _ _ ih1 ih2 =>
    intro actx ea hsub hle hok
    rw [initAn_seq] at hok ⊢
    simp only [Bool.and_eq_true] at hok
    obtain ⟨o1, l1⟩ := ih1 actx ea hsub hle hok.1
    obtain ⟨o2, l2⟩ := ih2 actx _ hsub (l1 rfl) hok.2
    exact ⟨by simp [o1, o2], l2⟩
  | seq_stop _ ih1 =>
    intro actx ea hsub hle hok
    rw [initAn_seq] at hok
    simp only [Bool.and_eq_true] at hok
    exact ⟨(ih1 actx ea hsub hle hok.1).1, fun h => by cases h⟩
  | @assign ctx x ex e =>
    intro actx ea _ hle hok
    simp only [initAn] at hok ⊢
    exact ⟨readsOK_mono hle hok, fun _ => hle.set x (Nat.le_refl _)⟩
  | mutate => intro actx ea _ hle _; exact ⟨rfl, fun _ => by simpa [initAn] using hle⟩
  | @call ctx r f args e =>
    intro actx ea _ hle hok
    simp only [initAn] at hok ⊢
    refine ⟨readsOK_mono hle hok, fun _ => ?_⟩
    cases r with
    | none => exact hle
    | some x => exact hle.set x (Nat.le_refl _)
  | ite_l _ ih =>
    intro actx ea hsub hle hok
    rw [initAn_ite] at hok ⊢
    simp only [Bool.and_eq_true] at hok
    obtain ⟨o, l⟩ := ih actx ea hsub hle hok.1
    refine ⟨o, fun hs x => ?_⟩
    rw [IEnv.get_join, IStat.rank_join]
    exact Nat.le_trans (l hs x) (Nat.le_max_left _ _)
  | ite_r _ ih =>
    intro actx ea hsub hle hok
    rw [initAn_ite] at hok ⊢
    simp only [Bool.and_eq_true] at hok
    obtain ⟨o, l⟩ := ih actx ea hsub hle hok.2
    refine ⟨o, fun hs x => ?_⟩
    rw [IEnv.get_join, IStat.rank_join]
    exact Nat.le_trans (l hs x) (Nat.le_max_right _ _)
  | @loop ctx b e e' ok st _ ih =>
    intro actx ea hsub hle hok
    rw [initAn_loop] at hok ⊢
    simp only [Bool.and_eq_true] at hok
    have hstart : Le (IEnv.iterStart b ea 0) (loopStart actx b ea) := by
      intro x
      unfold loopStart
      rw [IEnv.get_join, IStat.rank_join]
      exact Nat.le_max_left _ _
    have hnot : ∀ x, indexed b x (IEnv.get ea x) = false → indexed b x (IEnv.get e x) = false := by
      intro x ha
      cases hp : indexed b x (IEnv.get e x) with
      | false => rfl
      | true => rw [indexed_mono hp (hle x)] at ha; cases ha
    apply ih actx ea (loopStart actx b ea) rfl hsub hle hok.1 hstart (IEnv.leq_sound hok.2)
    · intro x
      refine Nat.le_trans ?_ (hstart x)
      rw [IEnv.get_iterStart0, IEnv.get_iterStart0]
      exact iterStat_mono b x (hle x)
    · intro x ha
      left
      rw [IEnv.get_iterStart0, hnot x ha]
      simpa using hle x
    · intro x ha hp
      rw [IEnv.get_iterStart0, hp]
      simpa using init_of_indexed_false ha hp
    · intro x _; simp
  | @iter_done ctx outer b e0 w cur =>
    intro actx ea start hctx hsub hle hok hst hfb hcur hinv2 hinv3 hinv4
    refine ⟨rfl, fun _ x => ?_⟩
    rw [IEnv.get_finish0, IEnv.get_afterLoop0]
    cases hp : indexed b x (IEnv.get e0 x) with
    | true =>
      rw [indexed_mono hp (hle x)]
      simp only [if_true]
      exact IStat.afterLoop_mono (by simpa [List.contains_eq_mem] using hsub x) (hle x) (hinv4 x hp)
    | false =>
      simp only [Bool.false_eq_true, if_false]
      cases ha : indexed b x (IEnv.get ea x) with
      | true => rw [hinv3 x ha hp]; simp
      | false =>
        simp only [IStat.afterLoop, Bool.false_eq_true, if_false]
        rw [IStat.rank_join]
        rcases hinv2 x ha with h | h
        · exact Nat.le_trans h (Nat.le_max_left _ _)
        · exact Nat.le_trans h (Nat.le_max_right _ _)
  | @iter_step ctx outer b e0 w cur t e' ok1 ok2 st h1 _ ih1 ih2 =>
    intro actx ea start hctx hsub hle hok hst hfb hcur hinv2 hinv3 hinv4
    have hsub' : ∀ x, x ∈ ctx → x ∈ actx ++ IEnv.indexedVars b ea 0 := by
      rw [hctx]; exact sub_ctx hsub hle
    obtain ⟨o1, l1⟩ := ih1 _ start hsub' hcur hok
    have l1 := l1 rfl
    have hnot : ∀ x, indexed b x (IEnv.get ea x) = false → indexed b x (IEnv.get e0 x) = false := by
      intro x ha
      cases hp : indexed b x (IEnv.get e0 x) with
      | false => rfl
      | true => rw [indexed_mono hp (hle x)] at ha; cases ha
    have hkeep : ∀ x, indexed b x (IEnv.get ea x) = true → indexed b x (IEnv.get e0 x) = false →
        IEnv.get t x = .init := by
      intro x ha hp
      have hal : allocs x b = false :=
        initAn_ok_allocs b _ start hok (List.mem_append_right _ ((IEnv.mem_indexedVars_zero b ea x).2 ha))
      exact path_keeps_init h1 hal (hinv3 x ha hp)
    have hA : Le (IEnv.nextStart b e0 t 0) start := by
      intro x
      rw [IEnv.get_nextStart0]
      cases hp : indexed b x (IEnv.get e0 x) with
      | true =>
        simp only [if_true]
        refine Nat.le_trans ?_ (hst x)
        rw [IEnv.get_iterStart0, indexed_mono hp (hle x)]
        simp only [if_true]
        exact startStat_mono (hle x)
      | false =>
        simp only [Bool.false_eq_true, if_false]
        cases ha : indexed b x (IEnv.get ea x) with
        | true => rw [hkeep x ha hp]; simp
        | false =>
          refine Nat.le_trans (l1 x) ?_
          have := hfb x
          rw [IEnv.get_feedback0, ha] at this
          simpa using this
    have hB : ∀ x, indexed b x (IEnv.get ea x) = false →
        (IEnv.get (IEnv.nextStart b e0 t 0) x).rank ≤ (IEnv.get ea x).rank ∨
        (IEnv.get (IEnv.nextStart b e0 t 0) x).rank ≤
          (IEnv.get (initAn (actx ++ IEnv.indexedVars b ea 0) b start).1 x).rank := by
      intro x ha
      right
      rw [IEnv.get_nextStart0, hnot x ha]
      simpa using l1 x
    have hC : ∀ x, indexed b x (IEnv.get ea x) = true → indexed b x (IEnv.get e0 x) = false →
        IEnv.get (IEnv.nextStart b e0 t 0) x = .init := by
      intro x ha hp
      rw [IEnv.get_nextStart0, hp]
      simpa using hkeep x ha hp
    have hD : ∀ x, indexed b x (IEnv.get e0 x) = true →
        (IEnv.get (IEnv.join w t) x).rank ≤
          (IEnv.get (initAn (actx ++ IEnv.indexedVars b ea 0) b start).1 x).rank := by
      intro x hp
      rw [IEnv.get_join, IStat.rank_join]
      exact Nat.max_le.2 ⟨hinv4 x hp, l1 x⟩
    obtain ⟨o2, l2⟩ := ih2 actx ea start hctx hsub hle hok hst hfb hA hB hC hD
    exact ⟨by simp [o1, o2], l2⟩
  | @iter_stop ctx outer b e0 w cur t ok1 _ ih1 =>
    intro actx ea start hctx hsub hle hok hst hfb hcur hinv2 hinv3 hinv4
    have hsub' : ∀ x, x ∈ ctx → x ∈ actx ++ IEnv.indexedVars b ea 0 := by
      rw [hctx]; exact sub_ctx hsub hle
    exact ⟨(ih1 _ start hsub' hcur hok).1, fun h => by cases h⟩
  | globalWrite => intro actx ea _ hle _; exact ⟨rfl, fun _ => by simpa [initAn] using hle⟩
  | @allocEmpty ctx x e =>
    intro actx ea _ hle hok
    simp only [initAn] at hok ⊢
    exact ⟨trivial, fun _ => hle.set x (Nat.le_refl _)⟩
  | @fillAll ctx x e =>
    intro actx ea _ hle hok
    simp only [initAn] at hok ⊢
    exact ⟨trivial, fun _ => hle.set x (Nat.le_refl _)⟩
  | @fillSome ctx x e =>
    intro actx ea _ hle hok
    simp only [initAn] at hok ⊢
    exact ⟨trivial, fun _ => hle.set x (fillSomeStat_mono (hle x))⟩
  | ret =>
    intro actx ea _ hle hok
    simp only [initAn] at hok
    exact ⟨readsOK_mono hle hok, fun h => by cases h⟩
  | raise => intro actx ea _ hle _; exact ⟨rfl, fun h => by cases h⟩

/-- **Simulation.**  A path that starts below the abstract status `ea`, through a statement the analysis
    accepts from `ea` (with an abstract loop context that contains the path's), reads initialised variables
    only and, if it falls through, ends below the abstract result. -/
theorem path_sim {pctx actx : List Var} {c : Stmt} {e e' ea : IEnv} {ok st : Bool}
    (h : PathI pctx (.stmt c) e e' ok st) (hsub : ∀ x, x ∈ pctx → x ∈ actx) (hle : Le e ea)
    (hok : (initAn actx c ea).2 = true) :
    ok = true ∧ (st = false → Le e' (initAn actx c ea).1) :=
  path_sim_aux h actx ea hsub hle hok

/-- soundness of `initOKFun` on the whole body -/
theorem initOKFun_sound {fd : FunDef} (hf : initOKFun fd = true) {e' : IEnv} {ok st : Bool}
    (h : PathI [] (.stmt fd.body) [] e' ok st) : ok = true := by
  simp only [initOKFun, Bool.or_eq_true, Bool.not_eq_true', Bool.and_eq_true] at hf
  rcases hf with hf | hf
  · exact path_noEmpty h hf (fun x => by simp)
  · exact (path_sim h (fun _ hx => hx) (Le.refl _) hf.2).1

end Mir.Effects
