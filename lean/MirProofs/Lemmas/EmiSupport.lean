import MirProofs.Lemmas.Hypergeometric
import MirProofs.Lemmas.SegmentText
import MirProofs.Lemmas.Entropy

/-!
  The expected-MI loop of `_adjusted_mutual_info_score` runs over the whole support of the hypergeometric law
  except `k = 0` (where the summand is 0): transport of `Lemmas/Hypergeometric.lean` to the two textbook forms
  of the loop (`Segment.emiText` for C16, `Entropy.emiTerm` / `loopRange` for C01).
-/
namespace Mir
open Mir.Hypergeom

namespace Segment

/-- the MI summand `(k/n) · log(n k / (a b))` of the expected-MI loop as a function of the cell count `k` -/
noncomputable def emiSummand (n a b : ℕ) (k : ℕ) : ℝ :=
  ((k : ℝ) / n) * Real.log ((n : ℝ) * k / ((a : ℝ) * b))

theorem emiSummand_zero (n a b : ℕ) : emiSummand n a b 0 = 0 := by simp [emiSummand]

/-- the code's `exp(gammaln …)` weights over the loop's own range sum to `1 − P(K = 0)` -/
theorem hypFact_sum_loop {n a b : ℕ} (ha : a ≤ n) (hb : b ≤ n) :
    ∑ k ∈ Finset.Icc (max (a + b - n) 1) (min a b), hypFact n a b k =
      1 - ((n - a).choose b : ℝ) / (n.choose b : ℝ) := by
  have h := weight_zero_add_sum_loop ha hb
  rw [Nat.choose_zero_right, Nat.cast_one, one_mul, Nat.sub_zero] at h
  rw [← h, add_sub_cancel_left]
  apply Finset.sum_congr rfl
  intro k hk
  rw [Finset.mem_Icc] at hk
  rw [hypFact_eq_choose ha hb (by omega) (by omega) (by omega)]

/-- **E[MI] is an expectation.** `emiText` is `Σ_x Σ_y E[(K/n) log(n K / (a_x b_y))]`, `K` hypergeometric with
    parameters `(n, a_x, b_y)`, over the whole support. -/
theorem emiText_eq_hypExpect (yr ye : List Nat) :
    emiText yr ye =
      ((classes yr).map fun x => ((classes ye).map fun y =>
        hypExpect yr.length (yr.count x) (ye.count y)
          (emiSummand yr.length (yr.count x) (ye.count y))).sum).sum := by
  unfold emiText
  congr 1
  apply List.map_congr_left
  intro x _
  congr 1
  apply List.map_congr_left
  intro y _
  have hx : yr.count x ≤ yr.length := List.count_le_length
  rw [← sum_loop_eq_hypExpect _ (emiSummand_zero _ _ _) hx]
  rfl

end Segment

namespace Entropy
open Mir.Segment (sum_range'_eq_sum_Icc)

/-- the summand of `emiTerm` without its weight -/
noncomputable def emiSummand (n a b : ℕ) (k : ℕ) : ℝ :=
  ((k : ℝ) / (n : ℝ)) * (Real.log ((n : ℝ) * (k : ℝ)) - Real.log ((a : ℝ) * (b : ℝ)))

theorem emiSummand_zero (n a b : ℕ) : emiSummand n a b 0 = 0 := by simp [emiSummand]

theorem loopRange_eq (n a b : ℕ) :
    loopRange n a b = List.range' (max (a + b - n) 1) (min a b + 1 - max (a + b - n) 1) := by
  unfold loopRange
  have : max ((a : Int) - (n : Int) + (b : Int)).toNat 1 = max (a + b - n) 1 := by omega
  rw [this]

theorem sum_loopRange (n a b : ℕ) (f : ℕ → ℝ) :
    ((loopRange n a b).map f).sum = ∑ k ∈ Finset.Icc (max (a + b - n) 1) (min a b), f k := by
  rw [loopRange_eq, sum_range'_eq_sum_Icc]

/-- **weights sum to 1:** the `k = 0` weight plus the weights over the loop's range -/
theorem hyp_zero_add_sum_loop {n a b : ℕ} (ha : a ≤ n) (hb : b ≤ n) :
    hyp n a b 0 + ((loopRange n a b).map fun k => hyp n a b k).sum = 1 := by
  rw [sum_loopRange]
  exact weight_zero_add_sum_loop ha hb

theorem hyp_nonneg (n a b k : ℕ) : 0 ≤ hyp n a b k := weight_nonneg n a b k

/-- the inner loop is the hypergeometric expectation of the summand over the full support -/
theorem sum_loop_emiTerm {n a b : ℕ} (ha : a ≤ n) :
    ((loopRange n a b).map fun k => emiTerm n a b k).sum = hypExpect n a b (emiSummand n a b) := by
  rw [sum_loopRange, ← sum_loop_eq_hypExpect _ (emiSummand_zero _ _ _) ha]
  rfl

end Entropy
end Mir
