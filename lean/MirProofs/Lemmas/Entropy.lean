import MirProofs.Lemmas.SegmentReal
import MirProofs.Lemmas.BeatReal
import Mathlib.Data.Nat.Choose.Vandermonde
import Mathlib.Data.Nat.Choose.Cast
import Mathlib.Algebra.BigOperators.Intervals
import Mathlib.Algebra.BigOperators.NatAntidiagonal
import Mathlib.Algebra.Order.BigOperators.Group.Finset

/-!
  Entropy inequalities over ℝ (everything from `log t ≤ t − 1`) and their transport to the model's own
  entropy-based functions at the real interpretation:

  * `shannon`: `0 ≤ H(q) ≤ log #{non-zero cells} ≤ log #{cells}` for a finite distribution `q`;
  * `Beat.entropyOfCounts realOps` / `Beat.infoGainOf realOps` (information gain);
  * a joint table of counts (`Joint`): `0 ≤ MI`, chain rule `MI + H(col | row) = H(col)`,
    `0 ≤ H(col | row) ≤ log #cols`;
  * `Segment.entropyIdx`, `mutualInfoIdx`, `nmiIdx`, `nceIdx` at `ℝ`;
  * `Segment.expectedMI` / `amiIdx` at `ℝ`: `lgamma(k+1) = log k!`, the `exp(gammaln …)` weight is the hypergeometric
    probability, `EMI ≤ H(rows)` (Vandermonde), hence `AMI ≤ 1`.
-/
namespace Mir
namespace Entropy

open Mir.Segment (sum_le_sum_real sum_map_add_real sum_map_mul_left_real sum_cast_div sum_sum_comm)

/-! ### sums over lists -/

theorem sum_map_mul_right_real {β : Type} (l : List β) (c : ℝ) (f : β → ℝ) :
    (l.map fun x => f x * c).sum = (l.map f).sum * c := by
  induction l with
  | nil => simp
  | cons a l ih => simp only [List.map_cons, List.sum_cons, ih]; ring

theorem sum_map_sub_real {β : Type} (f g : β → ℝ) (z : List β) :
    (z.map fun p => f p - g p).sum = (z.map f).sum - (z.map g).sum := by
  induction z with
  | nil => simp
  | cons a z ih => simp only [List.map_cons, List.sum_cons, ih]; ring

theorem sum_map_neg_real {β : Type} (f : β → ℝ) (z : List β) :
    (z.map fun p => -f p).sum = -(z.map f).sum := by
  induction z with
  | nil => simp
  | cons a z ih => simp only [List.map_cons, List.sum_cons, ih]; ring

theorem sum_map_nonneg_real {β : Type} (l : List β) (f : β → ℝ) (h : ∀ x ∈ l, 0 ≤ f x) :
    0 ≤ (l.map f).sum := by
  induction l with
  | nil => simp
  | cons a l ih =>
    simp only [List.map_cons, List.sum_cons]
    have := h a (List.mem_cons_self ..)
    have := ih (fun x hx => h x (List.mem_cons_of_mem _ hx))
    linarith

theorem sum_map_congr_real {β : Type} (l : List β) (f g : β → ℝ) (h : ∀ x ∈ l, f x = g x) :
    (l.map f).sum = (l.map g).sum := by
  rw [List.map_congr_left h]

theorem sum_map_ite_const {β : Type} (l : List β) (P : β → Bool) (c : ℝ) :
    (l.map fun x => if P x then c else 0).sum = (l.countP P : ℝ) * c := by
  induction l with
  | nil => simp
  | cons a l ih =>
    simp only [List.map_cons, List.sum_cons, ih, List.countP_cons]
    cases P a
    · simp
    · simp; ring

theorem sum_map_const_real {β : Type} (l : List β) (c : ℝ) :
    (l.map fun _ => c).sum = (l.length : ℝ) * c := by
  induction l with
  | nil => simp
  | cons a l ih => simp only [List.map_cons, List.sum_cons, ih, List.length_cons]; push_cast; ring

theorem mem_le_sum_real {l : List ℝ} (h0 : ∀ q ∈ l, 0 ≤ q) {q : ℝ} (hq : q ∈ l) : q ≤ l.sum := by
  induction l with
  | nil => simp at hq
  | cons a l ih =>
    simp only [List.sum_cons]
    have ha := h0 a (List.mem_cons_self ..)
    have hl : 0 ≤ l.sum := by
      have := sum_map_nonneg_real l id (fun x hx => h0 x (List.mem_cons_of_mem _ hx))
      simpa using this
    rcases List.mem_cons.1 hq with rfl | hq
    · linarith
    · have := ih (fun x hx => h0 x (List.mem_cons_of_mem _ hx)) hq
      linarith

theorem mem_le_sum_nat {l : List Nat} {m : Nat} (hm : m ∈ l) : m ≤ l.sum := by
  induction l with
  | nil => simp at hm
  | cons a l ih =>
    simp only [List.sum_cons]
    rcases List.mem_cons.1 hm with rfl | hm
    · omega
    · have := ih hm; omega

/-! ### Shannon entropy of a finite distribution -/

/-- `H(q) = − Σ q_i log q_i` (natural logarithm; a zero cell contributes 0). -/
noncomputable def shannon (qs : List ℝ) : ℝ := (qs.map fun q => -(q * Real.log q)).sum

/-- the basic inequality, in the form used everywhere below: `p (log q − log p) ≤ q − p`. -/
theorem gibbs_term {p q : ℝ} (hp : 0 ≤ p) (hq : 0 < q) :
    p * (Real.log q - Real.log p) ≤ q - p := by
  rcases hp.eq_or_lt with rfl | hp
  · simp; exact hq.le
  · have hlog : Real.log (q / p) ≤ q / p - 1 := Real.log_le_sub_one_of_pos (by positivity)
    rw [Real.log_div (ne_of_gt hq) (ne_of_gt hp)] at hlog
    have : p * (q / p - 1) = q - p := by field_simp
    nlinarith [mul_le_mul_of_nonneg_left hlog hp.le]

theorem neg_mul_log_nonneg {q : ℝ} (h0 : 0 ≤ q) (h1 : q ≤ 1) : 0 ≤ -(q * Real.log q) := by
  have := Real.log_nonpos h0 h1
  nlinarith

theorem shannon_nonneg' {qs : List ℝ} (h0 : ∀ q ∈ qs, 0 ≤ q) (h1 : ∀ q ∈ qs, q ≤ 1) : 0 ≤ shannon qs := by
  unfold shannon
  exact sum_map_nonneg_real qs _ (fun q hq => neg_mul_log_nonneg (h0 q hq) (h1 q hq))

/-- **0 ≤ H(q)** for a sub-distribution (`q_i ≥ 0`, `Σ q_i ≤ 1`). -/
theorem shannon_nonneg {qs : List ℝ} (h0 : ∀ q ∈ qs, 0 ≤ q) (hs : qs.sum ≤ 1) : 0 ≤ shannon qs :=
  shannon_nonneg' h0 (fun _ hq => le_trans (mem_le_sum_real h0 hq) hs)

/-- the number of non-zero cells -/
noncomputable def support (qs : List ℝ) : Nat := qs.countP fun q => decide (0 < q)

theorem support_le_length (qs : List ℝ) : support qs ≤ qs.length := List.countP_le_length

theorem sum_le_support {qs : List ℝ} (h0 : ∀ q ∈ qs, 0 ≤ q) (h1 : ∀ q ∈ qs, q ≤ 1) :
    qs.sum ≤ (support qs : ℝ) := by
  have h := sum_le_sum_real qs id (fun q => if decide (0 < q) then (1 : ℝ) else 0) (by
    intro q hq
    by_cases hp : 0 < q
    · simp [hp]; exact h1 q hq
    · simp [hp]; exact le_antisymm (not_lt.1 hp) (h0 q hq) ▸ le_refl _)
  rw [sum_map_ite_const] at h
  simpa [support] using h

theorem support_pos {qs : List ℝ} (h0 : ∀ q ∈ qs, 0 ≤ q) (hs : qs.sum = 1) : 0 < support qs := by
  have h1 : ∀ q ∈ qs, q ≤ 1 := fun _ hq => le_trans (mem_le_sum_real h0 hq) hs.le
  have := sum_le_support h0 h1
  rw [hs] at this
  have : (0 : ℝ) < (support qs : ℝ) := by linarith
  exact_mod_cast this

/-- **H(q) ≤ log #{non-zero cells}** for a distribution (`q_i ≥ 0`, `Σ q_i = 1`): Gibbs' inequality against
    the uniform distribution on the support. -/
theorem shannon_le_log_support {qs : List ℝ} (h0 : ∀ q ∈ qs, 0 ≤ q) (hs : qs.sum = 1) :
    shannon qs ≤ Real.log (support qs) := by
  have hm : 0 < support qs := support_pos h0 hs
  have hm' : (0 : ℝ) < (support qs : ℝ) := by exact_mod_cast hm
  set m : ℝ := (support qs : ℝ) with hmdef
  have hterm : (qs.map fun q => -(q * Real.log q)).sum ≤
      (qs.map fun q => q * Real.log m + ((if decide (0 < q) then 1 / m else 0) - q)).sum := by
    apply sum_le_sum_real
    intro q hq
    by_cases hp : 0 < q
    · have := gibbs_term (p := q) (q := 1 / m) hp.le (by positivity)
      rw [Real.log_div one_ne_zero (ne_of_gt hm'), Real.log_one] at this
      simp only [hp, decide_true, if_true]
      linarith
    · have : q = 0 := le_antisymm (not_lt.1 hp) (h0 q hq)
      subst this; simp
  rw [sum_map_add_real, sum_map_sub_real, sum_map_mul_right_real, sum_map_ite_const] at hterm
  simp only [List.map_id'] at hterm
  rw [hs] at hterm
  have : (qs.countP fun q => decide (0 < q) : ℝ) * (1 / m) = 1 := by
    show (support qs : ℝ) * (1 / m) = 1
    rw [← hmdef]; field_simp
  unfold shannon
  linarith

/-- **H(q) ≤ log #{cells}**. -/
theorem shannon_le_log_length {qs : List ℝ} (h0 : ∀ q ∈ qs, 0 ≤ q) (hs : qs.sum = 1) :
    shannon qs ≤ Real.log qs.length := by
  refine le_trans (shannon_le_log_support h0 hs) ?_
  have hm : 0 < support qs := support_pos h0 hs
  apply Real.log_le_log (by exact_mod_cast hm)
  exact_mod_cast support_le_length qs

theorem shannon_zeros {β : Type} (l : List β) : shannon (l.map fun _ => (0 : ℝ)) = 0 := by
  unfold shannon
  induction l with
  | nil => simp
  | cons a l ih => simp only [List.map_cons, List.sum_cons, ih]; simp

/-- normalising a non-negative vector with positive sum gives a distribution -/
theorem normalised_sum {pk : List ℝ} (hs : 0 < pk.sum) : (pk.map (· / pk.sum)).sum = 1 := by
  have : (pk.map (· / pk.sum)) = pk.map fun p => p * (1 / pk.sum) := by
    apply List.map_congr_left; intro p _; ring
  rw [this, sum_map_mul_right_real pk (1 / pk.sum) (fun p => p), List.map_id']
  field_simp

/-! ### beat: `_get_entropy` and `information_gain` at the real interpretation -/
section BeatIG
open Mir.Beat

theorem foldl_add_nat (l : List Nat) (init : Nat) : l.foldl (fun a b => a + b) init = init + l.sum := by
  induction l generalizing init with
  | nil => simp
  | cons a l ih => simp only [List.foldl_cons, ih, List.sum_cons]; omega

theorem foldl_add_real {β : Type} (g : β → ℝ) (l : List β) (init : ℝ) :
    l.foldl (fun acc b => acc + g b) init = init + (l.map g).sum := by
  induction l generalizing init with
  | nil => simp
  | cons a l ih => simp only [List.foldl_cons, ih, List.map_cons, List.sum_cons]; ring

/-- the normalised histogram `raw_bin_values / np.sum(raw_bin_values)` -/
noncomputable def histDist (counts : List Nat) : List ℝ :=
  counts.map fun c : Nat => (c : ℝ) / (counts.sum : ℝ)

theorem histDist_nonneg (counts : List Nat) : ∀ q ∈ histDist counts, 0 ≤ q := by
  intro q hq
  obtain ⟨c, _, rfl⟩ := List.mem_map.1 hq
  positivity

theorem histDist_sum {counts : List Nat} (h : counts.sum ≠ 0) : (histDist counts).sum = 1 := by
  unfold histDist
  have := sum_cast_div counts (fun c => c) (counts.sum : ℝ)
  rw [List.map_id'] at this
  rw [this]
  have : (counts.sum : ℝ) ≠ 0 := by exact_mod_cast h
  field_simp

theorem histDist_length (counts : List Nat) : (histDist counts).length = counts.length := by
  simp [histDist]

theorem histDist_support {counts : List Nat} (h : counts.sum ≠ 0) :
    support (histDist counts) = counts.countP fun c => decide (c ≠ 0) := by
  unfold support histDist
  rw [List.countP_map]
  apply List.countP_congr
  intro c _
  have hT : (0 : ℝ) < (counts.sum : ℝ) := by
    have : 0 < counts.sum := Nat.pos_of_ne_zero h
    exact_mod_cast this
  simp only [Function.comp_def, decide_eq_true_eq]
  constructor
  · intro hc e
    subst e
    simp at hc
  · intro hc
    have : (0 : ℝ) < (c : ℝ) := by
      have : 0 < c := Nat.pos_of_ne_zero hc
      exact_mod_cast this
    positivity

/-- `_get_entropy` after the histogram, over ℝ: the entropy in bits of the normalised histogram (the code's
    "zero bins are replaced by 1 before the log" contributes `1 · log2 1 = 0 = 0 · log 0`); `none` (nan) for an
    empty histogram. -/
theorem entropyOfCounts_real (counts : List Nat) :
    entropyOfCounts realOps counts =
      if counts.sum = 0 then none else some (shannon (histDist counts) / Real.log 2) := by
  unfold entropyOfCounts
  simp only [foldl_add_nat, Nat.zero_add]
  split
  · rfl
  · rename_i hT
    congr 1
    have hfold := foldl_add_real (fun c : Nat =>
      (if c = 0 then (1 : ℝ) else (c : ℝ) / (counts.sum : ℝ)) *
        Real.logb 2 (if c = 0 then (1 : ℝ) else (c : ℝ) / (counts.sum : ℝ))) counts 0
    have hterm : (counts.map fun c : Nat =>
        (if c = 0 then (1 : ℝ) else (c : ℝ) / (counts.sum : ℝ)) *
          Real.logb 2 (if c = 0 then (1 : ℝ) else (c : ℝ) / (counts.sum : ℝ))).sum =
        (counts.map fun c : Nat =>
          (((c : ℝ) / (counts.sum : ℝ)) * Real.log ((c : ℝ) / (counts.sum : ℝ))) * (1 / Real.log 2)).sum := by
      apply sum_map_congr_real
      intro c _
      by_cases hc : c = 0
      · simp [hc]
      · simp only [hc, if_false, Real.logb]; ring
    rw [sum_map_mul_right_real] at hterm
    simp only [realOps, Rat.cast_zero, Rat.cast_one, Rat.cast_natCast]
    rw [hfold, hterm]
    unfold shannon histDist
    rw [List.map_map]
    simp only [Function.comp_def]
    rw [sum_map_neg_real]
    ring

/-- **Entropy of the beat-error histogram:** `0 ≤ H ≤ log2 #{non-empty bins} ≤ log2 #{bins}`. -/
theorem entropyOfCounts_bounds {counts : List Nat} {h : ℝ} (he : entropyOfCounts realOps counts = some h) :
    0 ≤ h ∧ h ≤ Real.logb 2 (counts.countP fun c => decide (c ≠ 0)) ∧ h ≤ Real.logb 2 counts.length := by
  rw [entropyOfCounts_real] at he
  split at he
  · cases he
  · rename_i hT
    simp only [Option.some.injEq] at he
    subst he
    have hlog2 : (0 : ℝ) < Real.log 2 := Real.log_pos (by norm_num)
    have h0 := histDist_nonneg counts
    have hs := histDist_sum hT
    refine ⟨div_nonneg (shannon_nonneg h0 hs.le) hlog2.le, ?_, ?_⟩
    · unfold Real.logb
      rw [← histDist_support hT]
      exact div_le_div_of_nonneg_right (shannon_le_log_support h0 hs) hlog2.le
    · unfold Real.logb
      rw [← histDist_length counts]
      exact div_le_div_of_nonneg_right (shannon_le_log_length h0 hs) hlog2.le

theorem histogram_length (bins : Nat) (vals : List Rat) : (histogram bins vals).length = bins := by
  simp [histogram]

/-- the last step of `information_gain`: `(norm − max-ish(f, b)) / norm` with `norm = log2 bins > 0` is in
    [0, 1] when both entropies (where defined) are in `[0, norm]`. -/
theorem infoGainOf_range {bins : Nat} (hb : 2 ≤ bins) {f b : Option ℝ} {x : ℝ}
    (hf : ∀ v, f = some v → 0 ≤ v ∧ v ≤ Real.logb 2 bins)
    (hbk : ∀ v, b = some v → 0 ≤ v ∧ v ≤ Real.logb 2 bins)
    (hx : infoGainOf realOps bins f b = some x) : 0 ≤ x ∧ x ≤ 1 := by
  have hnorm : (0 : ℝ) < Real.logb 2 bins := by
    apply Real.logb_pos (by norm_num)
    have : (2 : ℝ) ≤ (bins : ℝ) := by exact_mod_cast hb
    linarith
  have key : ∀ v : ℝ, 0 ≤ v → v ≤ Real.logb 2 bins →
      0 ≤ (Real.logb 2 bins - v) / Real.logb 2 bins ∧ (Real.logb 2 bins - v) / Real.logb 2 bins ≤ 1 := by
    intro v h0 h1
    refine ⟨div_nonneg (by linarith) hnorm.le, ?_⟩
    rw [div_le_one hnorm]; linarith
  unfold infoGainOf at hx
  simp only [realOps, Rat.cast_natCast] at hx
  rcases f with _ | fv <;> rcases b with _ | bv
  · simp at hx
  · simp only [Option.map_some, Option.some.injEq] at hx
    subst hx
    exact key bv (hbk bv rfl).1 (hbk bv rfl).2
  · simp at hx
  · by_cases hlt : bv < fv
    · simp only [hlt, decide_true, if_true, Option.map_some, Option.some.injEq] at hx
      subst hx
      exact key fv (hf fv rfl).1 (hf fv rfl).2
    · simp only [hlt, decide_false, Bool.false_eq_true, if_false, Option.map_some, Option.some.injEq] at hx
      subst hx
      exact key bv (hbk bv rfl).1 (hbk bv rfl).2

theorem getEntropy_bounds {ref est : List Rat} {bins : Nat} {r : Option ℝ × Bool}
    (h : getEntropy realOps ref est bins = .ok r) :
    ∀ v, r.1 = some v → 0 ≤ v ∧ v ≤ Real.logb 2 bins := by
  unfold getEntropy at h
  rw [bind_ok_iff] at h
  obtain ⟨vals, _, h2⟩ := h
  simp only [pure, Except.pure, Except.ok.injEq] at h2
  subst h2
  intro v hv
  have := entropyOfCounts_bounds hv
  rw [histogram_length] at this
  exact ⟨this.1, this.2.2⟩

end BeatIG

/-! ### a joint table of counts: mutual information, conditional entropy, chain rule -/
section JointTable
open Mir.Segment (miCell miCell_textbook miCell_ge miCell_comm)
variable {β γ : Type}

/-- A table of counts `n x y` (`x ∈ as`, `y ∈ bs`) with positive marginals `a` (rows), `b` (columns), total `N`. -/
structure Joint (as : List β) (bs : List γ) (n : β → γ → Nat) (a : β → Nat) (b : γ → Nat) (N : Nat) : Prop where
  hN : 0 < N
  ha : ∀ x ∈ as, 0 < a x
  hb : ∀ y ∈ bs, 0 < b y
  row : ∀ x ∈ as, (bs.map (n x)).sum = a x
  col : ∀ y ∈ bs, (as.map fun x => n x y).sum = b y
  sumA : (as.map a).sum = N
  sumB : (bs.map b).sum = N

/-- `Σ_xy p_xy log(p_xy / (p_x p_y))`, each cell arranged as `_mutual_info_score` arranges it -/
noncomputable def jMI (as : List β) (bs : List γ) (n : β → γ → Nat) (a : β → Nat) (b : γ → Nat) (N : Nat) : ℝ :=
  (as.map fun x => (bs.map fun y => miCell (N : ℝ) N N (n x y) (a x) (b y)).sum).sum

/-- `H(column variable | row variable) = − Σ_xy p_xy log(p_xy / p_x)` -/
noncomputable def jHcond (as : List β) (bs : List γ) (n : β → γ → Nat) (a : β → Nat) (N : Nat) : ℝ :=
  (as.map fun x => (bs.map fun y => -(((n x y : ℝ) / N) * Real.log ((n x y : ℝ) / (a x : ℝ)))).sum).sum

/-- a marginal distribution `a x / N` -/
noncomputable def margDist (as : List β) (a : β → Nat) (N : Nat) : List ℝ := as.map fun x => (a x : ℝ) / (N : ℝ)

variable {as : List β} {bs : List γ} {n : β → γ → Nat} {a : β → Nat} {b : γ → Nat} {N : Nat}

theorem Joint.transpose (J : Joint as bs n a b N) : Joint bs as (fun y x => n x y) b a N :=
  ⟨J.hN, J.hb, J.ha, J.col, J.row, J.sumB, J.sumA⟩

theorem jMI_transpose (as : List β) (bs : List γ) (n : β → γ → Nat) (a : β → Nat) (b : γ → Nat) (N : Nat) :
    jMI bs as (fun y x => n x y) b a N = jMI as bs n a b N := by
  unfold jMI
  rw [sum_sum_comm]
  apply sum_map_congr_real
  intro x _
  apply sum_map_congr_real
  intro y _
  exact miCell_comm _ _ _ _

theorem margDist_nonneg (as : List β) (a : β → Nat) (N : Nat) : ∀ q ∈ margDist as a N, 0 ≤ q := by
  intro q hq
  obtain ⟨c, _, rfl⟩ := List.mem_map.1 hq
  positivity

theorem margDist_sum {as : List β} {a : β → Nat} {N : Nat} (hN : 0 < N) (hs : (as.map a).sum = N) :
    (margDist as a N).sum = 1 := by
  unfold margDist
  rw [sum_cast_div, hs]
  have : (N : ℝ) ≠ 0 := by exact_mod_cast (ne_of_gt hN)
  field_simp

theorem margDist_length (as : List β) (a : β → Nat) (N : Nat) : (margDist as a N).length = as.length := by
  simp [margDist]

theorem Joint.cell_le_row (J : Joint as bs n a b N) {x : β} (hx : x ∈ as) {y : γ} (hy : y ∈ bs) :
    n x y ≤ a x := by
  rw [← J.row x hx]
  exact mem_le_sum_nat (List.mem_map.2 ⟨y, hy, rfl⟩)

/-- the total of the table is 1 -/
theorem Joint.sum_cells (J : Joint as bs n a b N) :
    (as.map fun x => (bs.map fun y => (n x y : ℝ) / (N : ℝ)).sum).sum = 1 := by
  have : (as.map fun x => (bs.map fun y => (n x y : ℝ) / (N : ℝ)).sum) = as.map fun x => (a x : ℝ) / (N : ℝ) := by
    apply List.map_congr_left
    intro x hx
    rw [sum_cast_div, J.row x hx]
  rw [this]
  exact margDist_sum J.hN J.sumA

theorem Joint.sum_products (J : Joint as bs n a b N) :
    (as.map fun x => (bs.map fun y => ((a x : ℝ) / N) * ((b y : ℝ) / N)).sum).sum = 1 := by
  have hb1 : (bs.map fun y => (b y : ℝ) / (N : ℝ)).sum = 1 := margDist_sum J.hN J.sumB
  have : (as.map fun x => (bs.map fun y => ((a x : ℝ) / N) * ((b y : ℝ) / N)).sum) =
      as.map fun x => (a x : ℝ) / (N : ℝ) := by
    apply List.map_congr_left
    intro x _
    rw [sum_map_mul_left_real, hb1, mul_one]
  rw [this]
  exact margDist_sum J.hN J.sumA

/-- **MI ≥ 0** (Gibbs). -/
theorem Joint.mi_nonneg (J : Joint as bs n a b N) : 0 ≤ jMI as bs n a b N := by
  have hterm : (as.map fun x => (bs.map fun y => (n x y : ℝ) / (N : ℝ)).sum).sum ≤
      (as.map fun x => (bs.map fun y =>
        miCell (N : ℝ) N N (n x y) (a x) (b y) + ((a x : ℝ) / N) * ((b y : ℝ) / N)).sum).sum := by
    apply sum_le_sum_real
    intro x hx
    apply sum_le_sum_real
    intro y hy
    exact miCell_ge J.hN (J.ha x hx) (J.hb y hy)
  have hsplit : (as.map fun x => (bs.map fun y =>
        miCell (N : ℝ) N N (n x y) (a x) (b y) + ((a x : ℝ) / N) * ((b y : ℝ) / N)).sum).sum =
      jMI as bs n a b N + 1 := by
    rw [← J.sum_products]
    unfold jMI
    rw [← sum_map_add_real]
    apply sum_map_congr_real
    intro x _
    exact sum_map_add_real _ _ _
  rw [J.sum_cells, hsplit] at hterm
  linarith

/-- one cell of the chain rule -/
theorem chain_cell {N n a b : Nat} (hN : 0 < N) (ha : 0 < a) (hb : 0 < b) :
    -(((n : ℝ) / N) * Real.log ((n : ℝ) / (a : ℝ))) + miCell (N : ℝ) N N n a b =
      -(((n : ℝ) / N) * Real.log ((b : ℝ) / (N : ℝ))) := by
  rw [miCell_textbook hN ha hb]
  rcases Nat.eq_zero_or_pos n with hn | hn
  · subst hn; simp
  · have hN' : (N : ℝ) ≠ 0 := by exact_mod_cast (ne_of_gt hN)
    have ha' : (a : ℝ) ≠ 0 := by exact_mod_cast (ne_of_gt ha)
    have hb' : (b : ℝ) ≠ 0 := by exact_mod_cast (ne_of_gt hb)
    have hn' : (n : ℝ) ≠ 0 := by exact_mod_cast (ne_of_gt hn)
    rw [Real.log_div (div_ne_zero hn' hN') (mul_ne_zero (div_ne_zero ha' hN') (div_ne_zero hb' hN')),
      Real.log_div hn' hN', Real.log_mul (div_ne_zero ha' hN') (div_ne_zero hb' hN'),
      Real.log_div ha' hN', Real.log_div hb' hN', Real.log_div hn' ha']
    ring

/-- **chain rule:** `H(col | row) + MI = H(col)`. -/
theorem Joint.chain (J : Joint as bs n a b N) :
    jHcond as bs n a N + jMI as bs n a b N = shannon (margDist bs b N) := by
  unfold jHcond jMI
  rw [← sum_map_add_real]
  have h1 : (as.map fun x =>
      (bs.map fun y => -(((n x y : ℝ) / N) * Real.log ((n x y : ℝ) / (a x : ℝ)))).sum +
      (bs.map fun y => miCell (N : ℝ) N N (n x y) (a x) (b y)).sum).sum =
      (as.map fun x => (bs.map fun y => ((n x y : ℝ) / N) * (-Real.log ((b y : ℝ) / (N : ℝ)))).sum).sum := by
    apply sum_map_congr_real
    intro x hx
    rw [← sum_map_add_real]
    apply sum_map_congr_real
    intro y hy
    rw [chain_cell J.hN (J.ha x hx) (J.hb y hy)]
    ring
  rw [h1, sum_sum_comm]
  unfold shannon margDist
  rw [List.map_map]
  apply sum_map_congr_real
  intro y hy
  rw [sum_map_mul_right_real, sum_cast_div, J.col y hy]
  simp only [Function.comp_def]
  ring

theorem Joint.hcond_nonneg (J : Joint as bs n a b N) : 0 ≤ jHcond as bs n a N := by
  unfold jHcond
  apply sum_map_nonneg_real
  intro x hx
  apply sum_map_nonneg_real
  intro y hy
  have hle : (n x y : ℝ) ≤ (a x : ℝ) := by exact_mod_cast J.cell_le_row hx hy
  have ha' : (0 : ℝ) < (a x : ℝ) := by exact_mod_cast J.ha x hx
  have h1 : (n x y : ℝ) / (a x : ℝ) ≤ 1 := (div_le_one ha').2 hle
  have h0 : (0 : ℝ) ≤ (n x y : ℝ) / (a x : ℝ) := by positivity
  have hlog := Real.log_nonpos h0 h1
  have hp : (0 : ℝ) ≤ (n x y : ℝ) / (N : ℝ) := by positivity
  nlinarith

/-- **MI ≤ H(col)**. -/
theorem Joint.mi_le_col (J : Joint as bs n a b N) : jMI as bs n a b N ≤ shannon (margDist bs b N) := by
  have := J.chain
  have := J.hcond_nonneg
  linarith

/-- **MI ≤ H(row)**. -/
theorem Joint.mi_le_row (J : Joint as bs n a b N) : jMI as bs n a b N ≤ shannon (margDist as a N) := by
  have := J.transpose.mi_le_col
  rwa [jMI_transpose] at this

/-- **H(col | row) ≤ H(col)**. -/
theorem Joint.hcond_le_col (J : Joint as bs n a b N) : jHcond as bs n a N ≤ shannon (margDist bs b N) := by
  have := J.chain
  have := J.mi_nonneg
  linarith

/-- the conditional entropy as the `p_x`-weighted mean of the entropies of the normalised rows -/
theorem Joint.hcond_eq_weighted (J : Joint as bs n a b N) :
    jHcond as bs n a N =
      (as.map fun x => ((a x : ℝ) / N) * shannon (bs.map fun y => (n x y : ℝ) / (a x : ℝ))).sum := by
  unfold jHcond shannon
  apply sum_map_congr_real
  intro x hx
  rw [List.map_map, ← sum_map_mul_left_real]
  apply sum_map_congr_real
  intro y _
  have ha' : (a x : ℝ) ≠ 0 := by exact_mod_cast (ne_of_gt (J.ha x hx))
  simp only [Function.comp_def]
  field_simp

theorem Joint.row_dist (J : Joint as bs n a b N) {x : β} (hx : x ∈ as) :
    (∀ q ∈ (bs.map fun y => (n x y : ℝ) / (a x : ℝ)), 0 ≤ q) ∧
      (bs.map fun y => (n x y : ℝ) / (a x : ℝ)).sum = 1 := by
  constructor
  · intro q hq
    obtain ⟨c, _, rfl⟩ := List.mem_map.1 hq
    positivity
  · rw [sum_cast_div, J.row x hx]
    have ha' : (a x : ℝ) ≠ 0 := by exact_mod_cast (ne_of_gt (J.ha x hx))
    field_simp

/-- **H(col | row) ≤ log #cols**. -/
theorem Joint.hcond_le_log (J : Joint as bs n a b N) : jHcond as bs n a N ≤ Real.log bs.length := by
  rw [J.hcond_eq_weighted]
  have h1 : (as.map fun x => ((a x : ℝ) / N) * shannon (bs.map fun y => (n x y : ℝ) / (a x : ℝ))).sum ≤
      (as.map fun x => ((a x : ℝ) / N) * Real.log bs.length).sum := by
    apply sum_le_sum_real
    intro x hx
    apply mul_le_mul_of_nonneg_left _ (by positivity)
    have := shannon_le_log_length (J.row_dist hx).1 (J.row_dist hx).2
    simpa using this
  rw [sum_map_mul_right_real] at h1
  have : (as.map fun x => (a x : ℝ) / (N : ℝ)).sum = 1 := margDist_sum J.hN J.sumA
  rw [this, one_mul] at h1
  exact h1

end JointTable

/-! ### segment: `_entropy`, `_mutual_info_score`, NMI, NCE / V-measure at the real interpretation -/
section SegmentEntropy
open Mir.Segment

/-- one cell of the contingency table -/
def cell (yr ye : List Nat) (x y : Nat) : Nat := (yr.zip ye).countP fun p => p.1 == x && p.2 == y

theorem contingency_eq (yr ye : List Nat) :
    contingency yr ye = (classes yr).map fun x => (classes ye).map (cell yr ye x) := rfl

theorem classes_nil : classes [] = [] := rfl

theorem classes_ne_nil {y : List Nat} (hy : y ≠ []) : classes y ≠ [] := by
  cases y with
  | nil => exact absurd rfl hy
  | cons a y =>
    intro h
    have : a ∈ classes (a :: y) := mem_classes.2 (List.mem_cons_self ..)
    rw [h] at this
    simp at this

/-- the contingency table of two frame-label sequences of equal positive length is a joint table -/
theorem joint_of_labels {yr ye : List Nat} (h : yr.length = ye.length) (hne : yr ≠ []) :
    Joint (classes yr) (classes ye) (cell yr ye) (fun x => yr.count x) (fun y => ye.count y) yr.length where
  hN := List.length_pos_iff.2 hne
  ha := fun x hx => List.count_pos_iff.2 (mem_classes.1 hx)
  hb := fun y hy => List.count_pos_iff.2 (mem_classes.1 hy)
  row := by
    intro x _
    rw [← count_zip_fst h x]
    symm
    apply countP_eq_sum_countP_key _ _ _ Prod.snd (nodup_classes ye)
    intro p hp
    exact mem_classes.2 (List.of_mem_zip (a := p.1) (b := p.2) hp).2
  col := by
    intro y _
    rw [← count_zip_snd h y]
    symm
    have := countP_eq_sum_countP_key (yr.zip ye) (classes yr) (fun p => p.2 == y) Prod.fst (nodup_classes yr)
      (by intro p hp; exact mem_classes.2 (List.of_mem_zip (a := p.1) (b := p.2) hp).1)
    rw [this]
    congr 1
    apply List.map_congr_left
    intro a _
    apply List.countP_congr
    intro p _
    simp [Bool.and_comm]
  sumA := classCounts_sum yr
  sumB := by rw [h]; exact classCounts_sum ye

theorem miSum_eq_jMI (yr ye : List Nat) :
    miSum yr ye =
      jMI (classes yr) (classes ye) (cell yr ye) (fun x => yr.count x) (fun y => ye.count y) yr.length := rfl

/-- the entropy (nats) of a non-empty label sequence, as a Shannon entropy -/
noncomputable def labelEntropy (y : List Nat) : ℝ := shannon (margDist (classes y) (fun c => y.count c) y.length)

/-- `_entropy(labels)` over ℝ for a non-empty sequence. -/
theorem entropyIdx_real {y : List Nat} (hy : y ≠ []) : entropyIdx (α := ℝ) y = labelEntropy y := by
  have hN : 0 < y.length := List.length_pos_iff.2 hy
  have hN' : (y.length : ℝ) ≠ 0 := by exact_mod_cast (ne_of_gt hN)
  have hs : ((classes y).map fun c => y.count c).sum = y.length := classCounts_sum y
  unfold entropyIdx
  simp only [ne_of_gt hN, if_false]
  rw [hs, tsum_real, List.map_map]
  unfold labelEntropy shannon margDist
  rw [List.map_map]
  show -(_ : ℝ) = _
  rw [← sum_map_neg_real]
  apply sum_map_congr_real
  intro c hc
  have hc' : (y.count c : ℝ) ≠ 0 := by
    have : 0 < y.count c := List.count_pos_iff.2 (mem_classes.1 hc)
    exact_mod_cast (ne_of_gt this)
  simp only [Function.comp_def, Transc.ofNat, Transc.log]
  rw [Real.log_div hc' hN']

/-- `_entropy([])` is 1.0 (the code's convention). -/
theorem entropyIdx_real_nil : entropyIdx (α := ℝ) [] = 1 := by
  simp [entropyIdx, Transc.ofNat]

theorem labelEntropy_nonneg {y : List Nat} (hy : y ≠ []) : 0 ≤ labelEntropy y :=
  shannon_nonneg (margDist_nonneg _ _ _)
    (margDist_sum (List.length_pos_iff.2 hy) (classCounts_sum y)).le

theorem labelEntropy_le_log {y : List Nat} (hy : y ≠ []) : labelEntropy y ≤ Real.log (classes y).length := by
  have := shannon_le_log_length (margDist_nonneg (classes y) (fun c => y.count c) y.length)
    (margDist_sum (List.length_pos_iff.2 hy) (classCounts_sum y))
  rwa [margDist_length] at this

theorem pyMax_real (a b : ℝ) : pyMax a b = max a b := by
  unfold pyMax
  simp only [Transc.lt, decide_eq_true_eq]
  by_cases h : a < b
  · rw [if_pos h, max_eq_right h.le]
  · rw [if_neg h, max_eq_left (not_lt.1 h)]

/-- **0 ≤ MI ≤ min(H(ref), H(est))** for the model's `_mutual_info_score` and `_entropy`. -/
theorem mutualInfoIdx_bounds {yr ye : List Nat} (h : yr.length = ye.length) (hne : yr ≠ []) :
    0 ≤ mutualInfoIdx (α := ℝ) yr ye ∧
    mutualInfoIdx (α := ℝ) yr ye ≤ entropyIdx (α := ℝ) yr ∧
    mutualInfoIdx (α := ℝ) yr ye ≤ entropyIdx (α := ℝ) ye := by
  have hne' : ye ≠ [] := by
    intro e; subst e
    exact hne (List.eq_nil_of_length_eq_zero h)
  have J := joint_of_labels h hne
  rw [mutualInfoIdx_real h, miSum_eq_jMI, entropyIdx_real hne, entropyIdx_real hne']
  refine ⟨J.mi_nonneg, J.mi_le_row, ?_⟩
  have := J.mi_le_col
  unfold labelEntropy
  rwa [← h]

theorem special_of_nil {yr ye : List Nat} (h : yr.length = ye.length) (hnil : yr = []) :
    ((classes yr).length = 1 ∧ (classes ye).length = 1) ∨ ((classes yr).length = 0 ∧ (classes ye).length = 0) := by
  subst hnil
  have : ye = [] := List.eq_nil_of_length_eq_zero h.symm
  subst this
  right; exact ⟨rfl, rfl⟩

/-- **NMI ∈ [0, 1]** — `_normalized_mutual_info_score` at ℝ, all branches (special cases return 1; the
    `max(√(H·H'), 1e-10)` floor only makes the quotient smaller). -/
theorem nmiIdx_range {yr ye : List Nat} (h : yr.length = ye.length) :
    0 ≤ (nmiIdx (α := ℝ) yr ye).1 ∧ (nmiIdx (α := ℝ) yr ye).1 ≤ 1 := by
  unfold nmiIdx
  simp only
  split
  · simp [Transc.ofNat]
  · rename_i hsp
    have hne : yr ≠ [] := fun e => hsp (special_of_nil h e)
    obtain ⟨h0, h1, h2⟩ := mutualInfoIdx_bounds h hne
    simp only
    rw [pyMax_real]
    simp only [Transc.sqrt, Transc.ofRat]
    set mi := mutualInfoIdx (α := ℝ) yr ye
    set Hr := entropyIdx (α := ℝ) yr
    set He := entropyIdx (α := ℝ) ye
    have hfloor : (0 : ℝ) < ((1 / 10000000000 : ℚ) : ℝ) := by norm_num
    have hden : 0 < max (Real.sqrt (Hr * He)) ((1 / 10000000000 : ℚ) : ℝ) := lt_max_of_lt_right hfloor
    have hle : mi ≤ Real.sqrt (Hr * He) := by
      apply Real.le_sqrt_of_sq_le
      nlinarith
    refine ⟨div_nonneg h0 hden.le, ?_⟩
    rw [div_le_one hden]
    exact le_trans hle (le_max_left _ _)

/-- AMI ≤ 1 whenever its denominator `max(H, H') − EMI` is positive. -/
theorem amiIdx_le_one_of_den_pos {yr ye : List Nat} (h : yr.length = ye.length)
    (hd : 0 < (amiIdx (α := ℝ) yr ye).2.2) : (amiIdx (α := ℝ) yr ye).1 ≤ 1 := by
  unfold amiIdx at hd ⊢
  simp only at hd ⊢
  split
  · simp [Transc.ofNat]
  · rename_i hsp
    rw [if_neg hsp] at hd
    have hne : yr ≠ [] := fun e => hsp (special_of_nil h e)
    obtain ⟨_, h1, _⟩ := mutualInfoIdx_bounds h hne
    have hmi : mutualInfoTab (α := ℝ) (contingency yr ye) (rowSums (contingency yr ye))
        (colSums (contingency yr ye) (classes ye).length) = mutualInfoIdx (α := ℝ) yr ye := rfl
    simp only at hd ⊢
    rw [hmi]
    rw [pyMax_real] at hd ⊢
    rw [div_le_one hd]
    have := le_max_left (entropyIdx (α := ℝ) yr) (entropyIdx (α := ℝ) ye)
    linarith

/-! #### NCE / V-measure -/

theorem entr_real {q : ℝ} (hq : 0 ≤ q) : entr q = -(q * Real.log q) := by
  unfold entr
  simp only [Transc.lt, Transc.ofNat, Transc.log, Nat.cast_zero, decide_eq_true_eq]
  rcases hq.eq_or_lt with rfl | hq
  · simp
  · rw [if_pos hq]; ring

theorem list_sum_nonneg {pk : List ℝ} (h0 : ∀ p ∈ pk, 0 ≤ p) : 0 ≤ pk.sum := by
  have := sum_map_nonneg_real pk (fun p => p) h0
  rwa [List.map_id'] at this

/-- `scipy.stats.entropy(pk, base=2)` of a non-negative vector: Shannon entropy of the normalised vector, in bits. -/
theorem statsEntropy2_real {pk : List ℝ} (h0 : ∀ p ∈ pk, 0 ≤ p) :
    statsEntropy2 pk = shannon (pk.map (· / pk.sum)) / Real.log 2 := by
  unfold statsEntropy2
  simp only [tsum_real, Transc.log, Transc.ofNat, Nat.cast_ofNat]
  congr 1
  unfold shannon
  rw [List.map_map]
  apply sum_map_congr_real
  intro p hp
  simp only [Function.comp_def]
  exact entr_real (div_nonneg (h0 p hp) (list_sum_nonneg h0))

theorem columns_map_map {β γ : Type} (as : List β) (bs : List γ) (F : β → γ → ℝ) :
    columns (as.map fun x => bs.map (F x)) bs.length = bs.map fun y => as.map fun x => F x y := by
  unfold columns
  induction as with
  | nil => simp
  | cons a as ih =>
    simp only [List.map_cons, List.foldr_cons, ih]
    exact zipWith_map_same _ _ _ _

/-- the body of `segment.nce` after the normalised contingency table `p` (`kr` rows, `ke` columns) -/
noncomputable def nceBody (p : List (List ℝ)) (kr ke : Nat) (beta : ℝ) (marginal : Bool) : ℝ × ℝ × ℝ :=
  let cols := columns p ke
  let pEst : List ℝ := cols.map Segment.tsum
  let pRef : List ℝ := p.map Segment.tsum
  let trueGivenEst : ℝ := Segment.tsum (List.zipWith (· * ·) pEst (cols.map statsEntropy2))
  let predGivenRef : ℝ := Segment.tsum (List.zipWith (· * ·) pRef (p.map statsEntropy2))
  let zRef : ℝ := if marginal then statsEntropy2 pRef else Transc.log (Transc.ofNat kr) / Transc.log (Transc.ofNat 2)
  let zEst : ℝ := if marginal then statsEntropy2 pEst else Transc.log (Transc.ofNat ke) / Transc.log (Transc.ofNat 2)
  let under : ℝ := if Transc.lt (Transc.ofNat 0) zRef then Transc.ofNat 1 - trueGivenEst / zRef else Transc.ofNat 0
  let over : ℝ := if Transc.lt (Transc.ofNat 0) zEst then Transc.ofNat 1 - predGivenRef / zEst else Transc.ofNat 0
  (over, under, fMeasureT over under beta)

theorem nceIdx_eq_body (yr ye : List Nat) (beta : ℝ) (marginal : Bool) :
    nceIdx (α := ℝ) yr ye beta marginal =
      nceBody ((classes yr).map fun x => (classes ye).map fun y => (cell yr ye x y : ℝ) / (yr.length : ℝ))
        (classes yr).length (classes ye).length beta marginal := by
  have hp : (contingency yr ye).map (·.map fun nij => (Transc.ofNat nij : ℝ) / Transc.ofNat yr.length) =
      (classes yr).map fun x => (classes ye).map fun y => (cell yr ye x y : ℝ) / (yr.length : ℝ) := by
    rw [contingency_eq, List.map_map]
    apply List.map_congr_left
    intro x _
    simp only [Function.comp_def, List.map_map, Transc.ofNat]
  have hk : (contingency yr ye).length = (classes yr).length := by simp [contingency]
  unfold nceIdx nceBody
  simp only [hp, hk]

variable {β γ : Type} {as : List β} {bs : List γ} {n : β → γ → Nat} {a : β → Nat} {b : γ → Nat} {N : Nat}

/-- the normalised table -/
noncomputable def pTable (as : List β) (bs : List γ) (n : β → γ → Nat) (N : Nat) : List (List ℝ) :=
  as.map fun x => bs.map fun y => (n x y : ℝ) / (N : ℝ)

theorem Joint.pTable_rowSums (J : Joint as bs n a b N) : (pTable as bs n N).map Segment.tsum = margDist as a N := by
  unfold pTable margDist
  rw [List.map_map]
  apply List.map_congr_left
  intro x hx
  simp only [Function.comp_def, tsum_real]
  rw [sum_cast_div, J.row x hx]

theorem pTable_columns (as : List β) (bs : List γ) (n : β → γ → Nat) (N : Nat) :
    columns (pTable as bs n N) bs.length = pTable bs as (fun y x => n x y) N := by
  unfold pTable
  exact columns_map_map as bs (fun x y => (n x y : ℝ) / (N : ℝ))

/-- `p_ref.dot(entropy(contingency.T, base=2))` is `H(col | row)` in bits -/
theorem Joint.weighted_rows (J : Joint as bs n a b N) :
    Segment.tsum (List.zipWith (· * ·) ((pTable as bs n N).map Segment.tsum) ((pTable as bs n N).map statsEntropy2)) =
      jHcond as bs n a N / Real.log 2 := by
  have hN' : (N : ℝ) ≠ 0 := by exact_mod_cast (ne_of_gt J.hN)
  rw [tsum_real, J.hcond_eq_weighted, J.pTable_rowSums]
  unfold pTable margDist
  rw [List.map_map, zipWith_map_same, div_eq_mul_inv, ← sum_map_mul_right_real]
  apply sum_map_congr_real
  intro x hx
  have ha' : (a x : ℝ) ≠ 0 := by exact_mod_cast (ne_of_gt (J.ha x hx))
  simp only [Function.comp_def]
  rw [statsEntropy2_real (by
    intro q hq
    obtain ⟨c, _, rfl⟩ := List.mem_map.1 hq
    positivity)]
  rw [sum_cast_div, J.row x hx, List.map_map]
  have : (bs.map ((fun q : ℝ => q / ((a x : ℝ) / (N : ℝ))) ∘ fun y => (n x y : ℝ) / (N : ℝ))) =
      bs.map fun y => (n x y : ℝ) / (a x : ℝ) := by
    apply List.map_congr_left
    intro y _
    simp only [Function.comp_def]
    field_simp
  rw [this, div_eq_mul_inv]
  ring

/-- `scipy.stats.entropy(p_ref, base=2)` is the entropy of the row marginal, in bits -/
theorem Joint.marginal_entropy (J : Joint as bs n a b N) :
    statsEntropy2 (margDist as a N) = shannon (margDist as a N) / Real.log 2 := by
  rw [statsEntropy2_real (margDist_nonneg _ _ _), margDist_sum J.hN J.sumA]
  congr 2
  conv_rhs => rw [← List.map_id (margDist as a N)]
  apply List.map_congr_left
  intro q _
  simp

theorem ratio_range {t z : ℝ} (h0 : 0 ≤ t) (h1 : t ≤ z) :
    0 ≤ (if Transc.lt (Transc.ofNat 0 : ℝ) z then (Transc.ofNat 1 : ℝ) - t / z else Transc.ofNat 0) ∧
      (if Transc.lt (Transc.ofNat 0 : ℝ) z then (Transc.ofNat 1 : ℝ) - t / z else Transc.ofNat 0) ≤ 1 := by
  simp only [Transc.lt, Transc.ofNat, Nat.cast_zero, Nat.cast_one, decide_eq_true_eq]
  split
  · rename_i hz
    have h2 : t / z ≤ 1 := (div_le_one hz).2 h1
    have h3 : 0 ≤ t / z := div_nonneg h0 hz.le
    constructor <;> linarith
  · exact ⟨le_refl _, zero_le_one⟩

/-- `util.f_measure` of two numbers in [0, 1] is in [0, 1] (any `beta`; a zero denominator gives 0 over ℝ). -/
theorem fMeasureT_range {p r : ℝ} (beta : ℝ) (hp0 : 0 ≤ p) (hp1 : p ≤ 1) (hr0 : 0 ≤ r) (hr1 : r ≤ 1) :
    0 ≤ fMeasureT p r beta ∧ fMeasureT p r beta ≤ 1 := by
  unfold fMeasureT
  simp only [Transc.beq, Transc.ofNat, Nat.cast_zero, Nat.cast_one, Bool.and_eq_true, decide_eq_true_eq]
  split
  · exact ⟨le_refl _, zero_le_one⟩
  · have hbb : 0 ≤ beta * beta := mul_self_nonneg beta
    have hd0 : 0 ≤ beta * beta * p + r := by positivity
    rcases hd0.eq_or_lt with hd | hd
    · rw [← hd]; simp
    · refine ⟨div_nonneg (by positivity) hd.le, ?_⟩
      rw [div_le_one hd]
      have h1 : 0 ≤ beta * beta * p * (1 - r) := mul_nonneg (mul_nonneg hbb hp0) (by linarith)
      have h2 : 0 ≤ r * (1 - p) := mul_nonneg hr0 (by linarith)
      nlinarith

/-- **NCE / V-measure range**, for any joint table: over, under and their F all lie in [0, 1], for both
    normalisations and with the code's convention (score 0) when the normaliser is not positive. -/
theorem Joint.nceBody_range (J : Joint as bs n a b N) (beta : ℝ) (marginal : Bool) :
    (0 ≤ (nceBody (pTable as bs n N) as.length bs.length beta marginal).1 ∧
      (nceBody (pTable as bs n N) as.length bs.length beta marginal).1 ≤ 1) ∧
    (0 ≤ (nceBody (pTable as bs n N) as.length bs.length beta marginal).2.1 ∧
      (nceBody (pTable as bs n N) as.length bs.length beta marginal).2.1 ≤ 1) ∧
    (0 ≤ (nceBody (pTable as bs n N) as.length bs.length beta marginal).2.2 ∧
      (nceBody (pTable as bs n N) as.length bs.length beta marginal).2.2 ≤ 1) := by
  have hlog2 : (0 : ℝ) < Real.log 2 := Real.log_pos (by norm_num)
  have JT := J.transpose
  unfold nceBody
  simp only
  rw [pTable_columns, J.weighted_rows, JT.weighted_rows, J.pTable_rowSums, JT.pTable_rowSums]
  have hover : 0 ≤ jHcond as bs n a N / Real.log 2 ∧
      jHcond as bs n a N / Real.log 2 ≤
        (if marginal then statsEntropy2 (margDist bs b N)
          else Transc.log (Transc.ofNat bs.length : ℝ) / Transc.log (Transc.ofNat 2)) := by
    refine ⟨div_nonneg J.hcond_nonneg hlog2.le, ?_⟩
    cases marginal
    · simp only [Bool.false_eq_true, if_false, Transc.log, Transc.ofNat, Nat.cast_ofNat]
      exact div_le_div_of_nonneg_right J.hcond_le_log hlog2.le
    · simp only [if_true]
      rw [JT.marginal_entropy]
      exact div_le_div_of_nonneg_right J.hcond_le_col hlog2.le
  have hunder : 0 ≤ jHcond bs as (fun y x => n x y) b N / Real.log 2 ∧
      jHcond bs as (fun y x => n x y) b N / Real.log 2 ≤
        (if marginal then statsEntropy2 (margDist as a N)
          else Transc.log (Transc.ofNat as.length : ℝ) / Transc.log (Transc.ofNat 2)) := by
    refine ⟨div_nonneg JT.hcond_nonneg hlog2.le, ?_⟩
    cases marginal
    · simp only [Bool.false_eq_true, if_false, Transc.log, Transc.ofNat, Nat.cast_ofNat]
      exact div_le_div_of_nonneg_right JT.hcond_le_log hlog2.le
    · simp only [if_true]
      rw [J.marginal_entropy]
      exact div_le_div_of_nonneg_right JT.hcond_le_col hlog2.le
  have ho := ratio_range hover.1 hover.2
  have hu := ratio_range hunder.1 hunder.2
  exact ⟨ho, hu, fMeasureT_range beta ho.1 ho.2 hu.1 hu.2⟩

/-- no frames at all: all three scores are 0 -/
theorem nceIdx_nil (beta : ℝ) (marginal : Bool) : nceIdx (α := ℝ) [] [] beta marginal = (0, 0, 0) := by
  rw [nceIdx_eq_body]
  cases marginal <;>
    simp [nceBody, classes_nil, columns, statsEntropy2, Segment.tsum, Transc.ofNat, Transc.lt, Transc.log,
      Transc.beq, fMeasureT]

theorem nceIdx_nil_range (beta : ℝ) (marginal : Bool) :
    (0 ≤ (nceIdx (α := ℝ) [] [] beta marginal).1 ∧ (nceIdx (α := ℝ) [] [] beta marginal).1 ≤ 1) ∧
    (0 ≤ (nceIdx (α := ℝ) [] [] beta marginal).2.1 ∧ (nceIdx (α := ℝ) [] [] beta marginal).2.1 ≤ 1) ∧
    (0 ≤ (nceIdx (α := ℝ) [] [] beta marginal).2.2 ∧ (nceIdx (α := ℝ) [] [] beta marginal).2.2 ≤ 1) := by
  rw [nceIdx_nil]
  norm_num

/-- **textbook form of the NCE body** for a joint table: `over = 1 − H(est | ref) / Z_est`,
    `under = 1 − H(ref | est) / Z_ref` (entropies in bits; `Z` the marginal entropy or `log2` of the number of labels;
    a score is 0 when `Z` is not positive). -/
theorem Joint.nceBody_eq (J : Joint as bs n a b N) (beta : ℝ) (marginal : Bool) :
    nceBody (pTable as bs n N) as.length bs.length beta marginal =
      (let zRef : ℝ := if marginal then shannon (margDist as a N) / Real.log 2 else Real.log as.length / Real.log 2
       let zEst : ℝ := if marginal then shannon (margDist bs b N) / Real.log 2 else Real.log bs.length / Real.log 2
       let under : ℝ := if 0 < zRef then 1 - (jHcond bs as (fun y x => n x y) b N / Real.log 2) / zRef else 0
       let over : ℝ := if 0 < zEst then 1 - (jHcond as bs n a N / Real.log 2) / zEst else 0
       (over, under, fMeasureT over under beta)) := by
  have JT := J.transpose
  unfold nceBody
  simp only
  rw [pTable_columns, J.weighted_rows, JT.weighted_rows, J.pTable_rowSums, JT.pTable_rowSums,
    J.marginal_entropy, JT.marginal_entropy]
  simp only [Transc.lt, Transc.ofNat, Transc.log, decide_eq_true_eq, Nat.cast_zero, Nat.cast_one, Nat.cast_ofNat]

end SegmentEntropy

/-! ### AMI: the expected-MI loop is a hypergeometric expectation, bounded by the entropy -/
section AMI
open Mir.Segment

theorem lgammaSucc_real (k : Nat) : lgammaSucc (α := ℝ) k = Real.log (k.factorial : ℝ) := by
  unfold lgammaSucc
  rw [tsum_real]
  induction k with
  | zero => simp
  | succ k ih =>
    cases k with
    | zero => simp
    | succ m =>
      have e : m + 1 + 1 - 1 = (m + 1 - 1) + 1 := by omega
      rw [e, List.range'_1_concat, List.map_append, List.sum_append, ih]
      simp only [List.map_cons, List.map_nil, List.sum_cons, List.sum_nil, add_zero, Transc.log, Transc.ofNat]
      rw [Nat.factorial_succ (m+1), Nat.cast_mul, Real.log_mul (by positivity) (by positivity)]
      have : 2 + (m + 1 - 1) = m + 1 + 1 := by omega
      rw [this]; ring

theorem hyper_pmf {n a b k : ℕ} (ha : a ≤ n) (hb : b ≤ n) (hka : k ≤ a) (hkb : k ≤ b) (hk : a + b ≤ n + k) :
    Real.exp (Real.log (a.factorial : ℝ) + Real.log (b.factorial : ℝ) + Real.log ((n - a).factorial : ℝ)
      + Real.log ((n - b).factorial : ℝ) - Real.log (n.factorial : ℝ) - Real.log (k.factorial : ℝ)
      - Real.log ((a - k).factorial : ℝ) - Real.log ((b - k).factorial : ℝ)
      - Real.log ((n + k - a - b).factorial : ℝ)) =
      (a.choose k : ℝ) * ((n - a).choose (b - k) : ℝ) / (n.choose b : ℝ) := by
  have hp : ∀ m : ℕ, (0 : ℝ) < (m.factorial : ℝ) := fun m => by exact_mod_cast Nat.factorial_pos m
  simp only [Real.exp_sub, Real.exp_add, Real.exp_log (hp _)]
  rw [Nat.cast_choose ℝ hka, Nat.cast_choose ℝ hb, Nat.cast_choose ℝ (show b - k ≤ n - a by omega)]
  have e : n - a - (b - k) = n + k - a - b := by omega
  rw [e]
  have := fun m => (hp m).ne'
  field_simp

theorem mem_loop {n ai bj k : ℕ}
    (hk : k ∈ List.range' (max ((ai : Int) - (n : Int) + (bj : Int)).toNat 1)
      (min ai bj + 1 - max ((ai : Int) - (n : Int) + (bj : Int)).toNat 1)) :
    1 ≤ k ∧ k ≤ ai ∧ k ≤ bj ∧ ai + bj ≤ n + k := by
  rw [List.mem_range'_1] at hk
  omega

/-- the hypergeometric weight `C(a,k) C(n−a, b−k) / C(n,b)` -/
noncomputable def hyp (n a b k : ℕ) : ℝ := (a.choose k : ℝ) * ((n - a).choose (b - k) : ℝ) / (n.choose b : ℝ)

/-- one summand of the expected-MI loop, in textbook form -/
noncomputable def emiTerm (n ai bj k : ℕ) : ℝ :=
  ((k : ℝ) / (n : ℝ)) * (Real.log ((n : ℝ) * (k : ℝ)) - Real.log ((ai : ℝ) * (bj : ℝ))) * hyp n ai bj k

/-- the range of `nij` in the loop -/
def loopRange (n ai bj : ℕ) : List ℕ :=
  List.range' (max ((ai : Int) - (n : Int) + (bj : Int)).toNat 1)
    (min ai bj + 1 - max ((ai : Int) - (n : Int) + (bj : Int)).toNat 1)

/-- **the expected-MI triple loop is the hypergeometric expectation** (Vinh et al.):
    `EMI = Σ_i Σ_j Σ_k (k/n) log(n k / (a_i b_j)) · C(a_i,k) C(n−a_i, b_j−k) / C(n, b_j)`,
    the `exp(gammaln …)` factor being the hypergeometric probability. -/
theorem expectedMI_real {a b : List ℕ} {n : ℕ} (ha : ∀ x ∈ a, x ≤ n) (hb : ∀ y ∈ b, y ≤ n) :
    expectedMI (α := ℝ) a b n =
      (a.map fun ai => (b.map fun bj => ((loopRange n ai bj).map fun k => emiTerm n ai bj k).sum).sum).sum := by
  unfold expectedMI
  rw [tsum_real, sum_flatMap_real]
  apply sum_map_congr_real
  intro ai hai
  rw [sum_flatMap_real]
  apply sum_map_congr_real
  intro bj hbj
  simp only
  apply sum_map_congr_real
  intro k hk
  obtain ⟨h1, h2, h3, h4⟩ := mem_loop hk
  simp only [lgammaSucc_real, Transc.ofNat, Transc.log, Transc.exp]
  rw [hyper_pmf (ha ai hai) (hb bj hbj) h2 h3 h4]
  unfold emiTerm hyp
  push_cast
  ring

/-- Vandermonde with the absorption identity: `Σ_{k=1}^{b} k C(a,k) C(n−a, b−k) = a C(n−1, b−1)`. -/
theorem hyper_mean_nat {n a b : ℕ} (ha : 1 ≤ a) (han : a ≤ n) (hb : 1 ≤ b) :
    ∑ k ∈ Finset.Ico 1 (b + 1), k * (a.choose k * (n - a).choose (b - k)) = a * (n - 1).choose (b - 1) := by
  obtain ⟨a', rfl⟩ : ∃ a', a = a' + 1 := ⟨a - 1, by omega⟩
  obtain ⟨b', rfl⟩ : ∃ b', b = b' + 1 := ⟨b - 1, by omega⟩
  rw [Finset.sum_Ico_eq_sum_range]
  have e1 : b' + 1 + 1 - 1 = b' + 1 := by omega
  rw [e1]
  have hterm : ∀ i ∈ Finset.range (b' + 1),
      (1 + i) * ((a' + 1).choose (1 + i) * (n - (a' + 1)).choose (b' + 1 - (1 + i))) =
        (a' + 1) * (a'.choose i * (n - (a' + 1)).choose (b' - i)) := by
    intro i _
    have h1 := Nat.add_one_mul_choose_eq a' i
    have e2 : b' + 1 - (1 + i) = b' - i := by omega
    rw [e2, Nat.add_comm 1 i]
    calc (i + 1) * ((a' + 1).choose (i + 1) * (n - (a' + 1)).choose (b' - i))
        = ((a' + 1).choose (i + 1) * (i + 1)) * (n - (a' + 1)).choose (b' - i) := by ring
      _ = ((a' + 1) * a'.choose i) * (n - (a' + 1)).choose (b' - i) := by rw [h1]
      _ = _ := by ring
  rw [Finset.sum_congr rfl hterm, ← Finset.mul_sum]
  have hv := Nat.add_choose_eq a' (n - (a' + 1)) b'
  rw [Finset.Nat.sum_antidiagonal_eq_sum_range_succ_mk] at hv
  have e3 : a' + (n - (a' + 1)) = n - 1 := by omega
  rw [e3] at hv
  simp only [Nat.add_sub_cancel]
  rw [hv]

theorem sum_range'_eq_sum_Ico (f : ℕ → ℕ) (s len : ℕ) :
    ((List.range' s len).map f).sum = ∑ k ∈ Finset.Ico s (s + len), f k := by
  induction len with
  | zero => simp
  | succ len ih =>
    rw [List.range'_1_concat, List.map_append, List.sum_append, ih]
    simp only [List.map_cons, List.map_nil, List.sum_cons, List.sum_nil, add_zero]
    rw [← Nat.add_assoc, Finset.sum_Ico_succ_top (by omega)]

/-- the loop's range covers (a part of) `1..b`: the first moment over it is at most `a C(n−1, b−1)` -/
theorem loop_mean_le {n a b : ℕ} (ha : 1 ≤ a) (han : a ≤ n) (hb : 1 ≤ b) :
    ((loopRange n a b).map fun k => k * (a.choose k * (n - a).choose (b - k))).sum ≤ a * (n - 1).choose (b - 1) := by
  unfold loopRange
  rw [sum_range'_eq_sum_Ico, ← hyper_mean_nat ha han hb]
  apply Finset.sum_le_sum_of_subset
  intro k hk
  rw [Finset.mem_Ico] at hk ⊢
  omega

theorem emiTerm_le {n ai bj k : ℕ} (hai : 1 ≤ ai) (han : ai ≤ n) (hbj : 1 ≤ bj) (hk1 : 1 ≤ k) (hkb : k ≤ bj) :
    emiTerm n ai bj k ≤
      (Real.log ((n : ℝ) / (ai : ℝ)) / (n : ℝ) / (n.choose bj : ℝ)) *
        ((k * (ai.choose k * (n - ai).choose (bj - k)) : ℕ) : ℝ) := by
  have hn : (0 : ℝ) < (n : ℝ) := by exact_mod_cast (show 0 < n by omega)
  have ha : (0 : ℝ) < (ai : ℝ) := by exact_mod_cast (show 0 < ai by omega)
  have hb : (0 : ℝ) < (bj : ℝ) := by exact_mod_cast (show 0 < bj by omega)
  have hk : (0 : ℝ) < (k : ℝ) := by exact_mod_cast (show 0 < k by omega)
  have hkb' : (k : ℝ) ≤ (bj : ℝ) := by exact_mod_cast hkb
  have hlog : Real.log ((n : ℝ) * (k : ℝ)) - Real.log ((ai : ℝ) * (bj : ℝ)) ≤ Real.log ((n : ℝ) / (ai : ℝ)) := by
    rw [← Real.log_div (by positivity) (by positivity)]
    apply Real.log_le_log (by positivity)
    rw [div_le_div_iff₀ (by positivity) ha]
    nlinarith [mul_le_mul_of_nonneg_left hkb' (mul_nonneg hn.le ha.le)]
  have hw : (0 : ℝ) ≤ ((k : ℝ) / (n : ℝ)) * hyp n ai bj k := by
    unfold hyp; positivity
  have : emiTerm n ai bj k =
      (((k : ℝ) / (n : ℝ)) * hyp n ai bj k) * (Real.log ((n : ℝ) * (k : ℝ)) - Real.log ((ai : ℝ) * (bj : ℝ))) := by
    unfold emiTerm; ring
  rw [this]
  refine le_trans (mul_le_mul_of_nonneg_left hlog hw) (le_of_eq ?_)
  unfold hyp
  push_cast
  ring

theorem choose_ratio {n b : ℕ} (hb : 1 ≤ b) (hbn : b ≤ n) :
    ((n - 1).choose (b - 1) : ℝ) / (n.choose b : ℝ) = (b : ℝ) / (n : ℝ) := by
  have h := Nat.add_one_mul_choose_eq (n - 1) (b - 1)
  rw [show n - 1 + 1 = n by omega, show b - 1 + 1 = b by omega] at h
  have hc : (0 : ℝ) < (n.choose b : ℝ) := by exact_mod_cast Nat.choose_pos hbn
  have hn : (0 : ℝ) < (n : ℝ) := by exact_mod_cast (show 0 < n by omega)
  have h' : (n : ℝ) * ((n - 1).choose (b - 1) : ℝ) = (n.choose b : ℝ) * (b : ℝ) := by exact_mod_cast h
  rw [div_eq_div_iff hc.ne' hn.ne']
  linarith

theorem emi_inner_le {n ai bj : ℕ} (hai : 1 ≤ ai) (han : ai ≤ n) (hbj : 1 ≤ bj) (hbn : bj ≤ n) :
    ((loopRange n ai bj).map fun k => emiTerm n ai bj k).sum ≤
      Real.log ((n : ℝ) / (ai : ℝ)) / (n : ℝ) * ((ai : ℝ) * ((bj : ℝ) / (n : ℝ))) := by
  have hn : (0 : ℝ) < (n : ℝ) := by exact_mod_cast (show 0 < n by omega)
  have ha : (0 : ℝ) < (ai : ℝ) := by exact_mod_cast (show 0 < ai by omega)
  have hc : (0 : ℝ) < (n.choose bj : ℝ) := by exact_mod_cast Nat.choose_pos hbn
  have hlog0 : 0 ≤ Real.log ((n : ℝ) / (ai : ℝ)) := by
    apply Real.log_nonneg
    rw [le_div_iff₀ ha]
    have : (ai : ℝ) ≤ (n : ℝ) := by exact_mod_cast han
    linarith
  have h1 : ((loopRange n ai bj).map fun k => emiTerm n ai bj k).sum ≤
      ((loopRange n ai bj).map fun k => (Real.log ((n : ℝ) / (ai : ℝ)) / (n : ℝ) / (n.choose bj : ℝ)) *
        ((k * (ai.choose k * (n - ai).choose (bj - k)) : ℕ) : ℝ)).sum := by
    apply sum_le_sum_real
    intro k hk
    obtain ⟨k1, _, k3, _⟩ := mem_loop hk
    exact emiTerm_le hai han hbj k1 k3
  rw [sum_map_mul_left_real] at h1
  have h2 : ((loopRange n ai bj).map fun k => ((k * (ai.choose k * (n - ai).choose (bj - k)) : ℕ) : ℝ)).sum =
      ((((loopRange n ai bj).map fun k => k * (ai.choose k * (n - ai).choose (bj - k))).sum : ℕ) : ℝ) := by
    rw [Nat.cast_list_sum, List.map_map]
    rfl
  have h3 : ((((loopRange n ai bj).map fun k => k * (ai.choose k * (n - ai).choose (bj - k))).sum : ℕ) : ℝ) ≤
      ((ai * (n - 1).choose (bj - 1) : ℕ) : ℝ) := by exact_mod_cast loop_mean_le hai han hbj
  rw [h2] at h1
  have hc0 : 0 ≤ Real.log ((n : ℝ) / (ai : ℝ)) / (n : ℝ) / (n.choose bj : ℝ) := by positivity
  refine le_trans h1 (le_trans (mul_le_mul_of_nonneg_left h3 hc0) (le_of_eq ?_))
  rw [← choose_ratio hbj hbn]
  push_cast
  field_simp

/-- **EMI ≤ H(rows)**: the expected mutual information never exceeds the entropy of the row marginal. -/
theorem expectedMI_le {a b : List ℕ} {n : ℕ} (ha : ∀ x ∈ a, 1 ≤ x ∧ x ≤ n) (hb : ∀ y ∈ b, 1 ≤ y ∧ y ≤ n)
    (hsb : b.sum = n) (hn : 0 < n) :
    expectedMI (α := ℝ) a b n ≤ shannon (a.map fun ai : ℕ => (ai : ℝ) / (n : ℝ)) := by
  have hn' : (0 : ℝ) < (n : ℝ) := by exact_mod_cast hn
  rw [expectedMI_real (fun x hx => (ha x hx).2) (fun y hy => (hb y hy).2)]
  unfold shannon
  rw [List.map_map]
  apply sum_le_sum_real
  intro ai hai
  have ha' : (0 : ℝ) < (ai : ℝ) := by exact_mod_cast (show 0 < ai from (ha ai hai).1)
  have h1 : (b.map fun bj => ((loopRange n ai bj).map fun k => emiTerm n ai bj k).sum).sum ≤
      (b.map fun bj : ℕ => Real.log ((n : ℝ) / (ai : ℝ)) / (n : ℝ) * ((ai : ℝ) * ((bj : ℝ) / (n : ℝ)))).sum := by
    apply sum_le_sum_real
    intro bj hbj
    exact emi_inner_le (ha ai hai).1 (ha ai hai).2 (hb bj hbj).1 (hb bj hbj).2
  refine le_trans h1 (le_of_eq ?_)
  have : (b.map fun bj : ℕ => Real.log ((n : ℝ) / (ai : ℝ)) / (n : ℝ) * ((ai : ℝ) * ((bj : ℝ) / (n : ℝ)))) =
      b.map fun bj : ℕ => (Real.log ((n : ℝ) / (ai : ℝ)) / (n : ℝ) * (ai : ℝ)) * ((bj : ℝ) / (n : ℝ)) := by
    apply List.map_congr_left; intro bj _; ring
  rw [this, sum_map_mul_left_real, sum_cast_div b (fun y => y) (n : ℝ), List.map_id', hsb]
  simp only [Function.comp_def]
  rw [Real.log_div hn'.ne' ha'.ne', Real.log_div ha'.ne' hn'.ne']
  field_simp
  ring

theorem classCount_bounds (y : List ℕ) : ∀ x ∈ (classes y).map fun c => y.count c, 1 ≤ x ∧ x ≤ y.length := by
  intro x hx
  obtain ⟨c, hc, rfl⟩ := List.mem_map.1 hx
  exact ⟨List.count_pos_iff.2 (mem_classes.1 hc), List.count_le_length⟩

/-- the expected MI that `_adjusted_mutual_info_score` subtracts is at most the entropy of the reference labels -/
theorem amiIdx_emi_le {yr ye : List ℕ} (h : yr.length = ye.length) (hne : yr ≠ []) :
    expectedMI (α := ℝ) (rowSums (contingency yr ye)) (colSums (contingency yr ye) (classes ye).length) yr.length ≤
      entropyIdx (α := ℝ) yr := by
  rw [rowSums_contingency h, colSums_contingency h, entropyIdx_real hne]
  have hb := classCount_bounds ye
  rw [← h] at hb
  have := expectedMI_le (classCount_bounds yr) hb (by rw [h]; exact classCounts_sum ye)
    (List.length_pos_iff.2 hne)
  refine le_trans this (le_of_eq ?_)
  unfold labelEntropy margDist
  rw [List.map_map]
  rfl

/-- the denominator `max(H, H') − EMI` of AMI is never negative -/
theorem amiIdx_den_nonneg {yr ye : List ℕ} (h : yr.length = ye.length) :
    0 ≤ (amiIdx (α := ℝ) yr ye).2.2 := by
  unfold amiIdx
  simp only
  split
  · simp [Transc.ofNat]
  · rename_i hsp
    have hne : yr ≠ [] := fun e => hsp (special_of_nil h e)
    have h1 := amiIdx_emi_le h hne
    simp only
    rw [pyMax_real]
    have := le_max_left (entropyIdx (α := ℝ) yr) (entropyIdx (α := ℝ) ye)
    linarith

/-- **AMI ≤ 1**, every branch (special cases return 1; a zero denominator gives 0 over ℝ — nan/inf in binary64). -/
theorem amiIdx_le_one {yr ye : List ℕ} (h : yr.length = ye.length) : (amiIdx (α := ℝ) yr ye).1 ≤ 1 := by
  rcases (amiIdx_den_nonneg h).eq_or_lt with h0 | hpos
  · unfold amiIdx at h0 ⊢
    simp only at h0 ⊢
    split
    · simp [Transc.ofNat]
    · rename_i hsp
      rw [if_neg hsp] at h0
      simp only at h0 ⊢
      rw [← h0, div_zero]
      exact zero_le_one
  · exact amiIdx_le_one_of_den_pos h hpos

end AMI

/-! ### beat: when is the information gain nan?  (the histogram is empty iff no beat error is finite) -/
section BeatIGDefined
open Mir.Beat

theorem histogram_nil_sum (bins : Nat) : (histogram bins []).sum = 0 := by
  unfold histogram
  simp

/-- a value in [-1/2, 1/2] lands in some bin of `np.histogram(·, linspace(-.5, .5, bins + 1))` -/
theorem histogram_sum_ne_zero {bins : Nat} (hb : 1 ≤ bins) {vals : List Rat} {v : Rat} (hv : v ∈ vals)
    (h0 : -(1 / 2) ≤ v) (h1 : v ≤ 1 / 2) : (histogram bins vals).sum ≠ 0 := by
  have hB : (0 : Rat) < (bins : Rat) := by exact_mod_cast hb
  -- the bin
  have hex : ∃ i, i < bins ∧ (decide (binEdge bins i ≤ v) && (decide (v < binEdge bins (i + 1)) ||
      (decide (i + 1 = bins) && decide (v = binEdge bins (i + 1))))) = true := by
    rcases h1.eq_or_lt with h1 | h1
    · refine ⟨bins - 1, by omega, ?_⟩
      have e : bins - 1 + 1 = bins := by omega
      have hlast : binEdge bins bins = 1 / 2 := by
        unfold binEdge; rw [div_self hB.ne']; norm_num
      have hprev : binEdge bins (bins - 1) ≤ 1 / 2 := by
        unfold binEdge
        have : ((bins - 1 : Nat) : Rat) / (bins : Rat) ≤ 1 := by
          rw [div_le_one hB]; exact_mod_cast Nat.sub_le bins 1
        linarith
      simp only [e, h1, hlast, hprev, decide_true, Bool.true_and, Bool.or_true]
    · set t : Rat := (v + 1 / 2) * (bins : Rat) with ht
      have ht0 : 0 ≤ t := mul_nonneg (by linarith) hB.le
      have htB : t < (bins : Rat) := by
        have : v + 1 / 2 < 1 := by linarith
        calc t < 1 * (bins : Rat) := mul_lt_mul_of_pos_right this hB
          _ = bins := one_mul _
      have hfl0 : 0 ≤ ⌊t⌋ := Int.floor_nonneg.2 ht0
      have hi : ((⌊t⌋.toNat : Nat) : Int) = ⌊t⌋ := Int.toNat_of_nonneg hfl0
      have hiq : ((⌊t⌋.toNat : Nat) : Rat) = ((⌊t⌋ : Int) : Rat) := by
        have : (((⌊t⌋.toNat : Nat) : Int) : Rat) = ((⌊t⌋ : Int) : Rat) := by rw [hi]
        rwa [Int.cast_natCast] at this
      have hle : ((⌊t⌋.toNat : Nat) : Rat) ≤ t := by rw [hiq]; exact Int.floor_le t
      have hlt : t < ((⌊t⌋.toNat : Nat) : Rat) + 1 := by rw [hiq]; exact Int.lt_floor_add_one t
      have hib : ⌊t⌋.toNat < bins := by
        have : ((⌊t⌋.toNat : Nat) : Rat) < (bins : Rat) := lt_of_le_of_lt hle htB
        exact_mod_cast this
      refine ⟨⌊t⌋.toNat, hib, ?_⟩
      have e1 : binEdge bins ⌊t⌋.toNat ≤ v := by
        unfold binEdge
        have : ((⌊t⌋.toNat : Nat) : Rat) / (bins : Rat) ≤ v + 1 / 2 := by
          rw [div_le_iff₀ hB]; exact hle
        linarith
      have e2 : v < binEdge bins (⌊t⌋.toNat + 1) := by
        unfold binEdge
        have : v + 1 / 2 < ((⌊t⌋.toNat + 1 : Nat) : Rat) / (bins : Rat) := by
          rw [lt_div_iff₀ hB]; push_cast; exact hlt
        linarith
      simp only [e1, e2, decide_true, Bool.true_and, Bool.true_or]
  obtain ⟨i, hi, hp⟩ := hex
  intro hz
  have hmem : (vals.filter fun v => decide (binEdge bins i ≤ v) && (decide (v < binEdge bins (i + 1)) ||
      (decide (i + 1 = bins) && decide (v = binEdge bins (i + 1))))).length ∈ histogram bins vals := by
    unfold histogram
    exact List.mem_map.2 ⟨i, List.mem_range.2 hi, rfl⟩
  have hle := mem_le_sum_nat hmem
  have hpos : 0 < (vals.filter fun v => decide (binEdge bins i ≤ v) && (decide (v < binEdge bins (i + 1)) ||
      (decide (i + 1 = bins) && decide (v = binEdge bins (i + 1))))).length :=
    List.length_pos_of_mem (List.mem_filter.2 ⟨hv, hp⟩)
  omega

theorem beatErrors_range {ref est vals : List Rat} (h : beatErrors ref est = .ok vals) :
    ∀ v ∈ vals, -(1 / 2) < v ∧ v ≤ 1 / 2 := by
  unfold beatErrors at h
  rw [bind_ok_iff] at h
  obtain ⟨errs, he, h⟩ := h
  simp only [pure, Except.pure, Except.ok.injEq] at h
  subst h
  intro v hv
  rw [List.mem_filterMap] at hv
  obtain ⟨o, ho, hov⟩ := hv
  simp only [id] at hov
  subst hov
  obtain ⟨e, _, hbe⟩ := mapPy_ok_mem _ _ _ he _ ho
  exact beatError_range hbe

/-- the entropy of the beat-error histogram is defined iff at least one beat error is finite -/
theorem getEntropy_some_iff {ref est : List Rat} {bins : Nat} (hb : 1 ≤ bins) {r : Option ℝ × Bool}
    (h : getEntropy realOps ref est bins = .ok r) :
    r.1.isSome ↔ ∃ vals, beatErrors ref est = .ok vals ∧ vals ≠ [] := by
  unfold getEntropy at h
  rw [bind_ok_iff] at h
  obtain ⟨vals, hv, h2⟩ := h
  simp only [pure, Except.pure, Except.ok.injEq] at h2
  subst h2
  simp only
  rw [entropyOfCounts_real]
  constructor
  · intro hs
    refine ⟨vals, hv, ?_⟩
    rintro rfl
    rw [if_pos (histogram_nil_sum bins)] at hs
    simp at hs
  · rintro ⟨vals', hv', hne⟩
    rw [hv] at hv'
    cases hv'
    obtain ⟨v, hmem⟩ := List.exists_mem_of_ne_nil _ hne
    have := beatErrors_range hv v hmem
    rw [if_neg (histogram_sum_ne_zero hb hmem this.1.le this.2)]
    simp

theorem infoGainOf_isSome (bins : Nat) (f b : Option ℝ) : (infoGainOf realOps bins f b).isSome = b.isSome := by
  unfold infoGainOf
  rcases f with _ | fv <;> rcases b with _ | bv <;> simp
  split <;> simp

/-- **information gain is a number (not nan) iff some backward beat error is finite**, i.e. iff not every reference
    beat sits next to a zero-length interval of the estimated sequence. -/
theorem informationGainCore_some_iff {ref est : List Rat} {bins : Nat} (hb : 1 ≤ bins)
    (hlen : ¬(est.length ≤ 1 ∨ ref.length ≤ 1)) {r : Option ℝ} {tie : Bool}
    (h : informationGainCore realOps ref est bins = .ok (r, tie)) :
    r.isSome ↔ ∃ vb, beatErrors est ref = .ok vb ∧ vb ≠ [] := by
  unfold informationGainCore at h
  rw [if_neg hlen, bind_ok_iff] at h
  obtain ⟨f, _, h⟩ := h
  rw [bind_ok_iff] at h
  obtain ⟨b, hbk, h⟩ := h
  simp only [pure, Except.pure, Except.ok.injEq, Prod.mk.injEq] at h
  rw [← h.1, infoGainOf_isSome]
  exact getEntropy_some_iff hb hbk

end BeatIGDefined

end Entropy
end Mir
