import MirModel.EvalProg
/-!
  Lemmas about keyword dictionaries, `filterKwargs` and the `evaluate()` interpreter (core Lean only).
-/
namespace Mir.EvalProg

/-! ### dictionaries -/

@[simp] theorem Kwargs.get_nil (x : String) : Kwargs.get [] x = none := rfl

theorem Kwargs.get_cons (a : String) (w : KV) (t : Kwargs) (x : String) :
    Kwargs.get ((a, w) :: t) x = if a = x then some w else Kwargs.get t x := rfl

/-- reading after `kwargs[k] = v` -/
@[simp] theorem Kwargs.get_set (kw : Kwargs) (k x : String) (v : KV) :
    (kw.set k v).get x = if k = x then some v else kw.get x := by
  induction kw with
  | nil => simp [Kwargs.set, Kwargs.get]
  | cons p t ih =>
    obtain ⟨a, w⟩ := p
    by_cases h : a = k
    · subst h
      by_cases hx : a = x <;> simp [Kwargs.set, Kwargs.get, hx]
    · by_cases hx : a = x
      · subst hx
        have : ¬ k = a := fun e => h e.symm
        simp [Kwargs.set, Kwargs.get, h, this]
      · simp [Kwargs.set, Kwargs.get, h, hx, ih]

/-- reading after `kwargs.setdefault(k, v)` -/
@[simp] theorem Kwargs.get_setDefault (kw : Kwargs) (k x : String) (v : KV) :
    (kw.setDefault k v).get x = if k = x then some ((kw.get k).getD v) else kw.get x := by
  unfold Kwargs.setDefault
  by_cases h : (kw.get k).isSome
  · obtain ⟨w, hw⟩ := Option.isSome_iff_exists.1 h
    by_cases hx : k = x
    · subst hx; simp [hw]
    · simp [h, hx]
  · have hn : kw.get k = none := by simpa using h
    by_cases hx : k = x
    · subst hx; simp [hn]
    · simp [hn, hx]

theorem Kwargs.set_set (kw : Kwargs) (k : String) (v w : KV) : (kw.set k v).set k w = kw.set k w := by
  induction kw with
  | nil => simp [Kwargs.set]
  | cons p t ih =>
    obtain ⟨a, u⟩ := p
    by_cases h : a = k
    · simp [Kwargs.set, h]
    · simp [Kwargs.set, h, ih]

theorem Kwargs.get_filter (kw : Kwargs) (P : String → Bool) (x : String) :
    Kwargs.get (kw.filter fun p => P p.1) x = if P x then kw.get x else none := by
  induction kw with
  | nil => simp
  | cons p t ih =>
    obtain ⟨a, w⟩ := p
    by_cases hP : P a
    · by_cases hx : a = x
      · subst hx; simp [List.filter, hP, Kwargs.get]
      · simp [List.filter, hP, Kwargs.get, hx, ih]
    · by_cases hx : a = x
      · subst hx; simp [List.filter, hP, ih]
      · simp [List.filter, hP, Kwargs.get_cons, hx, ih]

/-- writing a key that a name-filter drops does not change the filtered dictionary (as a list) -/
theorem Kwargs.filter_set_of_not (kw : Kwargs) (P : String → Bool) (k : String) (v : KV) (hk : P k = false) :
    (kw.set k v).filter (fun p => P p.1) = kw.filter (fun p => P p.1) := by
  induction kw with
  | nil => simp [Kwargs.set, hk]
  | cons p t ih =>
    obtain ⟨a, w⟩ := p
    by_cases h : a = k
    · subst h; simp [Kwargs.set, List.filter, hk]
    · simp [Kwargs.set, h, List.filter, ih]

theorem Kwargs.get_append_single_of_ne (kw : Kwargs) (u x : String) (v : KV) (h : u ≠ x) :
    Kwargs.get (kw ++ [(u, v)]) x = kw.get x := by
  induction kw with
  | nil => simp [Kwargs.get_cons, h]
  | cons p t ih =>
    obtain ⟨a, w⟩ := p
    by_cases ha : a = x <;> simp [Kwargs.get_cons, ha, ih]

theorem Kwargs.get_eq_none_of_not_mem_keys (kw : Kwargs) (x : String) (h : x ∉ kw.keys) : kw.get x = none := by
  induction kw with
  | nil => rfl
  | cons p t ih =>
    obtain ⟨a, w⟩ := p
    simp only [Kwargs.keys, List.map_cons, List.mem_cons, not_or] at h
    have h1 : ¬ a = x := fun e => h.1 e.symm
    simp only [Kwargs.get_cons, h1, if_false]
    exact ih h.2

theorem Kwargs.mem_of_get (kw : Kwargs) (x : String) (v : KV) (h : kw.get x = some v) : (x, v) ∈ kw := by
  induction kw with
  | nil => simp at h
  | cons p t ih =>
    obtain ⟨a, w⟩ := p
    by_cases hx : a = x
    · subst hx
      simp only [Kwargs.get_cons, if_true, Option.some.injEq] at h
      subst h; exact List.mem_cons_self
    · simp only [Kwargs.get_cons, hx, if_false] at h
      exact List.mem_cons_of_mem _ (ih h)

/-! ### `filter_kwargs` -/

/-- membership form: an entry is handed to the callee iff the caller gave it and the callee has `**kwargs` or a
    parameter of that name -/
theorem mem_filterKwargs (sg : Sig) (kw : Kwargs) (k : String) (v : KV) :
    (k, v) ∈ filterKwargs sg kw ↔ (k, v) ∈ kw ∧ (sg.varKw = true ∨ k ∈ sg.params) := by
  unfold filterKwargs
  by_cases h : sg.varKw
  · simp [h]
  · simp [h, List.mem_filter]

/-- lookup form -/
@[simp] theorem get_filterKwargs (sg : Sig) (kw : Kwargs) (x : String) :
    (filterKwargs sg kw).get x = if sg.accepts x then kw.get x else none := by
  unfold filterKwargs Sig.accepts
  by_cases h : sg.varKw
  · simp [h]
  · simp only [h, Bool.false_or]
    exact Kwargs.get_filter kw (fun a => decide (a ∈ sg.params)) x

/-- the filtered dictionary is a sub-list of the caller's (order kept, nothing invented) -/
theorem filterKwargs_sublist (sg : Sig) (kw : Kwargs) : (filterKwargs sg kw).Sublist kw := by
  unfold filterKwargs
  split
  · exact List.Sublist.refl _
  · exact List.filter_sublist

theorem filterKwargs_varKw (sg : Sig) (kw : Kwargs) (h : sg.varKw = true) : filterKwargs sg kw = kw := by
  simp [filterKwargs, h]

/-- behind `filter_kwargs` a callee without `**kwargs` never sees a name it would reject -/
theorem rejected_filterKwargs (sg : Sig) (kw : Kwargs) (ps : List String) (hv : sg.varKw = false)
    (h : ∀ k ∈ sg.params, k ∈ ps) : rejected ps (filterKwargs sg kw) = [] := by
  unfold filterKwargs rejected
  simp only [hv, Bool.false_eq_true, if_false, List.filter_filter]
  rw [List.filter_eq_nil_iff]
  intro p _
  simp only [Bool.and_eq_true, decide_eq_true_eq, not_and]
  intro h1 h2; exact h1 (h _ h2)

/-- `kwargs[k] = v` is invisible behind `filter_kwargs` for a callee that does not accept `k` -/
theorem filterKwargs_set_of_not_accepts (sg : Sig) (kw : Kwargs) (k : String) (v : KV)
    (h : sg.accepts k = false) : filterKwargs sg (kw.set k v) = filterKwargs sg kw := by
  unfold Sig.accepts at h
  simp only [Bool.or_eq_false_iff] at h
  unfold filterKwargs
  simp only [h.1, Bool.false_eq_true, if_false]
  exact Kwargs.filter_set_of_not kw (fun a => decide (a ∈ sg.params)) k v h.2

/-- erasing a name that the callee does not accept is invisible behind `filter_kwargs` -/
theorem filterKwargs_erase_of_not_accepts (sg : Sig) (kw : Kwargs) (u : String)
    (h : sg.accepts u = false) : filterKwargs sg (kw.erase u) = filterKwargs sg kw := by
  unfold Sig.accepts at h
  simp only [Bool.or_eq_false_iff, decide_eq_false_iff_not] at h
  unfold filterKwargs
  simp only [h.1, Bool.false_eq_true, if_false]
  induction kw with
  | nil => rfl
  | cons p t ih =>
    obtain ⟨a, w⟩ := p
    by_cases hu : a = u
    · subst hu; simp [Kwargs.erase, List.filter, h.2, ih]
    · simp [Kwargs.erase, hu, List.filter, ih]

/-! ### erasing an unrelated name commutes with every dictionary operation -/

theorem Kwargs.get_erase_of_ne (kw : Kwargs) (u x : String) (h : x ≠ u) : (kw.erase u).get x = kw.get x := by
  induction kw with
  | nil => rfl
  | cons p t ih =>
    obtain ⟨a, w⟩ := p
    by_cases hu : a = u
    · subst hu
      have : ¬ a = x := fun e => h e.symm
      simp [Kwargs.erase, Kwargs.get_cons, this, ih]
    · simp [Kwargs.erase, hu, Kwargs.get_cons, ih]

theorem Kwargs.erase_set_of_ne (kw : Kwargs) (u k : String) (v : KV) (h : k ≠ u) :
    (kw.set k v).erase u = (kw.erase u).set k v := by
  induction kw with
  | nil => simp [Kwargs.set, Kwargs.erase, h]
  | cons p t ih =>
    obtain ⟨a, w⟩ := p
    by_cases hk : a = k
    · subst hk
      simp [Kwargs.set, Kwargs.erase, h]
    · by_cases hu : a = u
      · subst hu
        simp [Kwargs.set, hk, Kwargs.erase, ih]
      · simp [Kwargs.set, hk, hu, Kwargs.erase, ih]

theorem Kwargs.erase_setDefault_of_ne (kw : Kwargs) (u k : String) (v : KV) (h : k ≠ u) :
    (kw.setDefault k v).erase u = (kw.erase u).setDefault k v := by
  unfold Kwargs.setDefault
  rw [Kwargs.get_erase_of_ne kw u k h]
  split
  · rfl
  · exact Kwargs.erase_set_of_ne kw u k v h

theorem Kwargs.erase_append_single (kw : Kwargs) (u : String) (v : KV) : Kwargs.erase (kw ++ [(u, v)]) u = kw.erase u := by
  induction kw with
  | nil => simp [Kwargs.erase]
  | cons p t ih =>
    obtain ⟨a, w⟩ := p
    by_cases hu : a = u <;> simp [Kwargs.erase, hu, ih]

theorem Kwargs.erase_cons_self (kw : Kwargs) (u : String) (v : KV) : Kwargs.erase ((u, v) :: kw) u = kw.erase u := by
  simp [Kwargs.erase]

theorem Kwargs.erase_of_not_mem (kw : Kwargs) (u : String) (h : u ∉ kw.keys) : kw.erase u = kw := by
  induction kw with
  | nil => rfl
  | cons p t ih =>
    obtain ⟨a, w⟩ := p
    simp only [Kwargs.keys, List.map_cons, List.mem_cons, not_or] at h
    have h1 : ¬ a = u := fun e => h.1 e.symm
    simp only [Kwargs.erase, h1, if_false]
    rw [ih h.2]

/-! ### the interpreter -/

theorem exec_nil (sigs : Sigs) (s : State) : exec sigs [] s = s := rfl
theorem exec_cons (sigs : Sigs) (stp : Step) (rest : Program) (s : State) :
    exec sigs (stp :: rest) s = exec sigs rest (step sigs stp s) := rfl

theorem exec_append (sigs : Sigs) (p q : Program) (s : State) :
    exec sigs (p ++ q) s = exec sigs q (exec sigs p s) := by
  induction p generalizing s with
  | nil => rfl
  | cons stp rest ih => simp [exec_cons, ih]

/-- a step keeps the value of a key it does not assign -/
theorem step_get_of_not_writes (sigs : Sigs) (stp : Step) (s : State) (k : String) (v : KV)
    (hw : writes k stp.stmt = false) (h : s.kwargs.get k = some v) :
    (step sigs stp s).kwargs.get k = some v := by
  unfold step
  split
  · exact h
  · split
    · exact h
    · rename_i b _
      cases b
      · simp only [Bool.false_eq_true, if_false]
        split <;> exact h
      · simp only [if_true]
        obtain ⟨g, st⟩ := stp
        cases st with
        | initScores => exact h
        | force k' v' =>
            have hk : ¬ k' = k := by simpa [writes] using hw
            simp [execStmt, hk, h]
        | setDefault k' v' =>
            have hk : ¬ k' = k := by simpa [writes] using hw
            simp [execStmt, hk, h]
        | save k' slot =>
            simp only [execStmt]
            split <;> exact h
        | restore k' slot =>
            have hk : ¬ k' = k := by simpa [writes] using hw
            simp only [execStmt]
            split
            · simp [hk, h]
            · exact h
        | call fn args named targets vf pk =>
            simp only [execStmt]
            split
            · exact h
            · split <;> exact h
        | ret => exact h

/-- what a step can add to the call list: nothing, or one record whose dictionary is `calleeKwargs` of the
    current dictionary -/
theorem step_records (sigs : Sigs) (stp : Step) (s : State) :
    (step sigs stp s).records = s.records ∨
    ∃ fn args named targets vf pk ckw,
      stp.stmt = .call fn args named targets vf pk ∧
      calleeKwargs sigs fn vf pk s.kwargs = .ok ckw ∧
      (step sigs stp s).records = s.records ++
        [{ idx := s.ncall, fn := fn, outs := scoreKeys targets, npos := args.length, named := named.map (·.1),
           viaFilter := vf, passKwargs := pk, kwargs := ckw }] := by
  unfold step
  split
  · exact Or.inl rfl
  · split
    · exact Or.inl rfl
    · rename_i b _
      cases b
      · simp only [Bool.false_eq_true, if_false]
        split <;> exact Or.inl rfl
      · simp only [if_true]
        obtain ⟨g, st⟩ := stp
        cases st with
        | initScores => exact Or.inl rfl
        | force k' v' => exact Or.inl rfl
        | setDefault k' v' => exact Or.inl rfl
        | save k' slot =>
            simp only [execStmt]
            split <;> exact Or.inl rfl
        | restore k' slot =>
            simp only [execStmt]
            split <;> exact Or.inl rfl
        | call fn args named targets vf pk =>
            simp only [execStmt]
            split
            · exact Or.inl rfl
            · rename_i ckw hck
              split
              · exact Or.inl rfl
              · exact Or.inr ⟨fn, args, named, targets, vf, pk, ckw, rfl, hck, rfl⟩
        | ret => exact Or.inl rfl

/-- the dictionary a callee receives gives key `k` the current value whenever the callee can see `k` -/
theorem calleeKwargs_get (sigs : Sigs) (fn : String) (vf pk : Bool) (kw ckw : Kwargs) (k : String) (v : KV)
    (h : calleeKwargs sigs fn vf pk kw = .ok ckw) (hk : kw.get k = some v) (hpk : pk = true)
    (hsee : vf = false ∨ ∃ sg, sigs.find fn = some sg ∧ sg.accepts k = true) : ckw.get k = some v := by
  subst hpk
  unfold calleeKwargs at h
  simp only [Bool.not_true, Bool.false_eq_true, if_false] at h
  cases vf with
  | false =>
      simp only [Bool.not_false, if_true, Except.ok.injEq] at h
      subst h; exact hk
  | true =>
      simp only [Bool.not_true, Bool.false_eq_true, if_false] at h
      rcases hsee with hv | ⟨sg, hf, ha⟩
      · cases hv
      · rw [hf] at h
        simp only [Except.ok.injEq] at h
        subst h
        simp [ha, hk]

/-- **Forced values reach the callees.**  If `kwargs[k]` is `v` and the rest of the program never assigns
    `kwargs[k]`, every call made from here on that hands `**kwargs` to a callee able to see `k` (directly, or
    through `filter_kwargs` to a function accepting `k`) gives it `k = v`. -/
theorem exec_forced_value (sigs : Sigs) (k : String) (v : KV) (p : Program) (s : State)
    (hget : s.kwargs.get k = some v) (hw : noWrite k p = true) :
    ∀ r ∈ (exec sigs p s).records, r ∈ s.records ∨
      (r.passKwargs = true →
        (r.viaFilter = false ∨ ∃ sg, sigs.find r.fn = some sg ∧ sg.accepts k = true) →
        r.kwargs.get k = some v) := by
  induction p generalizing s with
  | nil => intro r hr; exact Or.inl hr
  | cons stp rest ih =>
    intro r hr
    simp only [noWrite, List.all_cons, Bool.and_eq_true, Bool.not_eq_true'] at hw
    have hget' := step_get_of_not_writes sigs stp s k v hw.1 hget
    have hrest : noWrite k rest = true := by simpa [noWrite] using hw.2
    rcases ih (step sigs stp s) hget' hrest r (by simpa [exec_cons] using hr) with hmem | hgood
    · rcases step_records sigs stp s with heq | ⟨fn, args, named, targets, vf, pk, ckw, _, hck, heq⟩
      · rw [heq] at hmem; exact Or.inl hmem
      · rw [heq] at hmem
        rcases List.mem_append.1 hmem with hold | hnew
        · exact Or.inl hold
        · right
          simp only [List.mem_singleton] at hnew
          subst hnew
          intro hpk hsee
          exact calleeKwargs_get sigs fn vf pk s.kwargs ckw k v hck hget hpk hsee
    · exact Or.inr hgood

/-! ### unrelated keywords -/

/-- the state with keyword `u` removed from the dictionary -/
def State.eraseKw (s : State) (u : String) : State := { s with kwargs := s.kwargs.erase u }

theorem guardVal_erase (g : Guard) (kw : Kwargs) (u : String)
    (hu : u ∉ (match g with | .always => [] | .notNone k => [k] | .absent k => [k])) :
    guardVal g (kw.erase u) = guardVal g kw := by
  cases g with
  | always => rfl
  | notNone k =>
      have : k ≠ u := by simpa [eq_comm] using hu
      simp [guardVal, Kwargs.get_erase_of_ne kw u k this]
  | absent k =>
      have : k ≠ u := by simpa [eq_comm] using hu
      simp [guardVal, Kwargs.get_erase_of_ne kw u k this]

theorem calleeKwargs_erase (sigs : Sigs) (fn : String) (vf pk : Bool) (kw : Kwargs) (u : String)
    (h : pk = false ∨ (vf = true ∧ ∃ sg, sigs.find fn = some sg ∧ sg.varKw = false ∧ u ∉ sg.params)) :
    calleeKwargs sigs fn vf pk (kw.erase u) = calleeKwargs sigs fn vf pk kw := by
  rcases h with hpk | ⟨hvf, sg, hf, hv, hp⟩
  · subst hpk; rfl
  · subst hvf
    cases pk with
    | false => rfl
    | true =>
        have ha : sg.accepts u = false := by simp [Sig.accepts, hv, hp]
        simp [calleeKwargs, hf, filterKwargs_erase_of_not_accepts sg kw u ha]

theorem step_erase (sigs : Sigs) (stp : Step) (s : State) (u : String)
    (hu : u ∉ stp.related sigs) (hf : stp.filtered sigs = true) :
    step sigs stp (s.eraseKw u) = (step sigs stp s).eraseKw u := by
  obtain ⟨g, st⟩ := stp
  have hg : u ∉ (match g with | .always => [] | .notNone k => [k] | .absent k => [k]) := by
    intro hmem
    exact hu (by simp only [Step.related, Step.mentions, List.mem_append]; exact Or.inl (Or.inl hmem))
  have hgv := guardVal_erase g s.kwargs u hg
  unfold step
  simp only [State.eraseKw, hgv]
  split
  · rfl
  · split
    · rfl
    · rename_i b _
      cases b
      · simp only [Bool.false_eq_true, if_false]
        split <;> rfl
      · simp only [if_true]
        cases st with
        | initScores => rfl
        | ret => rfl
        | force k v =>
            have hk : k ≠ u := by
              intro e; exact hu (by simp [Step.related, Step.mentions, e])
            simp [execStmt, Kwargs.erase_set_of_ne _ u k v hk]
        | setDefault k v =>
            have hk : k ≠ u := by
              intro e; exact hu (by simp [Step.related, Step.mentions, e])
            simp [execStmt, Kwargs.erase_setDefault_of_ne _ u k v hk]
        | save k slot =>
            have hk : k ≠ u := by
              intro e; exact hu (by simp [Step.related, Step.mentions, e])
            simp only [execStmt, Kwargs.get_erase_of_ne _ u k hk]
            split <;> rfl
        | restore k slot =>
            have hk : k ≠ u := by
              intro e; exact hu (by simp [Step.related, Step.mentions, e])
            simp only [execStmt]
            split
            · simp [Kwargs.erase_set_of_ne _ u k _ hk]
            · rfl
        | call fn args named targets vf pk =>
            have hc : calleeKwargs sigs fn vf pk (s.kwargs.erase u) = calleeKwargs sigs fn vf pk s.kwargs := by
              apply calleeKwargs_erase
              cases pk with
              | false => exact Or.inl rfl
              | true =>
                  right
                  simp only [Step.filtered, Step.kwCallee, Bool.and_eq_true] at hf
                  refine ⟨hf.1, ?_⟩
                  cases hfind : sigs.find fn with
                  | none => simp [hfind] at hf
                  | some sg =>
                      refine ⟨sg, rfl, ?_, ?_⟩
                      · simpa [hfind] using hf.2
                      · intro hmem
                        exact hu (by simp [Step.related, Step.kwCallee, hfind, hmem])
            simp only [execStmt, hc]
            split
            · rfl
            · split <;> rfl

theorem exec_erase (sigs : Sigs) (p : Program) (s : State) (u : String)
    (hu : u ∉ relatedKeys sigs p) (hf : allFiltered sigs p = true) :
    exec sigs p (s.eraseKw u) = (exec sigs p s).eraseKw u := by
  induction p generalizing s with
  | nil => rfl
  | cons stp rest ih =>
    simp only [relatedKeys, List.flatMap_cons, List.mem_append, not_or] at hu
    simp only [allFiltered, List.all_cons, Bool.and_eq_true] at hf
    rw [exec_cons, exec_cons, step_erase sigs stp s u hu.1 hf.1]
    exact ih _ hu.2 hf.2

/-- **Unrelated keywords are ignored**: removing every entry named `u` from the caller's dictionary changes
    neither the calls made (functions, score keys, dictionaries received) nor the outcome. -/
theorem final_erase (sigs : Sigs) (p : Program) (kw : Kwargs) (u : String)
    (hu : u ∉ relatedKeys sigs p) (hf : allFiltered sigs p = true) :
    final p sigs (kw.erase u) = (final p sigs kw).eraseKw u := by
  unfold final
  exact exec_erase sigs p { kwargs := kw } u hu hf

theorem run_erase (sigs : Sigs) (p : Program) (kw : Kwargs) (u : String)
    (hu : u ∉ relatedKeys sigs p) (hf : allFiltered sigs p = true) :
    run p sigs (kw.erase u) = run p sigs kw ∧ runErr p sigs (kw.erase u) = runErr p sigs kw ∧
    returns p sigs (kw.erase u) = returns p sigs kw := by
  simp only [run, runErr, returns, final_erase sigs p kw u hu hf, State.eraseKw, and_self]

end Mir.EvalProg
