import MirProofs.Lemmas.EvalProg
import MirModel.EvalSpec
import MirGen
/-!
  Per-task symbolic execution of the GENERATED `evaluate()` programs, for an arbitrary keyword dictionary `kw` and
  an arbitrary signature table `sigs` that has the generated rows for the task's callees (`Gen.SigsOk_<task>`).
  `Props/C03.lean` instantiates `sigs := Gen.sigs`.

  Each `<task>_aux` states, for ALL `kw`: the body raises nothing and reaches `return scores`; what every callee
  effectively receives equals what the documented bundle (`EvalSpec.<task>`) says; and the key list of the result.
-/
namespace Mir.EvalProg

/-- unfold the interpreter and the specification on a concrete program; `*` brings the callee signatures and the
    case hypotheses on `kw` -/
macro "routes_simp" : tactic => `(tactic|
  simp (disch := first | rfl | decide)
    [*, run, runErr, returns, producedKeys, keysOf, addKeys, final, exec, step, execStmt, guardVal, isCall,
     calleeKwargs, scoreKeys, effectiveCalls, effective, effView, Spec.effCalls, specCallsAux, condHolds, applyAll,
     applyDefaults, Sig.accepts, rejected_filterKwargs, filterKwargs_varKw, slotGet, EvalSpec.sc, EvalSpec.vs,
     EvalSpec.half])

/-- the conclusion shared by all tasks -/
def RoutesAs (p : Program) (sp : Spec) (sigs : Sigs) (kw : Kwargs) (keys : List String) : Prop :=
  runErr p sigs kw = none ∧ returns p sigs kw = true ∧
  effectiveCalls sigs (run p sigs kw) = sp.effCalls sigs kw ∧
  producedKeys p sigs kw = keys

set_option maxRecDepth 8000

theorem beat_aux (sigs : Sigs) (h : Gen.SigsOk_beat sigs) (kw : Kwargs) :
    RoutesAs Gen.prog_beat EvalSpec.beat sigs kw
      ["F-measure", "Cemgil", "Cemgil Best Metric Level", "Goto", "P-score",
        "Correct Metric Level Continuous", "Correct Metric Level Total", "Any Metric Level Continuous",
        "Any Metric Level Total", "Information gain"] := by
  simp only [Gen.SigsOk_beat] at h
  simp only [Gen.prog_beat, EvalSpec.beat]
  unfold RoutesAs; routes_simp

theorem onset_aux (sigs : Sigs) (h : Gen.SigsOk_onset sigs) (kw : Kwargs) :
    RoutesAs Gen.prog_onset EvalSpec.onset sigs kw
      ["F-measure", "Precision", "Recall"] := by
  simp only [Gen.SigsOk_onset] at h
  simp only [Gen.prog_onset, EvalSpec.onset]
  unfold RoutesAs; routes_simp

theorem segment_aux (sigs : Sigs) (h : Gen.SigsOk_segment sigs) (kw : Kwargs) :
    RoutesAs Gen.prog_segment EvalSpec.segment sigs kw
      ["Precision@0.5", "Recall@0.5", "F-measure@0.5", "Precision@3.0", "Recall@3.0", "F-measure@3.0",
        "Ref-to-est deviation", "Est-to-ref deviation", "Pairwise Precision", "Pairwise Recall",
        "Pairwise F-measure", "Rand Index", "Adjusted Rand Index", "Mutual Information",
        "Adjusted Mutual Information", "Normalized Mutual Information", "NCE Over", "NCE Under",
        "NCE F-measure", "V Precision", "V Recall", "V-measure"] := by
  simp only [Gen.SigsOk_segment] at h
  simp only [Gen.prog_segment, EvalSpec.segment]
  unfold RoutesAs; routes_simp

theorem chord_aux (sigs : Sigs) (h : Gen.SigsOk_chord sigs) (kw : Kwargs) :
    RoutesAs Gen.prog_chord EvalSpec.chord sigs kw
      ["thirds", "thirds_inv", "triads", "triads_inv", "tetrads", "tetrads_inv", "root", "mirex",
        "majmin", "majmin_inv", "sevenths", "sevenths_inv", "underseg", "overseg", "seg"] := by
  simp only [Gen.SigsOk_chord] at h
  simp only [Gen.prog_chord, EvalSpec.chord, EvalSpec.chordCmp]
  unfold RoutesAs; routes_simp

theorem melody_aux (sigs : Sigs) (h : Gen.SigsOk_melody sigs) (kw : Kwargs) :
    RoutesAs Gen.prog_melody EvalSpec.melody sigs kw
      ["Voicing Recall", "Voicing False Alarm", "Raw Pitch Accuracy", "Raw Chroma Accuracy", "Overall Accuracy"] := by
  simp only [Gen.SigsOk_melody] at h
  simp only [Gen.prog_melody, EvalSpec.melody]
  unfold RoutesAs; routes_simp

theorem multipitch_aux (sigs : Sigs) (h : Gen.SigsOk_multipitch sigs) (kw : Kwargs) :
    RoutesAs Gen.prog_multipitch EvalSpec.multipitch sigs kw
      ["Precision", "Recall", "Accuracy", "Substitution Error", "Miss Error", "False Alarm Error",
        "Total Error", "Chroma Precision", "Chroma Recall", "Chroma Accuracy", "Chroma Substitution Error",
        "Chroma Miss Error", "Chroma False Alarm Error", "Chroma Total Error"] := by
  simp only [Gen.SigsOk_multipitch] at h
  simp only [Gen.prog_multipitch, EvalSpec.multipitch]
  unfold RoutesAs; routes_simp

theorem transcription_aux (sigs : Sigs) (h : Gen.SigsOk_transcription sigs) (kw : Kwargs) :
    RoutesAs Gen.prog_transcription EvalSpec.transcription sigs kw
      (if (kw.get "offset_ratio").getD (.flt (mkRat 1 5)) = KV.none
      then ["Precision_no_offset", "Recall_no_offset", "F-measure_no_offset",
        "Average_Overlap_Ratio_no_offset", "Onset_Precision", "Onset_Recall", "Onset_F-measure"]
      else ["Precision", "Recall", "F-measure", "Average_Overlap_Ratio", "Precision_no_offset",
        "Recall_no_offset", "F-measure_no_offset", "Average_Overlap_Ratio_no_offset", "Onset_Precision",
        "Onset_Recall", "Onset_F-measure", "Offset_Precision", "Offset_Recall", "Offset_F-measure"]) := by
  simp only [Gen.SigsOk_transcription] at h
  simp only [Gen.prog_transcription, EvalSpec.transcription]
  rcases h0 : kw.get "offset_ratio" with _ | v
  · unfold RoutesAs; routes_simp
  · by_cases hv : v = KV.none
    · subst hv; unfold RoutesAs; routes_simp
    · unfold RoutesAs; routes_simp

theorem transcription_velocity_aux (sigs : Sigs) (h : Gen.SigsOk_transcription_velocity sigs) (kw : Kwargs) :
    RoutesAs Gen.prog_transcription_velocity EvalSpec.transcription_velocity sigs kw
      (if (kw.get "offset_ratio").getD (.flt (mkRat 1 5)) = KV.none
      then ["Precision_no_offset", "Recall_no_offset", "F-measure_no_offset", "Average_Overlap_Ratio_no_offset"]
      else ["Precision", "Recall", "F-measure", "Average_Overlap_Ratio", "Precision_no_offset",
        "Recall_no_offset", "F-measure_no_offset", "Average_Overlap_Ratio_no_offset"]) := by
  simp only [Gen.SigsOk_transcription_velocity] at h
  simp only [Gen.prog_transcription_velocity, EvalSpec.transcription_velocity]
  rcases h0 : kw.get "offset_ratio" with _ | v
  · unfold RoutesAs; routes_simp
  · by_cases hv : v = KV.none
    · subst hv; unfold RoutesAs; routes_simp
    · unfold RoutesAs; routes_simp

theorem tempo_aux (sigs : Sigs) (h : Gen.SigsOk_tempo sigs) (kw : Kwargs) :
    RoutesAs Gen.prog_tempo EvalSpec.tempo sigs kw
      ["P-score", "One-correct", "Both-correct"] := by
  simp only [Gen.SigsOk_tempo] at h
  simp only [Gen.prog_tempo, EvalSpec.tempo]
  unfold RoutesAs; routes_simp

theorem key_aux (sigs : Sigs) (h : Gen.SigsOk_key sigs) (kw : Kwargs) :
    RoutesAs Gen.prog_key EvalSpec.key sigs kw
      ["Weighted Score"] := by
  simp only [Gen.SigsOk_key] at h
  simp only [Gen.prog_key, EvalSpec.key]
  unfold RoutesAs; routes_simp

theorem pattern_aux (sigs : Sigs) (h : Gen.SigsOk_pattern sigs) (kw : Kwargs) :
    RoutesAs Gen.prog_pattern EvalSpec.pattern sigs kw
      ["F", "P", "R", "F_est", "P_est", "R_est", "F_occ.5", "P_occ.5", "R_occ.5", "F_occ.75", "P_occ.75",
        "R_occ.75", "F_3", "P_3", "R_3", "FFP", "FFTP_est"] := by
  simp only [Gen.SigsOk_pattern] at h
  simp only [Gen.prog_pattern, EvalSpec.pattern]
  rcases h0 : kw.get "n" with _ | v
  · unfold RoutesAs; routes_simp
  · unfold RoutesAs; routes_simp

theorem hierarchy_aux (sigs : Sigs) (h : Gen.SigsOk_hierarchy sigs) (kw : Kwargs) :
    RoutesAs Gen.prog_hierarchy EvalSpec.hierarchy sigs kw
      ["T-Precision reduced", "T-Recall reduced", "T-Measure reduced", "T-Precision full",
        "T-Recall full", "T-Measure full", "L-Precision", "L-Recall", "L-Measure"] := by
  simp only [Gen.SigsOk_hierarchy] at h
  simp only [Gen.prog_hierarchy, EvalSpec.hierarchy]
  unfold RoutesAs; routes_simp

theorem alignment_aux (sigs : Sigs) (h : Gen.SigsOk_alignment sigs) (kw : Kwargs) :
    RoutesAs Gen.prog_alignment EvalSpec.alignment sigs kw
      ["pc", "mae", "aae", "pcs", "perceptual"] := by
  simp only [Gen.SigsOk_alignment] at h
  simp only [Gen.prog_alignment, EvalSpec.alignment]
  unfold RoutesAs; routes_simp

end Mir.EvalProg
