import MirProofs.Lemmas.HitMetric
/-! windowed event feasibility `|r - e| ≤ w` (beat F-measure, onset, boundary detection) -/
namespace Mir

theorem withinWindow_iff (w r e : Rat) : withinWindow w r e = true ↔ |r - e| ≤ w := by
  unfold withinWindow
  simp only [decide_eq_true_eq, abs_le]
  constructor <;> rintro ⟨h1, h2⟩ <;> constructor <;> linarith

theorem withinWindow_symm (w r e : Rat) : withinWindow w e r = withinWindow w r e := by
  apply Bool.eq_iff_iff.2
  rw [withinWindow_iff, withinWindow_iff, abs_sub_comm]

theorem withinWindow_refl {w : Rat} (hw : 0 ≤ w) (x : Rat) : withinWindow w x x = true := by
  rw [withinWindow_iff]; simpa using hw

theorem withinWindow_mono {w w' : Rat} (h : w ≤ w') (r e : Rat) :
    withinWindow w r e = true → withinWindow w' r e = true := by
  rw [withinWindow_iff, withinWindow_iff]; intro h1; exact le_trans h1 h

theorem withinWindow_shift (w c r e : Rat) : withinWindow w (r + c) (e + c) = withinWindow w r e := by
  apply Bool.eq_iff_iff.2
  rw [withinWindow_iff, withinWindow_iff]
  have : r + c - (e + c) = r - e := by ring
  rw [this]

/-- `prf` is monotone in the hit count -/
theorem prf_mono {k k' n m : Nat} (beta : Rat) (h : k ≤ k') :
    (prf k n m beta).1 ≤ (prf k' n m beta).1 ∧ (prf k n m beta).2.1 ≤ (prf k' n m beta).2.1 ∧
      (prf k n m beta).2.2 ≤ (prf k' n m beta).2.2 := by
  have hk : (k : Rat) ≤ k' := by exact_mod_cast h
  have hm : (0 : Rat) ≤ m := by exact_mod_cast Nat.zero_le m
  have hn : (0 : Rat) ≤ n := by exact_mod_cast Nat.zero_le n
  have hk0 : (0 : Rat) ≤ k := by exact_mod_cast Nat.zero_le k
  have hp : (k : Rat) / m ≤ (k' : Rat) / m := div_le_div_of_nonneg_right hk hm
  have hr : (k : Rat) / n ≤ (k' : Rat) / n := div_le_div_of_nonneg_right hk hn
  exact ⟨hp, hr, fMeasure_mono (div_nonneg hk0 hm) (div_nonneg hk0 hn) hp hr⟩

/-- a looser criterion never lowers precision, recall or F (any beta) -/
theorem hitPRF_mono {α β : Type} {feas feas' : α → β → Bool} (h : ∀ r e, feas r e = true → feas' r e = true)
    (ref : List α) (est : List β) (beta : Rat) :
    (hitPRF feas ref est beta).1 ≤ (hitPRF feas' ref est beta).1 ∧
    (hitPRF feas ref est beta).2.1 ≤ (hitPRF feas' ref est beta).2.1 ∧
    (hitPRF feas ref est beta).2.2 ≤ (hitPRF feas' ref est beta).2.2 := by
  unfold hitPRF
  split
  · simp
  · exact prf_mono beta (hitCount_mono h ref est)

end Mir
