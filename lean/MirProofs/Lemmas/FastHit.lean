import MirProofs.Lemmas.HitMetric
import Mathlib.Data.List.Sort
import Mathlib.Algebra.Order.Field.Rat
import Mathlib.Tactic.Linarith

/-! `util._fast_hit_windows` (argsort + two `searchsorted` + slice) enumerates exactly the pairs with
    `est_j - w ≤ ref_i ≤ est_j + w`. -/
namespace Mir

theorem mem_insertByVal (x y : Rat × Nat) (l : List (Rat × Nat)) :
    y ∈ insertByVal x l ↔ y = x ∨ y ∈ l := by
  induction l with
  | nil => simp [insertByVal]
  | cons z zs ih =>
    unfold insertByVal
    split
    · simp
    · simp only [List.mem_cons, ih]; tauto

theorem mem_sortByVal (y : Rat × Nat) (l : List (Rat × Nat)) : y ∈ sortByVal l ↔ y ∈ l := by
  induction l with
  | nil => simp [sortByVal]
  | cons z zs ih => simp [sortByVal, mem_insertByVal, ih]

def SortedByVal (l : List (Rat × Nat)) : Prop := l.Pairwise fun a b => a.1 ≤ b.1

theorem sorted_insertByVal (x : Rat × Nat) (l : List (Rat × Nat)) (h : SortedByVal l) :
    SortedByVal (insertByVal x l) := by
  induction l with
  | nil => simp [insertByVal, SortedByVal]
  | cons z zs ih =>
    unfold insertByVal
    have hz := List.pairwise_cons.1 h
    split
    · rename_i hlt
      refine List.pairwise_cons.2 ⟨?_, h⟩
      intro a ha
      rcases List.mem_cons.1 ha with rfl | ha
      · exact le_of_lt hlt
      · exact le_trans (le_of_lt hlt) (hz.1 a ha)
    · rename_i hnlt
      refine List.pairwise_cons.2 ⟨?_, ih hz.2⟩
      intro a ha
      rcases (mem_insertByVal x a zs).1 ha with rfl | ha
      · exact not_lt.1 hnlt
      · exact hz.1 a ha

theorem sorted_sortByVal (l : List (Rat × Nat)) : SortedByVal (sortByVal l) := by
  induction l with
  | nil => simp [sortByVal, SortedByVal]
  | cons z zs ih => exact sorted_insertByVal z _ ih

/-- dropping the `#{x < v}` first entries of a sorted list leaves exactly the entries with `v ≤ x` -/
theorem drop_searchLeft (s : List (Rat × Nat)) (h : SortedByVal s) (v : Rat) :
    s.drop (searchLeft s v) = s.filter fun x => decide (v ≤ x.1) := by
  induction s with
  | nil => simp [searchLeft]
  | cons z zs ih =>
    have hz := List.pairwise_cons.1 h
    by_cases hlt : z.1 < v
    · have : searchLeft (z :: zs) v = searchLeft zs v + 1 := by simp [searchLeft, hlt]
      rw [this, List.drop_succ_cons, ih hz.2]
      simp [not_le.2 hlt]
    · have hall : ∀ a ∈ zs, ¬ a.1 < v := fun a ha => not_lt.2 (le_trans (not_lt.1 hlt) (hz.1 a ha))
      have h0 : searchLeft (z :: zs) v = 0 := by
        simp only [searchLeft, List.length_eq_zero_iff, List.filter_eq_nil_iff, List.mem_cons, decide_eq_true_eq]
        rintro a (rfl | ha)
        · exact hlt
        · exact hall a ha
      rw [h0, List.drop_zero]
      symm
      apply List.filter_eq_self.2
      intro a ha
      rcases List.mem_cons.1 ha with rfl | ha
      · simpa using not_lt.1 hlt
      · simpa using not_lt.1 (hall a ha)

/-- taking the `#{x ≤ v}` first entries of a sorted list gives exactly the entries with `x ≤ v` -/
theorem take_searchRight (s : List (Rat × Nat)) (h : SortedByVal s) (v : Rat) :
    s.take (searchRight s v) = s.filter fun x => decide (x.1 ≤ v) := by
  induction s with
  | nil => simp [searchRight]
  | cons z zs ih =>
    have hz := List.pairwise_cons.1 h
    by_cases hle : z.1 ≤ v
    · have : searchRight (z :: zs) v = searchRight zs v + 1 := by simp [searchRight, hle]
      rw [this, List.take_succ_cons, ih hz.2]
      simp [hle]
    · have hall : ∀ a ∈ zs, ¬ a.1 ≤ v := fun a ha hh => hle (le_trans (hz.1 a ha) hh)
      have h0 : searchRight (z :: zs) v = 0 := by
        simp only [searchRight, List.length_eq_zero_iff, List.filter_eq_nil_iff, List.mem_cons, decide_eq_true_eq]
        rintro a (rfl | ha)
        · exact hle
        · exact hall a ha
      rw [h0, List.take_zero]
      symm
      apply List.filter_eq_nil_iff.2
      intro a ha
      rcases List.mem_cons.1 ha with rfl | ha
      · simpa using hle
      · simpa using hall a ha

theorem sorted_filter {s : List (Rat × Nat)} (h : SortedByVal s) (p : Rat × Nat → Bool) :
    SortedByVal (s.filter p) := List.Pairwise.sublist List.filter_sublist h

/-- the slice `[searchLeft lo, searchRight hi)` of a sorted list holds exactly the entries in `[lo, hi]` -/
theorem mem_slice (s : List (Rat × Nat)) (h : SortedByVal s) (lo hi : Rat) (x : Rat × Nat) :
    x ∈ (s.drop (searchLeft s lo)).take (searchRight s hi - searchLeft s lo) ↔
      x ∈ s ∧ lo ≤ x.1 ∧ x.1 ≤ hi := by
  rw [drop_searchLeft s h lo]
  set D := s.filter fun x => decide (lo ≤ x.1) with hD
  have hDs : SortedByVal D := sorted_filter h _
  -- the count of entries ≤ hi splits over the entries < lo and ≥ lo
  have hsplit : searchRight s hi = (s.filter fun x => decide (x.1 ≤ hi) && decide (x.1 < lo)).length +
      (s.filter fun x => decide (x.1 ≤ hi) && !decide (x.1 < lo)).length := by
    unfold searchRight
    rw [List.length_eq_length_filter_add (l := s.filter fun x => decide (x.1 ≤ hi)) (fun x => decide (x.1 < lo))]
    simp only [List.filter_filter]
    congr 2 <;> (apply List.filter_congr; intro a _; simp [Bool.and_comm])
  by_cases hlohi : lo ≤ hi
  · have h1 : (s.filter fun x => decide (x.1 ≤ hi) && decide (x.1 < lo)).length = searchLeft s lo := by
      unfold searchLeft
      congr 1
      apply List.filter_congr
      intro a _
      by_cases ha : a.1 < lo
      · simp [ha, le_trans (le_of_lt ha) hlohi]
      · simp [ha]
    have h2 : (s.filter fun x => decide (x.1 ≤ hi) && !decide (x.1 < lo)).length = searchRight D hi := by
      unfold searchRight
      rw [hD, List.filter_filter]
      congr 1
      apply List.filter_congr
      intro a _
      by_cases h1 : a.1 < lo
      · simp [h1, not_le.2 h1]
      · simp [h1, not_lt.1 h1]
    have : searchRight s hi - searchLeft s lo = searchRight D hi := by omega
    rw [this, take_searchRight D hDs hi, hD, List.mem_filter, List.mem_filter]
    simp [and_assoc]
  · have hle : searchRight s hi ≤ searchLeft s lo := by
      unfold searchRight searchLeft
      apply List.Sublist.length_le
      apply List.monotone_filter_right
      intro a
      simp only [decide_eq_true_eq]
      intro ha
      exact lt_of_le_of_lt ha (not_le.1 hlohi)
    have : searchRight s hi - searchLeft s lo = 0 := by omega
    rw [this, List.take_zero]
    simp only [List.not_mem_nil, false_iff, not_and]
    intro _ h1 h2
    exact hlohi (le_trans h1 h2)

/-- **`_fast_hit_windows` is the specification**: pair `(i, j)` is produced iff `est_j - w ≤ ref_i ≤ est_j + w`,
    for every (unsorted, duplicated) reference list, every estimate list and every window (a negative
    window produces nothing). -/
theorem fastHitWindows_spec (ref est : List Rat) (w : Rat) (i j : Nat) :
    (i, j) ∈ fastHitWindows ref est w ↔
      ∃ r e, ref[i]? = some r ∧ est[j]? = some e ∧ e - w ≤ r ∧ r ≤ e + w := by
  unfold fastHitWindows
  simp only [List.mem_flatMap, List.mem_map, Prod.exists, Prod.mk.injEq]
  constructor
  · rintro ⟨e, j', he, r, i', hx, rfl, rfl⟩
    have hs := (mem_slice _ (sorted_sortByVal _) (e - w) (e + w) (r, i')).1 hx
    exact ⟨r, e, (mem_enumFrom'_zero _ _ _).1 ((mem_sortByVal _ _).1 hs.1),
      (mem_enumFrom'_zero _ _ _).1 he, hs.2.1, hs.2.2⟩
  · rintro ⟨r, e, hr, he, h1, h2⟩
    refine ⟨e, j, (mem_enumFrom'_zero _ _ _).2 he, r, i, ?_, rfl, rfl⟩
    exact (mem_slice _ (sorted_sortByVal _) (e - w) (e + w) (r, i)).2
      ⟨(mem_sortByVal _ _).2 ((mem_enumFrom'_zero _ _ _).2 hr), h1, h2⟩

/-- the enumeration used by the code and the feasibility graph of `|r - e| ≤ w` have the same edges -/
theorem fastHitWindows_eq_hitGraph (ref est : List Rat) (w : Rat) (e : Edge) :
    e ∈ fastHitWindows ref est w ↔ e ∈ hitGraph (withinWindow w) ref est := by
  obtain ⟨i, j⟩ := e
  rw [fastHitWindows_spec, mem_hitGraph]
  simp [withinWindow]

/-- hence `len(util.match_events(ref, est, w))` is the hit count of the window criterion -/
theorem matchEventsSize_eq_hitCount (ref est : List Rat) (w : Rat) :
    matchEventsSize ref est w = hitCount (withinWindow w) ref est :=
  max_congr (fastHitWindows_eq_hitGraph ref est w)

end Mir
