import MirGen.Beat
import MirProofs.Lemmas.PyBeatP
import MirProofs.Lemmas.PyMel
import MirProofs.Lemmas.BeatDef
/-
  The generated `Mir.Gen.beat.p_score` (lean/MirGen/Beat.lean, regenerated from mir_eval/beat.py) equals the hand
  model: first the step-by-step `pScoreLiteral`, then (by `pScoreLiteral_eq`) the pair-count model `pScore`.
-/
namespace Mir.PyBeat
open Mir Mir.Beat Mir.PyMel

theorem pScoreLiteral_short (ref est : List Rat) (thr : Rat) (h : est.length ≤ 1 ∨ ref.length ≤ 1) :
    pScoreLiteral ref est thr = .ok 0 := by
  rcases ref with _ | ⟨r, _ | ⟨r', rs⟩⟩
  · rfl
  · cases est <;> rfl
  · rcases est with _ | ⟨e, _ | ⟨e', es⟩⟩
    · rfl
    · rfl
    · simp only [List.length_cons] at h; omega

theorem gen_tail_eq (N : Nat) (hN : 0 < N) (iR iE : List Int) (thr : Rat) (n : Nat) (hn : n ≠ 0) :
    (do let reference_train ← impulseTrain N iR
        let estimated_train ← impulseTrain N iE
        if decide (PyM.len (diffs (flatnonzero reference_train)) = 0) = true then pure (Segment.Num.val 0)
        else do
          let _t8 ← pyInt (npRound (nmul (Segment.Num.val thr) (median (diffs (flatnonzero reference_train)))))
          let _t9 ← correlate reference_train estimated_train
          pure (PyM.divNp ((sumNat (pySlice _t9 (((PyM.shape0 _t9 / 2 : Nat) : Int) - _t8)
                  (((PyM.shape0 _t9 / 2 : Nat) : Int) + _t8 + 1)) : Nat) : Rat) ((n : Nat) : Rat)))
      = Except.map Segment.Num.val (do
          let refTrain ← impulseTrain N iR
          let estTrain ← impulseTrain N iE
          match medianInt (diffs (flatnonzeroNatFrom 0 refTrain)) with
          | none => pure 0
          | some med => pure (((corrWindowSum refTrain estTrain (roundHalfEven (thr * med)) : Nat) : Rat) / ((n : Nat) : Rat))) := by
  cases hRt : impulseTrain N iR with
  | error err => simp only [error_bind, Except.map]
  | ok tR =>
    simp only [ok_bind]
    cases hEt : impulseTrain N iE with
    | error err => simp only [error_bind, Except.map]
    | ok tE =>
      simp only [ok_bind, flatnonzero]
      have hlR := impulseTrain_length hRt
      have hlE := impulseTrain_length hEt
      cases hmed : medianInt (diffs (flatnonzeroNatFrom 0 tR)) with
      | none =>
        have h0 := (medianInt_eq_none_iff _).1 hmed
        simp only [PyM.len, h0, decide_true, if_true, pure_eq, Except.map]
      | some med =>
        have h0 : ¬ (diffs (flatnonzeroNatFrom 0 tR)).length = 0 := by
          intro h; rw [(medianInt_eq_none_iff _).2 h] at hmed; cases hmed
        have hn' : ((n : Nat) : Rat) ≠ 0 := Nat.cast_ne_zero.2 hn
        simp only [PyM.len, h0, decide_false, Bool.false_eq_true, if_false, median_of_some hmed, pyInt_round_mul,
          ok_bind, correlate_of_pos (a := tR) (v := tE) (by omega) (by omega), pure_eq, Except.map, divNp_eq,
          Mir.Segment.npDiv, if_neg hn', corrWindowSum, PyM.shape0]

theorem gen_p_score_eq_literal (ref est : List Rat) (thr : Rat) :
    Mir.Gen.beat.p_score ref est thr
      = (do Mir.Beat.validate ref est; Mir.Beat.pScoreLiteral ref est thr).map Mir.Segment.Num.val := by
  unfold Mir.Gen.beat.p_score Mir.PyBeat.validate
  cases hv : Mir.Beat.validate ref est with
  | error err => simp only [error_bind, Except.map]
  | ok u =>
    simp only [ok_bind]
    by_cases hs : est.length ≤ 1 ∨ ref.length ≤ 1
    · have hc : (decide (PyM.len est ≤ 1) || decide (PyM.len ref ≤ 1)) = true := by
        simpa [PyM.len] using hs
      rw [if_pos hc, pScoreLiteral_short ref est thr hs]
      simp only [pure_eq, Except.map]
    · rcases ref with _ | ⟨r, _ | ⟨r', rs⟩⟩
      · simp at hs
      · simp at hs
      rcases est with _ | ⟨e, _ | ⟨e', es⟩⟩
      · simp at hs
      · simp at hs
      · have hR : ∀ b ∈ (r :: r' :: rs), _ := fun b hb => pscore_indices_in_range r (r' :: rs) e (e' :: es) b (Or.inl hb)
        have hE : ∀ b ∈ (e :: e' :: es), _ := fun b hb => pscore_indices_in_range r (r' :: rs) e (e' :: es) b (Or.inr hb)
        simp only at hR hE
        have hN : 0 < ((max (maxList e (e' :: es) - min (minList e (e' :: es)) (minList r (r' :: rs)))
            (maxList r (r' :: rs) - min (minList e (e' :: es)) (minList r (r' :: rs)))).ceil * 100 + 1).toNat := by
          have := hR r (by simp)
          omega
        have hlen : ¬ ((decide (PyM.len (e :: e' :: es) ≤ 1) || decide (PyM.len (r :: r' :: rs) ≤ 1)) = true) := by
          simp [PyM.len]
        rw [if_neg hlen]
        simp only [pScoreLiteral]
        rw [truncR_hundred, vmin_cons e, ok_bind, vmin_cons r, ok_bind]
        generalize ho : min (minList e (e' :: es)) (minList r (r' :: rs)) = o at hR hE hN ⊢
        have hmaxE : vmax (List.map (fun _v => _v - o) (e :: e' :: es)) = .ok (maxList e (e' :: es) - o) := by
          rw [List.map_cons, vmax_cons]; exact congrArg _ (maxList_map_sub e (e' :: es) o)
        have hmaxR : vmax (List.map (fun _v => _v - o) (r :: r' :: rs)) = .ok (maxList r (r' :: rs) - o) := by
          rw [List.map_cons, vmax_cons]; exact congrArg _ (maxList_map_sub r (r' :: rs) o)
        have hidx : ∀ l : List Rat,
            List.map Rat.ceil (List.map (fun _v => _v * (((100 : Int) : Int) : Rat)) (List.map (fun _v => _v - o) l))
              = l.map fun b => ((b - o) * 100).ceil := by
          intro l
          simp only [List.map_map]
          apply List.map_congr_left
          intro b _
          simp only [Function.comp, Int.cast_ofNat]
        have hlenE : PyM.shape0 (List.map (fun _v => _v - o) (e :: e' :: es)) = es.length + 2 := by
          simp [PyM.shape0]
        have hlenR : PyM.shape0 (List.map (fun _v => _v - o) (r :: r' :: rs)) = rs.length + 2 := by
          simp [PyM.shape0]
        rw [hmaxE, hmaxR, hidx, hidx, hlenE, hlenR]
        simp only [ok_bind]
        generalize hEP : (max (maxList e (e' :: es) - o) (maxList r (r' :: rs) - o)).ceil = EP at hR hE hN ⊢
        rw [zeros_of_nonneg _ (by omega)]
        simp only [ok_bind, setOnes_replicate]
        exact gen_tail_eq _ hN _ _ thr _ (by omega)

theorem gen_p_score_eq_model (ref est : List Rat) (thr : Rat) :
    Mir.Gen.beat.p_score ref est thr = (Mir.Beat.pScore ref est thr).map Mir.Segment.Num.val := by
  unfold Mir.Beat.pScore
  rw [gen_p_score_eq_literal]
  simp only [pScoreLiteral_eq]
  rfl

end Mir.PyBeat
