import MirModel.Hierarchy
import MirProofs.Lemmas.Scores
import Mathlib.Tactic.Ring
import Mathlib.Tactic.Linarith

/-! Helper lemmas for C17 (hierarchy T- and L-measures). -/
namespace Mir
namespace Hierarchy

/-! ### counting pairs -/

theorem countP_eq_sum_ind {α : Type} (p : α → Bool) (l : List α) :
    l.countP p = (l.map fun x => if p x then 1 else 0).sum := by
  induction l with
  | nil => rfl
  | cons x t ih =>
    simp only [List.countP_cons, List.map_cons, List.sum_cons, ih]
    split <;> omega

@[simp] theorem countPairs_nil {α β : Type} (p : α → β → Bool) (b : List β) : countPairs p [] b = 0 := by
  simp [countPairs, pairsOf]

theorem countPairs_cons {α β : Type} (p : α → β → Bool) (x : α) (a : List α) (b : List β) :
    countPairs p (x :: a) b = b.countP (p x) + countPairs p a b := by
  simp [countPairs, pairsOf, List.countP_append, List.countP_map, Function.comp_def]

@[simp] theorem countPairs_nil_right {α β : Type} (p : α → β → Bool) (a : List α) : countPairs p a [] = 0 := by
  induction a with
  | nil => simp
  | cons x t ih => simp [countPairs_cons, ih]

theorem countPairs_cons_right {α β : Type} (p : α → β → Bool) (a : List α) (y : β) (b : List β) :
    countPairs p a (y :: b) = a.countP (fun x => p x y) + countPairs p a b := by
  induction a with
  | nil => simp
  | cons x t ih =>
    simp only [countPairs_cons, List.countP_cons, ih]
    split <;> omega

theorem countPairs_swap {α β : Type} (p : α → β → Bool) (a : List α) (b : List β) :
    countPairs p a b = countPairs (fun y x => p x y) b a := by
  induction a with
  | nil => simp
  | cons x t ih => rw [countPairs_cons, countPairs_cons_right, ih]

theorem countPairs_eq_sum {α β : Type} (p : α → β → Bool) (a : List α) (b : List β) :
    countPairs p a b = (a.map fun x => b.countP (p x)).sum := by
  induction a with
  | nil => simp
  | cons x t ih => simp [countPairs_cons, ih]

theorem countPairs_congr {α β : Type} {p q : α → β → Bool} {a : List α} {b : List β}
    (h : ∀ x ∈ a, ∀ y ∈ b, p x y = q x y) : countPairs p a b = countPairs q a b := by
  induction a with
  | nil => simp
  | cons x t ih =>
    rw [countPairs_cons, countPairs_cons, ih (fun x' hx' => h x' (List.mem_cons_of_mem _ hx'))]
    congr 1
    exact List.countP_congr (fun y hy => by simp [h x List.mem_cons_self y hy])

/-! ### `np.unique` with counts, and the two-pointer inversion count -/

/-- weighted sum over a (value, count) list -/
def wsum (f : Nat → Nat) (u : List (Nat × Nat)) : Nat := (u.map fun p => p.2 * f p.1).sum

@[simp] theorem wsum_nil (f : Nat → Nat) : wsum f [] = 0 := rfl
@[simp] theorem wsum_cons (f : Nat → Nat) (p : Nat × Nat) (u : List (Nat × Nat)) :
    wsum f (p :: u) = p.2 * f p.1 + wsum f u := by simp [wsum]

theorem wsum_congr {f g : Nat → Nat} {u : List (Nat × Nat)} (h : ∀ p ∈ u, f p.1 = g p.1) :
    wsum f u = wsum g u := by
  induction u with
  | nil => rfl
  | cons p t ih =>
    simp only [wsum_cons]
    rw [h p List.mem_cons_self, ih (fun q hq => h q (List.mem_cons_of_mem _ hq))]

theorem wsum_zero (u : List (Nat × Nat)) : wsum (fun _ => 0) u = 0 := by
  induction u with
  | nil => rfl
  | cons p t ih => simp [ih]

theorem wsum_one (u : List (Nat × Nat)) : wsum (fun _ => 1) u = sumCounts u := by
  induction u with
  | nil => rfl
  | cons p t ih => simp [sumCounts] at ih ⊢; omega

theorem wsum_insertCount (f : Nat → Nat) (x : Nat) (u : List (Nat × Nat)) :
    wsum f (insertCount x u) = f x + wsum f u := by
  induction u with
  | nil => simp [insertCount]
  | cons p t ih =>
    obtain ⟨v, c⟩ := p
    simp only [insertCount]
    split
    · simp
    · split
      · subst_vars; simp [Nat.add_mul]; omega
      · simp [ih]; omega

theorem wsum_uniqueCounts (f : Nat → Nat) (a : List Nat) :
    wsum f (uniqueCounts a) = (a.map f).sum := by
  induction a with
  | nil => rfl
  | cons x t ih => simp [uniqueCounts, wsum_insertCount] at ih ⊢; rw [← ih]

/-- strictly ascending keys -/
def KeysAsc (u : List (Nat × Nat)) : Prop := u.Pairwise fun p q => p.1 < q.1

theorem insertCount_keys {x : Nat} {u : List (Nat × Nat)} {p : Nat × Nat} (hp : p ∈ insertCount x u) :
    p.1 = x ∨ ∃ q ∈ u, q.1 = p.1 := by
  induction u with
  | nil => simp [insertCount] at hp; left; rw [hp]
  | cons r t ih =>
    obtain ⟨v, c⟩ := r
    simp only [insertCount] at hp
    split at hp
    · rcases List.mem_cons.1 hp with h | h
      · left; rw [h]
      · right; exact ⟨p, h, rfl⟩
    · split at hp
      · rcases List.mem_cons.1 hp with h | h
        · right; exact ⟨(v, c), List.mem_cons_self, by rw [h]⟩
        · right; exact ⟨p, List.mem_cons_of_mem _ h, rfl⟩
      · rcases List.mem_cons.1 hp with h | h
        · right; exact ⟨(v, c), List.mem_cons_self, by rw [h]⟩
        · rcases ih h with h' | ⟨q, hq, hq'⟩
          · left; exact h'
          · right; exact ⟨q, List.mem_cons_of_mem _ hq, hq'⟩

theorem keysAsc_insertCount {x : Nat} {u : List (Nat × Nat)} (h : KeysAsc u) : KeysAsc (insertCount x u) := by
  induction u with
  | nil => simp [insertCount, KeysAsc]
  | cons r t ih =>
    obtain ⟨v, c⟩ := r
    have ht : KeysAsc t := (List.pairwise_cons.1 h).2
    have hv : ∀ q ∈ t, v < q.1 := (List.pairwise_cons.1 h).1
    simp only [insertCount]
    split
    · rename_i hlt
      refine List.pairwise_cons.2 ⟨?_, h⟩
      intro q hq
      rcases List.mem_cons.1 hq with h' | h'
      · rw [h']; exact hlt
      · exact Nat.lt_trans hlt (hv q h')
    · split
      · exact List.pairwise_cons.2 ⟨hv, ht⟩
      · rename_i h1 h2
        refine List.pairwise_cons.2 ⟨?_, ih ht⟩
        intro q hq
        rcases insertCount_keys hq with h' | ⟨q', hq', e⟩
        · show v < q.1; omega
        · show v < q.1; rw [← e]; exact hv q' hq'

theorem keysAsc_uniqueCounts (a : List Nat) : KeysAsc (uniqueCounts a) := by
  induction a with
  | nil => simp [uniqueCounts, KeysAsc]
  | cons x t ih => exact keysAsc_insertCount ih

theorem mem_keys_insertCount_self (x : Nat) (u : List (Nat × Nat)) : x ∈ (insertCount x u).map (·.1) := by
  induction u with
  | nil => simp [insertCount]
  | cons r t ih =>
    obtain ⟨v, c⟩ := r
    simp only [insertCount]
    split
    · simp
    · split
      · subst_vars; simp
      · simp only [List.map_cons, List.mem_cons]; right; exact ih

theorem mem_keys_insertCount_of_mem {x y : Nat} {u : List (Nat × Nat)} (h : y ∈ u.map (·.1)) :
    y ∈ (insertCount x u).map (·.1) := by
  induction u with
  | nil => simp at h
  | cons r t ih =>
    obtain ⟨v, c⟩ := r
    simp only [insertCount]
    split
    · simp only [List.map_cons, List.mem_cons] at h ⊢; right; exact h
    · split
      · simpa using h
      · simp only [List.map_cons, List.mem_cons] at h ⊢
        rcases h with h | h
        · left; exact h
        · right; exact ih h

theorem mem_keys_uniqueCounts {x : Nat} {a : List Nat} (h : x ∈ a) : x ∈ (uniqueCounts a).map (·.1) := by
  induction a with
  | nil => simp at h
  | cons y t ih =>
    rcases List.mem_cons.1 h with h | h
    · subst h; exact mem_keys_insertCount_self _ _
    · exact mem_keys_insertCount_of_mem (ih h)

/-- what the two-pointer loop computes on ascending inputs -/
theorem mergeInv_spec (ua ub : List (Nat × Nat)) (ha : KeysAsc ua) (hb : KeysAsc ub) :
    mergeInv ua ub = wsum (fun w => wsum (fun v => if w ≤ v then 1 else 0) ua) ub := by
  fun_induction mergeInv ua ub with
  | case1 ub => simp [wsum_zero]
  | case2 _ _ => simp
  | case3 v c ta w d tb hlt ih =>
    rw [ih (List.pairwise_cons.1 ha).2 hb]
    apply wsum_congr
    intro p hp
    have hw : w ≤ p.1 := by
      rcases List.mem_cons.1 hp with h | h
      · rw [h]
      · exact Nat.le_of_lt ((List.pairwise_cons.1 hb).1 p h)
    have : ¬ p.1 ≤ v := by omega
    simp [this]
  | case4 v c ta w d tb hge ih =>
    rw [ih ha (List.pairwise_cons.1 hb).2]
    have hall : wsum (fun v' => if w ≤ v' then 1 else 0) ((v, c) :: ta) = sumCounts ((v, c) :: ta) := by
      rw [← wsum_one]
      apply wsum_congr
      intro p hp
      have : w ≤ p.1 := by
        rcases List.mem_cons.1 hp with h | h
        · rw [h]; show w ≤ v; omega
        · have := (List.pairwise_cons.1 ha).1 p h; show w ≤ p.1; omega
      simp [this]
    rw [wsum_cons, hall]
    simp only
    rw [Nat.mul_comm]

theorem countInversions_eq_countPairs (a b : List Nat) :
    countInversions a b = countPairs (fun x y => decide (y ≤ x)) a b := by
  unfold countInversions
  rw [mergeInv_spec _ _ (keysAsc_uniqueCounts a) (keysAsc_uniqueCounts b)]
  have h1 : (fun w => wsum (fun v => if w ≤ v then 1 else 0) (uniqueCounts a))
      = fun w => a.countP (fun x => decide (w ≤ x)) := by
    funext w
    rw [wsum_uniqueCounts, countP_eq_sum_ind]
    congr 1
    apply List.map_congr_left
    intro x _
    by_cases h : w ≤ x <;> simp [h]
  rw [h1, wsum_uniqueCounts, countPairs_swap, countPairs_eq_sum]

/-! ### `_compare_frame_rankings` -/

theorem countP_or_disjoint {α : Type} (p q : α → Bool) (l : List α)
    (h : ∀ x ∈ l, ¬ (p x = true ∧ q x = true)) :
    l.countP (fun x => p x || q x) = l.countP p + l.countP q := by
  induction l with
  | nil => rfl
  | cons x t ih =>
    have hx := h x List.mem_cons_self
    simp only [List.countP_cons, ih (fun y hy => h y (List.mem_cons_of_mem _ hy))]
    cases hp : p x <;> cases hq : q x <;> simp_all <;> omega

theorem sum_countP_keys {α κ : Type} [DecidableEq κ] (key : α → κ) (r : α → Bool) (l : List α)
    (ks : List κ) (hnd : ks.Nodup) :
    (ks.map fun k => l.countP (fun x => decide (key x = k) && r x)).sum
      = l.countP (fun x => decide (key x ∈ ks) && r x) := by
  induction ks with
  | nil => simp
  | cons k ks ih =>
    obtain ⟨hk, hnd'⟩ := List.nodup_cons.1 hnd
    rw [List.map_cons, List.sum_cons, ih hnd']
    rw [← countP_or_disjoint]
    · apply List.countP_congr
      intro x _
      by_cases h1 : key x = k <;> by_cases h2 : key x ∈ ks <;> simp [h1, h2]
    · intro x _ ⟨h1, h2⟩
      simp only [Bool.and_eq_true, decide_eq_true_eq] at h1 h2
      exact hk (h1.1 ▸ h2.1)

theorem countPairs_map {α β γ δ : Type} (p : γ → δ → Bool) (f : α → γ) (g : β → δ)
    (a : List α) (b : List β) :
    countPairs p (a.map f) (b.map g) = countPairs (fun x y => p (f x) (g y)) a b := by
  induction a with
  | nil => simp
  | cons x t ih => simp [countPairs_cons, ih, List.countP_map, Function.comp_def]

theorem countPairs_filter {α β : Type} (p : α → β → Bool) (f : α → Bool) (g : β → Bool)
    (a : List α) (b : List β) :
    countPairs p (a.filter f) (b.filter g) = countPairs (fun x y => f x && g y && p x y) a b := by
  induction a with
  | nil => simp
  | cons x t ih =>
    rw [List.filter_cons]
    split
    · rename_i hf
      rw [countPairs_cons, countPairs_cons, ih, List.countP_filter]
      congr 1
      apply List.countP_congr
      intro y _
      simp [hf, Bool.and_comm]
    · rename_i hf
      rw [countPairs_cons, ih]
      simp [hf]

theorem countPairs_prod {α β : Type} (f : α → Bool) (g : β → Bool) (a : List α) (b : List β) :
    countPairs (fun x y => f x && g y) a b = a.countP f * b.countP g := by
  induction a with
  | nil => simp
  | cons x t ih =>
    rw [countPairs_cons, ih, List.countP_cons]
    cases hf : f x
    · simp
    · simp only [Bool.true_and, if_true, Nat.add_mul, Nat.one_mul]
      exact Nat.add_comm _ _

theorem lookupCount_eq_wsum (u : List (Nat × Nat)) (h : KeysAsc u) (l : Nat) :
    lookupCount u l = wsum (fun v => if v = l then 1 else 0) u := by
  induction u with
  | nil => rfl
  | cons p t ih =>
    obtain ⟨v, c⟩ := p
    have ht := (List.pairwise_cons.1 h).2
    have hv := (List.pairwise_cons.1 h).1
    by_cases hvl : v = l
    · have hz : wsum (fun v => if v = l then 1 else 0) t = wsum (fun _ => 0) t := by
        apply wsum_congr
        intro q hq
        have := hv q hq
        have : ¬ q.1 = l := by simp only at this; omega
        simp [this]
      simp [lookupCount, hvl, hz, wsum_zero]
    · have := ih ht
      simp only [lookupCount] at this
      simp [lookupCount, hvl, this]

theorem lookupCount_uniqueCounts (a : List Nat) (l : Nat) :
    lookupCount (uniqueCounts a) l = a.countP (fun x => x == l) := by
  rw [lookupCount_eq_wsum _ (keysAsc_uniqueCounts a), wsum_uniqueCounts, countP_eq_sum_ind]
  congr 1
  apply List.map_congr_left
  intro x _
  by_cases h : x = l <;> simp [h]

theorem mem_combos2 {l : List Nat} (h : l.Pairwise (· < ·)) (a b : Nat) :
    (a, b) ∈ combos2 l ↔ a ∈ l ∧ b ∈ l ∧ a < b := by
  induction l with
  | nil => simp [combos2]
  | cons x xs ih =>
    obtain ⟨hx, hxs⟩ := List.pairwise_cons.1 h
    simp only [combos2, List.mem_append, List.mem_map, Prod.mk.injEq, ih hxs, List.mem_cons]
    constructor
    · rintro (⟨y, hy, rfl, rfl⟩ | ⟨h1, h2, h3⟩)
      · exact ⟨Or.inl rfl, Or.inr hy, hx _ hy⟩
      · exact ⟨Or.inr h1, Or.inr h2, h3⟩
    · rintro ⟨h1 | h1, h2 | h2, h3⟩
      · omega
      · left; exact ⟨b, h2, h1.symm, rfl⟩
      · have := hx _ h1; omega
      · right; exact ⟨h1, h2, h3⟩

theorem nodup_combos2 {l : List Nat} (h : l.Pairwise (· < ·)) : (combos2 l).Nodup := by
  induction l with
  | nil => simp [combos2]
  | cons x xs ih =>
    obtain ⟨hx, hxs⟩ := List.pairwise_cons.1 h
    simp only [combos2]
    refine List.nodup_append.2 ⟨?_, ih hxs, ?_⟩
    · unfold List.Nodup
      rw [List.pairwise_map]
      exact hxs.imp (fun hab heq => by simp at heq; omega)
    · intro p hp q hq heq
      obtain ⟨y, hy, rfl⟩ := List.mem_map.1 hp
      subst heq
      have := ((mem_combos2 hxs x y).1 hq).1
      have := hx _ this
      omega

theorem levels_pairwise (ref : List Nat) : ((uniqueCounts ref).map (·.1)).Pairwise (· < ·) := by
  rw [List.pairwise_map]
  exact keysAsc_uniqueCounts ref

theorem nodup_levelPairs (ref : List Nat) (tr : Bool) :
    (levelPairs ((uniqueCounts ref).map (·.1)) tr).Nodup := by
  unfold levelPairs
  split
  · exact nodup_combos2 (levels_pairwise ref)
  · unfold List.Nodup
    rw [List.pairwise_map]
    exact (levels_pairwise ref).imp (fun hab heq => by simp at heq; omega)

theorem mem_levelPairs (ref : List Nat) (tr : Bool) {a b : Nat} (ha : a ∈ ref) (hb : b ∈ ref) :
    decide ((a, b) ∈ levelPairs ((uniqueCounts ref).map (·.1)) tr) = rel tr a b := by
  have ha' := mem_keys_uniqueCounts ha
  have hb' := mem_keys_uniqueCounts hb
  unfold levelPairs rel
  cases tr
  · simp only [Bool.false_eq_true, if_false]
    by_cases h : a + 1 = b
    · simp only [h, decide_true, decide_eq_true_eq]
      exact List.mem_map.2 ⟨a, ha', by simp [h]⟩
    · simp only [h, decide_false, decide_eq_false_iff_not]
      intro hm
      obtain ⟨i, _, hi⟩ := List.mem_map.1 hm
      simp at hi
      omega
  · simp only [if_true]
    rw [decide_eq_decide, mem_combos2 (levels_pairwise ref)]
    exact ⟨fun h => h.2.2, fun h => ⟨ha', hb', h⟩⟩

theorem mem_zip_fst {ref est : List Nat} {p : Nat × Nat} (h : p ∈ ref.zip est) : p.1 ∈ ref :=
  (List.of_mem_zip h).1

/-- the sum over level pairs of a per-pair count is the count over all related position pairs -/
theorem sum_levelPairs (ref est : List Nat) (tr : Bool) (r : (Nat × Nat) → (Nat × Nat) → Bool) :
    ((levelPairs ((uniqueCounts ref).map (·.1)) tr).map fun ij =>
        countPairs (fun p q => (p.1 == ij.1 && q.1 == ij.2) && r p q) (ref.zip est) (ref.zip est)).sum
      = countPairs (fun p q => rel tr p.1 q.1 && r p q) (ref.zip est) (ref.zip est) := by
  have h := sum_countP_keys (fun xy : (Nat × Nat) × (Nat × Nat) => (xy.1.1, xy.2.1))
    (fun xy => r xy.1 xy.2) (pairsOf (ref.zip est) (ref.zip est)) _ (nodup_levelPairs ref tr)
  have h2 : countPairs (fun p q => rel tr p.1 q.1 && r p q) (ref.zip est) (ref.zip est)
      = countPairs (fun p q => decide ((p.1, q.1) ∈ levelPairs ((uniqueCounts ref).map (·.1)) tr) && r p q)
          (ref.zip est) (ref.zip est) := by
    apply countPairs_congr
    intro p hp q hq
    rw [mem_levelPairs ref tr (mem_zip_fst hp) (mem_zip_fst hq)]
  rw [h2]
  simp only [countPairs]
  refine Eq.trans ?_ (h.trans ?_)
  · congr 1
    apply List.map_congr_left
    intro ij _
    apply List.countP_congr
    intro xy _
    by_cases h1 : xy.1.1 = ij.1 <;> by_cases h2 : xy.2.1 = ij.2 <;> simp [h1, h2, Prod.ext_iff]
  · apply List.countP_congr
    intro xy _
    by_cases hm : (xy.1.1, xy.2.1) ∈ levelPairs ((uniqueCounts ref).map (·.1)) tr <;> simp [hm]

theorem estAt_countInversions (ref est : List Nat) (i j : Nat) :
    countInversions (estAt ref est i) (estAt ref est j)
      = countPairs (fun p q => (p.1 == i && q.1 == j) && decide (q.2 ≤ p.2)) (ref.zip est) (ref.zip est) := by
  rw [countInversions_eq_countPairs]
  unfold estAt
  rw [countPairs_map, countPairs_filter]

theorem lookup_prod (ref est : List Nat) (hlen : ref.length ≤ est.length) (i j : Nat) :
    lookupCount (uniqueCounts ref) i * lookupCount (uniqueCounts ref) j
      = countPairs (fun p q => (p.1 == i && q.1 == j) && true) (ref.zip est) (ref.zip est) := by
  have hz : ∀ l, lookupCount (uniqueCounts ref) l = (ref.zip est).countP (fun p => p.1 == l) := by
    intro l
    rw [lookupCount_uniqueCounts]
    conv => lhs; rw [← List.map_fst_zip hlen]
    rw [List.countP_map]
    rfl
  rw [hz i, hz j, ← countPairs_prod]
  apply countPairs_congr
  intro p _ q _
  simp

theorem inverted_le_triples (tr : Bool) (ref est : List Nat) : inverted tr ref est ≤ triples tr ref est := by
  unfold inverted triples countPairs
  apply List.countP_mono_left
  intro xy _ h
  simp only [Bool.and_eq_true] at h
  exact h.1

theorem triples_eq (tr : Bool) (ref est : List Nat) :
    triples tr ref est = correct tr ref est + inverted tr ref est := by
  unfold triples correct inverted countPairs
  rw [← countP_or_disjoint]
  · apply List.countP_congr
    intro xy _
    by_cases h : xy.1.2 < xy.2.2
    · have : ¬ xy.2.2 ≤ xy.1.2 := by omega
      simp [h, this]
    · have : xy.2.2 ≤ xy.1.2 := by omega
      simp [h, this]
  · intro xy _ ⟨h1, h2⟩
    simp only [Bool.and_eq_true, decide_eq_true_eq] at h1 h2
    omega

theorem compareFrameRankings_eq (ref est : List Nat) (tr : Bool) (hlen : ref.length ≤ est.length) :
    compareFrameRankings ref est tr = .ok (inverted tr ref est, triples tr ref est) := by
  have hnorm : ((levelPairs ((uniqueCounts ref).map (·.1)) tr).map fun ij =>
      lookupCount (uniqueCounts ref) ij.1 * lookupCount (uniqueCounts ref) ij.2).sum
        = triples tr ref est := by
    have := sum_levelPairs ref est tr (fun _ _ => true)
    unfold triples
    rw [show (fun (p q : Nat × Nat) => rel tr p.1 q.1) = fun p q => rel tr p.1 q.1 && true by
      funext p q; simp, ← this]
    congr 1
    apply List.map_congr_left
    intro ij _
    exact lookup_prod ref est hlen ij.1 ij.2
  have hinv : ((levelPairs ((uniqueCounts ref).map (·.1)) tr).map fun ij =>
      countInversions (estAt ref est ij.1) (estAt ref est ij.2)).sum = inverted tr ref est := by
    have := sum_levelPairs ref est tr (fun p q => decide (q.2 ≤ p.2))
    unfold inverted
    rw [← this]
    congr 1
    apply List.map_congr_left
    intro ij _
    exact estAt_countInversions ref est ij.1 ij.2
  unfold compareFrameRankings
  rw [if_neg (by omega)]
  simp only [hnorm, hinv]
  split
  · rename_i h0
    have := inverted_le_triples tr ref est
    have h1 : inverted tr ref est = 0 := by omega
    rw [h0, h1]
  · rfl

theorem compareFrameRankings_short (ref est : List Nat) (tr : Bool) (hlen : est.length < ref.length) :
    compareFrameRankings ref est tr = .error .indexError := by
  unfold compareFrameRankings
  rw [if_pos hlen]

theorem compareFrameRankings_ok_le {ref est : List Nat} {tr : Bool} {t : Nat × Nat}
    (h : compareFrameRankings ref est tr = .ok t) : t.1 ≤ t.2 := by
  by_cases hlen : est.length < ref.length
  · rw [compareFrameRankings_short _ _ _ hlen] at h; cases h
  · rw [compareFrameRankings_eq _ _ _ (by omega)] at h
    cases h
    exact inverted_le_triples tr ref est

/-! ### `_gauc`: the window slice -/

theorem filterMap_range'_getElem? {α : Type} (row : List α) (a k : Nat) :
    (List.range' a k).filterMap (fun i => row[i]?) = (row.drop a).take k := by
  induction k generalizing a with
  | zero => simp
  | succ k ih =>
    rw [List.range'_succ, List.filterMap_cons]
    by_cases h : a < row.length
    · rw [List.getElem?_eq_getElem h]
      simp only
      rw [ih, List.drop_eq_getElem_cons h, List.take_succ_cons]
    · rw [List.getElem?_eq_none (by omega)]
      simp only
      rw [ih, List.drop_eq_nil_of_le (by omega), List.drop_eq_nil_of_le (by omega)]
      simp

theorem range'_split (s k m : Nat) (h : m ≤ k) :
    List.range' s k = List.range' s m ++ List.range' (s + m) (k - m) := by
  have := @List.range'_append s m (k - m) 1
  rw [Nat.one_mul] at this
  rw [this]
  congr 1
  omega

theorem windowIdx_eq (n w q : Nat) (hq : q < n) :
    windowIdx n w q = List.range' (q - w) (q - (q - w)) ++ List.range' (q + 1) (min n (q + w) - (q + 1)) := by
  unfold windowIdx
  rw [List.range_eq_range']
  -- [0, lo) ++ [lo, q) ++ [q] ++ [q+1, hi') ++ [hi', n)
  have hhi : q + 1 ≤ max (min n (q + w)) (q + 1) := by omega
  have hhin : max (min n (q + w)) (q + 1) ≤ n := by omega
  rw [range'_split 0 n (q - w) (by omega)]
  rw [range'_split (0 + (q - w)) (n - (q - w)) (q - (q - w)) (by omega)]
  rw [range'_split (0 + (q - w) + (q - (q - w))) (n - (q - w) - (q - (q - w))) 1 (by omega)]
  rw [range'_split (0 + (q - w) + (q - (q - w)) + 1) (n - (q - w) - (q - (q - w)) - 1)
        (max (min n (q + w)) (q + 1) - (q + 1)) (by omega)]
  have e1 : 0 + (q - w) = q - w := by omega
  have e2 : 0 + (q - w) + (q - (q - w)) = q := by omega
  have e3 : 0 + (q - w) + (q - (q - w)) + 1 = q + 1 := by omega
  have e4 : 0 + (q - w) + (q - (q - w)) + 1 + (max (min n (q + w)) (q + 1) - (q + 1))
      = max (min n (q + w)) (q + 1) := by omega
  have e5 : max (min n (q + w)) (q + 1) - (q + 1) = min n (q + w) - (q + 1) := by omega
  rw [e4, e3, e2, e1, e5]
  simp only [List.filter_append]
  have p1 : (List.range' 0 (q - w)).filter
      (fun i => decide (q - w ≤ i) && decide (i < min n (q + w)) && decide (i ≠ q)) = [] := by
    rw [List.filter_eq_nil_iff]
    intro i hi
    have := List.mem_range'_1.1 hi
    simp only [Bool.and_eq_true, decide_eq_true_eq, not_and]
    omega
  have p2 : (List.range' (q - w) (q - (q - w))).filter
      (fun i => decide (q - w ≤ i) && decide (i < min n (q + w)) && decide (i ≠ q))
        = List.range' (q - w) (q - (q - w)) := by
    rw [List.filter_eq_self]
    intro i hi
    have := List.mem_range'_1.1 hi
    simp only [Bool.and_eq_true, decide_eq_true_eq]
    omega
  have p3 : (List.range' q 1).filter
      (fun i => decide (q - w ≤ i) && decide (i < min n (q + w)) && decide (i ≠ q)) = [] := by
    rw [List.filter_eq_nil_iff]
    intro i hi
    have := List.mem_range'_1.1 hi
    simp only [Bool.and_eq_true, decide_eq_true_eq, not_and]
    omega
  have p4 : (List.range' (q + 1) (min n (q + w) - (q + 1))).filter
      (fun i => decide (q - w ≤ i) && decide (i < min n (q + w)) && decide (i ≠ q))
        = List.range' (q + 1) (min n (q + w) - (q + 1)) := by
    rw [List.filter_eq_self]
    intro i hi
    have := List.mem_range'_1.1 hi
    simp only [Bool.and_eq_true, decide_eq_true_eq]
    omega
  have p5 : (List.range' (max (min n (q + w)) (q + 1))
        (n - (q - w) - (q - (q - w)) - 1 - (min n (q + w) - (q + 1)))).filter
      (fun i => decide (q - w ≤ i) && decide (i < min n (q + w)) && decide (i ≠ q)) = [] := by
    rw [List.filter_eq_nil_iff]
    intro i hi
    have := List.mem_range'_1.1 hi
    simp only [Bool.and_eq_true, decide_eq_true_eq, not_and]
    omega
  rw [p1, p2, p3, p4, p5]
  simp

/-- the slice-and-delete of `_gauc` selects exactly the window of the query -/
theorem removeAt_pySlice_eq_windowRow (row : List Nat) (n w q : Nat) (hq : q < n) :
    removeAt (pySlice row (q - w) (min n (q + w))) (min q w) = windowRow n w q row := by
  unfold windowRow
  rw [windowIdx_eq n w q hq, List.filterMap_append, filterMap_range'_getElem?, filterMap_range'_getElem?]
  unfold removeAt pySlice
  rw [List.take_take, List.drop_take, List.drop_drop]
  have e1 : min (min q w) (min n (q + w) - (q - w)) = q - (q - w) := by omega
  have e2 : min n (q + w) - (q - w) - (min q w + 1) = min n (q + w) - (q + 1) := by omega
  have e3 : q - w + (min q w + 1) = q + 1 := by omega
  rw [e1, e2, e3]

/-! ### `_gauc`: the query loop -/

theorem mapM_ok_of_forall {α β : Type} (f : α → Py β) (g : α → β) (l : List α)
    (h : ∀ x ∈ l, f x = .ok (g x)) : l.mapM f = .ok (l.map g) := by
  induction l with
  | nil => rfl
  | cons x t ih =>
    rw [List.mapM_cons, h x List.mem_cons_self, ih (fun y hy => h y (List.mem_cons_of_mem _ hy))]
    rfl

theorem mapM_ok_forall {α β : Type} (f : α → Py β) (l : List α) (ys : List β)
    (h : l.mapM f = .ok ys) : ∀ y ∈ ys, ∃ x ∈ l, f x = .ok y := by
  induction l generalizing ys with
  | nil =>
    have : ys = [] := by
      have h' : (Except.ok [] : Py (List β)) = .ok ys := h
      cases h'; rfl
    subst this
    intro y hy; cases hy
  | cons x t ih =>
    rw [List.mapM_cons] at h
    cases hx : f x with
    | error e => rw [hx] at h; cases h
    | ok y0 =>
      cases ht : t.mapM f with
      | error e => rw [hx, ht] at h; cases h
      | ok ys0 =>
        rw [hx, ht] at h
        have h' : (Except.ok (y0 :: ys0) : Py (List β)) = .ok ys := h
        cases h'
        intro y hy
        rcases List.mem_cons.1 hy with rfl | hy
        · exact ⟨x, List.mem_cons_self, hx⟩
        · obtain ⟨x', hx', e⟩ := ih ys0 ht y hy
          exact ⟨x', List.mem_cons_of_mem _ hx', e⟩

theorem length_pySlice {α : Type} (xs : List α) (lo hi : Nat) :
    (pySlice xs lo hi).length = min (hi - lo) (xs.length - lo) := by
  simp [pySlice]

theorem length_removeAt {α : Type} (xs : List α) (k : Nat) :
    (removeAt xs k).length = min k xs.length + (xs.length - (k + 1)) := by
  simp [removeAt]

theorem gaucQuery_ok (n w : Nat) (tr : Bool) (q : Nat) (rrow erow : List Nat) (hq : q < n)
    (hr : rrow.length = n) (he : erow.length = n) :
    gaucQuery n w tr q rrow erow
      = .ok (inverted tr (windowRow n w q rrow) (windowRow n w q erow),
             triples tr (windowRow n w q rrow) (windowRow n w q erow)) := by
  simp only [gaucQuery]
  rw [compareFrameRankings_eq]
  · rw [removeAt_pySlice_eq_windowRow _ _ _ _ hq, removeAt_pySlice_eq_windowRow _ _ _ _ hq]
  · rw [length_removeAt, length_removeAt, length_pySlice, length_pySlice, hr, he]

theorem gaucQuery_ok_le {n w : Nat} {tr : Bool} {q : Nat} {rrow erow : List Nat} {t : Nat × Nat}
    (h : gaucQuery n w tr q rrow erow = .ok t) : t.1 ≤ t.2 := by
  simp only [gaucQuery] at h
  exact compareFrameRankings_ok_le h

theorem mem_zipIdx_zip {n : Nat} {ref est : Mat} (hr : IsSquare n ref) (he : IsSquare n est)
    {x : (List Nat × List Nat) × Nat} (hx : x ∈ (ref.zip est).zipIdx) :
    x.2 < n ∧ x.1.1.length = n ∧ x.1.2.length = n := by
  obtain ⟨⟨r, e⟩, i⟩ := x
  have h := List.mem_zipIdx hx
  have hlen : (ref.zip est).length = n := by simp [List.length_zip, hr.1, he.1]
  have hmem : (r, e) ∈ ref.zip est := by
    rw [h.2.2]; exact List.getElem_mem _
  have := List.of_mem_zip hmem
  exact ⟨by omega, hr.2 r this.1, he.2 e this.2⟩

theorem gaucTerms_ok (n : Nat) (ref est : Mat) (hr : IsSquare n ref) (he : IsSquare n est)
    (tr : Bool) (w : Nat) :
    gaucTerms ref est tr w = .ok (((ref.zip est).zipIdx).map fun x =>
      (inverted tr (windowRow n w x.2 x.1.1) (windowRow n w x.2 x.1.2),
       triples tr (windowRow n w x.2 x.1.1) (windowRow n w x.2 x.1.2))) := by
  unfold gaucTerms
  apply mapM_ok_of_forall
  intro x hx
  obtain ⟨h1, h2, h3⟩ := mem_zipIdx_zip hr he hx
  rw [hr.1]
  exact gaucQuery_ok n w tr x.2 x.1.1 x.1.2 h1 h2 h3

/-! ### scores -/

theorem filter_map_comm {α β : Type} (f : α → β) (p : β → Bool) (l : List α) :
    (l.map f).filter p = (l.filter (fun x => p (f x))).map f := by
  induction l with
  | nil => rfl
  | cons x t ih => simp only [List.map_cons, List.filter_cons, ih]; split <;> simp

theorem score_eq {α : Type} (xs : List α) (inv corr trip : α → Nat) (h : ∀ x, trip x = corr x + inv x) :
    gaucScore (xs.map fun x => (inv x, trip x)) = specScore (xs.map fun x => (corr x, trip x)) := by
  unfold gaucScore specScore
  simp only [filter_map_comm, List.length_map, List.map_map]
  split
  · rfl
  · congr 2
    apply List.map_congr_left
    intro x hx
    have hx' := (List.mem_filter.1 hx).2
    simp only [Function.comp, ne_eq, decide_not, Bool.not_eq_eq_eq_not, Bool.not_true,
      decide_eq_false_iff_not] at hx' ⊢
    have h0 : (trip x : Rat) ≠ 0 := by exact_mod_cast hx'
    have h1 : (trip x : Rat) = (corr x : Rat) + (inv x : Rat) := by exact_mod_cast h x
    rw [eq_div_iff h0, sub_mul, div_mul_cancel₀ _ h0, h1]
    ring

theorem sum_unit_bounds (l : List Rat) (h : ∀ x ∈ l, 0 ≤ x ∧ x ≤ 1) :
    0 ≤ l.sum ∧ l.sum ≤ (l.length : Rat) := by
  induction l with
  | nil => simp
  | cons x t ih =>
    have hx := h x List.mem_cons_self
    have ht := ih (fun y hy => h y (List.mem_cons_of_mem _ hy))
    simp only [List.sum_cons, List.length_cons, Nat.cast_add, Nat.cast_one]
    constructor <;> linarith [hx.1, hx.2, ht.1, ht.2]

theorem gaucScore_range (terms : List (Nat × Nat)) (h : ∀ t ∈ terms, t.1 ≤ t.2) :
    0 ≤ gaucScore terms ∧ gaucScore terms ≤ 1 := by
  unfold gaucScore
  simp only
  split
  · exact ⟨le_refl _, zero_le_one⟩
  · rename_i hne
    have hpos : (0 : Rat) < ((terms.filter fun t => t.2 ≠ 0).length : Rat) := by
      exact_mod_cast Nat.pos_of_ne_zero hne
    have hb := sum_unit_bounds ((terms.filter fun t => t.2 ≠ 0).map fun t => 1 - (t.1 : Rat) / (t.2 : Rat)) (by
      intro v hv
      obtain ⟨t, ht, rfl⟩ := List.mem_map.1 hv
      obtain ⟨ht1, ht2⟩ := List.mem_filter.1 ht
      simp only [ne_eq, decide_not, Bool.not_eq_eq_eq_not, Bool.not_true, decide_eq_false_iff_not] at ht2
      have hle : (t.1 : Rat) ≤ (t.2 : Rat) := by exact_mod_cast h t ht1
      have h2 : (0 : Rat) < (t.2 : Rat) := by exact_mod_cast Nat.pos_of_ne_zero ht2
      have h1 : (0 : Rat) ≤ (t.1 : Rat) := by exact_mod_cast Nat.zero_le _
      have hd0 : 0 ≤ (t.1 : Rat) / (t.2 : Rat) := div_nonneg h1 (le_of_lt h2)
      have hd1 : (t.1 : Rat) / (t.2 : Rat) ≤ 1 := (div_le_one h2).2 hle
      constructor <;> linarith)
    rw [List.length_map] at hb
    exact ⟨div_nonneg hb.1 (le_of_lt hpos), (div_le_one hpos).2 hb.2⟩

/-! ### `_gauc` as a whole -/

theorem gauc_eq_spec (n : Nat) (ref est : Mat) (hr : IsSquare n ref) (he : IsSquare n est)
    (tr : Bool) (window : Option Nat) :
    gauc ref est tr window = .ok (gaucSpec ref est tr (winOf window n)) := by
  unfold gauc
  rw [if_neg (by rw [hr.1, he.1]; simp)]
  rw [hr.1]
  rw [gaucTerms_ok n ref est hr he tr _]
  simp only
  unfold gaucSpec specQuery
  rw [hr.1]
  congr 1
  exact score_eq _ _ _ _ (fun x => triples_eq tr _ _)

theorem gauc_shape_mismatch (ref est : Mat) (tr : Bool) (window : Option Nat) (h : ref.length ≠ est.length) :
    gauc ref est tr window = .error .valueError := by
  unfold gauc
  rw [if_pos h]

theorem gauc_range {ref est : Mat} {tr : Bool} {window : Option Nat} {s : Rat}
    (h : gauc ref est tr window = .ok s) : 0 ≤ s ∧ s ≤ 1 := by
  unfold gauc at h
  split at h
  · cases h
  · split at h
    · cases h
    · rename_i terms hterms
      cases h
      apply gaucScore_range
      intro t ht
      obtain ⟨x, _, hx⟩ := mapM_ok_forall _ _ _ hterms t ht
      exact gaucQuery_ok_le hx

/-! ### `tmeasure` / `lmeasure` -/

theorem bind_eq_ok {α β : Type} {x : Py α} {f : α → Py β} {b : β} :
    (x >>= f) = .ok b ↔ ∃ a, x = .ok a ∧ f a = .ok b := by
  cases x <;> simp [bind, Except.bind]

theorem tmeasure_rejects_nonpos (ref est : Hier) (tr : Bool) (window : Option Rat) (fs beta : Rat)
    (h : fs ≤ 0) : tmeasure ref est tr window fs beta = .error .valueError := by
  unfold tmeasure
  rw [if_pos h]

theorem tmeasure_rejects_window (ref est : Hier) (tr : Bool) (w fs beta : Rat)
    (h : w < fs) : tmeasure ref est tr (some w) fs beta = .error .valueError := by
  unfold tmeasure
  split
  · rfl
  · simp [windowFrames, h, bind, Except.bind]

theorem lmeasure_rejects_nonpos (ref est : Hier) (rl el : List (List String)) (fs beta : Rat)
    (h : fs ≤ 0) : lmeasure ref rl est el fs beta = .error .valueError := by
  unfold lmeasure
  rw [if_pos h]

theorem tmeasure_ok {ref est : Hier} {tr : Bool} {window : Option Rat} {fs beta p r f : Rat}
    (h : tmeasure ref est tr window fs beta = .ok (p, r, f)) :
    0 < fs ∧ ∃ wf rl el, windowFrames window fs = .ok wf ∧ validateHier ref = .ok () ∧ validateHier est = .ok ()
      ∧ lca ref fs = .ok rl ∧ lca est fs = .ok el
      ∧ gauc rl el tr wf = .ok r ∧ gauc el rl tr wf = .ok p ∧ f = fMeasure p r beta := by
  unfold tmeasure at h
  split at h
  · cases h
  · rename_i hfs
    simp only [bind_eq_ok] at h
    obtain ⟨wf, hw, u1, hv1, u2, hv2, rl, hrl, el, hel, r', hr', p', hp', hpure⟩ := h
    have hpure' : (Except.ok (p', r', fMeasure p' r' beta) : Py (Rat × Rat × Rat)) = .ok (p, r, f) := hpure
    injection hpure' with e
    injection e with e1 e2
    injection e2 with e2 e3
    subst e1 e2 e3
    exact ⟨lt_of_not_ge hfs, wf, rl, el, hw, hv1, hv2, hrl, hel, hr', hp', rfl⟩

theorem tmeasure_swap {ref est : Hier} {tr : Bool} {window : Option Rat} {fs beta p r f : Rat}
    (h : tmeasure ref est tr window fs beta = .ok (p, r, f)) :
    tmeasure est ref tr window fs beta = .ok (r, p, fMeasure r p beta) := by
  obtain ⟨hfs, wf, rl, el, hw, hv1, hv2, hrl, hel, hr, hp, _⟩ := tmeasure_ok h
  unfold tmeasure
  rw [if_neg (not_le_of_gt hfs)]
  simp only [hw, hv1, hv2, hrl, hel, hr, hp, bind, Except.bind]
  rfl

theorem tmeasure_range {ref est : Hier} {tr : Bool} {window : Option Rat} {fs beta p r f : Rat}
    (h : tmeasure ref est tr window fs beta = .ok (p, r, f)) :
    (0 ≤ p ∧ p ≤ 1) ∧ (0 ≤ r ∧ r ≤ 1) ∧ (0 ≤ f ∧ f ≤ 1) := by
  obtain ⟨_, wf, rl, el, _, _, _, _, _, hr, hp, hf⟩ := tmeasure_ok h
  have hp' := gauc_range hp
  have hr' := gauc_range hr
  refine ⟨hp', hr', ?_⟩
  rw [hf]
  exact ⟨fMeasure_nonneg hp'.1 hr'.1, fMeasure_le_one hp'.1 hr'.1 hp'.2 hr'.2⟩

theorem lmeasure_ok {ref est : Hier} {rls els : List (List String)} {fs beta p r f : Rat}
    (h : lmeasure ref rls est els fs beta = .ok (p, r, f)) :
    0 < fs ∧ ∃ rm em, validateHier ref = .ok () ∧ validateHier est = .ok ()
      ∧ meet ref rls fs = .ok rm ∧ meet est els fs = .ok em
      ∧ gauc rm em true none = .ok r ∧ gauc em rm true none = .ok p ∧ f = fMeasure p r beta := by
  unfold lmeasure at h
  split at h
  · cases h
  · rename_i hfs
    simp only [bind_eq_ok] at h
    obtain ⟨u1, hv1, u2, hv2, rm, hrm, em, hem, r', hr', p', hp', hpure⟩ := h
    have hpure' : (Except.ok (p', r', fMeasure p' r' beta) : Py (Rat × Rat × Rat)) = .ok (p, r, f) := hpure
    injection hpure' with e
    injection e with e1 e2
    injection e2 with e2 e3
    subst e1 e2 e3
    exact ⟨lt_of_not_ge hfs, rm, em, hv1, hv2, hrm, hem, hr', hp', rfl⟩

theorem lmeasure_swap {ref est : Hier} {rls els : List (List String)} {fs beta p r f : Rat}
    (h : lmeasure ref rls est els fs beta = .ok (p, r, f)) :
    lmeasure est els ref rls fs beta = .ok (r, p, fMeasure r p beta) := by
  obtain ⟨hfs, rm, em, hv1, hv2, hrm, hem, hr, hp, _⟩ := lmeasure_ok h
  unfold lmeasure
  rw [if_neg (not_le_of_gt hfs)]
  simp only [hv1, hv2, hrm, hem, hr, hp, bind, Except.bind]
  rfl

theorem lmeasure_range {ref est : Hier} {rls els : List (List String)} {fs beta p r f : Rat}
    (h : lmeasure ref rls est els fs beta = .ok (p, r, f)) :
    (0 ≤ p ∧ p ≤ 1) ∧ (0 ≤ r ∧ r ≤ 1) ∧ (0 ≤ f ∧ f ≤ 1) := by
  obtain ⟨_, rm, em, _, _, _, _, hr, hp, hf⟩ := lmeasure_ok h
  have hp' := gauc_range hp
  have hr' := gauc_range hr
  refine ⟨hp', hr', ?_⟩
  rw [hf]
  exact ⟨fMeasure_nonneg hp'.1 hr'.1, fMeasure_le_one hp'.1 hr'.1 hp'.2 hr'.2⟩

/-! ### the matrices are square -/

theorem isSquare_zeros (n : Nat) : IsSquare n (zeros n) := by
  constructor
  · simp [zeros]
  · intro row hrow
    have := List.eq_of_mem_replicate hrow
    simp [this]

theorem isSquare_setBlock {n : Nat} {m : Mat} (h : IsSquare n m) (r0 r1 c0 c1 v : Nat) :
    IsSquare n (setBlock m r0 r1 c0 c1 v) := by
  constructor
  · simp [setBlock, h.1]
  · intro row hrow
    unfold setBlock at hrow
    obtain ⟨i, hi, rfl⟩ := List.mem_mapIdx.1 hrow
    have := h.2 m[i] (List.getElem_mem _)
    split <;> simp [this]

theorem foldl_invariant {α β : Type} (P : β → Prop) (f : β → α → β) (l : List α) (b : β)
    (hb : P b) (hf : ∀ b a, P b → P (f b a)) : P (l.foldl f b) := by
  induction l generalizing b with
  | nil => exact hb
  | cons x t ih => exact ih _ (hf _ _ hb)

theorem isSquare_lcaLevel {n : Nat} {m : Mat} (h : IsSquare n m) (fs : Rat) (level : Nat) (ivs : Ivals) :
    IsSquare n (lcaLevel fs n m level ivs) := by
  unfold lcaLevel
  exact foldl_invariant _ _ _ _ h (fun b a hb => isSquare_setBlock hb _ _ _ _ _)

theorem lca_isSquare {h : Hier} {fs : Rat} {m : Mat} (hm : lca h fs = .ok m) :
    ∃ n, numFrames h fs = .ok n ∧ IsSquare n m := by
  unfold lca at hm
  split at hm
  · cases hm
  · rename_i n hn
    cases hm
    exact ⟨n, hn, foldl_invariant _ _ _ _ (isSquare_zeros n) (fun b a hb => isSquare_lcaLevel hb _ _ _)⟩

theorem isSquare_meetLevel {n : Nat} {m m' : Mat} (h : IsSquare n m) (fs : Rat) (level : Nat) (ivs : Ivals)
    (labs : List String) (hm : meetLevel fs n m level ivs labs = .ok m') : IsSquare n m' := by
  unfold meetLevel at hm
  split at hm
  · cases hm
  · cases hm
    apply foldl_invariant _ _ _ _ h
    intro b a hb
    unfold meetStep
    simp only
    split
    · exact isSquare_setBlock (isSquare_setBlock hb _ _ _ _ _) _ _ _ _ _
    · exact isSquare_setBlock hb _ _ _ _ _

theorem isSquare_meetLevels {n : Nat} (fs : Rat) (xs : List ((Ivals × List String) × Nat)) {m m' : Mat}
    (h : IsSquare n m) (hm : meetLevels fs n m xs = .ok m') : IsSquare n m' := by
  induction xs generalizing m with
  | nil => simp only [meetLevels] at hm; cases hm; exact h
  | cons x t ih =>
    simp only [meetLevels] at hm
    split at hm
    · cases hm
    · rename_i m1 hm1
      exact ih (isSquare_meetLevel h _ _ _ _ hm1) hm

theorem meet_isSquare {h : Hier} {labels : List (List String)} {fs : Rat} {m : Mat}
    (hm : meet h labels fs = .ok m) : ∃ n, numFrames h fs = .ok n ∧ IsSquare n m := by
  unfold meet at hm
  split at hm
  · cases hm
  · rename_i n hn
    exact ⟨n, hn, isSquare_meetLevels fs _ (isSquare_zeros n) hm⟩

/-- when `_gauc` returns on two square matrices, they have the same size and the value is the
    triplet-ranking definition -/
theorem gauc_ok_square {nr ne : Nat} {ref est : Mat} (hr : IsSquare nr ref) (he : IsSquare ne est)
    {tr : Bool} {window : Option Nat} {s : Rat} (h : gauc ref est tr window = .ok s) :
    nr = ne ∧ s = gaucSpec ref est tr (winOf window nr) := by
  have hn : nr = ne := by
    by_cases hne : ref.length = est.length
    · rw [← hr.1, ← he.1]; exact hne
    · rw [gauc_shape_mismatch _ _ _ _ hne] at h; cases h
  subst hn
  refine ⟨rfl, ?_⟩
  rw [gauc_eq_spec nr ref est hr he tr window] at h
  cases h
  rfl

/-! ### `_lca` entries -/

theorem entry_setBlock (m : Mat) (r0 r1 c0 c1 v i j : Nat) :
    entry (setBlock m r0 r1 c0 c1 v) i j
      = (entry m i j).map fun x => if inSlice (r0, r1) i && inSlice (c0, c1) j then v else x := by
  unfold entry setBlock
  rw [List.getElem?_mapIdx]
  cases hrow : m[i]? with
  | none => rfl
  | some row =>
    simp only [Option.map_some, Option.bind_some]
    by_cases hi : r0 ≤ i ∧ i < r1
    · rw [if_pos hi, List.getElem?_mapIdx]
      cases row[j]? with
      | none => rfl
      | some x =>
        simp only [Option.map_some, inSlice]
        by_cases hj : c0 ≤ j ∧ j < c1
        · simp [hi, hj]
        · have : ¬ (c0 ≤ j ∧ j < c1) := hj
          simp only [hi, this, if_false]
          simp [hi.1, hi.2]
          intro h1 h2; exact absurd ⟨h1, h2⟩ hj
    · rw [if_neg hi]
      cases row[j]? with
      | none => rfl
      | some x =>
        simp only [Option.map_some, inSlice]
        have : (decide (r0 ≤ i) && decide (i < r1)) = false := by
          simp only [Bool.and_eq_false_iff, decide_eq_false_iff_not]
          by_cases h : r0 ≤ i
          · right; exact fun h2 => hi ⟨h, h2⟩
          · left; exact h
        simp [this]

theorem entry_lcaLevel (fs : Rat) (n : Nat) (level : Nat) (ivs : Ivals) (m : Mat) (i j : Nat) :
    entry (lcaLevel fs n m level ivs) i j
      = (entry m i j).map fun x => if levelCovers fs n ivs i j then level else x := by
  unfold lcaLevel levelCovers
  induction ivs generalizing m with
  | nil => simp
  | cons iv t ih =>
    rw [List.foldl_cons, ih, entry_setBlock, Option.map_map]
    congr 1
    funext x
    simp only [Function.comp, List.any_cons]
    by_cases h1 : (inSlice (frameSlice fs n iv) i && inSlice (frameSlice fs n iv) j) = true <;>
      by_cases h2 : (t.any fun iv => inSlice (frameSlice fs n iv) i && inSlice (frameSlice fs n iv) j) = true <;>
      simp [h1, h2]

/-- the last level (in list order) satisfying `p`, as the sequence of overwrites computes it -/
def lastLevel {α : Type} (p : α → Bool) (xs : List (α × Nat)) (v : Nat) : Nat :=
  xs.foldl (fun acc x => if p x.1 then x.2 else acc) v

theorem entry_lcaLevels (fs : Rat) (n : Nat) (xs : List (Ivals × Nat)) (m : Mat) (i j : Nat) :
    entry (xs.foldl (fun m x => lcaLevel fs n m x.2 x.1) m) i j
      = (entry m i j).map fun v => lastLevel (fun ivs => levelCovers fs n ivs i j) xs v := by
  induction xs generalizing m with
  | nil => simp [lastLevel]
  | cons x t ih =>
    rw [List.foldl_cons, ih, entry_lcaLevel, Option.map_map]
    rfl

theorem foldl_max_le (l : List Nat) (a b : Nat) (h : a ≤ b) : l.foldl max a ≤ l.foldl max b := by
  induction l generalizing a b with
  | nil => exact h
  | cons x t ih => exact ih _ _ (by omega)

/-- with ascending depths the last satisfying level is the deepest one -/
theorem lastLevel_eq_deepest {α : Type} (p : α → Bool) (l : List α) (k v : Nat) (hv : v ≤ k) :
    lastLevel p (l.zipIdx (k + 1)) v = ((((l.zipIdx (k + 1)).filter fun x => p x.1).map (·.2)).foldl max v) := by
  induction l generalizing k v with
  | nil => rfl
  | cons a t ih =>
    rw [List.zipIdx_cons]
    unfold lastLevel
    rw [List.foldl_cons, List.filter_cons]
    by_cases hp : p a
    · simp only [hp, if_true, List.map_cons, List.foldl_cons]
      have : max v (k + 1) = k + 1 := by omega
      rw [this]
      exact ih (k + 1) (k + 1) (by omega)
    · simp only [hp]
      exact ih (k + 1) v (by omega)

theorem entry_zeros (n i j : Nat) (hi : i < n) (hj : j < n) : entry (zeros n) i j = some 0 := by
  simp [entry, zeros, List.getElem?_replicate, hi, hj]

/-- every entry of the model's LCA matrix is the deepest level at which the two frames share a segment -/
theorem lca_entry {h : Hier} {fs : Rat} {m : Mat} {n : Nat} (hm : lca h fs = .ok m)
    (hn : numFrames h fs = .ok n) (i j : Nat) (hi : i < n) (hj : j < n) :
    entry m i j = some (lcaSpec h fs n i j) := by
  unfold lca at hm
  rw [hn] at hm
  simp only at hm
  cases hm
  rw [entry_lcaLevels, entry_zeros n i j hi hj]
  simp only [Option.map_some]
  unfold lcaSpec deepest
  rw [lastLevel_eq_deepest _ h 0 0 (Nat.le_refl 0)]

/-! ### `_meet` entries -/

/-- does the update for one agreeing pair of segments write cell `(i, j)`? -/
def writes (pq : ((Nat × Nat) × Nat) × ((Nat × Nat) × Nat)) (i j : Nat) : Bool :=
  (inSlice (pq.1.1.1, pq.1.1.2) i && inSlice (pq.2.1.1, pq.2.1.2) j)
    || (decide (pq.1.2 ≠ pq.2.2) && (inSlice (pq.2.1.1, pq.2.1.2) i && inSlice (pq.1.1.1, pq.1.1.2) j))

theorem entry_meetStep (level : Nat) (m : Mat) (pq : ((Nat × Nat) × Nat) × ((Nat × Nat) × Nat)) (i j : Nat) :
    entry (meetStep level m pq) i j = (entry m i j).map fun x => if writes pq i j then level else x := by
  unfold meetStep writes
  simp only
  by_cases hne : pq.1.2 ≠ pq.2.2
  · rw [if_pos hne, entry_setBlock, entry_setBlock, Option.map_map]
    congr 1
    funext x
    have hd : decide (pq.1.2 ≠ pq.2.2) = true := by simp [hne]
    simp only [Function.comp, hd, Bool.true_and]
    by_cases h1 : (inSlice (pq.1.1.1, pq.1.1.2) i && inSlice (pq.2.1.1, pq.2.1.2) j) = true <;>
      by_cases h2 : (inSlice (pq.2.1.1, pq.2.1.2) i && inSlice (pq.1.1.1, pq.1.1.2) j) = true <;>
      simp [h1, h2]
  · rw [if_neg hne, entry_setBlock]
    congr 1
    funext x
    simp only [hne, decide_false, Bool.false_and, Bool.or_false]

theorem entry_foldl_writes {α : Type} (step : Mat → α → Mat) (w : α → Bool) (level i j : Nat)
    (hstep : ∀ m a, entry (step m a) i j = (entry m i j).map fun x => if w a then level else x)
    (l : List α) (m : Mat) :
    entry (l.foldl step m) i j = (entry m i j).map fun x => if l.any w then level else x := by
  induction l generalizing m with
  | nil => simp
  | cons a t ih =>
    rw [List.foldl_cons, ih, hstep, Option.map_map]
    congr 1
    funext x
    simp only [Function.comp, List.any_cons]
    by_cases h1 : w a = true <;> by_cases h2 : t.any w = true <;> simp [h1, h2]

theorem mem_agreePairs {σ : Type} (segs : List (String × σ)) (pq : (σ × Nat) × (σ × Nat)) :
    pq ∈ agreePairs segs ↔ ∃ x ∈ segs.zipIdx, ∃ y ∈ segs.zipIdx,
      x.2 ≤ y.2 ∧ x.1.1 = y.1.1 ∧ pq = ((x.1.2, x.2), (y.1.2, y.2)) := by
  unfold agreePairs
  simp only [List.mem_flatMap, List.mem_map, List.mem_filter, Bool.and_eq_true, decide_eq_true_eq,
    beq_iff_eq]
  constructor
  · rintro ⟨x, hx, y, ⟨hy, hle, heq⟩, rfl⟩
    exact ⟨x, hx, y, hy, hle, heq, rfl⟩
  · rintro ⟨x, hx, y, hy, hle, heq, rfl⟩
    exact ⟨x, hx, y, ⟨hy, hle, heq⟩, rfl⟩

theorem any_writes_eq (segs : List (String × (Nat × Nat))) (i j : Nat) :
    (agreePairs segs).any (fun pq => writes pq i j)
      = segs.any fun a => segs.any fun b => a.1 == b.1 && inSlice a.2 i && inSlice b.2 j := by
  rw [Bool.eq_iff_iff]
  simp only [List.any_eq_true, Bool.and_eq_true, beq_iff_eq]
  constructor
  · rintro ⟨pq, hpq, hw⟩
    obtain ⟨x, hx, y, hy, _, heq, rfl⟩ := (mem_agreePairs segs pq).1 hpq
    have hxm : x.1 ∈ segs := List.mem_of_getElem? (List.mem_zipIdx_iff_getElem?.1 hx)
    have hym : y.1 ∈ segs := List.mem_of_getElem? (List.mem_zipIdx_iff_getElem?.1 hy)
    simp only [writes, Bool.or_eq_true, Bool.and_eq_true, decide_eq_true_eq] at hw
    rcases hw with ⟨h1, h2⟩ | ⟨_, h1, h2⟩
    · exact ⟨x.1, hxm, y.1, hym, ⟨heq, h1⟩, h2⟩
    · exact ⟨y.1, hym, x.1, hxm, ⟨heq.symm, h1⟩, h2⟩
  · rintro ⟨a, ha, b, hb, ⟨heq, h1⟩, h2⟩
    obtain ⟨ia, hia⟩ := List.mem_iff_getElem?.1 ha
    obtain ⟨ib, hib⟩ := List.mem_iff_getElem?.1 hb
    have hxa : (a, ia) ∈ segs.zipIdx := List.mem_zipIdx_iff_getElem?.2 hia
    have hxb : (b, ib) ∈ segs.zipIdx := List.mem_zipIdx_iff_getElem?.2 hib
    by_cases hle : ia ≤ ib
    · refine ⟨((a.2, ia), (b.2, ib)), (mem_agreePairs segs _).2 ⟨(a, ia), hxa, (b, ib), hxb, hle, heq, rfl⟩, ?_⟩
      simp [writes, h1, h2, inSlice] at *
      simp [h1, h2]
    · refine ⟨((b.2, ib), (a.2, ia)), (mem_agreePairs segs _).2
        ⟨(b, ib), hxb, (a, ia), hxa, by simp only; omega, heq.symm, rfl⟩, ?_⟩
      have : ib ≠ ia := by omega
      simp [writes, h1, h2, this]

theorem entry_meetLevel {fs : Rat} {n level : Nat} {ivs : Ivals} {labs : List String} {m m' : Mat}
    (hm : meetLevel fs n m level ivs labs = .ok m') (i j : Nat) :
    entry m' i j = (entry m i j).map fun x => if levelAgrees fs n (ivs, labs) i j then level else x := by
  unfold meetLevel at hm
  split at hm
  · cases hm
  · cases hm
    rw [entry_foldl_writes (meetStep level) (fun pq => writes pq i j) level i j
      (fun m a => entry_meetStep level m a i j), any_writes_eq]
    rfl

theorem entry_meetLevels (fs : Rat) (n : Nat) (xs : List ((Ivals × List String) × Nat)) {m m' : Mat}
    (hm : meetLevels fs n m xs = .ok m') (i j : Nat) :
    entry m' i j = (entry m i j).map fun v => lastLevel (fun x => levelAgrees fs n x i j) xs v := by
  induction xs generalizing m with
  | nil => simp only [meetLevels] at hm; cases hm; simp [lastLevel]
  | cons x t ih =>
    simp only [meetLevels] at hm
    split at hm
    · cases hm
    · rename_i m1 hm1
      rw [ih hm, entry_meetLevel hm1, Option.map_map]
      rfl

/-- every entry of the model's meet matrix is the deepest level at which the two frames carry the same label -/
theorem meet_entry {h : Hier} {labels : List (List String)} {fs : Rat} {m : Mat} {n : Nat}
    (hm : meet h labels fs = .ok m) (hn : numFrames h fs = .ok n) (i j : Nat) (hi : i < n) (hj : j < n) :
    entry m i j = some (meetSpec h labels fs n i j) := by
  unfold meet at hm
  rw [hn] at hm
  simp only at hm
  rw [entry_meetLevels fs n _ hm, entry_zeros n i j hi hj]
  simp only [Option.map_some]
  unfold meetSpec deepest
  rw [lastLevel_eq_deepest _ (h.zip labels) 0 0 (Nat.le_refl 0)]

/-! ### the window in frames -/

theorem windowFrames_pos (w fs : Rat) (h0 : 0 < fs) (h : fs ≤ w) :
    ∃ k, 1 ≤ k ∧ windowFrames (some w) fs = .ok (some k) := by
  refine ⟨(frameOf w fs).toNat, ?_, ?_⟩
  · have h1 : ((1 : Int) : Rat) ≤ w / fs := by
      rw [Int.cast_one]
      exact (one_le_div h0).2 h
    have h2 : (1 : Int) ≤ (w / fs).floor := Rat.le_floor_iff.2 h1
    unfold frameOf
    omega
  · have : ¬ fs > w := not_lt.2 h
    simp [windowFrames, this]

/-! ### valid hierarchies pass validation and have `floor(T/fs)` frames -/

theorem foldl_min_eq (l : List Rat) (a m : Rat) (hm : m ≤ a) (hl : ∀ x ∈ l, m ≤ x) (hmem : m = a ∨ m ∈ l) :
    l.foldl min a = m := by
  induction l generalizing a with
  | nil => rcases hmem with h | h; exact h.symm; cases h
  | cons x t ih =>
    have hx := hl x List.mem_cons_self
    apply ih (min a x) (le_min hm hx) (fun y hy => hl y (List.mem_cons_of_mem _ hy))
    rcases hmem with h | h
    · left; rw [← h]; exact (min_eq_left hx).symm
    · rcases List.mem_cons.1 h with h | h
      · left; rw [← h]; exact (min_eq_right hm).symm
      · right; exact h

theorem min?_eq_of_mem {l : List Rat} {m : Rat} (hmem : m ∈ l) (hl : ∀ x ∈ l, m ≤ x) : l.min? = some m := by
  cases l with
  | nil => cases hmem
  | cons a t =>
    show some (t.foldl min a) = some m
    rw [foldl_min_eq t a m (hl a List.mem_cons_self) (fun x hx => hl x (List.mem_cons_of_mem _ hx))]
    rcases List.mem_cons.1 hmem with h | h
    · left; exact h
    · right; exact h

theorem foldl_max_eq (l : List Rat) (a m : Rat) (hm : a ≤ m) (hl : ∀ x ∈ l, x ≤ m) (hmem : m = a ∨ m ∈ l) :
    l.foldl max a = m := by
  induction l generalizing a with
  | nil => rcases hmem with h | h; exact h.symm; cases h
  | cons x t ih =>
    have hx := hl x List.mem_cons_self
    apply ih (max a x) (max_le hm hx) (fun y hy => hl y (List.mem_cons_of_mem _ hy))
    rcases hmem with h | h
    · left; rw [← h]; exact (max_eq_left hx).symm
    · rcases List.mem_cons.1 h with h | h
      · left; rw [← h]; exact (max_eq_right hm).symm
      · right; exact h

theorem max?_eq_of_mem {l : List Rat} {m : Rat} (hmem : m ∈ l) (hl : ∀ x ∈ l, x ≤ m) : l.max? = some m := by
  cases l with
  | nil => cases hmem
  | cons a t =>
    show some (t.foldl max a) = some m
    rw [foldl_max_eq t a m (hl a List.mem_cons_self) (fun x hx => hl x (List.mem_cons_of_mem _ hx))]
    rcases List.mem_cons.1 hmem with h | h
    · left; exact h
    · right; exact h

theorem entries_cons (p : Rat × Rat) (t : Ivals) : entries (p :: t) = p.1 :: p.2 :: entries t := by
  simp [entries]

theorem chain_bounds {s t : Rat} {lv : Ivals} (h : Chain s lv t) :
    s ≤ t ∧ ∀ x ∈ entries lv, s ≤ x ∧ x ≤ t := by
  induction lv generalizing s with
  | nil => simp only [Chain] at h; subst h; exact ⟨le_refl _, fun x hx => by simp [entries] at hx⟩
  | cons p rest ih =>
    obtain ⟨h1, h2, h3⟩ := h
    obtain ⟨h4, h5⟩ := ih h3
    subst h1
    refine ⟨by linarith, ?_⟩
    intro x hx
    rw [entries_cons] at hx
    rcases List.mem_cons.1 hx with rfl | hx
    · exact ⟨le_refl _, by linarith⟩
    · rcases List.mem_cons.1 hx with rfl | hx
      · exact ⟨le_of_lt h2, h4⟩
      · have := h5 x hx
        exact ⟨by linarith [this.1], this.2⟩

theorem chain_mem {s t : Rat} {lv : Ivals} (h : Chain s lv t) (hne : lv ≠ []) :
    s ∈ entries lv ∧ t ∈ entries lv := by
  induction lv generalizing s with
  | nil => exact absurd rfl hne
  | cons p rest ih =>
    obtain ⟨h1, _, h3⟩ := h
    rw [entries_cons]
    refine ⟨by rw [← h1]; exact List.mem_cons_self, ?_⟩
    cases rest with
    | nil =>
      simp only [Chain] at h3
      rw [← h3]
      exact List.mem_cons_of_mem _ List.mem_cons_self
    | cons q r =>
      exact List.mem_cons_of_mem _ (List.mem_cons_of_mem _ (ih h3 (by simp)).2)

theorem chain_positive {s t : Rat} {lv : Ivals} (h : Chain s lv t) : ∀ p ∈ lv, p.1 < p.2 := by
  induction lv generalizing s with
  | nil => intro p hp; cases hp
  | cons q rest ih =>
    obtain ⟨_, h2, h3⟩ := h
    intro p hp
    rcases List.mem_cons.1 hp with rfl | hp
    · exact h2
    · exact ih h3 p hp

theorem mem_entries_of_mem {lv : Ivals} {p : Rat × Rat} (hp : p ∈ lv) : p.1 ∈ entries lv ∧ p.2 ∈ entries lv := by
  unfold entries
  simp only [List.mem_flatMap]
  exact ⟨⟨p, hp, by simp⟩, ⟨p, hp, by simp⟩⟩

theorem validLevel_min {lv : Ivals} {T : Rat} (h : ValidLevel lv T) : (entries lv).min? = some 0 :=
  min?_eq_of_mem (chain_mem h.2 h.1).1 (fun x hx => ((chain_bounds h.2).2 x hx).1)

theorem validLevel_max {lv : Ivals} {T : Rat} (h : ValidLevel lv T) : (entries lv).max? = some T :=
  max?_eq_of_mem (chain_mem h.2 h.1).2 (fun x hx => ((chain_bounds h.2).2 x hx).2)

theorem absR_nonneg (x : Rat) : 0 ≤ absR x := by
  unfold absR
  split <;> linarith

theorem allclose_self (a : Rat) : allclose a a = true := by
  unfold allclose
  rw [decide_eq_true_eq, sub_self]
  have h0 : absR 0 = 0 := by unfold absR; simp
  rw [h0]
  have := absR_nonneg a
  have h1 : (0 : Rat) ≤ 1 / 100000000 := by norm_num
  have h2 : (0 : Rat) ≤ 1 / 100000 * absR a := mul_nonneg (by norm_num) this
  linarith

theorem validateIntervals_valid {lv : Ivals} {T : Rat} (h : ValidLevel lv T) : validateIntervals lv = .ok () := by
  unfold validateIntervals
  have hb := (chain_bounds h.2).2
  have hp := chain_positive h.2
  have h1 : lv.any (fun p => decide (p.1 < 0) || decide (p.2 < 0)) = false := by
    rw [List.any_eq_false]
    intro p hp'
    have a := (hb p.1 (mem_entries_of_mem hp').1).1
    have b := (hb p.2 (mem_entries_of_mem hp').2).1
    simp [not_lt.2 a, not_lt.2 b]
  have h2 : lv.any (fun p => decide (p.2 ≤ p.1)) = false := by
    rw [List.any_eq_false]
    intro p hp'
    simp [hp p hp']
  simp [h1, h2]

theorem validateOne_valid {lv : Ivals} {T : Rat} (h : ValidLevel lv T) : validateOne lv = .ok () := by
  unfold validateOne
  rw [validateIntervals_valid h]
  simp only [validLevel_min h, allclose_self, if_true]

theorem validateStructure_valid {top cur : Ivals} {T : Rat} (ht : ValidLevel top T) (hc : ValidLevel cur T) :
    validateStructure top cur = .ok () := by
  unfold validateStructure
  rw [validateOne_valid ht, validateOne_valid hc]
  simp only [validLevel_max ht, validLevel_max hc, allclose_self, if_true]

theorem validateRest_valid {top : Ivals} {T : Rat} (ht : ValidLevel top T) (rest : List Ivals)
    (hr : ∀ lv ∈ rest, ValidLevel lv T) : validateRest top rest = .ok () := by
  induction rest with
  | nil => rfl
  | cons c t ih =>
    simp only [validateRest]
    rw [validateStructure_valid ht (hr c List.mem_cons_self)]
    exact ih (fun lv hlv => hr lv (List.mem_cons_of_mem _ hlv))

theorem validateHier_valid {h : Hier} {T : Rat} (hv : ValidHier h T) : validateHier h = .ok () := by
  obtain ⟨hne, hall⟩ := hv
  cases h with
  | nil => exact absurd rfl hne
  | cons top rest =>
    exact validateRest_valid (hall top List.mem_cons_self) rest
      (fun lv hlv => hall lv (List.mem_cons_of_mem _ hlv))

theorem bounds_valid {h : Hier} {T : Rat} (hv : ValidHier h T) : bounds h = .ok (0, T) := by
  obtain ⟨hne, hall⟩ := hv
  have hb : boundaries h = h.flatMap entries := rfl
  have hmem : ∀ x ∈ boundaries h, 0 ≤ x ∧ x ≤ T := by
    intro x hx
    rw [hb, List.mem_flatMap] at hx
    obtain ⟨lv, hlv, hx⟩ := hx
    exact (chain_bounds (hall lv hlv).2).2 x hx
  cases h with
  | nil => exact absurd rfl hne
  | cons top rest =>
    have ht := hall top List.mem_cons_self
    have h0 : (0 : Rat) ∈ boundaries (top :: rest) := by
      rw [hb, List.mem_flatMap]; exact ⟨top, List.mem_cons_self, (chain_mem ht.2 ht.1).1⟩
    have hT : T ∈ boundaries (top :: rest) := by
      rw [hb, List.mem_flatMap]; exact ⟨top, List.mem_cons_self, (chain_mem ht.2 ht.1).2⟩
    unfold bounds
    rw [min?_eq_of_mem h0 (fun x hx => (hmem x hx).1), max?_eq_of_mem hT (fun x hx => (hmem x hx).2)]

theorem numFrames_valid {h : Hier} {T : Rat} (hv : ValidHier h T) (fs : Rat) :
    numFrames h fs = .ok (framesOf T fs) := by
  unfold numFrames
  rw [bounds_valid hv]
  rfl

theorem lca_valid {h : Hier} {T : Rat} (hv : ValidHier h T) (fs : Rat) :
    ∃ m, lca h fs = .ok m ∧ IsSquare (framesOf T fs) m := by
  have hn := numFrames_valid hv fs
  have : ∃ m, lca h fs = .ok m := by
    unfold lca
    rw [hn]
    exact ⟨_, rfl⟩
  obtain ⟨m, hm⟩ := this
  obtain ⟨n, hn', hsq⟩ := lca_isSquare hm
  rw [hn] at hn'
  cases hn'
  exact ⟨m, hm, hsq⟩

theorem windowFrames_ok (window : Option Rat) (fs : Rat) (hw : ∀ w, window = some w → fs ≤ w) :
    ∃ wf, windowFrames window fs = .ok wf := by
  cases window with
  | none => exact ⟨none, rfl⟩
  | some w =>
    have : ¬ fs > w := not_lt.2 (hw w rfl)
    exact ⟨some (frameOf w fs).toNat, by simp [windowFrames, this]⟩

/-- on valid annotations with accepted parameters `tmeasure` returns the triplet definition -/
theorem tmeasure_valid (ref est : Hier) (T : Rat) (tr : Bool) (window : Option Rat) (fs beta : Rat)
    (hr : ValidHier ref T) (he : ValidHier est T) (h0 : 0 < fs) (hw : ∀ w, window = some w → fs ≤ w) :
    ∃ wf rl el, windowFrames window fs = .ok wf ∧ lca ref fs = .ok rl ∧ lca est fs = .ok el
      ∧ IsSquare (framesOf T fs) rl ∧ IsSquare (framesOf T fs) el
      ∧ tmeasure ref est tr window fs beta
            = .ok (gaucSpec el rl tr (winOf wf (framesOf T fs)), gaucSpec rl el tr (winOf wf (framesOf T fs)),
                   fMeasure (gaucSpec el rl tr (winOf wf (framesOf T fs)))
                     (gaucSpec rl el tr (winOf wf (framesOf T fs))) beta) := by
  obtain ⟨wf, hwf⟩ := windowFrames_ok window fs hw
  obtain ⟨rl, hrl, hsr⟩ := lca_valid hr fs
  obtain ⟨el, hel, hse⟩ := lca_valid he fs
  refine ⟨wf, rl, el, hwf, hrl, hel, hsr, hse, ?_⟩
  unfold tmeasure
  rw [if_neg (not_le_of_gt h0)]
  simp only [hwf, validateHier_valid hr, validateHier_valid he, hrl, hel,
    gauc_eq_spec _ rl el hsr hse tr wf, gauc_eq_spec _ el rl hse hsr tr wf, bind, Except.bind]
  rfl

theorem meetLevels_ok (fs : Rat) (n : Nat) (xs : List ((Ivals × List String) × Nat)) (m : Mat)
    (hfit : ∀ x ∈ xs, x.1.2.length ≤ x.1.1.length) : ∃ m', meetLevels fs n m xs = .ok m' := by
  induction xs generalizing m with
  | nil => exact ⟨m, rfl⟩
  | cons x t ih =>
    have hx := hfit x List.mem_cons_self
    have : ∃ m1, meetLevel fs n m x.2 x.1.1 x.1.2 = .ok m1 := by
      unfold meetLevel
      rw [if_neg (by omega)]
      exact ⟨_, rfl⟩
    obtain ⟨m1, hm1⟩ := this
    obtain ⟨m', hm'⟩ := ih m1 (fun y hy => hfit y (List.mem_cons_of_mem _ hy))
    exact ⟨m', by simp only [meetLevels, hm1, hm']⟩

theorem meet_valid {h : Hier} {T : Rat} (hv : ValidHier h T) (labels : List (List String)) (fs : Rat)
    (hfit : ∀ x ∈ h.zip labels, x.2.length ≤ x.1.length) :
    ∃ m, meet h labels fs = .ok m ∧ IsSquare (framesOf T fs) m := by
  have hn := numFrames_valid hv fs
  have : ∃ m, meet h labels fs = .ok m := by
    unfold meet
    rw [hn]
    apply meetLevels_ok
    intro x hx
    have hmem : x.1 ∈ h.zip labels := by
      have := (List.mem_zipIdx hx).2.2
      rw [this]; exact List.getElem_mem _
    exact hfit x.1 hmem
  obtain ⟨m, hm⟩ := this
  obtain ⟨n, hn', hsq⟩ := meet_isSquare hm
  rw [hn] at hn'
  cases hn'
  exact ⟨m, hm, hsq⟩

/-- on valid labelled annotations `lmeasure` returns the triplet definition on the meet matrices -/
theorem lmeasure_valid (ref est : Hier) (rls els : List (List String)) (T fs beta : Rat)
    (hr : ValidHier ref T) (he : ValidHier est T) (h0 : 0 < fs)
    (hrf : ∀ x ∈ ref.zip rls, x.2.length ≤ x.1.length) (hef : ∀ x ∈ est.zip els, x.2.length ≤ x.1.length) :
    ∃ rm em, meet ref rls fs = .ok rm ∧ meet est els fs = .ok em
      ∧ IsSquare (framesOf T fs) rm ∧ IsSquare (framesOf T fs) em
      ∧ lmeasure ref rls est els fs beta
            = .ok (gaucSpec em rm true (framesOf T fs), gaucSpec rm em true (framesOf T fs),
                   fMeasure (gaucSpec em rm true (framesOf T fs)) (gaucSpec rm em true (framesOf T fs)) beta) := by
  obtain ⟨rm, hrm, hsr⟩ := meet_valid hr rls fs hrf
  obtain ⟨em, hem, hse⟩ := meet_valid he els fs hef
  refine ⟨rm, em, hrm, hem, hsr, hse, ?_⟩
  have e1 := gauc_eq_spec _ rm em hsr hse true none
  have e2 := gauc_eq_spec _ em rm hse hsr true none
  simp only [winOf] at e1 e2
  unfold lmeasure
  rw [if_neg (not_le_of_gt h0)]
  simp only [validateHier_valid hr, validateHier_valid he, hrm, hem, e1, e2, bind, Except.bind]
  rfl

end Hierarchy
end Mir
