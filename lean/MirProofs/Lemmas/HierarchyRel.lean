import MirProofs.Lemmas.Hierarchy

/-! Helper lemmas for C08 / C12 (hierarchy): relabelling and interval splitting leave the meet matrix unchanged. -/
namespace Mir
namespace Hierarchy

/-! ### relabelling -/

/-- the agreeing pairs only depend on which labels are equal -/
theorem agreePairs_congr {σ κ : Type} (f g : κ → String) (segs : List (κ × σ))
    (h : ∀ a ∈ segs, ∀ b ∈ segs, (f a.1 = f b.1 ↔ g a.1 = g b.1)) :
    agreePairs (segs.map fun p => (f p.1, p.2)) = agreePairs (segs.map fun p => (g p.1, p.2)) := by
  unfold agreePairs
  simp only [List.zipIdx_map, List.flatMap_map, List.filter_map, List.map_map]
  apply List.flatMap_congr
  intro x hx
  have hxm : x.1 ∈ segs := List.mem_of_getElem? (List.mem_zipIdx_iff_getElem?.1 hx)
  congr 1
  apply List.filter_congr
  intro y hy
  have hym : y.1 ∈ segs := List.mem_of_getElem? (List.mem_zipIdx_iff_getElem?.1 hy)
  simp only [Function.comp, Prod.map, id]
  congr 1
  have := h x.1 hxm y.1 hym
  by_cases h1 : f x.1.1 = f y.1.1
  · simp [h1, this.1 h1]
  · have h2 : ¬ g x.1.1 = g y.1.1 := fun h2 => h1 (this.2 h2)
    simp [h1, h2]

theorem meetLevel_relabel (fs : Rat) (n : Nat) (m : Mat) (level : Nat) (ivs : Ivals) (labs : List String)
    (σ : String → String)
    (h : ∀ a ∈ labs, ∀ b ∈ labs, ((σ a).toLower = (σ b).toLower ↔ a.toLower = b.toLower)) :
    meetLevel fs n m level ivs (labs.map σ) = meetLevel fs n m level ivs labs := by
  unfold meetLevel
  rw [List.length_map]
  split
  · rfl
  · have e1 : ((labs.map σ).map String.toLower).zip (ivs.map (frameSlice fs n))
        = (labs.zip (ivs.map (frameSlice fs n))).map fun p => ((σ p.1).toLower, p.2) := by
      rw [List.map_map, List.zip_map_left]
      rfl
    have e2 : (labs.map String.toLower).zip (ivs.map (frameSlice fs n))
        = (labs.zip (ivs.map (frameSlice fs n))).map fun p => (p.1.toLower, p.2) := by
      rw [List.zip_map_left]
      rfl
    simp only [e1, e2]
    rw [agreePairs_congr (fun a => (σ a).toLower) String.toLower]
    intro a ha b hb
    exact h a.1 (List.of_mem_zip ha).1 b.1 (List.of_mem_zip hb).1

/-- `meetLevels` over `(h.zip labels).zipIdx k` with relabelled labels -/
theorem meetLevels_relabel (fs : Rat) (n : Nat) (σ : String → String) (h : Hier) (labels : List (List String))
    (hσ : ∀ lv ∈ labels, ∀ a ∈ lv, ∀ b ∈ lv, ((σ a).toLower = (σ b).toLower ↔ a.toLower = b.toLower))
    (k : Nat) (m : Mat) :
    meetLevels fs n m ((h.zip (labels.map fun lv => lv.map σ)).zipIdx k)
      = meetLevels fs n m ((h.zip labels).zipIdx k) := by
  induction h generalizing labels k m with
  | nil => simp
  | cons ivs t ih =>
    cases labels with
    | nil => simp
    | cons labs ls =>
      simp only [List.map_cons, List.zip_cons_cons, List.zipIdx_cons, meetLevels]
      rw [meetLevel_relabel fs n m k ivs labs σ (hσ labs List.mem_cons_self)]
      split
      · rfl
      · exact ih ls (fun lv hlv => hσ lv (List.mem_cons_of_mem _ hlv)) _ _

theorem meet_relabel (h : Hier) (labels : List (List String)) (fs : Rat) (σ : String → String)
    (hσ : ∀ lv ∈ labels, ∀ a ∈ lv, ∀ b ∈ lv, ((σ a).toLower = (σ b).toLower ↔ a.toLower = b.toLower)) :
    meet h (labels.map fun lv => lv.map σ) fs = meet h labels fs := by
  unfold meet
  split
  · rfl
  · exact meetLevels_relabel fs _ σ h labels hσ 1 _

theorem lmeasure_relabel (ref est : Hier) (rls els : List (List String)) (fs beta : Rat)
    (σr σe : String → String)
    (hr : ∀ lv ∈ rls, ∀ a ∈ lv, ∀ b ∈ lv, ((σr a).toLower = (σr b).toLower ↔ a.toLower = b.toLower))
    (he : ∀ lv ∈ els, ∀ a ∈ lv, ∀ b ∈ lv, ((σe a).toLower = (σe b).toLower ↔ a.toLower = b.toLower)) :
    lmeasure ref (rls.map fun lv => lv.map σr) est (els.map fun lv => lv.map σe) fs beta
      = lmeasure ref rls est els fs beta := by
  unfold lmeasure
  rw [meet_relabel ref rls fs σr hr, meet_relabel est els fs σe he]

/-! ### splitting an interval: frame slices -/

theorem frameOf_mono {fs a b : Rat} (h0 : 0 < fs) (h : a ≤ b) : frameOf a fs ≤ frameOf b fs := by
  unfold frameOf
  exact Rat.floor_monotone ((div_le_div_iff_of_pos_right h0).2 h)

theorem frameOf_nonneg {fs a : Rat} (h0 : 0 < fs) (h : 0 ≤ a) : 0 ≤ frameOf a fs := by
  unfold frameOf
  exact Rat.le_floor_iff.2 (by simpa using div_nonneg h (le_of_lt h0))

theorem frameSlice_nonneg {fs : Rat} (n : Nat) {a b : Rat} (ha : 0 ≤ frameOf a fs) (hb : 0 ≤ frameOf b fs) :
    frameSlice fs n (a, b) = (min (frameOf a fs).toNat n, min (frameOf b fs).toNat n) := by
  unfold frameSlice normIdx
  dsimp only
  rw [if_neg (not_lt.2 ha), if_neg (not_lt.2 hb)]

theorem inSlice_split {fs : Rat} (n : Nat) {s c e : Rat} (h0 : 0 < fs) (hs : 0 ≤ s) (h1 : s ≤ c) (h2 : c ≤ e)
    (i : Nat) :
    (inSlice (frameSlice fs n (s, c)) i || inSlice (frameSlice fs n (c, e)) i) = inSlice (frameSlice fs n (s, e)) i := by
  have a1 := frameOf_nonneg h0 hs
  have a2 := frameOf_mono h0 h1
  have a3 := frameOf_mono h0 h2
  rw [frameSlice_nonneg n a1 (by omega), frameSlice_nonneg n (by omega) (by omega), frameSlice_nonneg n a1 (by omega)]
  unfold inSlice
  rw [Bool.eq_iff_iff]
  simp only [Bool.or_eq_true, Bool.and_eq_true, decide_eq_true_eq]
  omega

/-- some segment with (case-folded) label `k` contains frame `i` -/
def HasKeyAt (segs : List (String × (Nat × Nat))) (k : String) (i : Nat) : Prop :=
  ∃ a ∈ segs, a.1 = k ∧ inSlice a.2 i = true

theorem any_agree_iff (segs : List (String × (Nat × Nat))) (i j : Nat) :
    (segs.any fun a => segs.any fun b => a.1 == b.1 && inSlice a.2 i && inSlice b.2 j) = true
      ↔ ∃ k, HasKeyAt segs k i ∧ HasKeyAt segs k j := by
  simp only [List.any_eq_true, Bool.and_eq_true, beq_iff_eq, HasKeyAt]
  constructor
  · rintro ⟨a, ha, b, hb, ⟨hab, hi⟩, hj⟩
    exact ⟨a.1, ⟨a, ha, rfl, hi⟩, ⟨b, hb, hab.symm, hj⟩⟩
  · rintro ⟨k, ⟨a, ha, hak, hi⟩, ⟨b, hb, hbk, hj⟩⟩
    exact ⟨a, ha, b, hb, ⟨hak.trans hbk.symm, hi⟩, hj⟩

theorem segs_split (fs : Rat) (n : Nat) (a b : Ivals) (la lb : List String) (l : String) (hl : la.length = a.length)
    (x : Rat × Rat) :
    ((la ++ l :: lb).map String.toLower).zip ((a ++ x :: b).map (frameSlice fs n))
      = (la.map String.toLower).zip (a.map (frameSlice fs n))
          ++ (l.toLower, frameSlice fs n x) :: (lb.map String.toLower).zip (b.map (frameSlice fs n)) := by
  rw [List.map_append, List.map_append, List.zip_append (by simp [hl])]
  rfl

theorem hasKeyAt_split {fs : Rat} (n : Nat) {s c e : Rat} (h0 : 0 < fs) (hs : 0 ≤ s) (h1 : s ≤ c) (h2 : c ≤ e)
    (A B : List (String × (Nat × Nat))) (l k : String) (i : Nat) :
    HasKeyAt (A ++ (l, frameSlice fs n (s, c)) :: (l, frameSlice fs n (c, e)) :: B) k i
      ↔ HasKeyAt (A ++ (l, frameSlice fs n (s, e)) :: B) k i := by
  have hsl := inSlice_split n h0 hs h1 h2 i
  unfold HasKeyAt
  simp only [List.mem_append, List.mem_cons]
  constructor
  · rintro ⟨p, hp | rfl | rfl | hp, hk, hi⟩
    · exact ⟨p, Or.inl hp, hk, hi⟩
    · exact ⟨(l, frameSlice fs n (s, e)), Or.inr (Or.inl rfl), hk, by
        rw [← hsl]; simp only [] at hi; simp [hi]⟩
    · exact ⟨(l, frameSlice fs n (s, e)), Or.inr (Or.inl rfl), hk, by
        rw [← hsl]; simp only [] at hi; simp [hi]⟩
    · exact ⟨p, Or.inr (Or.inr hp), hk, hi⟩
  · rintro ⟨p, hp | rfl | hp, hk, hi⟩
    · exact ⟨p, Or.inl hp, hk, hi⟩
    · simp only [] at hi
      rw [← hsl, Bool.or_eq_true] at hi
      rcases hi with hi | hi
      · exact ⟨_, Or.inr (Or.inl rfl), hk, hi⟩
      · exact ⟨_, Or.inr (Or.inr (Or.inl rfl)), hk, hi⟩
    · exact ⟨p, Or.inr (Or.inr (Or.inr hp)), hk, hi⟩

theorem levelAgrees_split {fs : Rat} (n : Nat) {s c e : Rat} (h0 : 0 < fs) (hs : 0 ≤ s) (h1 : s ≤ c) (h2 : c ≤ e)
    (a b : Ivals) (la lb : List String) (l : String) (hl : la.length = a.length) (i j : Nat) :
    levelAgrees fs n (a ++ (s, c) :: (c, e) :: b, la ++ l :: l :: lb) i j
      = levelAgrees fs n (a ++ (s, e) :: b, la ++ l :: lb) i j := by
  unfold levelAgrees
  dsimp only
  rw [segs_split fs n a b la lb l hl (s, e)]
  have e1 : ((la ++ l :: l :: lb).map String.toLower).zip ((a ++ (s, c) :: (c, e) :: b).map (frameSlice fs n))
      = (la.map String.toLower).zip (a.map (frameSlice fs n))
          ++ (l.toLower, frameSlice fs n (s, c)) :: (l.toLower, frameSlice fs n (c, e))
            :: (lb.map String.toLower).zip (b.map (frameSlice fs n)) := by
    rw [segs_split fs n a ((c, e) :: b) la (l :: lb) l hl (s, c)]
    rfl
  rw [e1, Bool.eq_iff_iff, any_agree_iff, any_agree_iff]
  constructor
  · rintro ⟨k, hi, hj⟩
    exact ⟨k, (hasKeyAt_split n h0 hs h1 h2 _ _ _ k i).1 hi, (hasKeyAt_split n h0 hs h1 h2 _ _ _ k j).1 hj⟩
  · rintro ⟨k, hi, hj⟩
    exact ⟨k, (hasKeyAt_split n h0 hs h1 h2 _ _ _ k i).2 hi, (hasKeyAt_split n h0 hs h1 h2 _ _ _ k j).2 hj⟩

/-! ### matrices with the same shape and the same entries are equal -/

theorem mat_ext {m1 m2 : Mat} (hlen : m1.length = m2.length) (h : ∀ i j, entry m1 i j = entry m2 i j) :
    m1 = m2 := by
  apply List.ext_getElem hlen
  intro i h1 h2
  apply List.ext_getElem?
  intro j
  have := h i j
  unfold entry at this
  rw [List.getElem?_eq_getElem h1, List.getElem?_eq_getElem h2] at this
  simpa using this

theorem length_meetLevel {fs : Rat} {n level : Nat} {ivs : Ivals} {labs : List String} {m m' : Mat}
    (hm : meetLevel fs n m level ivs labs = .ok m') : m'.length = m.length := by
  unfold meetLevel at hm
  split at hm
  · cases hm
  · cases hm
    apply foldl_invariant (fun b : Mat => b.length = m.length) _ _ _ rfl
    intro b a hb
    unfold meetStep
    dsimp only
    split <;> simp [setBlock, hb]

theorem meetLevel_split {fs : Rat} (n : Nat) {s c e : Rat} (h0 : 0 < fs) (hs : 0 ≤ s) (h1 : s ≤ c) (h2 : c ≤ e)
    (m : Mat) (level : Nat) (a b : Ivals) (la lb : List String) (l : String) (hl : la.length = a.length) :
    meetLevel fs n m level (a ++ (s, c) :: (c, e) :: b) (la ++ l :: l :: lb)
      = meetLevel fs n m level (a ++ (s, e) :: b) (la ++ l :: lb) := by
  cases h1' : meetLevel fs n m level (a ++ (s, c) :: (c, e) :: b) (la ++ l :: l :: lb) with
  | error e1 =>
    unfold meetLevel at h1' ⊢
    split at h1'
    · rename_i hlt
      rw [if_pos (by simp at hlt ⊢; omega)]
      exact h1'.symm
    · cases h1'
  | ok m1 =>
    cases h2' : meetLevel fs n m level (a ++ (s, e) :: b) (la ++ l :: lb) with
    | error e2 =>
      exfalso
      unfold meetLevel at h1' h2'
      split at h2'
      · rename_i hlt
        rw [if_pos (by simp at hlt ⊢; omega)] at h1'
        cases h1'
      · cases h2'
    | ok m2 =>
      congr 1
      apply mat_ext (by rw [length_meetLevel h1', length_meetLevel h2'])
      intro i j
      rw [entry_meetLevel h1', entry_meetLevel h2', levelAgrees_split n h0 hs h1 h2 a b la lb l hl]


/-! ### splitting an interval: bounds -/

theorem exists_min (l : List Rat) (hne : l ≠ []) : ∃ m ∈ l, ∀ x ∈ l, m ≤ x := by
  induction l with
  | nil => exact absurd rfl hne
  | cons a t ih =>
    cases t with
    | nil => exact ⟨a, List.mem_cons_self, fun x hx => by simp at hx; rw [hx]⟩
    | cons b r =>
      obtain ⟨m, hm, hle⟩ := ih (by simp)
      by_cases h : a ≤ m
      · refine ⟨a, List.mem_cons_self, fun x hx => ?_⟩
        rcases List.mem_cons.1 hx with rfl | hx
        · exact le_refl _
        · exact le_trans h (hle x hx)
      · refine ⟨m, List.mem_cons_of_mem _ hm, fun x hx => ?_⟩
        rcases List.mem_cons.1 hx with rfl | hx
        · exact le_of_lt (lt_of_not_ge h)
        · exact hle x hx

theorem exists_max (l : List Rat) (hne : l ≠ []) : ∃ m ∈ l, ∀ x ∈ l, x ≤ m := by
  induction l with
  | nil => exact absurd rfl hne
  | cons a t ih =>
    cases t with
    | nil => exact ⟨a, List.mem_cons_self, fun x hx => by simp at hx; rw [hx]⟩
    | cons b r =>
      obtain ⟨m, hm, hle⟩ := ih (by simp)
      by_cases h : m ≤ a
      · refine ⟨a, List.mem_cons_self, fun x hx => ?_⟩
        rcases List.mem_cons.1 hx with rfl | hx
        · exact le_refl _
        · exact le_trans (hle x hx) h
      · refine ⟨m, List.mem_cons_of_mem _ hm, fun x hx => ?_⟩
        rcases List.mem_cons.1 hx with rfl | hx
        · exact le_of_lt (lt_of_not_ge h)
        · exact hle x hx

/-- `min` / `max` of a list do not change when points inside the hull of the list are added -/
theorem minmax_hull {l1 l2 : List Rat} (h12 : ∀ x ∈ l1, x ∈ l2)
    (h21 : ∀ x ∈ l2, ∃ a ∈ l1, ∃ b ∈ l1, a ≤ x ∧ x ≤ b) : l2.min? = l1.min? ∧ l2.max? = l1.max? := by
  cases l1 with
  | nil =>
    cases l2 with
    | nil => exact ⟨rfl, rfl⟩
    | cons x t => obtain ⟨a, ha, _⟩ := h21 x List.mem_cons_self; cases ha
  | cons y r =>
    obtain ⟨mn, hmn, hmnle⟩ := exists_min (y :: r) (by simp)
    obtain ⟨mx, hmx, hmxle⟩ := exists_max (y :: r) (by simp)
    rw [min?_eq_of_mem hmn hmnle, max?_eq_of_mem hmx hmxle]
    constructor
    · apply min?_eq_of_mem (h12 _ hmn)
      intro x hx
      obtain ⟨a, ha, _, _, hax, _⟩ := h21 x hx
      exact le_trans (hmnle a ha) hax
    · apply max?_eq_of_mem (h12 _ hmx)
      intro x hx
      obtain ⟨_, _, b, hb, _, hxb⟩ := h21 x hx
      exact le_trans hxb (hmxle b hb)

theorem mem_entries_iff {iv : Ivals} {x : Rat} : x ∈ entries iv ↔ ∃ p ∈ iv, x = p.1 ∨ x = p.2 := by
  unfold entries
  simp [List.mem_flatMap]

theorem entries_split_sub {a b : Ivals} {s c e : Rat} :
    ∀ x ∈ entries (a ++ (s, e) :: b), x ∈ entries (a ++ (s, c) :: (c, e) :: b) := by
  intro x hx
  rw [mem_entries_iff] at hx ⊢
  obtain ⟨p, hp, hxp⟩ := hx
  simp only [List.mem_append, List.mem_cons] at hp ⊢
  rcases hp with hp | rfl | hp
  · exact ⟨p, Or.inl hp, hxp⟩
  · rcases hxp with h | h
    · exact ⟨(s, c), Or.inr (Or.inl rfl), Or.inl h⟩
    · exact ⟨(c, e), Or.inr (Or.inr (Or.inl rfl)), Or.inr h⟩
  · exact ⟨p, Or.inr (Or.inr (Or.inr hp)), hxp⟩

theorem entries_split_hull {a b : Ivals} {s c e : Rat} (h1 : s ≤ c) (h2 : c ≤ e) :
    ∀ x ∈ entries (a ++ (s, c) :: (c, e) :: b),
      ∃ u ∈ entries (a ++ (s, e) :: b), ∃ v ∈ entries (a ++ (s, e) :: b), u ≤ x ∧ x ≤ v := by
  intro x hx
  have hs : s ∈ entries (a ++ (s, e) :: b) := mem_entries_iff.2 ⟨(s, e), by simp, Or.inl rfl⟩
  have he : e ∈ entries (a ++ (s, e) :: b) := mem_entries_iff.2 ⟨(s, e), by simp, Or.inr rfl⟩
  rw [mem_entries_iff] at hx
  obtain ⟨p, hp, hxp⟩ := hx
  simp only [List.mem_append, List.mem_cons] at hp
  have self : x ∈ entries (a ++ (s, e) :: b) →
      ∃ u ∈ entries (a ++ (s, e) :: b), ∃ v ∈ entries (a ++ (s, e) :: b), u ≤ x ∧ x ≤ v :=
    fun h => ⟨x, h, x, h, le_refl _, le_refl _⟩
  rcases hp with hp | rfl | rfl | hp
  · exact self (mem_entries_iff.2 ⟨p, by simp [hp], hxp⟩)
  · rcases hxp with h | h
    · exact self (h ▸ hs)
    · exact ⟨s, hs, e, he, h ▸ h1, h ▸ h2⟩
  · rcases hxp with h | h
    · exact ⟨s, hs, e, he, h ▸ h1, h ▸ h2⟩
    · exact self (h ▸ he)
  · exact self (mem_entries_iff.2 ⟨p, by simp [hp], hxp⟩)

theorem entries_split_minmax {a b : Ivals} {s c e : Rat} (h1 : s ≤ c) (h2 : c ≤ e) :
    (entries (a ++ (s, c) :: (c, e) :: b)).min? = (entries (a ++ (s, e) :: b)).min?
    ∧ (entries (a ++ (s, c) :: (c, e) :: b)).max? = (entries (a ++ (s, e) :: b)).max? :=
  minmax_hull entries_split_sub (entries_split_hull h1 h2)

theorem boundaries_eq (h : Hier) : boundaries h = h.flatMap entries := rfl

theorem bounds_split (hp hs : Hier) {a b : Ivals} {s c e : Rat} (h1 : s ≤ c) (h2 : c ≤ e) :
    bounds (hp ++ (a ++ (s, c) :: (c, e) :: b) :: hs) = bounds (hp ++ (a ++ (s, e) :: b) :: hs) := by
  have := minmax_hull (l1 := boundaries (hp ++ (a ++ (s, e) :: b) :: hs))
    (l2 := boundaries (hp ++ (a ++ (s, c) :: (c, e) :: b) :: hs)) (by
      intro x hx
      rw [boundaries_eq, List.mem_flatMap] at hx ⊢
      obtain ⟨lv, hlv, hx⟩ := hx
      simp only [List.mem_append, List.mem_cons] at hlv ⊢
      rcases hlv with hlv | rfl | hlv
      · exact ⟨lv, Or.inl hlv, hx⟩
      · exact ⟨_, Or.inr (Or.inl rfl), entries_split_sub x hx⟩
      · exact ⟨lv, Or.inr (Or.inr hlv), hx⟩) (by
      intro x hx
      rw [boundaries_eq, List.mem_flatMap] at hx
      obtain ⟨lv, hlv, hx⟩ := hx
      simp only [List.mem_append, List.mem_cons] at hlv
      have lift : ∀ lv' ∈ hp ++ (a ++ (s, e) :: b) :: hs, ∀ y ∈ entries lv',
          y ∈ boundaries (hp ++ (a ++ (s, e) :: b) :: hs) := by
        intro lv' h' y hy
        rw [boundaries_eq, List.mem_flatMap]
        exact ⟨lv', h', hy⟩
      rcases hlv with hlv | rfl | hlv
      · have := lift lv (by simp [hlv]) x hx
        exact ⟨x, this, x, this, le_refl _, le_refl _⟩
      · obtain ⟨u, hu, v, hv, h3, h4⟩ := entries_split_hull h1 h2 x hx
        exact ⟨u, lift _ (by simp) u hu, v, lift _ (by simp) v hv, h3, h4⟩
      · have := lift lv (by simp [hlv]) x hx
        exact ⟨x, this, x, this, le_refl _, le_refl _⟩)
  unfold bounds
  rw [this.1, this.2]

theorem numFrames_split (hp hs : Hier) {a b : Ivals} {s c e : Rat} (h1 : s ≤ c) (h2 : c ≤ e) (fs : Rat) :
    numFrames (hp ++ (a ++ (s, c) :: (c, e) :: b) :: hs) fs = numFrames (hp ++ (a ++ (s, e) :: b) :: hs) fs := by
  unfold numFrames
  rw [bounds_split hp hs h1 h2]

/-! ### splitting an interval: meet, validation, lmeasure -/

theorem meetLevels_mid (fs : Rat) (n : Nat) (pre post : List ((Ivals × List String) × Nat))
    (x x' : (Ivals × List String) × Nat)
    (hx : ∀ m, meetLevel fs n m x.2 x.1.1 x.1.2 = meetLevel fs n m x'.2 x'.1.1 x'.1.2) (m : Mat) :
    meetLevels fs n m (pre ++ x :: post) = meetLevels fs n m (pre ++ x' :: post) := by
  induction pre generalizing m with
  | nil => simp only [List.nil_append, meetLevels, hx]
  | cons y t ih =>
    simp only [List.cons_append, meetLevels]
    split
    · rfl
    · exact ih _

theorem zip_mid {α β : Type} (hp hs : List α) (lp ls : List β) (x : α) (y : β) (hl : lp.length = hp.length) :
    (hp ++ x :: hs).zip (lp ++ y :: ls) = hp.zip lp ++ (x, y) :: hs.zip ls := by
  rw [List.zip_append hl.symm]
  rfl

/-- **the meet matrix is blind to how a labelled segment is cut**: splitting segment `[s, e)` of any level at
    `c`, `s ≤ c ≤ e`, both pieces keeping the label, changes nothing (error or matrix) -/
theorem meet_split {fs : Rat} {s c e : Rat} (h0 : 0 < fs) (hs0 : 0 ≤ s) (h1 : s ≤ c) (h2 : c ≤ e)
    (hp hs : Hier) (lp ls : List (List String)) (a b : Ivals) (la lb : List String) (l : String)
    (hlp : lp.length = hp.length) (hla : la.length = a.length) :
    meet (hp ++ (a ++ (s, c) :: (c, e) :: b) :: hs) (lp ++ (la ++ l :: l :: lb) :: ls) fs
      = meet (hp ++ (a ++ (s, e) :: b) :: hs) (lp ++ (la ++ l :: lb) :: ls) fs := by
  unfold meet
  rw [numFrames_split hp hs h1 h2]
  split
  · rfl
  · rename_i n _
    rw [zip_mid hp hs lp ls _ _ hlp, zip_mid hp hs lp ls _ _ hlp, List.zipIdx_append, List.zipIdx_append,
      List.zipIdx_cons, List.zipIdx_cons]
    apply meetLevels_mid
    intro m
    exact meetLevel_split n h0 hs0 h1 h2 m _ a b la lb l hla

/-! ### validation sees the same thing -/

theorem validateIntervals_split (a b : Ivals) {s c e : Rat} (h1 : s < c) (h2 : c < e) :
    validateIntervals (a ++ (s, c) :: (c, e) :: b) = validateIntervals (a ++ (s, e) :: b) := by
  unfold validateIntervals
  have e1 : (a ++ (s, c) :: (c, e) :: b).any (fun p => decide (p.1 < 0) || decide (p.2 < 0))
      = (a ++ (s, e) :: b).any (fun p => decide (p.1 < 0) || decide (p.2 < 0)) := by
    simp only [List.any_append, List.any_cons]
    congr 1
    rw [← Bool.or_assoc]
    congr 1
    rw [Bool.eq_iff_iff]
    simp only [Bool.or_eq_true, decide_eq_true_eq]
    constructor
    · rintro ((h | h) | (h | h))
      · exact Or.inl h
      · exact Or.inl (lt_trans h1 h)
      · exact Or.inl (lt_trans h1 h)
      · exact Or.inr h
    · rintro (h | h)
      · exact Or.inl (Or.inl h)
      · exact Or.inr (Or.inr h)
  have e2 : (a ++ (s, c) :: (c, e) :: b).any (fun p => decide (p.2 ≤ p.1))
      = (a ++ (s, e) :: b).any (fun p => decide (p.2 ≤ p.1)) := by
    simp only [List.any_append, List.any_cons]
    congr 1
    rw [← Bool.or_assoc]
    congr 1
    have : ¬ c ≤ s := not_le.2 h1
    have : ¬ e ≤ c := not_le.2 h2
    have : ¬ e ≤ s := not_le.2 (lt_trans h1 h2)
    simp [*]
  rw [e1, e2]

theorem validateOne_split (a b : Ivals) {s c e : Rat} (h1 : s < c) (h2 : c < e) :
    validateOne (a ++ (s, c) :: (c, e) :: b) = validateOne (a ++ (s, e) :: b) := by
  unfold validateOne
  rw [validateIntervals_split a b h1 h2, (entries_split_minmax (le_of_lt h1) (le_of_lt h2)).1]

theorem validateStructure_split_top (a b cur : Ivals) {s c e : Rat} (h1 : s < c) (h2 : c < e) :
    validateStructure (a ++ (s, c) :: (c, e) :: b) cur = validateStructure (a ++ (s, e) :: b) cur := by
  unfold validateStructure
  rw [validateOne_split a b h1 h2, (entries_split_minmax (le_of_lt h1) (le_of_lt h2)).2]

theorem validateStructure_split_cur (top a b : Ivals) {s c e : Rat} (h1 : s < c) (h2 : c < e) :
    validateStructure top (a ++ (s, c) :: (c, e) :: b) = validateStructure top (a ++ (s, e) :: b) := by
  unfold validateStructure
  rw [validateOne_split a b h1 h2, (entries_split_minmax (le_of_lt h1) (le_of_lt h2)).2]

theorem validateRest_congr_top (top top' : Ivals) (h : ∀ cur, validateStructure top cur = validateStructure top' cur)
    (rest : List Ivals) : validateRest top rest = validateRest top' rest := by
  induction rest with
  | nil => rfl
  | cons x t ih => simp only [validateRest, h, ih]

theorem validateRest_mid (top : Ivals) (pre post : List Ivals) (x x' : Ivals)
    (h : validateStructure top x = validateStructure top x') :
    validateRest top (pre ++ x :: post) = validateRest top (pre ++ x' :: post) := by
  induction pre with
  | nil => simp only [List.nil_append, validateRest, h]
  | cons y t ih => simp only [List.cons_append, validateRest, ih]

theorem validateHier_split (hp hs : Hier) (a b : Ivals) {s c e : Rat} (h1 : s < c) (h2 : c < e) :
    validateHier (hp ++ (a ++ (s, c) :: (c, e) :: b) :: hs) = validateHier (hp ++ (a ++ (s, e) :: b) :: hs) := by
  cases hp with
  | nil =>
    simp only [List.nil_append, validateHier]
    exact validateRest_congr_top _ _ (fun cur => validateStructure_split_top a b cur h1 h2) hs
  | cons top t =>
    simp only [List.cons_append, validateHier]
    exact validateRest_mid top t hs _ _ (validateStructure_split_cur top a b h1 h2)

/-- cutting a labelled reference segment at an interior point leaves `lmeasure` unchanged (value or exception) -/
theorem lmeasure_split_ref {s c e : Rat} (hs0 : 0 ≤ s) (h1 : s < c) (h2 : c < e)
    (hp hs : Hier) (lp ls : List (List String)) (a b : Ivals) (la lb : List String) (l : String)
    (hlp : lp.length = hp.length) (hla : la.length = a.length)
    (est : Hier) (els : List (List String)) (fs beta : Rat) :
    lmeasure (hp ++ (a ++ (s, c) :: (c, e) :: b) :: hs) (lp ++ (la ++ l :: l :: lb) :: ls) est els fs beta
      = lmeasure (hp ++ (a ++ (s, e) :: b) :: hs) (lp ++ (la ++ l :: lb) :: ls) est els fs beta := by
  unfold lmeasure
  split
  · rfl
  · rename_i hfs
    rw [validateHier_split hp hs a b h1 h2,
      meet_split (lt_of_not_ge hfs) hs0 (le_of_lt h1) (le_of_lt h2) hp hs lp ls a b la lb l hlp hla]

theorem lmeasure_split_est {s c e : Rat} (hs0 : 0 ≤ s) (h1 : s < c) (h2 : c < e)
    (hp hs : Hier) (lp ls : List (List String)) (a b : Ivals) (la lb : List String) (l : String)
    (hlp : lp.length = hp.length) (hla : la.length = a.length)
    (ref : Hier) (rls : List (List String)) (fs beta : Rat) :
    lmeasure ref rls (hp ++ (a ++ (s, c) :: (c, e) :: b) :: hs) (lp ++ (la ++ l :: l :: lb) :: ls) fs beta
      = lmeasure ref rls (hp ++ (a ++ (s, e) :: b) :: hs) (lp ++ (la ++ l :: lb) :: ls) fs beta := by
  unfold lmeasure
  split
  · rfl
  · rename_i hfs
    rw [validateHier_split hp hs a b h1 h2,
      meet_split (lt_of_not_ge hfs) hs0 (le_of_lt h1) (le_of_lt h2) hp hs lp ls a b la lb l hlp hla]

/-! ### `hierarchy.evaluate`: the aligned intervals — all that the T-measures see — do not depend on the labels -/

/-- the `t_max` stage of `adjustIntervals`, on (intervals, labels) -/
def stageMax (s2 : Ivals × List String) (tmax : Option Rat) : Py (Ivals × List String) :=
  match tmax with
  | none => .ok s2
  | some tm =>
    let s3 : Ivals × List String := match s2.1.findIdx? (fun p => decide (tm ≤ p.1)) with
      | some k => (s2.1.take k, s2.2.take k)
      | none => s2
    let iv3 := s3.1.map fun p => (min tm p.1, min tm p.2)
    match (entries iv3).max? with
    | none => .error .valueError
    | some mx =>
      if mx < tm then .ok (iv3 ++ [(mx, tm)], s3.2 ++ ["__T_MAX"]) else .ok (iv3, s3.2)

/-- the same on intervals alone -/
def stageMaxIvs (s2 : Ivals) (tmax : Option Rat) : Py Ivals :=
  match tmax with
  | none => .ok s2
  | some tm =>
    let s3 : Ivals := match s2.findIdx? (fun p => decide (tm ≤ p.1)) with
      | some k => s2.take k
      | none => s2
    let iv3 := s3.map fun p => (min tm p.1, min tm p.2)
    match (entries iv3).max? with
    | none => .error .valueError
    | some mx => if mx < tm then .ok (iv3 ++ [(mx, tm)]) else .ok iv3

def stageMin (s1 : Ivals × List String) (tmin : Rat) (tmax : Option Rat) : Py (Ivals × List String) :=
  let iv1 := s1.1.map fun p => (max tmin p.1, max tmin p.2)
  match (entries iv1).min? with
  | none => .error .valueError
  | some mn => stageMax (if tmin < mn then ((tmin, mn) :: iv1, "__T_MIN" :: s1.2) else (iv1, s1.2)) tmax

def stageMinIvs (s1 : Ivals) (tmin : Rat) (tmax : Option Rat) : Py Ivals :=
  let iv1 := s1.map fun p => (max tmin p.1, max tmin p.2)
  match (entries iv1).min? with
  | none => .error .valueError
  | some mn => stageMaxIvs (if tmin < mn then (tmin, mn) :: iv1 else iv1) tmax

/-- the interval half of `adjustIntervals` (no labels anywhere) -/
def adjustIvs (iv : Ivals) (tmin : Rat) (tmax : Option Rat) : Py Ivals :=
  if iv.isEmpty then
    match tmax with
    | some tm => .ok [(tmin, tm)]
    | none => .error .valueError
  else
    stageMinIvs (match iv.findIdx? (fun p => decide (tmin < p.2)) with
      | some k => iv.drop k
      | none => iv) tmin tmax

theorem adjustIntervals_eq_stages (iv : Ivals) (labs : List String) (tmin : Rat) (tmax : Option Rat) :
    adjustIntervals iv labs tmin tmax =
      if iv.isEmpty then
        match tmax with
        | some tm => .ok ([(tmin, tm)], ["__T_MIN"])
        | none => .error .valueError
      else
        stageMin (match iv.findIdx? (fun p => decide (tmin < p.2)) with
          | some k => (iv.drop k, labs.drop k)
          | none => (iv, labs)) tmin tmax := by
  unfold adjustIntervals stageMin stageMax
  rfl

theorem stageMax_fst (a : Ivals) (b : List String) (tmax : Option Rat) :
    (stageMax (a, b) tmax).map (·.1) = stageMaxIvs a tmax := by
  unfold stageMax stageMaxIvs
  cases tmax with
  | none => rfl
  | some tm =>
    dsimp only
    cases a.findIdx? (fun p => decide (tm ≤ p.1)) with
    | none =>
      dsimp only
      cases (entries (a.map fun p => (min tm p.1, min tm p.2))).max? with
      | none => rfl
      | some mx => dsimp only; split <;> rfl
    | some k =>
      dsimp only
      cases (entries ((a.take k).map fun p => (min tm p.1, min tm p.2))).max? with
      | none => rfl
      | some mx => dsimp only; split <;> rfl

theorem stageMin_fst (a : Ivals) (b : List String) (tmin : Rat) (tmax : Option Rat) :
    (stageMin (a, b) tmin tmax).map (·.1) = stageMinIvs a tmin tmax := by
  unfold stageMin stageMinIvs
  dsimp only
  cases (entries (a.map fun p => (max tmin p.1, max tmin p.2))).min? with
  | none => rfl
  | some mn =>
    dsimp only
    by_cases hlt : tmin < mn
    · rw [if_pos hlt, if_pos hlt]; exact stageMax_fst _ _ _
    · rw [if_neg hlt, if_neg hlt]; exact stageMax_fst _ _ _

/-- **the intervals returned by `util.adjust_intervals` do not depend on the labels** -/
theorem adjustIntervals_fst (iv : Ivals) (labs : List String) (tmin : Rat) (tmax : Option Rat) :
    (adjustIntervals iv labs tmin tmax).map (·.1) = adjustIvs iv tmin tmax := by
  rw [adjustIntervals_eq_stages]
  unfold adjustIvs
  split
  · cases tmax <;> rfl
  · cases iv.findIdx? (fun p => decide (tmin < p.2)) <;> exact stageMin_fst _ _ _ _

theorem mapM_adjust_fst (tmax : Option Rat) (h : Hier) (labels : List (List String)) :
    ((h.zip labels).mapM (fun x => adjustIntervals x.1 x.2 0 tmax)).map (List.map (·.1))
      = (h.take labels.length).mapM (fun iv => adjustIvs iv 0 tmax) := by
  induction h generalizing labels with
  | nil => cases labels <;> rfl
  | cons iv t ih =>
    cases labels with
    | nil => rfl
    | cons labs ls =>
      simp only [List.zip_cons_cons, List.length_cons, List.take_succ_cons, List.mapM_cons]
      rw [← adjustIntervals_fst iv labs 0 tmax, ← ih ls]
      cases adjustIntervals iv labs 0 tmax with
      | error e => rfl
      | ok r =>
        cases (t.zip ls).mapM (fun x => adjustIntervals x.1 x.2 0 tmax) with
        | error e => rfl
        | ok rs => rfl

/-- `_align_intervals`: the aligned interval hierarchy depends on the labels only through the NUMBER of levels that
    carry labels -/
theorem alignIntervals_fst (h : Hier) (labels labels' : List (List String)) (tmax : Option Rat)
    (hlen : labels.length = labels'.length) :
    (alignIntervals h labels tmax).map (·.1) = (alignIntervals h labels' tmax).map (·.1) := by
  have key : ∀ ls : List (List String), (alignIntervals h ls tmax).map (·.1)
      = match (h.take ls.length).mapM (fun iv => adjustIvs iv 0 tmax) with
        | .error e => .error e
        | .ok [] => .error .valueError
        | .ok rs => .ok rs := by
    intro ls
    rw [← mapM_adjust_fst]
    unfold alignIntervals
    cases (h.zip ls).mapM (fun x => adjustIntervals x.1 x.2 0 tmax) with
    | error e => rfl
    | ok rs =>
      cases rs with
      | nil => rfl
      | cons r rs' => rfl
  rw [key labels, key labels', hlen]

/-- **`hierarchy.evaluate`: the six T-measure entries do not depend on the label contents** (only on how many
    levels carry labels): whenever both calls return, their first six entries coincide -/
theorem evaluate_T_labels (ref est : Hier) (rl rl' el el' : List (List String)) (window : Option Rat)
    (fs beta : Rat) (hr : rl.length = rl'.length) (he : el.length = el'.length)
    {out out' : List (String × Rat)} (h : evaluate ref rl est el window fs beta = .ok out)
    (h' : evaluate ref rl' est el' window fs beta = .ok out') : out.take 6 = out'.take 6 := by
  unfold evaluate at h h'
  simp only [bind_eq_ok] at h h'
  obtain ⟨b, hb, r, hra, e, hea, t0, ht0, t1, ht1, l, _, hout⟩ := h
  obtain ⟨b', hb', r', hra', e', hea', t0', ht0', t1', ht1', l', _, hout'⟩ := h'
  rw [hb] at hb'
  cases hb'
  have e1 : r.1 = r'.1 := by
    have := alignIntervals_fst ref rl rl' none hr
    rw [hra, hra'] at this
    exact Except.ok.inj this
  have e2 : e.1 = e'.1 := by
    have := alignIntervals_fst est el el' (some b.2) he
    rw [hea, hea'] at this
    exact Except.ok.inj this
  rw [e1, e2] at ht0 ht1
  rw [ht0] at ht0'
  rw [ht1] at ht1'
  cases ht0'; cases ht1'
  cases hout; cases hout'
  rfl

end Hierarchy
end Mir
