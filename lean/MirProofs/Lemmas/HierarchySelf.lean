import MirProofs.Lemmas.Hierarchy

/-! Helper lemmas for C02 (hierarchy): a matrix scored against itself. -/
namespace Mir
namespace Hierarchy

/-! ### a ranking compared with itself: every reference triple is ranked correctly -/

theorem rel_lt {tr : Bool} {a b : Nat} (h : rel tr a b = true) : a < b := by
  unfold rel at h
  cases tr <;> simp at h <;> omega

theorem correct_self (tr : Bool) (r : List Nat) : correct tr r r = triples tr r r := by
  unfold correct triples
  apply countPairs_congr
  intro x hx y hy
  have hx' : x.1 = x.2 := by
    obtain ⟨i, hi⟩ := List.mem_iff_getElem?.1 hx
    rw [List.getElem?_zip_eq_some] at hi
    exact Option.some.inj (hi.1.symm.trans hi.2)
  have hy' : y.1 = y.2 := by
    obtain ⟨i, hi⟩ := List.mem_iff_getElem?.1 hy
    rw [List.getElem?_zip_eq_some] at hi
    exact Option.some.inj (hi.1.symm.trans hi.2)
  by_cases h : rel tr x.1 y.1 = true
  · have := rel_lt h
    simp [h, ← hx', ← hy', this]
  · simp [h]

/-! ### the score of a list of per-query terms in which every triple is correct -/

theorem sum_map_one {α : Type} (l : List α) : (l.map fun _ => (1 : Rat)).sum = (l.length : Rat) := by
  induction l with
  | nil => simp
  | cons a t _ => simp; ring

theorem specScore_all_correct (terms : List (Nat × Nat)) (h : ∀ t ∈ terms, t.1 = t.2) :
    specScore terms = if terms.any (fun t => decide (t.2 ≠ 0)) then 1 else 0 := by
  unfold specScore
  simp only
  by_cases hany : terms.any (fun t => decide (t.2 ≠ 0)) = true
  · rw [if_pos hany]
    have hne : (terms.filter fun t => decide (t.2 ≠ 0)).length ≠ 0 := by
      obtain ⟨t, ht, hp⟩ := List.any_eq_true.1 hany
      have : t ∈ terms.filter fun t => decide (t.2 ≠ 0) := List.mem_filter.2 ⟨ht, hp⟩
      intro h0
      rw [List.length_eq_zero_iff] at h0
      rw [h0] at this
      cases this
    rw [if_neg hne]
    have hmap : ((terms.filter fun t => decide (t.2 ≠ 0)).map fun t => (t.1 : Rat) / (t.2 : Rat))
        = (terms.filter fun t => decide (t.2 ≠ 0)).map fun _ => (1 : Rat) := by
      apply List.map_congr_left
      intro t ht
      obtain ⟨ht1, ht2⟩ := List.mem_filter.1 ht
      have h2 : t.2 ≠ 0 := by simpa using ht2
      rw [h t ht1]
      exact div_self (by exact_mod_cast h2)
    rw [hmap, sum_map_one]
    exact div_self (by exact_mod_cast hne)
  · rw [if_neg hany]
    have hnil : (terms.filter fun t => decide (t.2 ≠ 0)) = [] := by
      rw [List.filter_eq_nil_iff]
      intro t ht hp
      exact hany (List.any_eq_true.2 ⟨t, ht, hp⟩)
    rw [hnil]
    simp

/-! ### non-degeneracy: some query frame has a reference triple -/

/-- number of reference triples of query `q` of a matrix scored against itself -/
def selfTriples (m : Mat) (tr : Bool) (w : Nat) (q : Nat) (row : List Nat) : Nat :=
  triples tr (windowRow m.length w q row) (windowRow m.length w q row)

/-- **non-degeneracy**: some query frame `q` has two result frames `i, j` in its window whose depths in row `q`
    are related (`m[q][i] < m[q][j]`, resp. `m[q][i] + 1 = m[q][j]` for the reduced measure) -/
def hasRefTriple (m : Mat) (tr : Bool) (w : Nat) : Bool :=
  m.zipIdx.any fun x => decide (selfTriples m tr w x.2 x.1 ≠ 0)

theorem zip_self_zipIdx {α : Type} (m : List α) (k : Nat) :
    (m.zip m).zipIdx k = (m.zipIdx k).map fun x => ((x.1, x.1), x.2) := by
  induction m generalizing k with
  | nil => rfl
  | cons a t ih => simp [List.zipIdx_cons, ih]

/-- `_gauc` (its triplet definition) of a matrix against itself: 1 when some query has a reference triple,
    0 (the documented `0/0` convention) otherwise -/
theorem gaucSpec_self (m : Mat) (tr : Bool) (w : Nat) :
    gaucSpec m m tr w = if hasRefTriple m tr w then 1 else 0 := by
  unfold gaucSpec
  rw [specScore_all_correct]
  · congr 1
    unfold hasRefTriple selfTriples specQuery
    rw [zip_self_zipIdx, List.map_map, List.any_map]
    rfl
  · intro t ht
    obtain ⟨x, _, rfl⟩ := List.mem_map.1 ht
    rw [zip_self_zipIdx] at *
    rename_i hx
    obtain ⟨y, _, rfl⟩ := List.mem_map.1 hx
    exact correct_self tr _

theorem fMeasure_zero (b : Rat) : fMeasure 0 0 b = 0 := by
  unfold fMeasure
  simp

/-- the (precision, recall, F) triple of an annotation against itself -/
def selfPRF (nondegenerate : Bool) : Rat × Rat × Rat := if nondegenerate then (1, 1, 1) else (0, 0, 0)

theorem selfPRF_eq (m : Mat) (tr : Bool) (w : Nat) (beta : Rat) :
    (gaucSpec m m tr w, gaucSpec m m tr w, fMeasure (gaucSpec m m tr w) (gaucSpec m m tr w) beta)
      = selfPRF (hasRefTriple m tr w) := by
  rw [gaucSpec_self]
  unfold selfPRF
  cases hasRefTriple m tr w
  · simp [fMeasure_zero]
  · simp [fMeasure_one]

/-- `tmeasure(h, h)` on a valid hierarchy -/
theorem tmeasure_self_valid (h : Hier) (T : Rat) (tr : Bool) (window : Option Rat) (fs beta : Rat)
    (hv : ValidHier h T) (h0 : 0 < fs) (hw : ∀ w, window = some w → fs ≤ w) :
    ∃ wf l, windowFrames window fs = .ok wf ∧ lca h fs = .ok l ∧ IsSquare (framesOf T fs) l
      ∧ tmeasure h h tr window fs beta = .ok (selfPRF (hasRefTriple l tr (winOf wf (framesOf T fs)))) := by
  obtain ⟨wf, rl, el, hwf, hrl, hel, hsr, _, ht⟩ := tmeasure_valid h h T tr window fs beta hv hv h0 hw
  rw [hrl] at hel
  cases hel
  exact ⟨wf, rl, hwf, hrl, hsr, by rw [ht, selfPRF_eq]⟩

/-- whenever `tmeasure(h, h)` returns at all (valid or not), it returns `selfPRF` -/
theorem tmeasure_self_ok {h : Hier} {tr : Bool} {window : Option Rat} {fs beta p r f : Rat}
    (ht : tmeasure h h tr window fs beta = .ok (p, r, f)) :
    ∃ n wf l, windowFrames window fs = .ok wf ∧ lca h fs = .ok l ∧ IsSquare n l
      ∧ (p, r, f) = selfPRF (hasRefTriple l tr (winOf wf n)) := by
  obtain ⟨_, wf, rl, el, hw, _, _, hrl, hel, hr, hp, hf⟩ := tmeasure_ok ht
  rw [hrl] at hel
  cases hel
  obtain ⟨n, _, hs⟩ := lca_isSquare hrl
  obtain ⟨_, hrs⟩ := gauc_ok_square hs hs hr
  obtain ⟨_, hps⟩ := gauc_ok_square hs hs hp
  refine ⟨n, wf, rl, hw, hrl, hs, ?_⟩
  rw [← selfPRF_eq rl tr (winOf wf n) beta, hf, hrs, hps]

theorem lmeasure_self_valid (h : Hier) (ls : List (List String)) (T fs beta : Rat)
    (hv : ValidHier h T) (h0 : 0 < fs) (hfit : ∀ x ∈ h.zip ls, x.2.length ≤ x.1.length) :
    ∃ m, meet h ls fs = .ok m ∧ IsSquare (framesOf T fs) m
      ∧ lmeasure h ls h ls fs beta = .ok (selfPRF (hasRefTriple m true (framesOf T fs))) := by
  obtain ⟨rm, em, hrm, hem, hsr, _, ht⟩ := lmeasure_valid h h ls ls T fs beta hv hv h0 hfit hfit
  rw [hrm] at hem
  cases hem
  exact ⟨rm, hrm, hsr, by rw [ht, selfPRF_eq]⟩

theorem lmeasure_self_ok {h : Hier} {ls : List (List String)} {fs beta p r f : Rat}
    (ht : lmeasure h ls h ls fs beta = .ok (p, r, f)) :
    ∃ n m, meet h ls fs = .ok m ∧ IsSquare n m ∧ (p, r, f) = selfPRF (hasRefTriple m true n) := by
  obtain ⟨_, rm, em, _, _, hrm, hem, hr, hp, hf⟩ := lmeasure_ok ht
  rw [hrm] at hem
  cases hem
  obtain ⟨n, _, hs⟩ := meet_isSquare hrm
  obtain ⟨_, hrs⟩ := gauc_ok_square hs hs hr
  obtain ⟨_, hps⟩ := gauc_ok_square hs hs hp
  simp only [winOf] at hrs hps
  refine ⟨n, rm, hrm, hs, ?_⟩
  rw [← selfPRF_eq rm true n beta, hf, hrs, hps]

end Hierarchy
end Mir
