import MirProofs.Lemmas.HierarchySelf

/-!
  An input-level reading of the non-degeneracy predicate `hasRefTriple` of C02 (hierarchy).

  `hasRefTriple m tr w` is computed from the LCA / meet matrix `m`.  Here it is unfolded to a statement about
  frames: some query frame `q` has two frames `i`, `j` in its window (`InWindow`) whose depths `m[q][i]`, `m[q][j]`
  are related; and, because the matrix entries of a valid annotation ARE the Layer-S depths `lcaSpec` / `meetSpec`
  (deepest level at which two frames share a segment / a label), to the predicate `HasTriple` on those depths.
-/
namespace Mir
namespace Hierarchy

/-- frame `i` is a result frame of query `q`: `max(0, q − w) ≤ i < min(n, q + w)`, `i ≠ q` -/
def InWindow (n w q i : Nat) : Prop := q - w ≤ i ∧ i < min n (q + w) ∧ i ≠ q

instance (n w q i : Nat) : Decidable (InWindow n w q i) := by unfold InWindow; infer_instance

/-- **input-level non-degeneracy**: some query frame `q < n` has two result frames `i`, `j` in its window whose
    depths with `q` are related: `depth q i < depth q j` (full / transitive measure), `depth q i + 1 = depth q j`
    (reduced measure) -/
def HasTriple (depth : Nat → Nat → Nat) (tr : Bool) (n w : Nat) : Prop :=
  ∃ q i j, q < n ∧ InWindow n w q i ∧ InWindow n w q j ∧ rel tr (depth q i) (depth q j) = true

/-- the window in frames as `tmeasure` computes it: all `n` frames for `window = None`, else `⌊window / fs⌋` -/
def windowOf (window : Option Rat) (fs : Rat) (n : Nat) : Nat :=
  match window with
  | none => n
  | some w => (frameOf w fs).toNat

theorem mem_windowIdx {n w q i : Nat} : i ∈ windowIdx n w q ↔ InWindow n w q i := by
  unfold windowIdx InWindow
  simp only [List.mem_filter, List.mem_range, Bool.and_eq_true, decide_eq_true_eq]
  omega

theorem mem_windowRow {n w q : Nat} {row : List Nat} {a : Nat} :
    a ∈ windowRow n w q row ↔ ∃ i, InWindow n w q i ∧ row[i]? = some a := by
  unfold windowRow
  simp only [List.mem_filterMap, mem_windowIdx]

theorem mem_zip_self {α : Type} {l : List α} {x : α × α} : x ∈ l.zip l ↔ x.1 ∈ l ∧ x.2 = x.1 := by
  constructor
  · intro hx
    obtain ⟨i, hi⟩ := List.mem_iff_getElem?.1 hx
    rw [List.getElem?_zip_eq_some] at hi
    exact ⟨List.mem_iff_getElem?.2 ⟨i, hi.1⟩, Option.some.inj (hi.2.symm.trans hi.1)⟩
  · rintro ⟨h1, h2⟩
    obtain ⟨i, hi⟩ := List.mem_iff_getElem?.1 h1
    apply List.mem_iff_getElem?.2
    refine ⟨i, ?_⟩
    rw [List.getElem?_zip_eq_some]
    exact ⟨hi, by rw [h2]; exact hi⟩

theorem countPairs_ne_zero {α β : Type} (p : α → β → Bool) (a : List α) (b : List β) :
    countPairs p a b ≠ 0 ↔ ∃ x ∈ a, ∃ y ∈ b, p x y = true := by
  unfold countPairs pairsOf
  rw [Nat.ne_zero_iff_zero_lt, List.countP_pos_iff]
  constructor
  · rintro ⟨xy, hxy, hp⟩
    obtain ⟨x, hx, hm⟩ := List.mem_flatMap.1 hxy
    obtain ⟨y, hy, rfl⟩ := List.mem_map.1 hm
    exact ⟨x, hx, y, hy, hp⟩
  · rintro ⟨x, hx, y, hy, hp⟩
    exact ⟨(x, y), List.mem_flatMap.2 ⟨x, hx, List.mem_map.2 ⟨y, hy, rfl⟩⟩, hp⟩

theorem triples_self_ne_zero (tr : Bool) (r : List Nat) :
    triples tr r r ≠ 0 ↔ ∃ a ∈ r, ∃ b ∈ r, rel tr a b = true := by
  unfold triples
  rw [countPairs_ne_zero]
  constructor
  · rintro ⟨x, hx, y, hy, hp⟩
    exact ⟨x.1, (mem_zip_self.1 hx).1, y.1, (mem_zip_self.1 hy).1, hp⟩
  · rintro ⟨a, ha, b, hb, hp⟩
    exact ⟨(a, a), mem_zip_self.2 ⟨ha, rfl⟩, (b, b), mem_zip_self.2 ⟨hb, rfl⟩, hp⟩

/-- **`hasRefTriple`, unfolded** (any matrix): some query row `q` has two result frames in its window whose
    entries in that row are related -/
theorem hasRefTriple_iff (m : Mat) (tr : Bool) (w : Nat) :
    hasRefTriple m tr w = true ↔
      ∃ q i j a b, InWindow m.length w q i ∧ InWindow m.length w q j ∧
        entry m q i = some a ∧ entry m q j = some b ∧ rel tr a b = true := by
  unfold hasRefTriple selfTriples
  rw [List.any_eq_true]
  constructor
  · rintro ⟨x, hx, hp⟩
    have hq : m[x.2]? = some x.1 := by
      have := List.mem_zipIdx hx
      simp only [Nat.zero_le, Nat.sub_zero, Nat.zero_add, true_and] at this
      obtain ⟨h1, h2⟩ := this
      rw [List.getElem?_eq_getElem h1, h2]
    rw [decide_eq_true_eq, triples_self_ne_zero] at hp
    obtain ⟨a, ha, b, hb, hr⟩ := hp
    obtain ⟨i, hi, hia⟩ := mem_windowRow.1 ha
    obtain ⟨j, hj, hjb⟩ := mem_windowRow.1 hb
    exact ⟨x.2, i, j, a, b, hi, hj, by simp [entry, hq, hia], by simp [entry, hq, hjb], hr⟩
  · rintro ⟨q, i, j, a, b, hi, hj, hia, hjb, hr⟩
    unfold entry at hia hjb
    cases hq : m[q]? with
    | none => rw [hq] at hia; simp at hia
    | some row =>
      rw [hq] at hia hjb
      simp only [Option.bind_some] at hia hjb
      refine ⟨(row, q), ?_, ?_⟩
      · obtain ⟨hlt, hget⟩ := List.getElem?_eq_some_iff.1 hq
        rw [List.mem_zipIdx_iff_getElem?]
        simpa using hq
      · rw [decide_eq_true_eq, triples_self_ne_zero]
        exact ⟨a, mem_windowRow.2 ⟨i, hi, hia⟩, b, mem_windowRow.2 ⟨j, hj, hjb⟩, hr⟩

/-- on an `n × n` matrix whose entries are given by a depth function, `hasRefTriple` is `HasTriple` of that
    function -/
theorem hasRefTriple_iff_hasTriple {n : Nat} {m : Mat} (hs : IsSquare n m) (depth : Nat → Nat → Nat)
    (hd : ∀ i j, i < n → j < n → entry m i j = some (depth i j)) (tr : Bool) (w : Nat) :
    hasRefTriple m tr w = true ↔ HasTriple depth tr n w := by
  rw [hasRefTriple_iff, hs.1]
  unfold HasTriple
  constructor
  · rintro ⟨q, i, j, a, b, hi, hj, hia, hjb, hr⟩
    have hq : q < n := by
      unfold entry at hia
      cases hq : m[q]? with
      | none => rw [hq] at hia; simp at hia
      | some row =>
        have := (List.getElem?_eq_some_iff.1 hq).1
        have := hs.1
        omega
    have hi' : i < n := by unfold InWindow at hi; omega
    have hj' : j < n := by unfold InWindow at hj; omega
    rw [hd q i hq hi'] at hia
    rw [hd q j hq hj'] at hjb
    cases hia; cases hjb
    exact ⟨q, i, j, hq, hi, hj, hr⟩
  · rintro ⟨q, i, j, hq, hi, hj, hr⟩
    have hi' : i < n := by unfold InWindow at hi; omega
    have hj' : j < n := by unfold InWindow at hj; omega
    exact ⟨q, i, j, _, _, hi, hj, hd q i hq hi', hd q j hq hj', hr⟩

theorem selfPRF_eq_one_iff (b : Bool) : selfPRF b = (1, 1, 1) ↔ b = true := by
  cases b <;> simp [selfPRF]

theorem selfPRF_eq_zero_iff (b : Bool) : selfPRF b = (0, 0, 0) ↔ b = false := by
  cases b <;> simp [selfPRF]

theorem winOf_windowFrames {window : Option Rat} {fs : Rat} {wf : Option Nat} (n : Nat)
    (h : windowFrames window fs = .ok wf) : winOf wf n = windowOf window fs n := by
  unfold windowFrames at h
  cases window with
  | none => cases h; rfl
  | some w =>
    simp only at h
    split at h
    · cases h
    · cases h; rfl

/-- `tmeasure(h, h)` on a valid hierarchy is `selfPRF` of the input-level predicate on LCA depths -/
theorem tmeasure_self_hasTriple (h : Hier) (T : Rat) (tr : Bool) (window : Option Rat) (fs beta : Rat)
    (hv : ValidHier h T) (h0 : 0 < fs) (hw : ∀ w, window = some w → fs ≤ w) :
    ∃ b : Bool, tmeasure h h tr window fs beta = .ok (selfPRF b) ∧
      (b = true ↔ HasTriple (lcaSpec h fs (framesOf T fs)) tr (framesOf T fs)
        (windowOf window fs (framesOf T fs))) := by
  obtain ⟨wf, l, hwf, hl, hs, ht⟩ := tmeasure_self_valid h T tr window fs beta hv h0 hw
  refine ⟨_, ht, ?_⟩
  rw [winOf_windowFrames _ hwf]
  exact hasRefTriple_iff_hasTriple hs _
    (fun i j hi hj => lca_entry hl (numFrames_valid hv fs) i j hi hj) tr _

/-- `lmeasure(h, h)` on a valid labelled hierarchy is `selfPRF` of the input-level predicate on meet depths -/
theorem lmeasure_self_hasTriple (h : Hier) (ls : List (List String)) (T fs beta : Rat)
    (hv : ValidHier h T) (h0 : 0 < fs) (hfit : ∀ x ∈ h.zip ls, x.2.length ≤ x.1.length) :
    ∃ b : Bool, lmeasure h ls h ls fs beta = .ok (selfPRF b) ∧
      (b = true ↔ HasTriple (meetSpec h ls fs (framesOf T fs)) true (framesOf T fs) (framesOf T fs)) := by
  obtain ⟨m, hm, hs, ht⟩ := lmeasure_self_valid h ls T fs beta hv h0 hfit
  refine ⟨_, ht, ?_⟩
  exact hasRefTriple_iff_hasTriple hs _
    (fun i j hi hj => meet_entry hm (numFrames_valid hv fs) i j hi hj) true _

/-- a self score that is `selfPRF b` with `b ↔ P` is `(1,1,1)` exactly when `P` and `(0,0,0)` exactly when `¬ P` -/
theorem self_cases {t : Py (Rat × Rat × Rat)} {P : Prop}
    (h : ∃ b : Bool, t = .ok (selfPRF b) ∧ (b = true ↔ P)) :
    (t = .ok (1, 1, 1) ↔ P) ∧ (t = .ok (0, 0, 0) ↔ ¬ P) := by
  obtain ⟨b, ht, hb⟩ := h
  subst ht
  cases b
  · have hP : ¬ P := fun hp => by simpa using hb.2 hp
    simp [selfPRF, hP]
  · have hP : P := hb.1 rfl
    simp [selfPRF, hP]

/-- for the full (transitive) measure "related" may be read as "different": the two result frames can be
    exchanged -/
theorem hasTriple_transitive_iff (depth : Nat → Nat → Nat) (n w : Nat) :
    HasTriple depth true n w ↔
      ∃ q i j, q < n ∧ InWindow n w q i ∧ InWindow n w q j ∧ depth q i ≠ depth q j := by
  unfold HasTriple rel
  simp only [if_true, decide_eq_true_eq]
  constructor
  · rintro ⟨q, i, j, hq, hi, hj, hr⟩
    exact ⟨q, i, j, hq, hi, hj, by omega⟩
  · rintro ⟨q, i, j, hq, hi, hj, hr⟩
    rcases Nat.lt_or_gt_of_ne hr with h | h
    · exact ⟨q, i, j, hq, hi, hj, h⟩
    · exact ⟨q, j, i, hq, hj, hi, h⟩

/-! ### a sufficient condition on segments -/

theorem foldl_max_ge_init (l : List Nat) (a : Nat) : a ≤ l.foldl max a := by
  induction l generalizing a with
  | nil => exact Nat.le_refl a
  | cons x t ih => exact Nat.le_trans (Nat.le_max_left a x) (ih (max a x))

theorem foldl_max_ge_mem (l : List Nat) (a : Nat) {x : Nat} (hx : x ∈ l) : x ≤ l.foldl max a := by
  induction l generalizing a with
  | nil => cases hx
  | cons y t ih =>
    rcases List.mem_cons.1 hx with rfl | h
    · exact Nat.le_trans (Nat.le_max_right a x) (foldl_max_ge_init t (max a x))
    · exact ih (max a y) h

theorem foldl_max_lt (l : List Nat) (a k : Nat) (ha : a < k) (hl : ∀ x ∈ l, x < k) : l.foldl max a < k := by
  induction l generalizing a with
  | nil => exact ha
  | cons y t ih =>
    apply ih
    · exact Nat.max_lt.2 ⟨ha, hl y List.mem_cons_self⟩
    · intro x hx; exact hl x (List.mem_cons_of_mem _ hx)

/-- a level (with its depth `k`) satisfying `p` bounds `deepest` from below -/
theorem le_deepest {α : Type} (p : α → Bool) (xs : List (α × Nat)) {x : α × Nat} (hx : x ∈ xs)
    (hp : p x.1 = true) : x.2 ≤ deepest p xs := by
  unfold deepest
  apply foldl_max_ge_mem
  exact List.mem_map.2 ⟨x, List.mem_filter.2 ⟨hx, hp⟩, rfl⟩

/-- if no level of depth `≥ k` satisfies `p` (`k ≥ 1`), `deepest` stays below `k` -/
theorem deepest_lt {α : Type} (p : α → Bool) (xs : List (α × Nat)) (k : Nat) (hk : 0 < k)
    (h : ∀ x ∈ xs, k ≤ x.2 → p x.1 = false) : deepest p xs < k := by
  unfold deepest
  apply foldl_max_lt _ _ _ hk
  intro d hd
  obtain ⟨x, hx, rfl⟩ := List.mem_map.1 hd
  obtain ⟨hx1, hx2⟩ := List.mem_filter.1 hx
  by_contra hge
  have := h x hx1 (by omega)
  rw [this] at hx2
  cases hx2

/-- **segment-level sufficient condition (T-measure, full).**  If at some level `k` (1-based) the query frame `q`
    shares a segment with frame `j`, while at level `k` and every deeper level it shares no segment with frame
    `i`, then `(q, i, j)` is a reference triple: `lcaSpec q i < k ≤ lcaSpec q j`. -/
theorem hasTriple_lca_of_levels (h : Hier) (fs : Rat) (n w q i j k : Nat) (hq : q < n)
    (hi : InWindow n w q i) (hj : InWindow n w q j) (hk : 0 < k)
    (hshare : ∃ lv, (lv, k) ∈ h.zipIdx 1 ∧ levelCovers fs n lv q j = true)
    (hsplit : ∀ x ∈ h.zipIdx 1, k ≤ x.2 → levelCovers fs n x.1 q i = false) :
    HasTriple (lcaSpec h fs n) true n w := by
  refine ⟨q, i, j, hq, hi, hj, ?_⟩
  unfold rel
  simp only [if_true, decide_eq_true_eq]
  obtain ⟨lv, hlv, hc⟩ := hshare
  have h1 : k ≤ lcaSpec h fs n q j := le_deepest (fun ivs => levelCovers fs n ivs q j) _ hlv hc
  have h2 : lcaSpec h fs n q i < k := deepest_lt (fun ivs => levelCovers fs n ivs q i) _ k hk hsplit
  omega

/-- **label-level sufficient condition (L-measure).**  If at some level `k` the query frame `q` and frame `j`
    carry the same label, while at level `k` and every deeper level `q` and `i` carry different labels, then
    `(q, i, j)` is a reference triple: `meetSpec q i < k ≤ meetSpec q j`. -/
theorem hasTriple_meet_of_levels (h : Hier) (ls : List (List String)) (fs : Rat) (n w q i j k : Nat) (hq : q < n)
    (hi : InWindow n w q i) (hj : InWindow n w q j) (hk : 0 < k)
    (hshare : ∃ lv, (lv, k) ∈ (h.zip ls).zipIdx 1 ∧ levelAgrees fs n lv q j = true)
    (hsplit : ∀ x ∈ (h.zip ls).zipIdx 1, k ≤ x.2 → levelAgrees fs n x.1 q i = false) :
    HasTriple (meetSpec h ls fs n) true n w := by
  refine ⟨q, i, j, hq, hi, hj, ?_⟩
  unfold rel
  simp only [if_true, decide_eq_true_eq]
  obtain ⟨lv, hlv, hc⟩ := hshare
  have h1 : k ≤ meetSpec h ls fs n q j := le_deepest (fun x => levelAgrees fs n x q j) _ hlv hc
  have h2 : meetSpec h ls fs n q i < k := deepest_lt (fun x => levelAgrees fs n x q i) _ k hk hsplit
  omega

end Hierarchy
end Mir
