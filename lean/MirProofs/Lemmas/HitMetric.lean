import MirModel.HitMetric
import MirProofs.Lemmas.Matching
import MirProofs.Lemmas.Scores
import Mathlib.Data.List.Perm.Basic

namespace Mir

theorem mem_enumFrom' {α : Type} (l : List α) (n : Nat) (x : α) (i : Nat) :
    (x, i) ∈ enumFrom' n l ↔ n ≤ i ∧ l[i - n]? = some x := by
  induction l generalizing n with
  | nil => simp [enumFrom']
  | cons y ys ih =>
    simp only [enumFrom', List.mem_cons, Prod.mk.injEq, ih]
    constructor
    · rintro (⟨rfl, rfl⟩ | ⟨h1, h2⟩)
      · simp
      · refine ⟨by omega, ?_⟩
        have : i - n = (i - (n + 1)) + 1 := by omega
        rw [this]; simpa using h2
    · rintro ⟨h1, h2⟩
      by_cases h : i = n
      · left; subst h; simpa using h2.symm
      · right
        refine ⟨by omega, ?_⟩
        have : i - n = (i - (n + 1)) + 1 := by omega
        rw [this] at h2; simpa using h2

theorem mem_enumFrom'_zero {α : Type} (l : List α) (x : α) (i : Nat) :
    (x, i) ∈ enumFrom' 0 l ↔ l[i]? = some x := by
  simp [mem_enumFrom']

/-- the edges of a feasibility graph are exactly the feasible index pairs -/
theorem mem_hitGraph {α β : Type} (feas : α → β → Bool) (ref : List α) (est : List β) (i j : Nat) :
    (i, j) ∈ hitGraph feas ref est ↔
      ∃ r e, ref[i]? = some r ∧ est[j]? = some e ∧ feas r e = true := by
  unfold hitGraph
  simp only [List.mem_flatMap, List.mem_filterMap, Prod.exists]
  constructor
  · rintro ⟨r, i', hr, e, j', he, h⟩
    by_cases hf : feas r e = true
    · simp only [hf, if_true, Option.some.injEq, Prod.mk.injEq] at h
      obtain ⟨rfl, rfl⟩ := h
      exact ⟨r, e, (mem_enumFrom'_zero _ _ _).1 hr, (mem_enumFrom'_zero _ _ _).1 he, hf⟩
    · simp [hf] at h
  · rintro ⟨r, e, hr, he, hf⟩
    exact ⟨r, i, (mem_enumFrom'_zero _ _ _).2 hr, e, j, (mem_enumFrom'_zero _ _ _).2 he, by simp [hf]⟩

theorem hitGraph_fst_lt {α β : Type} {feas : α → β → Bool} {ref : List α} {est : List β} :
    ∀ e ∈ hitGraph feas ref est, e.1 < ref.length := by
  rintro ⟨i, j⟩ h
  obtain ⟨r, _, hr, _, _⟩ := (mem_hitGraph ..).1 h
  exact (List.getElem?_eq_some_iff.1 hr).1

theorem hitGraph_snd_lt {α β : Type} {feas : α → β → Bool} {ref : List α} {est : List β} :
    ∀ e ∈ hitGraph feas ref est, e.2 < est.length := by
  rintro ⟨i, j⟩ h
  obtain ⟨_, e, _, he, _⟩ := (mem_hitGraph ..).1 h
  exact (List.getElem?_eq_some_iff.1 he).1

/-! ### the five relational facts, once and for all hit-based metrics -/

theorem hitCount_le_ref {α β : Type} (feas : α → β → Bool) (ref : List α) (est : List β) :
    hitCount feas ref est ≤ ref.length := max_le_left hitGraph_fst_lt

theorem hitCount_le_est {α β : Type} (feas : α → β → Bool) (ref : List α) (est : List β) :
    hitCount feas ref est ≤ est.length := max_le_right hitGraph_snd_lt

/-- perfect estimate: every item is hit -/
theorem hitCount_self {α : Type} (feas : α → α → Bool) (xs : List α) (h : ∀ x ∈ xs, feas x x = true) :
    hitCount feas xs xs = xs.length := by
  refine max_reflexive ?_ hitGraph_fst_lt
  intro i hi
  refine (mem_hitGraph ..).2 ⟨xs[i], xs[i], by simp [hi], by simp [hi], h _ (List.getElem_mem hi)⟩

/-- swapping reference and estimate (with the predicate's roles exchanged) keeps the hit count -/
theorem hitCount_swap {α β : Type} (feas : α → β → Bool) (ref : List α) (est : List β) :
    hitCount (fun e r => feas r e) est ref = hitCount feas ref est := by
  unfold hitCount
  rw [← max_transpose (hitGraph feas ref est)]
  apply max_congr
  rintro ⟨j, i⟩
  rw [mem_hitGraph]
  constructor
  · rintro ⟨e, r, he, hr, hf⟩
    exact List.mem_map.2 ⟨(i, j), (mem_hitGraph ..).2 ⟨r, e, hr, he, hf⟩, rfl⟩
  · intro h
    obtain ⟨⟨i', j'⟩, h', heq⟩ := List.mem_map.1 h
    simp only [Prod.swap_prod_mk, Prod.mk.injEq] at heq
    obtain ⟨rfl, rfl⟩ := heq
    obtain ⟨r, e, hr, he, hf⟩ := (mem_hitGraph ..).1 h'
    exact ⟨e, r, he, hr, hf⟩

/-- a looser criterion never lowers the hit count -/
theorem hitCount_mono {α β : Type} {feas feas' : α → β → Bool} (h : ∀ r e, feas r e = true → feas' r e = true)
    (ref : List α) (est : List β) : hitCount feas ref est ≤ hitCount feas' ref est := by
  apply max_mono
  rintro ⟨i, j⟩ hm
  obtain ⟨r, e, hr, he, hf⟩ := (mem_hitGraph ..).1 hm
  exact (mem_hitGraph ..).2 ⟨r, e, hr, he, h r e hf⟩

/-- transforming all items (time shift, transposition, …) in a way the predicate cannot see -/
theorem hitCount_map {α β α' β' : Type} {feas : α → β → Bool} {feas' : α' → β' → Bool} (f : α → α') (g : β → β')
    (h : ∀ r e, feas' (f r) (g e) = feas r e) (ref : List α) (est : List β) :
    hitCount feas' (ref.map f) (est.map g) = hitCount feas ref est := by
  apply max_congr
  rintro ⟨i, j⟩
  simp only [mem_hitGraph, List.getElem?_map, Option.map_eq_some_iff]
  constructor
  · rintro ⟨r', e', ⟨r, hr, rfl⟩, ⟨e, he, rfl⟩, hf⟩
    exact ⟨r, e, hr, he, by rw [← h]; exact hf⟩
  · rintro ⟨r, e, hr, he, hf⟩
    exact ⟨f r, g e, ⟨r, hr, rfl⟩, ⟨e, he, rfl⟩, by rw [h]; exact hf⟩

/-- two lists that are permutations of each other are related by an index bijection -/
theorem perm_index_bij {α : Type} {l l' : List α} (h : l.Perm l') :
    ∃ f g : Nat → Nat, (∀ i, g (f i) = i) ∧ (∀ i, f (g i) = i) ∧ ∀ i, l'[i]? = l[f i]? := by
  induction h with
  | nil => exact ⟨id, id, fun _ => rfl, fun _ => rfl, fun _ => rfl⟩
  | cons a _ ih =>
    obtain ⟨f, g, hgf, hfg, hl⟩ := ih
    refine ⟨fun i => match i with | 0 => 0 | i + 1 => f i + 1,
            fun i => match i with | 0 => 0 | i + 1 => g i + 1, ?_, ?_, ?_⟩
    · intro i; cases i <;> simp [hgf]
    · intro i; cases i <;> simp [hfg]
    · intro i; cases i <;> simp [hl]
  | swap a b l =>
    refine ⟨fun i => match i with | 0 => 1 | 1 => 0 | i + 2 => i + 2,
            fun i => match i with | 0 => 1 | 1 => 0 | i + 2 => i + 2, ?_, ?_, ?_⟩
    · intro i; rcases i with _ | _ | i <;> rfl
    · intro i; rcases i with _ | _ | i <;> rfl
    · intro i; rcases i with _ | _ | i <;> simp
  | trans _ _ ih₁ ih₂ =>
    obtain ⟨f₁, g₁, h1a, h1b, h1c⟩ := ih₁
    obtain ⟨f₂, g₂, h2a, h2b, h2c⟩ := ih₂
    refine ⟨fun i => f₁ (f₂ i), fun i => g₂ (g₁ i), ?_, ?_, ?_⟩
    · intro i; simp [h1a, h2a]
    · intro i; simp [h1b, h2b]
    · intro i; rw [h2c, h1c]

/-- the order in which the reference items are supplied does not matter -/
theorem hitCount_perm_ref {α β : Type} (feas : α → β → Bool) {ref ref' : List α} (h : ref.Perm ref')
    (est : List β) : hitCount feas ref' est = hitCount feas ref est := by
  obtain ⟨f, g, hgf, hfg, hl⟩ := perm_index_bij h
  have hg : Function.Injective g := fun a b hab => by
    have := congrArg f hab; simpa [hfg] using this
  unfold hitCount
  rw [← max_relabel g id hg Function.injective_id (hitGraph feas ref est)]
  apply max_congr
  rintro ⟨i, j⟩
  rw [mem_hitGraph, hl]
  constructor
  · rintro ⟨r, e, hr, he, hf⟩
    exact List.mem_map.2 ⟨(f i, j), (mem_hitGraph ..).2 ⟨r, e, hr, he, hf⟩, by simp [hgf]⟩
  · intro hm
    obtain ⟨⟨a, b⟩, hab, heq⟩ := List.mem_map.1 hm
    simp only [Prod.map_apply, id_eq, Prod.mk.injEq] at heq
    obtain ⟨rfl, rfl⟩ := heq
    obtain ⟨r, e, hr, he, hf⟩ := (mem_hitGraph ..).1 hab
    exact ⟨r, e, by rw [hfg]; exact hr, he, hf⟩

/-- the order in which the estimated items are supplied does not matter -/
theorem hitCount_perm_est {α β : Type} (feas : α → β → Bool) (ref : List α) {est est' : List β}
    (h : est.Perm est') : hitCount feas ref est' = hitCount feas ref est := by
  rw [← hitCount_swap feas ref est', ← hitCount_swap feas ref est]
  exact hitCount_perm_ref _ h ref

/-! ### precision / recall / F built on a hit count -/

theorem prf_range {k n m : Nat} (beta : Rat) (hn : 0 < n) (hm : 0 < m) (hkn : k ≤ n) (hkm : k ≤ m) :
    let s := prf k n m beta
    (0 ≤ s.1 ∧ s.1 ≤ 1) ∧ (0 ≤ s.2.1 ∧ s.2.1 ≤ 1) ∧ (0 ≤ s.2.2 ∧ s.2.2 ≤ 1) := by
  have hn' : (0 : Rat) < n := by exact_mod_cast hn
  have hm' : (0 : Rat) < m := by exact_mod_cast hm
  have hp0 : (0 : Rat) ≤ (k : Rat) / (m : Rat) := div_nonneg (by exact_mod_cast Nat.zero_le k) hm'.le
  have hr0 : (0 : Rat) ≤ (k : Rat) / (n : Rat) := div_nonneg (by exact_mod_cast Nat.zero_le k) hn'.le
  have hp1 : (k : Rat) / (m : Rat) ≤ 1 := by rw [div_le_one hm']; exact_mod_cast hkm
  have hr1 : (k : Rat) / (n : Rat) ≤ 1 := by rw [div_le_one hn']; exact_mod_cast hkn
  exact ⟨⟨hp0, hp1⟩, ⟨hr0, hr1⟩, ⟨fMeasure_nonneg hp0 hr0, fMeasure_le_one hp0 hr0 hp1 hr1⟩⟩

/-- every hit-based precision / recall / F lies in [0,1], for every predicate, every input, every beta -/
theorem hitPRF_range {α β : Type} (feas : α → β → Bool) (ref : List α) (est : List β) (beta : Rat) :
    let s := hitPRF feas ref est beta
    (0 ≤ s.1 ∧ s.1 ≤ 1) ∧ (0 ≤ s.2.1 ∧ s.2.1 ≤ 1) ∧ (0 ≤ s.2.2 ∧ s.2.2 ≤ 1) := by
  unfold hitPRF
  split
  · simp
  · rename_i h
    simp only [Bool.or_eq_true, List.isEmpty_iff, not_or] at h
    exact prf_range beta (List.length_pos_iff.2 h.1) (List.length_pos_iff.2 h.2)
      (hitCount_le_ref ..) (hitCount_le_est ..)

/-- a non-empty annotation scored against itself under a reflexive criterion gets P = R = F = 1 -/
theorem hitPRF_self {α : Type} (feas : α → α → Bool) (xs : List α) (beta : Rat) (hne : xs ≠ [])
    (h : ∀ x ∈ xs, feas x x = true) : hitPRF feas xs xs beta = (1, 1, 1) := by
  unfold hitPRF prf
  have hl : (0 : Rat) < xs.length := by exact_mod_cast List.length_pos_iff.2 hne
  simp only [List.isEmpty_iff, hne, Bool.or_self, if_false, hitCount_self feas xs h,
    div_self hl.ne', fMeasure_one]

/-- exchanging the roles exchanges precision and recall and keeps F at beta = 1 -/
theorem hitPRF_swap {α β : Type} (feas : α → β → Bool) (ref : List α) (est : List β) :
    let a := hitPRF feas ref est 1
    let b := hitPRF (fun e r => feas r e) est ref 1
    b.1 = a.2.1 ∧ b.2.1 = a.1 ∧ b.2.2 = a.2.2 := by
  unfold hitPRF
  by_cases h : (ref.isEmpty || est.isEmpty) = true
  · have h' : (est.isEmpty || ref.isEmpty) = true := by rw [Bool.or_comm]; exact h
    simp [h, h']
  · have h' : ¬ (est.isEmpty || ref.isEmpty) = true := by rw [Bool.or_comm]; exact h
    simp only [h, h', prf, hitCount_swap]
    exact ⟨rfl, rfl, fMeasure_symm _ _⟩

end Mir
