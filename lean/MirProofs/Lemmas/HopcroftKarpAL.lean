import MirModel.Transcription
import MirProofs.Lemmas.Matching
/-!
  Association-list (`AL`) facts used by the proof of the Hopcroft–Karp transliteration
  (`Mir.Transcription.hkMatch`): `alGet / alSet / alErase / alHas`, keys, lengths, generic `foldl` invariants.
-/
namespace Mir.HK
open Mir Mir.Transcription

variable {α : Type}

/-- the keys of an association list, in insertion order -/
def keys (m : AL α) : List Nat := m.map Prod.fst

/-- `k in d` -/
def Has (m : AL α) (k : Nat) : Prop := alGet k m ≠ none

instance (m : AL α) (k : Nat) : Decidable (Has m k) :=
  decidable_of_iff ((alGet k m).isSome = true) (by unfold Has; cases alGet k m <;> simp)

@[simp] theorem alGet_nil (k : Nat) : alGet k ([] : AL α) = none := rfl

theorem alGet_cons (k k' : Nat) (v : α) (m : AL α) :
    alGet k ((k', v) :: m) = if k' = k then some v else alGet k m := rfl

theorem alGet_alSet (k k' : Nat) (v : α) (m : AL α) :
    alGet k (alSet k' v m) = if k' = k then some v else alGet k m := by
  induction m with
  | nil => simp [alSet, alGet_cons]
  | cons x m ih =>
    obtain ⟨a, b⟩ := x
    by_cases h : a = k'
    · subst h
      by_cases h2 : a = k <;> simp [alSet, alGet_cons, h2]
    · by_cases h2 : a = k
      · subst h2
        simp [alSet, alGet_cons, h, Ne.symm h]
      · simp [alSet, alGet_cons, h, h2, ih]

theorem alGet_alSet_self (k : Nat) (v : α) (m : AL α) : alGet k (alSet k v m) = some v := by
  simp [alGet_alSet]

theorem alGet_alSet_ne {k k' : Nat} (h : k' ≠ k) (v : α) (m : AL α) : alGet k (alSet k' v m) = alGet k m := by
  simp [alGet_alSet, h]

theorem alGet_alErase (k k' : Nat) (m : AL α) :
    alGet k (alErase k' m) = if k' = k then none else alGet k m := by
  induction m with
  | nil => simp [alErase]
  | cons x m ih =>
    obtain ⟨a, b⟩ := x
    unfold alErase at ih ⊢
    by_cases h : a = k'
    · subst h
      by_cases h2 : a = k
      · subst h2; simpa using ih
      · simp [alGet_cons, h2] at ih ⊢; simpa [h2] using ih
    · by_cases h2 : k' = k
      · subst h2
        simp [h, alGet_cons] at ih ⊢; exact ih
      · simp [h, alGet_cons, h2] at ih ⊢
        by_cases h3 : a = k <;> simp [h3, ih]

theorem alGet_alErase_self (k : Nat) (m : AL α) : alGet k (alErase k m) = none := by
  simp [alGet_alErase]

theorem alGet_alErase_ne {k k' : Nat} (h : k' ≠ k) (m : AL α) : alGet k (alErase k' m) = alGet k m := by
  simp [alGet_alErase, h]

theorem alGet_eq_none_iff (k : Nat) (m : AL α) : alGet k m = none ↔ k ∉ keys m := by
  induction m with
  | nil => simp [keys]
  | cons x m ih =>
    obtain ⟨a, b⟩ := x
    by_cases h : a = k
    · simp [alGet_cons, h, keys]
    · simp only [alGet_cons, h, if_false, ih, keys, List.map_cons, List.mem_cons]
      constructor
      · intro hm hc
        rcases hc with hc | hc
        · exact h hc.symm
        · exact hm hc
      · intro hm hc; exact hm (Or.inr hc)

theorem has_iff_mem_keys (k : Nat) (m : AL α) : Has m k ↔ k ∈ keys m := by
  unfold Has
  rw [Ne, alGet_eq_none_iff, not_not]

theorem has_iff_exists (k : Nat) (m : AL α) : Has m k ↔ ∃ v, alGet k m = some v := by
  unfold Has
  cases alGet k m <;> simp

theorem has_of_get {k : Nat} {m : AL α} {v : α} (h : alGet k m = some v) : Has m k := by
  unfold Has; rw [h]; simp

theorem alHas_iff (k : Nat) (m : AL α) : alHas k m = true ↔ Has m k := by
  rw [has_iff_mem_keys]
  unfold alHas keys
  simp only [List.any_eq_true, beq_iff_eq, List.mem_map]

theorem alHas_eq_false_iff (k : Nat) (m : AL α) : alHas k m = false ↔ ¬ Has m k := by
  rw [← alHas_iff]; simp

theorem mem_of_alGet {k : Nat} {v : α} {m : AL α} (h : alGet k m = some v) : (k, v) ∈ m := by
  induction m with
  | nil => simp at h
  | cons x m ih =>
    obtain ⟨a, b⟩ := x
    by_cases h2 : a = k
    · subst h2
      simp [alGet_cons] at h; subst h; exact List.mem_cons_self
    · simp [alGet_cons, h2] at h
      exact List.mem_cons_of_mem _ (ih h)

theorem alGet_of_mem {k : Nat} {v : α} {m : AL α} (hnd : (keys m).Nodup) (h : (k, v) ∈ m) :
    alGet k m = some v := by
  induction m with
  | nil => simp at h
  | cons x m ih =>
    obtain ⟨a, b⟩ := x
    simp only [keys, List.map_cons, List.nodup_cons] at hnd
    rcases List.mem_cons.1 h with h | h
    · cases h; simp [alGet_cons]
    · have hne : a ≠ k := by
        intro hc; subst hc
        exact hnd.1 (List.mem_map.2 ⟨_, h, rfl⟩)
      simp only [alGet_cons, hne, if_false]
      exact ih hnd.2 h

theorem keys_alSet (k : Nat) (v : α) (m : AL α) :
    keys (alSet k v m) = if k ∈ keys m then keys m else keys m ++ [k] := by
  induction m with
  | nil => simp [alSet, keys]
  | cons x m ih =>
    obtain ⟨a, b⟩ := x
    by_cases h : a = k
    · subst h; simp [alSet, keys]
    · unfold keys at ih ⊢
      simp only [alSet, h, if_false, List.map_cons, ih, List.mem_cons]
      by_cases h2 : k ∈ List.map Prod.fst m
      · simp [h2]
      · simp [h2, Ne.symm h]

theorem nodup_keys_alSet (k : Nat) (v : α) {m : AL α} (h : (keys m).Nodup) : (keys (alSet k v m)).Nodup := by
  rw [keys_alSet]
  split
  · exact h
  · rename_i hk
    exact List.Nodup.append h (by simp) (by simpa using hk)

theorem length_alSet (k : Nat) (v : α) (m : AL α) :
    (alSet k v m).length = if k ∈ keys m then m.length else m.length + 1 := by
  have := congrArg List.length (keys_alSet k v m)
  split
  · rename_i h; rw [if_pos h] at this; simpa [keys] using this
  · rename_i h; rw [if_neg h] at this; simpa [keys] using this

theorem nodup_keys_alErase (k : Nat) {m : AL α} (h : (keys m).Nodup) : (keys (alErase k m)).Nodup := by
  unfold keys alErase at *
  exact h.sublist (List.filter_sublist.map _)

theorem length_alErase_lt {k : Nat} {m : AL α} (h : Has m k) : (alErase k m).length < m.length := by
  rw [has_iff_mem_keys] at h
  obtain ⟨x, hx, rfl⟩ := List.mem_map.1 h
  unfold alErase
  apply List.length_filter_lt_length_iff_exists.2
  exact ⟨x, hx, by simp⟩

/-! ### generic `foldl` invariants -/

theorem foldl_inv {β γ : Type} (P : β → Prop) (f : β → γ → β) :
    ∀ (l : List γ) (b : β), P b → (∀ b x, x ∈ l → P b → P (f b x)) → P (l.foldl f b) := by
  intro l
  induction l with
  | nil => intro b h _; exact h
  | cons x l ih =>
    intro b h hs
    exact ih (f b x) (hs b x List.mem_cons_self h) (fun b y hy hb => hs b y (List.mem_cons_of_mem _ hy) hb)

/-- a property established by processing `x` and preserved by every later step holds at the end for every `x ∈ l` -/
theorem foldl_mem_inv {β γ : Type} (f : β → γ → β) (Q : γ → β → Prop)
    (hset : ∀ b x, Q x (f b x)) (hpres : ∀ b x y, Q x b → Q x (f b y)) :
    ∀ (l : List γ) (b : β), ∀ x ∈ l, Q x (l.foldl f b) := by
  intro l
  induction l with
  | nil => intro b x hx; simp at hx
  | cons y l ih =>
    intro b x hx
    rcases List.mem_cons.1 hx with rfl | hx
    · exact foldl_inv (Q x) f l _ (hset b x) (fun b y _ hb => hpres b x y hb)
    · exact ih (f b y) x hx

end Mir.HK
