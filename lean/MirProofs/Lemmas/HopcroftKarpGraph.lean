import MirProofs.Lemmas.HopcroftKarpMax
import Mathlib.Data.List.Perm.Basic
/-!
  The graph dict that `transcription.match_notes` (and `util.match_events`) builds from the hit list,
  `G[est_i].append(ref_i)` (`buildGraph`), and `sorted(matching.items())` (`sortPairs`), tied to the
  Hopcroft–Karp theorems: the guard in `Mir.Transcription.pyMatching` never fires.
-/
namespace Mir.HK
open Mir Mir.Transcription

def bgStep (g : AL (List Nat)) (e : Edge) : AL (List Nat) :=
  match alGet e.2 g with
  | none => alSet e.2 [e.1] g
  | some l => alSet e.2 (l ++ [e.1]) g

theorem buildGraph_eq (es : List Edge) : buildGraph es = es.foldl bgStep [] := rfl

theorem bgStep_nodup {g : AL (List Nat)} (e : Edge) (h : (keys g).Nodup) : (keys (bgStep g e)).Nodup := by
  unfold bgStep
  split <;> exact nodup_keys_alSet _ _ h

theorem bgStep_edge (g : AL (List Nat)) (e : Edge) (u v : Nat) :
    IsEdge (bgStep g e) u v ↔ IsEdge g u v ∨ (u = e.2 ∧ v = e.1) := by
  unfold bgStep IsEdge
  cases h : alGet e.2 g with
  | none =>
    simp only [alGet_alSet]
    by_cases hu : e.2 = u
    · subst hu
      simp only [if_true, h]
      constructor
      · rintro ⟨vs, hvs, hv⟩; cases hvs; simp at hv; exact Or.inr ⟨trivial, hv⟩
      · rintro (⟨vs, hvs, _⟩ | ⟨_, hv⟩)
        · cases hvs
        · exact ⟨[e.1], rfl, by simp [hv]⟩
    · simp only [if_neg hu]
      constructor
      · intro h1; exact Or.inl h1
      · rintro (h1 | ⟨h1, _⟩)
        · exact h1
        · exact absurd h1.symm hu
  | some l =>
    simp only [alGet_alSet]
    by_cases hu : e.2 = u
    · subst hu
      simp only [if_true, h]
      constructor
      · rintro ⟨vs, hvs, hv⟩
        cases hvs
        rcases List.mem_append.1 hv with hv | hv
        · exact Or.inl ⟨l, rfl, hv⟩
        · simp at hv; exact Or.inr ⟨trivial, hv⟩
      · rintro (⟨vs, hvs, hv⟩ | ⟨_, hv⟩)
        · cases hvs; exact ⟨_, rfl, List.mem_append_left _ hv⟩
        · exact ⟨_, rfl, by simp [hv]⟩
    · simp only [if_neg hu]
      constructor
      · intro h1; exact Or.inl h1
      · rintro (h1 | ⟨h1, _⟩)
        · exact h1
        · exact absurd h1.symm hu

theorem bgFold_edge (u v : Nat) : ∀ (es : List Edge) (g : AL (List Nat)),
    IsEdge (es.foldl bgStep g) u v ↔ IsEdge g u v ∨ (v, u) ∈ es := by
  intro es
  induction es with
  | nil => intro g; simp
  | cons e es ih =>
    intro g
    rw [List.foldl_cons, ih, bgStep_edge, List.mem_cons]
    have : (v, u) = e ↔ (u = e.2 ∧ v = e.1) := by
      obtain ⟨a, b⟩ := e
      simp only [Prod.mk.injEq]
      exact ⟨fun h => ⟨h.2, h.1⟩, fun h => ⟨h.2, h.1⟩⟩
    rw [this]
    exact or_assoc

theorem buildGraph_nodup (es : List Edge) : (keys (buildGraph es)).Nodup := by
  rw [buildGraph_eq]
  exact foldl_inv (fun g => (keys g).Nodup) bgStep es [] (by simp [keys]) (fun g e _ h => bgStep_nodup e h)

/-- `ref_i in G[est_i]` iff `(ref_i, est_i)` is one of the hits -/
theorem isEdge_buildGraph (es : List Edge) (u v : Nat) : IsEdge (buildGraph es) u v ↔ (v, u) ∈ es := by
  rw [buildGraph_eq, bgFold_edge]
  constructor
  · rintro (⟨vs, hvs, _⟩ | h)
    · simp at hvs
    · exact h
  · exact Or.inr

theorem mem_edgesOf_buildGraph (es : List Edge) (e : Edge) : e ∈ edgesOf (buildGraph es) ↔ e ∈ es.map Prod.swap := by
  obtain ⟨u, v⟩ := e
  constructor
  · intro h
    have := (isEdge_buildGraph es u v).1 (isEdge_of_mem_edgesOf (buildGraph_nodup es) h)
    exact List.mem_map.2 ⟨(v, u), this, rfl⟩
  · intro h
    obtain ⟨e', he', heq⟩ := List.mem_map.1 h
    obtain ⟨a, b⟩ := e'
    cases heq
    exact mem_edgesOf_of_isEdge ((isEdge_buildGraph es _ _).2 he')

/-- the matching dict returned for the hit list `es`, read as `(ref_i, est_i)` pairs, is a valid matching of `es` -/
theorem hkMatch_buildGraph_valid (es : List Edge) : ValidMatching es (hkMatch (buildGraph es)) := by
  have hM := hkMatch_ok (buildGraph es) (buildGraph_nodup es)
  refine ⟨?_, hM.nodupK, ?_⟩
  · intro e he
    obtain ⟨v, u⟩ := e
    exact (isEdge_buildGraph es u v).1 (hM.edge v u (alGet_of_mem hM.nodupK he))
  · have := hM.valid.2.1
    unfold asEdges at this
    rw [List.map_map] at this
    exact this

theorem hkMatch_buildGraph_length (es : List Edge) : (hkMatch (buildGraph es)).length = maxMatchSize es := by
  rw [hkMatch_length _ (buildGraph_nodup es), max_congr (mem_edgesOf_buildGraph es), max_transpose]

/-! ### `sorted(matching.items())` -/

theorem insertPair_perm (x : Nat × Nat) : ∀ l, (insertPair x l).Perm (x :: l) := by
  intro l
  induction l with
  | nil => exact List.Perm.refl _
  | cons y ys ih =>
    unfold insertPair
    split
    · exact List.Perm.refl _
    · exact ((List.Perm.cons y ih).trans (List.Perm.swap x y ys))

theorem sortPairs_perm : ∀ l, (sortPairs l).Perm l := by
  intro l
  induction l with
  | nil => exact List.Perm.refl _
  | cons x xs ih =>
    unfold sortPairs
    exact (insertPair_perm x _).trans (List.Perm.cons x ih)

theorem validMatching_perm {E M M' : List Edge} (h : ValidMatching E M) (hp : M'.Perm M) : ValidMatching E M' :=
  ⟨fun e he => h.1 e (hp.subset he), (hp.map Prod.fst).nodup_iff.2 h.2.1, (hp.map Prod.snd).nodup_iff.2 h.2.2⟩

/-- the certificate guard of the model's `pyMatching` is never the reason for an error: the
    transliterated Hopcroft–Karp always passes it -/
theorem pyMatching_eq (es : List Edge) : pyMatching es = .ok (sortPairs (hkMatch (buildGraph es))) := by
  have hv : validB es (sortPairs (hkMatch (buildGraph es))) = true :=
    (validB_iff _ _).2 (validMatching_perm (hkMatch_buildGraph_valid es) (sortPairs_perm _))
  have hl : (sortPairs (hkMatch (buildGraph es))).length = maxMatchSize es := by
    rw [(sortPairs_perm _).length_eq, hkMatch_buildGraph_length]
  unfold pyMatching
  simp only [hv, hl, beq_self_eq_true, Bool.and_self, if_true]

end Mir.HK
