import MirProofs.Lemmas.HopcroftKarpValid
/-!
  Stage 2 of the correctness proof of the transliterated `util._bipartite_match`
  (`Mir.Transcription.hkMatch`): the returned matching has **maximum** size, for every graph.

  * the final layering (the one that ends with `unmatched = []`) is closed under the alternating
    reachability rules, so the reached vertices give a König vertex cover of size `|matching|`
    (`koenig`), and `weak_duality` makes the matching maximum;
  * no loop ever stops because its fuel ran out: the layering adds a new right vertex per iteration
    (`layerLoop_stops`), the first depth-first search of a phase always finds an augmenting path
    (`recurse_succeeds`, using layer ranks), so every phase enlarges the matching (`phase_progress`),
    whose size is at most the number of left vertices.
-/
namespace Mir.HK
open Mir Mir.Transcription

/-! ### closure invariants of the layering -/

structure LayMax (g : AL (List Nat)) (M : AL Nat) (s : Layers) : Prop where
  ndp : (keys s.preds).Nodup
  lay : ∀ u ∈ s.layer, Has s.pred u
  k1 : ∀ u, Has s.pred u → u ∈ s.layer ∨ ∀ v, IsEdge g u v → Has s.preds v
  k2 : ∀ v, Has s.preds v → Has M v ∨ v ∈ s.unmatched
  k3 : ∀ v u, Has s.preds v → alGet v M = some u → Has s.pred u
  free : ∀ u, Has g u → (∀ x, alGet x M ≠ some u) → Has s.pred u
  right : ∀ v, Has s.preds v → ∃ u, IsEdge g u v
  umP : ∀ v ∈ s.unmatched, Has s.preds v

theorem mem_keys_iff_exists_mem {α : Type} (m : AL α) (k : Nat) : k ∈ keys m ↔ ∃ x ∈ m, x.1 = k := by
  unfold keys; rw [List.mem_map]

theorem layStep_max {g : AL (List Nat)} {M : AL Nat} {s : Layers} (h : LayMax g M s) :
    LayMax g M (layStep g M s) := by
  have hnl := buildNewLayer_sound g s.preds s.layer
  have hcomp := buildNewLayer_complete g s.preds s.layer
  unfold layStep
  rw [absorbLayer_eq]
  generalize buildNewLayer g s.preds s.layer = nl at hnl hcomp
  have hps : (nl.foldl (absorbStep M) { s with layer := [] }).preds = predsFold nl s.preds := absorb_preds M nl _
  have hlayer : ∀ u, u ∈ (nl.foldl (absorbStep M) { s with layer := [] }).layer ↔
      ∃ v, v ∈ keys nl ∧ alGet v M = some u := by
    intro u
    rw [absorb_layer]
    simp only [List.not_mem_nil, false_or]
    constructor
    · rintro ⟨vus, hvus, hm⟩; exact ⟨vus.1, (mem_keys_iff_exists_mem _ _).2 ⟨vus, hvus, rfl⟩, hm⟩
    · rintro ⟨v, hv, hm⟩
      obtain ⟨vus, hvus, rfl⟩ := (mem_keys_iff_exists_mem _ _).1 hv
      exact ⟨vus, hvus, hm⟩
  have hpred : ∀ u, Has (nl.foldl (absorbStep M) { s with layer := [] }).pred u ↔
      Has s.pred u ∨ ∃ v, v ∈ keys nl ∧ alGet v M = some u := fun u => absorb_pred_has M nl _ u
  have hum : ∀ v, v ∈ (nl.foldl (absorbStep M) { s with layer := [] }).unmatched ↔
      v ∈ s.unmatched ∨ (v ∈ keys nl ∧ alGet v M = none) := fun v => absorb_unmatched M nl _ v
  refine ⟨?_, ?_, ?_, ?_, ?_, ?_, ?_, ?_⟩
  · rw [hps]; exact predsFold_nodup nl _ h.ndp
  · intro u hu
    rw [hpred]; exact Or.inr ((hlayer u).1 hu)
  · intro u hu
    rw [hps]
    rcases (hpred u).1 hu with h1 | h1
    · right
      intro v he
      rw [predsFold_has]
      rcases h.k1 u h1 with h2 | h2
      · rcases hcomp u h2 v he with h3 | h3
        · exact Or.inl h3
        · exact Or.inr ((has_iff_mem_keys _ _).1 h3)
      · exact Or.inl (h2 v he)
    · exact Or.inl ((hlayer u).2 h1)
  · intro v hv
    rw [hps, predsFold_has] at hv
    rw [hum]
    rcases hv with h1 | h1
    · rcases h.k2 v h1 with h2 | h2
      · exact Or.inl h2
      · exact Or.inr (Or.inl h2)
    · cases hm : alGet v M with
      | none => exact Or.inr (Or.inr ⟨h1, rfl⟩)
      | some u => exact Or.inl (has_of_get hm)
  · intro v u hv hm
    rw [hps, predsFold_has] at hv
    rw [hpred]
    rcases hv with h1 | h1
    · exact Or.inl (h.k3 v u h1 hm)
    · exact Or.inr ⟨v, h1, hm⟩
  · intro u hu hf
    rw [hpred]; exact Or.inl (h.free u hu hf)
  · intro v hv
    rw [hps, predsFold_has] at hv
    rcases hv with h1 | h1
    · exact h.right v h1
    · obtain ⟨L, hL⟩ := (has_iff_exists _ _).1 ((has_iff_mem_keys _ _).2 h1)
      obtain ⟨_, hne, hall⟩ := hnl.snd v L hL
      obtain ⟨u, L', rfl⟩ := List.exists_cons_of_ne_nil hne
      exact ⟨u, (hall u List.mem_cons_self).2⟩
  · intro v hv
    rw [hps, predsFold_has]
    rcases (hum v).1 hv with h1 | h1
    · exact Or.inl (h.umP v h1)
    · exact Or.inr h1.1

theorem pred0_has {g : AL (List Nat)} {M : AL Nat} (hM : (keys M).Nodup) {u : Nat} (hu : Has g u)
    (hf : ∀ x, alGet x M ≠ some u) : Has (pred0 g M) u := by
  rw [has_iff_mem_keys, mem_keys_iff_exists_mem]
  rw [has_iff_mem_keys, mem_keys_iff_exists_mem] at hu
  obtain ⟨uv, huv, rfl⟩ := hu
  refine ⟨(uv.1, none), ?_, rfl⟩
  unfold pred0
  rw [List.mem_filter]
  refine ⟨List.mem_map.2 ⟨uv, huv, rfl⟩, ?_⟩
  simp only [Bool.not_eq_true', List.any_eq_false, beq_iff_eq]
  intro vu hvu hc
  exact hf vu.1 (by rw [← hc]; exact alGet_of_mem hM hvu)

theorem initLayers_max (g : AL (List Nat)) (M : AL Nat) (hM : (keys M).Nodup) : LayMax g M (initLayers g M) := by
  have hno : ∀ v, ¬ Has (initLayers g M).preds v := by intro v; simp [initLayers, Has]
  refine ⟨by simp [initLayers, keys], ?_, ?_, ?_, ?_, ?_, ?_, ?_⟩
  · intro u hu
    rw [has_iff_mem_keys]; exact hu
  · intro u hu
    left
    rw [has_iff_mem_keys] at hu; exact hu
  · intro v hv; exact absurd hv (hno v)
  · intro v u hv; exact absurd hv (hno v)
  · intro u hu hf; exact pred0_has hM hu hf
  · intro v hv; exact absurd hv (hno v)
  · intro v hv; simp [initLayers] at hv

/-! ### the layering loop does not run out of fuel -/

/-- number of edges = `sum(len(graph[u]) for u in graph)` -/
def edgeCount (g : AL (List Nat)) : Nat := (g.map fun uv => uv.2.length).sum

theorem preds_len_le {g : AL (List Nat)} {M : AL Nat} {s : Layers} (h : LayMax g M s) :
    s.preds.length ≤ edgeCount g := by
  have h1 : (keys s.preds).length ≤ (g.flatMap Prod.snd).length := by
    apply nodup_subset_length_le h.ndp
    intro v hv
    obtain ⟨u, vs, hvs, hmem⟩ := h.right v ((has_iff_mem_keys _ _).2 hv)
    rw [List.mem_flatMap]
    exact ⟨(u, vs), mem_of_alGet hvs, hmem⟩
  rw [List.length_flatMap] at h1
  simpa [keys, edgeCount] using h1

def Stop (s : Layers) : Prop := (s.layer.isEmpty || !s.unmatched.isEmpty) = true

theorem layerLoop_of_stop (g : AL (List Nat)) (M : AL Nat) {s : Layers} (h : Stop s) :
    ∀ fuel, layerLoop g M fuel s = s := by
  intro fuel
  cases fuel with
  | zero => rfl
  | succ fuel => unfold Stop at h; rw [layerLoop_succ, if_pos h]

theorem layStep_preds_length {g : AL (List Nat)} {M : AL Nat} (s : Layers) :
    (layStep g M s).preds.length = s.preds.length + (buildNewLayer g s.preds s.layer).length := by
  have hnl := buildNewLayer_sound g s.preds s.layer
  unfold layStep
  rw [absorbLayer_eq, absorb_preds]
  apply predsFold_length _ _ hnl.nodupK
  intro v hv
  obtain ⟨L, hL⟩ := (has_iff_exists _ _).1 ((has_iff_mem_keys _ _).2 hv)
  exact (hnl.snd v L hL).1

theorem layerLoop_stops {g : AL (List Nat)} {M : AL Nat} : ∀ (fuel : Nat) (s : Layers), LayMax g M s →
    edgeCount g + 2 ≤ fuel + s.preds.length → Stop (layerLoop g M fuel s) := by
  intro fuel
  induction fuel with
  | zero =>
    intro s h hf
    have := preds_len_le h
    omega
  | succ fuel ih =>
    intro s h hf
    rw [layerLoop_succ]
    split
    · rename_i hc; exact hc
    · by_cases hnl : buildNewLayer g s.preds s.layer = []
      · have hstop : Stop (layStep g M s) := by
          unfold layStep
          rw [hnl, absorbLayer_eq]
          simp [Stop]
        rw [layerLoop_of_stop g M hstop]; exact hstop
      · apply ih _ (layStep_max h)
        rw [layStep_preds_length]
        have : 0 < (buildNewLayer g s.preds s.layer).length := List.length_pos_iff.2 hnl
        omega

/-! ### König: a closed final layering certifies maximality -/

theorem koenig {g : AL (List Nat)} {M : AL Nat} {s : Layers} (hg : (keys g).Nodup)
    (h : LayMax g M s) (hlayer : s.layer = []) (hun : s.unmatched = []) :
    ∀ M', ValidMatching (edgesOf g) M' → M'.length ≤ M.length := by
  intro M' hM'
  let cl : List Nat := (M.filter fun vu => !alHas vu.1 s.preds).map Prod.snd
  let cr : List Nat := (M.filter fun vu => alHas vu.1 s.preds).map Prod.fst
  have hlen : cl.length + cr.length = M.length := by
    have := List.length_eq_length_filter_add (l := M) (fun vu => alHas vu.1 s.preds)
    simp only [cl, cr, List.length_map]; omega
  have hclosed : ∀ u v, Has s.pred u → IsEdge g u v → v ∈ cr := by
    intro u v hu he
    rcases h.k1 u hu with h1 | h1
    · rw [hlayer] at h1; simp at h1
    · have hv := h1 v he
      rcases h.k2 v hv with h2 | h2
      · obtain ⟨u', hu'⟩ := (has_iff_exists _ _).1 h2
        simp only [cr, List.mem_map, List.mem_filter]
        exact ⟨(v, u'), ⟨mem_of_alGet hu', (alHas_iff _ _).2 hv⟩, rfl⟩
      · rw [hun] at h2; simp at h2
  have hcover : ∀ e ∈ edgesOf g, e.1 ∈ cl ∨ e.2 ∈ cr := by
    intro e he
    obtain ⟨u, v⟩ := e
    have hedge := isEdge_of_mem_edgesOf hg he
    by_cases hfree : ∃ x, alGet x M = some u
    · obtain ⟨x, hx⟩ := hfree
      by_cases hxp : Has s.preds x
      · exact Or.inr (hclosed u v (h.k3 x u hxp hx) hedge)
      · left
        simp only [cl, List.mem_map, List.mem_filter]
        refine ⟨(x, u), ⟨mem_of_alGet hx, ?_⟩, rfl⟩
        simp only [Bool.not_eq_true']
        exact (alHas_eq_false_iff _ _).2 hxp
    · have hu : Has g u := by obtain ⟨vs, hvs, _⟩ := hedge; exact has_of_get hvs
      exact Or.inr (hclosed u v (h.free u hu (fun x hx => hfree ⟨x, hx⟩)) hedge)
  have := weak_duality hM' hcover
  omega

/-! ### layer ranks: the layering is acyclic -/

structure Ranked (preds : AL (List Nat)) (pred : AL (Option Nat)) (rkL rkR : Nat → Nat) : Prop where
  r1 : ∀ v L, alGet v preds = some L → L ≠ [] ∧ ∀ u ∈ L, Has pred u ∧ rkL u < rkR v
  r2 : ∀ u w, alGet u pred = some (some w) → Has preds w ∧ rkR w ≤ rkL u

def LayRank (s : Layers) : Prop :=
  ∃ (n : Nat) (rkL rkR : Nat → Nat), Ranked s.preds s.pred rkL rkR ∧ ∀ u, Has s.pred u → rkL u ≤ n

theorem initLayers_rank (g : AL (List Nat)) (M : AL Nat) : LayRank (initLayers g M) := by
  refine ⟨0, fun _ => 0, fun _ => 0, ⟨?_, ?_⟩, fun _ _ => le_refl _⟩
  · intro v L h; simp [initLayers] at h
  · intro u w h
    have := (pred0_get h).1; cases this

theorem layStep_rank {g : AL (List Nat)} {M : AL Nat} {s : Layers} (hM : MOK g M) (hok : LayOK g M s)
    (hmax : LayMax g M s) (h : LayRank s) : LayRank (layStep g M s) := by
  obtain ⟨n, rkL, rkR, hr, hn⟩ := h
  have hnl := buildNewLayer_sound g s.preds s.layer
  unfold layStep
  rw [absorbLayer_eq]
  generalize buildNewLayer g s.preds s.layer = nl at hnl
  have hps : (nl.foldl (absorbStep M) { s with layer := [] }).preds = predsFold nl s.preds := absorb_preds M nl _
  have hpredHas : ∀ u, Has (nl.foldl (absorbStep M) { s with layer := [] }).pred u ↔
      Has s.pred u ∨ ∃ v, v ∈ keys nl ∧ alGet v M = some u := fun u => absorb_pred_has M nl _ u
  have hnew : ∀ v, v ∈ keys nl → ¬ Has s.preds v := by
    intro v hv
    obtain ⟨L, hL⟩ := (has_iff_exists _ _).1 ((has_iff_mem_keys _ _).2 hv)
    exact (hnl.snd v L hL).1
  -- a left vertex matched to a new right vertex has no `pred` entry yet
  have hfresh : ∀ v u, v ∈ keys nl → alGet v M = some u → ¬ Has s.pred u := by
    intro v u hv hm hc
    obtain ⟨x, hx⟩ := (has_iff_exists _ _).1 hc
    cases x with
    | none => exact hok.j1 u hx v hm
    | some w =>
      have hw := hok.j2 u w hx
      have : w = v := hM.inj w v u hw hm
      subst this
      exact hnew w hv (hr.r2 u w hx).1
  refine ⟨n + 1, fun u => if Has s.pred u then rkL u else n + 1,
    fun v => if Has s.preds v then rkR v else n + 1, ⟨?_, ?_⟩, ?_⟩
  · intro v L hv
    rw [hps] at hv
    rcases predsFold_get nl _ v L hv with h1 | h1
    · obtain ⟨hne, hall⟩ := hr.r1 v L h1
      refine ⟨hne, fun u hu => ⟨(hpredHas u).2 (Or.inl (hall u hu).1), ?_⟩⟩
      simp only [if_pos (hall u hu).1, if_pos (has_of_get h1)]
      exact (hall u hu).2
    · have hL := alGet_of_mem hnl.nodupK h1
      obtain ⟨hnp, hne, hall⟩ := hnl.snd v L hL
      refine ⟨hne, fun u hu => ?_⟩
      have hup : Has s.pred u := hmax.lay u (hall u hu).1
      refine ⟨(hpredHas u).2 (Or.inl hup), ?_⟩
      simp only [if_pos hup, if_neg hnp]
      have := hn u hup
      omega
  · intro u w hu
    rcases absorb_pred M nl _ u (some w) hu with h1 | ⟨v, hv, hx, hm⟩
    · obtain ⟨hw, hle⟩ := hr.r2 u w h1
      refine ⟨by rw [hps, predsFold_has]; exact Or.inl hw, ?_⟩
      simp only [if_pos hw, if_pos (has_of_get h1)]
      exact hle
    · cases hx
      refine ⟨by rw [hps, predsFold_has]; exact Or.inr hv, ?_⟩
      simp only [if_neg (hnew w hv), if_neg (hfresh w u hv hm)]
      exact le_refl _
  · intro u hu
    by_cases hup : Has s.pred u
    · simp only [if_pos hup]
      have := hn u hup
      omega
    · simp only [if_neg hup]; exact le_refl _

/-! ### the first depth-first search of a phase finds an augmenting path -/

structure Intact (s0 s : HKState) (rkL rkR : Nat → Nat) (r : Nat) : Prop where
  ps : ∀ v, rkR v < r → alGet v s.preds = alGet v s0.preds
  p : ∀ u, rkL u < r → alGet u s.pred = alGet u s0.pred

theorem recurse_succeeds {s0 : HKState} {rkL rkR : Nat → Nat} (hr : Ranked s0.preds s0.pred rkL rkR) :
    ∀ (fuel v : Nat) (s : HKState), s.preds.length ≤ fuel → Has s0.preds v →
      alGet v s.preds = alGet v s0.preds → Intact s0 s rkL rkR (rkR v) → (recurse fuel v s).1 = true := by
  intro fuel
  induction fuel with
  | zero =>
    intro v s hlen hv heq _
    have : s.preds = [] := List.eq_nil_of_length_eq_zero (Nat.le_zero.1 hlen)
    rw [this] at heq
    exact absurd heq.symm hv
  | succ fuel ih =>
    intro v s hlen hv heq hint
    obtain ⟨L, hL⟩ := (has_iff_exists _ _).1 hv
    obtain ⟨hne, hall⟩ := hr.r1 v L hL
    obtain ⟨u, L', rfl⟩ := List.exists_cons_of_ne_nil hne
    obtain ⟨hu, hrk⟩ := hall u List.mem_cons_self
    rw [hL] at heq
    unfold recurse
    simp only [heq]
    unfold recurseList
    have hpu : alGet u s.pred = alGet u s0.pred := hint.p u hrk
    obtain ⟨pu, hpu0⟩ := (has_iff_exists _ _).1 hu
    rw [hpu0] at hpu
    simp only [hpu]
    cases pu with
    | none => rfl
    | some w =>
      simp only
      obtain ⟨hw, hwle⟩ := hr.r2 u w hpu0
      have hwv : w ≠ v := by intro hc; subst hc; omega
      have hsv : Has s.preds v := by unfold Has; rw [heq]; simp
      have hrec := ih w { preds := alErase v s.preds, pred := alErase u s.pred, matching := s.matching }
        (by have := length_alErase_lt hsv; simp only; omega) hw
        (by simp only; rw [alGet_alErase_ne (Ne.symm hwv)]; exact hint.ps w (by omega))
        ⟨by
          intro v' hv'
          simp only
          have : v ≠ v' := by intro hc; subst hc; omega
          rw [alGet_alErase_ne this]; exact hint.ps v' (by omega),
         by
          intro u' hu'
          simp only
          have : u ≠ u' := by intro hc; subst hc; omega
          rw [alGet_alErase_ne this]; exact hint.p u' (by omega)⟩
      cases hres : recurse fuel w { preds := alErase v s.preds, pred := alErase u s.pred, matching := s.matching } with
      | mk b s3 =>
        rw [hres] at hrec
        simp only at hrec
        subst hrec
        rfl

/-! ### every non-final phase enlarges the matching -/

/-- everything the layering establishes -/
structure PhaseInv (g : AL (List Nat)) (M : AL Nat) (s : Layers) : Prop where
  ok : LayOK g M s
  mx : LayMax g M s
  rk : LayRank s

theorem phaseLayers_inv {g : AL (List Nat)} {M : AL Nat} (hM : MOK g M) (bound : Nat) :
    PhaseInv g M (phaseLayers g M bound) := by
  apply layerLoop_inv g M (PhaseInv g M)
  · intro s h
    exact ⟨layStep_ok h.ok, layStep_max h.mx, layStep_rank hM h.ok h.mx h.rk⟩
  · exact ⟨initLayers_ok g M, initLayers_max g M hM.nodupK, initLayers_rank g M⟩

theorem phase_progress {g : AL (List Nat)} {M : AL Nat} {ls : Layers} (hM : MOK g M) (h : PhaseInv g M ls)
    (bound : Nat) (hb : edgeCount g ≤ bound) (hne : ls.unmatched ≠ []) :
    M.length < (dfsFold bound ls.unmatched (phaseState ls M)).matching.length := by
  obtain ⟨v0, rest, hvs⟩ := List.exists_cons_of_ne_nil hne
  obtain ⟨hok, hnp⟩ := phaseState_ok hM h.ok
  rw [hvs] at hnp ⊢
  obtain ⟨n, rkL, rkR, hr, _⟩ := h.rk
  have hv0 : v0 ∈ ls.unmatched := by rw [hvs]; exact List.mem_cons_self
  have hsucc : (recurse bound v0 (phaseState ls M)).1 = true := by
    apply recurse_succeeds (s0 := phaseState ls M) hr bound v0 _ _ (h.mx.umP v0 hv0) rfl ⟨fun _ _ => rfl, fun _ _ => rfl⟩
    exact le_trans (preds_len_le h.mx) hb
  have hp := recurse_spec bound v0 _ hok (hnp v0 List.mem_cons_self)
  have hlen := hp.len
  have hnot : ¬ Has (phaseState ls M).matching v0 := by
    unfold Has; simp only [phaseState, ne_eq, not_not]; exact h.ok.um v0 hv0
  rw [if_pos ⟨hsucc, hnot⟩] at hlen
  have hrest := (dfsFold_ok bound rest _ hp.ok
    (fun v' hv' u hu => hnp v' (List.mem_cons_of_mem _ hv') u (hp.subP u _ hu))).2
  have : dfsFold bound (v0 :: rest) (phaseState ls M) = dfsFold bound rest (recurse bound v0 (phaseState ls M)).2 := rfl
  rw [this]
  have hM0 : (phaseState ls M).matching.length = M.length := rfl
  omega

/-! ### the outer loop returns a maximum matching -/

theorem MOK.length_le {g : AL (List Nat)} {M : AL Nat} (h : MOK g M) : M.length ≤ g.length := by
  have hv := h.valid
  have h1 : ((asEdges M).map Prod.fst).length ≤ (keys g).length := by
    apply nodup_subset_length_le hv.2.1
    intro u hu
    obtain ⟨e, he, rfl⟩ := List.mem_map.1 hu
    unfold asEdges at he
    obtain ⟨vu, hvu, rfl⟩ := List.mem_map.1 he
    obtain ⟨vs, hvs, _⟩ := h.edge vu.1 vu.2 (alGet_of_mem h.nodupK hvu)
    exact (has_iff_mem_keys _ _).1 (has_of_get hvs)
  simpa [asEdges, keys] using h1

theorem hkLoop_max {g : AL (List Nat)} (hg : (keys g).Nodup) (bound : Nat) (hb : edgeCount g + 2 ≤ bound) :
    ∀ (fuel : Nat) (M : AL Nat), MOK g M → g.length < fuel + M.length →
      ∀ M', ValidMatching (edgesOf g) M' → M'.length ≤ (hkLoop g bound fuel M).length := by
  intro fuel
  induction fuel with
  | zero =>
    intro M hM hf
    have := hM.length_le
    omega
  | succ fuel ih =>
    intro M hM hf
    have hinv := phaseLayers_inv hM bound
    rw [hkLoop_succ]
    split
    · rename_i hemp
      have hun : (phaseLayers g M bound).unmatched = [] := List.isEmpty_iff.1 hemp
      have hstop : Stop (phaseLayers g M bound) :=
        layerLoop_stops bound _ (initLayers_max g M hM.nodupK) (by simp [initLayers]; omega)
      have hlayer : (phaseLayers g M bound).layer = [] := by
        unfold Stop at hstop
        rw [hun] at hstop
        simpa using hstop
      exact koenig hg hinv.mx hlayer hun
    · rename_i hemp
      have hne : (phaseLayers g M bound).unmatched ≠ [] := fun hc => hemp (List.isEmpty_iff.2 hc)
      have hprog := phase_progress hM hinv bound (by omega) hne
      exact ih _ (phase_ok bound hM) (by omega)

theorem hkMatch_max (g : AL (List Nat)) (hg : (keys g).Nodup) :
    ∀ M', ValidMatching (edgesOf g) M' → M'.length ≤ (hkMatch g).length := by
  unfold hkMatch
  apply hkLoop_max hg
  · unfold edgeCount; omega
  · exact greedyInit_ok g hg
  · omega

theorem hkMatch_isMaxSize (g : AL (List Nat)) (hg : (keys g).Nodup) :
    IsMaxSize (edgesOf g) (hkMatch g).length :=
  ⟨⟨asEdges (hkMatch g), (hkMatch_ok g hg).valid, by simp [asEdges]⟩, hkMatch_max g hg⟩

theorem hkMatch_length (g : AL (List Nat)) (hg : (keys g).Nodup) :
    (hkMatch g).length = maxMatchSize (edgesOf g) :=
  (hkMatch_isMaxSize g hg).unique (maxMatchSize_isMax _)

end Mir.HK
