import MirProofs.Lemmas.HopcroftKarpAL
/-!
  Stage 1 of the correctness proof of the transliterated `util._bipartite_match`
  (`Mir.Transcription.hkMatch`): for every graph dict with distinct keys the result is a *valid matching*
  (distinct right vertices, distinct left vertices, only edges of the graph).

  The graph dict is `g : AL (List Nat)` (`u ↦ [v …]`), a matching dict is `M : AL Nat` (`v ↦ u`).
-/
namespace Mir.HK
open Mir Mir.Transcription

/-- `v in graph[u]` -/
def IsEdge (g : AL (List Nat)) (u v : Nat) : Prop := ∃ vs, alGet u g = some vs ∧ v ∈ vs

/-- well-formed matching dict for the graph `g`: keys distinct, injective, only edges -/
structure MOK (g : AL (List Nat)) (M : AL Nat) : Prop where
  nodupK : (keys M).Nodup
  inj : ∀ x x' y, alGet x M = some y → alGet x' M = some y → x = x'
  edge : ∀ v u, alGet v M = some u → IsEdge g u v

theorem MOK.nil (g : AL (List Nat)) : MOK g [] :=
  ⟨by simp [keys], by intro x x' y h; simp at h, by intro v u h; simp at h⟩

/-! ### the greedy initialisation -/

def greedyStep (m : AL Nat) (uv : Nat × List Nat) : AL Nat :=
  match uv.2.find? (fun v => !alHas v m) with
  | some v => alSet v uv.1 m
  | none => m

theorem greedyInit_eq (g : AL (List Nat)) : greedyInit g = g.foldl greedyStep [] := rfl

theorem greedy_fold_ok (g : AL (List Nat)) (hg : (keys g).Nodup) :
    ∀ (rest : AL (List Nat)) (M : AL Nat), (∀ uv ∈ rest, uv ∈ g) → (keys rest).Nodup →
      (∀ v u, alGet v M = some u → u ∉ keys rest) → MOK g M → MOK g (rest.foldl greedyStep M) := by
  intro rest
  induction rest with
  | nil => intro M _ _ _ h; exact h
  | cons uv rest ih =>
    intro M hsub hnd hval hM
    obtain ⟨u0, vs0⟩ := uv
    simp only [keys, List.map_cons, List.nodup_cons] at hnd
    rw [List.foldl_cons]
    apply ih
    · intro x hx; exact hsub x (List.mem_cons_of_mem _ hx)
    · exact hnd.2
    · intro v u hvu
      unfold greedyStep at hvu
      split at hvu
      · rename_i v0 hfind
        rw [alGet_alSet] at hvu
        split at hvu
        · cases hvu; exact hnd.1
        · intro hc
          exact hval v u hvu (by simp [keys]; exact Or.inr (by simpa [keys] using hc))
      · intro hc
        exact hval v u hvu (by simp [keys]; exact Or.inr (by simpa [keys] using hc))
    · unfold greedyStep
      split
      · rename_i v0 hfind
        have hv0 : ¬ Has M v0 := by
          have := List.find?_some hfind
          simp only [Bool.not_eq_true'] at this
          exact (alHas_eq_false_iff _ _).1 this
        have hmem : v0 ∈ vs0 := List.mem_of_find?_eq_some hfind
        have hget : alGet u0 g = some vs0 := alGet_of_mem hg (hsub _ List.mem_cons_self)
        refine ⟨nodup_keys_alSet _ _ hM.nodupK, ?_, ?_⟩
        · intro x x' y hx hx'
          rw [alGet_alSet] at hx hx'
          split at hx <;> split at hx'
          · rename_i h1 h2; rw [← h1, ← h2]
          · cases hx
            exact absurd (by simp [keys]) (hval x' _ hx')
          · cases hx'
            exact absurd (by simp [keys]) (hval x _ hx)
          · exact hM.inj x x' y hx hx'
        · intro v u hvu
          rw [alGet_alSet] at hvu
          split at hvu
          · rename_i h1; cases hvu; subst h1; exact ⟨vs0, hget, hmem⟩
          · exact hM.edge v u hvu
      · exact hM

theorem greedyInit_ok (g : AL (List Nat)) (hg : (keys g).Nodup) : MOK g (greedyInit g) := by
  rw [greedyInit_eq]
  exact greedy_fold_ok g hg g [] (fun _ h => h) hg (by intro v u h; simp at h) (MOK.nil g)

/-! ### the new layer `new_layer.setdefault(v, []).append(u)` -/

def nlInner (preds : AL (List Nat)) (u : Nat) (nl : AL (List Nat)) (v : Nat) : AL (List Nat) :=
  if alHas v preds then nl
  else match alGet v nl with
    | none => alSet v [u] nl
    | some l => alSet v (l ++ [u]) nl

def nlOuter (g preds : AL (List Nat)) (nl : AL (List Nat)) (u : Nat) : AL (List Nat) :=
  match alGet u g with
  | none => nl
  | some vs => vs.foldl (nlInner preds u) nl

theorem buildNewLayer_eq (g preds : AL (List Nat)) (layer : List Nat) :
    buildNewLayer g preds layer = layer.foldl (nlOuter g preds) [] := rfl

theorem has_nlInner {preds nl : AL (List Nat)} {u v x : Nat} (h : Has nl x) : Has (nlInner preds u nl v) x := by
  unfold nlInner
  split
  · exact h
  · split <;>
    · unfold Has at *
      rw [alGet_alSet]
      split
      · simp
      · exact h

theorem has_nlInner_self (preds nl : AL (List Nat)) (u v : Nat) : Has preds v ∨ Has (nlInner preds u nl v) v := by
  unfold nlInner
  split
  · rename_i h; exact Or.inl ((alHas_iff _ _).1 h)
  · right
    split <;>
    · unfold Has
      rw [alGet_alSet_self]; simp

theorem has_nlOuter {g preds nl : AL (List Nat)} {u x : Nat} (h : Has nl x) : Has (nlOuter g preds nl u) x := by
  unfold nlOuter
  split
  · exact h
  · rename_i vs _
    exact foldl_inv (fun nl => Has nl x) _ vs nl h (fun b y _ hb => has_nlInner hb)

/-- soundness of the new layer: keys are new right vertices, each with a non-empty list of
    current-layer neighbours -/
structure NLS (g preds : AL (List Nat)) (layer : List Nat) (nl : AL (List Nat)) : Prop where
  nodupK : (keys nl).Nodup
  snd : ∀ v L, alGet v nl = some L → ¬ Has preds v ∧ L ≠ [] ∧ ∀ u ∈ L, u ∈ layer ∧ IsEdge g u v

theorem nls_inner {g preds : AL (List Nat)} {layer : List Nat} {nl : AL (List Nat)} {u v : Nat}
    (hu : u ∈ layer) (he : IsEdge g u v) (h : NLS g preds layer nl) : NLS g preds layer (nlInner preds u nl v) := by
  unfold nlInner
  split
  · exact h
  · rename_i hp
    have hp' : ¬ Has preds v := by rw [← alHas_iff]; exact hp
    split
    · refine ⟨nodup_keys_alSet _ _ h.nodupK, ?_⟩
      intro x L hx
      rw [alGet_alSet] at hx
      split at hx
      · rename_i hvx; cases hx; subst hvx
        refine ⟨hp', by simp, ?_⟩
        intro u' hu'; simp at hu'; subst hu'; exact ⟨hu, he⟩
      · exact h.snd x L hx
    · rename_i l hl
      refine ⟨nodup_keys_alSet _ _ h.nodupK, ?_⟩
      intro x L hx
      rw [alGet_alSet] at hx
      split at hx
      · rename_i hvx; cases hx; subst hvx
        refine ⟨hp', by simp, ?_⟩
        intro u' hu'
        rcases List.mem_append.1 hu' with hu' | hu'
        · exact (h.snd v l hl).2.2 u' hu'
        · simp at hu'; subst hu'; exact ⟨hu, he⟩
      · exact h.snd x L hx

theorem buildNewLayer_sound (g preds : AL (List Nat)) (layer : List Nat) :
    NLS g preds layer (buildNewLayer g preds layer) := by
  rw [buildNewLayer_eq]
  apply foldl_inv (NLS g preds layer)
  · exact ⟨by simp [keys], by intro v L h; simp at h⟩
  · intro nl u hu hnl
    unfold nlOuter
    split
    · exact hnl
    · rename_i vs hvs
      apply foldl_inv (NLS g preds layer) _ vs nl hnl
      intro b v hv hb
      exact nls_inner hu ⟨vs, hvs, hv⟩ hb

theorem buildNewLayer_complete (g preds : AL (List Nat)) (layer : List Nat) :
    ∀ u ∈ layer, ∀ v, IsEdge g u v → Has preds v ∨ Has (buildNewLayer g preds layer) v := by
  rw [buildNewLayer_eq]
  apply foldl_mem_inv (nlOuter g preds) (fun u nl => ∀ v, IsEdge g u v → Has preds v ∨ Has nl v)
  · intro nl u v ⟨vs, hvs, hv⟩
    unfold nlOuter
    rw [hvs]
    exact foldl_mem_inv (nlInner preds u) (fun v nl => Has preds v ∨ Has nl v)
      (fun b x => has_nlInner_self preds b u x)
      (fun b x y hb => hb.imp id has_nlInner) vs nl v hv
  · intro nl u y h v he
    exact (h v he).imp id has_nlOuter

/-! ### absorbing the new layer into `preds`, `pred`, `layer`, `unmatched` -/

def absorbStep (M : AL Nat) (s : Layers) (vus : Nat × List Nat) : Layers :=
  match alGet vus.1 M with
  | some u => { s with layer := s.layer ++ [u], preds := alSet vus.1 vus.2 s.preds,
                       pred := alSet u (some vus.1) s.pred }
  | none => { s with preds := alSet vus.1 vus.2 s.preds, unmatched := s.unmatched ++ [vus.1] }

theorem absorbLayer_eq (M : AL Nat) (nl : AL (List Nat)) (s : Layers) :
    absorbLayer M nl s = nl.foldl (absorbStep M) { s with layer := [] } := rfl

def predsFold (nl : AL (List Nat)) (p : AL (List Nat)) : AL (List Nat) :=
  nl.foldl (fun p vus => alSet vus.1 vus.2 p) p

theorem absorb_preds (M : AL Nat) : ∀ (nl : AL (List Nat)) (s : Layers),
    (nl.foldl (absorbStep M) s).preds = predsFold nl s.preds := by
  intro nl
  induction nl with
  | nil => intro s; rfl
  | cons x nl ih =>
    intro s
    rw [List.foldl_cons, ih]
    unfold predsFold
    rw [List.foldl_cons]
    unfold absorbStep
    split <;> rfl

theorem absorb_layer (M : AL Nat) : ∀ (nl : AL (List Nat)) (s : Layers) (u : Nat),
    u ∈ (nl.foldl (absorbStep M) s).layer ↔ u ∈ s.layer ∨ ∃ vus ∈ nl, alGet vus.1 M = some u := by
  intro nl
  induction nl with
  | nil => intro s u; simp
  | cons x nl ih =>
    intro s u
    rw [List.foldl_cons, ih]
    unfold absorbStep
    split
    · rename_i u' hu'
      simp only [List.mem_append, List.mem_singleton]
      simp only [List.mem_cons, exists_eq_or_imp, hu', Option.some.injEq]
      constructor
      · rintro ((h | h) | h)
        · exact Or.inl h
        · exact Or.inr (Or.inl h.symm)
        · exact Or.inr (Or.inr h)
      · rintro (h | h | h)
        · exact Or.inl (Or.inl h)
        · exact Or.inl (Or.inr h.symm)
        · exact Or.inr h
    · rename_i hn
      simp [hn]

theorem absorb_unmatched (M : AL Nat) : ∀ (nl : AL (List Nat)) (s : Layers) (v : Nat),
    v ∈ (nl.foldl (absorbStep M) s).unmatched ↔ v ∈ s.unmatched ∨ (v ∈ keys nl ∧ alGet v M = none) := by
  intro nl
  induction nl with
  | nil => intro s v; simp [keys]
  | cons x nl ih =>
    intro s v
    rw [List.foldl_cons, ih]
    unfold absorbStep
    split
    · rename_i u' hu'
      simp only [keys, List.map_cons, List.mem_cons]
      constructor
      · rintro (h | h)
        · exact Or.inl h
        · exact Or.inr ⟨Or.inr h.1, h.2⟩
      · rintro (h | ⟨h | h, h2⟩)
        · exact Or.inl h
        · subst h; rw [hu'] at h2; cases h2
        · exact Or.inr ⟨h, h2⟩
    · rename_i hn
      simp only [List.mem_append, List.mem_singleton]
      simp only [keys, List.map_cons, List.mem_cons]
      constructor
      · rintro ((h | h) | h)
        · exact Or.inl h
        · subst h; exact Or.inr ⟨Or.inl rfl, hn⟩
        · exact Or.inr ⟨Or.inr h.1, h.2⟩
      · rintro (h | ⟨h | h, h2⟩)
        · exact Or.inl (Or.inl h)
        · exact Or.inl (Or.inr h)
        · exact Or.inr ⟨h, h2⟩

theorem absorb_pred (M : AL Nat) : ∀ (nl : AL (List Nat)) (s : Layers) (u : Nat) (x : Option Nat),
    alGet u (nl.foldl (absorbStep M) s).pred = some x →
      alGet u s.pred = some x ∨ ∃ v, v ∈ keys nl ∧ x = some v ∧ alGet v M = some u := by
  intro nl
  induction nl with
  | nil => intro s u x h; exact Or.inl h
  | cons y nl ih =>
    intro s u x h
    rw [List.foldl_cons] at h
    rcases ih _ u x h with h | ⟨v, hv, hx, hm⟩
    · unfold absorbStep at h
      split at h
      · rename_i u' hu'
        simp only at h
        rw [alGet_alSet] at h
        split at h
        · rename_i huu; cases h; subst huu
          exact Or.inr ⟨y.1, by simp [keys], rfl, hu'⟩
        · exact Or.inl h
      · exact Or.inl h
    · exact Or.inr ⟨v, by simp only [keys, List.map_cons, List.mem_cons]; exact Or.inr hv, hx, hm⟩

theorem absorb_pred_has (M : AL Nat) : ∀ (nl : AL (List Nat)) (s : Layers) (u : Nat),
    Has (nl.foldl (absorbStep M) s).pred u ↔ Has s.pred u ∨ ∃ v, v ∈ keys nl ∧ alGet v M = some u := by
  intro nl
  induction nl with
  | nil => intro s u; simp [keys]
  | cons y nl ih =>
    intro s u
    rw [List.foldl_cons, ih]
    unfold absorbStep
    split
    · rename_i u' hu'
      simp only [keys, List.map_cons, List.mem_cons]
      unfold Has
      rw [alGet_alSet]
      constructor
      · rintro (h | ⟨v, hv, hm⟩)
        · split at h
          · rename_i huu; subst huu; exact Or.inr ⟨y.1, Or.inl rfl, hu'⟩
          · exact Or.inl h
        · exact Or.inr ⟨v, Or.inr hv, hm⟩
      · rintro (h | ⟨v, hv | hv, hm⟩)
        · left; split
          · simp
          · exact h
        · subst hv; rw [hu'] at hm; cases hm
          left; simp
        · exact Or.inr ⟨v, hv, hm⟩
    · rename_i hn
      simp only [keys, List.map_cons, List.mem_cons]
      constructor
      · rintro (h | ⟨v, hv, hm⟩)
        · exact Or.inl h
        · exact Or.inr ⟨v, Or.inr hv, hm⟩
      · rintro (h | ⟨v, hv | hv, hm⟩)
        · exact Or.inl h
        · subst hv; rw [hn] at hm; cases hm
        · exact Or.inr ⟨v, hv, hm⟩

theorem predsFold_get : ∀ (nl p : AL (List Nat)) (v : Nat) (L : List Nat),
    alGet v (predsFold nl p) = some L → alGet v p = some L ∨ (v, L) ∈ nl := by
  intro nl
  induction nl with
  | nil => intro p v L h; exact Or.inl h
  | cons y nl ih =>
    intro p v L h
    unfold predsFold at h
    rw [List.foldl_cons] at h
    rcases ih _ v L h with h | h
    · rw [alGet_alSet] at h
      split at h
      · rename_i hyv; cases h; subst hyv; exact Or.inr List.mem_cons_self
      · exact Or.inl h
    · exact Or.inr (List.mem_cons_of_mem _ h)

theorem predsFold_has : ∀ (nl p : AL (List Nat)) (v : Nat),
    Has (predsFold nl p) v ↔ Has p v ∨ v ∈ keys nl := by
  intro nl
  induction nl with
  | nil => intro p v; simp [predsFold, keys]
  | cons y nl ih =>
    intro p v
    unfold predsFold at ih ⊢
    rw [List.foldl_cons, ih]
    simp only [keys, List.map_cons, List.mem_cons]
    unfold Has
    rw [alGet_alSet]
    constructor
    · rintro (h | h)
      · split at h
        · rename_i hyv; exact Or.inr (Or.inl hyv.symm)
        · exact Or.inl h
      · exact Or.inr (Or.inr h)
    · rintro (h | h | h)
      · left; split
        · simp
        · exact h
      · left; simp [h]
      · exact Or.inr h

theorem predsFold_nodup : ∀ (nl p : AL (List Nat)), (keys p).Nodup → (keys (predsFold nl p)).Nodup := by
  intro nl p h
  exact foldl_inv (fun p => (keys p).Nodup) _ nl p h (fun b x _ hb => nodup_keys_alSet _ _ hb)

theorem predsFold_length : ∀ (nl p : AL (List Nat)), (keys nl).Nodup → (∀ v ∈ keys nl, ¬ Has p v) →
    (predsFold nl p).length = p.length + nl.length := by
  intro nl
  induction nl with
  | nil => intro p _ _; rfl
  | cons y nl ih =>
    intro p hnd hdis
    simp only [keys, List.map_cons, List.nodup_cons] at hnd
    unfold predsFold at ih ⊢
    rw [List.foldl_cons, ih _ hnd.2]
    · rw [length_alSet]
      have : y.1 ∉ keys p := by
        rw [← has_iff_mem_keys]; exact hdis y.1 (by simp [keys])
      simp [this]; omega
    · intro v hv
      unfold Has
      rw [alGet_alSet]
      split
      · rename_i hyv; subst hyv; exact absurd hv hnd.1
      · exact hdis v (by simp only [keys, List.map_cons, List.mem_cons]; exact Or.inr hv)

/-! ### Stage-1 invariant of the layering loop -/

structure LayOK (g : AL (List Nat)) (M : AL Nat) (s : Layers) : Prop where
  j1 : ∀ u, alGet u s.pred = some none → ∀ x, alGet x M ≠ some u
  j2 : ∀ u w, alGet u s.pred = some (some w) → alGet w M = some u
  j3 : ∀ v L, alGet v s.preds = some L → ∀ u ∈ L, IsEdge g u v
  um : ∀ v ∈ s.unmatched, alGet v M = none

/-- one iteration of the `while layer and not unmatched` loop -/
def layStep (g : AL (List Nat)) (M : AL Nat) (s : Layers) : Layers :=
  absorbLayer M (buildNewLayer g s.preds s.layer) s

theorem layerLoop_succ (g : AL (List Nat)) (M : AL Nat) (fuel : Nat) (s : Layers) :
    layerLoop g M (fuel + 1) s =
      if s.layer.isEmpty || !s.unmatched.isEmpty then s else layerLoop g M fuel (layStep g M s) := rfl

theorem layerLoop_inv (g : AL (List Nat)) (M : AL Nat) (P : Layers → Prop)
    (hstep : ∀ s, P s → P (layStep g M s)) : ∀ fuel s, P s → P (layerLoop g M fuel s) := by
  intro fuel
  induction fuel with
  | zero => intro s h; exact h
  | succ fuel ih =>
    intro s h
    rw [layerLoop_succ]
    split
    · exact h
    · exact ih _ (hstep s h)

theorem layStep_ok {g : AL (List Nat)} {M : AL Nat} {s : Layers} (h : LayOK g M s) : LayOK g M (layStep g M s) := by
  have hnl := buildNewLayer_sound g s.preds s.layer
  unfold layStep
  rw [absorbLayer_eq]
  generalize buildNewLayer g s.preds s.layer = nl at hnl
  refine ⟨?_, ?_, ?_, ?_⟩
  · intro u hu
    rcases absorb_pred M nl _ u none hu with h1 | ⟨v, _, hx, _⟩
    · exact h.j1 u h1
    · cases hx
  · intro u w hu
    rcases absorb_pred M nl _ u (some w) hu with h1 | ⟨v, _, hx, hm⟩
    · exact h.j2 u w h1
    · cases hx; exact hm
  · intro v L hv
    rw [absorb_preds] at hv
    rcases predsFold_get nl _ v L hv with h1 | h1
    · exact h.j3 v L h1
    · have := alGet_of_mem hnl.nodupK h1
      intro u hu
      exact ((hnl.snd v L this).2.2 u hu).2
  · intro v hv
    rcases (absorb_unmatched M nl _ v).1 hv with h1 | h1
    · exact h.um v h1
    · exact h1.2

/-! ### the depth-first search `recurse` -/

structure StepOK (g : AL (List Nat)) (s : HKState) : Prop where
  mok : MOK g s.matching
  j1 : ∀ u, alGet u s.pred = some none → ∀ x, alGet x s.matching ≠ some u
  j2 : ∀ u w, alGet u s.pred = some (some w) → alGet w s.matching = some u
  j3 : ∀ v L, alGet v s.preds = some L → ∀ u ∈ L, IsEdge g u v

/-- no left vertex points at `v` (so `matching[v]` may be overwritten) -/
def NoPtr (v : Nat) (s : HKState) : Prop := ∀ u, alGet u s.pred ≠ some (some v)

/-- `s2` is reachable from `s` by deletions from `preds`/`pred` and re-assignments of existing matching keys -/
structure Rel (s s2 : HKState) : Prop where
  subP : ∀ u x, alGet u s2.pred = some x → alGet u s.pred = some x
  subPs : ∀ x L, alGet x s2.preds = some L → alGet x s.preds = some L
  newv : ∀ x y, alGet x s2.matching = some y → alGet x s.matching = some y ∨ (Has s.pred y ∧ ¬ Has s2.pred y)
  frame : ∀ x u, alGet u s2.pred = some (some x) → alGet x s2.matching = alGet x s.matching
  keysEq : ∀ x, Has s2.matching x ↔ Has s.matching x
  lenEq : s2.matching.length = s.matching.length

theorem Rel.refl (s : HKState) : Rel s s :=
  ⟨fun _ _ h => h, fun _ _ h => h, fun _ _ h => Or.inl h, fun _ _ _ => rfl, fun _ => Iff.rfl, rfl⟩

theorem Rel.subHas {s s2 : HKState} (h : Rel s s2) {u : Nat} (hu : Has s2.pred u) : Has s.pred u := by
  obtain ⟨x, hx⟩ := (has_iff_exists _ _).1 hu
  exact has_of_get (h.subP u x hx)

/-- what a call `recurse(v)` from state `s` guarantees about its result `r` -/
structure RecPost (g : AL (List Nat)) (v : Nat) (s : HKState) (r : Bool × HKState) : Prop where
  ok : StepOK g r.2
  subP : ∀ u x, alGet u r.2.pred = some x → alGet u s.pred = some x
  subPs : ∀ x L, alGet x r.2.preds = some L → alGet x s.preds = some L
  newv : ∀ x y, alGet x r.2.matching = some y → alGet x s.matching = some y ∨ (Has s.pred y ∧ ¬ Has r.2.pred y)
  frame : ∀ x u, alGet u r.2.pred = some (some x) → alGet x r.2.matching = alGet x s.matching
  succ : r.1 = true → ∃ y, alGet v r.2.matching = some y ∧ Has s.pred y ∧ ¬ Has r.2.pred y
  keysM : ∀ x, Has r.2.matching x ↔ Has s.matching x ∨ (r.1 = true ∧ x = v)
  len : r.2.matching.length = s.matching.length + (if r.1 = true ∧ ¬ Has s.matching v then 1 else 0)

theorem RecPost.fail {g : AL (List Nat)} {v : Nat} {s : HKState} (h : StepOK g s) : RecPost g v s (false, s) :=
  ⟨h, fun _ _ h => h, fun _ _ h => h, fun _ _ h => Or.inl h, fun _ _ _ => rfl,
    (by intro h; cases h), (by intro x; simp), (by simp)⟩

theorem RecPost.trans {g : AL (List Nat)} {v : Nat} {s s2 : HKState} {r : Bool × HKState}
    (h12 : Rel s s2) (h : RecPost g v s2 r) : RecPost g v s r := by
  have hsub : ∀ y, Has r.2.pred y → Has s2.pred y := by
    intro y hy
    obtain ⟨x, hx⟩ := (has_iff_exists _ _).1 hy
    exact has_of_get (h.subP y x hx)
  refine ⟨h.ok, fun u x hx => h12.subP u x (h.subP u x hx), fun x L hx => h12.subPs x L (h.subPs x L hx),
    ?_, ?_, ?_, ?_, ?_⟩
  · intro x y hxy
    rcases h.newv x y hxy with h1 | ⟨h1, h2⟩
    · rcases h12.newv x y h1 with h3 | ⟨h3, h4⟩
      · exact Or.inl h3
      · exact Or.inr ⟨h3, fun hc => h4 (hsub y hc)⟩
    · exact Or.inr ⟨h12.subHas h1, h2⟩
  · intro x u hu
    rw [h.frame x u hu]
    exact h12.frame x u (h.subP u _ hu)
  · intro hb
    obtain ⟨y, hy, h1, h2⟩ := h.succ hb
    exact ⟨y, hy, h12.subHas h1, h2⟩
  · intro x
    rw [h.keysM x, h12.keysEq x]
  · rw [h.len, h12.lenEq]
    simp only [h12.keysEq v]

theorem Rel.of_post {g : AL (List Nat)} {w : Nat} {s s1 : HKState} {r : Bool × HKState}
    (h01 : Rel s s1) (hw : Has s.matching w) (h : RecPost g w s1 r) : Rel s r.2 := by
  have h' := RecPost.trans h01 h
  refine ⟨h'.subP, h'.subPs, h'.newv, h'.frame, ?_, ?_⟩
  · intro x
    rw [h'.keysM x]
    constructor
    · rintro (h1 | ⟨_, h1⟩)
      · exact h1
      · subst h1; exact hw
    · intro h1; exact Or.inl h1
  · rw [h'.len]
    simp [hw]

theorem Rel.erasePred (s : HKState) (u : Nat) : Rel s { s with pred := alErase u s.pred } := by
  refine ⟨?_, fun _ _ h => h, fun _ _ h => Or.inl h, fun _ _ _ => rfl, fun _ => Iff.rfl, rfl⟩
  intro u' x hx
  simp only at hx
  rw [alGet_alErase] at hx
  split at hx
  · cases hx
  · exact hx

theorem Rel.erasePreds (s : HKState) (v : Nat) : Rel s { s with preds := alErase v s.preds } := by
  refine ⟨fun _ _ h => h, ?_, fun _ _ h => Or.inl h, fun _ _ _ => rfl, fun _ => Iff.rfl, rfl⟩
  intro u' x hx
  simp only at hx
  rw [alGet_alErase] at hx
  split at hx
  · cases hx
  · exact hx

theorem StepOK.erasePred {g : AL (List Nat)} {s : HKState} (h : StepOK g s) (u : Nat) :
    StepOK g { s with pred := alErase u s.pred } := by
  have hr := Rel.erasePred s u
  exact ⟨h.mok, fun u' hu' => h.j1 u' (hr.subP u' _ hu'), fun u' w hu' => h.j2 u' w (hr.subP u' _ hu'), h.j3⟩

theorem StepOK.erasePreds {g : AL (List Nat)} {s : HKState} (h : StepOK g s) (v : Nat) :
    StepOK g { s with preds := alErase v s.preds } := by
  have hr := Rel.erasePreds s v
  exact ⟨h.mok, h.j1, h.j2, fun x L hx => h.j3 x L (hr.subPs x L hx)⟩

/-- the assignment `matching[v] = u; return True` after a successful descent -/
theorem attach {g : AL (List Nat)} {v u : Nat} {s s2 : HKState}
    (hnp : NoPtr v s) (he : IsEdge g u v) (hus : Has s.pred u)
    (hrel : Rel s s2) (hok : StepOK g s2) (hu : ¬ Has s2.pred u) (hfree : ∀ x, alGet x s2.matching ≠ some u) :
    RecPost g v s (true, { s2 with matching := alSet v u s2.matching }) := by
  have hnp2 : ∀ u' x, alGet u' s2.pred = some (some x) → x ≠ v := by
    intro u' x hx hc; subst hc
    exact hnp u' (hrel.subP u' _ hx)
  refine ⟨⟨⟨nodup_keys_alSet _ _ hok.mok.nodupK, ?_, ?_⟩, ?_, ?_, hok.j3⟩, hrel.subP, hrel.subPs, ?_, ?_, ?_, ?_, ?_⟩
  · intro x x' y hx hx'
    simp only at hx hx'
    rw [alGet_alSet] at hx hx'
    split at hx <;> split at hx'
    · rename_i h1 h2; rw [← h1, ← h2]
    · cases hx; exact absurd hx' (hfree x')
    · cases hx'; exact absurd hx (hfree x)
    · exact hok.mok.inj x x' y hx hx'
  · intro x y hxy
    simp only at hxy
    rw [alGet_alSet] at hxy
    split at hxy
    · rename_i h1; cases hxy; subst h1; exact he
    · exact hok.mok.edge x y hxy
  · intro u' hu' x hx
    simp only at hu' hx
    rw [alGet_alSet] at hx
    split at hx
    · cases hx; exact hu (has_of_get hu')
    · exact hok.j1 u' hu' x hx
  · intro u' w hu'
    simp only at hu' ⊢
    rw [alGet_alSet_ne (Ne.symm (hnp2 u' w hu'))]
    exact hok.j2 u' w hu'
  · intro x y hxy
    simp only at hxy ⊢
    rw [alGet_alSet] at hxy
    split at hxy
    · cases hxy; exact Or.inr ⟨hus, hu⟩
    · exact hrel.newv x y hxy
  · intro x u' hu'
    simp only at hu' ⊢
    rw [alGet_alSet_ne (Ne.symm (hnp2 u' x hu'))]
    exact hrel.frame x u' hu'
  · intro _
    exact ⟨u, by simp [alGet_alSet_self], hus, hu⟩
  · intro x
    simp only
    unfold Has
    rw [alGet_alSet]
    have := hrel.keysEq x
    unfold Has at this
    constructor
    · intro h
      split at h
      · rename_i h1; exact Or.inr ⟨trivial, h1.symm⟩
      · exact Or.inl (this.1 h)
    · rintro (h | ⟨_, h⟩)
      · split
        · simp
        · exact this.2 h
      · simp [h]
  · simp only
    rw [length_alSet, hrel.lenEq]
    have := hrel.keysEq v
    by_cases hv : Has s.matching v
    · have h2 : v ∈ keys s2.matching := (has_iff_mem_keys _ _).1 (this.2 hv)
      simp [hv, h2]
    · have h2 : v ∉ keys s2.matching := fun hc => hv (this.1 ((has_iff_mem_keys _ _).2 hc))
      simp [hv, h2]

theorem recurseList_spec {g : AL (List Nat)} (rec : Nat → HKState → Bool × HKState)
    (hrec : ∀ w s, StepOK g s → NoPtr w s → RecPost g w s (rec w s)) (v : Nat) :
    ∀ (L : List Nat) (s : HKState), StepOK g s → NoPtr v s → (∀ u ∈ L, IsEdge g u v) →
      RecPost g v s (recurseList rec v L s) := by
  intro L
  induction L with
  | nil => intro s h _ _; exact RecPost.fail h
  | cons u L ih =>
    intro s hok hnp hL
    have hLt : ∀ u ∈ L, IsEdge g u v := fun u' hu' => hL u' (List.mem_cons_of_mem _ hu')
    have hue : IsEdge g u v := hL u List.mem_cons_self
    unfold recurseList
    cases hpu : alGet u s.pred with
    | none => simpa [hpu] using ih s hok hnp hLt
    | some pu =>
      have hus : Has s.pred u := has_of_get hpu
      have hr1 := Rel.erasePred s u
      have hok1 := hok.erasePred u
      have hu1 : ¬ Has ({ s with pred := alErase u s.pred } : HKState).pred u := by
        unfold Has; simp [alGet_alErase_self]
      cases pu with
      | none =>
        simp only
        exact attach hnp hue hus hr1 hok1 hu1 (fun x => hok.j1 u hpu x)
      | some w =>
        simp only
        have hwu : alGet w s.matching = some u := hok.j2 u w hpu
        have hnpw : NoPtr w { s with pred := alErase u s.pred } := by
          intro u' hu'
          simp only at hu'
          rw [alGet_alErase] at hu'
          split at hu'
          · cases hu'
          · rename_i hne
            have h1 := hok.j2 u' w hu'
            rw [hwu] at h1
            cases h1; exact hne rfl
        have hp := hrec w _ hok1 hnpw
        have hrel := Rel.of_post hr1 (has_of_get hwu) hp
        cases hres : rec w { s with pred := alErase u s.pred } with
        | mk b s2 =>
          rw [hres] at hp hrel
          cases b with
          | true =>
            simp only
            have hu2 : ¬ Has s2.pred u := fun hc => hu1 (by
              obtain ⟨x, hx⟩ := (has_iff_exists _ _).1 hc
              exact has_of_get (hp.subP u x hx))
            refine attach hnp hue hus hrel hp.ok hu2 ?_
            intro x hx
            rcases hp.newv x u hx with h1 | ⟨h1, _⟩
            · have hxw : x = w := hok.mok.inj x w u h1 hwu
              subst hxw
              obtain ⟨y, hy, hy1, _⟩ := hp.succ rfl
              simp only at hy
              rw [hx] at hy; cases hy
              exact hu1 hy1
            · exact hu1 h1
          | false =>
            simp only
            have hnp2 : NoPtr v s2 := fun u' hu' => hnp u' (hrel.subP u' _ hu')
            exact RecPost.trans hrel (ih s2 hp.ok hnp2 hLt)

theorem recurse_spec {g : AL (List Nat)} : ∀ (fuel v : Nat) (s : HKState), StepOK g s → NoPtr v s →
    RecPost g v s (recurse fuel v s) := by
  intro fuel
  induction fuel with
  | zero => intro v s h _; exact RecPost.fail h
  | succ fuel ih =>
    intro v s hok hnp
    unfold recurse
    cases hv : alGet v s.preds with
    | none => exact RecPost.fail hok
    | some L =>
      simp only
      exact RecPost.trans (Rel.erasePreds s v)
        (recurseList_spec (recurse fuel) (fun w s h1 h2 => ih w s h1 h2) v L _ (hok.erasePreds v) hnp (hok.j3 v L hv))

/-- the `for v in unmatched: recurse(v)` loop -/
def dfsFold (bound : Nat) (vs : List Nat) (s : HKState) : HKState :=
  vs.foldl (fun st v => (recurse bound v st).2) s

theorem dfsFold_ok {g : AL (List Nat)} (bound : Nat) : ∀ (vs : List Nat) (s : HKState), StepOK g s →
    (∀ v ∈ vs, NoPtr v s) →
      StepOK g (dfsFold bound vs s) ∧ s.matching.length ≤ (dfsFold bound vs s).matching.length := by
  intro vs
  induction vs with
  | nil => intro s h _; exact ⟨h, le_refl _⟩
  | cons v vs ih =>
    intro s hok hnp
    have hp := recurse_spec bound v s hok (hnp v List.mem_cons_self)
    unfold dfsFold
    rw [List.foldl_cons]
    have := ih (recurse bound v s).2 hp.ok (fun v' hv' u hu => hnp v' (List.mem_cons_of_mem _ hv') u (hp.subP u _ hu))
    refine ⟨this.1, le_trans ?_ this.2⟩
    rw [hp.len]; omega

/-! ### one phase and the outer loop -/

def pred0 (g : AL (List Nat)) (M : AL Nat) : AL (Option Nat) :=
  (g.map fun uv => (uv.1, (none : Option Nat))).filter fun x => !(M.any fun vu => vu.2 == x.1)

def initLayers (g : AL (List Nat)) (M : AL Nat) : Layers :=
  { layer := (pred0 g M).map Prod.fst, preds := [], pred := pred0 g M, unmatched := [] }

def phaseLayers (g : AL (List Nat)) (M : AL Nat) (bound : Nat) : Layers :=
  layerLoop g M bound (initLayers g M)

def phaseState (ls : Layers) (M : AL Nat) : HKState := { preds := ls.preds, pred := ls.pred, matching := M }

theorem hkLoop_succ (g : AL (List Nat)) (bound fuel : Nat) (M : AL Nat) :
    hkLoop g bound (fuel + 1) M =
      if (phaseLayers g M bound).unmatched.isEmpty then M
      else hkLoop g bound fuel
        (dfsFold bound (phaseLayers g M bound).unmatched (phaseState (phaseLayers g M bound) M)).matching := rfl

theorem pred0_get {g : AL (List Nat)} {M : AL Nat} {u : Nat} {x : Option Nat}
    (h : alGet u (pred0 g M) = some x) : x = none ∧ Has g u ∧ ∀ v, (v, u) ∉ M := by
  have hm := mem_of_alGet h
  unfold pred0 at hm
  rw [List.mem_filter, List.mem_map] at hm
  obtain ⟨⟨uv, huv, heq⟩, hany⟩ := hm
  cases heq
  refine ⟨rfl, ?_, ?_⟩
  · rw [has_iff_mem_keys]; exact List.mem_map.2 ⟨uv, huv, rfl⟩
  · intro v hv
    simp only [Bool.not_eq_true', List.any_eq_false, beq_iff_eq] at hany
    exact hany (v, uv.1) hv rfl

theorem initLayers_ok (g : AL (List Nat)) (M : AL Nat) : LayOK g M (initLayers g M) := by
  refine ⟨?_, ?_, ?_, ?_⟩
  · intro u hu x hx
    exact (pred0_get hu).2.2 x (mem_of_alGet hx)
  · intro u w hu
    have := (pred0_get hu).1; cases this
  · intro v L h; simp [initLayers] at h
  · intro v hv; simp [initLayers] at hv

theorem phaseLayers_ok (g : AL (List Nat)) (M : AL Nat) (bound : Nat) : LayOK g M (phaseLayers g M bound) :=
  layerLoop_inv g M (LayOK g M) (fun _ h => layStep_ok h) bound _ (initLayers_ok g M)

theorem phaseState_ok {g : AL (List Nat)} {M : AL Nat} {ls : Layers} (hM : MOK g M) (h : LayOK g M ls) :
    StepOK g (phaseState ls M) ∧ ∀ v ∈ ls.unmatched, NoPtr v (phaseState ls M) := by
  refine ⟨⟨hM, h.j1, h.j2, h.j3⟩, ?_⟩
  intro v hv u hu
  have := h.j2 u v hu
  rw [h.um v hv] at this
  cases this

theorem phase_ok {g : AL (List Nat)} {M : AL Nat} (bound : Nat) (hM : MOK g M) :
    MOK g (dfsFold bound (phaseLayers g M bound).unmatched (phaseState (phaseLayers g M bound) M)).matching := by
  obtain ⟨h1, h2⟩ := phaseState_ok hM (phaseLayers_ok g M bound)
  exact (dfsFold_ok bound _ _ h1 h2).1.mok

theorem hkLoop_ok {g : AL (List Nat)} (bound : Nat) : ∀ (fuel : Nat) (M : AL Nat), MOK g M →
    MOK g (hkLoop g bound fuel M) := by
  intro fuel
  induction fuel with
  | zero => intro M h; exact h
  | succ fuel ih =>
    intro M h
    rw [hkLoop_succ]
    split
    · exact h
    · exact ih _ (phase_ok bound h)

theorem hkMatch_ok (g : AL (List Nat)) (hg : (keys g).Nodup) : MOK g (hkMatch g) :=
  hkLoop_ok _ _ _ (greedyInit_ok g hg)

/-! ### from the dict view to `ValidMatching` -/

/-- the edge list `(u, v)` of a graph dict -/
def edgesOf (g : AL (List Nat)) : List Edge := g.flatMap fun uv => uv.2.map fun v => (uv.1, v)

/-- a matching dict `v ↦ u` as a list of edges `(u, v)` -/
def asEdges (M : AL Nat) : List Edge := M.map Prod.swap

theorem mem_edgesOf_of_isEdge {g : AL (List Nat)} {u v : Nat} (h : IsEdge g u v) : (u, v) ∈ edgesOf g := by
  obtain ⟨vs, hvs, hv⟩ := h
  unfold edgesOf
  rw [List.mem_flatMap]
  exact ⟨(u, vs), mem_of_alGet hvs, List.mem_map.2 ⟨v, hv, rfl⟩⟩

theorem isEdge_of_mem_edgesOf {g : AL (List Nat)} (hg : (keys g).Nodup) {u v : Nat} (h : (u, v) ∈ edgesOf g) :
    IsEdge g u v := by
  unfold edgesOf at h
  rw [List.mem_flatMap] at h
  obtain ⟨uv, huv, hm⟩ := h
  obtain ⟨v', hv', heq⟩ := List.mem_map.1 hm
  cases heq
  exact ⟨uv.2, alGet_of_mem hg huv, hv'⟩

theorem MOK.valid {g : AL (List Nat)} {M : AL Nat} (h : MOK g M) : ValidMatching (edgesOf g) (asEdges M) := by
  unfold asEdges
  refine ⟨?_, ?_, ?_⟩
  · intro e he
    obtain ⟨vu, hvu, rfl⟩ := List.mem_map.1 he
    exact mem_edgesOf_of_isEdge (h.edge vu.1 vu.2 (alGet_of_mem h.nodupK hvu))
  · have : (M.map Prod.swap).map Prod.fst = M.map Prod.snd := by rw [List.map_map]; rfl
    rw [this]
    refine List.Nodup.map_on ?_ (List.Nodup.of_map _ h.nodupK)
    intro a ha b hb hab
    have h1 := alGet_of_mem h.nodupK (show (a.1, a.2) ∈ M from ha)
    have h2 := alGet_of_mem h.nodupK (show (b.1, b.2) ∈ M from hb)
    rw [← hab] at h2
    exact Prod.ext (h.inj _ _ _ h1 h2) hab
  · have : (M.map Prod.swap).map Prod.snd = keys M := by rw [List.map_map]; rfl
    rw [this]; exact h.nodupK

end Mir.HK
