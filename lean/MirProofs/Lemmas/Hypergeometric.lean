import Mathlib.Data.Nat.Choose.Vandermonde
import Mathlib.Data.Nat.Choose.Cast
import Mathlib.Data.Real.Basic
import Mathlib.Algebra.BigOperators.Intervals
import Mathlib.Algebra.BigOperators.Field
import Mathlib.Algebra.BigOperators.NatAntidiagonal
import Mathlib.Algebra.Order.BigOperators.Group.Finset
import Mathlib.Tactic.FieldSimp
import Mathlib.Tactic.Positivity

/-!
  The hypergeometric law `P(K = k) = C(a,k) · C(n−a, b−k) / C(n,b)` (cell count of a contingency table with row
  sum `a`, column sum `b`, total `n` under a random permutation): the weights are non-negative, vanish outside
  `max(0, a+b−n) ≤ k ≤ min(a,b)` and sum to 1 (Vandermonde's identity).  The weights are written out (no
  definition) so that both developments of the expected mutual information (`Lemmas/Entropy.lean`,
  `Lemmas/SegmentText.lean`) can rewrite with them.
-/
namespace Mir.Hypergeom
open Finset

/-- Vandermonde over a range: `Σ_{k=0}^{b} C(a,k) C(m, b−k) = C(a+m, b)`. -/
theorem vandermonde_range (a m b : ℕ) :
    ∑ k ∈ range (b + 1), a.choose k * m.choose (b - k) = (a + m).choose b := by
  rw [Nat.add_choose_eq, Finset.Nat.sum_antidiagonal_eq_sum_range_succ_mk]

/-- the weight vanishes above `a` -/
theorem weight_eq_zero_of_gt {n a b k : ℕ} (h : a < k) :
    (a.choose k : ℝ) * ((n - a).choose (b - k) : ℝ) / (n.choose b : ℝ) = 0 := by
  rw [Nat.choose_eq_zero_of_lt h]; simp

/-- the weight vanishes below `a + b − n` -/
theorem weight_eq_zero_of_lt {n a b k : ℕ} (ha : a ≤ n) (h : n + k < a + b) :
    (a.choose k : ℝ) * ((n - a).choose (b - k) : ℝ) / (n.choose b : ℝ) = 0 := by
  rw [Nat.choose_eq_zero_of_lt (show n - a < b - k by omega)]; simp

theorem weight_nonneg (n a b k : ℕ) :
    0 ≤ (a.choose k : ℝ) * ((n - a).choose (b - k) : ℝ) / (n.choose b : ℝ) := by positivity

/-- **the hypergeometric weights sum to 1** over `k = 0 … b` -/
theorem weight_sum_range {n a b : ℕ} (ha : a ≤ n) (hb : b ≤ n) :
    ∑ k ∈ range (b + 1), (a.choose k : ℝ) * ((n - a).choose (b - k) : ℝ) / (n.choose b : ℝ) = 1 := by
  have hv := vandermonde_range a (n - a) b
  rw [Nat.add_sub_cancel' ha] at hv
  have hpos : (0 : ℝ) < (n.choose b : ℝ) := by exact_mod_cast Nat.choose_pos hb
  rw [← Finset.sum_div, div_eq_one_iff_eq hpos.ne', ← hv]
  push_cast
  rfl

/-- a weighted sum over the loop's range `max(a+b−n, 1) … min(a,b)` of a summand that vanishes at `k = 0` is the
    sum over `k = 0 … b`: every `k` left out carries weight 0 or summand 0. -/
theorem weighted_sum_loop_eq_range (f : ℕ → ℝ) (hf : f 0 = 0) {n a b : ℕ} (ha : a ≤ n) :
    ∑ k ∈ Icc (max (a + b - n) 1) (min a b),
        f k * ((a.choose k : ℝ) * ((n - a).choose (b - k) : ℝ) / (n.choose b : ℝ)) =
      ∑ k ∈ range (b + 1), f k * ((a.choose k : ℝ) * ((n - a).choose (b - k) : ℝ) / (n.choose b : ℝ)) := by
  apply Finset.sum_subset
  · intro k hk
    rw [mem_Icc] at hk
    rw [mem_range]
    omega
  · intro k hk hnot
    rw [mem_range] at hk
    rw [mem_Icc] at hnot
    rcases Nat.eq_zero_or_pos k with h0 | hpos
    · subst h0; rw [hf, zero_mul]
    · by_cases h1 : a < k
      · rw [weight_eq_zero_of_gt h1, mul_zero]
      · rw [weight_eq_zero_of_lt ha (show n + k < a + b by omega), mul_zero]

/-- the same with `min(a,b)` as upper end of the full range -/
theorem weighted_sum_loop_eq_range_min (f : ℕ → ℝ) (hf : f 0 = 0) {n a b : ℕ} (ha : a ≤ n) :
    ∑ k ∈ Icc (max (a + b - n) 1) (min a b),
        f k * ((a.choose k : ℝ) * ((n - a).choose (b - k) : ℝ) / (n.choose b : ℝ)) =
      ∑ k ∈ range (min a b + 1), f k * ((a.choose k : ℝ) * ((n - a).choose (b - k) : ℝ) / (n.choose b : ℝ)) := by
  apply Finset.sum_subset
  · intro k hk
    rw [mem_Icc] at hk
    rw [mem_range]
    omega
  · intro k hk hnot
    rw [mem_range] at hk
    rw [mem_Icc] at hnot
    rcases Nat.eq_zero_or_pos k with h0 | hpos
    · subst h0; rw [hf, zero_mul]
    · rw [weight_eq_zero_of_lt ha (show n + k < a + b by omega), mul_zero]

/-- the weights over `0 … min(a,b)` already sum to 1 -/
theorem weight_sum_range_min {n a b : ℕ} (ha : a ≤ n) (hb : b ≤ n) :
    ∑ k ∈ range (min a b + 1), (a.choose k : ℝ) * ((n - a).choose (b - k) : ℝ) / (n.choose b : ℝ) = 1 := by
  rw [← weight_sum_range ha hb]
  apply Finset.sum_subset
  · intro k hk
    rw [mem_range] at hk ⊢
    omega
  · intro k hk hnot
    rw [mem_range] at hk hnot
    exact weight_eq_zero_of_gt (by omega)

/-- **the loop's range is the whole support except `k = 0`:** the `k = 0` weight plus the weights over
    `max(a+b−n, 1) … min(a,b)` sum to 1. -/
theorem weight_zero_add_sum_loop {n a b : ℕ} (ha : a ≤ n) (hb : b ≤ n) :
    (a.choose 0 : ℝ) * ((n - a).choose (b - 0) : ℝ) / (n.choose b : ℝ) +
      ∑ k ∈ Icc (max (a + b - n) 1) (min a b),
        (a.choose k : ℝ) * ((n - a).choose (b - k) : ℝ) / (n.choose b : ℝ) = 1 := by
  rw [← weight_sum_range ha hb, Finset.sum_range_succ']
  rw [add_comm]
  congr 1
  -- shift: Σ_{k<b} w(k+1) = Σ_{k ∈ Icc lo hi} w k
  rw [← Finset.sum_image (s := range b) (g := fun k => k + 1)
      (f := fun k => (a.choose k : ℝ) * ((n - a).choose (b - k) : ℝ) / (n.choose b : ℝ))
      (fun x _ y _ h => Nat.succ_injective h)]
  apply Finset.sum_subset
  · intro k hk
    rw [mem_Icc] at hk
    rw [mem_image]
    exact ⟨k - 1, by rw [mem_range]; omega, by omega⟩
  · intro k hk hnot
    rw [mem_image] at hk
    obtain ⟨j, hj, rfl⟩ := hk
    rw [mem_range] at hj
    rw [mem_Icc] at hnot
    by_cases h1 : a < j + 1
    · exact weight_eq_zero_of_gt h1
    · exact weight_eq_zero_of_lt ha (by omega)

/-- `E[f(K)]` for `K ~ Hypergeometric(n, a, b)`: the sum over `k = 0 … min(a,b)` (the weights vanish below
    `a + b − n`, `weight_eq_zero_of_lt`) of `f k · C(a,k) C(n−a, b−k) / C(n,b)`. -/
noncomputable def hypExpect (n a b : ℕ) (f : ℕ → ℝ) : ℝ :=
  ∑ k ∈ range (min a b + 1), f k * ((a.choose k : ℝ) * ((n - a).choose (b - k) : ℝ) / (n.choose b : ℝ))

/-- total mass 1: the expectation of a constant is the constant -/
theorem hypExpect_const {n a b : ℕ} (ha : a ≤ n) (hb : b ≤ n) (c : ℝ) : hypExpect n a b (fun _ => c) = c := by
  unfold hypExpect
  rw [← Finset.mul_sum, weight_sum_range_min ha hb, mul_one]

/-- the expectation is monotone (the weights are non-negative) -/
theorem hypExpect_mono {n a b : ℕ} {f g : ℕ → ℝ} (h : ∀ k, k ≤ min a b → f k ≤ g k) :
    hypExpect n a b f ≤ hypExpect n a b g := by
  unfold hypExpect
  apply Finset.sum_le_sum
  intro k hk
  rw [mem_range] at hk
  exact mul_le_mul_of_nonneg_right (h k (by omega)) (weight_nonneg n a b k)

/-- a sum over the loop's range of a summand vanishing at 0 is the expectation -/
theorem sum_loop_eq_hypExpect (f : ℕ → ℝ) (hf : f 0 = 0) {n a b : ℕ} (ha : a ≤ n) :
    ∑ k ∈ Icc (max (a + b - n) 1) (min a b),
        f k * ((a.choose k : ℝ) * ((n - a).choose (b - k) : ℝ) / (n.choose b : ℝ)) = hypExpect n a b f :=
  weighted_sum_loop_eq_range_min f hf ha

end Mir.Hypergeom
