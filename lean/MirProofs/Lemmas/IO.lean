import MirModel.IO
/-
  Lemmas about the loader model (`MirModel/IO.lean`): stripping, line splitting, `re.split`, the row loop.
  Core Lean only (no Mathlib needed).
-/
namespace Mir
namespace IO

instance instDecEqExcept {ε α : Type} [DecidableEq ε] [DecidableEq α] : DecidableEq (Except ε α) := fun a b =>
  match a, b with
  | .ok x, .ok y => if h : x = y then isTrue (by rw [h]) else isFalse (by intro h'; cases h'; exact h rfl)
  | .error x, .error y => if h : x = y then isTrue (by rw [h]) else isFalse (by intro h'; cases h'; exact h rfl)
  | .ok _, .error _ => isFalse (by intro h; cases h)
  | .error _, .ok _ => isFalse (by intro h; cases h)

/-! ### whitespace strings, stripping -/

/-- every character is Python whitespace -/
def AllSpace (s : List Char) : Prop := ∀ c ∈ s, isSpacePy c = true

/-- neither the first nor the last character is whitespace (vacuous for the empty string): `strip()` is the identity -/
def Tight (s : List Char) : Prop :=
  (∀ a ∈ s.head?, isSpacePy a = false) ∧ (∀ z ∈ s.getLast?, isSpacePy z = false)

theorem dropWhile_allSpace_append {pre : List Char} (h : AllSpace pre) (s : List Char) :
    (pre ++ s).dropWhile isSpacePy = s.dropWhile isSpacePy := by
  induction pre with
  | nil => rfl
  | cons c cs ih =>
    have hc : isSpacePy c = true := h c (by simp)
    have hcs : AllSpace cs := fun x hx => h x (by simp [hx])
    simp [hc, ih hcs]

theorem dropWhile_allSpace {s : List Char} (h : AllSpace s) : s.dropWhile isSpacePy = [] := by
  have := dropWhile_allSpace_append h []
  simpa using this

theorem dropWhile_head_nonspace {s : List Char} (h : ∀ a ∈ s.head?, isSpacePy a = false) :
    s.dropWhile isSpacePy = s := by
  cases s with
  | nil => rfl
  | cons a t =>
    have : isSpacePy a = false := h a (by simp)
    simp [this]

theorem lstripPy_pad {pre s : List Char} (hpre : AllSpace pre) (hs : ∀ a ∈ s.head?, isSpacePy a = false) :
    lstripPy (pre ++ s) = s := by
  unfold lstripPy
  rw [dropWhile_allSpace_append hpre, dropWhile_head_nonspace hs]

theorem rstripPy_pad {s post : List Char} (hpost : AllSpace post) (hs : ∀ z ∈ s.getLast?, isSpacePy z = false) :
    rstripPy (s ++ post) = s := by
  unfold rstripPy
  have h1 : AllSpace post.reverse := fun c hc => hpost c (by simpa using hc)
  have h2 : ∀ a ∈ s.reverse.head?, isSpacePy a = false := by
    intro a ha
    apply hs a
    simpa [List.head?_reverse] using ha
  rw [List.reverse_append, dropWhile_allSpace_append h1, dropWhile_head_nonspace h2, List.reverse_reverse]

/-- `(pre + body + post).strip() == body` when `pre`, `post` are whitespace and `body` is tight. -/
theorem stripPy_pad {pre body post : List Char} (hpre : AllSpace pre) (hpost : AllSpace post) (hb : Tight body) :
    stripPy (pre ++ body ++ post) = body := by
  unfold stripPy
  cases body with
  | nil =>
    have hall : AllSpace (pre ++ [] ++ post) := by
      intro c hc
      simp at hc
      rcases hc with hc | hc
      · exact hpre c hc
      · exact hpost c hc
    have : lstripPy (pre ++ [] ++ post) = [] := by
      unfold lstripPy; exact dropWhile_allSpace hall
    rw [this]; rfl
  | cons a t =>
    have h1 : lstripPy (pre ++ (a :: t) ++ post) = (a :: t) ++ post := by
      rw [List.append_assoc]
      apply lstripPy_pad hpre
      intro x hx
      apply hb.1 x
      simpa using hx
    rw [h1]
    exact rstripPy_pad hpost hb.2

/-! ### lines -/

theorem splitLines_line {l : List Char} (hl : '\n' ∉ l) (rest : List Char) :
    splitLines (l ++ '\n' :: rest) = (l ++ ['\n']) :: splitLines rest := by
  induction l with
  | nil => simp [splitLines]
  | cons c cs ih =>
    have hc : c ≠ '\n' := fun h => hl (by simp [h])
    have hcs : '\n' ∉ cs := fun h => hl (by simp [h])
    simp [splitLines, hc, ih hcs]

theorem splitLines_last {l : List Char} (hl : '\n' ∉ l) (hne : l ≠ []) : splitLines l = [l] := by
  induction l with
  | nil => exact absurd rfl hne
  | cons c cs ih =>
    have hc : c ≠ '\n' := fun h => hl (by simp [h])
    have hcs : '\n' ∉ cs := fun h => hl (by simp [h])
    cases cs with
    | nil => simp [splitLines, hc]
    | cons d ds =>
      have := ih hcs (by simp)
      simp [splitLines, hc] at this ⊢
      simp [this]

/-- a file made of `'\n'`-terminated lines is read back as exactly these lines -/
theorem splitLines_lines (ls : List (List Char)) (h : ∀ l ∈ ls, '\n' ∉ l) (rest : List Char) :
    splitLines (ls.flatMap (fun l => l ++ ['\n']) ++ rest) = ls.map (fun l => l ++ ['\n']) ++ splitLines rest := by
  induction ls with
  | nil => simp
  | cons l ls ih =>
    have hl : '\n' ∉ l := h l (by simp)
    have hls : ∀ l' ∈ ls, '\n' ∉ l' := fun l' hl' => h l' (by simp [hl'])
    simp only [List.flatMap_cons, List.map_cons, List.append_assoc, List.cons_append, List.nil_append]
    rw [splitLines_line hl, ih hls]

/-! ### `re.split` -/

/-- `s` is one complete delimiter instance -/
def IsSep : Delim → List Char → Prop
  | .ws, s => s ≠ [] ∧ AllSpace s
  | .lit p, s => s = p ∧ p ≠ []

/-- the scanner finds no delimiter match starting inside `f` when `f` is followed by a delimiter instance -/
def Clean : Delim → List Char → Prop
  | .ws, f => ∀ c ∈ f, isSpacePy c = false
  | .lit p, f => ∀ k, k < f.length → ¬ p <+: (f ++ p).drop k

/-- what may follow a delimiter instance (a greedy `\s+` must stop there) -/
def StartsClean : Delim → List Char → Prop
  | .ws, r => ∀ c ∈ r.head?, isSpacePy c = false
  | .lit _, _ => True

/-- no delimiter match anywhere in `f` -/
def NoDelim (d : Delim) (f : List Char) : Prop := breakDelim d f = none

theorem isSep_ne_nil {d : Delim} {s : List Char} (h : IsSep d s) : s ≠ [] := by
  cases d with
  | ws => exact h.1
  | lit p => rcases h with ⟨rfl, hp⟩; exact hp

theorem clean_tail {d : Delim} {c : Char} {f : List Char} (h : Clean d (c :: f)) : Clean d f := by
  cases d with
  | ws => exact fun x hx => h x (by simp [hx])
  | lit p =>
    intro k hk
    have := h (k + 1) (by simpa using hk)
    simpa using this

theorem matchAt_clean_cons {d : Delim} {c : Char} {f sep rest : List Char}
    (h : Clean d (c :: f)) (hs : IsSep d sep) : matchAt d (c :: (f ++ (sep ++ rest))) = none := by
  cases d with
  | ws =>
    have : isSpacePy c = false := h c (by simp)
    simp [matchAt, this]
  | lit p =>
    rcases hs with ⟨rfl, _⟩
    have h0 := h 0 (by simp)
    simp only [List.drop_zero] at h0
    simp only [matchAt]
    rw [if_neg]
    intro hp
    apply h0
    have hp' : sep <+: (c :: f ++ sep) ++ rest := by
      simpa [List.isPrefixOf_iff_prefix] using hp
    exact List.prefix_of_prefix_length_le hp' (List.prefix_append _ _) (by simp; omega)

theorem matchAt_sep {d : Delim} {sep rest : List Char} (hs : IsSep d sep) (hr : StartsClean d rest) :
    matchAt d (sep ++ rest) = some rest := by
  cases d with
  | ws =>
    rcases hs with ⟨hne, hall⟩
    cases sep with
    | nil => exact absurd rfl hne
    | cons s ss =>
      have h1 : isSpacePy s = true := hall s (by simp)
      have h2 : AllSpace ss := fun x hx => hall x (by simp [hx])
      simp only [List.cons_append, matchAt, h1, if_true]
      rw [dropWhile_allSpace_append h2, dropWhile_head_nonspace hr]
  | lit p =>
    rcases hs with ⟨rfl, _⟩
    simp [matchAt, List.isPrefixOf_iff_prefix]

/-- the leftmost match in `f ++ sep ++ rest` is `sep` -/
theorem breakDelim_field {d : Delim} {f sep rest : List Char}
    (hf : Clean d f) (hs : IsSep d sep) (hr : StartsClean d rest) :
    breakDelim d (f ++ (sep ++ rest)) = some (f, rest) := by
  induction f with
  | nil =>
    have hne := isSep_ne_nil hs
    cases sep with
    | nil => exact absurd rfl hne
    | cons s ss =>
      have := matchAt_sep hs hr
      simp only [List.nil_append, List.cons_append] at this ⊢
      simp only [breakDelim, this]
  | cons c cs ih =>
    have h1 := matchAt_clean_cons (rest := rest) hf hs
    have h2 := ih (clean_tail hf)
    simp only [List.cons_append, breakDelim, h1, h2]

theorem splitN_noDelim {d : Delim} {s : List Char} (h : NoDelim d s) (k : Nat) : splitN d k s = [s] := by
  cases k with
  | zero => rfl
  | succ k => unfold NoDelim at h; simp [splitN, h]

/-- a row as text: first field, then (separator, field) pairs -/
def joinRow (f : List Char) : List (List Char × List Char) → List Char
  | [] => f
  | (s, g) :: rest => f ++ (s ++ joinRow g rest)

/-- every field but the last is `Clean`, every separator is a delimiter instance, and what follows a separator
    does not extend its match.  The last field is arbitrary. -/
def RowOK (d : Delim) : List Char → List (List Char × List Char) → Prop
  | _, [] => True
  | f, (s, g) :: rest => Clean d f ∧ IsSep d s ∧ StartsClean d (joinRow g rest) ∧ RowOK d g rest

def lastField (f : List Char) : List (List Char × List Char) → List Char
  | [] => f
  | (_, g) :: rest => lastField g rest

theorem splitN_joinRow {d : Delim} (rest : List (List Char × List Char)) (f : List Char)
    (h : RowOK d f rest) : splitN d rest.length (joinRow f rest) = f :: rest.map Prod.snd := by
  induction rest generalizing f with
  | nil => rfl
  | cons p rest ih =>
    obtain ⟨s, g⟩ := p
    obtain ⟨hf, hs, hr, hrest⟩ := h
    simp only [List.length_cons, joinRow, splitN, breakDelim_field hf hs hr, List.map_cons]
    rw [ih g hrest]

/-- unlimited split (`k` large enough) when the last field contains no delimiter either -/
theorem splitN_joinRow_all {d : Delim} (rest : List (List Char × List Char)) (f : List Char)
    (h : RowOK d f rest) (hlast : NoDelim d (lastField f rest)) (k : Nat) (hk : rest.length ≤ k) :
    splitN d k (joinRow f rest) = f :: rest.map Prod.snd := by
  induction rest generalizing f k with
  | nil => exact splitN_noDelim hlast k
  | cons p rest ih =>
    obtain ⟨s, g⟩ := p
    obtain ⟨hf, hs, hr, hrest⟩ := h
    cases k with
    | zero => simp at hk
    | succ k =>
      simp only [joinRow, splitN, breakDelim_field hf hs hr, List.map_cons]
      rw [ih g hrest hlast k (by simpa using hk)]

theorem joinRow_length_ge {d : Delim} (rest : List (List Char × List Char)) (f : List Char)
    (h : RowOK d f rest) : rest.length ≤ (joinRow f rest).length := by
  induction rest generalizing f with
  | nil => simp
  | cons p rest ih =>
    obtain ⟨s, g⟩ := p
    obtain ⟨_, hs, _, hrest⟩ := h
    have := ih g hrest
    have hne := isSep_ne_nil hs
    have : 0 < s.length := List.length_pos_iff.mpr hne
    simp only [joinRow, List.length_cons, List.length_append]
    omega

/-- `re.split(d, row, n-1)` for `n ≥ 2` columns -/
theorem reSplit_joinRow {d : Delim} (rest : List (List Char × List Char)) (f : List Char)
    (h : RowOK d f rest) (hne : rest ≠ []) :
    reSplit d (((rest.length + 1 : Nat) : Int) - 1) (joinRow f rest) = f :: rest.map Prod.snd := by
  have hpos : 0 < rest.length := List.length_pos_iff.mpr hne
  have h1 : (((rest.length + 1 : Nat) : Int) - 1) = (rest.length : Int) := by omega
  rw [h1]
  unfold reSplit
  rw [if_neg (by omega), if_neg (by omega)]
  simpa using splitN_joinRow rest f h

/-- `re.split(d, row, 0)` (no limit): all fields, provided the last one holds no delimiter -/
theorem reSplit_joinRow_all {d : Delim} (rest : List (List Char × List Char)) (f : List Char)
    (h : RowOK d f rest) (hlast : NoDelim d (lastField f rest)) :
    reSplit d 0 (joinRow f rest) = f :: rest.map Prod.snd := by
  unfold reSplit
  simp only [Int.lt_irrefl, if_false, if_true]
  exact splitN_joinRow_all rest f h hlast _ (joinRow_length_ge rest f h)

/-! convenient sufficient conditions -/

theorem noDelim_ws {f : List Char} (h : ∀ c ∈ f, isSpacePy c = false) : NoDelim .ws f := by
  unfold NoDelim
  induction f with
  | nil => rfl
  | cons c cs ih =>
    have hc : isSpacePy c = false := h c (by simp)
    have := ih (fun x hx => h x (by simp [hx]))
    simp [breakDelim, matchAt, hc, this]

theorem clean_lit_char {c : Char} {f : List Char} (h : c ∉ f) : Clean (.lit [c]) f := by
  intro k hk hp
  have hd : (f ++ [c]).drop k = f.drop k ++ [c] := by
    rw [List.drop_append_of_le_length (by omega)]
  rw [hd] at hp
  have hlt : k < f.length := hk
  cases hfd : f.drop k with
  | nil =>
    have : f.length ≤ k := by simpa using hfd
    omega
  | cons x xs =>
    rw [hfd] at hp
    have hx : x ∈ f := List.mem_of_mem_drop (by rw [hfd]; simp)
    have : c = x := by
      rcases hp with ⟨t, ht⟩
      simp at ht
      exact ht.1
    exact h (this ▸ hx)

theorem noDelim_lit_char {c : Char} {f : List Char} (h : c ∉ f) : NoDelim (.lit [c]) f := by
  unfold NoDelim
  induction f with
  | nil => rfl
  | cons x xs ih =>
    have hx : c ≠ x := fun e => h (by simp [e])
    have := ih (fun hm => h (by simp [hm]))
    simp [breakDelim, matchAt, List.isPrefixOf, hx, this]

theorem startsClean_ws_of_head {g : List Char} {rest : List (List Char × List Char)}
    (hne : g ≠ []) (hh : ∀ a ∈ g.head?, isSpacePy a = false) : StartsClean .ws (joinRow g rest) := by
  cases g with
  | nil => exact absurd rfl hne
  | cons a t =>
    cases rest with
    | nil => simpa [StartsClean, joinRow] using hh
    | cons p rest => obtain ⟨s, g'⟩ := p; simpa [StartsClean, joinRow] using hh

/-! ### rows of a delimited file -/

/-- a written field: its text and the value it denotes -/
structure Fld (α : Type) where
  text : List Char
  val : α

/-- column `i`'s converter maps field `i`'s text to its value -/
def ConvOK {α : Type} : List (Conv α) → List (Fld α) → Prop
  | [], [] => True
  | c :: cs, f :: fs => c f.text = some f.val ∧ ConvOK cs fs
  | _, _ => False

theorem convOK_length {α : Type} : ∀ {convs : List (Conv α)} {flds : List (Fld α)},
    ConvOK convs flds → flds.length = convs.length
  | [], [], _ => rfl
  | _ :: _, _ :: _, h => by simp [convOK_length h.2]
  | [], _ :: _, h => h.elim
  | _ :: _, [], h => h.elim

theorem convertRow_ok {α : Type} (row : Nat) : ∀ (col : Nat) {convs : List (Conv α)} {flds : List (Fld α)},
    ConvOK convs flds → convertRow row col convs (flds.map Fld.text) = .ok (flds.map Fld.val)
  | _, [], [], _ => rfl
  | col, c :: cs, f :: fs, h => by
    simp only [List.map_cons, convertRow, h.1, convertRow_ok row (col + 1) h.2]
  | _, [], _ :: _, h => h.elim
  | _, _ :: _, [], h => h.elim

/-- converters succeed on the first `j` fields and fail on field `j` -/
theorem convertRow_fail {α : Type} (row : Nat) : ∀ (col : Nat) {convs : List (Conv α)} {good : List (Fld α)}
    (cbad : Conv α) (bad : List Char) (cs' : List (Conv α)) (more : List (List Char)),
    ConvOK convs good → cbad bad = none →
    convertRow row col (convs ++ cbad :: cs') (good.map Fld.text ++ bad :: more) = .error (.convert row (col + good.length))
  | _, [], [], cbad, bad, cs', more, _, hb => by simp [convertRow, hb]
  | col, c :: cs, f :: fs, cbad, bad, cs', more, h, hb => by
    have ih := convertRow_fail row (col + 1) cbad bad cs' more h.2 hb
    simp only [List.map_cons, List.cons_append, convertRow, h.1, ih, List.length_cons]
    congr 2; omega
  | _, [], _ :: _, _, _, _, _, h, _ => h.elim
  | _, _ :: _, [], _, _, _, _, h, _ => h.elim

/-- a data row as written: optional blank padding, the fields and their separators -/
structure RowSpec (α : Type) where
  pre : List Char
  post : List Char
  first : Fld α
  rest : List (List Char × Fld α)

namespace RowSpec
variable {α : Type}
def textRest (r : RowSpec α) : List (List Char × List Char) := r.rest.map fun p => (p.1, p.2.text)
def body (r : RowSpec α) : List Char := joinRow r.first.text r.textRest
/-- the line without its terminator -/
def line (r : RowSpec α) : List Char := r.pre ++ r.body ++ r.post
def flds (r : RowSpec α) : List (Fld α) := r.first :: r.rest.map Prod.snd
def vals (r : RowSpec α) : List α := r.flds.map Fld.val

/-- well-formed for `load_delimited(converters = convs, delimiter = d)` -/
structure WF (convs : List (Conv α)) (d : Delim) (r : RowSpec α) : Prop where
  pre_ws : AllSpace r.pre
  post_ws : AllSpace r.post
  tight : Tight r.body
  row_ok : RowOK d r.first.text r.textRest
  /-- one column: `maxsplit = 0` means no limit, so the only field must hold no delimiter -/
  single : r.rest = [] → NoDelim d r.first.text
  conv_ok : ConvOK convs r.flds

theorem textRest_snd (r : RowSpec α) : r.first.text :: r.textRest.map Prod.snd = r.flds.map Fld.text := by
  simp [textRest, flds, List.map_map, Function.comp_def]

theorem reSplit_body {convs : List (Conv α)} {d : Delim} {r : RowSpec α} (h : r.WF convs d) :
    reSplit d ((convs.length : Int) - 1) r.body = r.flds.map Fld.text := by
  have hlen : convs.length = r.rest.length + 1 := by
    have := convOK_length h.conv_ok
    simp [flds] at this
    omega
  rw [← textRest_snd]
  by_cases hr : r.rest = []
  · have hn := h.single hr
    have : r.textRest = [] := by simp [textRest, hr]
    simp only [body, this, joinRow, List.map_nil]
    have hz : ((convs.length : Int) - 1) = 0 := by rw [hlen, hr]; simp
    rw [hz]
    unfold reSplit
    simp only [Int.lt_irrefl, if_false, if_true]
    exact splitN_noDelim hn _
  · have hne : r.textRest ≠ [] := by simpa [textRest] using hr
    have hl : r.textRest.length = r.rest.length := by simp [textRest]
    have := reSplit_joinRow (d := d) r.textRest r.first.text h.row_ok hne
    rw [hl] at this
    rw [hlen]
    exact this

/-- `load_delimited`'s treatment of one well-formed line (whatever blank / newline follows it) -/
theorem loadLine_ok {convs : List (Conv α)} {d : Delim} {r : RowSpec α} (h : r.WF convs d)
    (eol : List Char) (heol : AllSpace eol) (row : Nat) :
    loadLine convs d row (r.line ++ eol) = .ok r.vals := by
  have hstrip : stripPy (r.line ++ eol) = r.body := by
    have hpost : AllSpace (r.post ++ eol) := by
      intro c hc
      rcases List.mem_append.mp hc with hc | hc
      · exact h.post_ws c hc
      · exact heol c hc
    have := stripPy_pad h.pre_ws hpost h.tight
    simpa [line, List.append_assoc] using this
  unfold loadLine
  simp only [hstrip, reSplit_body h]
  have hlen := convOK_length h.conv_ok
  simp only [List.length_map, hlen, ne_eq, not_true_eq_false, if_false]
  exact convertRow_ok row 0 h.conv_ok

end RowSpec

/-- one line of a file: a comment or a data row -/
inductive Item (α : Type) where
  | comment (text : List Char)
  | row (r : RowSpec α)

namespace Item
variable {α : Type}
/-- the line without its terminator -/
def line : Item α → List Char
  | .comment t => t
  | .row r => r.line
def vals? : Item α → Option (List α)
  | .comment _ => none
  | .row r => some r.vals

def WF (convs : List (Conv α)) (d : Delim) (comment : Option (List Char)) : Item α → Prop
  | .comment t => isComment comment (t ++ ['\n']) = true ∧ '\n' ∉ t
  | .row r => r.WF convs d ∧ isComment comment (r.line ++ ['\n']) = false ∧ '\n' ∉ r.line
end Item

/-- the text of a file: every line terminated by `'\n'` -/
def renderFile {α : Type} (items : List (Item α)) : List Char := items.flatMap fun it => it.line ++ ['\n']
/-- the lines a reader gets -/
def fileLines {α : Type} (items : List (Item α)) : List (List Char) := items.map fun it => it.line ++ ['\n']
/-- the rows of values the file encodes, in file order -/
def dataRows {α : Type} (items : List (Item α)) : List (List α) := items.filterMap Item.vals?

theorem allSpace_nl : AllSpace ['\n'] := by
  intro c hc
  simp at hc
  subst hc
  decide

theorem splitLines_renderFile {α : Type} {convs : List (Conv α)} {d : Delim} {c : Option (List Char)}
    (items : List (Item α)) (h : ∀ it ∈ items, it.WF convs d c) (rest : List Char) :
    splitLines (renderFile items ++ rest) = fileLines items ++ splitLines rest := by
  have h1 : ∀ l ∈ items.map Item.line, '\n' ∉ l := by
    intro l hl
    rcases List.mem_map.mp hl with ⟨it, hit, rfl⟩
    have := h it hit
    cases it with
    | comment t => exact this.2
    | row r => exact this.2.2
  have := splitLines_lines (items.map Item.line) h1 rest
  simpa [renderFile, fileLines, List.flatMap_map, List.map_map, Function.comp_def] using this

/-- the loop of `load_delimited` passes over well-formed lines, collecting their rows in order; whatever
    happens on the rest of the file happens with the right row number -/
theorem loadRows_items {α : Type} {convs : List (Conv α)} {d : Delim} {c : Option (List Char)}
    (items : List (Item α)) (h : ∀ it ∈ items, it.WF convs d c) (r0 : Nat) (tail : List (List Char)) :
    loadRows convs d c r0 (fileLines items ++ tail) =
      match loadRows convs d c (r0 + items.length) tail with
      | .ok rs => .ok (dataRows items ++ rs)
      | .error e => .error e := by
  induction items generalizing r0 with
  | nil =>
    simp only [fileLines, dataRows, List.map_nil, List.nil_append, List.filterMap_nil, List.length_nil,
      Nat.add_zero]
    cases loadRows convs d c r0 tail <;> rfl
  | cons it items ih =>
    have hit := h it (by simp)
    have hrest : ∀ it' ∈ items, it'.WF convs d c := fun it' h' => h it' (by simp [h'])
    have ih' := ih hrest (r0 + 1)
    have hr : r0 + 1 + items.length = r0 + (it :: items).length := by simp; omega
    rw [hr] at ih'
    cases it with
    | comment t =>
      have hc : isComment c (t ++ ['\n']) = true := hit.1
      simp only [fileLines, List.map_cons, List.cons_append, loadRows, Item.line, hc, if_true] at ih' ⊢
      rw [ih']
      rfl
    | row r =>
      have hc : isComment c (r.line ++ ['\n']) = false := hit.2.1
      have hl := RowSpec.loadLine_ok hit.1 ['\n'] allSpace_nl r0
      simp only [fileLines, List.map_cons, List.cons_append, loadRows, Item.line, hc, hl] at ih' ⊢
      rw [ih']
      cases loadRows convs d c (r0 + (Item.row r :: items).length) tail with
      | ok rs => rfl
      | error e => rfl

theorem loadRows_bad_columns {α : Type} (convs : List (Conv α)) (d : Delim) (c : Option (List Char))
    (row : Nat) (l : List Char) (more : List (List Char)) (hc : isComment c l = false)
    (hk : (reSplit d ((convs.length : Int) - 1) (stripPy l)).length ≠ convs.length) :
    loadRows convs d c row (l :: more) =
      .error (.columns row convs.length (reSplit d ((convs.length : Int) - 1) (stripPy l)).length) := by
  simp [loadRows, hc, loadLine, hk]

theorem loadRows_bad_convert {α : Type} (convs : List (Conv α)) (d : Delim) (c : Option (List Char))
    (row : Nat) (l : List Char) (more : List (List Char)) (hc : isComment c l = false)
    (good : List (Fld α)) (cs1 : List (Conv α)) (cbad : Conv α) (cs2 : List (Conv α))
    (bad : List Char) (extra : List (List Char))
    (hconvs : convs = cs1 ++ cbad :: cs2) (hgood : ConvOK cs1 good) (hbad : cbad bad = none)
    (hsplit : reSplit d ((convs.length : Int) - 1) (stripPy l) = good.map Fld.text ++ bad :: extra)
    (hlen : extra.length = cs2.length) :
    loadRows convs d c row (l :: more) = .error (.convert row good.length) := by
  have hl : (good.map Fld.text ++ bad :: extra).length = convs.length := by
    have := convOK_length hgood
    simp [hconvs, hlen, this]
  have hcr := convertRow_fail row 0 cbad bad cs2 extra hgood hbad
  simp only [Nat.zero_add] at hcr
  simp only [loadRows, hc, loadLine, hsplit, hl, ne_eq, not_true_eq_false, if_false]
  rw [hconvs, hcr]
  simp

/-- rows returned by the loop have one value per converter -/
theorem convertRow_length {α : Type} (row : Nat) : ∀ (col : Nat) (convs : List (Conv α)) (data : List (List Char))
    (xs : List α), data.length = convs.length → convertRow row col convs data = .ok xs → xs.length = convs.length
  | _, [], _, xs, _, h => by simp [convertRow] at h; subst h; rfl
  | _, _ :: _, [], _, hl, _ => by simp at hl
  | col, c :: cs, v :: vs, xs, hl, h => by
    simp only [convertRow] at h
    cases hc : c v with
    | none => simp [hc] at h
    | some x =>
      simp only [hc] at h
      cases hr : convertRow row (col + 1) cs vs with
      | error e => simp [hr] at h
      | ok ys =>
        simp only [hr, Except.ok.injEq] at h
        have := convertRow_length row (col + 1) cs vs ys (by simpa using hl) hr
        simp [← h, this]

theorem loadRows_row_length {α : Type} (convs : List (Conv α)) (d : Delim) (c : Option (List Char)) :
    ∀ (lines : List (List Char)) (row : Nat) (rows : List (List α)),
      loadRows convs d c row lines = .ok rows → ∀ r ∈ rows, r.length = convs.length
  | [], _, rows, h => by simp [loadRows] at h; subst h; simp
  | l :: ls, row, rows, h => by
    simp only [loadRows] at h
    cases hc : isComment c l with
    | true =>
      simp only [hc, if_true] at h
      exact loadRows_row_length convs d c ls (row + 1) rows h
    | false =>
      simp only [hc, Bool.false_eq_true, if_false] at h
      cases hl : loadLine convs d row l with
      | error e => simp [hl] at h
      | ok vals =>
        simp only [hl] at h
        cases hr : loadRows convs d c (row + 1) ls with
        | error e => simp [hr] at h
        | ok rest =>
          simp only [hr, Except.ok.injEq] at h
          have ih := loadRows_row_length convs d c ls (row + 1) rest hr
          have hv : vals.length = convs.length := by
            unfold loadLine at hl
            simp only at hl
            split at hl
            · cases hl
            · rename_i hne
              exact convertRow_length row 0 convs _ vals (by simpa using hne) hl
          intro r hr'
          rw [← h] at hr'
          rcases List.mem_cons.mp hr' with rfl | hr'
          · exact hv
          · exact ih r hr'

/-! ### ragged time series -/

theorem mapConv_ok {α : Type} (vconv : Conv α) : ∀ (flds : List (Fld α)),
    (∀ f ∈ flds, vconv f.text = some f.val) → mapConv vconv (flds.map Fld.text) = some (flds.map Fld.val)
  | [], _ => rfl
  | f :: fs, h => by
    have h1 := h f (by simp)
    have h2 := mapConv_ok vconv fs (fun g hg => h g (by simp [hg]))
    simp [mapConv, h1, h2]

/-- a row of a ragged time series as written: time stamp, then any number of values -/
structure RaggedRow (α : Type) where
  pre : List Char
  post : List Char
  time : Fld α
  values : List (List Char × Fld α)

namespace RaggedRow
variable {α : Type}
def textRest (r : RaggedRow α) : List (List Char × List Char) := r.values.map fun p => (p.1, p.2.text)
def body (r : RaggedRow α) : List Char := joinRow r.time.text r.textRest
def line (r : RaggedRow α) : List Char := r.pre ++ r.body ++ r.post
/-- what the loader must produce for this row: the time and the array of values (possibly empty) -/
def out (r : RaggedRow α) : α × List α := (r.time.val, (r.values.map Prod.snd).map Fld.val)

structure WF (tconv vconv : Conv α) (d : Delim) (r : RaggedRow α) : Prop where
  pre_ws : AllSpace r.pre
  post_ws : AllSpace r.post
  tight : Tight r.body
  row_ok : RowOK d r.time.text r.textRest
  last_clean : NoDelim d (lastField r.time.text r.textRest)
  time_ok : tconv r.time.text = some r.time.val
  values_ok : ∀ f ∈ r.values.map Prod.snd, vconv f.text = some f.val

theorem loadRaggedLine_ok {tconv vconv : Conv α} {d : Delim} {r : RaggedRow α} (h : r.WF tconv vconv d)
    (eol : List Char) (heol : AllSpace eol) (row : Nat) :
    loadRaggedLine tconv vconv d row (r.line ++ eol) = .ok r.out := by
  have hstrip : stripPy (r.line ++ eol) = r.body := by
    have hpost : AllSpace (r.post ++ eol) := by
      intro c hc
      rcases List.mem_append.mp hc with hc | hc
      · exact h.post_ws c hc
      · exact heol c hc
    have := stripPy_pad h.pre_ws hpost h.tight
    simpa [line, List.append_assoc] using this
  have hsplit := reSplit_joinRow_all (d := d) r.textRest r.time.text h.row_ok h.last_clean
  have hsnd : r.textRest.map Prod.snd = (r.values.map Prod.snd).map Fld.text := by
    simp [textRest, List.map_map, Function.comp_def]
  have hm := mapConv_ok vconv (r.values.map Prod.snd) h.values_ok
  unfold loadRaggedLine
  rw [hstrip]
  show (match reSplit d 0 (joinRow r.time.text r.textRest) with
        | [] => _ | t :: vs => _) = _
  rw [hsplit, hsnd]
  simp only [h.time_ok, hm]
  rfl

end RaggedRow

inductive RItem (α : Type) where
  | comment (text : List Char)
  | row (r : RaggedRow α)

namespace RItem
variable {α : Type}
def line : RItem α → List Char
  | .comment t => t
  | .row r => r.line
def out? : RItem α → Option (α × List α)
  | .comment _ => none
  | .row r => some r.out
def WF (tconv vconv : Conv α) (d : Delim) (comment : Option (List Char)) : RItem α → Prop
  | .comment t => isComment comment (t ++ ['\n']) = true ∧ '\n' ∉ t
  | .row r => r.WF tconv vconv d ∧ isComment comment (r.line ++ ['\n']) = false ∧ '\n' ∉ r.line
end RItem

def renderRagged {α : Type} (items : List (RItem α)) : List Char := items.flatMap fun it => it.line ++ ['\n']
def raggedLines {α : Type} (items : List (RItem α)) : List (List Char) := items.map fun it => it.line ++ ['\n']
def raggedData {α : Type} (items : List (RItem α)) : List (α × List α) := items.filterMap RItem.out?

theorem splitLines_renderRagged {α : Type} {tconv vconv : Conv α} {d : Delim} {c : Option (List Char)}
    (items : List (RItem α)) (h : ∀ it ∈ items, it.WF tconv vconv d c) (rest : List Char) :
    splitLines (renderRagged items ++ rest) = raggedLines items ++ splitLines rest := by
  have h1 : ∀ l ∈ items.map RItem.line, '\n' ∉ l := by
    intro l hl
    rcases List.mem_map.mp hl with ⟨it, hit, rfl⟩
    have := h it hit
    cases it with
    | comment t => exact this.2
    | row r => exact this.2.2
  have := splitLines_lines (items.map RItem.line) h1 rest
  simpa [renderRagged, raggedLines, List.flatMap_map, List.map_map, Function.comp_def] using this

theorem loadRaggedRows_items {α : Type} {tconv vconv : Conv α} {d : Delim} {c : Option (List Char)}
    (items : List (RItem α)) (h : ∀ it ∈ items, it.WF tconv vconv d c) (r0 : Nat) (tail : List (List Char)) :
    loadRaggedRows tconv vconv d c r0 (raggedLines items ++ tail) =
      match loadRaggedRows tconv vconv d c (r0 + items.length) tail with
      | .ok rs => .ok (raggedData items ++ rs)
      | .error e => .error e := by
  induction items generalizing r0 with
  | nil =>
    simp only [raggedLines, raggedData, List.map_nil, List.nil_append, List.filterMap_nil, List.length_nil,
      Nat.add_zero]
    cases loadRaggedRows tconv vconv d c r0 tail <;> rfl
  | cons it items ih =>
    have hit := h it (by simp)
    have hrest : ∀ it' ∈ items, it'.WF tconv vconv d c := fun it' h' => h it' (by simp [h'])
    have ih' := ih hrest (r0 + 1)
    have hr : r0 + 1 + items.length = r0 + (it :: items).length := by simp; omega
    rw [hr] at ih'
    cases it with
    | comment t =>
      have hc : isComment c (t ++ ['\n']) = true := hit.1
      simp only [raggedLines, List.map_cons, List.cons_append, loadRaggedRows, RItem.line, hc, if_true] at ih' ⊢
      rw [ih']
      rfl
    | row r =>
      have hc : isComment c (r.line ++ ['\n']) = false := hit.2.1
      have hl := RaggedRow.loadRaggedLine_ok hit.1 ['\n'] allSpace_nl r0
      simp only [raggedLines, List.map_cons, List.cons_append, loadRaggedRows, RItem.line, hc, hl] at ih' ⊢
      rw [ih']
      cases loadRaggedRows tconv vconv d c (r0 + (RItem.row r :: items).length) tail with
      | ok rs => rfl
      | error e => rfl

/-- add one to the row number carried by an error -/
def LoadErr.shiftRow : LoadErr → LoadErr
  | .columns r a b => .columns (r + 1) a b
  | .convert r c => .convert (r + 1) c
  | e => e

theorem loadRaggedLine_shift {α : Type} (tconv vconv : Conv α) (d : Delim) (row : Nat) (l : List Char) :
    loadRaggedLine tconv vconv d (row + 1) l =
      match loadRaggedLine tconv vconv d row l with
      | .ok x => .ok x
      | .error e => .error e.shiftRow := by
  unfold loadRaggedLine
  cases reSplit d 0 (stripPy l) with
  | nil => rfl
  | cons t vs =>
    dsimp only
    cases tconv t with
    | none => rfl
    | some tv =>
      dsimp only
      cases mapConv vconv vs <;> rfl

theorem loadRaggedRows_shift {α : Type} (tconv vconv : Conv α) (d : Delim) (c : Option (List Char)) :
    ∀ (lines : List (List Char)) (row : Nat),
    loadRaggedRows tconv vconv d c (row + 1) lines =
      match loadRaggedRows tconv vconv d c row lines with
      | .ok x => .ok x
      | .error e => .error e.shiftRow
  | [], _ => rfl
  | l :: ls, row => by
    have ih := loadRaggedRows_shift tconv vconv d c ls (row + 1)
    simp only [loadRaggedRows]
    cases hc : isComment c l with
    | true => simpa using ih
    | false =>
      simp only [Bool.false_eq_true, if_false]
      rw [loadRaggedLine_shift, ih]
      cases loadRaggedLine tconv vconv d row l with
      | error e => rfl
      | ok x =>
        cases loadRaggedRows tconv vconv d c (row + 1) ls with
        | error e => rfl
        | ok rest => rfl

/-! ### pattern files -/

theorem patRun_append {α : Type} (conv : Conv α) : ∀ (a b : List (List Char)) (st : PatState α),
    patRun conv st (a ++ b) =
      match patRun conv st a with
      | .ok st' => patRun conv st' b
      | .error e => .error e
  | [], _, _ => rfl
  | l :: ls, b, st => by
    simp only [List.cons_append, patRun]
    cases patStep conv st l with
    | error e => rfl
    | ok st' => exact patRun_append conv ls b st'

/-- `l` is a data line of a pattern file denoting the point `xy` -/
def PairLine {α : Type} (conv : Conv α) (l : List Char) (xy : α × α) : Prop :=
  hasSub patKw l = false ∧ hasSub occKw l = false ∧
    ∃ ta tb more, splitComma l = ta :: tb :: more ∧ conv ta = some xy.1 ∧ conv tb = some xy.2

theorem patStep_pair {α : Type} {conv : Conv α} {l : List Char} {xy : α × α} (h : PairLine conv l xy)
    (st : PatState α) : patStep conv st l = .ok ⟨st.list, st.pattern, st.occ ++ [xy]⟩ := by
  obtain ⟨h1, h2, ta, tb, more, hs, ha, hb⟩ := h
  simp [patStep, h1, h2, hs, ha, hb]

theorem patRun_pairs {α : Type} {conv : Conv α} : ∀ (rows : List (List Char × (α × α))) (st : PatState α),
    (∀ p ∈ rows, PairLine conv p.1 p.2) →
    patRun conv st (rows.map Prod.fst) = .ok ⟨st.list, st.pattern, st.occ ++ rows.map Prod.snd⟩
  | [], st, _ => by simp [patRun]
  | p :: ps, st, h => by
    have h1 := patStep_pair (h p (by simp)) st
    have ih := patRun_pairs ps ⟨st.list, st.pattern, st.occ ++ [p.2]⟩ (fun q hq => h q (by simp [hq]))
    simp only [List.map_cons, patRun, h1, ih, List.append_assoc, List.singleton_append]

/-- an occurrence as written: its header line and its data lines (all lines with their terminator) -/
structure OccSpec (α : Type) where
  header : List Char
  rows : List (List Char × (α × α))

namespace OccSpec
variable {α : Type}
def lines (o : OccSpec α) : List (List Char) := o.header :: o.rows.map Prod.fst
def pairs (o : OccSpec α) : List (α × α) := o.rows.map Prod.snd
structure WF (conv : Conv α) (o : OccSpec α) : Prop where
  not_pat : hasSub patKw o.header = false
  is_occ : hasSub occKw o.header = true
  nonempty : o.rows ≠ []
  rows_ok : ∀ p ∈ o.rows, PairLine conv p.1 p.2
end OccSpec

theorem flushOcc_nonempty {α : Type} (l : List (List (List (α × α)))) (p : List (List (α × α)))
    (o : List (α × α)) (ho : o ≠ []) : (PatState.mk l p o).flushOcc = p ++ [o] := by
  cases o with
  | nil => exact absurd rfl ho
  | cons a t => rfl

theorem patRun_occ {α : Type} {conv : Conv α} {o : OccSpec α} (h : o.WF conv) (st : PatState α) :
    patRun conv st o.lines = .ok ⟨st.list, st.flushOcc, o.pairs⟩ := by
  have hstep : patStep conv st o.header = .ok ⟨st.list, st.flushOcc, []⟩ := by
    simp [patStep, h.not_pat, h.is_occ]
  have := patRun_pairs o.rows ⟨st.list, st.flushOcc, []⟩ h.rows_ok
  simp only [OccSpec.lines, patRun, hstep, this, List.nil_append, OccSpec.pairs]

theorem patRun_occs {α : Type} {conv : Conv α} : ∀ (os : List (OccSpec α)) (st : PatState α),
    (∀ o ∈ os, o.WF conv) →
    ∃ st', patRun conv st (os.flatMap OccSpec.lines) = .ok st' ∧ st'.list = st.list ∧
      st'.flushOcc = st.flushOcc ++ os.map OccSpec.pairs
  | [], st, _ => ⟨st, by simp [patRun]⟩
  | o :: os, st, h => by
    have ho := h o (by simp)
    have hne : o.pairs ≠ [] := by
      simpa [OccSpec.pairs] using ho.nonempty
    obtain ⟨st', hrun, hl, hf⟩ := patRun_occs os ⟨st.list, st.flushOcc, o.pairs⟩ (fun q hq => h q (by simp [hq]))
    refine ⟨st', ?_, hl, ?_⟩
    · simp only [List.flatMap_cons]
      rw [patRun_append, patRun_occ ho]
      exact hrun
    · rw [hf, flushOcc_nonempty _ _ _ hne]
      simp

/-- a pattern as written: its header line and its occurrences -/
structure PatSpec (α : Type) where
  header : List Char
  occs : List (OccSpec α)

namespace PatSpec
variable {α : Type}
def lines (p : PatSpec α) : List (List Char) := p.header :: p.occs.flatMap OccSpec.lines
def value (p : PatSpec α) : List (List (α × α)) := p.occs.map OccSpec.pairs
structure WF (conv : Conv α) (p : PatSpec α) : Prop where
  is_pat : hasSub patKw p.header = true
  nonempty : p.occs ≠ []
  occs_ok : ∀ o ∈ p.occs, o.WF conv
end PatSpec

theorem close_of_flush {α : Type} (st : PatState α) (h : st.flushOcc ≠ []) :
    st.close = st.list ++ [st.flushOcc] := by
  unfold PatState.close
  cases hf : st.flushOcc with
  | nil => exact absurd hf h
  | cons a t => rfl

theorem patRun_pattern {α : Type} {conv : Conv α} {p : PatSpec α} (h : p.WF conv) (st : PatState α) :
    ∃ st', patRun conv st p.lines = .ok st' ∧ st'.close = st.close ++ [p.value] := by
  have hstep : patStep conv st p.header = .ok ⟨st.close, [], []⟩ := by
    simp [patStep, h.is_pat]
  obtain ⟨st', hrun, hl, hf⟩ := patRun_occs p.occs ⟨st.close, [], []⟩ h.occs_ok
  refine ⟨st', ?_, ?_⟩
  · simp only [PatSpec.lines, patRun, hstep]
    exact hrun
  · have hf' : st'.flushOcc = p.value := by
      rw [hf]; simp [PatState.flushOcc, PatSpec.value]
    have hne : st'.flushOcc ≠ [] := by
      rw [hf']; simpa [PatSpec.value] using h.nonempty
    rw [close_of_flush st' hne, hl, hf']

theorem patRun_patterns {α : Type} {conv : Conv α} : ∀ (ps : List (PatSpec α)) (st : PatState α),
    (∀ p ∈ ps, p.WF conv) →
    ∃ st', patRun conv st (ps.flatMap PatSpec.lines) = .ok st' ∧ st'.close = st.close ++ ps.map PatSpec.value
  | [], st, _ => ⟨st, by simp [patRun]⟩
  | p :: ps, st, h => by
    obtain ⟨st1, hrun1, hc1⟩ := patRun_pattern (h p (by simp)) st
    obtain ⟨st2, hrun2, hc2⟩ := patRun_patterns ps st1 (fun q hq => h q (by simp [hq]))
    refine ⟨st2, ?_, ?_⟩
    · simp only [List.flatMap_cons]
      rw [patRun_append, hrun1]
      exact hrun2
    · rw [hc2, hc1]; simp

/-- a concretely written data line `ta,tb` (with whatever blanks and line terminator `tb` carries) -/
theorem pairLine_render {α : Type} {conv : Conv α} {ta tb : List Char} {x y : α}
    (ha : ',' ∉ ta) (hb : ',' ∉ tb)
    (hp : hasSub patKw (ta ++ ',' :: tb) = false) (ho : hasSub occKw (ta ++ ',' :: tb) = false)
    (hx : conv ta = some x) (hy : conv tb = some y) : PairLine conv (ta ++ ',' :: tb) (x, y) := by
  refine ⟨hp, ho, ta, tb, [], ?_, hx, hy⟩
  have hrow : RowOK (.lit [',']) ta [([','], tb)] :=
    ⟨clean_lit_char ha, ⟨rfl, by simp⟩, trivial, trivial⟩
  have hlast : NoDelim (.lit [',']) (lastField ta [([','], tb)]) := noDelim_lit_char hb
  have := splitN_joinRow_all [([','], tb)] ta hrow hlast (ta ++ ',' :: tb).length
    (by simp; omega)
  simpa [splitComma, joinRow] using this

/-! ### friendlier sufficient conditions for `RowOK` -/

/-- `\s+`: separators are non-empty blank strings; every field after the first is non-empty and starts with a
    non-blank; every field but the last holds no blank at all (the last one may, inside). -/
theorem rowOK_ws : ∀ (rest : List (List Char × List Char)) (f : List Char),
    (∀ p ∈ rest, p.1 ≠ [] ∧ AllSpace p.1) →
    (∀ p ∈ rest, p.2 ≠ [] ∧ ∀ a ∈ p.2.head?, isSpacePy a = false) →
    (∀ g ∈ (f :: rest.map Prod.snd).dropLast, ∀ c ∈ g, isSpacePy c = false) →
    RowOK .ws f rest
  | [], _, _, _, _ => trivial
  | (s, g) :: rest, f, hsep, hfld, hclean => by
    have hg := hfld (s, g) (by simp)
    refine ⟨?_, hsep (s, g) (by simp), startsClean_ws_of_head hg.1 hg.2, ?_⟩
    · exact hclean f (by simp)
    · apply rowOK_ws rest g (fun p hp => hsep p (by simp [hp])) (fun p hp => hfld p (by simp [hp]))
      intro g' hg'
      apply hclean g'
      simp only [List.map_cons, List.dropLast_cons_cons]
      exact List.mem_cons_of_mem _ hg'

/-- a one-character literal delimiter `c`: separators are exactly `c`, no field but the last contains `c`. -/
theorem rowOK_lit_char (c : Char) : ∀ (rest : List (List Char × List Char)) (f : List Char),
    (∀ p ∈ rest, p.1 = [c]) →
    (∀ g ∈ (f :: rest.map Prod.snd).dropLast, c ∉ g) →
    RowOK (.lit [c]) f rest
  | [], _, _, _ => trivial
  | (s, g) :: rest, f, hsep, hclean => by
    refine ⟨clean_lit_char (hclean f (by simp)), ⟨hsep (s, g) (by simp), by simp⟩, trivial, ?_⟩
    apply rowOK_lit_char c rest g (fun p hp => hsep p (by simp [hp]))
    intro g' hg'
    apply hclean g'
    simp only [List.map_cons, List.dropLast_cons_cons]
    exact List.mem_cons_of_mem _ hg'

/-- lines that carry their own terminator -/
theorem splitLines_flatten : ∀ (ls : List (List Char)), (∀ l ∈ ls, ∃ t, l = t ++ ['\n'] ∧ '\n' ∉ t) →
    splitLines ls.flatten = ls
  | [], _ => rfl
  | l :: ls, h => by
    obtain ⟨t, rfl, ht⟩ := h l (by simp)
    have ih := splitLines_flatten ls (fun l' hl' => h l' (by simp [hl']))
    simp only [List.flatten_cons, List.append_assoc, List.cons_append, List.nil_append]
    rw [splitLines_line ht, ih]

/-! ### every error of the `load_delimited` loop is a `ValueError` naming a row of the file -/

theorem convertRow_error {α : Type} (row : Nat) : ∀ (col : Nat) (convs : List (Conv α)) (data : List (List Char))
    (e : LoadErr), convertRow row col convs data = .error e → ∃ j, e = .convert row j
  | _, [], _, e, h => by simp [convertRow] at h
  | _, _ :: _, [], e, h => by simp [convertRow] at h
  | col, c :: cs, v :: vs, e, h => by
    simp only [convertRow] at h
    cases hc : c v with
    | none => simp only [hc, Except.error.injEq] at h; exact ⟨col, h.symm⟩
    | some x =>
      simp only [hc] at h
      cases hr : convertRow row (col + 1) cs vs with
      | ok ys => simp [hr] at h
      | error e' =>
        simp only [hr, Except.error.injEq] at h
        subst h
        exact convertRow_error row (col + 1) cs vs e' hr

theorem loadLine_error {α : Type} (convs : List (Conv α)) (d : Delim) (row : Nat) (l : List Char) (e : LoadErr)
    (h : loadLine convs d row l = .error e) : e.toPy = .valueError ∧ e.row? = some row := by
  unfold loadLine at h
  simp only at h
  split at h
  · cases h; exact ⟨rfl, rfl⟩
  · obtain ⟨j, rfl⟩ := convertRow_error row 0 convs _ e h
    exact ⟨rfl, rfl⟩

theorem loadRows_error {α : Type} (convs : List (Conv α)) (d : Delim) (c : Option (List Char)) :
    ∀ (lines : List (List Char)) (r0 : Nat) (e : LoadErr), loadRows convs d c r0 lines = .error e →
      e.toPy = .valueError ∧ ∃ r, e.row? = some r ∧ r0 ≤ r ∧ r < r0 + lines.length
  | [], _, e, h => by simp [loadRows] at h
  | l :: ls, r0, e, h => by
    simp only [loadRows] at h
    cases hc : isComment c l with
    | true =>
      simp only [hc, if_true] at h
      obtain ⟨h1, r, h2, h3, h4⟩ := loadRows_error convs d c ls (r0 + 1) e h
      exact ⟨h1, r, h2, by omega, by simp; omega⟩
    | false =>
      simp only [hc, Bool.false_eq_true, if_false] at h
      cases hl : loadLine convs d r0 l with
      | error e' =>
        simp only [hl, Except.error.injEq] at h
        subst h
        obtain ⟨h1, h2⟩ := loadLine_error convs d r0 l e' hl
        exact ⟨h1, r0, h2, Nat.le_refl _, by simp⟩
      | ok vals =>
        simp only [hl] at h
        cases hr : loadRows convs d c (r0 + 1) ls with
        | ok rest => simp [hr] at h
        | error e' =>
          simp only [hr, Except.error.injEq] at h
          subst h
          obtain ⟨h1, r, h2, h3, h4⟩ := loadRows_error convs d c ls (r0 + 1) e' hr
          exact ⟨h1, r, h2, by omega, by simp; omega⟩

/-! ### the typed wrappers on written rows -/

/-- a labelled interval as written: `start sep1 stop sep2 label` with blank padding -/
structure LabeledIntervalRow (α : Type) where
  pre : List Char
  post : List Char
  start : Fld α
  stop : Fld α
  sep1 : List Char
  sep2 : List Char
  label : List Char

def LabeledIntervalRow.item {α : Type} (r : LabeledIntervalRow α) : Item (Cell α) :=
  .row ⟨r.pre, r.post, ⟨r.start.text, .num r.start.val⟩,
        [(r.sep1, ⟨r.stop.text, .num r.stop.val⟩), (r.sep2, ⟨r.label, .str r.label⟩)]⟩

theorem dataRows_labeledIntervals {α : Type} (rows : List (LabeledIntervalRow α)) :
    dataRows (rows.map LabeledIntervalRow.item) =
      rows.map fun r => [Cell.num r.start.val, Cell.num r.stop.val, Cell.str r.label] := by
  induction rows with
  | nil => rfl
  | cons r rs ih =>
    simp only [List.map_cons, dataRows, List.filterMap_cons] at ih ⊢
    simp only [LabeledIntervalRow.item, Item.vals?, RowSpec.vals, RowSpec.flds, List.map_cons, List.map_nil]
    rw [ih]

theorem pairCol_labeledIntervals {α : Type} (rows : List (LabeledIntervalRow α)) :
    pairCol (rows.map fun r => [Cell.num r.start.val, Cell.num r.stop.val, Cell.str r.label]) 0 1 =
      rows.map fun r => (r.start.val, r.stop.val) := by
  induction rows with
  | nil => rfl
  | cons r rs ih =>
    simp only [pairCol, List.map_cons, List.filterMap_cons] at ih ⊢
    simp [ih]

theorem strCol_labeledIntervals {α : Type} (rows : List (LabeledIntervalRow α)) :
    strCol (rows.map fun r => [Cell.num r.start.val, Cell.num r.stop.val, Cell.str r.label]) 2 =
      rows.map fun r => r.label := by
  induction rows with
  | nil => rfl
  | cons r rs ih =>
    simp only [strCol, List.map_cons, List.filterMap_cons] at ih ⊢
    simp [ih]

/-- an event time as written -/
structure EventRow (α : Type) where
  pre : List Char
  post : List Char
  time : Fld α

def EventRow.item {α : Type} (r : EventRow α) : Item (Cell α) :=
  .row ⟨r.pre, r.post, ⟨r.time.text, .num r.time.val⟩, []⟩

theorem dataRows_events {α : Type} (rows : List (EventRow α)) :
    dataRows (rows.map EventRow.item) = rows.map fun r => [Cell.num r.time.val] := by
  induction rows with
  | nil => rfl
  | cons r rs ih =>
    simp only [List.map_cons, dataRows, List.filterMap_cons] at ih ⊢
    simp only [EventRow.item, Item.vals?, RowSpec.vals, RowSpec.flds, List.map_cons, List.map_nil]
    rw [ih]

theorem numCol_events {α : Type} (rows : List (EventRow α)) :
    numCol (dataRows (rows.map EventRow.item)) 0 = rows.map fun r => r.time.val := by
  rw [dataRows_events]
  induction rows with
  | nil => rfl
  | cons r rs ih =>
    simp only [numCol, List.map_cons, List.filterMap_cons] at ih ⊢
    simp [ih]

/-! ### header row of a ragged file; errors of the pattern loader -/

/-- the text of a ragged file: when the loader is called with `header=True` a header line (any text without a
    newline) comes first -/
def withHeader (header : Bool) (hdr body : List Char) : List Char :=
  if header then hdr ++ '\n' :: body else body

/-- the lines that `load_ragged_time_series` parses: with `header=True` the header line is gone -/
theorem raggedLines_withHeader (header : Bool) (hdr body : List Char) (h : '\n' ∉ hdr) :
    (if header then (splitLines (withHeader header hdr body)).drop 1 else splitLines (withHeader header hdr body))
      = splitLines body := by
  cases header with
  | false => rfl
  | true => simp [withHeader, splitLines_line h]

theorem patStep_error {α : Type} (conv : Conv α) (st : PatState α) (l : List Char) (e : LoadErr)
    (h : patStep conv st l = .error e) : e.toPy = .valueError := by
  unfold patStep at h
  split at h
  · cases h
  · split at h
    · cases h
    · split at h
      · cases h; rfl
      · cases h; rfl
      · split at h
        · cases h; rfl
        · split at h
          · cases h; rfl
          · cases h

theorem patRun_error {α : Type} (conv : Conv α) : ∀ (ls : List (List Char)) (st : PatState α) (e : LoadErr),
    patRun conv st ls = .error e → e.toPy = .valueError
  | [], _, _, h => by simp [patRun] at h
  | l :: ls, st, e, h => by
    simp only [patRun] at h
    cases hs : patStep conv st l with
    | error e' =>
      simp only [hs, Except.error.injEq] at h
      subst h
      exact patStep_error conv st l e' hs
    | ok st' =>
      simp only [hs] at h
      exact patRun_error conv ls st' e h

end IO
end Mir
