import MirModel.PyIO
import MirProofs.Lemmas.IO
/-
  Lemmas that connect the run-time library of the translated loaders (`MirModel/PyIO.lean`) with the hand-written
  loader model (`MirModel/IO.lean`): columns accumulated row by row vs. the model's transposition of the rows, typed
  cells, errors seen through `obs`.  Nothing here mentions generated code.  Core Lean only.
-/
namespace Mir
namespace PyIO
open Mir.IO

/-! ### `obs` -/

@[simp] theorem obs_ok {β : Type} (x : β) : obs (.ok x : Except LoadErr β) = .ok x := rfl
@[simp] theorem obs_error {β : Type} (e : LoadErr) : obs (.error e : Except LoadErr β) = .error (observe e) := rfl

@[simp] theorem observe_columns (r a b : Nat) : observe (.columns r a b) = ⟨.valueError, some (r : Int)⟩ := rfl
@[simp] theorem observe_convert (r c : Nat) : observe (.convert r c) = ⟨.valueError, some (r : Int)⟩ := rfl
@[simp] theorem observe_notOneLine : observe .notOneLine = ⟨.valueError, none⟩ := rfl
@[simp] theorem observe_badWeight : observe .badWeight = ⟨.valueError, none⟩ := rfl
@[simp] theorem observe_noRow : observe .noRow = ⟨.indexError, none⟩ := rfl
@[simp] theorem observe_singleColumn : observe .singleColumn = ⟨.valueError, none⟩ := rfl
@[simp] theorem observe_badNumber : observe .badNumber = ⟨.valueError, none⟩ := rfl

theorem obs_map {β γ : Type} (f : β → γ) (r : Except LoadErr β) : obs (r.map f) = (obs r).map f := by
  cases r <;> rfl

/-! ### columns built row by row -/

/-- one converted row appended to the columns (`column.append(converted_value)` for every column) -/
def snocRow {γ : Type} (cols : List (List γ)) (vals : List γ) : List (List γ) :=
  List.zipWith (fun c v => c ++ [v]) cols vals

@[simp] theorem snocRow_nil {γ : Type} : snocRow ([] : List (List γ)) [] = [] := rfl
@[simp] theorem snocRow_cons {γ : Type} (c : List γ) (cs : List (List γ)) (v : γ) (vs : List γ) :
    snocRow (c :: cs) (v :: vs) = (c ++ [v]) :: snocRow cs vs := rfl

theorem snocRow_length {γ : Type} (cols : List (List γ)) (vals : List γ) (h : vals.length = cols.length) :
    (snocRow cols vals).length = cols.length := by
  simp [snocRow, h]

theorem column_cons {γ : Type} (r : List γ) (rows : List (List γ)) (j : Nat) (h : j < r.length) :
    column (r :: rows) j = r[j] :: column rows j := by
  simp [column, List.getElem?_eq_getElem h]

theorem columns_length {γ : Type} (n : Nat) (rows : List (List γ)) : (columns n rows).length = n := by
  simp [columns]

theorem columns_getElem {γ : Type} (n : Nat) (rows : List (List γ)) (j : Nat) (h : j < (columns n rows).length) :
    (columns n rows)[j] = column rows j := by
  simp [columns]

/-- appending the rows one after the other to `cols` = appending, to each column, the model's column -/
theorem foldl_snocRow {γ : Type} (n : Nat) : ∀ (rows : List (List γ)) (cols : List (List γ)),
    cols.length = n → (∀ r ∈ rows, r.length = n) →
    rows.foldl snocRow cols = List.zipWith (· ++ ·) cols (columns n rows)
  | [], cols, hc, _ => by
    apply List.ext_getElem
    · simp [columns, hc]
    · intro j h1 h2
      simp [columns, column]
  | r :: rows, cols, hc, hr => by
    have hrl : r.length = n := hr r (by simp)
    have hc' : (snocRow cols r).length = n := by rw [snocRow_length _ _ (by omega)]; exact hc
    rw [List.foldl_cons, foldl_snocRow n rows (snocRow cols r) hc' (fun x hx => hr x (by simp [hx]))]
    apply List.ext_getElem
    · simp [columns, hc, hc']
    · intro j h1 h2
      have hj : j < n := by simp [columns, hc'] at h1; omega
      simp [columns, snocRow, column_cons r rows j (by omega)]

/-- starting from empty columns, the rows appended one after the other are the model's columns -/
theorem foldl_snocRow_empty {γ : Type} (n : Nat) (rows : List (List γ)) (hr : ∀ r ∈ rows, r.length = n) :
    rows.foldl snocRow (List.replicate n []) = columns n rows := by
  rw [foldl_snocRow n rows _ (by simp) hr]
  apply List.ext_getElem
  · simp [columns]
  · intro j h1 h2
    simp [columns]

/-! ### lists, indices -/

theorem ite_ok {ε β : Type} (c : Prop) [Decidable c] (a b : β) :
    (if c then (Except.ok a : Except ε β) else Except.ok b) = Except.ok (if c then a else b) := by
  split <;> rfl

theorem contains_pattern (l : List Char) : contains ['p', 'a', 't', 't', 'e', 'r', 'n'] l = hasSub patKw l := rfl
theorem contains_occurrence (l : List Char) :
    contains ['o', 'c', 'c', 'u', 'r', 'r', 'e', 'n', 'c', 'e'] l = hasSub occKw l := rfl

@[simp] theorem len_eq {β : Type} (xs : List β) : len xs = (xs.length : Int) := rfl

theorem emptyLists_len {β : Type} (xs : List β) {γ : Type} :
    (emptyLists (len xs) : List (List γ)) = List.replicate xs.length [] := by
  simp [emptyLists]

@[simp] theorem index_zero_cons {β : Type} (x : β) (xs : List β) : index (x :: xs) 0 = .ok x := by
  simp [index]

@[simp] theorem index_zero_nil {β : Type} : index ([] : List β) 0 = raised .indexError none := by
  simp [index]

@[simp] theorem index_one_cons {β : Type} (x y : β) (xs : List β) : index (x :: y :: xs) 1 = .ok y := by
  simp [index]

theorem Cols.ofList_of_length_ne_one {γ : Type} (cs : List (List γ)) (h : cs.length ≠ 1) :
    Cols.ofList cs = .many cs := by
  match cs, h with
  | [], _ => rfl
  | [c], h => simp at h
  | _ :: _ :: _, _ => rfl

/-! ### the comment test -/

/-- `comment is not None and commenter.match(line)` with `commenter = re.compile("^" + comment)` is the model's
    prefix test -/
theorem reMatch_compiled (comment : Option (List Char)) (line : List Char) :
    (if (!comment.isNone) = true then
        (do let t ← reMatch (comment.map reCompileStart) line; pure t : R Bool)
      else pure false) = .ok (isComment comment line) := by
  cases comment <;> rfl

/-! ### typed rows: column `j` of a loaded table holds what converter `j` produced -/

/-- value `j` of a converted row is what converter `j` made of token `j` -/
theorem convertRow_typed {γ : Type} (row : Nat) : ∀ (col : Nat) (convs : List (Conv γ)) (data : List (List Char))
    (xs : List γ), data.length = convs.length → convertRow row col convs data = .ok xs →
    ∀ (j : Nat) (c : Conv γ), convs[j]? = some c → ∃ x t, xs[j]? = some x ∧ c t = some x
  | _, [], _, xs, _, _ => by intro j c hj; simp at hj
  | _, _ :: _, [], _, hl, _ => by simp at hl
  | col, c0 :: cs, v :: vs, xs, hl, h => by
    simp only [convertRow] at h
    cases hc : c0 v with
    | none => simp [hc] at h
    | some x =>
      simp only [hc] at h
      cases hr : convertRow row (col + 1) cs vs with
      | error e => simp [hr] at h
      | ok ys =>
        simp only [hr, Except.ok.injEq] at h
        subst h
        intro j c hj
        cases j with
        | zero => simp at hj; subst hj; exact ⟨x, v, by simp, hc⟩
        | succ j =>
          have := convertRow_typed row (col + 1) cs vs ys (by simpa using hl) hr j c (by simpa using hj)
          simpa using this

theorem loadRows_typed {γ : Type} (convs : List (Conv γ)) (d : Delim) (c : Option (List Char)) :
    ∀ (lines : List (List Char)) (row : Nat) (rows : List (List γ)),
      loadRows convs d c row lines = .ok rows →
      ∀ r ∈ rows, ∀ (j : Nat) (cv : Conv γ), convs[j]? = some cv → ∃ x t, r[j]? = some x ∧ cv t = some x
  | [], _, rows, h => by simp [loadRows] at h; subst h; simp
  | l :: ls, row, rows, h => by
    simp only [loadRows] at h
    cases hc : isComment c l with
    | true =>
      simp only [hc, if_true] at h
      exact loadRows_typed convs d c ls (row + 1) rows h
    | false =>
      simp only [hc, Bool.false_eq_true, if_false] at h
      cases hl : loadLine convs d row l with
      | error e => simp [hl] at h
      | ok vals =>
        simp only [hl] at h
        cases hr : loadRows convs d c (row + 1) ls with
        | error e => simp [hr] at h
        | ok rest =>
          simp only [hr, Except.ok.injEq] at h
          have ih := loadRows_typed convs d c ls (row + 1) rest hr
          have hv : ∀ (j : Nat) (cv : Conv γ), convs[j]? = some cv → ∃ x t, vals[j]? = some x ∧ cv t = some x := by
            unfold loadLine at hl
            simp only at hl
            split at hl
            · cases hl
            · rename_i hne
              exact convertRow_typed row 0 convs _ vals (by simpa using hne) hl
          intro r hr'
          rw [← h] at hr'
          rcases List.mem_cons.mp hr' with rfl | hr'
          · exact hv
          · exact ih r hr'

/-- every row has a number in column `j` -/
def NumAt {α : Type} (j : Nat) (rows : List (List (Cell α))) : Prop := ∀ r ∈ rows, ∃ x, r[j]? = some (Cell.num x)
/-- every row has a label in column `j` -/
def StrAt {α : Type} (j : Nat) (rows : List (List (Cell α))) : Prop := ∀ r ∈ rows, ∃ s, r[j]? = some (Cell.str s)

theorem numAt_of_loadRows {α : Type} {convs : List (Conv (Cell α))} {d : Delim} {c : Option (List Char)}
    {lines : List (List Char)} {row : Nat} {rows : List (List (Cell α))}
    (h : loadRows convs d c row lines = .ok rows) (j : Nat) (f : Conv α) (hj : convs[j]? = some (numConv f)) :
    NumAt j rows := by
  intro r hr
  obtain ⟨x, t, hx, ht⟩ := loadRows_typed convs d c lines row rows h r hr j _ hj
  simp only [numConv] at ht
  cases hf : f t with
  | none => simp [hf] at ht
  | some y => simp [hf] at ht; exact ⟨y, by rw [hx, ← ht]⟩

theorem strAt_of_loadRows {α : Type} {convs : List (Conv (Cell α))} {d : Delim} {c : Option (List Char)}
    {lines : List (List Char)} {row : Nat} {rows : List (List (Cell α))}
    (h : loadRows convs d c row lines = .ok rows) (j : Nat) (hj : convs[j]? = some strConv) :
    StrAt j rows := by
  intro r hr
  obtain ⟨x, t, hx, ht⟩ := loadRows_typed convs d c lines row rows h r hr j _ hj
  simp only [strConv, Option.some.injEq] at ht
  exact ⟨t, by rw [hx, ← ht]⟩

theorem NumAt.tail {α : Type} {j : Nat} {r : List (Cell α)} {rows : List (List (Cell α))} (h : NumAt j (r :: rows)) :
    NumAt j rows := fun x hx => h x (by simp [hx])
theorem StrAt.tail {α : Type} {j : Nat} {r : List (Cell α)} {rows : List (List (Cell α))} (h : StrAt j (r :: rows)) :
    StrAt j rows := fun x hx => h x (by simp [hx])

/-- `np.array(column j)` of a numeric column = the model's `numCol` -/
theorem cellNums_column {α : Type} (j : Nat) : ∀ (rows : List (List (Cell α))), NumAt j rows →
    cellNums (column rows j) = .ok (numCol rows j)
  | [], _ => rfl
  | r :: rows, h => by
    obtain ⟨x, hx⟩ := h r (by simp)
    have ih := cellNums_column j rows h.tail
    simp only [column, numCol] at ih ⊢
    simp [List.filterMap_cons, hx, cellNums, cellNum, ih]

/-- a column of labels = the model's `strCol`, as cells -/
theorem column_str {α : Type} (j : Nat) : ∀ (rows : List (List (Cell α))), StrAt j rows →
    column rows j = (strCol rows j).map Cell.str
  | [], _ => rfl
  | r :: rows, h => by
    obtain ⟨x, hx⟩ := h r (by simp)
    have ih := column_str j rows h.tail
    simp only [column, strCol] at ih ⊢
    simp [List.filterMap_cons, hx, ih]

theorem zipPairs_map {α β : Type} (f g : β → α) : ∀ (rows : List β),
    zipPairs (rows.map f) (rows.map g) = .ok (rows.map fun r => (f r, g r))
  | [] => rfl
  | r :: rows => by simp [zipPairs, zipPairs_map f g rows]

/-- `np.array([column i, column j]).T` of two numeric columns = the model's `pairCol` -/
theorem npPairs_columns {α : Type} (i j : Nat) : ∀ (rows : List (List (Cell α))), NumAt i rows → NumAt j rows →
    npPairs (column rows i) (column rows j) = .ok (pairCol rows i j)
  | [], _, _ => rfl
  | r :: rows, hi, hj => by
    obtain ⟨x, hx⟩ := hi r (by simp)
    obtain ⟨y, hy⟩ := hj r (by simp)
    have ih := npPairs_columns i j rows hi.tail hj.tail
    have hci := cellNums_column i rows hi.tail
    have hcj := cellNums_column j rows hj.tail
    unfold npPairs at ih ⊢
    simp only [column, numCol, pairCol] at ih hci hcj ⊢
    simp only [hci, hcj] at ih
    simp [List.filterMap_cons, hx, hy, cellNums, cellNum, hci, hcj, zipPairs, ih]

theorem columns_one {γ : Type} (rows : List (List γ)) : columns 1 rows = [column rows 0] := by
  simp [columns, List.range_succ]
theorem columns_two {γ : Type} (rows : List (List γ)) : columns 2 rows = [column rows 0, column rows 1] := by
  simp [columns, List.range_succ]
theorem columns_three {γ : Type} (rows : List (List γ)) :
    columns 3 rows = [column rows 0, column rows 1, column rows 2] := by
  simp [columns, List.range_succ]

/-! ### converters that wrap their values (`Cell.num ∘ conv`, `Cell.str`) -/

/-- a converter followed by a wrapper of its value -/
def wrapConv {β γ : Type} (f : β → γ) (cv : Conv β) : Conv γ := fun t => (cv t).map f

theorem convertRow_wrap {β γ : Type} (f : β → γ) (row : Nat) : ∀ (col : Nat) (convs : List (Conv β))
    (data : List (List Char)),
    convertRow row col (convs.map (wrapConv f)) data = (convertRow row col convs data).map (List.map f)
  | _, [], _ => rfl
  | _, _ :: _, [] => rfl
  | col, cv :: cs, v :: vs => by
    simp only [List.map_cons, convertRow, wrapConv]
    cases cv v with
    | none => rfl
    | some x =>
      have ih := convertRow_wrap f row (col + 1) cs vs
      simp only [Option.map_some, ih]
      cases convertRow row (col + 1) cs vs <;> rfl

theorem loadRows_wrap {β γ : Type} (f : β → γ) (convs : List (Conv β)) (d : Delim) (c : Option (List Char)) :
    ∀ (lines : List (List Char)) (row : Nat),
    loadRows (convs.map (wrapConv f)) d c row lines = (loadRows convs d c row lines).map (List.map (List.map f))
  | [], _ => rfl
  | l :: ls, row => by
    simp only [loadRows, loadLine, List.length_map, convertRow_wrap, loadRows_wrap f convs d c ls (row + 1)]
    cases isComment c l with
    | true => rfl
    | false =>
      simp only [Bool.false_eq_true, if_false]
      by_cases hlen : (reSplit d ((convs.length : Int) - 1) (stripPy l)).length ≠ convs.length
      · rw [if_pos hlen, if_pos hlen]; rfl
      · rw [if_neg hlen, if_neg hlen]
        cases convertRow row 0 convs (reSplit d ((convs.length : Int) - 1) (stripPy l)) with
        | error e => rfl
        | ok vals => cases loadRows convs d c (row + 1) ls <;> rfl

theorem loadTable_wrap {β γ : Type} (f : β → γ) (convs : List (Conv β)) (d : Delim) (c : Option (List Char))
    (s : List Char) :
    loadTable (convs.map (wrapConv f)) d c s = (loadTable convs d c s).map (List.map (List.map f)) :=
  loadRows_wrap f convs d c _ 1

theorem column_map {β γ : Type} (f : β → γ) (rows : List (List β)) (j : Nat) :
    column (rows.map (List.map f)) j = (column rows j).map f := by
  induction rows with
  | nil => rfl
  | cons r rows ih =>
    simp only [column] at ih ⊢
    simp only [List.map_cons, List.filterMap_cons, List.getElem?_map]
    cases r[j]? <;> simp [ih]

@[simp] theorem cellNums_map_num {α : Type} : ∀ (xs : List α), cellNums (xs.map Cell.num) = .ok xs
  | [] => rfl
  | x :: xs => by simp [cellNums, cellNum, cellNums_map_num xs]

theorem column_length {γ : Type} (rows : List (List γ)) (j : Nat) (h : ∀ r ∈ rows, j < r.length) :
    (column rows j).length = rows.length := by
  induction rows with
  | nil => rfl
  | cons r rows ih =>
    have hj := h r (by simp)
    simp only [column] at ih ⊢
    simp [List.getElem?_eq_getElem hj, ih (fun x hx => h x (by simp [hx]))]

end PyIO
end Mir
