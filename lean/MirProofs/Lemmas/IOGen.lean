import MirModel.PyIO
import MirProofs.Lemmas.IO
/-
  Lemmas that connect the run-time library of the translated loaders (`MirModel/PyIO.lean`) with the hand-written
  loader model (`MirModel/IO.lean`): columns accumulated row by row vs. the model's transposition of the rows, typed
  cells, errors seen through `obs`.  Nothing here mentions generated code.  Core Lean only.
-/
namespace Mir
namespace PyIO
open Mir.IO

/-! ### `obs` -/

@[simp] theorem obs_ok {β : Type} (x : β) : obs (.ok x : Except LoadErr β) = .ok x := rfl
@[simp] theorem obs_error {β : Type} (e : LoadErr) : obs (.error e : Except LoadErr β) = .error (observe e) := rfl

@[simp] theorem observe_columns (r a b : Nat) : observe (.columns r a b) = ⟨.valueError, some (r : Int)⟩ := rfl
@[simp] theorem observe_convert (r c : Nat) : observe (.convert r c) = ⟨.valueError, some (r : Int)⟩ := rfl
@[simp] theorem observe_notOneLine : observe .notOneLine = ⟨.valueError, none⟩ := rfl
@[simp] theorem observe_badWeight : observe .badWeight = ⟨.valueError, none⟩ := rfl
@[simp] theorem observe_noRow : observe .noRow = ⟨.indexError, none⟩ := rfl
@[simp] theorem observe_singleColumn : observe .singleColumn = ⟨.valueError, none⟩ := rfl
@[simp] theorem observe_badNumber : observe .badNumber = ⟨.valueError, none⟩ := rfl

theorem obs_map {β γ : Type} (f : β → γ) (r : Except LoadErr β) : obs (r.map f) = (obs r).map f := by
  cases r <;> rfl

/-! ### columns built row by row -/

/-- one converted row appended to the columns (`column.append(converted_value)` for every column) -/
def snocRow {γ : Type} (cols : List (List γ)) (vals : List γ) : List (List γ) :=
  List.zipWith (fun c v => c ++ [v]) cols vals

@[simp] theorem snocRow_nil {γ : Type} : snocRow ([] : List (List γ)) [] = [] := rfl
@[simp] theorem snocRow_cons {γ : Type} (c : List γ) (cs : List (List γ)) (v : γ) (vs : List γ) :
    snocRow (c :: cs) (v :: vs) = (c ++ [v]) :: snocRow cs vs := rfl

theorem snocRow_length {γ : Type} (cols : List (List γ)) (vals : List γ) (h : vals.length = cols.length) :
    (snocRow cols vals).length = cols.length := by
  simp [snocRow, h]

theorem column_cons {γ : Type} (r : List γ) (rows : List (List γ)) (j : Nat) (h : j < r.length) :
    column (r :: rows) j = r[j] :: column rows j := by
  simp [column, List.getElem?_eq_getElem h]

theorem columns_length {γ : Type} (n : Nat) (rows : List (List γ)) : (columns n rows).length = n := by
  simp [columns]

theorem columns_getElem {γ : Type} (n : Nat) (rows : List (List γ)) (j : Nat) (h : j < (columns n rows).length) :
    (columns n rows)[j] = column rows j := by
  simp [columns]

/-- appending the rows one after the other to `cols` = appending, to each column, the model's column -/
theorem foldl_snocRow {γ : Type} (n : Nat) : ∀ (rows : List (List γ)) (cols : List (List γ)),
    cols.length = n → (∀ r ∈ rows, r.length = n) →
    rows.foldl snocRow cols = List.zipWith (· ++ ·) cols (columns n rows)
  | [], cols, hc, _ => by
    apply List.ext_getElem
    · simp [columns, hc]
    · intro j h1 h2
      simp [columns, column]
  | r :: rows, cols, hc, hr => by
    have hrl : r.length = n := hr r (by simp)
    have hc' : (snocRow cols r).length = n := by rw [snocRow_length _ _ (by omega)]; exact hc
    rw [List.foldl_cons, foldl_snocRow n rows (snocRow cols r) hc' (fun x hx => hr x (by simp [hx]))]
    apply List.ext_getElem
    · simp [columns, hc, hc']
    · intro j h1 h2
      have hj : j < n := by simp [columns, hc'] at h1; omega
      simp [columns, snocRow, column_cons r rows j (by omega)]

/-- starting from empty columns, the rows appended one after the other are the model's columns -/
theorem foldl_snocRow_empty {γ : Type} (n : Nat) (rows : List (List γ)) (hr : ∀ r ∈ rows, r.length = n) :
    rows.foldl snocRow (List.replicate n []) = columns n rows := by
  rw [foldl_snocRow n rows _ (by simp) hr]
  apply List.ext_getElem
  · simp [columns]
  · intro j h1 h2
    simp [columns]

/-! ### lists, indices -/

@[simp] theorem len_eq {β : Type} (xs : List β) : len xs = (xs.length : Int) := rfl

theorem emptyLists_len {β : Type} (xs : List β) {γ : Type} :
    (emptyLists (len xs) : List (List γ)) = List.replicate xs.length [] := by
  simp [emptyLists]

@[simp] theorem index_zero_cons {β : Type} (x : β) (xs : List β) : index (x :: xs) 0 = .ok x := by
  simp [index]

@[simp] theorem index_zero_nil {β : Type} : index ([] : List β) 0 = raised .indexError none := by
  simp [index]

@[simp] theorem index_one_cons {β : Type} (x y : β) (xs : List β) : index (x :: y :: xs) 1 = .ok y := by
  simp [index]

theorem Cols.ofList_of_length_ne_one {γ : Type} (cs : List (List γ)) (h : cs.length ≠ 1) :
    Cols.ofList cs = .many cs := by
  match cs, h with
  | [], _ => rfl
  | [c], h => simp at h
  | _ :: _ :: _, _ => rfl

/-! ### the comment test -/

/-- `comment is not None and commenter.match(line)` with `commenter = re.compile("^" + comment)` is the model's
    prefix test -/
theorem reMatch_compiled (comment : Option (List Char)) (line : List Char) :
    (if (!comment.isNone) = true then
        (do let t ← reMatch (comment.map reCompileStart) line; pure t : R Bool)
      else pure false) = .ok (isComment comment line) := by
  cases comment <;> rfl

end PyIO
end Mir
