import MirProofs.Lemmas.IO

/-!
  Written rows of the remaining typed wrappers of `mir_eval.io` (`load_labeled_events`, `load_intervals`,
  `load_time_series`, `load_valued_intervals`) and what their columns project to, in the style of
  `LabeledIntervalRow` / `EventRow` of `Lemmas/IO.lean`.
-/
namespace Mir
namespace IO

/-! ### `time label` -/

structure LabeledEventRow (α : Type) where
  pre : List Char
  post : List Char
  time : Fld α
  sep : List Char
  label : List Char

def LabeledEventRow.item {α : Type} (r : LabeledEventRow α) : Item (Cell α) :=
  .row ⟨r.pre, r.post, ⟨r.time.text, .num r.time.val⟩, [(r.sep, ⟨r.label, .str r.label⟩)]⟩

theorem dataRows_labeledEvents {α : Type} (rows : List (LabeledEventRow α)) :
    dataRows (rows.map LabeledEventRow.item) = rows.map fun r => [Cell.num r.time.val, Cell.str r.label] := by
  induction rows with
  | nil => rfl
  | cons r rs ih =>
    simp only [List.map_cons, dataRows, List.filterMap_cons] at ih ⊢
    simp only [LabeledEventRow.item, Item.vals?, RowSpec.vals, RowSpec.flds, List.map_cons, List.map_nil]
    rw [ih]

theorem numCol_labeledEvents {α : Type} (rows : List (LabeledEventRow α)) :
    numCol (rows.map fun r => [Cell.num r.time.val, Cell.str r.label]) 0 = rows.map fun r => r.time.val := by
  induction rows with
  | nil => rfl
  | cons r rs ih =>
    simp only [numCol, List.map_cons, List.filterMap_cons] at ih ⊢
    simp [ih]

theorem strCol_labeledEvents {α : Type} (rows : List (LabeledEventRow α)) :
    strCol (rows.map fun r => [Cell.num r.time.val, Cell.str r.label]) 1 = rows.map fun r => r.label := by
  induction rows with
  | nil => rfl
  | cons r rs ih =>
    simp only [strCol, List.map_cons, List.filterMap_cons] at ih ⊢
    simp [ih]

/-! ### two numbers per row: `start stop` (intervals) / `time value` (time series) -/

structure PairRow (α : Type) where
  pre : List Char
  post : List Char
  fst : Fld α
  sep : List Char
  snd : Fld α

def PairRow.item {α : Type} (r : PairRow α) : Item (Cell α) :=
  .row ⟨r.pre, r.post, ⟨r.fst.text, .num r.fst.val⟩, [(r.sep, ⟨r.snd.text, .num r.snd.val⟩)]⟩

theorem dataRows_pairs {α : Type} (rows : List (PairRow α)) :
    dataRows (rows.map PairRow.item) = rows.map fun r => [Cell.num r.fst.val, Cell.num r.snd.val] := by
  induction rows with
  | nil => rfl
  | cons r rs ih =>
    simp only [List.map_cons, dataRows, List.filterMap_cons] at ih ⊢
    simp only [PairRow.item, Item.vals?, RowSpec.vals, RowSpec.flds, List.map_cons, List.map_nil]
    rw [ih]

theorem pairCol_pairs {α : Type} (rows : List (PairRow α)) :
    pairCol (rows.map fun r => [Cell.num r.fst.val, Cell.num r.snd.val]) 0 1 =
      rows.map fun r => (r.fst.val, r.snd.val) := by
  induction rows with
  | nil => rfl
  | cons r rs ih =>
    simp only [pairCol, List.map_cons, List.filterMap_cons] at ih ⊢
    simp [ih]

theorem numCol_pairs_fst {α : Type} (rows : List (PairRow α)) :
    numCol (rows.map fun r => [Cell.num r.fst.val, Cell.num r.snd.val]) 0 = rows.map fun r => r.fst.val := by
  induction rows with
  | nil => rfl
  | cons r rs ih =>
    simp only [numCol, List.map_cons, List.filterMap_cons] at ih ⊢
    simp [ih]

theorem numCol_pairs_snd {α : Type} (rows : List (PairRow α)) :
    numCol (rows.map fun r => [Cell.num r.fst.val, Cell.num r.snd.val]) 1 = rows.map fun r => r.snd.val := by
  induction rows with
  | nil => rfl
  | cons r rs ih =>
    simp only [numCol, List.map_cons, List.filterMap_cons] at ih ⊢
    simp [ih]

/-! ### `start stop value` -/

structure ValuedIntervalRow (α : Type) where
  pre : List Char
  post : List Char
  start : Fld α
  sep1 : List Char
  stop : Fld α
  sep2 : List Char
  value : Fld α

def ValuedIntervalRow.item {α : Type} (r : ValuedIntervalRow α) : Item (Cell α) :=
  .row ⟨r.pre, r.post, ⟨r.start.text, .num r.start.val⟩,
        [(r.sep1, ⟨r.stop.text, .num r.stop.val⟩), (r.sep2, ⟨r.value.text, .num r.value.val⟩)]⟩

theorem dataRows_valuedIntervals {α : Type} (rows : List (ValuedIntervalRow α)) :
    dataRows (rows.map ValuedIntervalRow.item) =
      rows.map fun r => [Cell.num r.start.val, Cell.num r.stop.val, Cell.num r.value.val] := by
  induction rows with
  | nil => rfl
  | cons r rs ih =>
    simp only [List.map_cons, dataRows, List.filterMap_cons] at ih ⊢
    simp only [ValuedIntervalRow.item, Item.vals?, RowSpec.vals, RowSpec.flds, List.map_cons, List.map_nil]
    rw [ih]

theorem pairCol_valuedIntervals {α : Type} (rows : List (ValuedIntervalRow α)) :
    pairCol (rows.map fun r => [Cell.num r.start.val, Cell.num r.stop.val, Cell.num r.value.val]) 0 1 =
      rows.map fun r => (r.start.val, r.stop.val) := by
  induction rows with
  | nil => rfl
  | cons r rs ih =>
    simp only [pairCol, List.map_cons, List.filterMap_cons] at ih ⊢
    simp [ih]

theorem numCol_valuedIntervals {α : Type} (rows : List (ValuedIntervalRow α)) :
    numCol (rows.map fun r => [Cell.num r.start.val, Cell.num r.stop.val, Cell.num r.value.val]) 2 =
      rows.map fun r => r.value.val := by
  induction rows with
  | nil => rfl
  | cons r rs ih =>
    simp only [numCol, List.map_cons, List.filterMap_cons] at ih ⊢
    simp [ih]

end IO
end Mir
