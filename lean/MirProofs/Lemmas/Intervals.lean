import MirModel.Intervals
import Mathlib.Algebra.Order.Field.Rat
import Mathlib.Tactic.Linarith

/-! Helper lemmas about `MirModel.Intervals` (C12, C13). -/
namespace Mir.Iv

variable {L M T : Type}

/-! ### weak chains (durations may be zero): what `adjust_intervals` produces -/

def WChain (lo : Rat) : LI L → Prop
  | [] => True
  | x :: r => lo ≤ x.1 ∧ x.1 ≤ x.2.1 ∧ WChain x.2.1 r

theorem Chain.wchain {lo : Rat} {xs : LI L} (h : Chain lo xs) : WChain lo xs := by
  induction xs generalizing lo with
  | nil => trivial
  | cons x r ih => exact ⟨h.1, le_of_lt h.2.1, ih h.2.2⟩

theorem Chain.mono {lo lo' : Rat} {xs : LI L} (hl : lo' ≤ lo) (h : Chain lo xs) : Chain lo' xs := by
  cases xs with
  | nil => trivial
  | cons x r => exact ⟨le_trans hl h.1, h.2.1, h.2.2⟩

theorem WChain.mono {lo lo' : Rat} {xs : LI L} (hl : lo' ≤ lo) (h : WChain lo xs) : WChain lo' xs := by
  cases xs with
  | nil => trivial
  | cons x r => exact ⟨le_trans hl h.1, h.2.1, h.2.2⟩

theorem Contig.chain {lo : Rat} {xs : LI L} (h : Contig lo xs) : Chain lo xs := by
  induction xs generalizing lo with
  | nil => trivial
  | cons x r ih => exact ⟨le_of_eq h.1, h.2.1, ih h.2.2⟩

theorem WChain.lb {lo : Rat} {xs : LI L} (h : WChain lo xs) : ∀ x ∈ xs, lo ≤ x.1 ∧ x.1 ≤ x.2.1 := by
  induction xs generalizing lo with
  | nil => intro x hx; cases hx
  | cons y r ih =>
    intro x hx
    rcases List.mem_cons.1 hx with rfl | hx
    · exact ⟨h.1, h.2.1⟩
    · have := ih h.2.2 x hx
      exact ⟨le_trans (le_trans h.1 h.2.1) this.1, this.2⟩

theorem Chain.lb {lo : Rat} {xs : LI L} (h : Chain lo xs) : ∀ x ∈ xs, lo ≤ x.1 ∧ x.1 < x.2.1 := by
  induction xs generalizing lo with
  | nil => intro x hx; cases hx
  | cons y r ih =>
    intro x hx
    rcases List.mem_cons.1 hx with rfl | hx
    · exact ⟨h.1, h.2.1⟩
    · have := ih h.2.2 x hx
      exact ⟨le_trans (le_trans h.1 (le_of_lt h.2.1)) this.1, this.2⟩

/-! ### `labelAt` -/

theorem labelAt_cons (x : Rat × Rat × L) (r : LI L) (t : Rat) :
    labelAt (x :: r) t = match labelAt r t with
      | some l => some l
      | none => if x.1 ≤ t ∧ t < x.2.1 then some x.2.2 else none := rfl

theorem labelAt_none_of {xs : LI L} {t : Rat} (h : ∀ x ∈ xs, ¬ (x.1 ≤ t ∧ t < x.2.1)) :
    labelAt xs t = none := by
  induction xs with
  | nil => rfl
  | cons x r ih =>
    rw [labelAt_cons, ih (fun y hy => h y (List.mem_cons_of_mem _ hy))]
    simp [h x List.mem_cons_self]

theorem labelAt_append (xs ys : LI L) (t : Rat) :
    labelAt (xs ++ ys) t = match labelAt ys t with
      | some l => some l
      | none => labelAt xs t := by
  induction xs with
  | nil => simp [labelAt]; cases labelAt ys t <;> rfl
  | cons x r ih =>
    simp only [List.cons_append, labelAt_cons, ih]
    cases labelAt ys t <;> rfl

theorem labelAt_map_congr {xs : LI L} {t : Rat} (f : Rat × Rat × L → Rat × Rat × L)
    (h : ∀ x ∈ xs, (f x).2.2 = x.2.2 ∧ (((f x).1 ≤ t ∧ t < (f x).2.1) ↔ (x.1 ≤ t ∧ t < x.2.1))) :
    labelAt (xs.map f) t = labelAt xs t := by
  induction xs with
  | nil => rfl
  | cons x r ih =>
    simp only [List.map_cons, labelAt_cons, ih (fun y hy => h y (List.mem_cons_of_mem _ hy))]
    have := h x List.mem_cons_self
    rw [this.1]
    simp only [this.2]

/-- in a chain the row containing `t` is unique, so `labelAt` returns its label -/
theorem labelAt_chain_mem {lo : Rat} {xs : LI L} (h : Chain lo xs) {x : Rat × Rat × L} (hx : x ∈ xs)
    {t : Rat} (h1 : x.1 ≤ t) (h2 : t < x.2.1) : labelAt xs t = some x.2.2 := by
  induction xs generalizing lo with
  | nil => cases hx
  | cons y r ih =>
    rw [labelAt_cons]
    rcases List.mem_cons.1 hx with rfl | hx
    · have : labelAt r t = none := by
        apply labelAt_none_of
        intro z hz hc
        have := (h.2.2.lb z hz).1
        linarith [hc.1]
      simp [this, h1, h2]
    · rw [ih h.2.2 hx]

theorem labelAt_chain_lt {lo : Rat} {xs : LI L} (h : WChain lo xs) {t : Rat} (ht : t < lo) :
    labelAt xs t = none := by
  apply labelAt_none_of
  intro x hx hc
  have := (h.lb x hx).1
  linarith [hc.1]

/-! ### `minL` / `maxL` -/

theorem minL_spec {l : List Rat} {m : Rat} (h : minL l = some m) : m ∈ l ∧ ∀ v ∈ l, m ≤ v := by
  induction l generalizing m with
  | nil => cases h
  | cons x r ih =>
    simp only [minL] at h
    cases hr : minL r with
    | none =>
      rw [hr] at h
      cases r with
      | nil => simp at h; subst h; simp
      | cons y r' =>
        simp only [minL] at hr
        cases h' : minL r' <;> simp [h'] at hr
    | some m' =>
      rw [hr] at h
      simp at h
      subst h
      have := ih hr
      constructor
      · rcases min_choice x m' with h1 | h1
        · rw [h1]; exact List.mem_cons_self
        · rw [h1]; exact List.mem_cons_of_mem _ this.1
      · intro v hv
        rcases List.mem_cons.1 hv with rfl | hv
        · exact min_le_left _ _
        · exact le_trans (min_le_right _ _) (this.2 v hv)

theorem maxL_spec {l : List Rat} {m : Rat} (h : maxL l = some m) : m ∈ l ∧ ∀ v ∈ l, v ≤ m := by
  induction l generalizing m with
  | nil => cases h
  | cons x r ih =>
    simp only [maxL] at h
    cases hr : maxL r with
    | none =>
      rw [hr] at h
      cases r with
      | nil => simp at h; subst h; simp
      | cons y r' =>
        simp only [maxL] at hr
        cases h' : maxL r' <;> simp [h'] at hr
    | some m' =>
      rw [hr] at h
      simp at h
      subst h
      have := ih hr
      constructor
      · rcases max_choice x m' with h1 | h1
        · rw [h1]; exact List.mem_cons_self
        · rw [h1]; exact List.mem_cons_of_mem _ this.1
      · intro v hv
        rcases List.mem_cons.1 hv with rfl | hv
        · exact le_max_left _ _
        · exact le_trans (this.2 v hv) (le_max_right _ _)

theorem minL_ne_none {l : List Rat} (h : l ≠ []) : ∃ m, minL l = some m := by
  cases l with
  | nil => exact absurd rfl h
  | cons x r => simp only [minL]; cases minL r <;> simp

theorem maxL_ne_none {l : List Rat} (h : l ≠ []) : ∃ m, maxL l = some m := by
  cases l with
  | nil => exact absurd rfl h
  | cons x r => simp only [maxL]; cases maxL r <;> simp

/-- a value that is in the list and below everything in it is the minimum -/
theorem minL_eq {l : List Rat} {m : Rat} (hm : m ∈ l) (hle : ∀ v ∈ l, m ≤ v) : minL l = some m := by
  obtain ⟨m', h'⟩ := minL_ne_none (List.ne_nil_of_mem hm)
  have := minL_spec h'
  rw [h', le_antisymm (this.2 m hm) (hle m' this.1)]

theorem maxL_eq {l : List Rat} {m : Rat} (hm : m ∈ l) (hle : ∀ v ∈ l, v ≤ m) : maxL l = some m := by
  obtain ⟨m', h'⟩ := maxL_ne_none (List.ne_nil_of_mem hm)
  have := maxL_spec h'
  rw [h', le_antisymm (hle m' this.1) (this.2 m hm)]

theorem mem_entries {xs : LI L} {v : Rat} : v ∈ entries xs ↔ ∃ x ∈ xs, v = x.1 ∨ v = x.2.1 := by
  induction xs with
  | nil => simp [entries]
  | cons y r ih =>
    simp only [entries, List.mem_cons, ih]
    constructor
    · rintro (h | h | ⟨x, hx, h⟩)
      · exact ⟨y, Or.inl rfl, Or.inl h⟩
      · exact ⟨y, Or.inl rfl, Or.inr h⟩
      · exact ⟨x, Or.inr hx, h⟩
    · rintro ⟨x, rfl | hx, h⟩
      · rcases h with h | h
        · exact Or.inl h
        · exact Or.inr (Or.inl h)
      · exact Or.inr (Or.inr ⟨x, hx, h⟩)

theorem entries_ne_nil {xs : LI L} (h : xs ≠ []) : entries xs ≠ [] := by
  cases xs with
  | nil => exact absurd rfl h
  | cons x r => simp [entries]

/-! ### `adjust_intervals`, stage 1 (`t_min`) -/

theorem mem_takeWhile_true {α : Type} {p : α → Bool} {l : List α} {x : α} (h : x ∈ l.takeWhile p) :
    p x = true := by
  induction l with
  | nil => cases h
  | cons y r ih =>
    by_cases hy : p y = true
    · rw [List.takeWhile_cons_of_pos hy] at h
      rcases List.mem_cons.1 h with rfl | h
      · exact hy
      · exact ih h
    · rw [List.takeWhile_cons_of_neg hy] at h; cases h

theorem cropMin_cases (a : Rat) (xs : LI L) :
    (cropMin a xs = xs ∧ xs.dropWhile (fun x => decide (x.2.1 ≤ a)) = []) ∨
    (cropMin a xs = xs.dropWhile (fun x => decide (x.2.1 ≤ a)) ∧
      xs.dropWhile (fun x => decide (x.2.1 ≤ a)) ≠ []) := by
  unfold cropMin
  cases h : xs.dropWhile (fun x => decide (x.2.1 ≤ a)) with
  | nil => exact Or.inl ⟨rfl, rfl⟩
  | cons y k => exact Or.inr ⟨rfl, by simp⟩

theorem cropMin_ne_nil {a : Rat} {xs : LI L} (h : xs ≠ []) : cropMin a xs ≠ [] := by
  rcases cropMin_cases a xs with ⟨h1, _⟩ | ⟨h1, h2⟩
  · rw [h1]; exact h
  · rw [h1]; exact h2

theorem cropMin_suffix (a : Rat) (xs : LI L) : cropMin a xs <:+ xs := by
  rcases cropMin_cases a xs with ⟨h1, _⟩ | ⟨h1, _⟩
  · rw [h1]; exact List.suffix_refl _
  · rw [h1]; exact List.dropWhile_suffix _

theorem labelAt_cropMin {a t : Rat} (h : a ≤ t) (xs : LI L) : labelAt (cropMin a xs) t = labelAt xs t := by
  rcases cropMin_cases a xs with ⟨h1, _⟩ | ⟨h1, _⟩
  · rw [h1]
  · rw [h1]
    conv_rhs => rw [← List.takeWhile_append_dropWhile (p := fun x => decide (x.2.1 ≤ a)) (l := xs)]
    rw [labelAt_append]
    have : labelAt (xs.takeWhile (fun x => decide (x.2.1 ≤ a))) t = none := by
      apply labelAt_none_of
      intro x hx hc
      have := mem_takeWhile_true hx
      simp only [decide_eq_true_eq] at this
      linarith [hc.2]
    rw [this]
    cases labelAt (xs.dropWhile (fun x => decide (x.2.1 ≤ a))) t <;> rfl

theorem labelAt_clipMin {a t : Rat} (h : a ≤ t) (xs : LI L) : labelAt (clipMin a xs) t = labelAt xs t := by
  unfold clipMin
  apply labelAt_map_congr
  intro x _
  refine ⟨rfl, ?_⟩
  simp only
  constructor <;> intro hh <;> constructor <;> grind

theorem labelAt_clipMax {b t : Rat} (h : t < b) (xs : LI L) : labelAt (clipMax b xs) t = labelAt xs t := by
  unfold clipMax
  apply labelAt_map_congr
  intro x _
  refine ⟨rfl, ?_⟩
  simp only
  constructor <;> intro hh <;> constructor <;> grind

theorem adjustMin_ok {a : Rat} {sl : L} {xs out : LI L} (h : adjustMin a sl xs = .ok out) :
    ∃ m, minL (entries (clipMin a (cropMin a xs))) = some m ∧
      out = if a < m then (a, m, sl) :: clipMin a (cropMin a xs) else clipMin a (cropMin a xs) := by
  unfold adjustMin at h
  simp only at h
  cases hm : minL (entries (clipMin a (cropMin a xs))) with
  | none => rw [hm] at h; cases h
  | some m =>
    rw [hm] at h
    refine ⟨m, rfl, ?_⟩
    by_cases hlt : a < m
    · simp only [hlt, if_true] at h ⊢; cases h; rfl
    · simp only [hlt, if_false] at h ⊢; cases h; rfl

theorem adjustMax_ok {b : Rat} {el : L} {xs out : LI L} (h : adjustMax b el xs = .ok out) :
    ∃ m, maxL (entries (clipMax b (cropMax b xs))) = some m ∧
      out = if m < b then clipMax b (cropMax b xs) ++ [(m, b, el)] else clipMax b (cropMax b xs) := by
  unfold adjustMax at h
  simp only at h
  cases hm : maxL (entries (clipMax b (cropMax b xs))) with
  | none => rw [hm] at h; cases h
  | some m =>
    rw [hm] at h
    refine ⟨m, rfl, ?_⟩
    by_cases hlt : m < b
    · simp only [hlt, if_true] at h ⊢; cases h; rfl
    · simp only [hlt, if_false] at h ⊢; cases h; rfl

/-- stage 1, any input: inside the range the labelling is kept, except that everything before the smallest
    surviving time gets the start label -/
theorem labelAt_adjustMin {a t : Rat} {sl : L} {xs out : LI L} {m : Rat}
    (hm : minL (entries (clipMin a (cropMin a xs))) = some m)
    (hout : out = if a < m then (a, m, sl) :: clipMin a (cropMin a xs) else clipMin a (cropMin a xs))
    (ht : a ≤ t) :
    labelAt out t = if t < m then some sl else labelAt xs t := by
  have hc : labelAt (clipMin a (cropMin a xs)) t = labelAt xs t := by
    rw [labelAt_clipMin ht, labelAt_cropMin ht]
  have hsp := minL_spec hm
  by_cases hlt : a < m
  · rw [hout, if_pos hlt, labelAt_cons]
    by_cases htm : t < m
    · have : labelAt (clipMin a (cropMin a xs)) t = none := by
        apply labelAt_none_of
        intro x hx hcov
        have := hsp.2 x.1 (mem_entries.2 ⟨x, hx, Or.inl rfl⟩)
        linarith [hcov.1]
      simp [this, htm, ht]
    · rw [hc, if_neg htm]
      have : ¬ (a ≤ t ∧ t < m) := fun hh => htm hh.2
      simp only [this, if_false]
      cases labelAt xs t <;> rfl
  · rw [hout, if_neg hlt, hc]
    have : ¬ t < m := by intro h; apply hlt; linarith
    rw [if_neg this]

/-! ### stage 2 (`t_max`) -/

theorem labelAt_cropMax {b t lo : Rat} (h : t < b) {xs : LI L} (hw : WChain lo xs) :
    labelAt (cropMax b xs) t = labelAt xs t := by
  induction xs generalizing lo with
  | nil => rfl
  | cons x r ih =>
    unfold cropMax
    by_cases hx : x.1 < b
    · rw [List.takeWhile_cons_of_pos (by simpa using hx), labelAt_cons, labelAt_cons]
      have := ih hw.2.2
      unfold cropMax at this
      rw [this]
    · rw [List.takeWhile_cons_of_neg (by simpa using hx)]
      symm
      apply labelAt_none_of
      intro y hy hc
      rcases List.mem_cons.1 hy with rfl | hy
      · apply hx; linarith [hc.1]
      · have := (hw.2.2.lb y hy).1
        apply hx; linarith [hc.1, hw.2.1]

/-- stage 2 on a time-ordered list: inside the range the labelling is kept, except that everything from the
    largest surviving time on gets the end label -/
theorem labelAt_adjustMax {b t lo : Rat} {el : L} {xs out : LI L} {m : Rat} (hw : WChain lo xs)
    (hm : maxL (entries (clipMax b (cropMax b xs))) = some m)
    (hout : out = if m < b then clipMax b (cropMax b xs) ++ [(m, b, el)] else clipMax b (cropMax b xs))
    (ht : t < b) :
    labelAt out t = if m ≤ t then some el else labelAt xs t := by
  have hc : labelAt (clipMax b (cropMax b xs)) t = labelAt xs t := by
    rw [labelAt_clipMax ht, labelAt_cropMax ht hw]
  have hsp := maxL_spec hm
  by_cases hlt : m < b
  · rw [hout, if_pos hlt, labelAt_append]
    by_cases htm : m ≤ t
    · have : labelAt [(m, b, el)] t = some el := by simp [labelAt, htm, ht]
      rw [this, if_pos htm]
    · have : labelAt [(m, b, el)] t = none := by simp [labelAt, htm]
      rw [this, if_neg htm, hc]
  · rw [hout, if_neg hlt, hc]
    have : ¬ m ≤ t := by intro h; apply hlt; linarith
    rw [if_neg this]

/-! ### chains through the two stages -/

theorem WChain.suffix {lo : Rat} {xs ys : LI L} (h : WChain lo xs) (hs : ys <:+ xs) : WChain lo ys := by
  obtain ⟨pre, rfl⟩ := hs
  induction pre generalizing lo with
  | nil => exact h
  | cons p r ih => exact ih (h.2.2.mono (le_trans h.1 h.2.1))

theorem Chain.suffix {lo : Rat} {xs ys : LI L} (h : Chain lo xs) (hs : ys <:+ xs) : Chain lo ys := by
  obtain ⟨pre, rfl⟩ := hs
  induction pre generalizing lo with
  | nil => exact h
  | cons p r ih => exact ih (h.2.2.mono (le_trans h.1 (le_of_lt h.2.1)))

theorem WChain.prefix {lo : Rat} {xs ys : LI L} (h : WChain lo xs) (hp : ys <+: xs) : WChain lo ys := by
  induction ys generalizing lo xs with
  | nil => trivial
  | cons y r ih =>
    cases xs with
    | nil => simp at hp
    | cons x xs' =>
      rw [List.cons_prefix_cons] at hp
      obtain ⟨rfl, hp⟩ := hp
      exact ⟨h.1, h.2.1, ih h.2.2 hp⟩

theorem WChain.clipMin {lo a : Rat} {xs : LI L} (h : WChain lo xs) : WChain (max a lo) (clipMin a xs) := by
  induction xs generalizing lo with
  | nil => trivial
  | cons x r ih =>
    refine ⟨?_, ?_, ih h.2.2⟩
    · exact max_le_max (le_refl a) h.1
    · exact max_le_max (le_refl a) h.2.1

theorem WChain.clipMax {lo b : Rat} {xs : LI L} (h : WChain lo xs) : WChain (min b lo) (clipMax b xs) := by
  induction xs generalizing lo with
  | nil => trivial
  | cons x r ih =>
    refine ⟨?_, ?_, ih h.2.2⟩
    · exact min_le_min (le_refl b) h.1
    · exact min_le_min (le_refl b) h.2.1

theorem WChain.append_one {lo : Rat} {xs : LI L} (h : WChain lo xs) {z : Rat × Rat × L}
    (hz : z.1 ≤ z.2.1) (hlo : lo ≤ z.1) (hall : ∀ x ∈ xs, x.2.1 ≤ z.1) : WChain lo (xs ++ [z]) := by
  induction xs generalizing lo with
  | nil => exact ⟨hlo, hz, trivial⟩
  | cons x r ih =>
    refine ⟨h.1, h.2.1, ih h.2.2 (hall x List.mem_cons_self) (fun y hy => hall y (List.mem_cons_of_mem _ hy))⟩

theorem minL_entries_wchain {lo : Rat} {x : Rat × Rat × L} {r : LI L} (h : WChain lo (x :: r)) :
    minL (entries (x :: r)) = some x.1 := by
  apply minL_eq
  · simp [entries]
  · intro v hv
    obtain ⟨y, hy, hv'⟩ := mem_entries.1 hv
    rcases List.mem_cons.1 hy with hyx | hy
    · rcases hv' with hv' | hv' <;> rw [hv', hyx]
      exact h.2.1
    · have := h.2.2.lb y hy
      rcases hv' with hv' | hv' <;> rw [hv']
      · linarith [h.2.1, this.1]
      · linarith [h.2.1, this.1, this.2]

theorem WChain.le_last {lo : Rat} {xs : LI L} (h : WChain lo xs) {z : Rat × Rat × L}
    (hz : xs.getLast? = some z) : lo ≤ z.2.1 ∧ ∀ x ∈ xs, x.1 ≤ z.2.1 ∧ x.2.1 ≤ z.2.1 := by
  induction xs generalizing lo with
  | nil => cases hz
  | cons x r ih =>
    cases r with
    | nil =>
      simp at hz
      subst hz
      refine ⟨le_trans h.1 h.2.1, ?_⟩
      intro y hy
      simp at hy
      subst hy
      exact ⟨h.2.1, le_refl _⟩
    | cons y r' =>
      rw [List.getLast?_cons_cons] at hz
      have := ih h.2.2 hz
      refine ⟨by linarith [h.1, h.2.1, this.1], ?_⟩
      intro w hw
      rcases List.mem_cons.1 hw with rfl | hw
      · exact ⟨by linarith [h.2.1, this.1], this.1⟩
      · exact this.2 w hw

theorem maxL_entries_wchain {lo : Rat} {xs : LI L} (h : WChain lo xs) {z : Rat × Rat × L}
    (hz : xs.getLast? = some z) : maxL (entries xs) = some z.2.1 := by
  apply maxL_eq
  · exact mem_entries.2 ⟨z, List.mem_of_getLast? hz, Or.inr rfl⟩
  · intro v hv
    obtain ⟨y, hy, hv⟩ := mem_entries.1 hv
    have := (h.le_last hz).2 y hy
    rcases hv with rfl | rfl
    · exact this.1
    · exact this.2

theorem bind_ok {α β : Type} {e : Py α} {f : α → Py β} {b : β} :
    (e >>= f) = .ok b ↔ ∃ a, e = .ok a ∧ f a = .ok b := by
  cases e with
  | error err => simp [bind, Except.bind]
  | ok a => simp [bind, Except.bind]

theorem map_ok {α β : Type} {e : Py α} {f : α → β} {b : β} :
    (e.map f) = .ok b ↔ ∃ a, e = .ok a ∧ f a = b := by
  cases e with
  | error err => simp [Except.map]
  | ok a => simp [Except.map]

theorem mem_clipMin {a : Rat} {xs : LI L} {y : Rat × Rat × L} (h : y ∈ clipMin a xs) :
    ∃ x ∈ xs, y = (max a x.1, max a x.2.1, x.2.2) := by
  unfold clipMin at h
  obtain ⟨x, hx, rfl⟩ := List.mem_map.1 h
  exact ⟨x, hx, rfl⟩

theorem mem_clipMax {b : Rat} {xs : LI L} {y : Rat × Rat × L} (h : y ∈ clipMax b xs) :
    ∃ x ∈ xs, y = (min b x.1, min b x.2.1, x.2.2) := by
  unfold clipMax at h
  obtain ⟨x, hx, rfl⟩ := List.mem_map.1 h
  exact ⟨x, hx, rfl⟩

theorem cropMax_prefix (b : Rat) (xs : LI L) : cropMax b xs <+: xs := List.takeWhile_prefix _

theorem mem_cropMax {b : Rat} {xs : LI L} {x : Rat × Rat × L} (h : x ∈ cropMax b xs) : x ∈ xs ∧ x.1 < b := by
  refine ⟨(cropMax_prefix b xs).subset h, ?_⟩
  have := mem_takeWhile_true h
  simpa using this

/-- stage 1 on a time-ordered non-empty input: the result is time-ordered, starts at `a` -/
theorem adjustMin_wchain {lo a : Rat} {sl : L} {xs out : LI L} (h : WChain lo xs) (hne : xs ≠ [])
    (ho : adjustMin a sl xs = .ok out) :
    WChain a out ∧ ∃ hd tl, out = hd :: tl ∧ hd.1 = a := by
  obtain ⟨m, hm, hout⟩ := adjustMin_ok ho
  have hc : WChain a (clipMin a (cropMin a xs)) :=
    ((h.suffix (cropMin_suffix a xs)).clipMin (a := a)).mono (le_max_left _ _)
  have hcne : clipMin a (cropMin a xs) ≠ [] := by
    unfold clipMin; simpa using cropMin_ne_nil (a := a) hne
  cases hck : clipMin a (cropMin a xs) with
  | nil => exact absurd hck hcne
  | cons k r =>
    rw [hck] at hc hm hout
    rw [minL_entries_wchain hc] at hm
    cases hm
    by_cases hlt : a < k.1
    · rw [if_pos hlt] at hout
      subst hout
      exact ⟨⟨le_refl _, le_of_lt hlt, le_refl _, hc.2.1, hc.2.2⟩, _, _, rfl, rfl⟩
    · rw [if_neg hlt] at hout
      subst hout
      exact ⟨hc, _, _, rfl, le_antisymm (not_lt.1 hlt) hc.1⟩

/-- stage 2 on a time-ordered input: the result is time-ordered, ends at `b`, and begins with the clipped
    first row -/
theorem adjustMax_wchain {lo b : Rat} {el : L} {xs out : LI L} (h : WChain lo xs)
    (ho : adjustMax b el xs = .ok out) :
    WChain (min b lo) out ∧ (∃ z, out.getLast? = some z ∧ z.2.1 = b) ∧
      (∀ hd tl, xs = hd :: tl → hd.1 < b ∧ ∃ tl', out = (min b hd.1, min b hd.2.1, hd.2.2) :: tl') := by
  obtain ⟨m, hm, hout⟩ := adjustMax_ok ho
  have hc : WChain (min b lo) (clipMax b (cropMax b xs)) := (h.prefix (cropMax_prefix b xs)).clipMax
  have hcne : clipMax b (cropMax b xs) ≠ [] := by
    intro h0; rw [h0] at hm; cases hm
  obtain ⟨z, hz⟩ : ∃ z, (clipMax b (cropMax b xs)).getLast? = some z := by
    cases hl : (clipMax b (cropMax b xs)).getLast? with
    | none => exact absurd (List.getLast?_eq_none_iff.1 hl) hcne
    | some z => exact ⟨z, rfl⟩
  have hmz : m = z.2.1 := by
    have := maxL_entries_wchain hc hz
    rw [hm] at this; cases this; rfl
  have hle := hc.le_last hz
  have hzb : z.2.1 ≤ b := by
    obtain ⟨x, _, hx⟩ := mem_clipMax (List.mem_of_getLast? hz)
    rw [hx]; exact min_le_left _ _
  have hhead : ∀ hd tl, xs = hd :: tl → hd.1 < b ∧
      ∃ tl', clipMax b (cropMax b xs) = (min b hd.1, min b hd.2.1, hd.2.2) :: tl' := by
    intro hd tl hx
    subst hx
    by_cases hb : hd.1 < b
    · refine ⟨hb, ?_⟩
      unfold cropMax clipMax
      rw [List.takeWhile_cons_of_pos (by simpa using hb)]
      exact ⟨_, rfl⟩
    · exfalso; apply hcne
      unfold cropMax clipMax
      rw [List.takeWhile_cons_of_neg (by simpa using hb)]
      rfl
  by_cases hlt : m < b
  · rw [if_pos hlt] at hout
    subst hout
    refine ⟨?_, ⟨(m, b, el), by simp, rfl⟩, ?_⟩
    · apply hc.append_one
      · exact le_of_lt hlt
      · rw [hmz]; exact hle.1
      · intro x hx; rw [hmz]; exact (hle.2 x hx).2
    · intro hd tl hx
      obtain ⟨hb, tl', ht⟩ := hhead hd tl hx
      exact ⟨hb, tl' ++ [(m, b, el)], by rw [ht]; rfl⟩
  · rw [if_neg hlt] at hout
    subst hout
    refine ⟨hc, ⟨z, hz, ?_⟩, hhead⟩
    rw [hmz] at hlt
    exact le_antisymm hzb (not_lt.1 hlt)

/-! ### range and positivity through the two stages -/

theorem adjustMin_lb {a : Rat} {sl : L} {xs out : LI L} (ho : adjustMin a sl xs = .ok out) :
    ∀ x ∈ out, a ≤ x.1 ∧ a ≤ x.2.1 := by
  obtain ⟨m, hm, hout⟩ := adjustMin_ok ho
  have hc : ∀ x ∈ clipMin a (cropMin a xs), a ≤ x.1 ∧ a ≤ x.2.1 := by
    intro x hx
    obtain ⟨y, _, rfl⟩ := mem_clipMin hx
    exact ⟨le_max_left _ _, le_max_left _ _⟩
  by_cases hlt : a < m
  · rw [if_pos hlt] at hout; subst hout
    intro x hx
    rcases List.mem_cons.1 hx with rfl | hx
    · exact ⟨le_refl _, le_of_lt hlt⟩
    · exact hc x hx
  · rw [if_neg hlt] at hout; subst hout; exact hc

theorem adjustMin_starts {a : Rat} {sl : L} {xs out : LI L} (ho : adjustMin a sl xs = .ok out) :
    ∀ x ∈ out, x.1 = a ∨ ∃ y ∈ xs, x.1 = max a y.1 := by
  obtain ⟨m, hm, hout⟩ := adjustMin_ok ho
  have hc : ∀ x ∈ clipMin a (cropMin a xs), x.1 = a ∨ ∃ y ∈ xs, x.1 = max a y.1 := by
    intro x hx
    obtain ⟨y, hy, rfl⟩ := mem_clipMin hx
    exact Or.inr ⟨y, (cropMin_suffix a xs).subset hy, rfl⟩
  by_cases hlt : a < m
  · rw [if_pos hlt] at hout; subst hout
    intro x hx
    rcases List.mem_cons.1 hx with rfl | hx
    · exact Or.inl rfl
    · exact hc x hx
  · rw [if_neg hlt] at hout; subst hout; exact hc

theorem adjustMax_ub {b : Rat} {el : L} {xs out : LI L} (ho : adjustMax b el xs = .ok out) :
    ∀ x ∈ out, x.1 ≤ b ∧ x.2.1 ≤ b := by
  obtain ⟨m, hm, hout⟩ := adjustMax_ok ho
  have hc : ∀ x ∈ clipMax b (cropMax b xs), x.1 ≤ b ∧ x.2.1 ≤ b := by
    intro x hx
    obtain ⟨y, _, rfl⟩ := mem_clipMax hx
    exact ⟨min_le_left _ _, min_le_left _ _⟩
  by_cases hlt : m < b
  · rw [if_pos hlt] at hout; subst hout
    intro x hx
    rcases List.mem_append.1 hx with hx | hx
    · exact hc x hx
    · simp at hx; subst hx; exact ⟨le_of_lt hlt, le_refl _⟩
  · rw [if_neg hlt] at hout; subst hout; exact hc

theorem adjustMax_lb {a b : Rat} {el : L} {xs out : LI L} (ho : adjustMax b el xs = .ok out)
    (hlb : ∀ x ∈ xs, a ≤ x.1 ∧ a ≤ x.2.1) : a ≤ b ∧ ∀ x ∈ out, a ≤ x.1 ∧ a ≤ x.2.1 := by
  obtain ⟨m, hm, hout⟩ := adjustMax_ok ho
  have hsp := maxL_spec hm
  obtain ⟨w, hw, hmw⟩ := mem_entries.1 hsp.1
  obtain ⟨w', hw', rfl⟩ := mem_clipMax hw
  have hw'' := mem_cropMax hw'
  have hab : a ≤ b := le_trans (hlb w' hw''.1).1 (le_of_lt hw''.2)
  have hc : ∀ x ∈ clipMax b (cropMax b xs), a ≤ x.1 ∧ a ≤ x.2.1 := by
    intro x hx
    obtain ⟨y, hy, rfl⟩ := mem_clipMax hx
    have := hlb y (mem_cropMax hy).1
    exact ⟨le_min hab this.1, le_min hab this.2⟩
  refine ⟨hab, ?_⟩
  by_cases hlt : m < b
  · rw [if_pos hlt] at hout; subst hout
    intro x hx
    rcases List.mem_append.1 hx with hx | hx
    · exact hc x hx
    · simp at hx; subst hx
      refine ⟨?_, hab⟩
      have := hc _ hw
      rcases hmw with h | h <;> rw [h]
      · exact this.1
      · exact this.2
  · rw [if_neg hlt] at hout; subst hout; exact hc

theorem dropWhile_head_false {α : Type} {p : α → Bool} {l : List α} {k : α} {r : List α}
    (h : l.dropWhile p = k :: r) : p k = false := by
  induction l with
  | nil => cases h
  | cons y l' ih =>
    by_cases hy : p y = true
    · rw [List.dropWhile_cons_of_pos hy] at h; exact ih h
    · rw [List.dropWhile_cons_of_neg hy] at h
      cases h
      simpa using hy

theorem dropWhile_nil_all {α : Type} {p : α → Bool} {l : List α} (h : l.dropWhile p = []) :
    ∀ x ∈ l, p x = true := by
  induction l with
  | nil => intro x hx; cases hx
  | cons y l' ih =>
    by_cases hy : p y = true
    · rw [List.dropWhile_cons_of_pos hy] at h
      intro x hx
      rcases List.mem_cons.1 hx with rfl | hx
      · exact hy
      · exact ih h x hx
    · rw [List.dropWhile_cons_of_neg hy] at h; cases h

theorem adjustMin_posdur {lo a : Rat} {sl : L} {xs out : LI L} (h : Chain lo xs)
    (hex : ∃ x ∈ xs, a < x.2.1) (ho : adjustMin a sl xs = .ok out) :
    ∀ x ∈ out, x.1 < x.2.1 := by
  obtain ⟨m, hm, hout⟩ := adjustMin_ok ho
  have hcrop : ∀ y ∈ cropMin a xs, y.1 < y.2.1 ∧ a < y.2.1 := by
    rcases cropMin_cases a xs with ⟨_, h2⟩ | ⟨h1, h2⟩
    · exfalso
      obtain ⟨x, hx, hxa⟩ := hex
      have := dropWhile_nil_all h2 x hx
      simp only [decide_eq_true_eq] at this
      linarith
    · cases hd : xs.dropWhile (fun x => decide (x.2.1 ≤ a)) with
      | nil => exact absurd hd h2
      | cons k r =>
        have hk := dropWhile_head_false hd
        simp only [decide_eq_false_iff_not, not_le] at hk
        have hsuf : (k :: r) <:+ xs := by rw [← hd]; exact List.dropWhile_suffix _
        have hch := h.suffix hsuf
        rw [h1, hd]
        intro y hy
        have hyx : y ∈ xs := hsuf.subset hy
        have hge : a < y.2.1 := by
          rcases List.mem_cons.1 hy with rfl | hy
          · exact hk
          · have := hch.2.2.lb y hy
            linarith [this.1, this.2]
        exact ⟨(h.lb y hyx).2, hge⟩
  have hc : ∀ x ∈ clipMin a (cropMin a xs), x.1 < x.2.1 := by
    intro x hx
    obtain ⟨y, hy, rfl⟩ := mem_clipMin hx
    have := hcrop y hy
    simp only
    grind
  by_cases hlt : a < m
  · rw [if_pos hlt] at hout; subst hout
    intro x hx
    rcases List.mem_cons.1 hx with rfl | hx
    · exact hlt
    · exact hc x hx
  · rw [if_neg hlt] at hout; subst hout; exact hc

theorem adjustMax_posdur {b : Rat} {el : L} {xs out : LI L}
    (hpos : ∀ x ∈ xs, x.1 < x.2.1) (ho : adjustMax b el xs = .ok out) :
    ∀ x ∈ out, x.1 < x.2.1 := by
  obtain ⟨m, hm, hout⟩ := adjustMax_ok ho
  have hc : ∀ x ∈ clipMax b (cropMax b xs), x.1 < x.2.1 := by
    intro x hx
    obtain ⟨y, hy, rfl⟩ := mem_clipMax hx
    have h1 := mem_cropMax hy
    have h2 := hpos y h1.1
    have : y.1 < b := h1.2
    simp only
    grind
  by_cases hlt : m < b
  · rw [if_pos hlt] at hout; subst hout
    intro x hx
    rcases List.mem_append.1 hx with hx | hx
    · exact hc x hx
    · simp at hx; subst hx; exact hlt
  · rw [if_neg hlt] at hout; subst hout; exact hc

/-- the two stages of `adjustIntervals` on a non-empty input -/
theorem adjustIntervals_ok {xs out : LI L} {tmin tmax : Option Rat} {sl el : L} (hne : xs ≠ [])
    (ho : adjustIntervals xs tmin tmax sl el = .ok out) :
    ∃ x1, (match tmin with
            | none => x1 = xs
            | some a => adjustMin a sl xs = .ok x1) ∧
          (match tmax with
            | none => out = x1
            | some b => adjustMax b el x1 = .ok out) := by
  cases xs with
  | nil => exact absurd rfl hne
  | cons x r =>
    simp only [adjustIntervals] at ho
    obtain ⟨x1, h1, h2⟩ := bind_ok.1 ho
    refine ⟨x1, ?_, ?_⟩
    · cases tmin with
      | none => simp only at h1 ⊢; cases h1; rfl
      | some a => exact h1
    · cases tmax with
      | none => simp only at h2 ⊢; cases h2; rfl
      | some b => exact h2

theorem adjustIntervals_nil_ok {out : LI L} {tmin tmax : Option Rat} {sl el : L}
    (ho : adjustIntervals ([] : LI L) tmin tmax sl el = .ok out) :
    ∃ a b, tmin = some a ∧ tmax = some b ∧ out = [(a, b, sl)] := by
  cases tmin <;> cases tmax <;> simp [adjustIntervals] at ho
  exact ⟨_, _, rfl, rfl, ho.symm⟩

/-! ### the labelling through the two stages, for time-ordered input -/

/-- `t_max = c` does not cut an internal gap: no gap `[e, s')` with `e < c ≤ s'`
    (a row starting exactly at `t_max` is dropped, so `c = s'` exposes the gap before it) -/
def NoStraddleMax (c : Rat) : LI L → Prop
  | x :: y :: r => ¬ (x.2.1 < c ∧ c ≤ y.1) ∧ NoStraddleMax c (y :: r)
  | _ => True

/-- `t_min = c` does not cut an internal gap: no gap `[e, s')` with `e ≤ c < s'`
    (a row ending exactly at `t_min` is dropped, so `c = e` exposes the gap after it) -/
def NoStraddleMin (c : Rat) : LI L → Prop
  | x :: y :: r => ¬ (x.2.1 ≤ c ∧ c < y.1) ∧ NoStraddleMin c (y :: r)
  | _ => True

theorem NoStraddleMax.tail {c : Rat} {x : Rat × Rat × L} {r : LI L} (h : NoStraddleMax c (x :: r)) :
    NoStraddleMax c r := by
  cases r with
  | nil => trivial
  | cons y r' => exact h.2

theorem NoStraddleMax.suffix {c : Rat} {xs ys : LI L} (h : NoStraddleMax c xs) (hs : ys <:+ xs) :
    NoStraddleMax c ys := by
  obtain ⟨pre, rfl⟩ := hs
  induction pre with
  | nil => exact h
  | cons p r ih => exact ih h.tail

theorem NoStraddleMax.clipMin {a b : Rat} (hab : a < b) {xs : LI L} (h : NoStraddleMax b xs) :
    NoStraddleMax b (clipMin a xs) := by
  induction xs with
  | nil => trivial
  | cons x r ih =>
    cases r with
    | nil => trivial
    | cons y r' =>
      refine ⟨?_, ih h.2⟩
      have := h.1
      simp only
      grind

theorem dropWhile_head_start {lo a t : Rat} {x0 k : Rat × Rat × L} {r r' : LI L}
    (h : Chain lo (x0 :: r)) (hs : NoStraddleMin a (x0 :: r)) (ht : a ≤ t)
    (hd : (x0 :: r).dropWhile (fun x => decide (x.2.1 ≤ a)) = k :: r') : (t < k.1 ↔ t < x0.1) := by
  induction r generalizing x0 lo with
  | nil =>
    by_cases hp : x0.2.1 ≤ a
    · rw [List.dropWhile_cons_of_pos (by simpa using hp)] at hd; cases hd
    · rw [List.dropWhile_cons_of_neg (by simpa using hp)] at hd; cases hd; rfl
  | cons y r'' ih =>
    by_cases hp : x0.2.1 ≤ a
    · rw [List.dropWhile_cons_of_pos (by simpa using hp)] at hd
      rw [ih h.2.2 hs.2 hd]
      have h1 := h.2.1
      have h2 := hs.1
      constructor <;> intro hh <;> exfalso <;> grind
    · rw [List.dropWhile_cons_of_neg (by simpa using hp)] at hd; cases hd; rfl

theorem labelAt_adjustMin_chain {lo a t : Rat} {sl : L} {x0 : Rat × Rat × L} {r out : LI L}
    (h : Chain lo (x0 :: r)) (hs : NoStraddleMin a (x0 :: r)) (ho : adjustMin a sl (x0 :: r) = .ok out)
    (ht : a ≤ t) : labelAt out t = if t < x0.1 then some sl else labelAt (x0 :: r) t := by
  obtain ⟨m, hm, hout⟩ := adjustMin_ok ho
  rw [labelAt_adjustMin hm hout ht]
  have hne : cropMin a (x0 :: r) ≠ [] := cropMin_ne_nil (by simp)
  cases hk : cropMin a (x0 :: r) with
  | nil => exact absurd hk hne
  | cons k r' =>
    have hw : WChain a (clipMin a (cropMin a (x0 :: r))) :=
      ((h.wchain.suffix (cropMin_suffix a _)).clipMin (a := a)).mono (le_max_left _ _)
    rw [hk] at hm hw
    have hmk : m = max a k.1 := by
      have := minL_entries_wchain (x := (max a k.1, max a k.2.1, k.2.2)) (r := clipMin a r') hw
      change minL (entries (clipMin a (k :: r'))) = _ at this
      rw [hm] at this; cases this; rfl
    have hk0 : (t < k.1 ↔ t < x0.1) := by
      rcases cropMin_cases a (x0 :: r) with ⟨h1, _⟩ | ⟨h1, _⟩
      · rw [h1] at hk; cases hk; rfl
      · rw [h1] at hk; exact dropWhile_head_start h hs ht hk
    have : (t < m ↔ t < x0.1) := by
      rw [← hk0, hmk]; constructor <;> intro hh <;> grind
    simp only [this]

theorem getLast?_append_ne {α : Type} (l1 l2 : List α) (h : l2 ≠ []) :
    (l1 ++ l2).getLast? = l2.getLast? := by
  rw [List.getLast?_append]
  cases hl : l2.getLast? with
  | none => exact absurd (List.getLast?_eq_none_iff.1 hl) h
  | some z => rfl

theorem adjustMin_last {a : Rat} {sl : L} {xs out : LI L} {z : Rat × Rat × L} (hz : xs.getLast? = some z)
    (ho : adjustMin a sl xs = .ok out) : ∃ z1, out.getLast? = some z1 ∧ z1.2.1 = max a z.2.1 := by
  obtain ⟨m, hm, hout⟩ := adjustMin_ok ho
  have hne : xs ≠ [] := by intro h; rw [h] at hz; cases hz
  have hcl : (clipMin a (cropMin a xs)).getLast? = some (max a z.1, max a z.2.1, z.2.2) := by
    unfold clipMin
    rw [List.getLast?_map]
    obtain ⟨pre, hpre⟩ := cropMin_suffix a xs
    have : (cropMin a xs).getLast? = xs.getLast? := by
      conv_rhs => rw [← hpre]
      rw [getLast?_append_ne _ _ (cropMin_ne_nil hne)]
    rw [this, hz]; rfl
  by_cases hlt : a < m
  · rw [if_pos hlt] at hout; subst hout
    refine ⟨(max a z.1, max a z.2.1, z.2.2), ?_, rfl⟩
    cases hc : clipMin a (cropMin a xs) with
    | nil => rw [hc] at hcl; cases hcl
    | cons k r => rw [List.getLast?_cons_cons, ← hc]; exact hcl
  · rw [if_neg hlt] at hout; subst hout; exact ⟨_, hcl, rfl⟩

theorem adjustMin_noStraddle {lo a b : Rat} {sl : L} {xs out : LI L} (h : WChain lo xs)
    (hab : a < b) (hs : NoStraddleMax b xs) (ho : adjustMin a sl xs = .ok out) : NoStraddleMax b out := by
  obtain ⟨m, hm, hout⟩ := adjustMin_ok ho
  have hc : NoStraddleMax b (clipMin a (cropMin a xs)) := (hs.suffix (cropMin_suffix a xs)).clipMin hab
  by_cases hlt : a < m
  · rw [if_pos hlt] at hout; subst hout
    cases hk : clipMin a (cropMin a xs) with
    | nil => trivial
    | cons k r =>
      have hw : WChain a (clipMin a (cropMin a xs)) :=
        ((h.suffix (cropMin_suffix a xs)).clipMin (a := a)).mono (le_max_left _ _)
      rw [hk] at hm hw hc
      rw [minL_entries_wchain hw] at hm
      cases hm
      refine ⟨?_, hc⟩
      simp only
      intro hh; linarith [hh.1, hh.2]
  · rw [if_neg hlt] at hout; subst hout; exact hc

theorem takeWhile_last_end {lo b t : Rat} {x0 z z' : Rat × Rat × L} {r : LI L}
    (h : WChain lo (x0 :: r)) (hs : NoStraddleMax b (x0 :: r)) (ht : t < b) (hx0 : x0.1 < b)
    (hz' : ((x0 :: r).takeWhile (fun x => decide (x.1 < b))).getLast? = some z')
    (hz : (x0 :: r).getLast? = some z) : (z'.2.1 ≤ t ↔ z.2.1 ≤ t) := by
  induction r generalizing x0 lo with
  | nil =>
    rw [List.takeWhile_cons_of_pos (by simpa using hx0)] at hz'
    simp at hz' hz
    rw [← hz', ← hz]
  | cons y r' ih =>
    rw [List.takeWhile_cons_of_pos (by simpa using hx0)] at hz'
    rw [List.getLast?_cons_cons] at hz
    by_cases hy : y.1 < b
    · rw [List.takeWhile_cons_of_pos (by simpa using hy), List.getLast?_cons_cons] at hz'
      have := ih h.2.2 hs.2 hy (by rw [List.takeWhile_cons_of_pos (by simpa using hy)]; exact hz') hz
      exact this
    · rw [List.takeWhile_cons_of_neg (by simpa using hy)] at hz'
      simp at hz'
      subst hz'
      have h1 := (h.2.2.le_last hz).2 y List.mem_cons_self
      have h2 := hs.1
      have h3 := h.2.2.2.1
      constructor <;> intro hh <;> exfalso <;> grind

theorem labelAt_adjustMax_chain {lo b t : Rat} {el : L} {xs out : LI L} {z : Rat × Rat × L}
    (hw : WChain lo xs) (hs : NoStraddleMax b xs) (hz : xs.getLast? = some z)
    (ho : adjustMax b el xs = .ok out) (ht : t < b) :
    labelAt out t = if z.2.1 ≤ t then some el else labelAt xs t := by
  obtain ⟨m, hm, hout⟩ := adjustMax_ok ho
  rw [labelAt_adjustMax hw hm hout ht]
  have hc : WChain (min b lo) (clipMax b (cropMax b xs)) := (hw.prefix (cropMax_prefix b xs)).clipMax
  have hcne : cropMax b xs ≠ [] := by
    intro h0; rw [h0] at hm; cases hm
  cases hxs : xs with
  | nil => rw [hxs] at hz; cases hz
  | cons x0 r =>
    subst hxs
    have hx0 : x0.1 < b := by
      by_contra hb
      apply hcne
      unfold cropMax
      rw [List.takeWhile_cons_of_neg (by simpa using hb)]
    obtain ⟨z', hz'⟩ : ∃ z', (cropMax b (x0 :: r)).getLast? = some z' := by
      cases hl : (cropMax b (x0 :: r)).getLast? with
      | none => exact absurd (List.getLast?_eq_none_iff.1 hl) hcne
      | some z' => exact ⟨z', rfl⟩
    have hcl : (clipMax b (cropMax b (x0 :: r))).getLast? = some (min b z'.1, min b z'.2.1, z'.2.2) := by
      unfold clipMax; rw [List.getLast?_map, hz']; rfl
    have hmz : m = min b z'.2.1 := by
      have := maxL_entries_wchain hc hcl
      rw [hm] at this; cases this; rfl
    have h1 := takeWhile_last_end hw hs ht hx0 hz' hz
    have : (m ≤ t ↔ z.2.1 ≤ t) := by
      rw [← h1, hmz]; constructor <;> intro hh <;> grind
    simp only [this]

/-! ### `interpolate_intervals` -/

theorem isNondecreasing_cons {t0 : Rat} {r : List Rat} (h : isNondecreasing (t0 :: r) = true) :
    isNondecreasing r = true ∧ ∀ v ∈ r, t0 ≤ v := by
  induction r generalizing t0 with
  | nil => exact ⟨rfl, fun v hv => by cases hv⟩
  | cons t1 r' ih =>
    simp only [isNondecreasing, Bool.and_eq_true, decide_eq_true_eq] at h
    refine ⟨h.2, ?_⟩
    intro v hv
    rcases List.mem_cons.1 hv with rfl | hv
    · exact h.1
    · exact le_trans h.1 ((ih h.2).2 v hv)

theorem countP_eq_zero_of {p : Rat → Bool} {l : List Rat} (h : ∀ v ∈ l, p v = false) : l.countP p = 0 := by
  rw [List.countP_eq_zero]
  intro v hv
  simp [h v hv]

/-- on a non-decreasing array, `searchsorted(side='left')` / `(side='right')` bracket exactly the entries
    in `[s, e]` -/
theorem searchsorted_iff {tps : List Rat} (h : isNondecreasing tps = true) (s e : Rat) (j : Nat)
    (hj : j < tps.length) :
    (tps.countP (fun t => decide (t < s)) ≤ j ↔ s ≤ tps[j]) ∧
    (j < tps.countP (fun t => decide (t ≤ e)) ↔ tps[j] ≤ e) := by
  induction tps generalizing j with
  | nil => cases hj
  | cons t0 r ih =>
    obtain ⟨hr, hle⟩ := isNondecreasing_cons h
    rw [List.countP_cons, List.countP_cons]
    cases j with
    | zero =>
      simp only [List.getElem_cons_zero]
      constructor
      · by_cases h0 : t0 < s
        · simp [h0]
        · have : r.countP (fun t => decide (t < s)) = 0 := by
            apply countP_eq_zero_of
            intro v hv
            have := hle v hv
            simp only [decide_eq_false_iff_not, not_lt]; linarith
          simp [h0, this, not_lt.1 h0]
      · by_cases h0 : t0 ≤ e
        · simp [h0]
        · have : r.countP (fun t => decide (t ≤ e)) = 0 := by
            apply countP_eq_zero_of
            intro v hv
            have := hle v hv
            simp only [decide_eq_false_iff_not, not_le]; linarith
          simp [h0, this]
    | succ j' =>
      have hj' : j' < r.length := by simpa using hj
      have := ih hr j' hj'
      simp only [List.getElem_cons_succ]
      constructor
      · by_cases h0 : t0 < s
        · simp only [h0, decide_true, if_true]
          rw [← this.1]; omega
        · have hc : r.countP (fun t => decide (t < s)) = 0 := by
            apply countP_eq_zero_of
            intro v hv
            have := hle v hv
            simp only [decide_eq_false_iff_not, not_lt]; linarith
          have : s ≤ r[j'] := le_trans (not_lt.1 h0) (hle _ (List.getElem_mem _))
          simp [h0, hc, this]
      · by_cases h0 : t0 ≤ e
        · simp only [h0, decide_true, if_true]
          rw [← this.2]; omega
        · have hc : r.countP (fun t => decide (t ≤ e)) = 0 := by
            apply countP_eq_zero_of
            intro v hv
            have := hle v hv
            simp only [decide_eq_false_iff_not, not_le]; linarith
          have : ¬ r[j'] ≤ e := by
            have := hle _ (List.getElem_mem hj')
            intro hh; apply h0; linarith
          simp [h0, hc, this]

theorem interpolateStep_eq {tps : List Rat} (h : isNondecreasing tps = true) (acc : List L)
    (hlen : acc.length = tps.length) (x : Rat × Rat × L) :
    interpolateStep tps acc x =
      List.zipWith (fun t v => if x.1 ≤ t ∧ t ≤ x.2.1 then x.2.2 else v) tps acc := by
  apply List.ext_getElem
  · simp [interpolateStep, sliceAssign, hlen]
  · intro j h1 h2
    have hj : j < tps.length := by
      simp [interpolateStep, sliceAssign] at h1; omega
    have := searchsorted_iff h x.1 x.2.1 j hj
    simp only [interpolateStep, sliceAssign, List.getElem_mapIdx, List.getElem_zipWith, this.1, this.2]

theorem zipWith_map_self {α β γ : Type} (f : α → β → γ) (g : α → β) (l : List α) :
    List.zipWith f l (l.map g) = l.map fun a => f a (g a) := by
  induction l with
  | nil => rfl
  | cons a r ih => simp [ih]

theorem interpolate_fold {tps : List Rat} (h : isNondecreasing tps = true) (xs : LI L) (g : Rat → L) :
    xs.foldl (interpolateStep tps) (tps.map g) =
      tps.map fun t => match labelAtC xs t with
        | some l => l
        | none => g t := by
  induction xs generalizing g with
  | nil => simp [labelAtC]
  | cons x r ih =>
    rw [List.foldl_cons, interpolateStep_eq h _ (by simp), zipWith_map_self, ih]
    apply List.map_congr_left
    intro t _
    simp only [labelAtC]
    cases labelAtC r t with
    | some l => rfl
    | none =>
      by_cases hc : x.1 ≤ t ∧ t ≤ x.2.1
      · simp only [hc, and_self, if_true]
      · simp only [hc, if_false]

theorem interpolate_eq (xs : LI L) (tps : List Rat) (fill : L) :
    interpolate xs tps fill =
      if isNondecreasing tps = true then .ok (tps.map fun t => (labelAtC xs t).getD fill)
      else .error .valueError := by
  unfold interpolate
  by_cases h : isNondecreasing tps = true
  · rw [if_pos h, if_pos h, interpolate_fold h]
    congr 1
  · rw [if_neg h, if_neg h]

theorem isNondecreasing_range' (size offset : Rat) (hs : 0 ≤ size) (s n : Nat) :
    isNondecreasing ((List.range' s n).map fun (i : Nat) => (i : Rat) * size + offset) = true := by
  induction n generalizing s with
  | zero => rfl
  | succ n ih =>
    cases n with
    | zero => rfl
    | succ n' =>
      have := ih (s + 1)
      simp only [List.range'_succ, List.map_cons, isNondecreasing, Bool.and_eq_true, decide_eq_true_eq] at this ⊢
      refine ⟨?_, this⟩
      push_cast
      nlinarith

theorem isNondecreasing_sampleTimes (n : Nat) (size offset : Rat) (hs : 0 ≤ size) :
    isNondecreasing (sampleTimes n size offset) = true := by
  unfold sampleTimes
  rw [List.range_eq_range']
  exact isNondecreasing_range' size offset hs 0 n

/-! ### what `labelAtC` denotes -/

theorem labelAtC_none_iff {xs : LI L} {t : Rat} :
    labelAtC xs t = none ↔ ∀ x ∈ xs, ¬ (x.1 ≤ t ∧ t ≤ x.2.1) := by
  induction xs with
  | nil => simp [labelAtC]
  | cons x r ih =>
    simp only [labelAtC, List.mem_cons, forall_eq_or_imp]
    cases hr : labelAtC r t with
    | some l =>
      simp only [reduceCtorEq, false_iff]
      intro hall
      rw [hr] at ih
      exact absurd (ih.2 hall.2) (by simp)
    | none =>
      rw [hr] at ih
      by_cases hc : x.1 ≤ t ∧ t ≤ x.2.1
      · simp [hc]
      · simp only [hc, if_false, true_iff, not_false_eq_true, true_and]
        exact ih.1 rfl

/-- `labelAtC` returns the label of the last row (by position) whose closed span contains `t` -/
theorem labelAtC_some {xs : LI L} {t : Rat} {l : L} (h : labelAtC xs t = some l) :
    ∃ pre x post, xs = pre ++ x :: post ∧ x.1 ≤ t ∧ t ≤ x.2.1 ∧ x.2.2 = l ∧
      ∀ y ∈ post, ¬ (y.1 ≤ t ∧ t ≤ y.2.1) := by
  induction xs with
  | nil => cases h
  | cons x r ih =>
    simp only [labelAtC] at h
    cases hr : labelAtC r t with
    | some l' =>
      rw [hr] at h ih
      cases h
      obtain ⟨pre, y, post, rfl, h1, h2, h3, h4⟩ := ih rfl
      exact ⟨x :: pre, y, post, rfl, h1, h2, h3, h4⟩
    | none =>
      rw [hr] at h
      by_cases hc : x.1 ≤ t ∧ t ≤ x.2.1
      · simp only [hc, and_self, if_true] at h
        cases h
        exact ⟨[], x, r, rfl, hc.1, hc.2, rfl, labelAtC_none_iff.1 hr⟩
      · simp [hc] at h

/-- on a time-ordered annotation the closed and the half-open reading agree wherever the latter is defined -/
theorem labelAtC_of_labelAt {lo : Rat} {xs : LI L} (hc : Chain lo xs) {t : Rat} {l : L}
    (h : labelAt xs t = some l) : labelAtC xs t = some l := by
  induction xs generalizing lo with
  | nil => cases h
  | cons x r ih =>
    simp only [labelAt] at h
    simp only [labelAtC]
    cases hr : labelAt r t with
    | some l' =>
      rw [hr] at h; cases h
      rw [ih hc.2.2 hr]
    | none =>
      rw [hr] at h
      by_cases hcov : x.1 ≤ t ∧ t < x.2.1
      · simp only [hcov, and_self, if_true] at h
        cases h
        have : labelAtC r t = none := by
          rw [labelAtC_none_iff]
          intro y hy hh
          have := (hc.2.2.lb y hy).1
          linarith [hh.1, hcov.2]
        rw [this]
        simp [hcov.1, le_of_lt hcov.2]
      · simp [hcov] at h

/-! ### `np.unique` -/

abbrev SSorted (l : List Rat) : Prop := l.Pairwise (· < ·)

theorem mem_insertU {a v : Rat} {l : List Rat} : v ∈ insertU a l ↔ v = a ∨ v ∈ l := by
  induction l with
  | nil => simp [insertU]
  | cons b r ih =>
    simp only [insertU]
    split
    · simp
    · split
      · rename_i h; subst h; simp
      · simp only [List.mem_cons, ih]; tauto

theorem insertU_sorted {a : Rat} {l : List Rat} (h : SSorted l) : SSorted (insertU a l) := by
  induction l with
  | nil => simp [insertU, SSorted]
  | cons b r ih =>
    simp only [insertU]
    split
    · rename_i hab
      refine List.pairwise_cons.2 ⟨?_, h⟩
      intro v hv
      rcases List.mem_cons.1 hv with rfl | hv
      · exact hab
      · exact lt_trans hab ((List.pairwise_cons.1 h).1 v hv)
    · split
      · exact h
      · rename_i h1 h2
        have hba : b < a := lt_of_le_of_ne (not_lt.1 h1) (Ne.symm h2)
        refine List.pairwise_cons.2 ⟨?_, ih (List.pairwise_cons.1 h).2⟩
        intro v hv
        rcases mem_insertU.1 hv with rfl | hv
        · exact hba
        · exact (List.pairwise_cons.1 h).1 v hv

theorem mem_usort {v : Rat} {l : List Rat} : v ∈ usort l ↔ v ∈ l := by
  induction l with
  | nil => simp [usort]
  | cons a r ih =>
    have : usort (a :: r) = insertU a (usort r) := rfl
    rw [this, mem_insertU, ih]; simp

theorem usort_sorted (l : List Rat) : SSorted (usort l) := by
  induction l with
  | nil => simp [usort, SSorted]
  | cons a r ih => exact insertU_sorted ih

theorem sorted_ext {l1 l2 : List Rat} (h1 : SSorted l1) (h2 : SSorted l2)
    (hm : ∀ v, v ∈ l1 ↔ v ∈ l2) : l1 = l2 := by
  induction l1 generalizing l2 with
  | nil =>
    cases l2 with
    | nil => rfl
    | cons b r => exact absurd ((hm b).2 List.mem_cons_self) (by simp)
  | cons a r1 ih =>
    cases l2 with
    | nil => exact absurd ((hm a).1 List.mem_cons_self) (by simp)
    | cons b r2 =>
      have p1 := List.pairwise_cons.1 h1
      have p2 := List.pairwise_cons.1 h2
      have hab : a = b := by
        have ha := (hm a).1 List.mem_cons_self
        have hb := (hm b).2 List.mem_cons_self
        rcases List.mem_cons.1 ha with h | h
        · exact h
        · rcases List.mem_cons.1 hb with h' | h'
          · exact h'.symm
          · have := p2.1 a h; have := p1.1 b h'; linarith
      subst hab
      congr 1
      apply ih p1.2 p2.2
      intro v
      constructor
      · intro hv
        rcases List.mem_cons.1 ((hm v).1 (List.mem_cons_of_mem _ hv)) with h | h
        · have := p1.1 v hv; rw [h] at this; exact absurd this (lt_irrefl _)
        · exact h
      · intro hv
        rcases List.mem_cons.1 ((hm v).2 (List.mem_cons_of_mem _ hv)) with h | h
        · have := p2.1 v hv; rw [h] at this; exact absurd this (lt_irrefl _)
        · exact h

theorem usort_of_sorted {l : List Rat} (h : SSorted l) : usort l = l :=
  sorted_ext (usort_sorted l) h (fun _ => mem_usort)

theorem usort_congr {l1 l2 : List Rat} (h : ∀ v, v ∈ l1 ↔ v ∈ l2) : usort l1 = usort l2 :=
  sorted_ext (usort_sorted _) (usort_sorted _) (fun v => by rw [mem_usort, mem_usort, h])

theorem insertU_usort (a : Rat) (l : List Rat) : insertU a (usort l) = usort (a :: l) := rfl

/-! ### boundaries ↔ intervals -/

/-- first start followed by all ends -/
def bounds : LI L → List Rat
  | [] => []
  | x :: r => match r with
    | [] => [x.1, x.2.1]
    | _ :: _ => x.1 :: bounds r

theorem bounds_cons_head (y : Rat × Rat × L) (r : LI L) : ∃ tl, bounds (y :: r) = y.1 :: tl := by
  cases r with
  | nil => exact ⟨_, rfl⟩
  | cons z r' => exact ⟨_, rfl⟩

theorem entriesP_ivals (xs : LI L) : entriesP (ivals xs) = entries xs := by
  induction xs with
  | nil => rfl
  | cons x r ih => simp only [ivals, List.map_cons, entriesP, entries] at ih ⊢; rw [ih]

theorem usort_entries_contig {lo : Rat} {xs : LI L} (h : Contig lo xs) : usort (entries xs) = bounds xs := by
  induction xs generalizing lo with
  | nil => rfl
  | cons x r ih =>
    cases r with
    | nil => simp [entries, usort, insertU, bounds, h.2.1]
    | cons y r' =>
      have ih' := ih h.2.2
      obtain ⟨tl, htl⟩ := bounds_cons_head y r'
      have e1 : usort (entries (x :: y :: r')) = insertU x.1 (insertU x.2.1 (usort (entries (y :: r')))) := rfl
      have hxy : x.2.1 = y.1 := h.2.2.1
      have hlt : x.1 < y.1 := hxy ▸ h.2.1
      rw [e1, ih', htl]
      have : insertU x.2.1 (y.1 :: tl) = y.1 :: tl := by simp [insertU, hxy]
      rw [this]
      have : insertU x.1 (y.1 :: tl) = x.1 :: y.1 :: tl := by simp [insertU, hlt]
      rw [this, ← htl]
      rfl

theorem pairs_cons_cons (a b : Rat) (tl : List Rat) : pairs (a :: b :: tl) = (a, b) :: pairs (b :: tl) := rfl

theorem pairs_bounds_contig {lo : Rat} {xs : LI L} (h : Contig lo xs) : pairs (bounds xs) = ivals xs := by
  induction xs generalizing lo with
  | nil => rfl
  | cons x r ih =>
    cases r with
    | nil => rfl
    | cons y r' =>
      have ih' := ih h.2.2
      obtain ⟨tl, htl⟩ := bounds_cons_head y r'
      have hxy : x.2.1 = y.1 := h.2.2.1
      have : bounds (x :: y :: r') = x.1 :: bounds (y :: r') := rfl
      rw [this, htl, pairs_cons_cons, ← htl, ih', ← hxy]
      rfl

theorem qabs_nonneg (x : Rat) : 0 ≤ qabs x := by unfold qabs; split <;> linarith

theorem isclose_self (x : Rat) : isclose x x = true := by
  unfold isclose
  have h := qabs_nonneg x
  have : qabs (x - x) = 0 := by simp [qabs]
  simp only [decide_eq_true_eq, this]
  nlinarith

theorem b2i_sorted {bs : List Rat} (h : SSorted bs) : boundariesToIntervals bs = .ok (pairs bs) := by
  unfold boundariesToIntervals
  simp only [usort_of_sorted h, if_true]
  have : ((bs.zip bs).all fun p => isclose p.1 p.2) = true := by
    rw [List.all_eq_true]
    intro p hp
    have : p.1 = p.2 := by
      clear h
      induction bs with
      | nil => cases hp
      | cons b r ih =>
        simp only [List.zip_cons_cons, List.mem_cons] at hp
        rcases hp with rfl | hp
        · rfl
        · exact ih hp
    rw [this]; exact isclose_self _
  rw [this]; rfl

theorem mem_entriesP_pairs {bs : List Rat} (hlen : 2 ≤ bs.length) {v : Rat} :
    v ∈ entriesP (pairs bs) ↔ v ∈ bs := by
  induction bs with
  | nil => simp at hlen
  | cons a r ih =>
    cases r with
    | nil => simp at hlen
    | cons b r' =>
      rw [pairs_cons_cons]
      simp only [entriesP, List.mem_cons]
      cases r' with
      | nil => simp [pairs, entriesP]
      | cons c r'' =>
        have := ih (by simp)
        rw [this]
        simp only [List.mem_cons]
        tauto

/-! ### no exception on a proper range -/

theorem adjustMin_total {a : Rat} {sl : L} {xs : LI L} (hne : xs ≠ []) : ∃ out, adjustMin a sl xs = .ok out := by
  unfold adjustMin
  have : entries (clipMin a (cropMin a xs)) ≠ [] := by
    apply entries_ne_nil
    unfold clipMin; simpa using cropMin_ne_nil (a := a) hne
  obtain ⟨m, hm⟩ := minL_ne_none this
  simp only [hm]
  split <;> exact ⟨_, rfl⟩

theorem adjustMax_total {b : Rat} {el : L} {hd : Rat × Rat × L} {tl : LI L} (h : hd.1 < b) :
    ∃ out, adjustMax b el (hd :: tl) = .ok out := by
  unfold adjustMax
  have : entries (clipMax b (cropMax b (hd :: tl))) ≠ [] := by
    apply entries_ne_nil
    unfold clipMax cropMax
    rw [List.takeWhile_cons_of_pos (by simpa using h)]
    simp
  obtain ⟨m, hm⟩ := maxL_ne_none this
  simp only [hm]
  split <;> exact ⟨_, rfl⟩

end Mir.Iv
