import MirProofs.Lemmas.Intervals

/-! Lemmas about `util.adjust_events` (C13 `adjust_events_spec`). -/
namespace Mir.Iv

variable {L : Type}

/-- events in time order (ties allowed) -/
def EvSorted (xs : List (Rat × L)) : Prop := xs.Pairwise (fun x y => x.1 ≤ y.1)

/-- is `t` one of the event times? -/
def hasTime (t : Rat) (xs : List (Rat × L)) : Bool := xs.any fun x => decide (x.1 = t)

theorem hasTime_iff {t : Rat} {xs : List (Rat × L)} : hasTime t xs = true ↔ ∃ x ∈ xs, x.1 = t := by
  simp [hasTime]

/-- stage 1 of `adjust_events` (`t_min = a`) -/
def evMin (a : Rat) (minLab : L) (xs : List (Rat × L)) : Py (List (Rat × L)) :=
  let k := match xs.dropWhile (fun x => decide (x.1 < a)) with
    | [] => xs
    | k => k
  match k with
  | [] => .error .indexError
  | h :: _ => if a < h.1 then .ok ((a, minLab) :: k) else .ok k

/-- stage 2 of `adjust_events` (`t_max = b`) -/
def evMax (b : Rat) (maxLab : L) (x1 : List (Rat × L)) : Py (List (Rat × L)) :=
  let k := x1.takeWhile (fun x => decide (x.1 ≤ b))
  match k.getLast? with
  | none => .error .indexError
  | some z => if z.1 < b then .ok (k ++ [(b, maxLab)]) else .ok k

theorem adjustEvents_eq (xs : List (Rat × L)) (tmin tmax : Option Rat) (minLab maxLab : L) :
    adjustEvents xs tmin tmax minLab maxLab =
      ((match tmin with
        | none => .ok xs
        | some a => evMin a minLab xs) >>= fun x1 =>
       match tmax with
        | none => .ok x1
        | some b => evMax b maxLab x1) := rfl

/-! ### on time-ordered events `argwhere(...)[0]` slicing is filtering -/

theorem dropWhile_eq_filter {xs : List (Rat × L)} (hs : EvSorted xs) (a : Rat) :
    xs.dropWhile (fun x => decide (x.1 < a)) = xs.filter (fun x => decide (a ≤ x.1)) := by
  induction xs with
  | nil => rfl
  | cons x r ih =>
    have p1 := List.pairwise_cons.1 hs
    by_cases hx : x.1 < a
    · have hx' : ¬ a ≤ x.1 := not_le.2 hx
      simp only [List.dropWhile_cons, List.filter_cons, hx, hx', decide_true, decide_false, if_true]
      exact ih p1.2
    · have hx' : a ≤ x.1 := not_lt.1 hx
      have hr : r.filter (fun y => decide (a ≤ y.1)) = r := by
        rw [List.filter_eq_self]
        intro y hy
        simp only [decide_eq_true_eq]
        exact le_trans hx' (p1.1 y hy)
      simp only [List.dropWhile_cons, List.filter_cons, hx, hx', decide_true, decide_false, if_true, hr]
      simp

theorem takeWhile_eq_filter {xs : List (Rat × L)} (hs : EvSorted xs) (b : Rat) :
    xs.takeWhile (fun x => decide (x.1 ≤ b)) = xs.filter (fun x => decide (x.1 ≤ b)) := by
  induction xs with
  | nil => rfl
  | cons x r ih =>
    have p1 := List.pairwise_cons.1 hs
    by_cases hx : x.1 ≤ b
    · simp only [List.takeWhile_cons, List.filter_cons, hx, decide_true, if_true]
      rw [ih p1.2]
    · have hr : r.filter (fun y => decide (y.1 ≤ b)) = [] := by
        rw [List.filter_eq_nil_iff]
        intro y hy
        simp only [decide_eq_true_eq]
        intro hyb
        exact hx (le_trans (p1.1 y hy) hyb)
      simp only [List.takeWhile_cons, List.filter_cons, hx, decide_false, hr]
      simp

theorem EvSorted.filter {xs : List (Rat × L)} (hs : EvSorted xs) (p : Rat × L → Bool) : EvSorted (xs.filter p) :=
  List.Pairwise.sublist List.filter_sublist hs

theorem evSorted_le_last {k : List (Rat × L)} (hs : EvSorted k) {z : Rat × L} (hz : k.getLast? = some z) :
    ∀ x ∈ k, x.1 ≤ z.1 := by
  induction k with
  | nil => cases hz
  | cons a r ih =>
    cases r with
    | nil =>
      simp at hz; subst hz
      intro v hv; simp at hv; subst hv; exact le_refl _
    | cons b tl =>
      rw [List.getLast?_cons_cons] at hz
      have p1 := List.pairwise_cons.1 hs
      have := ih p1.2 hz
      intro v hv
      rcases List.mem_cons.1 hv with rfl | hv
      · exact le_trans (p1.1 b List.mem_cons_self) (this b List.mem_cons_self)
      · exact this v hv

/-! ### the two stages on time-ordered events -/

/-- stage 1 when some event reaches `a`: the events `≥ a` in order, `a` put in front unless it is an event time -/
theorem evMin_spec {xs : List (Rat × L)} {a : Rat} (minLab : L) (hs : EvSorted xs) (hex : ∃ x ∈ xs, a ≤ x.1) :
    evMin a minLab xs =
      .ok ((if hasTime a xs then [] else [(a, minLab)]) ++ xs.filter (fun x => decide (a ≤ x.1))) := by
  unfold evMin
  rw [dropWhile_eq_filter hs]
  cases hf : xs.filter (fun x => decide (a ≤ x.1)) with
  | nil =>
    obtain ⟨x, hx, hax⟩ := hex
    have := List.filter_eq_nil_iff.1 hf x hx
    simp only [decide_eq_true_eq] at this
    exact absurd hax this
  | cons h tl =>
    have hsf : EvSorted (h :: tl) := hf ▸ hs.filter _
    have hmem : h ∈ xs.filter (fun x => decide (a ≤ x.1)) := by rw [hf]; exact List.mem_cons_self
    have hh := List.mem_filter.1 hmem
    have hah : a ≤ h.1 := by simpa using hh.2
    simp only
    by_cases hlt : a < h.1
    · have : hasTime a xs = false := by
        rw [Bool.eq_false_iff]
        intro ht
        obtain ⟨x, hx, hxa⟩ := hasTime_iff.1 ht
        have hxm : x ∈ h :: tl := by
          rw [← hf]; exact List.mem_filter.2 ⟨hx, by simp [hxa]⟩
        rcases List.mem_cons.1 hxm with rfl | hxt
        · linarith
        · have := (List.pairwise_cons.1 hsf).1 x hxt
          linarith
      rw [if_pos hlt, this]
      rfl
    · have hha : h.1 = a := le_antisymm (not_lt.1 hlt) hah
      have : hasTime a xs = true := hasTime_iff.2 ⟨h, hh.1, hha⟩
      rw [if_neg hlt, this]
      rfl

/-- stage 1 quirk: when NO event reaches `a`, nothing is removed and `a` is not added -/
theorem evMin_none_reach {xs : List (Rat × L)} {a : Rat} (minLab : L) (hne : xs ≠ [])
    (hall : ∀ x ∈ xs, x.1 < a) : evMin a minLab xs = .ok xs := by
  unfold evMin
  have hd : ∀ l : List (Rat × L), (∀ x ∈ l, x.1 < a) → l.dropWhile (fun x => decide (x.1 < a)) = [] := by
    intro l
    induction l with
    | nil => intro _; rfl
    | cons y r ih =>
      intro hl
      simp only [List.dropWhile_cons, hl y List.mem_cons_self, decide_true, if_true]
      exact ih (fun x hx => hl x (List.mem_cons_of_mem _ hx))
  have hd := hd xs hall
  rw [hd]
  cases xs with
  | nil => exact absurd rfl hne
  | cons h t =>
    simp only
    rw [if_neg (not_lt.2 (le_of_lt (hall h List.mem_cons_self)))]

/-- stage 2 when some event is `≤ b`: the events `≤ b` in order, `b` appended unless it is an event time -/
theorem evMax_spec {x1 : List (Rat × L)} {b : Rat} (maxLab : L) (hs : EvSorted x1) (hex : ∃ x ∈ x1, x.1 ≤ b) :
    evMax b maxLab x1 =
      .ok (x1.filter (fun x => decide (x.1 ≤ b)) ++ (if hasTime b x1 then [] else [(b, maxLab)])) := by
  unfold evMax
  rw [takeWhile_eq_filter hs]
  simp only
  cases hl : (x1.filter (fun x => decide (x.1 ≤ b))).getLast? with
  | none =>
    rw [List.getLast?_eq_none_iff] at hl
    obtain ⟨x, hx, hxb⟩ := hex
    have := List.filter_eq_nil_iff.1 hl x hx
    simp only [decide_eq_true_eq] at this
    exact absurd hxb this
  | some z =>
    have hzm := List.mem_filter.1 (List.mem_of_getLast? hl)
    have hzb : z.1 ≤ b := by simpa using hzm.2
    simp only
    by_cases hlt : z.1 < b
    · have : hasTime b x1 = false := by
        rw [Bool.eq_false_iff]
        intro ht
        obtain ⟨x, hx, hxb⟩ := hasTime_iff.1 ht
        have hxm : x ∈ x1.filter (fun x => decide (x.1 ≤ b)) := List.mem_filter.2 ⟨hx, by simp [hxb]⟩
        have := evSorted_le_last (hs.filter _) hl x hxm
        linarith
      rw [if_pos hlt, this]
      rfl
    · have hzb' : z.1 = b := le_antisymm hzb (not_lt.1 hlt)
      have : hasTime b x1 = true := hasTime_iff.2 ⟨z, hzm.1, hzb'⟩
      rw [if_neg hlt, this]
      simp

/-- stage 2 when the first event is already after `b` (or there is none): `events[-1]` of an empty array -/
theorem evMax_raises {x1 : List (Rat × L)} {b : Rat} (maxLab : L)
    (h : ∀ x, x1.head? = some x → b < x.1) : evMax b maxLab x1 = .error .indexError := by
  unfold evMax
  cases x1 with
  | nil => rfl
  | cons x r =>
    have := h x rfl
    simp [not_le.2 this]

/-- stage 2 when every event is before `b`: all kept, `b` appended (no ordering needed) -/
theorem evMax_all_below {x1 : List (Rat × L)} {b : Rat} (maxLab : L) (hne : x1 ≠ [])
    (hall : ∀ x ∈ x1, x.1 < b) : evMax b maxLab x1 = .ok (x1 ++ [(b, maxLab)]) := by
  unfold evMax
  have ht : ∀ l : List (Rat × L), (∀ x ∈ l, x.1 < b) → l.takeWhile (fun x => decide (x.1 ≤ b)) = l := by
    intro l
    induction l with
    | nil => intro _; rfl
    | cons y r ih =>
      intro hl
      simp only [List.takeWhile_cons, le_of_lt (hl y List.mem_cons_self), decide_true, if_true]
      rw [ih (fun x hx => hl x (List.mem_cons_of_mem _ hx))]
  have ht := ht x1 hall
  rw [ht]
  simp only
  cases hl : x1.getLast? with
  | none => rw [List.getLast?_eq_none_iff] at hl; exact absurd hl hne
  | some z =>
    simp only
    rw [if_pos (hall z (List.mem_of_getLast? hl))]

theorem hasTime_filter_ge {a b : Rat} (hab : a ≤ b) (xs : List (Rat × L)) :
    hasTime b (xs.filter (fun x => decide (a ≤ x.1))) = hasTime b xs := by
  rw [Bool.eq_iff_iff, hasTime_iff, hasTime_iff]
  constructor
  · rintro ⟨x, hx, hxb⟩; exact ⟨x, (List.mem_filter.1 hx).1, hxb⟩
  · rintro ⟨x, hx, hxb⟩; exact ⟨x, List.mem_filter.2 ⟨hx, by simp [hxb, hab]⟩, hxb⟩

theorem filter_filter_range (a b : Rat) (xs : List (Rat × L)) :
    (xs.filter (fun x => decide (a ≤ x.1))).filter (fun x => decide (x.1 ≤ b)) =
      xs.filter (fun x => decide (a ≤ x.1) && decide (x.1 ≤ b)) := by
  rw [List.filter_filter]
  apply List.filter_congr
  intro x _
  exact Bool.and_comm _ _

end Mir.Iv
