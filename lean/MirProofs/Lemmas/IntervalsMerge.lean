import MirProofs.Lemmas.Intervals

/-! Lemmas about `merge_labeled_intervals` (C13 `merge_refinement`, C12 refinement invariance). -/
namespace Mir.Iv

variable {L M : Type}

/-! ### consecutive pairs of a strictly increasing list -/

theorem mem_pairs {bs : List Rat} {pq : Rat × Rat} (h : pq ∈ pairs bs) : pq.1 ∈ bs ∧ pq.2 ∈ bs := by
  induction bs with
  | nil => cases h
  | cons a r ih =>
    cases r with
    | nil => cases h
    | cons b tl =>
      rw [pairs_cons_cons] at h
      rcases List.mem_cons.1 h with rfl | h
      · simp
      · have := ih h
        exact ⟨List.mem_cons_of_mem _ this.1, List.mem_cons_of_mem _ this.2⟩

/-- consecutive entries: nothing of the list lies strictly between them -/
theorem pairs_consecutive {bs : List Rat} (hs : SSorted bs) {pq : Rat × Rat} (h : pq ∈ pairs bs) :
    pq.1 < pq.2 ∧ ∀ v ∈ bs, v ≤ pq.1 ∨ pq.2 ≤ v := by
  induction bs with
  | nil => cases h
  | cons a r ih =>
    cases r with
    | nil => cases h
    | cons b tl =>
      have p1 := List.pairwise_cons.1 hs
      rw [pairs_cons_cons] at h
      rcases List.mem_cons.1 h with rfl | h
      · refine ⟨p1.1 b List.mem_cons_self, ?_⟩
        intro v hv
        rcases List.mem_cons.1 hv with rfl | hv
        · exact Or.inl (le_refl _)
        · rcases List.mem_cons.1 hv with rfl | hv'
          · exact Or.inr (le_refl _)
          · exact Or.inr (le_of_lt ((List.pairwise_cons.1 p1.2).1 v hv'))
      · have := ih p1.2 h
        have hmem := (mem_pairs h).1
        refine ⟨this.1, ?_⟩
        intro v hv
        rcases List.mem_cons.1 hv with hva | hv
        · rw [hva]; exact Or.inl (le_of_lt (p1.1 _ hmem))
        · exact this.2 v hv

theorem sorted_head_le {h : Rat} {tl : List Rat} (hs : SSorted (h :: tl)) {v : Rat} (hv : v ∈ h :: tl) :
    h ≤ v := by
  rcases List.mem_cons.1 hv with rfl | hv
  · exact le_refl _
  · exact le_of_lt ((List.pairwise_cons.1 hs).1 v hv)

theorem sorted_le_last {bs : List Rat} (hs : SSorted bs) {z : Rat} (hz : bs.getLast? = some z) :
    ∀ v ∈ bs, v ≤ z := by
  induction bs with
  | nil => cases hz
  | cons a r ih =>
    cases r with
    | nil =>
      simp at hz; subst hz
      intro v hv; simp at hv; subst hv; exact le_refl _
    | cons b tl =>
      rw [List.getLast?_cons_cons] at hz
      have p1 := List.pairwise_cons.1 hs
      have := ih p1.2 hz
      intro v hv
      rcases List.mem_cons.1 hv with rfl | hv
      · exact le_trans (le_of_lt (p1.1 b List.mem_cons_self)) (this b List.mem_cons_self)
      · exact this v hv

/-- durations of consecutive pairs telescope -/
theorem qsum_pairs (a : Rat) (tl : List Rat) {z : Rat} (hz : (a :: tl).getLast? = some z) :
    qsum ((pairs (a :: tl)).map fun p => p.2 - p.1) = z - a := by
  induction tl generalizing a with
  | nil => simp at hz; subst hz; simp [pairs, qsum]
  | cons b tl' ih =>
    rw [List.getLast?_cons_cons] at hz
    rw [pairs_cons_cons, List.map_cons, qsum, ih b hz]
    show b - a + (z - b) = z - a
    linarith

/-! ### `lastStarted` on a contiguous segmentation -/

theorem lastStarted_none_of {xs : LI L} {p : Rat} (h : ∀ x ∈ xs, p < x.1) : lastStarted xs p = none := by
  induction xs with
  | nil => rfl
  | cons x r ih =>
    simp only [lastStarted, ih (fun y hy => h y (List.mem_cons_of_mem _ hy))]
    simp [not_le.2 (h x List.mem_cons_self)]

theorem lastStarted_contig {lo hi p : Rat} {xs : LI L} (hc : Contig lo xs) {z : Rat × Rat × L}
    (hz : xs.getLast? = some z) (hhi : z.2.1 = hi) (h1 : lo ≤ p) (h2 : p < hi) :
    ∃ row ∈ xs, row.1 ≤ p ∧ p < row.2.1 ∧ lastStarted xs p = some row.2.2 := by
  induction xs generalizing lo with
  | nil => cases hz
  | cons x r ih =>
    have hlo : lo = x.1 := hc.1
    by_cases hp : p < x.2.1
    · refine ⟨x, List.mem_cons_self, hlo ▸ h1, hp, ?_⟩
      have : lastStarted r p = none := by
        apply lastStarted_none_of
        intro y hy
        have := (hc.2.2.chain.lb y hy).1
        linarith
      simp only [lastStarted, this]
      simp [hlo ▸ h1]
    · cases r with
      | nil =>
        simp at hz; subst hz
        exact absurd (hhi ▸ h2) hp
      | cons y r' =>
        rw [List.getLast?_cons_cons] at hz
        obtain ⟨row, hrow, hr1, hr2, hr3⟩ := ih hc.2.2 hz (not_lt.1 hp)
        refine ⟨row, List.mem_cons_of_mem _ hrow, hr1, hr2, ?_⟩
        simp only [lastStarted] at hr3 ⊢
        rw [hr3]

/-! ### `mergeRows` -/

theorem mapM_ok_exists {α β : Type} (f : α → Py β) (P : α → β → Prop) (l : List α)
    (h : ∀ a ∈ l, ∃ b, f a = .ok b ∧ P a b) :
    ∃ bs, l.mapM f = .ok bs ∧ List.Forall₂ P l bs := by
  induction l with
  | nil => exact ⟨[], by simp [pure, Except.pure], List.Forall₂.nil⟩
  | cons a r ih =>
    obtain ⟨b, hb, hP⟩ := h a List.mem_cons_self
    obtain ⟨bs, hbs, hF⟩ := ih (fun a' ha' => h a' (List.mem_cons_of_mem _ ha'))
    refine ⟨b :: bs, ?_, List.Forall₂.cons hP hF⟩
    rw [List.mapM_cons, hb, hbs]
    rfl

/-- what one row of the merge is, relative to the pair of boundaries it was built from -/
def RowOf (x : LI L) (y : LI M) (pq : Rat × Rat) (row : Rat × Rat × L × M) : Prop :=
  row.1 = pq.1 ∧ row.2.1 = pq.2 ∧ lastStarted x pq.1 = some row.2.2.1 ∧ lastStarted y pq.1 = some row.2.2.2

theorem mergeRows_ok {x : LI L} {y : LI M} {bs : List Rat}
    (h : ∀ pq ∈ pairs bs, ∃ lx ly, lastStarted x pq.1 = some lx ∧ lastStarted y pq.1 = some ly) :
    ∃ out, mergeRows x y bs = .ok out ∧ List.Forall₂ (RowOf x y) (pairs bs) out := by
  unfold mergeRows
  apply mapM_ok_exists
  intro pq hpq
  obtain ⟨lx, ly, h1, h2⟩ := h pq hpq
  exact ⟨(pq.1, pq.2, lx, ly), by simp only [h1, h2], rfl, rfl, h1, h2⟩

theorem forall₂_ivals {x : LI L} {y : LI M} {ps : Ivals} {out : LI (L × M)}
    (h : List.Forall₂ (RowOf x y) ps out) : ivals out = ps := by
  induction h with
  | nil => rfl
  | cons hr _ ih =>
    simp only [ivals, List.map_cons] at ih ⊢
    rw [ih, hr.1, hr.2.1]

theorem forall₂_mem {x : LI L} {y : LI M} {ps : Ivals} {out : LI (L × M)}
    (h : List.Forall₂ (RowOf x y) ps out) {row : Rat × Rat × L × M} (hrow : row ∈ out) :
    ∃ pq ∈ ps, RowOf x y pq row := by
  induction h with
  | nil => cases hrow
  | cons hr _ ih =>
    rcases List.mem_cons.1 hrow with rfl | hrow
    · exact ⟨_, List.mem_cons_self, hr⟩
    · obtain ⟨pq, hpq, h⟩ := ih hrow
      exact ⟨pq, List.mem_cons_of_mem _ hpq, h⟩

theorem contig_of_pairs {bs : List Rat} (hs : SSorted bs) {out : LI L} (h : ivals out = pairs bs)
    {lo : Rat} (hlo : bs.head? = some lo) : Contig lo out := by
  induction bs generalizing out lo with
  | nil => cases hlo
  | cons a r ih =>
    simp at hlo; subst hlo
    cases r with
    | nil =>
      cases out with
      | nil => trivial
      | cons o out' => simp [ivals, pairs] at h
    | cons b tl =>
      rw [pairs_cons_cons] at h
      cases out with
      | nil => simp [ivals] at h
      | cons o out' =>
        simp only [ivals, List.map_cons, List.cons.injEq, Prod.mk.injEq] at h
        have p1 := List.pairwise_cons.1 hs
        refine ⟨h.1.1.symm, ?_, ?_⟩
        · rw [h.1.1, h.1.2]; exact p1.1 b List.mem_cons_self
        · rw [h.1.2]; exact ih p1.2 h.2 rfl

theorem entries_bounds {lo hi : Rat} {xs : LI L} (hc : Contig lo xs) {z : Rat × Rat × L}
    (hz : xs.getLast? = some z) (hhi : z.2.1 = hi) : ∀ v ∈ entries xs, lo ≤ v ∧ v ≤ hi := by
  intro v hv
  obtain ⟨row, hrow, hv⟩ := mem_entries.1 hv
  have h1 := hc.chain.lb row hrow
  have h2 := (hc.chain.wchain.le_last hz).2 row hrow
  rw [hhi] at h2
  rcases hv with rfl | rfl
  · exact ⟨h1.1, h2.1⟩
  · exact ⟨by linarith [h1.1, h1.2], h2.2⟩

/-- The merge of two aligned contiguous segmentations is their common refinement. -/
theorem mergeLabeled_refines {lo hi : Rat} {x : LI L} {y : LI M} (hx : Contig lo x) (hy : Contig lo y)
    {zx : Rat × Rat × L} {zy : Rat × Rat × M} (hzx : x.getLast? = some zx) (hzy : y.getLast? = some zy)
    (hxe : zx.2.1 = hi) (hye : zy.2.1 = hi) :
    ∃ out, mergeLabeled x y = .ok out ∧
      ivals out = pairs (usort (entries x ++ entries y)) ∧
      Contig lo out ∧
      (∀ row ∈ out, ∀ t, row.1 ≤ t → t < row.2.1 →
        labelAt x t = some row.2.2.1 ∧ labelAt y t = some row.2.2.2) ∧
      qsum ((ivals out).map fun p => p.2 - p.1) = hi - lo := by
  cases x with
  | nil => cases hzx
  | cons x0 rx =>
  cases y with
  | nil => cases hzy
  | cons y0 ry =>
  have hx0 : lo = x0.1 := hx.1
  have hy0 : lo = y0.1 := hy.1
  have hbx := entries_bounds hx hzx hxe
  have hby := entries_bounds hy hzy hye
  have hbs := usort_sorted (entries (x0 :: rx) ++ entries (y0 :: ry))
  have hmem : ∀ v, v ∈ usort (entries (x0 :: rx) ++ entries (y0 :: ry)) → lo ≤ v ∧ v ≤ hi := by
    intro v hv
    rw [mem_usort, List.mem_append] at hv
    rcases hv with hv | hv
    · exact hbx v hv
    · exact hby v hv
  have hlo_mem : lo ∈ usort (entries (x0 :: rx) ++ entries (y0 :: ry)) := by
    rw [mem_usort, List.mem_append]; left; rw [hx0]; simp [entries]
  have hhi_mem : hi ∈ usort (entries (x0 :: rx) ++ entries (y0 :: ry)) := by
    rw [mem_usort, List.mem_append]; left
    exact mem_entries.2 ⟨zx, List.mem_of_getLast? hzx, Or.inr hxe.symm⟩
  -- range of every left boundary
  have hrange : ∀ pq ∈ pairs (usort (entries (x0 :: rx) ++ entries (y0 :: ry))), lo ≤ pq.1 ∧ pq.1 < hi := by
    intro pq hpq
    have h1 := mem_pairs hpq
    have h2 := pairs_consecutive hbs hpq
    exact ⟨(hmem _ h1.1).1, lt_of_lt_of_le h2.1 (hmem _ h1.2).2⟩
  obtain ⟨out, hout, hF⟩ := mergeRows_ok (x := x0 :: rx) (y := y0 :: ry)
    (bs := usort (entries (x0 :: rx) ++ entries (y0 :: ry))) (by
      intro pq hpq
      obtain ⟨h1, h2⟩ := hrange pq hpq
      obtain ⟨r1, _, _, _, e1⟩ := lastStarted_contig hx hzx hxe h1 h2
      obtain ⟨r2, _, _, _, e2⟩ := lastStarted_contig hy hzy hye h1 h2
      exact ⟨_, _, e1, e2⟩)
  have hiv := forall₂_ivals hF
  refine ⟨out, ?_, hiv, ?_, ?_, ?_⟩
  · unfold mergeLabeled
    simp only [List.head?_cons, hzx, hzy]
    rw [if_pos ⟨by rw [← hx0, ← hy0], by rw [hxe, hye]⟩]
    exact hout
  · cases hb : usort (entries (x0 :: rx) ++ entries (y0 :: ry)) with
    | nil => rw [hb] at hlo_mem; cases hlo_mem
    | cons h tl =>
      rw [hb] at hbs hlo_mem hiv
      have : h = lo := le_antisymm (sorted_head_le hbs hlo_mem) (hmem h (by rw [hb]; simp)).1
      subst this
      exact contig_of_pairs hbs hiv rfl
  · intro row hrow t ht1 ht2
    obtain ⟨pq, hpq, hr1, hr2, hr3, hr4⟩ := forall₂_mem hF hrow
    obtain ⟨h1, h2⟩ := hrange pq hpq
    have hcons := (pairs_consecutive hbs hpq).2
    rw [hr1] at ht1
    rw [hr2] at ht2
    constructor
    · obtain ⟨r1, hr1m, c1, c2, e1⟩ := lastStarted_contig hx hzx hxe h1 h2
      rw [hr3] at e1; rw [Option.some.inj e1]
      have : r1.2.1 ∈ usort (entries (x0 :: rx) ++ entries (y0 :: ry)) := by
        rw [mem_usort, List.mem_append]; left; exact mem_entries.2 ⟨r1, hr1m, Or.inr rfl⟩
      rcases hcons _ this with h | h
      · linarith
      · exact labelAt_chain_mem hx.chain hr1m (by linarith) (by linarith)
    · obtain ⟨r2, hr2m, c1, c2, e2⟩ := lastStarted_contig hy hzy hye h1 h2
      rw [hr4] at e2; rw [Option.some.inj e2]
      have : r2.2.1 ∈ usort (entries (x0 :: rx) ++ entries (y0 :: ry)) := by
        rw [mem_usort, List.mem_append]; right; exact mem_entries.2 ⟨r2, hr2m, Or.inr rfl⟩
      rcases hcons _ this with h | h
      · linarith
      · exact labelAt_chain_mem hy.chain hr2m (by linarith) (by linarith)
  · rw [hiv]
    cases hb : usort (entries (x0 :: rx) ++ entries (y0 :: ry)) with
    | nil => rw [hb] at hlo_mem; cases hlo_mem
    | cons h tl =>
      rw [hb] at hbs hlo_mem hhi_mem
      have hh : h = lo := le_antisymm (sorted_head_le hbs hlo_mem) (hmem h (by rw [hb]; simp)).1
      obtain ⟨z, hz⟩ : ∃ z, (h :: tl).getLast? = some z := by
        cases hl : (h :: tl).getLast? with
        | none => simp at hl
        | some z => exact ⟨z, rfl⟩
      have hzhi : z = hi :=
        le_antisymm (hmem z (by rw [hb]; exact List.mem_of_getLast? hz)).2 (sorted_le_last hbs hz hi hhi_mem)
      rw [qsum_pairs h tl hz, hh, hzhi]

end Mir.Iv
