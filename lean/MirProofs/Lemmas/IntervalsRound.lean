import MirProofs.Lemmas.Intervals
import Mathlib.Tactic.FieldSimp
import Mathlib.Tactic.Positivity
import Mathlib.Tactic.Ring
import Mathlib.Algebra.Order.Floor.Ring

/-!
  Two complements to `Lemmas/Intervals.lean`:

  * `np.round(·, q)` moves a time by at most `½·10^-q`; on a contiguous segmentation whose ROUNDED row ends stay
    strictly after the rounded row starts (in particular when every row lasts longer than `10^-q`),
    `boundaries_to_intervals ∘ intervals_to_boundaries` returns the segmentation with every time rounded — the
    "up to round5" reading of the round trip, for times that are not 5-decimal exact;
  * on a sorted, non-overlapping annotation WITH GAPS the closed-span denotation `labelAtC` (what the code's
    `searchsorted` sampling computes) is the half-open denotation `labelAt`, completed at the instants where a row
    ends and no row begins by the label of the row that ends there (`endLabel`).
-/
namespace Mir.Iv

variable {L : Type}

/-! ### rounding -/

theorem roundHalfEven_near (y : Rat) : ((roundHalfEven y : Int) : Rat) - y ≤ 1 / 2 ∧ y - ((roundHalfEven y : Int) : Rat) ≤ 1 / 2 := by
  have h1 : ((y.floor : Int) : Rat) ≤ y := Rat.floor_le y
  have h2 : y < ((y.floor : Int) : Rat) + 1 := by
    have := Rat.lt_floor_add_one y
    push_cast at this
    exact this
  unfold roundHalfEven
  simp only
  split_ifs with ha hb hc
  · constructor <;> linarith
  · push_cast; constructor <;> linarith
  · constructor <;> linarith
  · push_cast; constructor <;> linarith

theorem roundDec_near (q : Nat) (x : Rat) :
    roundDec q x - x ≤ 1 / (2 * (10 : Rat) ^ q) ∧ x - roundDec q x ≤ 1 / (2 * (10 : Rat) ^ q) := by
  have hp : (0 : Rat) < (10 : Rat) ^ q := by positivity
  obtain ⟨h1, h2⟩ := roundHalfEven_near (x * (10 : Rat) ^ q)
  unfold roundDec
  constructor
  · rw [div_sub' hp.ne', div_le_div_iff₀ hp (by positivity)]
    nlinarith
  · rw [sub_div' hp.ne', div_le_div_iff₀ hp (by positivity)]
    nlinarith

/-- two times more than `10^-q` apart keep their order under `np.round(·, q)` -/
theorem roundDec_lt_of_gap (q : Nat) {s e : Rat} (h : 1 / (10 : Rat) ^ q < e - s) : roundDec q s < roundDec q e := by
  have hp : (0 : Rat) < (10 : Rat) ^ q := by positivity
  obtain ⟨h1, -⟩ := roundDec_near q s
  obtain ⟨-, h2⟩ := roundDec_near q e
  have : 1 / (2 * (10 : Rat) ^ q) + 1 / (2 * (10 : Rat) ^ q) = 1 / (10 : Rat) ^ q := by
    field_simp; ring
  linarith

/-- the annotation with every time rounded to `q` decimals -/
def roundRows (q : Nat) (xs : LI L) : LI L := xs.map fun x => (roundDec q x.1, roundDec q x.2.1, x.2.2)

theorem entries_roundRows (q : Nat) (xs : LI L) : entries (roundRows q xs) = (entries xs).map (roundDec q) := by
  induction xs with
  | nil => rfl
  | cons x r ih =>
    simp only [roundRows, List.map_cons, entries] at ih ⊢
    rw [ih]

theorem contig_roundRows (q : Nat) {lo : Rat} {xs : LI L} (hc : Contig lo xs)
    (hpos : ∀ x ∈ xs, roundDec q x.1 < roundDec q x.2.1) : Contig (roundDec q lo) (roundRows q xs) := by
  induction xs generalizing lo with
  | nil => trivial
  | cons x r ih =>
    obtain ⟨h1, _, h3⟩ := hc
    refine ⟨by rw [h1], hpos x (by simp), ?_⟩
    exact ih h3 (fun y hy => hpos y (by simp [hy]))

/-- the round trip boundaries → intervals on a contiguous segmentation, times NOT assumed 5-decimal exact -/
theorem b2i_i2b_roundRows {lo : Rat} {xs : LI L} (hc : Contig lo xs)
    (hpos : ∀ x ∈ xs, roundDec 5 x.1 < roundDec 5 x.2.1) :
    boundariesToIntervals (intervalsToBoundaries (ivals xs)) = .ok (ivals (roundRows 5 xs)) := by
  have hc' := contig_roundRows 5 hc hpos
  unfold intervalsToBoundaries
  rw [entriesP_ivals, ← entries_roundRows, b2i_sorted (usort_sorted _), usort_entries_contig hc',
    pairs_bounds_contig hc']

/-! ### annotations with gaps: closed spans vs. half-open spans -/

/-- the label of the first row (by position) that ends exactly at `t` -/
def endLabel : LI L → Rat → Option L
  | [], _ => none
  | x :: r, t => if x.2.1 = t then some x.2.2 else endLabel r t

theorem endLabel_some_gt {lo : Rat} {xs : LI L} (hc : Chain lo xs) {t : Rat} {l : L}
    (h : endLabel xs t = some l) : lo < t := by
  induction xs generalizing lo with
  | nil => simp [endLabel] at h
  | cons x r ih =>
    obtain ⟨h1, h2, h3⟩ := hc
    unfold endLabel at h
    split_ifs at h with hx
    · rw [← hx]; exact lt_of_le_of_lt h1 h2
    · exact lt_trans (lt_of_le_of_lt h1 h2) (ih h3 h)

theorem labelAt_some_ge {lo : Rat} {xs : LI L} (hc : Chain lo xs) {t : Rat} {l : L}
    (h : labelAt xs t = some l) : lo ≤ t := by
  induction xs generalizing lo l with
  | nil => simp [labelAt] at h
  | cons x r ih =>
    obtain ⟨h1, h2, h3⟩ := hc
    simp only [labelAt] at h
    cases hr : labelAt r t with
    | some l' => exact le_trans (le_of_lt (lt_of_le_of_lt h1 h2)) (ih h3 hr)
    | none =>
      rw [hr] at h
      simp only at h
      split_ifs at h with hx
      exact le_trans h1 hx.1

/-- **closed vs. half-open denotation on a sorted annotation with gaps**: they agree wherever the half-open one is
    defined; elsewhere the closed one is the label of the row ending exactly there (if any). -/
theorem labelAtC_chain {lo : Rat} {xs : LI L} (hc : Chain lo xs) (t : Rat) :
    labelAtC xs t = (labelAt xs t).or (endLabel xs t) := by
  induction xs generalizing lo with
  | nil => rfl
  | cons x r ih =>
    obtain ⟨h1, h2, h3⟩ := hc
    simp only [labelAtC, labelAt, endLabel]
    rw [ih h3]
    cases hr : labelAt r t with
    | some l => rfl
    | none =>
      simp only [Option.none_or]
      cases he : endLabel r t with
      | some l' =>
        have hgt : x.2.1 < t := endLabel_some_gt h3 he
        have hn1 : ¬ (x.1 ≤ t ∧ t < x.2.1) := fun h => absurd h.2 (not_lt.2 (le_of_lt hgt))
        have hn2 : ¬ (x.2.1 = t) := ne_of_lt hgt
        simp only [hn1, hn2, if_false, Option.none_or]
      | none =>
        simp only
        by_cases ha : x.1 ≤ t ∧ t < x.2.1
        · have hb : x.1 ≤ t ∧ t ≤ x.2.1 := ⟨ha.1, le_of_lt ha.2⟩
          simp only [ha, hb, and_self, if_true, Option.some_or]
        · by_cases hb : x.2.1 = t
          · subst hb
            simp [le_of_lt h2]
          · have hc' : ¬ (x.1 ≤ t ∧ t ≤ x.2.1) := by
              rintro ⟨h5, h6⟩
              rcases lt_or_eq_of_le h6 with h7 | h7
              · exact ha ⟨h5, h7⟩
              · exact hb h7.symm
            simp only [ha, hb, hc', if_false, Option.none_or]

end Mir.Iv
